(* AmgBlockCycleSym3Cheb.v -- C02 for block value types, the Chebyshev smoother over a NON-COMMUTATIVE ring with an
   involutive anti-automorphism: port of AmgCycleSymCheb.v (same recurrence X_k, P_k).  The sweep is consistent whatever the
   coefficients are (right-linearity of the sweep + fixed point); N = sweep (., 0) is hermitian w.r.t. ipH for a hermitian
   matrix as soon as the coefficients alpha_k, beta_k (k < degree) are CENTRAL and HERMITIAN (at the block instance:
   embedded self-conjugate base scalars c*I, which is what the constructor produces from embedded lower / higher and the
   Gershgorin bound) and the entries of the scaling vector (inverted diagonal blocks, scale = true) are hermitian:
   cheby_coefs_herm, a finite condition with a boolean form at the block instance (cheby_coefs_hermb).
   block_apply_herm_cheby: hierarchies of amg_init smoothed by chebyshev on every level, any k = npre = npost, ncycle,
   pre_cycles. *)
From Coq Require Import ZifyBool.
From Amgcl Require Import Scalar Vec Crs Kernels KernelsProofs MatOps MatOpsProofs Relax DenseSolve
  Amg AmgExec AmgProofs AmgProofs2 AmgProofs3 AmgProofs4 AmgProofs6 AmgProofs7 NcRing NcKernels AmgBlockNc Cheby ChebyProofs
  BlockRelaxProofsCheby AmgBlockCycle AmgBlockCycleProofs AmgBlockCycleLin AmgBlockCycleSym AmgBlockCycleSym2
  AmgBlockCycleSym2Gs AmgBlockCycleSym2Built AmgCycleSymCheb.
Local Open Scope S_scope.
Local Notation SS := Datatypes.S.

Section NcChebSym.
Context {S : Scalar}.
Local Notation vec := (vec S).
Local Notation crs := (crs S).
Local Notation sweep := (@sweep S).
Hypothesis Hnc : ncring_theory S.
Hypothesis Seqb : seqb_spec S.
Local Instance ncsy7 : NcRingInst S := ncring_inst Hnc.
Hypothesis adj_add : forall a b : S, sadj (a + b) = sadj a + sadj b.
Hypothesis adj_mul : forall a b : S, sadj (a * b) = sadj b * sadj a.
Hypothesis adj_inv : forall a : S, sadj (sadj a) = a.

Definition central (a : S) : Prop := forall x : S, a * x = x * a.
Lemma central_1 : central s1.
Proof. intro x. ncr. Qed.
Lemma central_m1 : central (- s1).
Proof. intro x. ncr. Qed.

Variables (c d : S) (M : option vec) (A : crs).
Local Notation n := (nrows A).
Hypothesis Hwf : wf A = true.
Hypothesis HM : forall m, M = Some m -> length m = n.
Local Notation al := (al c d).
Local Notation be := (be c d).
Local Notation mu := (mu M).
Local Notation X := (X c d M A).
Local Notation P := (P c d M A).

Lemma nprec_mu i v : nch_prec M i v = mu i * v.
Proof. unfold AmgCycleSymCheb.mu, ch_prec, nch_prec. destruct M; ncr. Qed.

(* A x for x = a u + b v with central coefficients *)
Lemma nc_Ax_clin (a b : S) (x u v : vec) i : central a -> central b ->
  length x = n -> length u = n -> length v = n ->
  (forall j, j < n -> vget x j = a * vget u j + b * vget v j) ->
  Ax A x i = a * Ax A u i + b * Ax A v i.
Proof.
  intros Ca Cb Lx Lu Lv H. unfold Ax.
  rewrite <- !(ncsumn_scal_l Hnc), <- (ncsumn_add Hnc). apply sumn_ext. intros j _.
  destruct (lt_dec j n) as [Hj|Hj].
  - rewrite (H j Hj).
    transitivity ((mget A i j * a) * vget u j + (mget A i j * b) * vget v j); [ncr|].
    rewrite <- (Ca (mget A i j)), <- (Cb (mget A i j)). ncr.
  - rewrite !nch_vget_over by lia. ncr.
Qed.

Lemma nc_Ax_zero_vec (z : vec) i : length z = n -> (forall j, j < n -> vget z j = s0) -> Ax A z i = s0.
Proof.
  intros Lz Hz. rewrite (nc_Ax_clin s1 s1 z z z i central_1 central_1 Lz Lz Lz).
  - rewrite (nch_Ax_ext A z (vzero n) n i Lz (repeat_length _ _)).
    + rewrite (nc_Ax_zero Hnc). ncr.
    + intros j Hj. rewrite (Hz j Hj), nc_vget_vzero. reflexivity.
  - intros j Hj. rewrite (Hz j Hj). ncr.
Qed.

(* ---------- the model's solve() started at a zero vector computes X degree f ---------- *)
Lemma nc_fold_is_XP (f x0 : vec) : length f = n -> length x0 = n -> (forall i, i < n -> vget x0 i = s0) ->
  forall k (p r : vec), length p = n -> length r = n ->
  exists x' p' r' : vec,
    fold_left (cheby_step c_two c_quarter c d M A f) (seq 0 k) (x0, p, r, s0) = (x', p', r', alph c d k) /\
    length x' = n /\ length p' = n /\ length r' = n /\
    (forall i, i < n -> vget x' i = vget (X k f) i) /\
    (1 <= k -> forall i, i < n -> vget p' i = vget (P k f) i).
Proof.
  intros Lf Lx0 Hx0. induction k as [|k IH]; intros p r Lp Lr.
  - exists x0, p, r. cbn [seq fold_left alph]. repeat split; auto.
    + intros i Hi. rewrite X_0 by exact Hi. apply Hx0, Hi.
    + intros H. lia.
  - rewrite seq_S, fold_left_app. cbn [Nat.add fold_left].
    destruct (IH p r Lp Lr) as (x1 & p1 & r1 & E1 & Lx1 & Lp1 & Lr1 & Gx1 & Gp1). rewrite E1.
    destruct (nch_step_spec Hnc Seqb c_two c_quarter c d M A f x1 p1 r1 (alph c d k) k Hwf Lf Lx1 Lp1 Lr1 HM)
      as (x' & p' & r' & E & Lx' & Lp' & Lr' & Gp' & Gx').
    exists x', p', r'. split; [exact E|]. split; [exact Lx'|]. split; [exact Lp'|]. split; [exact Lr'|].
    assert (Pp : forall i, i < n -> vget p' i = vget (P (SS k) f) i).
    { intros i Hi. rewrite (Gp' i Hi), (P_S c d M A k f i Hi), nprec_mu.
      rewrite (nch_Ax_ext A x1 (X k f) n i Lx1 (X_len c d M A k f) Gx1).
      fold (al k). fold (be k).
      destruct k as [|k].
      - rewrite be_0. ncr.
      - rewrite (Gp1 ltac:(lia) i Hi). reflexivity. }
    split.
    + intros i Hi. rewrite (Gx' i Hi), (X_S c d M A k f i Hi), (Pp i Hi), (Gx1 i Hi). reflexivity.
    + intros _. exact Pp.
Qed.

Lemma nc_sweep_zero_is_X degree (f x0 p r : vec) : length f = n -> length x0 = n -> length p = n -> length r = n ->
  (forall i, i < n -> vget x0 i = s0) ->
  forall i, i < n -> vget (cheby_sweep (c, d, M) degree A f x0 p r) i = vget (X degree f) i.
Proof.
  intros Lf Lx0 Lp Lr Hx0. rewrite nch_sweep_solve. unfold cheby_solve.
  destruct (nc_fold_is_XP f x0 Lf Lx0 Hx0 degree p r Lp Lr) as (x' & p' & r' & E & Lx' & _ & _ & Gx & _).
  rewrite E. cbn [fst]. assumption.
Qed.

(* ---------- coefficient hypotheses: alpha_k, beta_k central and hermitian, the scaling entries hermitian ---------- *)
Variable degree : nat.
Hypothesis Hal : forall k, k < degree -> central (al k) /\ sadj (al k) = al k.
Hypothesis Hbe : forall k, k < degree -> central (be k) /\ sadj (be k) = be k.
Hypothesis Hmu : forall i, i < n -> sadj (mu i) = mu i.

Local Notation Mv := (Mv M A).
Local Notation AM := (AM M A).
Local Notation MA := (MA M A).

Lemma nc_XP_comm k : k <= degree -> forall g, length g = n ->
  (forall i, i < n -> vget (X k (AM g)) i = vget (MA (X k g)) i) /\
  (forall i, i < n -> vget (P k (AM g)) i = vget (MA (P k g)) i).
Proof.
  induction k as [|k IH]; intros Hk g Lg.
  - split; intros i Hi; unfold AmgCycleSymCheb.MA; rewrite mkv_get by exact Hi.
    + rewrite X_0 by exact Hi.
      rewrite (nc_Ax_zero_vec (X 0 g) i (X_len c d M A 0 g)) by (intros; apply X_0; assumption). ncr.
    + rewrite P_0 by exact Hi.
      rewrite (nc_Ax_zero_vec (P 0 g) i (P_len c d M A 0 g)) by (intros; apply P_0; assumption). ncr.
  - destruct (IH ltac:(lia) g Lg) as [IHx IHp].
    destruct (Hal k ltac:(lia)) as [Ca _]. destruct (Hbe k ltac:(lia)) as [Cb _].
    assert (Pp : forall i, i < n -> vget (P (SS k) (AM g)) i = vget (MA (P (SS k) g)) i).
    { intros i Hi. rewrite (P_S c d M A k (AM g) i Hi). unfold AmgCycleSymCheb.MA at 1. rewrite mkv_get by exact Hi.
      rewrite (nch_Ax_ext A (X k (AM g)) (MA (X k g)) n i (X_len _ _ _ _ _ _) (mkv_len _ _) IHx).
      rewrite (IHp i Hi). unfold AmgCycleSymCheb.MA at 2. rewrite mkv_get by exact Hi.
      unfold AmgCycleSymCheb.AM at 1. rewrite mkv_get by exact Hi.
      set (W := mkv n (fun j => mu j * (vget g j - Ax A (X k g) j))).
      assert (EW : Ax A W i = Ax A (Mv g) i - Ax A (MA (X k g)) i).
      { rewrite (nc_Ax_clin s1 (- s1) W (Mv g) (MA (X k g)) i central_1 central_m1 (mkv_len _ _) (mkv_len _ _) (mkv_len _ _)); [ncr|].
        intros j Hj. unfold W, AmgCycleSymCheb.Mv, AmgCycleSymCheb.MA. rewrite !mkv_get by exact Hj. ncr. }
      assert (EP : Ax A (P (SS k) g) i = al k * Ax A W i + be k * Ax A (P k g) i).
      { apply (nc_Ax_clin (al k) (be k) (P (SS k) g) W (P k g) i Ca Cb (P_len _ _ _ _ _ _) (mkv_len _ _) (P_len _ _ _ _ _ _)).
        intros j Hj. rewrite (P_S c d M A k g j Hj). unfold W. rewrite mkv_get by exact Hj. reflexivity. }
      rewrite EP, EW.
      set (Z := Ax A (Mv g) i - Ax A (MA (X k g)) i). set (Y := Ax A (P k g) i).
      transitivity (al k * (mu i * Z) + (be k * mu i) * Y); [ncr|].
      transitivity ((mu i * al k) * Z + (mu i * be k) * Y); [|ncr].
      rewrite <- (Ca (mu i)), <- (Cb (mu i)). ncr. }
    split; [|exact Pp].
    intros i Hi. rewrite (X_S c d M A k (AM g) i Hi), (Pp i Hi), (IHx i Hi). unfold AmgCycleSymCheb.MA. rewrite !mkv_get by exact Hi.
    rewrite (nc_Ax_clin s1 s1 (X (SS k) g) (P (SS k) g) (X k g) i central_1 central_1 (X_len _ _ _ _ _ _) (P_len _ _ _ _ _ _) (X_len _ _ _ _ _ _)); [ncr|].
    intros j Hj. rewrite (X_S c d M A k g j Hj). ncr.
Qed.

Hypothesis HA : herm_mat n A.

Lemma ipH_clin_l (a b : S) (x w z y : vec) : central a -> central b -> sadj a = a -> sadj b = b ->
  (forall i, i < n -> vget z i = a * vget x i + b * vget w i) ->
  ipH n z y = a * ipH n x y + b * ipH n w y.
Proof.
  intros Ca Cb Ha Hb H. unfold ipH. rewrite <- !(ncsumn_scal_l Hnc), <- (ncsumn_add Hnc). apply sumn_ext.
  intros i Hi. rewrite (H i Hi), adj_add, !adj_mul, Ha, Hb.
  transitivity (sadj (vget x i) * (a * vget y i) + sadj (vget w i) * (b * vget y i)); [ncr|].
  rewrite (Ca (vget y i)), (Cb (vget y i)).
  transitivity ((sadj (vget x i) * vget y i) * a + (sadj (vget w i) * vget y i) * b); [ncr|].
  rewrite <- (Ca (sadj (vget x i) * vget y i)), <- (Cb (sadj (vget w i) * vget y i)). reflexivity.
Qed.
Lemma ipH_clin_r (a b : S) (x w z y : vec) : central a -> central b ->
  (forall i, i < n -> vget z i = a * vget x i + b * vget w i) ->
  ipH n y z = a * ipH n y x + b * ipH n y w.
Proof.
  intros Ca Cb H. unfold ipH. rewrite <- !(ncsumn_scal_l Hnc), <- (ncsumn_add Hnc). apply sumn_ext.
  intros i Hi. rewrite (H i Hi).
  transitivity ((sadj (vget y i) * a) * vget x i + (sadj (vget y i) * b) * vget w i); [ncr|].
  rewrite <- (Ca (sadj (vget y i))), <- (Cb (sadj (vget y i))). ncr.
Qed.
Lemma ipH_zero_vec_l (z g : vec) : (forall i, i < n -> vget z i = s0) -> ipH n z g = s0.
Proof.
  intro H. unfold ipH. apply (ncsumn_zero_fun Hnc). intros i Hi. rewrite (H i Hi), (adj_0 Hnc adj_add). ncr.
Qed.
Lemma ipH_zero_vec_r (z f : vec) : (forall i, i < n -> vget z i = s0) -> ipH n f z = s0.
Proof. intro H. unfold ipH. apply (ncsumn_zero_fun Hnc). intros i Hi. rewrite (H i Hi). ncr. Qed.

Lemma nc_XP_sym k : k <= degree -> forall f g, length f = n -> length g = n ->
  ipH n (X k f) g = ipH n f (X k g) /\ ipH n (P k f) g = ipH n f (P k g).
Proof.
  induction k as [|k IH]; intros Hk f g Lf Lg.
  - split.
    + rewrite (ipH_zero_vec_l (X 0 f) g) by (intros; apply X_0; assumption).
      rewrite (ipH_zero_vec_r (X 0 g) f) by (intros; apply X_0; assumption). reflexivity.
    + rewrite (ipH_zero_vec_l (P 0 f) g) by (intros; apply P_0; assumption).
      rewrite (ipH_zero_vec_r (P 0 g) f) by (intros; apply P_0; assumption). reflexivity.
  - destruct (IH ltac:(lia) f g Lf Lg) as [IHx IHp].
    destruct HA as [HcA HsA].
    destruct (Hal k ltac:(lia)) as [Ca Ha]. destruct (Hbe k ltac:(lia)) as [Cb Hb].
    set (Wf := mkv n (fun j => mu j * (vget f j - Ax A (X k f) j))).
    set (Wg := mkv n (fun j => mu j * (vget g j - Ax A (X k g) j))).
    assert (E1 : ipH n Wf g = ipH n f (Mv g) - qL n A (X k f) (Mv g)).
    { unfold ipH, qL. rewrite <- (ncsumn_sub Hnc). apply sumn_ext. intros i Hi.
      unfold Wf, AmgCycleSymCheb.Mv. rewrite !mkv_get by exact Hi.
      rewrite adj_mul, (adj_sub Hnc adj_add), (Hmu i Hi). ncr. }
    assert (E2 : ipH n f Wg = ipH n f (Mv g) - ipH n f (MA (X k g))).
    { unfold ipH. rewrite <- (ncsumn_sub Hnc). apply sumn_ext. intros i Hi.
      unfold Wg, AmgCycleSymCheb.Mv, AmgCycleSymCheb.MA. rewrite !mkv_get by exact Hi. ncr. }
    assert (E3 : qL n A (X k f) (Mv g) = ipH n f (MA (X k g))).
    { rewrite (qL_adj Hnc adj_add adj_mul A A n n (X k f) (Mv g) HcA HcA) by (intros i j Hi Hj; apply HsA; assumption).
      rewrite <- (ipH_Ax_r n A (Mv g) (AM g) (X k f))
        by (intros i Hi; unfold AmgCycleSymCheb.AM; rewrite mkv_get by exact Hi; reflexivity).
      rewrite (proj1 (IH ltac:(lia) f (AM g) Lf (mkv_len _ _))).
      apply ipH_ext_r. apply (proj1 (nc_XP_comm k ltac:(lia) g Lg)). }
    assert (Pp : ipH n (P (SS k) f) g = ipH n f (P (SS k) g)).
    { rewrite (ipH_clin_l (al k) (be k) Wf (P k f) (P (SS k) f) g Ca Cb Ha Hb).
      2:{ intros i Hi. rewrite (P_S c d M A k f i Hi). unfold Wf. rewrite mkv_get by exact Hi. reflexivity. }
      rewrite (ipH_clin_r (al k) (be k) Wg (P k g) (P (SS k) g) f Ca Cb).
      2:{ intros i Hi. rewrite (P_S c d M A k g i Hi). unfold Wg. rewrite mkv_get by exact Hi. reflexivity. }
      rewrite E1, E2, E3, IHp. reflexivity. }
    split; [|exact Pp].
    rewrite (ipH_add_l Hnc adj_add n (P (SS k) f) (X k f) (X (SS k) f) g)
      by (intros i Hi; apply (X_S c d M A k f i Hi)).
    rewrite (ipH_add_r Hnc n f (P (SS k) g) (X k g) (X (SS k) g))
      by (intros i Hi; apply (X_S c d M A k g i Hi)).
    rewrite Pp, IHx. reflexivity.
Qed.

End NcChebSym.

(* ================================================================== *)
(* the sweeps of the chebyshev object over a non-commutative ring *)
Section NcChebSweeps.
Context {S : Scalar}.
Local Notation vec := (vec S).
Local Notation crs := (crs S).
Local Notation sweep := (@sweep S).
Hypothesis Hnc : ncring_theory S.
Hypothesis Seqb : seqb_spec S.
Local Instance ncsy8 : NcRingInst S := ncring_inst Hnc.
Hypothesis adj_add : forall a b : S, sadj (a + b) = sadj a + sadj b.
Hypothesis adj_mul : forall a b : S, sadj (a * b) = sadj b * sadj a.
Hypothesis adj_inv : forall a : S, sadj (sadj a) = a.

(* the side condition on one level: the coefficients of the recurrence are central and hermitian (embedded real scalars at
   the block instance), the entries of the scaling vector (inverted diagonal blocks) are hermitian *)
Definition cheby_coefs_herm (degree : nat) (lower higher : S) (scale : bool) (A : crs) : Prop :=
  let cdM := cheby_setup scale A (gershgorin scale A) lower higher (vzero (nrows A)) in
  (forall k, k < degree -> central (al (fst (fst cdM)) (snd (fst cdM)) k) /\
                            sadj (al (fst (fst cdM)) (snd (fst cdM)) k) = al (fst (fst cdM)) (snd (fst cdM)) k) /\
  (forall k, k < degree -> central (be (fst (fst cdM)) (snd (fst cdM)) k) /\
                            sadj (be (fst (fst cdM)) (snd (fst cdM)) k) = be (fst (fst cdM)) (snd (fst cdM)) k) /\
  (forall i, i < nrows A -> sadj (mu (snd cdM) i) = mu (snd cdM) i).

Variables (degree : nat) (lower higher : S) (scale : bool) (A : crs).
Hypothesis WA : wf A = true.
Local Notation n := (nrows A).

Theorem nc_cheby_sweep_consH : sweep_consH n A (fst (cheby_sweeps degree lower higher scale A)).
Proof.
  pose proof (proj1 (mk_relax5_rlin Hnc Seqb (fun _ => True) (R5Cheby degree lower higher scale) A WA)) as RL.
  cbn [mk_relax5] in RL.
  destruct (cheby_sweeps_form degree lower higher scale A) as (c & d & M & HM & E & _).
  rewrite E in *.
  intros f x t Lf Lx Lt. unfold opM. cbn [fst].
  assert (Lz : length (@vzero S n) = n) by apply repeat_length.
  set (r := residual f A x (vzero n)).
  assert (Lr : length r = n) by (apply residual_length; assumption).
  set (b2 := mkv n (fun i => Ax A x i)).
  assert (Lb2 : length b2 = n) by apply mkv_len.
  assert (LC : forall f0 x0 : vec, length f0 = n -> length x0 = n ->
            length (cheby_sweep (c, d, M) degree A f0 x0 (vzero n) (vzero n)) = n)
    by (intros; apply cheby_sweep_length; assumption).
  assert (Ef : f = vrlin r s1 b2 s1).
  { apply (vrlin_intro Hnc s1 s1 r b2 f n Lr Lb2 Lf). intros i Hi. unfold r, b2.
    rewrite (nc_residual_spec Hnc) by assumption. rewrite mkv_get by exact Hi. ncr. }
  assert (Ex : x = vrlin (vzero n) s1 x s1).
  { apply (vrlin_intro Hnc s1 s1 (vzero n) x x n Lz Lx Lx). intros i Hi. rewrite nc_vget_vzero. ncr. }
  pose proof (RL s1 s1 r b2 (vzero n) x t t t I I Lr Lb2 Lz Lx Lt Lt Lt) as E1. cbn [fst] in E1.
  rewrite <- Ef, <- Ex in E1. rewrite E1.
  apply (vadd_intro Hnc _ _ _ n).
  - exact Lx.
  - apply LC; assumption.
  - apply vrlin_length; apply LC; assumption.
  - intros i Hi. rewrite (vrlin_get Hnc) by (rewrite !LC; auto).
    rewrite (nc_cheby_sweep_fixed_point Hnc Seqb c d M degree A b2 x (vzero n) (vzero n)); try assumption.
    + ncr.
    + intros j Hj. unfold b2. rewrite mkv_get by exact Hj. reflexivity.
Qed.

Theorem nc_cheby_sweep_adjH : herm_mat n A -> cheby_coefs_herm degree lower higher scale A ->
  sweep_adjH n (fst (cheby_sweeps degree lower higher scale A)) (snd (cheby_sweeps degree lower higher scale A)).
Proof.
  intros HA HC. unfold cheby_coefs_herm in HC. cbv zeta in HC.
  unfold cheby_sweeps. cbn [fst snd].
  pose proof (cheby_setup_M_len lower higher scale A (gershgorin scale A) (vzero n)) as HM.
  destruct (cheby_setup scale A (gershgorin scale A) lower higher (vzero n)) as [[c d] M]. cbn [fst snd] in HC, HM.
  destruct HC as (Hal & Hbe & Hmu).
  intros f g Lf Lg. unfold opM. cbn [fst].
  assert (Lz : length (@vzero S n) = n) by apply repeat_length.
  rewrite (ipH_ext_l n _ (X c d M A degree f) g)
    by (apply (nc_sweep_zero_is_X Hnc Seqb c d M A WA HM degree f (vzero n) (vzero n) (vzero n) Lf Lz Lz Lz
                 (fun i _ => nc_vget_vzero n i))).
  rewrite (ipH_ext_r n f _ (X c d M A degree g))
    by (apply (nc_sweep_zero_is_X Hnc Seqb c d M A WA HM degree g (vzero n) (vzero n) (vzero n) Lg Lz Lz Lz
                 (fun i _ => nc_vget_vzero n i))).
  apply (proj1 (nc_XP_sym Hnc adj_add adj_mul c d M A WA degree Hal Hbe Hmu HA degree (le_n _) f g Lf Lg)).
Qed.

Theorem nc_cheby_triple : herm_mat n A -> cheby_coefs_herm degree lower higher scale A ->
  sweep_triple A (mk_relax5 (R5Cheby degree lower higher scale) A).
Proof.
  intros HA HC. cbn [mk_relax5]. split; [exact nc_cheby_sweep_consH|]. split; [|exact (nc_cheby_sweep_adjH HA HC)].
  destruct (cheby_sweeps_form degree lower higher scale A) as (_ & _ & _ & _ & _ & E2). rewrite E2.
  exact nc_cheby_sweep_consH.
Qed.

End NcChebSweeps.

(* ================================================================== *)
(* block values static_matrix<T,b,b>: chebyshev on every level, smoother on the coarsest level *)
From Amgcl Require Import DirectUtil Inverse StaticMat StaticMatProofs BlockInst BlockKernels NcRingBlock BlockMatOpsProofs.

Section ChebBlocks.
Variable S0 : Scalar.
Variable b : nat.
Hypothesis Srt : Sring S0.
Hypothesis Seqb0 : seqb_spec S0.
Hypothesis Hb : 0 < b.
Hypothesis sadj_add0 : forall x y : S0, sadj (x + y) = sadj x + sadj y.
Hypothesis sadj_mul0 : forall x y : S0, sadj (x * y) = sadj x * sadj y.
Hypothesis sadj_invol0 : forall x : S0, sadj (sadj x) = x.
Local Notation B := (BlockS S0 b).
Let HncB : ncring_theory B := BlockS_ncring S0 b Srt.
Let SeqbB : seqb_spec B := BlockS_eqb S0 b Seqb0.
Let addB := BlockS_adj_add S0 b sadj_add0.
Let mulB := BlockS_adj_mul S0 b Srt sadj_add0 sadj_mul0.
Let invB := BlockS_adj_invol S0 b sadj_invol0.

(* a block that is an embedded self-conjugate base scalar c*I is central and hermitian *)
Definition is_embedb (a : B) : bool :=
  seqb (s := B) a (blk_embed S0 b (blk_get a 0 0)) && seqb (sadj (blk_get a 0 0)) (blk_get a 0 0).
Lemma is_embedb_ok (a : B) : is_embedb a = true -> central (S := B) a /\ sadj a = a.
Proof.
  unfold is_embedb. intro H. apply andb_prop in H as [H1 H2].
  apply SeqbB in H1. apply Seqb0 in H2.
  destruct (scale_herm_embed S0 b Srt (blk_get a 0 0) H2 (adj_0 (ncring_of_ring S0 Srt) sadj_add0)) as [E1 E2].
  rewrite H1. split; [exact E2|exact E1].
Qed.

Definition cheby_coefs_hermb (degree : nat) (lower higher : B) (scale : bool) (A : Crs.crs B) : bool :=
  let cdM := cheby_setup scale A (gershgorin scale A) lower higher (vzero (nrows A)) in
  forallb (fun k => is_embedb (al (fst (fst cdM)) (snd (fst cdM)) k) && is_embedb (be (fst (fst cdM)) (snd (fst cdM)) k))
          (seq 0 degree) &&
  forallb (fun i => seqb (s := B) (sadj (mu (snd cdM) i)) (mu (snd cdM) i)) (seq 0 (nrows A)).
Lemma cheby_coefs_hermb_ok degree lower higher scale (A : Crs.crs B) :
  cheby_coefs_hermb degree lower higher scale A = true -> cheby_coefs_herm (S := B) degree lower higher scale A.
Proof.
  unfold cheby_coefs_hermb, cheby_coefs_herm. cbv zeta. intro H. apply andb_prop in H as [H1 H2].
  rewrite forallb_forall in H1, H2. split; [|split].
  - intros k Hk. assert (Hk' : In k (seq 0 degree)) by (apply in_seq; lia).
    specialize (H1 k Hk'). apply andb_prop in H1 as [H1 _]. apply is_embedb_ok, H1.
  - intros k Hk. assert (Hk' : In k (seq 0 degree)) by (apply in_seq; lia).
    specialize (H1 k Hk'). apply andb_prop in H1 as [_ H1]. apply is_embedb_ok, H1.
  - intros i Hi. apply SeqbB, H2, in_seq. lia.
Qed.

Theorem block_apply_herm_cheby degree (lower higher : B) scale ce ml (sc : option B) ts (M : Crs.crs B) k nc pc :
  scale_herm sc -> wf M = true -> herm_mat (nrows M) M -> ts_herm (nrows M) ts ->
  (forall l, In l (amg_init ce false ml (coarse_op_of sc) ts M) ->
             cheby_coefs_herm (S := B) degree lower higher scale (ld_A l)) ->
  let lvls := block_levels S0 b (R5Cheby degree lower higher scale) (amg_init ce false ml (coarse_op_of sc) ts M) in
  forall scr1 scr2 f g x1 x2,
  scratch_wf lvls scr1 -> scratch_wf lvls scr2 ->
  length f = nrows M -> length g = nrows M -> length x1 = nrows M -> length x2 = nrows M ->
  ipH (S := B) (nrows M) (fst (apply k k nc (Datatypes.S pc) lvls scr1 f x1)) g =
  ipH (S := B) (nrows M) f (fst (apply k k nc (Datatypes.S pc) lvls scr2 g x2)).
Proof.
  intros Hsc WM SM Hts Hgood.
  apply (built_apply_herm_full_gen (S := B) HncB SeqbB addB mulB invB (mk_relax5 (R5Cheby degree lower higher scale))
           (mk_solve_block S0 b) (mk_relax5_ok _) (cheby_coefs_herm (S := B) degree lower higher scale)
           (fun A WA HA Hg => nc_cheby_triple (S := B) HncB SeqbB addB mulB degree lower higher scale A WA HA Hg)
           (mk_solve_block_ok S0 b Hb) ce false ml sc ts M k nc pc Hsc WM SM Hts); [|exact Hgood|].
  - intros A HA. exfalso. unfold amg_init in HA. apply (nc_build_no_solve _ _ _ _ _ _ _ HA).
  - right. apply nosolve_top_inst.
Qed.

End ChebBlocks.
