(* TentativeQrProofs.v -- C04: tentative prolongation with a near-null space, QR oracle = the
   proved model of detail::QR (Qr.v, theorems QrMath*.v).
   1. (any Scalar) the q vector a QR object keeps between aggregates does not influence the result:
      the serial loop, every other schedule, and the oracle form of Tentative.v coincide.
   2. (formally real field with roots of sums of squares: the hypothesis set of QrMathMain)
      P_tent * B_coarse = B on aggregated rows;  P_tent^T P_tent = I;  B_coarse blocks upper triangular. *)
From Amgcl Require Import Scalar Vec Crs Kernels KernelsProofs MatOps MatOpsProofs Aggregates Tentative
     Coarsen CoarsenProofs DirectUtil Qr QrProofs QrMathRefl QrMathMain TentativeQr.

(* ------------------------------------------------------------------ list helpers *)
Lemma nth_flat_map_const {X Y} (f : X -> list Y) (l : list X) d i c (dflt : Y) (dx : X) :
  (forall x, length (f x) = d) -> i < d -> c < length l ->
  nth (i + c * d) (flat_map f l) dflt = nth i (f (nth c l dx)) dflt.
Proof.
  intros Hf Hi. revert c. induction l as [|x l IH]; intros c Hc; simpl in Hc; [lia|].
  destruct c as [|c]; simpl.
  - rewrite Nat.add_0_r. apply app_nth1. rewrite Hf. exact Hi.
  - rewrite app_nth2 by (rewrite Hf; lia). rewrite Hf.
    replace (i + (d + c * d) - d) with (i + c * d) by lia. apply IH. lia.
Qed.

Lemma length_flat_map_const {X Y} (f : X -> list Y) (l : list X) d :
  (forall x, length (f x) = d) -> length (flat_map f l) = length l * d.
Proof. intro Hf. induction l as [|x l IH]; simpl; [reflexivity|]. rewrite app_length, Hf, IH. lia. Qed.

Lemma index_of_nth (l : list nat) ii : NoDup l -> ii < length l -> index_of (nth ii l 0%nat) l = ii.
Proof.
  revert ii. induction l as [|x l IH]; intros ii Hnd Hii; simpl in Hii; [lia|].
  inversion Hnd as [|? ? Hx Hl]; subst. destruct ii as [|ii]; simpl.
  - rewrite Nat.eqb_refl. reflexivity.
  - destruct (Nat.eqb_spec x (nth ii l 0%nat)) as [E|_].
    + exfalso. apply Hx. rewrite E. apply nth_In. lia.
    + f_equal. apply IH; [assumption|lia].
Qed.

Lemma members_NoDup bs id i : NoDup (members bs id i).
Proof. unfold members. apply NoDup_filter. apply seq_NoDup. Qed.

Lemma members_spec bs id i k :
  In k (members bs id i) <->
  k < length id /\ (Z.leb 0 (zget id k) && Nat.eqb (Nat.div (Z.to_nat (zget id k)) bs) i) = true.
Proof. unfold members. rewrite filter_In, in_seq. split; intros [H1 H2]; (split; [lia|assumption]). Qed.

Local Open Scope S_scope.
(* ------------------------------------------------------------------ 1. junk independence (any Scalar) *)
Section AnyScalar.
Context {S : Scalar}.
Local Notation vec := (vec S).
Local Notation mat := (mat (S:=S)).

Lemma vresize_length (v : vec) n : length (vresize v n) = n.
Proof.
  unfold vresize. rewrite app_length, firstn_length, repeat_length.
  destruct (Nat.le_ge_cases n (length v)); lia.
Qed.

Lemma qr_aggr_fst_indep cols (q q' : vec) (Bp : mat) : fst (qr_aggr cols q Bp) = fst (qr_aggr cols q' Bp).
Proof.
  unfold qr_aggr. cbv zeta. cbn [fst].
  destruct (qr_factorize_junk_independent (length Bp) cols 1 (length Bp) (gather_cm cols Bp)
              (vresize q (length Bp * cols)%nat) (vresize q' (length Bp * cols)%nat)) as [E HQ].
  { rewrite !vresize_length. reflexivity. }
  f_equal.
  - apply tabulate_ext. intros ii Hii. apply tabulate_ext. intros jj Hjj. apply HQ; assumption.
  - rewrite E. reflexivity.
Qed.

Lemma ns_factors_seq_any bs cols id (B : mat) (qj : nat -> vec) l (q : vec) :
  ns_factors_seq bs cols id B l q
  = map (fun i => let mem := members bs id i in (mem, fst (qr_aggr cols (qj i) (map (mrow B) mem)))) l.
Proof.
  revert q. induction l as [|i l IH]; intro q; simpl; [reflexivity|].
  rewrite IH. f_equal. f_equal. apply qr_aggr_fst_indep.
Qed.

(* the result of the serial loop does not depend on the state of the QR object, and equals the result
   of any other distribution of the aggregates over QR objects (OpenMP threads) *)
Theorem tentative_qr_schedule_independent bs cols naggr id (B : mat) (q0 : vec) (qj : nat -> vec) :
  tentative_prolongation_qr bs cols naggr id B q0 = tentative_prolongation_qr_any bs cols naggr id B qj.
Proof.
  unfold tentative_prolongation_qr, tentative_prolongation_qr_any, ns_factors_any.
  rewrite (ns_factors_seq_any bs cols id B qj). reflexivity.
Qed.

(* ... and it is the oracle form of Tentative.v with the oracle [qr_real cols] *)
Theorem tentative_qr_is_oracle_form bs cols naggr id (B : mat) (q0 : vec) :
  tentative_prolongation_qr bs cols naggr id B q0 = tentative_prolongation_ns (qr_real cols) bs cols naggr id B.
Proof.
  unfold tentative_prolongation_qr, tentative_prolongation_ns, ns_factors, qr_real.
  rewrite (ns_factors_seq_any bs cols id B (fun _ => [])). reflexivity.
Qed.

Lemma gather_cm_length cols (Bp : mat) : length (gather_cm cols Bp) = (length Bp * cols)%nat.
Proof.
  unfold gather_cm. rewrite (length_flat_map_const _ _ (length Bp)) by (intro; apply map_length).
  rewrite seq_length. lia.
Qed.

Lemma gather_cm_get cols (Bp : mat) ii c : ii < length Bp -> c < cols ->
  vget (gather_cm cols Bp) (ii * 1 + c * length Bp)%nat = nth c (nth ii Bp []) s0.
Proof.
  intros Hii Hc. unfold vget, gather_cm. rewrite Nat.mul_1_r.
  rewrite (nth_flat_map_const _ _ (length Bp) ii c s0 0%nat) by (try (intro; apply map_length); try rewrite seq_length; assumption).
  rewrite seq_nth by exact Hc. simpl.
  rewrite (nth_indep _ s0 ((fun r : list S => nth c r s0) [])) by (rewrite map_length; exact Hii).
  rewrite (map_nth (fun r : list S => nth c r s0)). reflexivity.
Qed.

Lemma mentry_tabulate m n (f : nat -> nat -> S) i j : i < m -> j < n ->
  mentry (tabulate m (fun ii => tabulate n (fun jj => f ii jj))) i j = f i j.
Proof.
  intros Hi Hj. unfold mentry, mrow. rewrite (tabulate_nth m _ i []) by exact Hi.
  apply tabulate_nth. exact Hj.
Qed.

End AnyScalar.

(* ------------------------------------------------------------------ 2. correctness *)
Section Correct.
Variable S : Scalar.
Local Notation vec := (vec S).
Local Notation mat := (mat (S:=S)).
Hypothesis Sft : Sfield S.
Hypothesis Seqb : seqb_spec S.
Hypothesis Hadj : forall x : S, sadj x = x.
Hypothesis Habs : forall x : S, (sabs x * sabs x = x * x)%S.
Hypothesis Hsqrt : forall y : S, sos y -> (ssqrt y * ssqrt y = y)%S.
Hypothesis Hreal : forall y x : S, sos y -> (y + x * x = s0)%S -> y = s0.
Let Srt : Sring S := F_R Sft.
Add Ring SRingTQ : Srt.

(* one aggregate with at least [cols] members: Q R = B_aggr, Q'Q = I, R upper triangular *)
Lemma qr_aggr_spec cols (q : vec) (Bp : mat) : cols <= length Bp ->
  let QR := fst (qr_aggr cols q Bp) in
  (forall ii c, ii < length Bp -> c < cols ->
     sumn (fun jj => mentry (fst QR) ii jj * mentry (snd QR) jj c) cols = nth c (nth ii Bp []) s0) /\
  (forall j1 j2, j1 < cols -> j2 < cols ->
     sumn (fun ii => mentry (fst QR) ii j1 * mentry (fst QR) ii j2) (length Bp) = if Nat.eqb j1 j2 then s1 else s0) /\
  (forall i j, i < cols -> j < i -> mentry (snd QR) i j = s0).
Proof.
  intros Hd. cbv zeta. unfold qr_aggr. cbv zeta. cbn [fst snd].
  set (d := length Bp) in *.
  pose proof (qr_factorize_correct Sft Seqb Hadj Habs Hsqrt Hreal true d cols (gather_cm cols Bp)
                (vresize q (d * cols)%nat) (gather_cm_length cols Bp) (vresize_length q (d * cols)%nat)) as HC.
  cbv zeta in HC. unfold qr_rs, qr_cs in HC.
  replace (Nat.min d cols) with cols in HC by lia.
  destruct HC as (HQR & HQQ & HR & _).
  split; [|split].
  - intros ii c Hii Hc. rewrite <- (gather_cm_get cols Bp ii c Hii Hc). fold d. rewrite <- (HQR ii c Hii Hc).
    apply sumn_ext. intros jj Hjj. rewrite !mentry_tabulate by assumption. reflexivity.
  - intros j1 j2 H1 H2. rewrite <- (HQQ j1 j2 H1 H2).
    apply sumn_ext. intros ii Hii. rewrite !mentry_tabulate by assumption. reflexivity.
  - intros i j Hi Hji. rewrite mentry_tabulate by lia. apply HR. exact Hji.
Qed.

Lemma mrow_members_nth (B : mat) (mem : list nat) ii c : ii < length mem ->
  nth c (nth ii (map (mrow B) mem) []) s0 = mentry B (nth ii mem 0%nat) c.
Proof.
  intro Hii. unfold mentry.
  rewrite (nth_indep _ [] (mrow B 0%nat)) by (rewrite map_length; exact Hii).
  rewrite (map_nth (mrow B)). reflexivity.
Qed.

(* P_tent * B_coarse = B on aggregated rows *)
Theorem tentative_qr_reproduces (bs cols naggr : nat) (id : list Z) (B : mat) (q0 : vec) k c :
  0 < cols -> c < cols -> k < length id -> (0 <= zget id k)%Z ->
  let i := Nat.div (Z.to_nat (zget id k)) bs in
  i < Nat.div naggr bs ->
  cols <= length (members bs id i) ->
  let PB := tentative_prolongation_qr bs cols naggr id B q0 in
  ns_apply S cols (snd PB) (nth k (rows (fst PB)) []) c = mentry B k c.
Proof.
  intros Hcols Hc Hk H0 i Hi Hd PB. unfold PB. rewrite tentative_qr_is_oracle_form.
  apply (tentative_ns_reproduces S Srt (qr_real cols) bs cols naggr id B k c Hcols Hk H0 Hi).
  intros ii Hii. fold i. unfold qr_real.
  destruct (qr_aggr_spec cols [] (map (mrow B) (members bs id i))) as (HQR & _ & _).
  { rewrite map_length. exact Hd. }
  rewrite HQR by (try rewrite map_length; assumption).
  apply mrow_members_nth. exact Hii.
Qed.

(* dense entry of a row of the near-null-space P *)
Lemma rget_seq_row (base cols : nat) (g : nat -> S) j :
  rget (map (fun jj => ((base + jj)%nat, g jj)) (seq 0 cols)) j
  = if Nat.leb base j && Nat.ltb j (base + cols)%nat then g (j - base)%nat else s0.
Proof.
  induction cols as [|cols IH].
  - simpl. destruct (Nat.leb_spec base j); simpl; [|reflexivity].
    destruct (Nat.ltb_spec j (base + 0)%nat); [lia|reflexivity].
  - rewrite seq_S, map_app, (rget_app Srt), IH. simpl map. rewrite (rget_single Srt).
    destruct (Nat.eqb_spec (base + cols)%nat j) as [E|E].
    + subst j. replace (base + cols - base)%nat with cols by lia.
      replace (Nat.leb base (base + cols)%nat) with true by (symmetry; apply Nat.leb_le; lia).
      replace (Nat.ltb (base + cols)%nat (base + cols)%nat) with false by (symmetry; apply Nat.ltb_ge; lia).
      replace (Nat.ltb (base + cols)%nat (base + Datatypes.S cols)%nat) with true by (symmetry; apply Nat.ltb_lt; lia).
      simpl. ring.
    + destruct (Nat.leb_spec base j); simpl; [|ring].
      destruct (Nat.ltb_spec j (base + cols)%nat); destruct (Nat.ltb_spec j (base + Datatypes.S cols)%nat); try lia; ring.
Qed.

Lemma sumn_filter (p : nat -> bool) (g : nat -> S) n :
  sumn (fun k => if p k then g k else s0) n
  = sumn (fun ii => g (nth ii (filter p (seq 0 n)) 0%nat)) (length (filter p (seq 0 n))).
Proof.
  induction n as [|n IH]; [reflexivity|].
  rewrite seq_S, filter_app. simpl sumn. rewrite IH. simpl filter.
  destruct (p n) eqn:E.
  - rewrite app_length. simpl length. rewrite Nat.add_1_r. simpl sumn.
    rewrite app_nth2 by lia. rewrite Nat.sub_diag. simpl nth. f_equal.
    apply sumn_ext. intros ii Hii. rewrite app_nth1 by exact Hii. reflexivity.
  - rewrite app_nil_r. ring.
Qed.

Section Ortho.
Variables (bs cols naggr : nat) (id : list Z) (B : mat) (q0 : vec).
Let nba := Nat.div naggr bs.
Let P := fst (tentative_prolongation_qr bs cols naggr id B q0).
Let Qm (i : nat) : mat := fst (qr_real cols (map (mrow B) (members bs id i))).

Lemma nrows_P : nrows P = length id.
Proof.
  unfold P, tentative_prolongation_qr. cbn [fst]. unfold nrows. cbn [rows].
  rewrite map_length. apply indexed_length.
Qed.

Lemma ncols_P : ncols P = (cols * nba)%nat.
Proof. reflexivity. Qed.

Lemma mget_P k i jj : k < length id -> i < nba -> jj < cols ->
  mget P k (i * cols + jj)%nat
  = if Z.leb 0 (zget id k) && Nat.eqb (Nat.div (Z.to_nat (zget id k)) bs) i
    then mentry (Qm i) (index_of k (members bs id i)) jj else s0.
Proof.
  intros Hk Hi Hjj. unfold P. rewrite tentative_qr_is_oracle_form.
  unfold tentative_prolongation_ns. cbn [fst]. unfold mget. cbn [rows].
  set (facs := ns_factors (qr_real cols) bs (Nat.div naggr bs) id B).
  rewrite (nth_indep _ [] ((fun ka : nat * Z => tentative_ns_row bs cols facs (fst ka) (snd ka)) (0%nat, removed)))
    by (rewrite map_length, indexed_length; exact Hk).
  rewrite (map_nth (fun ka : nat * Z => tentative_ns_row bs cols facs (fst ka) (snd ka))).
  rewrite nth_indexed by exact Hk. cbn [fst snd]. unfold tentative_ns_row.
  change (nth k id removed) with (zget id k).
  destruct (Z.ltb_spec (zget id k) 0) as [Hneg|Hpos].
  - replace (Z.leb 0 (zget id k)) with false by (symmetry; apply Z.leb_gt; exact Hneg). reflexivity.
  - replace (Z.leb 0 (zget id k)) with true by (symmetry; apply Z.leb_le; exact Hpos).
    set (ik := Nat.div (Z.to_nat (zget id k)) bs).
    rewrite (rget_seq_row (ik * cols)%nat cols).
    destruct (Nat.eqb_spec ik i) as [E|E]; cbn [andb].
    + subst i.
      replace (Nat.leb (ik * cols)%nat (ik * cols + jj)%nat) with true by (symmetry; apply Nat.leb_le; lia).
      replace (Nat.ltb (ik * cols + jj)%nat (ik * cols + cols)%nat) with true by (symmetry; apply Nat.ltb_lt; lia).
      cbn [andb]. replace (ik * cols + jj - ik * cols)%nat with jj by lia.
      assert (Hf : nth ik facs ([], ([], [])) = (members bs id ik, qr_real cols (map (mrow B) (members bs id ik)))).
      { unfold facs, ns_factors.
        rewrite (nth_indep _ _ ((fun i0 => (members bs id i0, qr_real cols (map (mrow B) (members bs id i0)))) 0%nat))
          by (rewrite map_length, seq_length; exact Hi).
        rewrite (map_nth (fun i0 => (members bs id i0, qr_real cols (map (mrow B) (members bs id i0))))).
        rewrite seq_nth by exact Hi. reflexivity. }
      rewrite Hf. cbn [fst snd]. unfold Qm. ring.
    + destruct (Nat.leb_spec (ik * cols)%nat (i * cols + jj)%nat); cbn [andb]; [|reflexivity].
      destruct (Nat.ltb_spec (i * cols + jj)%nat (ik * cols + cols)%nat); [|reflexivity].
      exfalso. apply E. nia.
Qed.

Hypothesis Hbig : forall i, i < nba -> cols <= length (members bs id i).

(* P^T P = I, in (aggregate, column) coordinates *)
Lemma tentative_qr_orthonormal_blocks i1 jj1 i2 jj2 :
  i1 < nba -> i2 < nba -> jj1 < cols -> jj2 < cols ->
  sumn (fun k => mget P k (i1 * cols + jj1)%nat * mget P k (i2 * cols + jj2)%nat) (length id)
  = if Nat.eqb i1 i2 && Nat.eqb jj1 jj2 then s1 else s0.
Proof.
  intros H1 H2 Hj1 Hj2.
  destruct (Nat.eqb_spec i1 i2) as [E|E]; cbn [andb].
  - subst i2. set (mem := members bs id i1).
    rewrite (sumn_ext _ (fun k => if Z.leb 0 (zget id k) && Nat.eqb (Nat.div (Z.to_nat (zget id k)) bs) i1
                                  then mentry (Qm i1) (index_of k mem) jj1 * mentry (Qm i1) (index_of k mem) jj2 else s0)).
    2:{ intros k Hk. rewrite !mget_P by assumption. fold mem.
        destruct (Z.leb 0 (zget id k) && Nat.eqb (Nat.div (Z.to_nat (zget id k)) bs) i1); ring. }
    rewrite (sumn_filter (fun k => Z.leb 0 (zget id k) && Nat.eqb (Nat.div (Z.to_nat (zget id k)) bs) i1)
               (fun k => mentry (Qm i1) (index_of k mem) jj1 * mentry (Qm i1) (index_of k mem) jj2)).
    change (filter (fun k => Z.leb 0 (zget id k) && Nat.eqb (Nat.div (Z.to_nat (zget id k)) bs) i1) (seq 0 (length id)))
      with mem.
    rewrite (sumn_ext _ (fun ii => mentry (Qm i1) ii jj1 * mentry (Qm i1) ii jj2)).
    2:{ intros ii Hii. rewrite index_of_nth by (try apply members_NoDup; assumption). reflexivity. }
    unfold Qm, qr_real.
    destruct (qr_aggr_spec cols [] (map (mrow B) mem)) as (_ & HQQ & _).
    { rewrite map_length. apply Hbig. exact H1. }
    rewrite map_length in HQQ. apply HQQ; assumption.
  - apply (sumn_zero S Srt). intros k Hk. rewrite !mget_P by assumption.
    destruct (Z.leb 0 (zget id k)); cbn [andb]; [|ring].
    destruct (Nat.eqb_spec (Nat.div (Z.to_nat (zget id k)) bs) i1) as [E1|E1];
      destruct (Nat.eqb_spec (Nat.div (Z.to_nat (zget id k)) bs) i2) as [E2|E2]; try ring.
    exfalso. apply E. congruence.
Qed.

(* P^T P = I, in column coordinates *)
Theorem tentative_qr_orthonormal j1 j2 : j1 < ncols P -> j2 < ncols P ->
  sumn (fun k => mget P k j1 * mget P k j2) (nrows P) = if Nat.eqb j1 j2 then s1 else s0.
Proof.
  rewrite ncols_P, nrows_P. intros H1 H2.
  assert (Hc : 0 < cols) by (destruct cols; [simpl in H1; lia|lia]).
  assert (D1 := Nat.div_mod j1 cols ltac:(lia)). assert (D2 := Nat.div_mod j2 cols ltac:(lia)).
  assert (M1 := Nat.mod_upper_bound j1 cols ltac:(lia)). assert (M2 := Nat.mod_upper_bound j2 cols ltac:(lia)).
  assert (L1 : Nat.div j1 cols < nba) by (apply Nat.div_lt_upper_bound; lia).
  assert (L2 : Nat.div j2 cols < nba) by (apply Nat.div_lt_upper_bound; lia).
  assert (E1 : (Nat.div j1 cols * cols + Nat.modulo j1 cols)%nat = j1) by lia.
  assert (E2 : (Nat.div j2 cols * cols + Nat.modulo j2 cols)%nat = j2) by lia.
  transitivity (sumn (fun k => mget P k (Nat.div j1 cols * cols + Nat.modulo j1 cols)%nat *
                               mget P k (Nat.div j2 cols * cols + Nat.modulo j2 cols)%nat) (length id)).
  { rewrite E1, E2. reflexivity. }
  rewrite tentative_qr_orthonormal_blocks by assumption.
  destruct (Nat.eqb_spec j1 j2) as [E|E].
  - subst j2. rewrite !Nat.eqb_refl. reflexivity.
  - destruct (Nat.eqb_spec (Nat.div j1 cols) (Nat.div j2 cols)) as [Ed|Ed]; cbn [andb]; [|reflexivity].
    destruct (Nat.eqb_spec (Nat.modulo j1 cols) (Nat.modulo j2 cols)) as [Em|Em]; [|reflexivity].
    exfalso. apply E. rewrite D1, D2, Ed, Em. reflexivity.
Qed.

(* every block of the coarse near-null space is upper triangular *)
Theorem tentative_qr_coarse_upper i r c : i < nba -> r < cols -> c < r ->
  mentry (nth i (snd (tentative_prolongation_qr bs cols naggr id B q0)) []) r c = s0.
Proof.
  intros Hi Hr Hc. rewrite tentative_qr_is_oracle_form. unfold tentative_prolongation_ns. cbn [snd].
  rewrite (nth_indep _ [] ((fun f : list nat * (mat * mat) => snd (snd f)) ([], ([], []))))
    by (rewrite map_length; unfold ns_factors; rewrite map_length, seq_length; exact Hi).
  rewrite (map_nth (fun f : list nat * (mat * mat) => snd (snd f))).
  unfold ns_factors.
  rewrite (nth_indep _ _ ((fun i0 => (members bs id i0, qr_real cols (map (mrow B) (members bs id i0)))) 0%nat))
    by (rewrite map_length, seq_length; exact Hi).
  rewrite (map_nth (fun i0 => (members bs id i0, qr_real cols (map (mrow B) (members bs id i0))))).
  rewrite seq_nth by exact Hi. cbn [snd]. unfold qr_real.
  destruct (qr_aggr_spec cols [] (map (mrow B) (members bs id (0 + i)))) as (_ & _ & HR).
  { rewrite map_length. apply Hbig. exact Hi. }
  apply HR; assumption.
Qed.

End Ortho.
End Correct.
