(* Properties_C05.v -- C05: each Krylov method produces its defining iterates.
   Statements only; proofs in KrylovProofs.v.  The right-hand sides are the independent
   textbook recurrences of KrylovRef.v (no workspaces, no flags, no in-place updates); the
   same functions, extracted, are what the implementation's iterates are compared with by
   tools/props/C05.py (so "reference" on the implementation side and in the theorems is one
   and the same definition).
   ring: commutative ring with decidable equality; A, P length preserving, A linear. *)
From Amgcl Require Import Scalar QcInst Vec Kernels Krylov KrylovRef KrylovProofs.
Local Open Scope S_scope.

Section Ring.
Variable S : Scalar.
Hypothesis Srt : Sring S.
Hypothesis Seqb : seqb_spec S.
Variable n : nat.
Variables A P : vec S -> vec S.
Hypothesis A_len : forall v, length v = n -> length (A v) = n.
Hypothesis P_len : forall v, length v = n -> length (P v) = n.

(* Richardson with maxiter = k: the returned x is x + omega P (f - A x) applied (iterations made)
   times to the initial guess; no linearity needed *)
Theorem C05_richardson_is_kfold_iteration prm f x0 junk nr r w :
  length f = n -> length x0 = n -> k_prologue norm_a prm f = Go nr ->
  richardson A P prm f x0 junk = (KOk r, w) ->
  k_x r = rich_iter A P (p_damping prm) f (k_it r) x0.
Proof. exact (richardson_is_kfold Srt Seqb n A P A_len P_len prm f x0 junk nr r w). Qed.

(* CG: the workspace model (rho1/rho2 swap, first-iteration copy, in-place axpby with is_zero
   shortcuts, Kahan inner product) equals textbook preconditioned CG -- iteration count,
   reported residual and iterate, for all inputs and every maxiter, including the exits *)
Hypothesis A_lin : linear_on n A.
Theorem C05_cg_model_is_textbook_cg prm f x0 junk :
  length f = n -> length x0 = n ->
  fst (cg A P prm f x0 junk) =
  out_of_ref (cg_ref A P (p_maxiter prm) (p_tol prm) (p_abstol prm) (p_ns prm) f x0).
Proof. exact (cg_model_is_ref Srt Seqb n A P A_len P_len A_lin prm f x0 junk). Qed.

(* BiCGStab, both preconditioning sides, check_after, breakdown (precondition throws = None):
   the workspace model (first flag, rho1/rho2, axpbypcz with is_zero shortcuts, stale r after the
   early exit) equals the textbook recurrence of van der Vorst, for all inputs and every maxiter.
   No linearity of A or P is needed. *)
Theorem C05_bicgstab_model_is_textbook_bicgstab prm f x0 junk :
  length f = n -> length x0 = n ->
  fst (bicgstab A P prm f x0 junk) =
  out_of_ref (bicgstab_ref A P (p_left prm) (p_maxiter prm) (p_tol prm) (p_abstol prm)
                           (p_ns prm) (p_ca prm) f x0).
Proof. exact (bicgstab_model_is_ref Srt Seqb n A P A_len P_len prm f x0 junk). Qed.
End Ring.

Theorem C05_richardson_is_kfold_iteration_Qc n (A P : vec QcS -> vec QcS) prm f x0 junk nr r w :
  (forall v, length v = n -> length (A v) = n) -> (forall v, length v = n -> length (P v) = n) ->
  length f = n -> length x0 = n -> k_prologue norm_a prm f = Go nr ->
  richardson A P prm f x0 junk = (KOk r, w) ->
  k_x r = rich_iter A P (p_damping prm) f (k_it r) x0.
Proof. intros HA HP. exact (C05_richardson_is_kfold_iteration QcS QcS_ring QcS_eqb n A P HA HP prm f x0 junk nr r w). Qed.
Print Assumptions C05_richardson_is_kfold_iteration_Qc.

Theorem C05_cg_model_is_textbook_cg_Qc n (A P : vec QcS -> vec QcS) prm f x0 junk :
  (forall v, length v = n -> length (A v) = n) -> (forall v, length v = n -> length (P v) = n) ->
  linear_on n A -> length f = n -> length x0 = n ->
  fst (cg A P prm f x0 junk) =
  out_of_ref (cg_ref A P (p_maxiter prm) (p_tol prm) (p_abstol prm) (p_ns prm) f x0).
Proof. intros HA HP HL. exact (C05_cg_model_is_textbook_cg QcS QcS_ring QcS_eqb n A P HA HP HL prm f x0 junk). Qed.
Print Assumptions C05_cg_model_is_textbook_cg_Qc.

Theorem C05_bicgstab_model_is_textbook_bicgstab_Qc n (A P : vec QcS -> vec QcS) prm f x0 junk :
  (forall v, length v = n -> length (A v) = n) -> (forall v, length v = n -> length (P v) = n) ->
  length f = n -> length x0 = n ->
  fst (bicgstab A P prm f x0 junk) =
  out_of_ref (bicgstab_ref A P (p_left prm) (p_maxiter prm) (p_tol prm) (p_abstol prm)
                           (p_ns prm) (p_ca prm) f x0).
Proof. intros HA HP. exact (bicgstab_model_is_ref QcS_ring QcS_eqb n A P HA HP prm f x0 junk). Qed.
Print Assumptions C05_bicgstab_model_is_textbook_bicgstab_Qc.

Example C05_hypotheses_satisfiable :
  (forall v, length v = 3 -> length (diag_op [qc 2 1; qc 3 2; qc (-1) 4] v) = 3) /\
  linear_on 3 (diag_op [qc 2 1; qc 3 2; qc (-1) 4]).
Proof.
  split.
  - intros v H. exact (diag_op_len [qc 2 1; qc 3 2; qc (-1) 4] v H).
  - exact (diag_op_linear QcS_ring [qc 2 1; qc 3 2; qc (-1) 4]).
Qed.
