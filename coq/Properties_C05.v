(* Properties_C05.v -- C05: each Krylov method produces its defining iterates.
   Statements only; proofs in KrylovProofs.v.  The right-hand sides are the independent
   textbook recurrences of KrylovRef.v (no workspaces, no flags, no in-place updates); the
   same functions, extracted, are what the implementation's iterates are compared with by
   tools/props/C05.py (so "reference" on the implementation side and in the theorems is one
   and the same definition).
   ring: commutative ring with decidable equality; A, P length preserving, A linear. *)
From Amgcl Require Import Scalar QcInst Vec Kernels Krylov KrylovRef KrylovProofs.
Local Open Scope S_scope.

Section Ring.
Variable S : Scalar.
Hypothesis Srt : Sring S.
Hypothesis Seqb : seqb_spec S.
Variable n : nat.
Variables A P : vec S -> vec S.
Hypothesis A_len : forall v, length v = n -> length (A v) = n.
Hypothesis P_len : forall v, length v = n -> length (P v) = n.

(* Richardson with maxiter = k: the returned x is x + omega P (f - A x) applied (iterations made)
   times to the initial guess; no linearity needed *)
Theorem C05_richardson_is_kfold_iteration prm f x0 junk nr r w :
  length f = n -> length x0 = n -> k_prologue norm_a prm f = Go nr ->
  richardson A P prm f x0 junk = (KOk r, w) ->
  k_x r = rich_iter A P (p_damping prm) f (k_it r) x0.
Proof. exact (richardson_is_kfold Srt Seqb n A P A_len P_len prm f x0 junk nr r w). Qed.

(* CG: the workspace model (rho1/rho2 swap, first-iteration copy, in-place axpby with is_zero
   shortcuts, Kahan inner product) equals textbook preconditioned CG -- iteration count,
   reported residual and iterate, for all inputs and every maxiter, including the exits *)
Hypothesis A_lin : linear_on n A.
Theorem C05_cg_model_is_textbook_cg prm f x0 junk :
  length f = n -> length x0 = n ->
  fst (cg A P prm f x0 junk) =
  out_of_ref (cg_ref A P (p_maxiter prm) (p_tol prm) (p_abstol prm) (p_ns prm) f x0).
Proof. exact (cg_model_is_ref Srt Seqb n A P A_len P_len A_lin prm f x0 junk). Qed.

(* BiCGStab, both preconditioning sides, check_after, breakdown (precondition throws = None):
   the workspace model (first flag, rho1/rho2, axpbypcz with is_zero shortcuts, stale r after the
   early exit) equals the textbook recurrence of van der Vorst, for all inputs and every maxiter.
   No linearity of A or P is needed. *)
Theorem C05_bicgstab_model_is_textbook_bicgstab prm f x0 junk :
  length f = n -> length x0 = n ->
  fst (bicgstab A P prm f x0 junk) =
  out_of_ref (bicgstab_ref A P (p_left prm) (p_maxiter prm) (p_tol prm) (p_abstol prm)
                           (p_ns prm) (p_ca prm) f x0).
Proof. exact (bicgstab_model_is_ref Srt Seqb n A P A_len P_len prm f x0 junk). Qed.
End Ring.

Theorem C05_richardson_is_kfold_iteration_Qc n (A P : vec QcS -> vec QcS) prm f x0 junk nr r w :
  (forall v, length v = n -> length (A v) = n) -> (forall v, length v = n -> length (P v) = n) ->
  length f = n -> length x0 = n -> k_prologue norm_a prm f = Go nr ->
  richardson A P prm f x0 junk = (KOk r, w) ->
  k_x r = rich_iter A P (p_damping prm) f (k_it r) x0.
Proof. intros HA HP. exact (C05_richardson_is_kfold_iteration QcS QcS_ring QcS_eqb n A P HA HP prm f x0 junk nr r w). Qed.
Print Assumptions C05_richardson_is_kfold_iteration_Qc.

Theorem C05_cg_model_is_textbook_cg_Qc n (A P : vec QcS -> vec QcS) prm f x0 junk :
  (forall v, length v = n -> length (A v) = n) -> (forall v, length v = n -> length (P v) = n) ->
  linear_on n A -> length f = n -> length x0 = n ->
  fst (cg A P prm f x0 junk) =
  out_of_ref (cg_ref A P (p_maxiter prm) (p_tol prm) (p_abstol prm) (p_ns prm) f x0).
Proof. intros HA HP HL. exact (C05_cg_model_is_textbook_cg QcS QcS_ring QcS_eqb n A P HA HP HL prm f x0 junk). Qed.
Print Assumptions C05_cg_model_is_textbook_cg_Qc.

Theorem C05_bicgstab_model_is_textbook_bicgstab_Qc n (A P : vec QcS -> vec QcS) prm f x0 junk :
  (forall v, length v = n -> length (A v) = n) -> (forall v, length v = n -> length (P v) = n) ->
  length f = n -> length x0 = n ->
  fst (bicgstab A P prm f x0 junk) =
  out_of_ref (bicgstab_ref A P (p_left prm) (p_maxiter prm) (p_tol prm) (p_abstol prm)
                           (p_ns prm) (p_ca prm) f x0).
Proof. intros HA HP. exact (bicgstab_model_is_ref QcS_ring QcS_eqb n A P HA HP prm f x0 junk). Qed.
Print Assumptions C05_bicgstab_model_is_textbook_bicgstab_Qc.

Example C05_hypotheses_satisfiable :
  (forall v, length v = 3 -> length (diag_op [qc 2 1; qc 3 2; qc (-1) 4] v) = 3) /\
  linear_on 3 (diag_op [qc 2 1; qc 3 2; qc (-1) 4]).
Proof.
  split.
  - intros v H. exact (diag_op_len [qc 2 1; qc 3 2; qc (-1) 4] v H).
  - exact (diag_op_linear QcS_ring [qc 2 1; qc 3 2; qc (-1) 4]).
Qed.

(* =====================================================================================
   C05-B: what the iterates ARE.  Proofs: KrylovMathVec.v, KrylovMathCG.v, KrylovMathGmres.v;
   satisfiability of every hypothesis on concrete 3x3 SPD systems: KrylovMathQc.v.
   ===================================================================================== *)
From Amgcl Require Import AmgOrder KrylovMathVec KrylovMathCG KrylovMathGmres KrylovMathQc.
From Coq Require Import QArith_base.
Local Close Scope Q_scope.
Local Open Scope S_scope.

(* ---- CG.  x_k, r_k, p_k = the states of the textbook recurrence (KrylovMathCG.cgs_at); the model
   of cg.hpp returns exactly x_{k_it} (first theorem).  nobreak k: the denominators <r_j, P r_j> and
   <A p_j, p_j>, j < k, are non-zero; this holds as long as the residual is non-zero when A and P are
   positive definite (C05_cg_no_breakdown_while_residual_nonzero). ---- *)
Section CGField.
Variable S : Scalar.
Hypothesis Sft : Sfield S.
Hypothesis Seqb : seqb_spec S.
Hypothesis Sreal : forall x : S, sadj x = x.          (* real value type *)
Variable n : nat.
Variables A P : vec S -> vec S.
Hypothesis A_len : forall v, length v = n -> length (A v) = n.
Hypothesis P_len : forall v, length v = n -> length (P v) = n.
Hypothesis A_sym : forall x y, length x = n -> length y = n -> rdot (A x) y = rdot x (A y).
Hypothesis P_sym : forall x y, length x = n -> length y = n -> rdot (P x) y = rdot x (P y).
Hypothesis A_lin : linear_on n A.
Variables f x0 : vec S.
Hypothesis Lf : length f = n.
Hypothesis Lx0 : length x0 = n.

Theorem C05_cg_model_returns_kth_iterate prm junk nr r w :
  k_prologue norm_a prm f = Go nr -> cg A P prm f x0 junk = (KOk r, w) ->
  k_it r <= p_maxiter prm /\ k_x r = xk A P f x0 (k_it r).
Proof. exact (cg_model_returns_seq (F_R Sft) Seqb n A P A_len P_len A_lin prm f x0 junk nr r w Lf Lx0). Qed.

(* the carried residual is the residual of the iterate *)
Theorem C05_cg_residual_is_residual k : rk A P f x0 k = vsub f (A (xk A P f x0 k)).
Proof. exact (rk_residual Sft n A P A_len P_len f x0 Lf Lx0 A_lin k). Qed.

(* ALL earlier residuals are P-orthogonal, ALL earlier directions A-conjugate *)
Theorem C05_cg_residuals_P_orthogonal k j : nobreak A P f x0 k -> j < k ->
  rdot (rk A P f x0 k) (P (rk A P f x0 j)) = s0.
Proof. exact (cg_residuals_P_orthogonal Sft Sreal n A P A_len P_len A_sym P_sym f x0 Lf Lx0 k j). Qed.

Theorem C05_cg_directions_A_conjugate k j : nobreak A P f x0 k -> j < k ->
  rdot (pk A P f x0 k) (A (pk A P f x0 j)) = s0.
Proof. exact (cg_directions_A_conjugate Sft Sreal n A P A_len P_len A_sym P_sym f x0 Lf Lx0 k j). Qed.

Theorem C05_cg_residual_orthogonal_to_directions k j : nobreak A P f x0 k -> j < k ->
  rdot (rk A P f x0 k) (pk A P f x0 j) = s0.
Proof. exact (cg_residual_orth_directions Sft Sreal n A P A_len P_len A_sym P_sym f x0 Lf Lx0 k j). Qed.

(* x_k - x_0 lies in the span of p_0..p_{k-1}; Galerkin condition on that span *)
Theorem C05_cg_iterate_in_span_of_directions k :
  span n (Pgen A P f x0 k) (vsub (xk A P f x0 k) x0).
Proof. exact (cg_iterate_in_span Sft n A P f x0 Lf Lx0 k). Qed.

Theorem C05_cg_galerkin k : nobreak A P f x0 k ->
  forall v, span n (Pgen A P f x0 k) v -> rdot (rk A P f x0 k) v = s0.
Proof. exact (cg_galerkin Sft Sreal n A P A_len P_len A_sym P_sym f x0 Lf Lx0 k). Qed.

(* the span of the directions is the Krylov space K_k(PA, P r_0) = span {(PA)^i P r_0 : i < k} *)
Hypothesis P_lin : linear_on n P.
Theorem C05_cg_directions_span_krylov_space k v : nobreak A P f x0 k ->
  (span n (Pgen A P f x0 k) v <-> span n (Kgen A P f x0 k) v).
Proof.
  exact (fun NB => conj (cg_directions_in_krylov Sft n A P A_len P_len f x0 Lf Lx0 A_lin P_lin k v)
                        (cg_krylov_in_directions Sft n A P A_len P_len f x0 Lf Lx0 A_lin P_lin k v NB)).
Qed.

(* A-norm optimality in algebraic form: the error e_k = x* - x_k is A-orthogonal to the span *)
Variable xs : vec S.
Hypothesis Lxs : length xs = n.
Hypothesis Hxs : A xs = f.
Theorem C05_cg_error_A_orthogonal k : nobreak A P f x0 k ->
  forall v, span n (Pgen A P f x0 k) v -> rdot (ek A P f x0 xs k) (A v) = s0.
Proof. exact (cg_error_A_orthogonal Sft Sreal n A P A_len P_len A_sym P_sym f x0 Lf Lx0 A_lin xs Lxs Hxs k). Qed.

(* ordered field, A positive semi-definite: the A-norm of the error is minimal *)
Hypothesis Ord : ordered S.
Hypothesis A_psd : forall v, length v = n -> ole s0 (rdot v (A v)).
Theorem C05_cg_A_norm_optimal k : nobreak A P f x0 k -> forall v, span n (Pgen A P f x0 k) v ->
  ole (rdot (ek A P f x0 xs k) (A (ek A P f x0 xs k)))
      (rdot (vadd (ek A P f x0 xs k) v) (A (vadd (ek A P f x0 xs k) v))).
Proof. exact (cg_A_norm_optimal Sft Sreal n A P A_len P_len A_sym P_sym f x0 Lf Lx0 A_lin Ord xs Lxs Hxs A_psd k). Qed.

(* THE optimality theorem on the model of cg.hpp: the x returned after k_it iterations has the
   smallest A-norm error  err y = <x* - y, A (x* - y)>  in the affine space x0 + K_{k_it}(PA, P r0) *)
Theorem C05_cg_minimises_A_norm_error_over_krylov_space prm junk nr r w :
  k_prologue norm_a prm f = Go nr -> cg A P prm f x0 junk = (KOk r, w) ->
  nobreak A P f x0 (k_it r) ->
  span n (Kgen A P f x0 (k_it r)) (vsub (k_x r) x0) /\
  forall y, length y = n -> span n (Kgen A P f x0 (k_it r)) (vsub y x0) ->
    ole (err A xs (k_x r)) (err A xs y).
Proof.
  exact (fun Hp Hc NB => cg_model_minimises_A_norm Sft Seqb Sreal Ord n A P A_len P_len A_sym P_sym A_lin P_lin A_psd
                           prm f x0 xs junk nr r w Lf Lx0 Lxs Hxs Hp Hc NB).
Qed.

(* no breakdown while the residual is non-zero, for positive definite A and P *)
Theorem C05_cg_no_breakdown_while_residual_nonzero k :
  (forall v, length v = n -> v <> zeron n -> olt s0 (rdot v (A v))) ->
  (forall v, length v = n -> v <> zeron n -> olt s0 (rdot v (P v))) ->
  (forall j, j < k -> rk A P f x0 j <> zeron n) -> nobreak A P f x0 k.
Proof. exact (fun Apd Ppd => cg_nobreak_while_residual_nonzero Sft Sreal n A P A_len P_len A_sym P_sym f x0 Lf Lx0 Ord Apd Ppd k). Qed.
End CGField.

(* Finite termination -- nobreak A P f x0 n -> rk A P f x0 n = zeron n, and unconditionally for positive definite A, P
   in an ordered field: some r_k, k <= n, vanishes -- is PROVED at the end of this file (section "C05-B1, finite
   termination": C05_cg_finite_termination, C05_cg_terminates_within_n_steps; the dimension lemma for lists
   C05_more_than_n_vectors_of_length_n_are_dependent; proofs in KrylovMath2CG.v).  Also tested on the implementation
   (tools/props/C05.py, finite termination and Galerkin oracles). *)

(* ---- GMRES / FGMRES / LGMRES: one inner iteration ---- *)
Section GmresField.
Variable S : Scalar.
Hypothesis Sft : Sfield S.
Hypothesis Seqb : seqb_spec S.
Hypothesis Sreal : forall x : S, sadj x = x.
Hypothesis HofQ0 : sofQ (0 # 1)%Q = @s0 S.
Hypothesis HofQ1 : sofQ (1 # 1)%Q = @s1 S.
Variable n : nat.

(* Arnoldi relation of the modified Gram-Schmidt loop: ring identity, no square root *)
Theorem C05_gmres_mgs_arnoldi_relation (v : nat -> vec S) j ks H w :
  NoDup ks -> length w = n -> (forall k, In k ks -> length (v k) = n) ->
  let H' := fst (mgs v j ks H w) in let w' := snd (mgs v j ks H w) in
  w = vadd w' (lsum n ks (fun k => vscal (H' k j) (v k))).
Proof. exact (mgs_arnoldi (F_R Sft) Seqb n v j ks H w). Qed.

(* against an orthonormal family the remainder is orthogonal and H(k,j) = <w, v_k> *)
Theorem C05_gmres_mgs_orthogonalises (v : nat -> vec S) j ks H w :
  NoDup ks -> length w = n -> (forall k, In k ks -> length (v k) = n) ->
  (forall a b, In a ks -> In b ks -> rdot (v a) (v b) = if Nat.eqb a b then s1 else s0) ->
  forall k, In k ks -> rdot (snd (mgs v j ks H w)) (v k) = s0 /\ fst (mgs v j ks H w) k j = rdot w (v k).
Proof.
  exact (fun ND Lw Lv ON k Hk => conj (mgs_orthogonal (F_R Sft) Seqb n v j ks H w ND Lw Lv ON k Hk)
                                      (mgs_coefficients (F_R Sft) Seqb n v j ks H w ND Lw Lv ON k Hk)).
Qed.

(* one inner iteration of gmres.hpp: K v_j = sum_{k<=j} H(k,j) v_k + H(j+1,j) v_{j+1}
   (K = P A or A P; H = the column as stored before the rotations; needs H(j+1,j) <> 0) *)
Theorem C05_gmres_arnoldi_relation (A P : vec S -> vec S) left (w : @gm_ws S) j :
  let Kv := fst (pspmv left A P (g_v w j)) in
  length Kv = n -> (forall k, k <= j -> length (g_v w k) = n) -> arn_h w j Kv <> s0 ->
  let w' := fst (gm_body A P left w j) in
  Kv = vadd (vscal (arn_h w j Kv) (g_v w' (Datatypes.S j)))
            (lsum n (seq 0 (Datatypes.S j)) (fun k => vscal (arn_H w j Kv k j) (g_v w' k))).
Proof. exact (gm_body_arnoldi Sft Seqb n A P left w j). Qed.

Theorem C05_fgmres_arnoldi_relation (A P : vec S -> vec S) (w : @gm_ws S) j :
  let Az := A (P (g_v w j)) in
  length Az = n -> (forall k, k <= j -> length (g_v w k) = n) -> arn_h w j Az <> s0 ->
  let w' := fst (fg_body A P w j) in
  Az = vadd (vscal (arn_h w j Az) (g_v w' (Datatypes.S j)))
            (lsum n (seq 0 (Datatypes.S j)) (fun k => vscal (arn_H w j Az k j) (g_v w' k)))
  /\ g_z w' j = P (g_v w j).
Proof. exact (fg_body_arnoldi Sft Seqb n A P w j). Qed.

(* the basis stays orthonormal, assuming sqrt exact at <w', w'> (i.e. H(j+1,j)^2 = <w', w'>) *)
Theorem C05_gmres_basis_stays_orthonormal (w : @gm_ws S) j vnew0 :
  length vnew0 = n -> (forall k, k <= j -> length (g_v w k) = n) ->
  (forall a b, a <= j -> b <= j -> rdot (g_v w a) (g_v w b) = if Nat.eqb a b then s1 else s0) ->
  arn_h w j vnew0 <> s0 ->
  arn_h w j vnew0 * arn_h w j vnew0 = rdot (arn_w w j vnew0) (arn_w w j vnew0) ->
  let w' := fst (arnoldi_tail w j vnew0) in
  forall a b, a <= Datatypes.S j -> b <= Datatypes.S j ->
    rdot (g_v w' a) (g_v w' b) = if Nat.eqb a b then s1 else s0.
Proof. exact (arnoldi_tail_orthonormal Sft Seqb Sreal n w j vnew0). Qed.

(* Givens rotations: cs^2 + sn^2 = 1 assuming sqrt exact at the ONE argument it is applied to;
   the rotation annihilates the second entry (no sqrt assumption); app_rot preserves sums of squares *)
Theorem C05_givens_coefficients_unit (dx dy : S) :
  (is_zero dy = false -> sqrt_exact (rot_arg dx dy) /\ rot_arg dx dy <> s0) ->
  unit_rot (fst (gen_rot dx dy)) (snd (gen_rot dx dy)).
Proof. exact (gen_rot_unit Sft HofQ0 HofQ1 dx dy). Qed.

Theorem C05_givens_annihilates (dx dy : S) :
  (is_zero dy = false -> sltb (sabs dx) (sabs dy) = false -> dx <> s0) ->
  snd (app_rot dx dy (fst (gen_rot dx dy)) (snd (gen_rot dx dy))) = s0.
Proof. exact (gen_rot_annihilates Sft Seqb HofQ0 HofQ1 dx dy). Qed.

Theorem C05_givens_preserves_sum_of_squares (dx dy cs sn : S) : unit_rot cs sn ->
  sq (fst (app_rot dx dy cs sn)) + sq (snd (app_rot dx dy cs sn)) = sq dx + sq dy.
Proof. exact (app_rot_isometry Sft Sreal dx dy cs sn). Qed.

(* ordered field: the residual estimates |s_1|, |s_2|, ... the inner loop compares with eps never
   increase (s as after fill(s, 0); s[0] = norm_r), as long as the stored rotations are unit;
   body = gm_body / fg_body / lg_body (KrylovMathGmres.{gm,fg,lg}_body_tail) *)
Hypothesis Ord : ordered S.
Theorem C05_givens_argument_nonzero (dx dy : S) : rot_arg dx dy <> s0.
Proof. exact (rot_arg_neq0 Sft Ord dx dy). Qed.

Theorem C05_gmres_residual_estimate_monotone (A P : vec S -> vec S) left (w : @gm_ws S) m :
  (forall l, 0 < l -> g_s w l = s0) ->
  (forall i, i < m -> unit_rot (g_cs (gm_iter (gm_body A P left) (Datatypes.S i) w) i)
                               (g_sn (gm_iter (gm_body A P left) (Datatypes.S i) w) i)) ->
  forall i, i < m ->
    snd (gm_body A P left (gm_iter (gm_body A P left) i w) i)
      = sabs (g_s (gm_iter (gm_body A P left) (Datatypes.S i) w) (Datatypes.S i)) /\
    sq (g_s (gm_iter (gm_body A P left) (Datatypes.S i) w) i)
      + sq (g_s (gm_iter (gm_body A P left) (Datatypes.S i) w) (Datatypes.S i))
      = sq (g_s (gm_iter (gm_body A P left) i w) i) /\
    ole (sq (g_s (gm_iter (gm_body A P left) (Datatypes.S i) w) (Datatypes.S i)))
        (sq (g_s (gm_iter (gm_body A P left) i w) i)).
Proof. exact (gm_estimate_monotone Sft Sreal Ord (gm_body A P left) (gm_body_tail A P left) w m). Qed.

(* on the loop function: wherever the inner loop stops, its estimate is bounded by norm_r *)
Theorem C05_gmres_inner_loop_estimate_bounded (A P : vec S -> vec S) left maxiter M eps fuel (w : @gm_ws S) it :
  let r := gm_inner (gm_body A P left) maxiter M eps fuel w 0 it in
  (forall l, 0 < l -> g_s w l = s0) ->
  (forall i, i < n_j r -> unit_rot (g_cs (gm_iter (gm_body A P left) (Datatypes.S i) w) i)
                                   (g_sn (gm_iter (gm_body A P left) (Datatypes.S i) w) i)) ->
  0 < n_j r /\ ole (sq (g_s (n_ws r) (n_j r))) (sq (g_s w 0)).
Proof.
  exact (gm_inner_estimate_le_initial Sft Sreal Ord (gm_body A P left) (gm_body_tail A P left) maxiter M eps fuel w it).
Qed.
End GmresField.

(* ---- GMRES: the minimal-residual theorem, in abstract form (KrylovMathLsq.v).
   v_0..v_j orthonormal, Arnoldi relations K v_c = sum_l h_c(l) v_l (c < j), r0 = sum_l g(l) v_l
   (g = beta e_0), unit rotations (cs_l, sn_l) in the planes (l, l+1) whose product Q maps every column
   h_c to a vector with zero entry j.  These are exactly the per-iteration facts proved on the model
   above (C05_gmres_arnoldi_relation, C05_gmres_basis_stays_orthonormal, C05_givens_coefficients_unit,
   C05_givens_annihilates).  Then NO element of x0 + span(v_0..v_{j-1}) has a residual smaller than
   |(Q g)_j| = |s_j|, and the y solving the triangular system R y = (Q g)_{<j} attains it. ---- *)
From Amgcl Require Import KrylovMathLsq.
Section GmresMinRes.
Variable S : Scalar.
Hypothesis Srt : Sring S.
Hypothesis Sreal : forall x : S, sadj x = x.
Variable n : nat.
Variable v : nat -> vec S.
Variable K : vec S -> vec S.
Hypothesis K_len : forall x, length x = n -> length (K x) = n.
Hypothesis K_lin : linear_on n K.
Variable j : nat.
Variables (g : nat -> S) (h : nat -> nat -> S) (cs sn : nat -> S) (r0 : vec S).
Hypothesis Lv : forall l, l <= j -> length (v l) = n.
Hypothesis ON : forall a b, a <= j -> b <= j -> rdot (v a) (v b) = if Nat.eqb a b then s1 else s0.
Hypothesis AR : forall c, c < j -> K (v c) = comb n v (h c) (Datatypes.S j).
Hypothesis R0 : r0 = comb n v g (Datatypes.S j).

(* the true residual norm is the norm of the small least-squares residual *)
Theorem C05_gmres_residual_norm_is_hessenberg_residual_norm (y : nat -> S) :
  let r := vsub r0 (K (comb n v y j)) in
  rdot r r = sumsq (fun l => g l - sumn (fun c => y c * h c l) j) (Datatypes.S j).
Proof. exact (arnoldi_residual_norm Srt Sreal n v K K_len K_lin j g h r0 y Lv ON AR R0). Qed.

Hypothesis U : forall l, l < j -> cs l * cs l + sn l * sn l = s1.
Hypothesis Z : forall c, c < j -> Qn cs sn j (h c) j = s0.

(* Givens QR: || g - H y ||^2 = (Q g)_j^2 + || (Q g)_{<j} - R y ||^2 *)
Theorem C05_gmres_givens_least_squares_identity (y : nat -> S) :
  sumsq (fun i => g i - sumn (fun c => y c * h c i) j) (Datatypes.S j) =
  Qn cs sn j g j * Qn cs sn j g j +
  sumsq (fun i => Qn cs sn j g i - sumn (fun c => y c * Qn cs sn j (h c) i) j) j.
Proof. exact (givens_lsq_identity Srt cs sn j g h y U Z). Qed.

Theorem C05_gmres_minimal_residual_attained (y : nat -> S) :
  (forall i, i < j -> sumn (fun c => y c * Qn cs sn j (h c) i) j = Qn cs sn j g i) ->
  let r := vsub r0 (K (comb n v y j)) in
  rdot r r = Qn cs sn j g j * Qn cs sn j g j.
Proof. exact (gmres_minimal_residual_attained Srt Sreal n v K K_len K_lin j g h cs sn r0 Lv ON AR R0 U Z y). Qed.

Hypothesis Ord : ordered S.
Theorem C05_gmres_minimal_residual_lower_bound (y : nat -> S) :
  let r := vsub r0 (K (comb n v y j)) in
  ole (Qn cs sn j g j * Qn cs sn j g j) (rdot r r).
Proof. exact (gmres_minimal_residual_lower_bound Srt Sreal Ord n v K K_len K_lin j g h cs sn r0 Lv ON AR R0 U Z y). Qed.
End GmresMinRes.

(* ---- ... and ON THE MODEL (KrylovMathMinres.v): j passes of the inner loop of gmres.hpp (Krylov.gm_body,
   both preconditioning sides) started from a workspace w0 that holds the unit vector v_0 and s = beta e_0.
   W i = workspace after i passes, V = its basis, Kop = P A or A P, Kv i = Kop v_i.  Hypotheses on the run,
   i < j: no breakdown (H(i+1,i) <> 0), sqrt exact at <w',w'>, stored rotation unit (C05_givens_coefficients_unit:
   sqrt exact at its one argument), dx <> 0 in the third branch of generate_plane_rotation.
   Then s_j^2 is a LOWER BOUND for the squared residual norm of every element of x + (P) span(v_0..v_{j-1}),
   attained by every y that solves the triangular system held in H and s. ---- *)
From Amgcl Require Import KrylovMathMinres.
Section GmresModelMinRes.
Variable S : Scalar.
Hypothesis Sft : Sfield S.
Hypothesis Seqb : seqb_spec S.
Hypothesis Sreal : forall x : S, sadj x = x.
Hypothesis HofQ0 : sofQ (0 # 1)%Q = @s0 S.
Hypothesis HofQ1 : sofQ (1 # 1)%Q = @s1 S.
Variable n : nat.
Variables A P : vec S -> vec S.
Variable left : bool.
Hypothesis K_len : forall x, length x = n -> length (Kop A P left x) = n.
Hypothesis K_lin : linear_on n (Kop A P left).
Variable w0 : @gm_ws S.
Variable j : nat.
Hypothesis Lv0 : length (g_v w0 0) = n.
Hypothesis ON0 : rdot (g_v w0 0) (g_v w0 0) = s1.
Hypothesis Hs0 : forall l, 0 < l -> g_s w0 l = s0.
Hypothesis Hh : forall i, i < j -> arn_h (W A P left w0 i) i (Kv A P left w0 i) <> s0.
Hypothesis Hx : forall i, i < j ->
  arn_h (W A P left w0 i) i (Kv A P left w0 i) * arn_h (W A P left w0 i) i (Kv A P left w0 i) =
  rdot (arn_w (W A P left w0 i) i (Kv A P left w0 i)) (arn_w (W A P left w0 i) i (Kv A P left w0 i)).
Hypothesis Hu : forall i, i < j ->
  unit_rot (g_cs (W A P left w0 (Datatypes.S i)) i) (g_sn (W A P left w0 (Datatypes.S i)) i).
Hypothesis Hd : forall i, i < j ->
  let dx := tail_H3 (Wb A P left w0 i) i (Kv A P left w0 i) i i in
  let dy := tail_H3 (Wb A P left w0 i) i (Kv A P left w0 i) (Datatypes.S i) i in
  is_zero dy = false -> sltb (sabs dx) (sabs dy) = false -> dx <> s0.

Theorem C05_gmres_model_residual_attained (y : nat -> S) :
  (forall i, i < j -> sumn (fun c => y c * Qn (g_cs (W A P left w0 j)) (g_sn (W A P left w0 j)) j (hbar A P left w0 c) i) j
                      = g_s (W A P left w0 j) i) ->
  let r := vsub (vscal (g_s w0 0) (g_v w0 0)) (Kop A P left (comb n (V A P left w0 j) y j)) in
  rdot r r = g_s (W A P left w0 j) j * g_s (W A P left w0 j) j.
Proof.
  exact (gm_residual_attained Sft Seqb Sreal HofQ0 HofQ1 n A P left K_len K_lin w0 j Lv0 ON0 Hh Hx Hu Hd Hs0 y).
Qed.

Hypothesis Ord : ordered S.
Theorem C05_gmres_model_residual_lower_bound (y : nat -> S) :
  let r := vsub (vscal (g_s w0 0) (g_v w0 0)) (Kop A P left (comb n (V A P left w0 j) y j)) in
  ole (g_s (W A P left w0 j) j * g_s (W A P left w0 j) j) (rdot r r).
Proof.
  exact (gm_residual_lower_bound Sft Seqb Sreal HofQ0 HofQ1 n A P left K_len K_lin w0 j Lv0 ON0 Hh Hx Hu Hd Ord Hs0 y).
Qed.
End GmresModelMinRes.

(* The last link -- for one restart cycle of Krylov.gm_cycle started at x with r0 = (P)(f - A x), beta = norm_b r0 <> 0:
     the vector sv = backsub (g_H w) (rev (seq 0 j)) (g_s w) computed by the code satisfies the triangular system of
     C05_gmres_model_residual_attained (the stored g_H(i,c), i <= c, are the entries (Q hbar_c)_i), and
     k_lin_comb (cv_of sv (g_v w) j) forms sum_c sv_c v_c, so that the true (preconditioned) residual norm of the x
     returned with maxiter = j is |s_j|, the minimum over x + (P) span(v_0..v_{j-1}), and is non-increasing in j --
   is PROVED at the end of this file (section "C05-A2, last link": C05_gmres_returns_residual_minimiser,
   C05_gmres_residual_nonincreasing_in_k, C05_gmres_outer_loop_enters_cycle_with_residual, ...; proofs in
   KrylovMath2Gmres.v).  Lucky breakdown (H(j+1,j) = 0, exact solution reached) is excluded by hypothesis.
   Also tested on the implementation: tools/props/C05.py (Petrov-Galerkin oracle, monotone returned residual, reference). *)

(* ---- closed instances at the exact rationals ---- *)
Theorem C05_cg_minimises_A_norm_error_over_krylov_space_Qc n (A P : vec QcS -> vec QcS) f x0 xs prm junk nr r w :
  (forall v, length v = n -> length (A v) = n) -> (forall v, length v = n -> length (P v) = n) ->
  (forall x y, length x = n -> length y = n -> rdot (A x) y = rdot x (A y)) ->
  (forall x y, length x = n -> length y = n -> rdot (P x) y = rdot x (P y)) ->
  linear_on n A -> linear_on n P -> length f = n -> length x0 = n -> length xs = n -> A xs = f ->
  (forall v, length v = n -> ole s0 (rdot v (A v))) ->
  k_prologue norm_a prm f = Go nr -> cg A P prm f x0 junk = (KOk r, w) ->
  nobreak A P f x0 (k_it r) ->
  span n (Kgen A P f x0 (k_it r)) (vsub (k_x r) x0) /\
  forall y, length y = n -> span n (Kgen A P f x0 (k_it r)) (vsub y x0) ->
    ole (err A xs (k_x r)) (err A xs y).
Proof.
  exact (fun HA HP SA SP LA LP Lf Lx Lxs Hxs Apsd =>
    C05_cg_minimises_A_norm_error_over_krylov_space QcS QcS_field QcS_eqb QcS_real n A P HA HP SA SP LA f x0 Lf Lx LP
      xs Lxs Hxs QcS_ordered' Apsd prm junk nr r w).
Qed.
Print Assumptions C05_cg_minimises_A_norm_error_over_krylov_space_Qc.

Theorem C05_cg_residuals_P_orthogonal_Qc n (A P : vec QcS -> vec QcS) f x0 k j :
  (forall v, length v = n -> length (A v) = n) -> (forall v, length v = n -> length (P v) = n) ->
  (forall x y, length x = n -> length y = n -> rdot (A x) y = rdot x (A y)) ->
  (forall x y, length x = n -> length y = n -> rdot (P x) y = rdot x (P y)) ->
  length f = n -> length x0 = n -> nobreak A P f x0 k -> j < k ->
  rdot (rk A P f x0 k) (P (rk A P f x0 j)) = s0 /\ rdot (pk A P f x0 k) (A (pk A P f x0 j)) = s0.
Proof.
  exact (fun HA HP SA SP Lf Lx NB Hj =>
    conj (C05_cg_residuals_P_orthogonal QcS QcS_field QcS_real n A P HA HP SA SP f x0 Lf Lx k j NB Hj)
         (C05_cg_directions_A_conjugate QcS QcS_field QcS_real n A P HA HP SA SP f x0 Lf Lx k j NB Hj)).
Qed.
Print Assumptions C05_cg_residuals_P_orthogonal_Qc.

Theorem C05_gmres_residual_estimate_monotone_Qc (A P : vec QcS -> vec QcS) left (w : @gm_ws QcS) m :
  (forall l, 0 < l -> g_s w l = s0) ->
  (forall i, i < m -> unit_rot (g_cs (gm_iter (gm_body A P left) (Datatypes.S i) w) i)
                               (g_sn (gm_iter (gm_body A P left) (Datatypes.S i) w) i)) ->
  forall i, i < m ->
    ole (sq (g_s (gm_iter (gm_body A P left) (Datatypes.S i) w) (Datatypes.S i)))
        (sq (g_s (gm_iter (gm_body A P left) i w) i)).
Proof.
  exact (fun Z U i Hi => proj2 (proj2 (C05_gmres_residual_estimate_monotone QcS QcS_field QcS_real QcS_ordered' A P left w m Z U i Hi))).
Qed.
Print Assumptions C05_gmres_residual_estimate_monotone_Qc.

Print Assumptions C05_cg_model_returns_kth_iterate.
Print Assumptions C05_cg_residual_is_residual.
Print Assumptions C05_cg_residual_orthogonal_to_directions.
Print Assumptions C05_cg_iterate_in_span_of_directions.
Print Assumptions C05_cg_galerkin.
Print Assumptions C05_cg_directions_span_krylov_space.
Print Assumptions C05_cg_error_A_orthogonal.
Print Assumptions C05_cg_A_norm_optimal.
Print Assumptions C05_cg_no_breakdown_while_residual_nonzero.
Print Assumptions C05_gmres_mgs_arnoldi_relation.
Print Assumptions C05_gmres_mgs_orthogonalises.
Print Assumptions C05_gmres_arnoldi_relation.
Print Assumptions C05_fgmres_arnoldi_relation.
Print Assumptions C05_gmres_basis_stays_orthonormal.
Print Assumptions C05_givens_coefficients_unit.
Print Assumptions C05_givens_annihilates.
Print Assumptions C05_givens_preserves_sum_of_squares.
Print Assumptions C05_givens_argument_nonzero.
Print Assumptions C05_gmres_inner_loop_estimate_bounded.

(* ---- every hypothesis above is satisfiable on a concrete 3x3 SPD system (KrylovMathQc.v) ---- *)
Example C05_cg_math_hypotheses_satisfiable :
  Sfield QcS /\ (forall x : QcS, sadj x = x) /\ ordered QcS /\
  (forall v, length v = 3 -> length (A3 v) = 3) /\ (forall v, length v = 3 -> length (P3 v) = 3) /\
  (forall x y, length x = 3 -> length y = 3 -> rdot (A3 x) y = rdot x (A3 y)) /\
  (forall x y, length x = 3 -> length y = 3 -> rdot (P3 x) y = rdot x (P3 y)) /\
  linear_on 3 A3 /\ linear_on 3 P3 /\ length f3 = 3 /\ length x03 = 3 /\ length xs3 = 3 /\ A3 xs3 = f3 /\
  (forall v, length v = 3 -> ole s0 (rdot v (A3 v))) /\
  nobreak A3 P3 f3 x03 3.
Proof. exact cg_hypotheses_satisfiable. Qed.
Example C05_cg_no_breakdown_hypotheses_satisfiable :
  (forall v, length v = 3 -> v <> zeron 3 -> olt s0 (rdot v (A3 v))) /\
  (forall v, length v = 3 -> v <> zeron 3 -> olt s0 (rdot v (P3 v))) /\
  (forall j, j < 3 -> rk A3 P3 f3 x03 j <> zeron 3).
Proof. exact cg_nobreak_hypotheses_satisfiable. Qed.
Example C05_cg_example_reaches_solution : err A3 xs3 (xk A3 P3 f3 x03 3) = s0 /\ xk A3 P3 f3 x03 3 = xs3.
Proof. exact cg_example_terminates. Qed.
Example C05_gmres_rotation_hypotheses_satisfiable :
  is_zero (qc 4 1 : QcS) = false /\ sqrt_exact (rot_arg (qc 3 1) (qc 4 1)) /\ rot_arg (qc 3 1 : QcS) (qc 4 1) <> s0 /\
  unit_rot (fst (gen_rot (qc 3 1 : QcS) (qc 4 1))) (snd (gen_rot (qc 3 1 : QcS) (qc 4 1))).
Proof. exact gmres_rotation_hypotheses_satisfiable. Qed.
Example C05_gmres_monotone_hypotheses_satisfiable :
  (forall l, 0 < l -> g_s wG l = s0) /\
  (forall i, i < 2 -> unit_rot (g_cs (gm_iter bodyG (Datatypes.S i) wG) i) (g_sn (gm_iter bodyG (Datatypes.S i) wG) i)).
Proof. exact (conj wG_tail wG_units). Qed.
Example C05_gmres_arnoldi_hypotheses_satisfiable :
  let Kv := fst (pspmv false AG Pid (g_v wG 0)) in
  length Kv = 3 /\ (forall k, k <= 0 -> length (g_v wG k) = 3) /\ arn_h wG 0 Kv <> s0 /\
  (forall a b, a <= 0 -> b <= 0 -> rdot (g_v wG a) (g_v wG b) = if Nat.eqb a b then s1 else s0) /\
  arn_h wG 0 Kv * arn_h wG 0 Kv = rdot (arn_w wG 0 Kv) (arn_w wG 0 Kv).
Proof. exact gmres_arnoldi_hypotheses_satisfiable. Qed.

(* ---- the C05-B oracle is sound for the model: the four boolean checks of KrylovMathSpec.v that
   tools/props/C05.py evaluates (extracted) on the IMPLEMENTATION's iterates x_0..x_K hold for the
   MODEL's iterates whenever there is no breakdown.  A failing oracle line therefore means that the
   implementation's iterates are not those of the recurrence proved optimal above. ---- *)
From Amgcl Require Import KrylovMathSpec KrylovMathSound.
Theorem C05_cg_oracle_accepts_model_iterates (S : Scalar) (Sft : Sfield S) (Seqb : seqb_spec S)
  (Sreal : forall x : S, sadj x = x) (Ord : ordered S) n (A P : vec S -> vec S) f x0 xsol K :
  (forall v, length v = n -> length (A v) = n) -> (forall v, length v = n -> length (P v) = n) ->
  (forall x y, length x = n -> length y = n -> rdot (A x) y = rdot x (A y)) ->
  (forall x y, length x = n -> length y = n -> rdot (P x) y = rdot x (P y)) ->
  linear_on n A -> linear_on n P -> (forall v, length v = n -> ole s0 (rdot v (A v))) ->
  length f = n -> length x0 = n -> length xsol = n -> A xsol = f ->
  nobreak A P f x0 K ->
  let iterates := map (fun k => xk A P f x0 k) (seq 0 (Datatypes.S K)) in
  cg_res_orth_ok A P f iterates = true /\ cg_dir_conj_ok A iterates = true /\
  cg_galerkin_ok A P f iterates = true /\ cg_opt_ok A P f xsol iterates = true.
Proof.
  exact (fun HA HP SA SP LA LP Apsd Lf Lx Lxs Hxs =>
    cg_oracle_accepts_model_iterates Sft Seqb Sreal Ord n A P HA HP SA SP LA LP Apsd f x0 xsol Lf Lx Lxs Hxs K).
Qed.
Print Assumptions C05_cg_oracle_accepts_model_iterates.

Print Assumptions C05_gmres_residual_norm_is_hessenberg_residual_norm.
Print Assumptions C05_gmres_givens_least_squares_identity.
Print Assumptions C05_gmres_minimal_residual_attained.
Print Assumptions C05_gmres_minimal_residual_lower_bound.
Example C05_gmres_minimal_residual_hypotheses_satisfiable :
  (forall x, length x = 3 -> length (AG x) = 3) /\ linear_on 3 AG /\
  (forall l, l <= 1 -> length (vE l) = 3) /\
  (forall a b, a <= 1 -> b <= 1 -> rdot (vE a) (vE b) = if Nat.eqb a b then s1 else s0) /\
  (forall c, c < 1 -> AG (vE c) = comb 3 vE (hE c) 2) /\
  [s1; s0; s0] = comb 3 vE gE 2 /\
  (forall l, l < 1 -> csE l * csE l + snE l * snE l = s1) /\
  (forall c, c < 1 -> Qn csE snE 1 (hE c) 1 = s0).
Proof. exact gmres_minres_hypotheses_satisfiable. Qed.
Example C05_gmres_minimal_residual_example : forall y : nat -> QcS,
  let r := vsub [s1; s0; s0] (AG (comb 3 vE y 1)) in ole (qc 16 25) (rdot r r).
Proof. exact gmres_minres_example. Qed.

Print Assumptions C05_gmres_model_residual_attained.
Print Assumptions C05_gmres_model_residual_lower_bound.
Example C05_gmres_model_minimal_residual_hypotheses_satisfiable :
  length (g_v wG 0) = 3 /\ rdot (g_v wG 0) (g_v wG 0) = s1 /\
  (forall i, i < 1 -> arn_h (W AG Pid false wG i) i (Kv AG Pid false wG i) <> s0) /\
  (forall i, i < 1 ->
     arn_h (W AG Pid false wG i) i (Kv AG Pid false wG i) * arn_h (W AG Pid false wG i) i (Kv AG Pid false wG i) =
     rdot (arn_w (W AG Pid false wG i) i (Kv AG Pid false wG i)) (arn_w (W AG Pid false wG i) i (Kv AG Pid false wG i))) /\
  (forall i, i < 1 -> unit_rot (g_cs (W AG Pid false wG (Datatypes.S i)) i) (g_sn (W AG Pid false wG (Datatypes.S i)) i)) /\
  (forall i, i < 1 ->
     let dx := tail_H3 (Wb AG Pid false wG i) i (Kv AG Pid false wG i) i i in
     let dy := tail_H3 (Wb AG Pid false wG i) i (Kv AG Pid false wG i) (Datatypes.S i) i in
     is_zero dy = false -> sltb (sabs dx) (sabs dy) = false -> dx <> s0) /\
  (forall l, 0 < l -> g_s wG l = s0).
Proof. exact gmres_model_minres_hypotheses_satisfiable. Qed.
Example C05_gmres_model_minimal_residual_example : forall y : nat -> QcS,
  let r := vsub (vscal (g_s wG 0) (g_v wG 0)) (Kop AG Pid false (comb 3 (V AG Pid false wG 1) y 1)) in
  ole (g_s (W AG Pid false wG 1) 1 * g_s (W AG Pid false wG 1) 1) (rdot r r) /\
  g_s (W AG Pid false wG 1) 1 * g_s (W AG Pid false wG 1) 1 = qc 16 25.
Proof. exact gmres_model_minres_example. Qed.

(* =====================================================================================
   C05-A2, last link (KrylovMath2Gmres.v): the x RETURNED by one restart cycle of gmres.hpp is the residual
   minimiser.  (a) backsub solves the triangular system; (b) lin_comb assembles sum_c sv_c v_c; (c) the
   stored entries H(i,c), i <= c, are the rotated Hessenberg columns and the diagonal is non-zero without
   breakdown; (d) Krylov.gm_cycle; (e) maxiter = k versus k + 1; (f) the outer loop and gmres itself.
   ===================================================================================== *)
From Amgcl Require Import KrylovMath2Gmres KrylovMath2Qc.

(* (a) for (i = j; i --> 0;) { s[i] /= H(i,i); for (k < i) s[k] -= H(k,i) * s[i]; } solves U y = s for the upper
   triangle U of H (entries below the diagonal are not read), leaving s[l], l >= j, alone *)
Theorem C05_gmres_backsub_solves_triangular_system (S : Scalar) (Sft : Sfield S) (H : nat -> nat -> S) m (t : nat -> S) :
  (forall i, i < m -> H i i <> s0) ->
  (forall l, m <= l -> backsub H (rev (seq 0 m)) t l = t l) /\
  (forall i, i < m -> sumn (fun c => backsub H (rev (seq 0 m)) t c * utri H i c) m = t i).
Proof. exact (backsub_solves Sft H m t). Qed.
Print Assumptions C05_gmres_backsub_solves_triangular_system.

(* (b) backend::lin_comb(j, s, v, 0, y) = sum_{c<j} s_c v_c, whatever y held before (j > 0) *)
Theorem C05_gmres_lin_comb_assembles_combination (S : Scalar) (Sft : Sfield S) (Seqb : seqb_spec S) n
  (s : nat -> S) (v : nat -> vec S) j (y : vec S) :
  0 < j -> (forall l, l < j -> length (v l) = n) ->
  k_lin_comb (cv_of s v j) s0 y = comb n v s j.
Proof. exact (k_lin_comb_comb Sft Seqb n s v j y). Qed.
Print Assumptions C05_gmres_lin_comb_assembles_combination.

Section GmresReturned.
Variable S : Scalar.
Hypothesis Sft : Sfield S.
Hypothesis Seqb : seqb_spec S.
Hypothesis Sreal : forall x : S, sadj x = x.
Hypothesis HofQ0 : sofQ (0 # 1)%Q = @s0 S.
Hypothesis HofQ1 : sofQ (1 # 1)%Q = @s1 S.
Hypothesis Ord : ordered S.
Variable n : nat.
Variables A P : vec S -> vec S.

(* (c) after j passes from w0 (no breakdown, unit rotations, dx <> 0 in the third Givens branch) the y computed by
   backsub from the workspace's H and s solves the triangular system of C05_gmres_model_residual_attained *)
Theorem C05_gmres_backsub_solves_model_system left (w0 : @gm_ws S) j :
  length (g_v w0 0) = n ->
  (forall i, i < j ->
     let dx := tail_H3 (Wb A P left w0 i) i (Kv A P left w0 i) i i in
     let dy := tail_H3 (Wb A P left w0 i) i (Kv A P left w0 i) (Datatypes.S i) i in
     is_zero dy = false -> sltb (sabs dx) (sabs dy) = false -> dx <> s0) ->
  (forall i, i < j -> arn_h (W A P left w0 i) i (Kv A P left w0 i) <> s0) ->
  (forall i, i < j -> unit_rot (g_cs (W A P left w0 (Datatypes.S i)) i) (g_sn (W A P left w0 (Datatypes.S i)) i)) ->
  let sv := backsub (g_H (W A P left w0 j)) (rev (seq 0 j)) (g_s (W A P left w0 j)) in
  (forall i, i < j ->
     sumn (fun c => sv c * Qn (g_cs (W A P left w0 j)) (g_sn (W A P left w0 j)) j (hbar A P left w0 c) i) j
     = g_s (W A P left w0 j) i) /\
  sv j = g_s (W A P left w0 j) j.
Proof.
  exact (fun Lv0 Hd Hh Hu => backsub_solves_model Sft Seqb Sreal HofQ0 HofQ1 n A P left w0 Lv0 j Hd Ord Hh Hu).
Qed.

(* (f1) the outer loop of gmres.hpp enters the cycle with the workspace gm_w0, whose r is the (preconditioned)
   residual (P)(f - A x) of the current iterate: this is the vector beta v_0 of the minimal-residual theorems *)
Theorem C05_gmres_outer_loop_enters_cycle_with_residual prm f eps nr k x (w : @gm_ws S) it oof :
  gm_outer A P prm f eps nr (Datatypes.S k) x w it oof =
  (let w0 := gm_w0 A P prm f x w in
   let norm_r := norm_b (g_r w0) in
   if sltb norm_r eps || Nat.leb (p_maxiter prm) it then (mkRes it (norm_r / nr) x oof, w0)
   else let '(x', r) := gm_cycle A P prm eps norm_r x w0 it in
        gm_outer A P prm f eps nr k x' (n_ws r) (n_it r) (oof || n_oof r)) /\
  g_r (gm_w0 A P prm f x w) = pres A P (p_left prm) f x.
Proof. exact (conj (gm_outer_step A P prm f eps nr k x w it oof) (gm_w0_residual A P prm f x w)). Qed.

(* (f2) when the iteration limit is reached inside the first restart cycle, gmres returns the iterate of that cycle *)
Theorem C05_gmres_returns_first_cycle_iterate prm f x0 (junk : @gm_ws S) nr :
  k_prologue norm_b prm f = Go nr ->
  let eps := smax (p_tol prm * nr) (p_abstol prm) in
  let w0 := gm_w0 A P prm f x0 junk in
  let norm_r := norm_b (g_r w0) in
  let cyc := gm_cycle A P prm eps norm_r x0 w0 0 in
  sltb norm_r eps = false -> 0 < p_maxiter prm -> p_maxiter prm <= n_it (snd cyc) ->
  exists r w, gmres A P prm f x0 junk = (KOk r, w) /\ k_x r = fst cyc /\ k_it r = n_it (snd cyc).
Proof. exact (gmres_first_cycle A P prm f x0 junk nr). Qed.

Hypothesis A_len : forall v, length v = n -> length (A v) = n.
Hypothesis P_len : forall v, length v = n -> length (P v) = n.
Hypothesis A_lin : linear_on n A.
Hypothesis P_lin : linear_on n P.
Variable prm : @kprm S.
Variables (f x : vec S) (w : @gm_ws S) (eps norm_r : S) (it : nat).
Hypothesis Lf : length f = n.
Hypothesis Lx : length x = n.
(* the cycle is entered with r = (P)(f - A x) (C05_gmres_outer_loop_enters_cycle_with_residual), norm_r = ||r||
   with an exact root, and the residual is not zero *)
Hypothesis Hr : g_r w = pres A P (p_left prm) f x.
Hypothesis Nx : norm_r * norm_r = rdot (g_r w) (g_r w).
Hypothesis Nn : norm_r <> s0.

(* (d) THE THEOREM.  j = number of inner iterations the cycle makes (1 <= j <= M by gm_inner); run hypotheses for
   i < j as in C05_gmres_model_residual_attained, on the workspace gm_w1 the inner loop starts from.  Then the x'
   returned by Krylov.gm_cycle lies in x + (P) span(v_0..v_{j-1}), the square of its (preconditioned) residual norm
   is s_j^2 (s = the array s of the returned workspace, whose entry j is the estimate the inner loop tested), and
   NO element of x + (P) span(v_0..v_{j-1}) has a smaller residual. *)
Theorem C05_gmres_returns_residual_minimiser :
  let left := p_left prm in
  let w1 := gm_w1 norm_r w in
  let jj := n_j (gm_run A P prm eps norm_r w it) in
  (forall i, i < jj -> arn_h (W A P left w1 i) i (Kv A P left w1 i) <> s0) ->
  (forall i, i < jj ->
     arn_h (W A P left w1 i) i (Kv A P left w1 i) * arn_h (W A P left w1 i) i (Kv A P left w1 i) =
     rdot (arn_w (W A P left w1 i) i (Kv A P left w1 i)) (arn_w (W A P left w1 i) i (Kv A P left w1 i))) ->
  (forall i, i < jj -> unit_rot (g_cs (W A P left w1 (Datatypes.S i)) i) (g_sn (W A P left w1 (Datatypes.S i)) i)) ->
  (forall i, i < jj ->
     let dx := tail_H3 (Wb A P left w1 i) i (Kv A P left w1 i) i i in
     let dy := tail_H3 (Wb A P left w1 i) i (Kv A P left w1 i) (Datatypes.S i) i in
     is_zero dy = false -> sltb (sabs dx) (sabs dy) = false -> dx <> s0) ->
  let res := gm_cycle A P prm eps norm_r x w it in
  let x' := fst res in
  let j := n_j (snd res) in
  let s := g_s (n_ws (snd res)) in
  j = jj /\ 0 < j /\
  x' = vadd x (Pr P left (comb n (V A P left w1 jj) s j)) /\
  rdot (pres A P left f x') (pres A P left f x') = s j * s j /\
  forall y : nat -> S,
    ole (rdot (pres A P left f x') (pres A P left f x'))
        (rdot (pres A P left f (vadd x (Pr P left (comb n (V A P left w1 jj) y j))))
              (pres A P left f (vadd x (Pr P left (comb n (V A P left w1 jj) y j))))).
Proof.
  exact (gm_cycle_returns_minimiser Sft Seqb Sreal HofQ0 HofQ1 Ord n A P A_len P_len A_lin P_lin prm f x w eps norm_r it
           Lf Lx Hr Nx Nn).
Qed.

(* (e) within a cycle: the residual of the iterate returned with maxiter = k + 1 is not larger than the one
   returned with maxiter = k (all other parameters equal; run hypotheses for the longer run) *)
Theorem C05_gmres_residual_nonincreasing_in_k :
  let left := p_left prm in
  let prm' := with_maxiter prm (Datatypes.S (p_maxiter prm)) in
  let w1 := gm_w1 norm_r w in
  let j1 := n_j (gm_run A P prm' eps norm_r w it) in
  (forall i, i < j1 -> arn_h (W A P left w1 i) i (Kv A P left w1 i) <> s0) ->
  (forall i, i < j1 ->
     arn_h (W A P left w1 i) i (Kv A P left w1 i) * arn_h (W A P left w1 i) i (Kv A P left w1 i) =
     rdot (arn_w (W A P left w1 i) i (Kv A P left w1 i)) (arn_w (W A P left w1 i) i (Kv A P left w1 i))) ->
  (forall i, i < j1 -> unit_rot (g_cs (W A P left w1 (Datatypes.S i)) i) (g_sn (W A P left w1 (Datatypes.S i)) i)) ->
  (forall i, i < j1 ->
     let dx := tail_H3 (Wb A P left w1 i) i (Kv A P left w1 i) i i in
     let dy := tail_H3 (Wb A P left w1 i) i (Kv A P left w1 i) (Datatypes.S i) i in
     is_zero dy = false -> sltb (sabs dx) (sabs dy) = false -> dx <> s0) ->
  let xk := fst (gm_cycle A P prm eps norm_r x w it) in
  let xk1 := fst (gm_cycle A P prm' eps norm_r x w it) in
  ole (rdot (pres A P left f xk1) (pres A P left f xk1)) (rdot (pres A P left f xk) (pres A P left f xk)).
Proof.
  exact (gm_cycle_residual_nonincreasing_in_maxiter Sft Seqb Sreal HofQ0 HofQ1 Ord n A P A_len P_len A_lin P_lin
           prm f x w eps norm_r it Lf Lx Hr Nx Nn).
Qed.
End GmresReturned.
Print Assumptions C05_gmres_backsub_solves_model_system.
Print Assumptions C05_gmres_outer_loop_enters_cycle_with_residual.
Print Assumptions C05_gmres_returns_first_cycle_iterate.
Print Assumptions C05_gmres_returns_residual_minimiser.
Print Assumptions C05_gmres_residual_nonincreasing_in_k.

(* closed instance at the exact rationals *)
Theorem C05_gmres_returns_residual_minimiser_Qc n (A P : vec QcS -> vec QcS) prm f x (w : @gm_ws QcS) eps norm_r it :
  (forall v, length v = n -> length (A v) = n) -> (forall v, length v = n -> length (P v) = n) ->
  linear_on n A -> linear_on n P -> length f = n -> length x = n ->
  g_r w = pres A P (p_left prm) f x -> norm_r * norm_r = rdot (g_r w) (g_r w) -> norm_r <> s0 ->
  let left := p_left prm in
  let w1 := gm_w1 norm_r w in
  let jj := n_j (gm_run A P prm eps norm_r w it) in
  (forall i, i < jj -> arn_h (W A P left w1 i) i (Kv A P left w1 i) <> s0) ->
  (forall i, i < jj ->
     arn_h (W A P left w1 i) i (Kv A P left w1 i) * arn_h (W A P left w1 i) i (Kv A P left w1 i) =
     rdot (arn_w (W A P left w1 i) i (Kv A P left w1 i)) (arn_w (W A P left w1 i) i (Kv A P left w1 i))) ->
  (forall i, i < jj -> unit_rot (g_cs (W A P left w1 (Datatypes.S i)) i) (g_sn (W A P left w1 (Datatypes.S i)) i)) ->
  (forall i, i < jj ->
     let dx := tail_H3 (Wb A P left w1 i) i (Kv A P left w1 i) i i in
     let dy := tail_H3 (Wb A P left w1 i) i (Kv A P left w1 i) (Datatypes.S i) i in
     is_zero dy = false -> sltb (sabs dx) (sabs dy) = false -> dx <> s0) ->
  let res := gm_cycle A P prm eps norm_r x w it in
  let x' := fst res in
  let j := n_j (snd res) in
  let s := g_s (n_ws (snd res)) in
  j = jj /\ 0 < j /\
  x' = vadd x (Pr P left (comb n (V A P left w1 jj) s j)) /\
  rdot (pres A P left f x') (pres A P left f x') = s j * s j /\
  forall y : nat -> QcS,
    ole (rdot (pres A P left f x') (pres A P left f x'))
        (rdot (pres A P left f (vadd x (Pr P left (comb n (V A P left w1 jj) y j))))
              (pres A P left f (vadd x (Pr P left (comb n (V A P left w1 jj) y j))))).
Proof.
  exact (fun HA HP LA LP Lf Lx Hr Nx Nn =>
    C05_gmres_returns_residual_minimiser QcS QcS_field QcS_eqb QcS_real QcS_ofQ0 QcS_ofQ1 QcS_ordered' n A P HA HP LA LP
      prm f x w eps norm_r it Lf Lx Hr Nx Nn).
Qed.
Print Assumptions C05_gmres_returns_residual_minimiser_Qc.

(* every hypothesis is satisfiable: two inner iterations on a 3x3 Hessenberg system, exact roots, no breakdown;
   squared residuals 16/25 (maxiter = 1) and 256/625 (maxiter = 2); gmres returns that iterate *)
Example C05_gmres_returned_minimiser_hypotheses_satisfiable :
  length fG = 3 /\ length xG = 3 /\
  g_r w0G = pres AH Pid (p_left (prmG 2)) fG xG /\
  nrG * nrG = rdot (g_r w0G) (g_r w0G) /\ nrG <> s0 /\
  n_j (gm_run AH Pid (prmG 2) epsG nrG w0G 0) = 2 /\ n_j (gm_run AH Pid (prmG 1) epsG nrG w0G 0) = 1 /\
  (forall i, i < 2 -> arn_h (W AH Pid false (gm_w1 nrG w0G) i) i (Kv AH Pid false (gm_w1 nrG w0G) i) <> s0) /\
  (forall i, i < 2 ->
     arn_h (W AH Pid false (gm_w1 nrG w0G) i) i (Kv AH Pid false (gm_w1 nrG w0G) i) *
     arn_h (W AH Pid false (gm_w1 nrG w0G) i) i (Kv AH Pid false (gm_w1 nrG w0G) i) =
     rdot (arn_w (W AH Pid false (gm_w1 nrG w0G) i) i (Kv AH Pid false (gm_w1 nrG w0G) i))
          (arn_w (W AH Pid false (gm_w1 nrG w0G) i) i (Kv AH Pid false (gm_w1 nrG w0G) i))) /\
  (forall i, i < 2 -> unit_rot (g_cs (W AH Pid false (gm_w1 nrG w0G) (Datatypes.S i)) i)
                               (g_sn (W AH Pid false (gm_w1 nrG w0G) (Datatypes.S i)) i)) /\
  (forall i, i < 2 ->
     let dx := tail_H3 (Wb AH Pid false (gm_w1 nrG w0G) i) i (Kv AH Pid false (gm_w1 nrG w0G) i) i i in
     let dy := tail_H3 (Wb AH Pid false (gm_w1 nrG w0G) i) i (Kv AH Pid false (gm_w1 nrG w0G) i) (Datatypes.S i) i in
     is_zero dy = false -> sltb (sabs dx) (sabs dy) = false -> dx <> s0).
Proof. exact gmres_cycle_hypotheses_satisfiable. Qed.
Example C05_gmres_returned_minimiser_example :
  let x2 := fst (gm_cycle AH Pid (prmG 2) epsG nrG xG w0G 0) in
  let x1 := fst (gm_cycle AH Pid (prmG 1) epsG nrG xG w0G 0) in
  rdot (pres AH Pid false fG x2) (pres AH Pid false fG x2) = qc 256 625 /\
  rdot (pres AH Pid false fG x1) (pres AH Pid false fG x1) = qc 16 25 /\
  (forall y : nat -> QcS,
     let z := vadd xG (Pr Pid false (comb 3 (V AH Pid false (gm_w1 nrG w0G) 2) y 2)) in
     ole (qc 256 625) (rdot (pres AH Pid false fG z) (pres AH Pid false fG z))) /\
  (exists r w, gmres AH Pid (prmG 2) fG xG junkG = (KOk r, w) /\ k_x r = x2 /\ k_it r = 2).
Proof. exact gmres_cycle_example. Qed.
Example C05_gmres_residual_nonincreasing_in_k_example :
  let x2 := fst (gm_cycle AH Pid (with_maxiter (prmG 1) 2) epsG nrG xG w0G 0) in
  let x1 := fst (gm_cycle AH Pid (prmG 1) epsG nrG xG w0G 0) in
  ole (rdot (pres AH Pid false fG x2) (pres AH Pid false fG x2)) (rdot (pres AH Pid false fG x1) (pres AH Pid false fG x1)).
Proof. exact gmres_maxiter_monotone_example. Qed.

(* ... the same over the SPAN (KrylovMath2Span.v): the inductively defined linear span of v_0..v_{j-1} is exactly the set of
   the combinations comb n v y j, so the x' returned by the cycle lies in x + (P) span(v_0..v_{j-1}) and has the smallest
   (preconditioned) residual norm of ALL elements of that affine space *)
From Amgcl Require Import KrylovMath2Span.
Theorem C05_span_is_set_of_combinations (S : Scalar) (Srt : Sring S) n (v : nat -> vec S) j :
  (forall l, l < j -> length (v l) = n) ->
  forall z, span n (Vgen v j) z <-> exists y, z = comb n v y j.
Proof. exact (span_iff_comb Srt n v j). Qed.
Print Assumptions C05_span_is_set_of_combinations.

Theorem C05_gmres_returns_residual_minimiser_over_krylov_space (S : Scalar) (Sft : Sfield S) (Seqb : seqb_spec S)
  (Sreal : forall x : S, sadj x = x) (HofQ0 : sofQ (0 # 1)%Q = @s0 S) (HofQ1 : sofQ (1 # 1)%Q = @s1 S) (Ord : ordered S)
  n (A P : vec S -> vec S) prm f x (w : @gm_ws S) eps norm_r it :
  (forall v, length v = n -> length (A v) = n) -> (forall v, length v = n -> length (P v) = n) ->
  linear_on n A -> linear_on n P -> length f = n -> length x = n ->
  g_r w = pres A P (p_left prm) f x -> norm_r * norm_r = rdot (g_r w) (g_r w) -> norm_r <> s0 ->
  let left := p_left prm in
  let w1 := gm_w1 norm_r w in
  let jj := n_j (gm_run A P prm eps norm_r w it) in
  (forall i, i < jj -> arn_h (W A P left w1 i) i (Kv A P left w1 i) <> s0) ->
  (forall i, i < jj ->
     arn_h (W A P left w1 i) i (Kv A P left w1 i) * arn_h (W A P left w1 i) i (Kv A P left w1 i) =
     rdot (arn_w (W A P left w1 i) i (Kv A P left w1 i)) (arn_w (W A P left w1 i) i (Kv A P left w1 i))) ->
  (forall i, i < jj -> unit_rot (g_cs (W A P left w1 (Datatypes.S i)) i) (g_sn (W A P left w1 (Datatypes.S i)) i)) ->
  (forall i, i < jj ->
     let dx := tail_H3 (Wb A P left w1 i) i (Kv A P left w1 i) i i in
     let dy := tail_H3 (Wb A P left w1 i) i (Kv A P left w1 i) (Datatypes.S i) i in
     is_zero dy = false -> sltb (sabs dx) (sabs dy) = false -> dx <> s0) ->
  let x' := fst (gm_cycle A P prm eps norm_r x w it) in
  (exists z, cycle_space n A P prm w eps norm_r it z /\ x' = vadd x (Pr P left z)) /\
  forall z, cycle_space n A P prm w eps norm_r it z ->
    ole (rdot (pres A P left f x') (pres A P left f x'))
        (rdot (pres A P left f (vadd x (Pr P left z))) (pres A P left f (vadd x (Pr P left z)))).
Proof.
  exact (fun HA HP LA LP Lf Lx Hr Nx Nn =>
    gm_cycle_minimises_over_span Sft Seqb Sreal HofQ0 HofQ1 Ord n A P HA HP LA LP prm f x w eps norm_r it Lf Lx Hr Nx Nn).
Qed.
Print Assumptions C05_gmres_returns_residual_minimiser_over_krylov_space.

(* =====================================================================================
   C05-B1, finite termination (KrylovMath2CG.v).  (a) n + 1 vectors of length n over a field are linearly dependent;
   (b) a family orthogonal w.r.t. B(u, v) = <u, P v> with B(v, v) <> 0 is independent; (c) CG: the residuals r_0..r_n
   are mutually P-orthogonal, so r_n = 0 if no breakdown occurred in n steps; with positive definite A and P in an
   ordered field some r_k, k <= n, vanishes and x_k solves the system.
   ===================================================================================== *)
From Amgcl Require Import KrylovMath2CG.

Theorem C05_more_than_n_vectors_of_length_n_are_dependent (S : Scalar) (Sft : Sfield S) (Seqb : seqb_spec S)
        n (vs : list (vec S)) :
  length vs = Datatypes.S n -> alln n vs ->
  exists cs, length cs = Datatypes.S n /\ ~ allzero cs /\ lc n cs vs = zeron n.
Proof. exact (lin_dep Sft Seqb n vs). Qed.
Print Assumptions C05_more_than_n_vectors_of_length_n_are_dependent.

Theorem C05_orthogonal_family_is_independent (S : Scalar) (Sft : Sfield S) n (P : vec S -> vec S)
        (vs : list (vec S)) (cs : list S) :
  alln n vs -> length cs = length vs ->
  ForallOrdPairs (fun u v => Bf P u v = s0 /\ Bf P v u = s0) vs -> Forall (fun v => Bf P v v <> s0) vs ->
  lc n cs vs = zeron n -> allzero cs.
Proof. exact (orth_indep Sft n P vs cs). Qed.
Print Assumptions C05_orthogonal_family_is_independent.

Section CGFiniteTermination.
Variable S : Scalar.
Hypothesis Sft : Sfield S.
Hypothesis Seqb : seqb_spec S.
Hypothesis Sreal : forall x : S, sadj x = x.
Variable n : nat.
Variables A P : vec S -> vec S.
Hypothesis A_len : forall v, length v = n -> length (A v) = n.
Hypothesis P_len : forall v, length v = n -> length (P v) = n.
Hypothesis A_sym : forall x y, length x = n -> length y = n -> rdot (A x) y = rdot x (A y).
Hypothesis P_sym : forall x y, length x = n -> length y = n -> rdot (P x) y = rdot x (P y).
Variables f x0 : vec S.
Hypothesis Lf : length f = n.
Hypothesis Lx0 : length x0 = n.

(* field only; P definite on non-zero vectors (needed for r_n alone: for j < n, <r_j, P r_j> <> 0 is part of nobreak) *)
Theorem C05_cg_finite_termination :
  (forall v, length v = n -> v <> zeron n -> rdot v (P v) <> s0) ->
  nobreak A P f x0 n -> rk A P f x0 n = zeron n.
Proof. exact (cg_finite_termination Sft Seqb Sreal n A P A_len P_len A_sym P_sym f x0 Lf Lx0). Qed.

Hypothesis A_lin : linear_on n A.
Theorem C05_cg_reaches_solution_after_n_steps :
  (forall v, length v = n -> v <> zeron n -> rdot v (P v) <> s0) ->
  nobreak A P f x0 n -> A (xk A P f x0 n) = f.
Proof. exact (fun Pd => cg_reaches_solution Sft Seqb Sreal n A P A_len P_len A_sym P_sym f x0 Lf Lx0 Pd A_lin). Qed.

(* on the model of cg.hpp: a call that makes n iterations returns the exact solution *)
Theorem C05_cg_model_exact_after_n_iterations prm junk nr r w :
  (forall v, length v = n -> v <> zeron n -> rdot v (P v) <> s0) ->
  k_prologue norm_a prm f = Go nr -> cg A P prm f x0 junk = (KOk r, w) ->
  k_it r = n -> nobreak A P f x0 n -> A (k_x r) = f.
Proof.
  exact (fun Pd => cg_model_exact_after_n_iterations Sft Seqb Sreal n A P A_len P_len A_sym P_sym f x0 Lf Lx0 Pd A_lin
                     prm junk nr r w).
Qed.

(* ordered field, A and P positive definite: NO hypothesis on the run *)
Hypothesis Ord : ordered S.
Theorem C05_cg_terminates_within_n_steps :
  (forall v, length v = n -> v <> zeron n -> olt s0 (rdot v (A v))) ->
  (forall v, length v = n -> v <> zeron n -> olt s0 (rdot v (P v))) ->
  exists k, k <= n /\ rk A P f x0 k = zeron n /\ A (xk A P f x0 k) = f.
Proof.
  exact (fun Apd Ppd => cg_terminates_within_n_steps Sft Seqb Sreal Ord n A P A_len P_len A_sym P_sym A_lin Apd Ppd f x0 Lf Lx0).
Qed.
End CGFiniteTermination.
Print Assumptions C05_cg_finite_termination.
Print Assumptions C05_cg_reaches_solution_after_n_steps.
Print Assumptions C05_cg_model_exact_after_n_iterations.
Print Assumptions C05_cg_terminates_within_n_steps.

Theorem C05_cg_terminates_within_n_steps_Qc n (A P : vec QcS -> vec QcS) f x0 :
  (forall v, length v = n -> length (A v) = n) -> (forall v, length v = n -> length (P v) = n) ->
  (forall x y, length x = n -> length y = n -> rdot (A x) y = rdot x (A y)) ->
  (forall x y, length x = n -> length y = n -> rdot (P x) y = rdot x (P y)) ->
  linear_on n A -> length f = n -> length x0 = n ->
  (forall v, length v = n -> v <> zeron n -> olt s0 (rdot v (A v))) ->
  (forall v, length v = n -> v <> zeron n -> olt s0 (rdot v (P v))) ->
  exists k, k <= n /\ rk A P f x0 k = zeron n /\ A (xk A P f x0 k) = f.
Proof.
  exact (fun HA HP SA SP LA Lf Lx =>
    C05_cg_terminates_within_n_steps QcS QcS_field QcS_eqb QcS_real n A P HA HP SA SP f x0 Lf Lx LA QcS_ordered').
Qed.
Print Assumptions C05_cg_terminates_within_n_steps_Qc.

(* the hypotheses are those of C05_cg_math_hypotheses_satisfiable / C05_cg_no_breakdown_hypotheses_satisfiable *)
Example C05_cg_terminates_example :
  exists k, k <= 3 /\ rk A3 P3 f3 x03 k = zeron 3 /\ A3 (xk A3 P3 f3 x03 k) = f3.
Proof. exact cg_termination_example. Qed.
