(* QrMathRefl.v -- what gen_reflector / apply_reflector of the QR model (Qr.v) compute, cell by
   cell, under the hypotheses that are TRUE of a real square root:
     sadj = id (real scalars), sabs x * sabs x = x * x,
     ssqrt y * ssqrt y = y           for y a sum of squares (the only arguments ever met),
     y + x*x = 0 -> y = 0            for y a sum of squares (formally real field).
   The SIGN of beta (sltb alpha 0) and the sign of the root are never used.   (C16 / A6) *)
From Amgcl Require Import Scalar Vec KernelsProofs StaticMatProofs DirectUtil DirectProofs Qr QrMathAlg.
Local Open Scope S_scope.
Local Open Scope nat_scope.

(* sums of squares, in the shape the loops build them *)
Inductive sos {S : Scalar} : S -> Prop :=
| sos_0 : sos s0
| sos_add (y x : S) : sos y -> sos (y + x * x)%S.

Section Sums.
Context {S : Scalar}.
Hypothesis Sft : Sfield S.
Let SrtB : Sring S := F_R Sft.
Add Ring SRingQrRefl0 : SrtB.

Lemma sumn_app (f : nat -> S) a b : sumn f (a + b) = (sumn f a + sumn (fun u => f (a + u)%nat) b)%S.
Proof.
  induction b as [|b IH]; [rewrite Nat.add_0_r; simpl; ring|].
  replace (a + Datatypes.S b) with (Datatypes.S (a + b)) by lia. simpl. rewrite IH. ring.
Qed.

Lemma sumn_first (f : nat -> S) k : sumn f (Datatypes.S k) = (f 0%nat + sumn (fun u => f (1 + u)%nat) k)%S.
Proof. change (Datatypes.S k) with (1 + k). rewrite sumn_app. simpl. ring. Qed.

Lemma sumn_allz (f : nat -> S) k : (forall t, t < k -> f t = s0) -> sumn f k = s0.
Proof.
  intro H. transitivity (sumn (fun _ : nat => @s0 S) k); [apply sumn_ext; assumption|apply (sumn_zero SrtB)].
Qed.

(* s = a; for j in lo..lo+cnt-1: s += g j *)
Lemma add_loop (g : nat -> S) lo cnt (a : S) :
  for_loop lo cnt (fun j s => (s + g j)%S) a = (a + sumn (fun u => g (lo + u)%nat) cnt)%S.
Proof.
  induction cnt as [|cnt IH]; [rewrite for_loop_0; simpl; ring|]. rewrite for_loop_S, IH. simpl. ring.
Qed.

Lemma sos_sumn (x : nat -> S) k : sos (sumn (fun t => x t * x t)%S k).
Proof. induction k as [|k IH]; simpl; [apply sos_0|apply sos_add; assumption]. Qed.

(* one pass of independent cell updates  A[f j] = g j (A[f j]) *)
Lemma loop_lset (f : nat -> nat) (g : nat -> S -> S) lo cnt (A0 : vec S) :
  (forall j j', lo <= j < lo + cnt -> lo <= j' < lo + cnt -> f j = f j' -> j = j') ->
  (forall j, lo <= j < lo + cnt -> f j < length A0) ->
  let R := for_loop lo cnt (fun j A => lset A (f j) (g j (vget A (f j)))) A0 in
  length R = length A0 /\
  (forall idx, (forall j, lo <= j < lo + cnt -> idx <> f j) -> vget R idx = vget A0 idx) /\
  (forall j, lo <= j < lo + cnt -> vget R (f j) = g j (vget A0 (f j))).
Proof.
  induction cnt as [|cnt IH]; intros Hinj Hb; cbv zeta.
  - rewrite for_loop_0. split; [reflexivity|]. split; [reflexivity|]. intros; lia.
  - rewrite for_loop_S.
    destruct IH as (HL & Hfr & Hv).
    { intros j j' Hj Hj'. apply Hinj; lia. }
    { intros j Hj. apply Hb. lia. }
    set (R := for_loop lo cnt (fun j A => lset A (f j) (g j (vget A (f j)))) A0) in *.
    split; [rewrite lset_length; assumption|]. split.
    + intros idx Hidx. rewrite vget_lset_neq by (intro E; apply (Hidx (lo + cnt)); [lia|congruence]).
      apply Hfr. intros j Hj. apply Hidx. lia.
    + intros j Hj. destruct (Nat.eq_dec j (lo + cnt)) as [->|Hne].
      * rewrite vget_lset_eq by (rewrite HL; apply Hb; lia). f_equal.
        apply Hfr. intros j' Hj' E. apply Hinj in E; lia.
      * rewrite vget_lset_neq by (intro E; apply Hinj in E; lia). apply Hv. lia.
Qed.

End Sums.

Section Refl.
Context {S : Scalar}.
Local Notation vec := (vec S).
Hypothesis Sft : Sfield S.
Hypothesis Seqb : seqb_spec S.
Hypothesis Hadj : forall x : S, sadj x = x.
Hypothesis Habs : forall x : S, (sabs x * sabs x = x * x)%S.
Hypothesis Hsqrt : forall y : S, sos y -> (ssqrt y * ssqrt y = y)%S.
Hypothesis Hreal : forall y x : S, sos y -> (y + x * x = s0)%S -> y = s0.
Let SrtR : Sring S := F_R Sft.
Add Ring SRingQrRefl : SrtR.
Add Field SFieldQrRefl : Sft.

Lemma is_zero_iff (x : S) : is_zero x = true <-> x = s0.
Proof. unfold is_zero. apply Seqb. Qed.

Lemma is_zero_false (x : S) : is_zero x = false -> x <> s0.
Proof. intros H E. apply is_zero_iff in E. congruence. Qed.

Lemma sqr_zero (x : S) : (x * x = s0)%S -> x = s0.
Proof.
  intro H. destruct (is_zero x) eqn:E; [apply is_zero_iff; assumption|].
  apply is_zero_false in E. exfalso. apply E.
  transitivity (sinv x * (x * x))%S; [field; assumption|]. rewrite H. ring.
Qed.

(* a vanishing sum of squares has only vanishing terms *)
Lemma sos_sumn_zero (x : nat -> S) k : sumn (fun t => x t * x t)%S k = s0 -> forall t, t < k -> x t = s0.
Proof.
  induction k as [|k IH]; intros H t Ht; [lia|]. simpl in H.
  pose proof (Hreal _ _ (sos_sumn x k) H) as H0.
  destruct (Nat.eq_dec t k) as [->|Hne]; [|apply IH; [assumption|lia]].
  apply sqr_zero. rewrite H0 in H. rewrite <- H. ring.
Qed.

(* ------------------------------------------------------------------ gen_reflector *)
Lemma gen_reflector_spec order ia ix stride (A : vec) :
  (forall t, t < order - 1 -> ix + t * stride <> ia) ->
  (forall t t', t < order - 1 -> t' < order - 1 -> ix + t * stride = ix + t' * stride -> t = t') ->
  ia < length A -> (forall t, t < order - 1 -> ix + t * stride < length A) ->
  let x := fun t => vget A (ix + t * stride) in
  let alpha := vget A ia in
  let xn := sumn (fun t => x t * x t)%S (order - 1) in
  let tau := fst (gen_reflector order ia ix stride A) in
  let A1 := snd (gen_reflector order ia ix stride A) in
  length A1 = length A /\
  (forall idx, idx <> ia -> (forall t, t < order - 1 -> idx <> ix + t * stride) -> vget A1 idx = vget A idx) /\
  ((tau = s0 /\ A1 = A /\ forall t, t < order - 1 -> x t = s0) \/
   (exists beta : S, beta <> s0 /\ (alpha - beta)%S <> s0 /\ (beta * beta = alpha * alpha + xn)%S /\
      tau = (s1 - sinv beta * alpha)%S /\ vget A1 ia = beta /\
      forall t, t < order - 1 -> vget A1 (ix + t * stride) = (sinv (alpha - beta) * x t)%S)).
Proof.
  intros Hne Hinj Hia Hb x alpha xn. unfold gen_reflector.
  destruct (Nat.leb_spec order 1) as [Ho|Ho]; cbn [fst snd].
  { split; [reflexivity|]. split; [reflexivity|]. left. repeat split. intros; lia. }
  cbv zeta.
  assert (Exn : for_loop 0 (order - 1) (fun i s => (s + sqr (sabs (vget A (ix + i * stride))))%S) s0 = xn).
  { rewrite add_loop by assumption. unfold xn, x, sqr.
    transitivity (s0 + sumn (fun t => vget A (ix + t * stride) * vget A (ix + t * stride))%S (order - 1))%S; [|ring].
    f_equal. apply sumn_ext. intros t _. simpl. apply Habs. }
  rewrite Exn.
  destruct (is_zero xn) eqn:Ez; cbn [fst snd].
  { split; [reflexivity|]. split; [reflexivity|]. left. repeat split.
    apply is_zero_iff in Ez. apply (sos_sumn_zero x _ Ez). }
  apply is_zero_false in Ez. fold alpha.
  set (rt := ssqrt (sqr (sabs alpha) + xn)%S).
  assert (Hrt : (rt * rt = alpha * alpha + xn)%S).
  { unfold rt, sqr. rewrite Habs.
    assert (E : (alpha * alpha + xn = xn + alpha * alpha)%S) by ring. rewrite E.
    apply Hsqrt. apply sos_add. apply sos_sumn. }
  set (beta0 := (- sabs rt)%S).
  assert (Hb0 : (beta0 * beta0 = alpha * alpha + xn)%S).
  { unfold beta0. transitivity (sabs rt * sabs rt)%S; [ring|]. rewrite Habs. assumption. }
  set (beta := if sltb alpha s0 then (- beta0)%S else beta0).
  assert (Hbeta : (beta * beta = alpha * alpha + xn)%S).
  { unfold beta. destruct (sltb alpha s0); [|assumption]. rewrite <- Hb0. ring. }
  assert (Hbnz : beta <> s0).
  { intro E. rewrite E in Hbeta. apply Ez.
    apply (Hreal xn alpha); [apply sos_sumn|].
    transitivity (alpha * alpha + xn)%S; [ring|]. rewrite <- Hbeta. ring. }
  assert (Habnz : (alpha - beta)%S <> s0).
  { intro E. apply Ez. assert (Eab : alpha = beta) by (transitivity (alpha - beta + beta)%S; [ring|rewrite E; ring]).
    rewrite <- Eab in Hbeta. transitivity (alpha * alpha + xn - alpha * alpha)%S; [ring|]. rewrite <- Hbeta. ring. }
  set (alpha1 := sinv (alpha - beta * s1)%S).
  destruct (loop_lset (fun i => ix + i * stride) (fun _ c => (alpha1 * c)%S) 0 (order - 1) A) as (HL & Hfr & Hv).
  { intros j j' Hj Hj'. apply Hinj; lia. }
  { intros j Hj. apply Hb. lia. }
  cbv beta in HL, Hfr, Hv.
  set (A1 := for_loop 0 (order - 1) (fun i A0 => lset A0 (ix + i * stride) (alpha1 * vget A0 (ix + i * stride))%S) A) in *.
  split; [rewrite lset_length; assumption|]. split.
  - intros idx H1 H2. rewrite vget_lset_neq by congruence. apply Hfr. intros j Hj. apply H2. lia.
  - right. exists beta. split; [assumption|]. split; [assumption|]. split; [assumption|].
    split; [reflexivity|]. split.
    + rewrite vget_lset_eq by (rewrite HL; assumption). ring.
    + intros t Ht. rewrite vget_lset_neq by (intro E; apply (Hne t Ht); congruence).
      rewrite Hv by lia. unfold alpha1, x. f_equal. f_equal. ring.
Qed.

(* ------------------------------------------------------------------ apply_reflector *)
(* the vector of the reflector as apply_reflector reads it: v[0] is taken to be 1 *)
Definition vvec (V : vec) (iv vs j : nat) : S := if Nat.eqb j 0 then s1 else vget V (iv + j * vs).

Lemma apply_reflector_spec m n (V : vec) iv vs tau (C : vec) ic rs cs :
  0 < m ->
  (forall c j c' j', c < n -> j < m -> c' < n -> j' < m ->
     ic + c * cs + j * rs = ic + c' * cs + j' * rs -> c = c' /\ j = j') ->
  (forall c j, c < n -> j < m -> ic + c * cs + j * rs < length C) ->
  let C' := apply_reflector m n V iv vs tau C ic rs cs in
  length C' = length C /\
  (forall idx, (forall c j, c < n -> j < m -> idx <> ic + c * cs + j * rs) -> vget C' idx = vget C idx) /\
  (forall c j, c < n -> j < m ->
     vget C' (ic + c * cs + j * rs) =
     (vget C (ic + c * cs + j * rs)
      - vvec V iv vs j * (tau * sumn (fun l => vvec V iv vs l * vget C (ic + c * cs + l * rs)) m))%S).
Proof.
  intros Hm Hinj Hb. cbv zeta. unfold apply_reflector.
  destruct (is_zero tau) eqn:Ez.
  { apply is_zero_iff in Ez. subst tau. split; [reflexivity|]. split; [reflexivity|]. intros; ring. }
  pose (newv := fun c j => (vget C (ic + c * cs + j * rs)
      - vvec V iv vs j * (tau * sumn (fun l => vvec V iv vs l * vget C (ic + c * cs + l * rs)) m))%S).
  pose (P := fun i (C1 : vec) => length C1 = length C /\
     (forall idx, (forall c j, c < n -> j < m -> idx <> ic + c * cs + j * rs) -> vget C1 idx = vget C idx) /\
     (forall c j, c < n -> j < m -> vget C1 (ic + c * cs + j * rs) =
         if Nat.ltb c i then newv c j else vget C (ic + c * cs + j * rs))).
  match goal with |- length ?X = _ /\ _ => assert (H : P (0 + n) X) end.
  { apply (for_loop_inv P).
    - split; [reflexivity|]. split; [reflexivity|]. intros c j _ _. reflexivity.
    - intros i C1 Hi (HL & Hfr & Hv). cbv zeta.
      set (ia := ic + i * cs).
      (* the inner product of the column with v *)
      set (w := for_loop 1 (m - 1) (fun j s => (s + sadj (vget C1 (ia + j * rs)) * vget V (iv + j * vs))%S) (sadj (vget C1 ia))).
      assert (Ew : w = sumn (fun l => vvec V iv vs l * vget C (ic + i * cs + l * rs))%S m).
      { unfold w. rewrite add_loop by assumption.
        replace m with (Datatypes.S (m - 1)) at 2 by lia. rewrite sumn_first by assumption.
        f_equal.
        - rewrite Hadj. unfold vvec. cbn [Nat.eqb]. replace ia with (ic + i * cs + 0 * rs) by (unfold ia; lia).
          rewrite Hv by lia. rewrite Nat.ltb_irrefl. ring.
        - apply sumn_ext. intros u Hu. rewrite Hadj. unfold vvec.
          destruct (Nat.eqb_spec (1 + u) 0); [lia|]. unfold ia. rewrite Hv by lia.
          rewrite Nat.ltb_irrefl. ring. }
      rewrite Hadj. rewrite Ew. clear w Ew.
      set (s := (tau * sumn (fun l => vvec V iv vs l * vget C (ic + i * cs + l * rs)) m)%S).
      set (C2 := lset C1 ia (vget C1 ia - s)%S).
      assert (Hia0 : ia = ic + i * cs + 0 * rs) by (unfold ia; lia).
      assert (Hiab : ia < length C1) by (rewrite HL, Hia0; apply Hb; lia).
      assert (Hia_ne : forall c j, c < n -> j < m -> (c <> i \/ j <> 0) -> ia <> ic + c * cs + j * rs).
      { intros c j Hc Hj Hor E. assert (E' : ic + i * cs + 0 * rs = ic + c * cs + j * rs) by (unfold ia in E; lia).
        apply Hinj in E'; lia. }
      destruct (loop_lset (fun j => ia + j * rs) (fun j c => (c - vget V (iv + j * vs) * s)%S) 1 (m - 1) C2) as (HL3 & Hfr3 & Hv3).
      { intros j j' Hj Hj' E. unfold ia in E. apply Hinj in E; lia. }
      { intros j Hj. unfold C2. rewrite lset_length, HL. unfold ia. apply Hb; lia. }
      cbv beta in HL3, Hfr3, Hv3.
      set (C3 := for_loop 1 (m - 1) (fun j C0 => lset C0 (ia + j * rs) (vget C0 (ia + j * rs) - vget V (iv + j * vs) * s)%S) C2) in *.
      split; [rewrite HL3; unfold C2; rewrite lset_length; assumption|]. split.
      + intros idx Hidx. rewrite Hfr3.
        * unfold C2. rewrite vget_lset_neq by (intro E; apply (Hidx i 0); [lia|lia|lia]). apply Hfr. assumption.
        * intros j Hj. unfold ia. apply Hidx; lia.
      + intros c j Hc Hj.
        destruct (Nat.eq_dec c i) as [->|Hci].
        * destruct (Nat.ltb_spec i (Datatypes.S i)); [|lia]. unfold newv.
          destruct (Nat.eq_dec j 0) as [->|Hj0].
          -- rewrite Hfr3 by (intros j' Hj' E; unfold ia in E; apply Hinj in E; lia).
             rewrite <- Hia0. unfold C2. rewrite vget_lset_eq by assumption.
             rewrite Hia0, Hv by lia. rewrite Nat.ltb_irrefl. unfold s, vvec. cbn [Nat.eqb]. ring.
          -- fold ia. rewrite Hv3 by lia. unfold C2.
             rewrite vget_lset_neq by (intro E; apply (Hia_ne i j); [lia|lia|lia|unfold ia in *; lia]).
             unfold ia. rewrite Hv by lia. rewrite Nat.ltb_irrefl. unfold vvec.
             destruct (Nat.eqb_spec j 0); [lia|]. unfold s, vvec. ring.
        * rewrite Hfr3 by (intros j' Hj' E; unfold ia in E; apply Hinj in E; lia).
          unfold C2. rewrite vget_lset_neq by (apply Hia_ne; lia).
          rewrite Hv by assumption.
          destruct (Nat.ltb_spec c i), (Nat.ltb_spec c (Datatypes.S i)); try lia; reflexivity. }
  destruct H as (HL & Hfr & Hv). split; [assumption|]. split; [assumption|].
  intros c j Hc Hj. rewrite Hv by assumption. destruct (Nat.ltb_spec c (0 + n)); [reflexivity|lia].
Qed.

End Refl.
