(* AmgSmooth4.v -- C02-B1 for Gauss-Seidel on ANY symmetric positive definite matrix, hypotheses on
   the inputs only:  M symmetric, <M x, x> > 0 for x <> 0, rows of M without duplicate columns;
   transfer operators with R = P^T and P injective (P u = 0 only for u = 0).
   Then every level of the hierarchy built by the model (Galerkin coarse operators) is symmetric
   positive definite with positive diagonal -- <A_c u, u> = <A P u, P u> > 0 -- every row of every
   level carries exactly one, positive, diagonal entry, and the forward/backward Gauss-Seidel pair
   satisfies the hypotheses of the cycle theorem: strict energy decrease, B positive definite. *)
From Amgcl Require Import Scalar Vec Crs Kernels KernelsProofs MatOps MatOpsProofs Relax RelaxProofs DenseSolve
  Amg AmgExec AmgProofs AmgProofs2 AmgProofs3 AmgProofs4 AmgProofs5 AmgProofs6 AmgProofs7 AmgProofs8
  AmgProofs9 AmgProofs10 AmgOrder AmgProofs11 AmgProofs12 AmgSmooth AmgSmooth2 AmgSmooth3.
Local Open Scope S_scope.

Section GsSpd.
Context {S : Scalar}.
Local Notation vec := (vec S).
Local Notation crs := (crs S).
Local Notation ldesc := (@ldesc S).
Hypothesis Sft : Sfield S.
Hypothesis Seqb : seqb_spec S.
Hypothesis Ord : ordered S.
Hypothesis Habs2 : forall v : S, sabs v * sabs v = v * v.
Hypothesis Hadj : forall v : S, sadj v = v.   (* real value types: math::adjoint = id (SPAI-0 accumulates adjoint(a_ii)) *)
Let Srt : Sring S := F_R Sft.
Add Ring SRingSm4 : Srt.
Local Notation ip := (@ip S).

Definition nonzero_on (n : nat) (x : vec) : Prop := exists i, i < n /\ vget x i <> s0.
Definition pd (A : crs) : Prop := forall x : vec, nonzero_on (nrows A) x -> olt s0 (qA (nrows A) A x x).
(* P u = 0 only for u = 0 *)
Definition inj (P : crs) : Prop :=
  forall u : vec, nonzero_on (ncols P) u -> exists i, i < nrows P /\ Ax P u i <> s0.

Lemma all_or_ex n (x : vec) : (forall i, i < n -> vget x i = s0) \/ nonzero_on n x.
Proof.
  induction n as [|n IH]; [left; intros; lia|].
  destruct IH as [H|(i & Hi & Hne)]; [|right; exists i; split; [lia|exact Hne]].
  destruct (seqb (vget x n) s0) eqn:E.
  - apply Seqb in E. left. intros i Hi. destruct (Nat.eq_dec i n) as [->|]; [exact E|apply H; lia].
  - right. exists n. split; [lia|]. intro E'. rewrite E' in E.
    rewrite (proj2 (Seqb s0 s0) eq_refl) in E. discriminate.
Qed.

Lemma pd_psd (A : crs) : pd A -> psd0 A.
Proof.
  intros Hpd v. destruct (all_or_ex (nrows A) v) as [Hz|Hn]; [|apply (olt_ole Ord), Hpd, Hn].
  unfold qA. rewrite (sumn_ext _ (fun _ => s0)); [rewrite (sumn_zero Srt); apply (ole_refl Ord)|].
  intros i Hi. rewrite (Hz i Hi). ring.
Qed.

(* the diagonal of a positive definite matrix is positive *)
Lemma unit_get n i j : i < n -> vget (set_nth (@vzero S n) i s1) j = if Nat.eqb j i then s1 else s0.
Proof.
  intro Hi. rewrite set_nth_get by (rewrite vzero_length; exact Hi).
  rewrite vget_vzero. reflexivity.
Qed.

Lemma pd_diag (A : crs) : sym_mat (nrows A) A -> pd A -> forall i, i < nrows A -> olt s0 (mget A i i).
Proof.
  intros [HcA _] Hpd i Hi. set (n := nrows A) in *.
  set (u := set_nth (@vzero S n) i s1).
  assert (Hu : nonzero_on n u).
  { exists i. split; [exact Hi|]. unfold u. rewrite (unit_get n i i Hi), Nat.eqb_refl. apply (F_1_neq_0 Sft). }
  pose proof (Hpd u Hu) as H. fold n in H.
  replace (qA n A u u) with (mget A i i) in H; [exact H|].
  unfold qA. rewrite (sumn_ext _ (fun j => if Nat.eqb i j then mget A i i else s0)).
  - rewrite (sumn_delta Srt). replace (i <? n)%nat with true by (symmetry; apply Nat.ltb_lt; exact Hi). reflexivity.
  - intros j Hj. unfold u at 2. rewrite (unit_get n i j Hi), (Nat.eqb_sym j i).
    destruct (Nat.eqb_spec i j) as [<-|]; [|ring].
    unfold Ax. rewrite HcA. rewrite (sumn_ext _ (fun l => if Nat.eqb i l then mget A i i else s0)).
    + rewrite (sumn_delta Srt). replace (i <? n)%nat with true by (symmetry; apply Nat.ltb_lt; exact Hi). ring.
    + intros l Hl. unfold u. rewrite (unit_get n i l Hi), (Nat.eqb_sym l i).
      destruct (Nat.eqb_spec i l) as [<-|]; ring.
Qed.

(* Gauss-Seidel level conditions from positive definiteness *)
Lemma lvl_ok_gs_pd (A : crs) : wf A = true -> sym_mat (nrows A) A -> pd A -> rows_nodup A ->
  lvl_ok (@RGS S) A.
Proof.
  intros WA SA Hpd Hnd. pose proof (pd_diag A SA Hpd) as Hpos.
  split; [exact WA|]. split; [exact SA|]. split; [apply pd_psd, Hpd|]. split; [|exact Hpos].
  apply (gs_diag_ok_nodup Sft A Hnd). intros i Hi. split.
  - destruct (in_dec Nat.eq_dec i (map fst (nth i (rows A) []))) as [Hin|Hnin]; [exact Hin|].
    exfalso. apply (pos_ne Ord _ (Hpos i Hi)). unfold mget. apply (rget_notin Srt), Hnin.
  - apply (pos_ne Ord), Hpos, Hi.
Qed.

(* one Galerkin step keeps the conditions *)
Lemma galerkin_spd (A P R : crs) n' : wf A = true -> wf P = true -> wf R = true ->
  sym_mat (nrows A) A -> pd A -> nrows P = nrows A -> nrows R = n' -> transp (nrows A) n' R P -> inj P ->
  let A2 := sort_rows (galerkin A P R) in
  wf A2 = true /\ nrows A2 = n' /\ sym_mat (nrows A2) A2 /\ pd A2 /\ rows_nodup A2.
Proof.
  intros WA WP WR SA Hpd NP NR HT Hinj A2.
  assert (N2 : nrows A2 = n') by (unfold A2; rewrite sort_rows_nrows, galerkin_shape; exact NR).
  split; [apply sort_rows_wf, galerkin_cop_wf, WP|]. split; [exact N2|]. split; [|split].
  - rewrite N2. apply (sort_rows_sym Srt). apply (galerkin_cop_sym Srt A P R (nrows A) n'); assumption.
  - intros u Hu. rewrite N2 in *. unfold A2.
    rewrite <- (galerkin_energy Srt A P R (nrows A) n' WA WP WR NP HT u).
    apply Hpd. destruct HT as (_ & HcP & _). rewrite <- HcP in Hu.
    destruct (Hinj u Hu) as (i & Hi & Hne). exists i. split; [congruence|].
    rewrite (mv_get Srt P u i WP). exact Hne.
  - unfold rows_nodup, A2, sort_rows. cbn [rows]. apply Forall_forall. intros r Hr.
    apply in_map_iff in Hr as (r0 & <- & Hr0). apply sort_row_nodup.
    pose proof (spgemm_saad_nodup R (spgemm_saad A P false) false) as H.
    rewrite Forall_forall in H. apply H, Hr0.
Qed.

Lemma inj_sort_rows (P : crs) : inj P -> inj (sort_rows P).
Proof.
  intros H u Hu. destruct (H u Hu) as (i & Hi & Hne). exists i. split; [rewrite sort_rows_nrows; exact Hi|].
  replace (Ax (sort_rows P) u i) with (Ax P u i); [exact Hne|].
  unfold Ax. apply sumn_ext. intros j _. rewrite (sort_rows_dense Srt). reflexivity.
Qed.

Lemma rows_nodup_sort (A : crs) : rows_nodup A -> rows_nodup (sort_rows A).
Proof.
  unfold rows_nodup, sort_rows. cbn [rows]. rewrite !Forall_forall. intros H r Hr.
  apply in_map_iff in Hr as (r0 & <- & Hr0). apply sort_row_nodup, H, Hr0.
Qed.

Lemma pd_sort_rows (A : crs) : pd A -> pd (sort_rows A).
Proof.
  intros H x Hx. rewrite sort_rows_nrows in *.
  replace (qA (nrows A) (sort_rows A) x x) with (qA (nrows A) A x x); [apply H, Hx|].
  unfold qA. apply sumn_ext. intros i _. f_equal. unfold Ax.
  replace (ncols (sort_rows A)) with (ncols A) by reflexivity.
  apply sumn_ext. intros j _. rewrite (sort_rows_dense Srt). reflexivity.
Qed.

(* transfer operators: R = P^T, P injective *)
Fixpoint ts_spd (n : nat) (ts : list (option (crs * crs))) : Prop :=
  match ts with
  | Some (P, R) :: ts' => wf P = true /\ wf R = true /\ nrows P = n /\
                          transp n (nrows R) R P /\ inj P /\ ts_spd (nrows R) ts'
  | _ => True
  end.

Theorem build_descs_gs ce dc ml : forall ts (A : crs) nlev,
  wf A = true -> sym_mat (nrows A) A -> pd A -> rows_nodup A -> ts_spd (nrows A) ts ->
  descs_ok (@RGS S) (build ce dc ml (@galerkin S) ts A nlev).
Proof.
  intro ts. induction ts as [|t ts' IH]; intros A nlev WA SA Hpd Hnd Hts; rewrite build_unfold.
  - pose proof (lvl_ok_gs_pd A WA SA Hpd Hnd) as Hl.
    destruct (Nat.leb (nrows A) ce); [destruct dc; simpl; auto|].
    destruct (Nat.leb ml (Datatypes.S nlev)); simpl; auto.
  - pose proof (lvl_ok_gs_pd A WA SA Hpd Hnd) as Hl.
    destruct (Nat.leb (nrows A) ce); [destruct dc; simpl; auto|].
    destruct (Nat.leb ml (Datatypes.S nlev)); [simpl; auto|].
    destruct t as [[P R]|]; [|simpl; auto].
    simpl in Hts. destruct Hts as (WP & WR & NP & HT & Hinj & Hts').
    set (P' := sort_rows P). set (R' := sort_rows R).
    assert (WP' : wf P' = true) by apply sort_rows_wf, WP.
    assert (WR' : wf R' = true) by apply sort_rows_wf, WR.
    assert (NP' : nrows P' = nrows A) by (unfold P'; rewrite sort_rows_nrows; exact NP).
    assert (NR' : nrows R' = nrows R) by apply sort_rows_nrows.
    assert (HT' : transp (nrows A) (nrows R) R' P') by apply (sort_rows_transp Srt), HT.
    destruct (galerkin_spd A P' R' (nrows R) WA WP' WR' SA Hpd NP' NR' HT' (inj_sort_rows P Hinj))
      as (W2 & N2 & S2 & Hpd2 & Hnd2).
    cbn [descs_ok]. split; [exact Hl|]. split; [exact WP'|]. split; [exact WR'|]. split; [exact NP'|].
    split; [rewrite NR'; exact HT'|].
    apply IH; try assumption. rewrite N2. exact Hts'.
Qed.

Lemma top_strict_gs (ls : list ldesc) : top_smoothed ls -> top_strict_desc (@RGS S) ls.
Proof. destruct ls as [|l tl]; [intros []|intros _; exact I]. Qed.

(* closed statement: Gauss-Seidel multigrid on a symmetric positive definite matrix *)
Theorem built_contracts_gs_spd ce dc ml ts (M : crs) k nc pc :
  wf M = true -> sym_mat (nrows M) M -> pd M -> rows_nodup M -> ts_spd (nrows M) ts ->
  let ls := amg_init ce dc ml (@galerkin S) ts M in
  top_smoothed ls ->
  let lvls := std_levels (@RGS S) ls in
  (forall scr g x, scratch_wf lvls scr -> length g = nrows M -> length x = nrows M ->
   g <> vzero (nrows M) ->
   let B := fst (apply (Datatypes.S k) (Datatypes.S k) (Datatypes.S nc) (Datatypes.S pc) lvls scr g x) in
   lt0 (qA (nrows M) (sort_rows M) B B - two * ip (nrows M) g B) /\ olt s0 (ip (nrows M) g B)) /\
  it_sdec (nrows M) (sort_rows M) (Cyc (Datatypes.S k) (Datatypes.S nc) lvls) /\
  (forall (e : vec) (lam : S), length e = nrows M ->
     res (nrows M) (sort_rows M) (z (nrows M)) e <> z (nrows M) ->
     olt s0 (qA (nrows M) (sort_rows M) e e) ->
     (forall i, i < nrows M ->
        vget (Cyc (Datatypes.S k) (Datatypes.S nc) lvls (z (nrows M)) e) i = lam * vget e i) ->
     olt (lam * lam) s1).
Proof.
  intros WM SM Hpd Hnd Hts ls Ht lvls.
  assert (Hd : descs_ok (@RGS S) ls).
  { unfold ls, amg_init. apply build_descs_gs.
    - apply sort_rows_wf, WM.
    - rewrite sort_rows_nrows. apply (sort_rows_sym Srt), SM.
    - apply pd_sort_rows, Hpd.
    - apply rows_nodup_sort, Hnd.
    - rewrite sort_rows_nrows. exact Hts. }
  apply (built_contracts2 Sft Seqb Ord Habs2 Hadj (@RGS S) ce dc ml ts M k nc pc Hd); [|exact Ht].
  apply top_strict_gs, Ht.
Qed.

End GsSpd.
