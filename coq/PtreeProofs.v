(* PtreeProofs.v -- lemmas about Ptree.v (C14-A1, A2 lifting, A3; used by C20-A3). *)
From Coq Require Import String List Bool Arith Lia.
From Amgcl Require Import Ptree.
Import ListNotations.
Local Open Scope string_scope.
Local Open Scope list_scope.

(* ---------------------------------------------------------------- A2 lifting *)
Lemma every_struct_ok exc known (tbl : list struct_desc) :
  forallb (ok_struct exc known) tbl = true ->
  forall s, In s tbl -> forall i, In i (struct_issues exc s) ->
    pair_mem (fst (fst i), snd (fst i)) known = true.
Proof.
  intros H s Hs i Hi. rewrite forallb_forall in H. specialize (H s Hs).
  unfold ok_struct in H. rewrite forallb_forall in H. exact (H i Hi).
Qed.

Lemma unlisted_regular exc known (tbl : list struct_desc) :
  forallb (fun s => listed exc known s || regularb s) tbl = true ->
  forall s, In s tbl -> listed exc known s = false -> regularb s = true.
Proof.
  intros H s Hs Hl. rewrite forallb_forall in H. specialize (H s Hs).
  rewrite Hl in H. exact H.
Qed.

Lemma every_wrapper_ok (tbl : list wrapper_desc) :
  forallb ok_wrapper tbl = true -> forall w, In w tbl -> wrapper_issues w = [].
Proof.
  intros H w Hw. rewrite forallb_forall in H. specialize (H w Hw).
  unfold ok_wrapper in H. destruct (wrapper_issues w); [reflexivity | discriminate].
Qed.
