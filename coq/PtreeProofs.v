(* PtreeProofs.v -- lemmas about Ptree.v (C14-A1, A2 lifting, A3; used by C20-A3). *)
From Coq Require Import String List Bool Arith Lia.
From Amgcl Require Import Ptree.
Import ListNotations.
Local Open Scope string_scope.
Local Open Scope list_scope.

(* ---------------------------------------------------------------- A2 lifting *)
Lemma every_struct_ok exc known (tbl : list struct_desc) :
  forallb (ok_struct exc known) tbl = true ->
  forall s, In s tbl -> forall i, In i (struct_issues exc s) ->
    pair_mem (fst (fst i), snd (fst i)) known = true.
Proof.
  intros H s Hs i Hi. rewrite forallb_forall in H. specialize (H s Hs).
  unfold ok_struct in H. rewrite forallb_forall in H. exact (H i Hi).
Qed.

Lemma unlisted_regular exc known (tbl : list struct_desc) :
  forallb (fun s => listed exc known s || regularb s) tbl = true ->
  forall s, In s tbl -> listed exc known s = false -> regularb s = true.
Proof.
  intros H s Hs Hl. rewrite forallb_forall in H. specialize (H s Hs).
  rewrite Hl in H. exact H.
Qed.

Lemma filter_unlisted_regular exc known (tbl : list struct_desc) :
  (forall s, In s tbl -> listed exc known s = false -> regularb s = true) ->
  forall s, In s (filter (fun s => negb (listed exc known s)) tbl) -> regularb s = true.
Proof.
  intros H s Hs. apply filter_In in Hs. destruct Hs as [Hin Hl]. apply (H s Hin).
  destruct (listed exc known s); [discriminate | reflexivity].
Qed.

Lemma every_wrapper_ok (tbl : list wrapper_desc) :
  forallb ok_wrapper tbl = true -> forall w, In w tbl -> wrapper_issues w = [].
Proof.
  intros H w Hw. rewrite forallb_forall in H. specialize (H w Hw).
  unfold ok_wrapper in H. destruct (wrapper_issues w); [reflexivity | discriminate].
Qed.

(* ---------------------------------------------------------------- put / get on paths *)
Lemma find_first_upd_same k f l :
  find_first k (upd_first k f l) = Some (f (match find_first k l with Some c => c | None => empty_ptree end)).
Proof.
  induction l as [|[k' c] l IH]; simpl.
  - rewrite String.eqb_refl. reflexivity.
  - destruct (String.eqb k' k) eqn:E; simpl; rewrite E; [reflexivity | exact IH].
Qed.

Lemma find_first_upd_other k k' f l : k <> k' -> find_first k' (upd_first k f l) = find_first k' l.
Proof.
  intros Hne. induction l as [|[k2 c] l IH]; simpl.
  - destruct (String.eqb k k') eqn:E; [apply String.eqb_eq in E; contradiction | reflexivity].
  - destruct (String.eqb k2 k) eqn:E; simpl.
    + apply String.eqb_eq in E. subst k2.
      destruct (String.eqb k k') eqn:E2; [apply String.eqb_eq in E2; contradiction | reflexivity].
    + destruct (String.eqb k2 k'); [reflexivity | exact IH].
Qed.

Lemma find_first_app_other {A} k k' (x : A) l : k <> k' -> find_first k' (l ++ [(k, x)]) = find_first k' l.
Proof.
  intros Hne. induction l as [|[k2 c] l IH]; simpl.
  - destruct (String.eqb k k') eqn:E; [apply String.eqb_eq in E; contradiction | reflexivity].
  - destruct (String.eqb k2 k'); [reflexivity | exact IH].
Qed.

Lemma find_first_app_new {A} k (x : A) l : find_first k l = None -> find_first k (l ++ [(k, x)]) = Some x.
Proof.
  induction l as [|[k2 c] l IH]; simpl; intros H.
  - rewrite String.eqb_refl. reflexivity.
  - destruct (String.eqb k2 k); [discriminate | exact (IH H)].
Qed.

Lemma get_child_put_same k ks v t :
  get_child_opt k (put_path (k :: ks) v t) = Some (put_path ks v (get_child k t)).
Proof. unfold get_child_opt, get_child, get_child_opt. simpl. apply find_first_upd_same. Qed.

Lemma get_child_put_other k k' ks v t : k <> k' ->
  get_child_opt k' (put_path (k :: ks) v t) = get_child_opt k' t.
Proof. intros H. unfold get_child_opt. simpl. apply find_first_upd_other. exact H. Qed.

(* a value put on a path is what a get on the same path returns *)
Lemma get_put_same ks v t : exists n, get_path ks (put_path ks v t) = Some n /\ pdata n = v.
Proof.
  revert t. induction ks as [|k ks IH]; intros t.
  - exists (Node v (pkids t)). split; reflexivity.
  - cbn [get_path]. rewrite get_child_put_same. apply IH.
Qed.

(* ... and it leaves the data on every other existing path alone *)
Lemma get_put_other p : forall q v t n, get_path p t = Some n -> p <> q ->
  exists n', get_path p (put_path q v t) = Some n' /\ pdata n' = pdata n.
Proof.
  induction p as [|a p IH]; intros q v t n Hg Hne.
  - simpl in Hg. injection Hg as <-. destruct q as [|b q]; [contradiction|].
    eexists. split; [reflexivity | reflexivity].
  - cbn [get_path] in Hg. destruct (get_child_opt a t) as [c|] eqn:Ec; [|discriminate].
    destruct q as [|b q].
    + exists n. split; [|reflexivity]. cbn [get_path]. unfold get_child_opt in *. simpl. rewrite Ec. exact Hg.
    + destruct (String.eqb b a) eqn:E.
      * apply String.eqb_eq in E. subst b. cbn [get_path]. rewrite get_child_put_same.
        unfold get_child. rewrite Ec. apply (IH q v c n Hg). intros ->. apply Hne. reflexivity.
      * apply String.eqb_neq in E. exists n. split; [|reflexivity].
        cbn [get_path]. rewrite (get_child_put_other b a q v t E). rewrite Ec. exact Hg.
Qed.

(* ================================================================ C14-A1 *)
(* ---- induction principle for the nested type desc ---- *)
Section DescInd.
  Variable P : desc -> Prop.
  Hypothesis HV : forall ty d, P (DVal ty d).
  Hypothesis HO : P DOpaque.
  Hypothesis HS : forall imps exps chk,
      Forall (fun e => P (snd e)) imps -> Forall (fun e => P (snd e)) exps -> P (DStruct imps exps chk).
  Fixpoint desc_ind' (d : desc) : P d :=
    match d with
    | DVal ty dv => HV ty dv
    | DOpaque => HO
    | DStruct imps exps chk =>
        HS imps exps chk
          ((fix go (l : list (key * desc)) : Forall (fun e => P (snd e)) l :=
              match l with
              | [] => Forall_nil _
              | e :: l' => Forall_cons e (match e as e0 return P (snd e0) with (k, dk) => desc_ind' dk end) (go l')
              end) imps)
          ((fix go (l : list (key * desc)) : Forall (fun e => P (snd e)) l :=
              match l with
              | [] => Forall_nil _
              | e :: l' => Forall_cons e (match e as e0 return P (snd e0) with (k, dk) => desc_ind' dk end) (go l')
              end) exps)
    end.
End DescInd.

(* ---- the anonymous field loops of Ptree.v, named ---- *)
Fixpoint import_fields (l : list (key * desc)) (t : ptree) : res (list (key * pval)) :=
  match l with
  | [] => Ok []
  | (k, dk) :: l' =>
      match import dk (get_child_opt k t) with
      | Exc e => Exc e
      | Ok v => match import_fields l' t with Exc e => Exc e | Ok vs => Ok ((k, v) :: vs) end
      end
  end.
Lemma import_struct_eq imps exps chk c :
  import (DStruct imps exps chk) c =
  match import_fields imps (of_opt c) with Exc e => Exc e | Ok fs => Ok (VRec fs) end.
Proof.
  cbn [import].
  match goal with |- match ?F imps with _ => _ end = _ =>
    assert (E : forall l, F l = import_fields l (of_opt c)) end.
  { induction l as [|[k dk] l IH]; [reflexivity|]. cbn. rewrite IH. reflexivity. }
  rewrite E. reflexivity.
Qed.

Fixpoint export_fields (l : list (key * desc)) (fs : list (key * pval)) (path : list key) (p : ptree) : ptree :=
  match l with
  | [] => p
  | (k, dk) :: l' => export_fields l' fs path (export dk (find_first k fs) (path ++ [k]) p)
  end.
Definition rec_fields (v : option pval) : list (key * pval) := match v with Some (VRec fs) => fs | _ => [] end.
Lemma export_struct_eq imps exps chk v path p :
  export (DStruct imps exps chk) v path p = export_fields exps (rec_fields v) path p.
Proof.
  cbn [export]. fold (rec_fields v).
  match goal with |- ?F exps p = _ =>
    assert (E : forall l q, F l q = export_fields l (rec_fields v) path q) end.
  { induction l as [|[k dk] l IH]; intros q; [reflexivity|]. cbn. rewrite IH. reflexivity. }
  apply E.
Qed.

Definition unknown_here (chk : list (list key)) (t : ptree) : list key :=
  flat_map (fun names => filter (fun k => negb (mem k names)) (map fst (pkids t))) chk.
Lemma unknowns_struct_incl imps exps chk c k :
  In k (unknown_here chk (of_opt c)) -> In k (unknowns (DStruct imps exps chk) c).
Proof. intros H. cbn [unknowns]. apply in_or_app. right. exact H. Qed.

(* ---- exporting below key k does not touch the other children of the root ---- *)
Lemma get_child_add_other k k' path obj p : k <> k' ->
  get_child_opt k' (add_child_path (k :: path) obj p) = get_child_opt k' p.
Proof.
  intros Hne. unfold get_child_opt. destruct path as [|a path]; simpl.
  - apply find_first_app_other. exact Hne.
  - apply find_first_upd_other. exact Hne.
Qed.

Lemma export_preserves_other d : forall v path p k k', k <> k' ->
  get_child_opt k' (export d v (k :: path) p) = get_child_opt k' p.
Proof.
  induction d as [ty dv | | imps exps chk _ IH] using desc_ind'; intros v path p k k' Hne.
  - cbn [export]. apply get_child_put_other. exact Hne.
  - cbn [export]. apply get_child_add_other. exact Hne.
  - rewrite export_struct_eq. generalize (rec_fields v) as fs. intros fs. revert p.
    induction IH as [|[kk dk] l Hd _ IHl]; intros p; [reflexivity|].
    cbn [export_fields]. rewrite IHl. change ((k :: path) ++ [kk]) with (k :: (path ++ [kk])).
    apply Hd. exact Hne.
Qed.

Lemma export_fields_preserves_other l fs p k' :
  ~ In k' (map fst l) -> get_child_opt k' (export_fields l fs [] p) = get_child_opt k' p.
Proof.
  revert p. induction l as [|[k dk] l IH]; intros p Hn; [reflexivity|].
  cbn [export_fields]. rewrite IH by (intros H; apply Hn; right; exact H).
  apply export_preserves_other. intros ->. apply Hn. left. reflexivity.
Qed.

(* ---- exporting below key k = exporting into the child at k ---- *)
Lemma get_child_is_of_opt k p : get_child k p = of_opt (get_child_opt k p).
Proof. reflexivity. Qed.

Lemma export_descend d : forall v path p k, (d = DOpaque -> path <> []) ->
  of_opt (get_child_opt k (export d v (k :: path) p)) = export d v path (of_opt (get_child_opt k p)).
Proof.
  induction d as [ty dv | | imps exps chk _ IH] using desc_ind'; intros v path p k Hop.
  - cbn [export]. rewrite get_child_put_same. reflexivity.
  - cbn [export]. destruct path as [|a path]; [exfalso; apply Hop; reflexivity|].
    unfold get_child_opt at 1. cbn [add_child_path pkids]. rewrite find_first_upd_same. reflexivity.
  - clear Hop. rewrite !export_struct_eq. generalize (rec_fields v) as fs. intros fs. revert p.
    induction IH as [|[kk dk] l Hd _ IHl]; intros p; [reflexivity|].
    cbn [export_fields]. rewrite IHl. f_equal.
    change ((k :: path) ++ [kk]) with (k :: (path ++ [kk])).
    apply Hd. intros _ H. destruct path; discriminate.
Qed.

(* ---- well-formed descriptions: what C14-A2 establishes for every regular struct ---- *)
Fixpoint wf_desc (d : desc) : Prop :=
  match d with
  | DVal TPlain _ => True
  | DVal (TEnum names) dflt => mem dflt names = true        (* the default enumerator has a text *)
  | DOpaque => True
  | DStruct imps exps chk =>
      (* same members with the same descriptions in both lists (any order), no duplicates *)
      (forall e, In e exps <-> In e imps) /\ NoDup (map fst imps) /\ NoDup (map fst exps) /\
      (forall names, In names chk -> forall k, In k (map fst imps) -> mem k names = true) /\
      (fix all (l : list (key * desc)) : Prop :=
         match l with [] => True | (k, dk) :: l' => wf_desc dk /\ all l' end) imps
  end.
Fixpoint all_wf (l : list (key * desc)) : Prop :=
  match l with [] => True | (k, dk) :: l' => wf_desc dk /\ all_wf l' end.
Lemma wf_struct_eq imps exps chk :
  wf_desc (DStruct imps exps chk) <->
  (forall e, In e exps <-> In e imps) /\ NoDup (map fst imps) /\ NoDup (map fst exps) /\
  (forall names, In names chk -> forall k, In k (map fst imps) -> mem k names = true) /\ all_wf imps.
Proof.
  cbn [wf_desc].
  assert (E : forall l, (fix all (l : list (key * desc)) : Prop :=
         match l with [] => True | (k, dk) :: l' => wf_desc dk /\ all l' end) l <-> all_wf l).
  { induction l as [|[k dk] l IH]; [reflexivity|]. cbn. rewrite IH. reflexivity. }
  rewrite E. reflexivity.
Qed.
Lemma all_wf_in l k dk : all_wf l -> In (k, dk) l -> wf_desc dk.
Proof.
  induction l as [|[k' d'] l IH]; [intros _ []|]. intros [H1 H2] [H|H]; [injection H as -> ->; exact H1 | exact (IH H2 H)].
Qed.

(* ---- "the exported tree p carries, for every parameter of d, the value the input c had
        (the default where c had none)" ---- *)
Fixpoint agrees (d : desc) (c p : option ptree) : Prop :=
  match d with
  | DVal _ dflt => exists n, p = Some n /\ pdata n = match c with Some m => pdata m | None => dflt end
  | DOpaque => p = Some (of_opt c)
  | DStruct imps _ _ =>
      (fix all (l : list (key * desc)) : Prop :=
         match l with
         | [] => True
         | (k, dk) :: l' => agrees dk (get_child_opt k (of_opt c)) (get_child_opt k (of_opt p)) /\ all l'
         end) imps
  end.
Fixpoint agrees_fields (l : list (key * desc)) (t q : ptree) : Prop :=
  match l with
  | [] => True
  | (k, dk) :: l' => agrees dk (get_child_opt k t) (get_child_opt k q) /\ agrees_fields l' t q
  end.
Lemma agrees_struct_eq imps exps chk c p :
  agrees (DStruct imps exps chk) c p <-> agrees_fields imps (of_opt c) (of_opt p).
Proof.
  cbn [agrees].
  match goal with |- ?F imps <-> _ => assert (E : forall l, F l <-> agrees_fields l (of_opt c) (of_opt p)) end.
  { induction l as [|[k dk] l IH]; [reflexivity|]. cbn. rewrite IH. reflexivity. }
  apply E.
Qed.
Lemma agrees_fields_in l t q : agrees_fields l t q <->
  (forall k dk, In (k, dk) l -> agrees dk (get_child_opt k t) (get_child_opt k q)).
Proof.
  induction l as [|[k dk] l IH]; cbn.
  - split; [intros _ ? ? [] | trivial].
  - rewrite IH. split.
    + intros [H1 H2] k' dk' [H|H]; [injection H as <- <-; exact H1 | exact (H2 _ _ H)].
    + intros H. split; [apply H; left; reflexivity | intros k' dk' Hin; apply H; right; exact Hin].
Qed.

Lemma import_fields_find l t fs : import_fields l t = Ok fs -> NoDup (map fst l) ->
  forall k dk, In (k, dk) l -> exists vk, find_first k fs = Some vk /\ import dk (get_child_opt k t) = Ok vk.
Proof.
  revert fs. induction l as [|[k0 d0] l IH]; intros fs H Hnd k dk Hin; [destruct Hin|].
  cbn in H. destruct (import d0 (get_child_opt k0 t)) as [v0|] eqn:E0; [|discriminate].
  destruct (import_fields l t) as [vs|] eqn:El; [|discriminate]. injection H as <-.
  inversion Hnd as [|? ? Hn Hd]; subst. destruct Hin as [Hin|Hin].
  - injection Hin as -> ->. exists v0. split; [cbn; rewrite String.eqb_refl; reflexivity | exact E0].
  - destruct (IH vs eq_refl Hd k dk Hin) as (vk & Hf & Hi). exists vk. split; [|exact Hi].
    cbn. destruct (String.eqb k0 k) eqn:E; [|exact Hf].
    apply String.eqb_eq in E. subst k0. exfalso. apply Hn. apply (in_map fst) in Hin. exact Hin.
Qed.

(* the round-trip statement for one description (only structs are exported at the root) *)
Definition rt_ok (d : desc) : Prop :=
  forall c v, import d c = Ok v ->
    match d with DStruct _ _ _ => agrees d c (Some (export d (Some v) [] empty_ptree)) | _ => True end.

(* one member exported into a tree that has no child of that name yet *)
Lemma field_agrees dk : forall k ck vk p,
  rt_ok dk -> import dk ck = Ok vk -> get_child_opt k p = None ->
  agrees dk ck (get_child_opt k (export dk (Some vk) [k] p)).
Proof.
  destruct dk as [ty dflt | | imps exps chk]; intros k ck vk p HP Hi Hnone.
  - (* value member *)
    cbn [export]. rewrite get_child_put_same. cbn [agrees]. eexists. split; [reflexivity|].
    cbn [put_path pdata]. cbn [import] in Hi. destruct ck as [m|].
    + destruct ty as [|names]; [injection Hi as <-; reflexivity|].
      destruct (mem (pdata m) names); [injection Hi as <-; reflexivity | discriminate].
    + injection Hi as <-. reflexivity.
  - (* ptree member *)
    cbn [import] in Hi. injection Hi as <-. cbn [export agrees]. unfold get_child_opt in *.
    cbn [add_child_path pkids]. rewrite (find_first_app_new k (of_opt ck) (pkids p) Hnone). reflexivity.
  - (* params member *)
    specialize (HP ck vk Hi). cbn beta iota in HP. rewrite agrees_struct_eq in *. cbn [of_opt] in HP.
    rewrite (export_descend (DStruct imps exps chk) (Some vk) [] p k) by discriminate.
    rewrite Hnone. exact HP.
Qed.

Lemma fields_agree t fs : forall l p,
  NoDup (map fst l) ->
  (forall k dk, In (k, dk) l -> get_child_opt k p = None) ->
  (forall k dk, In (k, dk) l -> exists vk, find_first k fs = Some vk /\ import dk (get_child_opt k t) = Ok vk) ->
  Forall (fun e => rt_ok (snd e)) l ->
  agrees_fields l t (export_fields l fs [] p).
Proof.
  induction l as [|[k dk] l IH]; intros p Hnd Hnone Hfs HP; [exact I|].
  inversion Hnd as [|? ? Hn Hd]; subst. inversion HP as [|? ? HPk HPl]; subst. cbn [snd] in HPk.
  cbn [export_fields agrees_fields app]. split.
  - rewrite export_fields_preserves_other by exact Hn.
    destruct (Hfs k dk (or_introl eq_refl)) as (vk & Hf & Hi). rewrite Hf.
    apply field_agrees; [exact HPk | exact Hi | exact (Hnone k dk (or_introl eq_refl))].
  - apply IH; [exact Hd | | intros k' dk' Hin; apply (Hfs k' dk'); right; exact Hin | exact HPl].
    intros k' dk' Hin. rewrite export_preserves_other.
    + apply (Hnone k' dk'). right. exact Hin.
    + intros ->. apply Hn. apply (in_map fst) in Hin. exact Hin.
Qed.

(* C14-A1, core: for a well-formed description, the tree exported from the imported object
   agrees with the input on every parameter, at every nesting depth *)
Theorem export_import_agrees d : wf_desc d -> rt_ok d.
Proof.
  induction d as [ty dv | | imps exps chk IHi _] using desc_ind'; intros Hwf c v Hi; [exact I | exact I |].
  apply wf_struct_eq in Hwf. destruct Hwf as (Hsame & Hnd & Hnde & _ & Hall).
  rewrite import_struct_eq in Hi. destruct (import_fields imps (of_opt c)) as [fs|] eqn:Ef; [|discriminate].
  injection Hi as <-. rewrite agrees_struct_eq, export_struct_eq. cbn [of_opt rec_fields].
  assert (Hrt : forall k dk, In (k, dk) imps -> rt_ok dk).
  { clear -IHi Hall. induction IHi as [|[k0 d0] l Hd _ IHl]; [intros ? ? []|].
    destruct Hall as [Hw Hall]. intros k dk [H|H]; [injection H as <- <-; exact (Hd Hw) | exact (IHl Hall k dk H)]. }
  apply agrees_fields_in. intros k dk Hin.
  assert (Hex : agrees_fields exps (of_opt c) (export_fields exps fs [] empty_ptree)).
  { apply fields_agree.
    - exact Hnde.
    - intros k' dk' _. reflexivity.
    - intros k' dk' Hin'. apply (import_fields_find imps (of_opt c) fs Ef Hnd). apply Hsame. exact Hin'.
    - apply Forall_forall. intros [k' dk'] Hin'. apply (Hrt k' dk'). apply Hsame. exact Hin'. }
  rewrite agrees_fields_in in Hex. apply Hex. apply Hsame. exact Hin.
Qed.

(* ---- consequences ---- *)
(* (a) importing the exported tree gives the same object: import . export . import = import *)
Lemma agrees_import d : wf_desc d -> forall c p, agrees d c p -> import d p = import d c.
Proof.
  induction d as [ty dflt | | imps exps chk IHi _] using desc_ind'; intros Hwf c p Hag.
  - cbn [agrees] in Hag. destruct Hag as (n & -> & Hn). cbn [import]. destruct c as [m|].
    + rewrite Hn. reflexivity.
    + rewrite Hn. destruct ty as [|names]; [reflexivity|]. cbn [wf_desc] in Hwf. rewrite Hwf. reflexivity.
  - cbn [agrees] in Hag. subst p. reflexivity.
  - apply wf_struct_eq in Hwf. destruct Hwf as (_ & _ & _ & _ & Hall).
    rewrite agrees_struct_eq in Hag. rewrite !import_struct_eq.
    assert (E : import_fields imps (of_opt p) = import_fields imps (of_opt c)); [|rewrite E; reflexivity].
    revert Hag Hall. generalize (of_opt c) as t. generalize (of_opt p) as q. intros q t.
    induction IHi as [|[k dk] l Hd _ IHl]; intros Hag Hall; [reflexivity|].
    cbn [agrees_fields] in Hag. destruct Hag as [Hk Hl]. destruct Hall as [Hw Hall]. cbn [import_fields].
    cbn [snd] in Hd. rewrite (Hd Hw _ _ Hk), (IHl Hl Hall). reflexivity.
Qed.

Theorem import_export_import imps exps chk t v :
  let d := DStruct imps exps chk in
  wf_desc d -> import d (Some t) = Ok v -> import d (Some (export_top d v)) = Ok v.
Proof.
  intros d Hwf Hi. rewrite <- Hi. apply (agrees_import d Hwf).
  exact (export_import_agrees d Hwf (Some t) v Hi).
Qed.

(* (b) export . import is the identity on the value parameters that are present, and gives the
       default for the absent ones -- first level ... *)
Lemma agrees_value imps exps chk t q k ty dflt x :
  agrees (DStruct imps exps chk) (Some t) (Some q) -> In (k, DVal ty dflt) imps ->
  get_value k x q = get_value k dflt t.
Proof.
  intros Hag Hin. rewrite agrees_struct_eq, agrees_fields_in in Hag. specialize (Hag k _ Hin).
  cbn [agrees of_opt] in Hag. destruct Hag as (n & Hn & Hd). unfold get_value. rewrite Hn, Hd. reflexivity.
Qed.
(* ... and at any depth: agreement descends into the params members *)
Lemma agrees_child imps exps chk t q k i e ch :
  agrees (DStruct imps exps chk) (Some t) (Some q) -> In (k, DStruct i e ch) imps ->
  agrees (DStruct i e ch) (Some (get_child k t)) (Some (get_child k q)).
Proof.
  intros Hag Hin. rewrite agrees_struct_eq, agrees_fields_in in Hag. specialize (Hag k _ Hin).
  cbn [of_opt] in Hag. rewrite agrees_struct_eq in *. exact Hag.
Qed.
(* a ptree-typed member (run-time wrapper parameters) is written back verbatim *)
Lemma agrees_opaque imps exps chk t q k :
  agrees (DStruct imps exps chk) (Some t) (Some q) -> In (k, DOpaque) imps ->
  get_child_opt k q = Some (get_child k t).
Proof.
  intros Hag Hin. rewrite agrees_struct_eq, agrees_fields_in in Hag. exact (Hag k _ Hin).
Qed.

(* (c) unknown keys: every key of the tree that some check_params call does not list is handed
       to the hook; a member name of a well-formed struct is never reported by its own check *)
Lemma unknown_reported imps exps chk t k names :
  In k (map fst (pkids t)) -> In names chk -> mem k names = false ->
  In k (unknowns (DStruct imps exps chk) (Some t)).
Proof.
  intros Hk Hn Hm. apply unknowns_struct_incl. unfold unknown_here. apply in_flat_map.
  exists names. split; [exact Hn|]. apply filter_In. split; [exact Hk | rewrite Hm; reflexivity].
Qed.
Lemma member_not_reported imps exps chk t k :
  wf_desc (DStruct imps exps chk) -> In k (map fst imps) -> ~ In k (unknown_here chk t).
Proof.
  intros Hwf Hk Hin. apply wf_struct_eq in Hwf. destruct Hwf as (_ & _ & _ & Hchk & _).
  unfold unknown_here in Hin. apply in_flat_map in Hin. destruct Hin as (names & Hn & Hf).
  apply filter_In in Hf. destruct Hf as [_ Hf]. rewrite (Hchk names Hn k Hk) in Hf. discriminate.
Qed.

(* (d) enumerations: a text outside the operator>> table raises, a text inside is accepted *)
Lemma enum_invalid names dflt n :
  mem (pdata n) names = false -> import (DVal (TEnum names) dflt) (Some n) = Exc "invalid_argument".
Proof. intros H. cbn [import]. rewrite H. reflexivity. Qed.
Lemma enum_valid names dflt n :
  mem (pdata n) names = true -> import (DVal (TEnum names) dflt) (Some n) = Ok (VVal (pdata n)).
Proof. intros H. cbn [import]. rewrite H. reflexivity. Qed.
(* ... and it propagates out of any struct that has the member *)
Lemma import_fields_exc l t k dk e :
  NoDup (map fst l) -> In (k, dk) l -> import dk (get_child_opt k t) = Exc e ->
  exists e', import_fields l t = Exc e'.
Proof.
  induction l as [|[k0 d0] l IH]; intros Hnd Hin He; [destruct Hin|].
  inversion Hnd as [|? ? Hn Hd]; subst. cbn [import_fields]. destruct Hin as [Hin|Hin].
  - injection Hin as -> ->. rewrite He. eauto.
  - destruct (import d0 (get_child_opt k0 t)); [|eauto].
    destruct (IH Hd Hin He) as [e' ->]. eauto.
Qed.

(* ---------------------------------------------------------------- C14-A3: run-time dispatch *)
Lemma runtime_wrapper_is_match (Tag A : Type) parse show dflt tagkey (component : Tag -> ptree -> A) prm tg :
  parse (get_value tagkey (show dflt) prm) = Some tg ->
  runtime_wrapper Tag A parse show dflt tagkey component prm = Ok (component tg (erase tagkey prm)).
Proof. intros H. unfold runtime_wrapper. rewrite H. reflexivity. Qed.
Lemma runtime_wrapper_invalid (Tag A : Type) parse show dflt tagkey (component : Tag -> ptree -> A) prm :
  parse (get_value tagkey (show dflt) prm) = None ->
  runtime_wrapper Tag A parse show dflt tagkey component prm = Exc "invalid_argument".
Proof. intros H. unfold runtime_wrapper. rewrite H. reflexivity. Qed.
(* the dispatch key is consumed: the component does not see it (so it is not an unknown key) *)
Lemma erase_removes k t : get_child_opt k (erase k t) = None.
Proof.
  unfold get_child_opt, erase. cbn [pkids]. induction (pkids t) as [|[k' c] l IH]; [reflexivity|].
  cbn [filter fst]. destruct (String.eqb k' k) eqn:E; cbn [negb]; [exact IH|]. cbn [find_first]. rewrite E. exact IH.
Qed.
Lemma erase_keeps k k' t : k <> k' -> get_child_opt k' (erase k t) = get_child_opt k' t.
Proof.
  intros Hne. unfold get_child_opt, erase. cbn [pkids]. induction (pkids t) as [|[k2 c] l IH]; [reflexivity|].
  cbn [filter fst]. destruct (String.eqb k2 k) eqn:E; cbn [negb find_first].
  - apply String.eqb_eq in E. subst k2. destruct (String.eqb k k') eqn:E2; [apply String.eqb_eq in E2; contradiction | exact IH].
  - destruct (String.eqb k2 k'); [reflexivity | exact IH].
Qed.

(* ================================================================ from C14-A2 to C14-A1:
   descriptions resolved from a table of regular structs are well formed *)
Lemma mem_In x l : mem x l = true <-> In x l.
Proof.
  induction l as [|y l IH]; cbn; [split; [discriminate | intros []]|].
  destruct (String.eqb x y) eqn:E.
  - apply String.eqb_eq in E. subst. split; auto.
  - apply String.eqb_neq in E. rewrite IH. split; [auto | intros [H|H]; [congruence | exact H]].
Qed.
Lemma kind_eqb_eq a b : kind_eqb a b = true -> a = b.
Proof. destruct a, b; (reflexivity || discriminate). Qed.
Lemma nk_mem_In x l : nk_mem x l = true -> In x l.
Proof.
  unfold nk_mem. intros H. apply existsb_exists in H. destruct H as ([n k] & Hin & H).
  apply andb_prop in H. destruct H as [H1 H2]. apply String.eqb_eq in H1. apply kind_eqb_eq in H2.
  cbn in *. destruct x as [xn xk]. cbn in *. subst. exact Hin.
Qed.
Lemma nodupb_NoDup l : nodupb l = true -> NoDup l.
Proof.
  induction l as [|x l IH]; cbn; [constructor|]. intros H. apply andb_prop in H. destruct H as [H1 H2].
  constructor; [|exact (IH H2)]. intros Hin. apply mem_In in Hin. rewrite Hin in H1. discriminate.
Qed.
Lemma subsetb_In a b : subsetb a b = true -> forall x, In x a -> mem x b = true.
Proof. unfold subsetb. intros H x Hx. rewrite forallb_forall in H. exact (H x Hx). Qed.

Lemma wf_empty_struct chk : wf_desc (DStruct [] [] chk).
Proof.
  apply wf_struct_eq. split; [intros e; tauto|]. split; [constructor|]. split; [constructor|].
  split; [intros names _ k [] | exact I].
Qed.

Section ResolveWf.
  Variable tbl : list struct_desc.
  Variable bind : list key -> option string.
  Variable dflt : list key -> string.
  Variable ety : list key -> vty.
  Hypothesis Hreg : forall s, In s tbl -> regularb s = true.
  (* the default enumerator of an enumeration-typed member has a text in the table
     (for the real enums: C14_A2_every_wrapper_ok, "operator>> parses what operator<< prints") *)
  Hypothesis Hety : forall p, match ety p with TEnum names => mem (dflt p) names = true | TPlain => True end.

  Lemma find_struct_In id s : find_struct id tbl = Some s -> In s tbl.
  Proof. unfold find_struct. intros H. apply find_some in H. exact (proj1 H). Qed.

  Lemma resolve_wf fuel : forall path id, wf_desc (resolve tbl bind dflt ety fuel path id).
  Proof.
    induction fuel as [|f IH]; intros path id; cbn [resolve].
    - apply wf_empty_struct.
    - destruct (find_struct id tbl) as [s|] eqn:Es; [|apply wf_empty_struct].
      pose proof (Hreg s (find_struct_In id s Es)) as R. unfold regularb in R.
      apply andb_prop in R. destruct R as [R HG]. apply andb_prop in R. destruct R as [R HF].
      apply andb_prop in R. destruct R as [R HE]. apply andb_prop in R. destruct R as [R HD].
      apply andb_prop in R. destruct R as [R HC]. apply andb_prop in R. destruct R as [HA HB].
      match goal with |- wf_desc (DStruct (map ?F _) _ _) => set (fld := F) end.
      assert (Hfst : forall l, map fst (map fld l) = map fst l).
      { induction l as [|e l IHl]; [reflexivity|]. cbn. rewrite IHl. reflexivity. }
      apply wf_struct_eq. split; [|split; [|split; [|split]]].
      + intros e. rewrite !in_map_iff. split; intros (x & <- & Hx); exists x; (split; [reflexivity|]).
        * rewrite forallb_forall in HB. apply nk_mem_In. exact (HB x Hx).
        * rewrite forallb_forall in HA. apply nk_mem_In. exact (HA x Hx).
      + rewrite Hfst. apply nodupb_NoDup. assumption.
      + rewrite Hfst. apply nodupb_NoDup. assumption.
      + intros names Hn k Hk. rewrite Hfst in Hk. rewrite forallb_forall in HD.
        exact (subsetb_In _ _ (HD names Hn) k Hk).
      + clear -IH Hety. induction (sd_imports s) as [|e l IHl]; [exact I|]. cbn [map all_wf].
        destruct e as [n k]. unfold fld at 1. cbn [fst snd]. split; [|exact IHl].
        destruct k.
        * cbn [wf_desc]. specialize (Hety (path ++ [n])). destruct (ety (path ++ [n])); [exact I | exact Hety].
        * destruct (bind (path ++ [n])) as [cid|].
          -- destruct (String.eqb cid "@opaque"); [exact I | apply IH].
          -- apply wf_empty_struct.
  Qed.
End ResolveWf.
