(* Relax.v -- the simple smoothers (amgcl/relaxation/damped_jacobi.hpp, spai0.hpp,
   gauss_seidel.hpp serial sweep).  ILU family, Chebyshev, SPAI-1: separate files. *)
From Amgcl Require Import Scalar Vec Crs Kernels MatOps.
Local Open Scope S_scope.

Section Relax.
Context {S : Scalar}.
Local Notation vec := (vec S).
Local Notation crs := (crs S).

(* --- damped Jacobi: dia = diagonal(A, invert = true) --- *)
Definition jacobi_setup (A : crs) (junk : vec) : vec := diagonal A true junk.
(* apply_pre = apply_post: tmp = rhs - A x ; x = damping * dia * tmp + 1 * x *)
Definition jacobi_sweep (damping : S) (dia : vec) (A : crs) (rhs x tmp : vec) : vec * vec :=
  let tmp' := residual rhs A x tmp in
  (vmul damping dia tmp' s1 x, tmp').
(* apply: x = 1 * dia * rhs + 0 * x *)
Definition jacobi_apply (dia : vec) (rhs x : vec) : vec := vmul s1 dia rhs s0 x.

(* --- SPAI-0: m_i = inverse(sum_j |a_ij|^2) * (sum of math::adjoint(entry) over entries with col == i)
       (spai0.hpp: `if (a.col() == i) num += math::adjoint(v);` -- the adjoint was added by the repair of finding
       C06-spai0-no-conj; the formula before the repair is kept as [spai0_row_old] for the historical refutation) --- *)
Definition spai0_row (i : nat) (r : row S) : S :=
  let '(num, den) := fold_left (fun (nd : S * S) e =>
        let nv := sabs (snd e) in
        (if Nat.eqb (fst e) i then fst nd + sadj (snd e) else fst nd, snd nd + nv * nv)) r (s0, s0) in
  sinv den * num.
(* HISTORICAL: spai0.hpp before the repair (`num += v`), not the least-squares minimiser for complex values *)
Definition spai0_row_old (i : nat) (r : row S) : S :=
  let '(num, den) := fold_left (fun (nd : S * S) e =>
        let nv := sabs (snd e) in
        (if Nat.eqb (fst e) i then fst nd + snd e else fst nd, snd nd + nv * nv)) r (s0, s0) in
  sinv den * num.
Definition spai0_setup (A : crs) : vec := map (fun ir => spai0_row (fst ir) (snd ir)) (indexed (rows A)).
Definition spai0_sweep (M : vec) (A : crs) (rhs x tmp : vec) : vec * vec :=
  let tmp' := residual rhs A x tmp in
  (vmul s1 M tmp' s1 x, tmp').
Definition spai0_apply (M : vec) (rhs x : vec) : vec := vmul s1 M rhs s0 x.

(* --- Gauss-Seidel, serial sweep --- *)
Fixpoint set_nth (x : vec) (i : nat) (v : S) : vec :=
  match x, i with
  | [], _ => []
  | _ :: tl, O => v :: tl
  | a :: tl, Datatypes.S k => a :: set_nth tl k v
  end.
(* one row: D = identity; X = rhs[i]; for entries: if c == i then D = v else X -= v*x[c];
   x[i] = inverse(D) * X   (the LAST diagonal entry of the row wins) *)
Definition gs_row (i : nat) (r : row S) (rhs x : vec) : vec :=
  let '(D, X) := fold_left (fun (dx : S * S) e =>
        if Nat.eqb (fst e) i then (snd e, snd dx) else (fst dx, snd dx - snd e * vget x (fst e)))
        r (s1, vget rhs i) in
  set_nth x i (sinv D * X).
Definition gs_sweep (A : crs) (rhs x : vec) (forward : bool) : vec :=
  let n := nrows A in
  let order := if forward then seq 0 n else rev (seq 0 n) in
  fold_left (fun x i => gs_row i (nth i (rows A) []) rhs x) order x.
Definition gs_apply (A : crs) (rhs x : vec) : vec :=
  gs_sweep A rhs (gs_sweep A rhs (vclear x) true) false.

End Relax.
