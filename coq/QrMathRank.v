(* QrMathRank.v -- "full rank" in the literal sense implies the guard of the solve theorems:
   if the columns of A are linearly independent, compute() leaves no zero on the diagonal of R.
   Corollaries: solve() returns the least-squares solution for every matrix of full column rank
   (rows >= cols) and the minimum-norm solution for every matrix of full row rank (rows < cols).
   (C16 / A6-B) *)
From Amgcl Require Import Scalar Vec KernelsProofs StaticMatProofs DirectUtil DirectProofs Qr QrProofs
     QrMathAlg QrMathRefl QrMathCompute QrMathFactor QrMathSolve QrMathMain.
Local Open Scope S_scope.
Local Open Scope nat_scope.

Section Rank.
Context {S : Scalar}.
Local Notation vec := (vec S).
Hypothesis Sft : Sfield S.
Hypothesis Seqb : seqb_spec S.
Hypothesis Hadj : forall x : S, sadj x = x.
Hypothesis Habs : forall x : S, (sabs x * sabs x = x * x)%S.
Hypothesis Hsqrt : forall y : S, sos y -> (ssqrt y * ssqrt y = y)%S.
Hypothesis Hreal : forall y x : S, sos y -> (y + x * x = s0)%S -> y = s0.
Let SrtK : Sring S := F_R Sft.
Add Ring SRingQrK : SrtK.

(* the columns of the m x n matrix a are linearly independent *)
Definition col_independent (m n : nat) (a : nat -> nat -> S) : Prop :=
  forall y : nat -> S, (forall r, r < m -> sumn (fun j => (a r j * y j)%S) n = s0) -> forall j, j < n -> y j = s0.

Theorem qr_full_rank_diag m n rs cs (A : vec) :
  StrideOK m n rs cs -> n <= m -> InB m n rs cs A -> col_independent m n (mv rs cs A) ->
  forall i, i < n -> mv rs cs (fst (qr_compute m n rs cs A)) i i <> s0.
Proof.
  intros Hst Hnm HBA Hind.
  destruct (qr_compute_spec Sft Seqb Hadj Habs Hsqrt Hreal m n rs cs Hst A HBA) as (_ & _ & _ & HA).
  cbv zeta in HA. rewrite (Nat.min_r m n Hnm) in HA.
  set (A' := fst (qr_compute m n rs cs A)) in *. set (tau := snd (qr_compute m n rs cs A)) in *.
  intro i. induction i as [i IH] using lt_wf_ind. intros Hi Ez.
  pose (U := fun p c => mv rs cs A' p c).
  destruct (back_subst_spec Sft Seqb U i (tabulate i (fun p => (- U p i)%S))) as (HLx & Hx).
  { apply tabulate_length. }
  { intros p Hp. apply IH; lia. }
  cbv zeta in HLx, Hx.
  set (x := for_down 0 i (back_body U) (tabulate i (fun p => (- U p i)%S))) in *.
  pose (Y := fun c => if Nat.ltb c i then vget x c else if Nat.eqb c i then s1 else @s0 S).
  (* R Y = 0 *)
  assert (HRY : forall l, l < m -> sumn (fun j => (Y j * qr_R rs cs A' l j)%S) n = s0).
  { intros l Hl. rewrite (sumn_split3 Sft _ i n Hi).
    assert (E3 : sumn (fun t => (Y (i + 1 + t)%nat * qr_R rs cs A' l (i + 1 + t))%S) (n - i - 1) = s0).
    { apply (sumn_allz Sft). intros t Ht. unfold Y. destruct (Nat.ltb_spec (i + 1 + t) i); [lia|].
      destruct (Nat.eqb_spec (i + 1 + t) i); [lia|]. ring. }
    assert (E2 : Y i = s1) by (unfold Y; rewrite Nat.ltb_irrefl, Nat.eqb_refl; reflexivity).
    rewrite E3, E2.
    destruct (Nat.lt_trichotomy l i) as [Hli|[->|Hli]].
    - assert (E1 : sumn (fun j => (Y j * qr_R rs cs A' l j)%S) i = (- U l i)%S).
      { specialize (Hx l Hli). unfold vget at 2 in Hx. rewrite tabulate_nth in Hx by assumption. rewrite <- Hx.
        unfold psum. apply sumn_ext. intros j Hj. unfold Y, qr_R, U, mv.
        destruct (Nat.ltb_spec j i); [|lia]. destruct (Nat.leb_spec l j), (Nat.ltb_spec j l); try lia; ring. }
      rewrite E1. unfold qr_R, U, mv. destruct (Nat.ltb_spec i l); [lia|]. ring.
    - rewrite (sumn_allz Sft) by (intros j Hj; unfold qr_R; destruct (Nat.ltb_spec j i); [ring|lia]).
      unfold qr_R. rewrite Nat.ltb_irrefl. fold (mv rs cs A' i i). rewrite Ez. ring.
    - rewrite (sumn_allz Sft) by (intros j Hj; unfold qr_R; destruct (Nat.ltb_spec j l); [ring|lia]).
      unfold qr_R. destruct (Nat.ltb_spec i l); [ring|lia]. }
  (* hence A Y = 0 *)
  assert (HAY : forall r, r < m -> sumn (fun j => (mv rs cs A r j * Y j)%S) n = s0).
  { intros r Hr.
    transitivity (hprod m (vget tau) (vcol rs cs A') n (fun l => sumn (fun j => (Y j * qr_R rs cs A' l j)%S) n) r).
    - rewrite (hprod_sumn Sft) by assumption. apply sumn_ext. intros j Hj. rewrite (HA j r Hj Hr). ring.
    - rewrite <- (hprod_zero Sft m (vget tau) (vcol rs cs A') n r Hr).
      apply hprod_ext; try reflexivity; assumption. }
  pose proof (Hind Y HAY i Hi) as H0. unfold Y in H0. rewrite Nat.ltb_irrefl, Nat.eqb_refl in H0.
  exact (F_1_neq_0 Sft H0).
Qed.

(* ---------- both storage orders ---------- *)
Theorem qr_full_rank_diag_cm (cm : bool) m n (A : vec) :
  length A = m * n -> n <= m ->
  let rs := qr_rs cm m n in let cs := qr_cs cm m n in
  col_independent m n (fun r c => vget A (r * rs + c * cs)) ->
  forall i, i < n -> qr_R rs cs (fst (qr_compute m n rs cs A)) i i <> s0.
Proof.
  intros HLA Hnm rs cs Hind i Hi. unfold qr_R. rewrite Nat.ltb_irrefl.
  exact (qr_full_rank_diag m n rs cs A (stride_ok cm m n) Hnm (inb_ok cm m n A HLA) Hind i Hi).
Qed.

(* ---------- solve() for matrices of full rank, both storage orders ---------- *)
Theorem qr_solve_full_column_rank (cm : bool) m n (A b : vec) :
  length A = m * n -> m <= length b -> n <= m ->
  let rs := qr_rs cm m n in let cs := qr_cs cm m n in
  col_independent m n (fun r c => vget A (r * rs + c * cs)) ->
  let x := qr_solve m n rs cs A b in
  length x = n /\
  forall c, c < n ->
    sumn (fun r => (vget A (r * rs + c * cs) *
                    (sumn (fun j => vget A (r * rs + j * cs) * vget x j) n - vget b r))%S) m = s0.
Proof.
  intros HLA HLb Hnm rs cs Hind.
  apply (qr_solve_tall_correct Sft Seqb Hadj Habs Hsqrt Hreal cm m n A b HLA HLb Hnm).
  intros i Hi. unfold qr_R. rewrite Nat.ltb_irrefl.
  exact (qr_full_rank_diag m n _ _ A (stride_ok cm m n) Hnm (inb_ok cm m n A HLA) Hind i Hi).
Qed.

Theorem qr_solve_full_row_rank (cm : bool) m n (A b : vec) :
  length A = m * n -> m <= length b -> m < n ->
  let rs := qr_rs cm m n in let cs := qr_cs cm m n in
  col_independent n m (fun c r => vget A (r * rs + c * cs)) ->
  let x := qr_solve m n rs cs A b in
  length x = n /\
  (forall r, r < m -> sumn (fun c => (vget A (r * rs + c * cs) * vget x c)%S) n = vget b r) /\
  (forall z : nat -> S, (forall r, r < m -> sumn (fun c => (vget A (r * rs + c * cs) * z c)%S) n = s0) ->
     sumn (fun c => (vget x c * z c)%S) n = s0).
Proof.
  intros HLA HLb Hmn rs cs Hind.
  apply (qr_solve_wide_correct Sft Seqb Hadj Habs Hsqrt Hreal cm m n A b HLA HLb Hmn).
  intros i Hi. unfold qr_R. rewrite Nat.ltb_irrefl.
  apply (qr_full_rank_diag n m _ _ A (StrideOK_swap _ _ _ _ (stride_ok cm m n)) (Nat.lt_le_incl _ _ Hmn)
           (InB_swap _ _ _ _ A (inb_ok cm m n A HLA))); [|assumption].
  intros y Hy j Hj. apply (Hind y); [|assumption].
  intros r Hr. rewrite <- (Hy r Hr). apply sumn_ext. intros c Hc. unfold mv. f_equal. f_equal. lia.
Qed.

End Rank.
