(* TentativeQrPipeline.v -- C04: theorems about transfer_operators() with a near-null space
   (TentativeQrPolicies.v), block_size = 1: plain aggregation returns an orthonormal P that reproduces B and
   R = transpose P; smoothed_aggr_emin on top of the near-null-space P_tent satisfies the dense formulas. *)
From Amgcl Require Import Scalar Vec Crs Kernels KernelsProofs MatOps MatOpsProofs MatOps2 Aggregates Tentative Coarsen CoarsenProofs
     DirectUtil Qr QrMathRefl TentativeQr TentativeQrProofs TentativeQrGuard TentativeQrPolicies EminProofs EminProofs2.
Local Open Scope S_scope.

Lemma pointwise_aggregates_fx_ok {S : Scalar} (fx : bool) (eps2 : S) bs mina (A : crs S) junk count id st :
  pointwise_aggregates_fx fx eps2 bs mina A junk = AggOk count id st ->
  pointwise_aggregates eps2 bs mina A junk = AggOk count id st /\ (fx = true -> 0 < count).
Proof.
  unfold pointwise_aggregates_fx. destruct (pointwise_aggregates eps2 bs mina A junk) as [| |c i0 s0]; try discriminate.
  destruct c as [|c]; [destruct fx; [discriminate|]|]; intro H; injection H as <- <- <-; (split; [reflexivity|]); intro; try discriminate; lia.
Qed.

Section Pipeline.
Variable S : Scalar.
Hypothesis Sft : Sfield S.
Hypothesis Seqb : seqb_spec S.
Hypothesis Hadj : forall x : S, sadj x = x.
Hypothesis Habs : forall x : S, (sabs x * sabs x = x * x)%S.
Hypothesis Hsqrt : forall y : S, sos y -> (ssqrt y * ssqrt y = y)%S.
Hypothesis Hreal : forall y x : S, sos y -> (y + x * x = s0)%S -> y = s0.

Theorem aggregation_ns_exact (fx : bool) (eps2 : S) (cols : nat) (A : crs S) (junk : vec S) (B : mat (S:=S)) (q0 : vec S) P R Bc :
  0 < cols ->
  aggregation_transfer_ns fx eps2 1 cols A junk B q0 = (TrOk P R, Bc) ->
  exists count id st,
    pointwise_aggregates eps2 1 cols A junk = AggOk count id st /\
    R = transpose P /\ nrows P = nrows A /\ ncols P = (cols * count)%nat /\
    (forall k c, k < nrows A -> (0 <= zget id k)%Z -> c < cols ->
       ns_apply S cols Bc (nth k (rows P) []) c = mentry B k c) /\
    (forall j1 j2, j1 < ncols P -> j2 < ncols P ->
       sumn (fun k => mget P k j1 * mget P k j2) (nrows P) = if Nat.eqb j1 j2 then s1 else s0).
Proof.
  intros Hc. unfold aggregation_transfer_ns, with_tentative_ns.
  destruct (pointwise_aggregates_fx fx eps2 1 cols A junk) as [| |count id st] eqn:E; try discriminate.
  apply pointwise_aggregates_fx_ok in E as [E _].
  cbv zeta. cbn [fst snd]. intro H. injection H as <- <- <-.
  exists count, id, st. split; [exact E|]. split; [reflexivity|].
  exact (nullspace_pipeline_exact S Sft Seqb Hadj Habs Hsqrt Hreal eps2 cols A junk count id st B q0 Hc E).
Qed.

(* rows of the near-null-space P_tent are strictly sorted: the emin formulas apply to it *)
Lemma sorted_seq_row (base : nat) (g : nat -> S) s c :
  sorted_strict (map (fun jj => ((base + jj)%nat, g jj)) (seq s c)) = true.
Proof.
  revert s. induction c as [|c IH]; intro s; [reflexivity|].
  destruct c as [|c]; [reflexivity|].
  change (seq s (Datatypes.S (Datatypes.S c))) with (s :: seq (Datatypes.S s) (Datatypes.S c)).
  specialize (IH (Datatypes.S s)). simpl in IH. simpl. rewrite IH.
  replace (Nat.ltb (base + s) (base + Datatypes.S s)) with true by (symmetry; apply Nat.ltb_lt; lia). reflexivity.
Qed.

Lemma tentative_ns_rows_sorted (qr : mat (S:=S) -> mat (S:=S) * mat (S:=S)) bs cols naggr id (B : mat (S:=S)) :
  forallb sorted_strict (rows (fst (tentative_prolongation_ns qr bs cols naggr id B))) = true.
Proof.
  unfold tentative_prolongation_ns. cbn [fst rows]. apply forallb_forall. intros r Hr.
  apply in_map_iff in Hr as (ka & <- & _). unfold tentative_ns_row.
  destruct (Z.ltb (snd ka) 0); [reflexivity|]. cbv zeta.
  apply (sorted_seq_row (Nat.div (Z.to_nat (snd ka)) bs * cols)).
Qed.

Theorem emin_ns_formulas (fx : bool) nt (eps2 : S) (cols : nat) (A : crs S) (junk : vec S) (B : mat (S:=S)) (q0 : vec S) P R Bc :
  emin_transfer_ns fx nt eps2 1 cols A junk B q0 = (TrOk P R, Bc) ->
  exists count id st,
    pointwise_aggregates eps2 1 cols A junk = AggOk count id st /\
    (nt <= 16 -> wf A = true -> ncols A = nrows A -> emin_regular A st = true ->
     let Pt := fst (tentative_prolongation_qr 1 cols count id B q0) in
     forall i j, i < nrows A -> j < ncols Pt ->
       mget P i j = emin_P_spec A st Pt i j /\ mget R j i = emin_R_spec A st Pt j i).
Proof.
  unfold emin_transfer_ns, with_tentative_ns.
  destruct (pointwise_aggregates_fx fx eps2 1 cols A junk) as [| |count id st] eqn:E; try discriminate.
  apply pointwise_aggregates_fx_ok in E as [E _].
  cbv zeta. set (PB := tentative_prolongation_qr 1 cols count id B q0). cbn [fst snd].
  intro H. exists count, id, st. split; [exact E|].
  intros Hnt HwfA Hsq Hreg. fold PB.
  destruct (min_aggregate_guard eps2 cols A junk count id st E) as (HL & _ & _).
  assert (HnP : nrows (fst PB) = nrows A) by (unfold PB; rewrite (nrows_P S); exact HL).
  assert (HsP : forallb sorted_strict (rows (fst PB)) = true)
    by (unfold PB; rewrite tentative_qr_is_oracle_form; apply tentative_ns_rows_sorted).
  pose proof (emin_formulas_hold S Sft Hadj nt A st (fst PB) Hnt HwfA Hsq Hreg HnP HsP) as HF. cbv zeta in HF.
  clearbody PB. injection H as <- <- _. exact HF.
Qed.
End Pipeline.
