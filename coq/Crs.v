(* Crs.v -- CRS matrices as lists of rows of (column, value) entries, in storage
   order (duplicates allowed, order significant), plus their dense semantics. *)
From Amgcl Require Import Scalar Vec.
Local Open Scope S_scope.

Section Crs.
Context {S : Scalar}.
Local Notation vec := (vec S).

Definition row := list (nat * S).
Record crs := mkCrs { ncols : nat; rows : list row }.
Definition nrows (A : crs) : nat := length (rows A).
Definition nnz (A : crs) : nat := fold_left (fun a r => a + length r)%nat (rows A) 0%nat.

(* column indices in range: the well-formedness the C++ relies on when indexing x[col] *)
Definition row_wf (m : nat) (r : row) : bool := forallb (fun e => Nat.ltb (fst e) m) r.
Definition wf (A : crs) : bool := forallb (row_wf (ncols A)) (rows A).

(* dense semantics: duplicates add up, as they do in every kernel *)
Definition rget (r : row) (j : nat) : S :=
  fold_left (fun acc e => if Nat.eqb (fst e) j then acc + snd e else acc) r s0.
Definition mget (A : crs) (i j : nat) : S := rget (nth i (rows A) []) j.

(* sum += a.value() * x[a.col()], left to right from zero *)
Definition dotrow (r : row) (x : vec) : S :=
  fold_left (fun acc e => acc + snd e * vget x (fst e)) r s0.

(* sortedness / distinctness of a row (column indices strictly increasing) *)
Fixpoint sorted_strict (r : row) : bool :=
  match r with
  | e1 :: ((e2 :: _) as tl) => Nat.ltb (fst e1) (fst e2) && sorted_strict tl
  | _ => true
  end.
Fixpoint sorted_weak (r : row) : bool :=
  match r with
  | e1 :: ((e2 :: _) as tl) => Nat.leb (fst e1) (fst e2) && sorted_weak tl
  | _ => true
  end.

End Crs.
Arguments crs : clear implicits.
Arguments row : clear implicits.
