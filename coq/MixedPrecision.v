(* MixedPrecision.v -- C13, round 2b (seeded change C13-2): mixed precision TOGETHER WITH the re-interpretation of
   scalar vectors as block vectors.

   The models have ONE Scalar.  A mixed-precision run has two: the matrix values live in Sm (float), the vectors
   in Sv (double), and every matrix entry enters the arithmetic through the conversion up : Sm -> Sv (the implicit
   float -> double promotion in the product operator of static_matrix).  What the C++ must guarantee for C13's theorems to
   apply to such a run is exactly that the VIEW of the vectors is taken at the vector's Scalar:
     backend::reinterpret_as_rhs<MatrixValue>(x)  =  BlockSpmv.as_rhs Sv b x      with b = static_rows<MatrixValue>
   (builtin.hpp: dst_type = replace_scalar<rhs_of<MatrixValue>, scalar_of<value_type<Vector>>>) -- [as_rhs] has no
   argument through which the precision of the matrix could enter.  Given that,
   (1) the block adapter commutes with the conversion (it only compares column indices and fills incomplete
       blocks with zeros, up s0 = s0): the float block matrix, promoted entry by entry, IS the block matrix of the
       promoted scalar matrix  [block_adapter_map];
   (2) hence the hybrid / block product of the promoted float block matrix with re-interpreted Sv vectors is the
       scalar product of the promoted matrix  [mixed_hybrid_spmv_is_scalar, mixed_hybrid_residual_is_scalar,
       mixed_block_spmv]: C13_hybrid_spmv_is_scalar / C13_block_spmv read at mixed precision.
   Rounding (products are rounded to Sm by the product operator of static_matrix<float>) is NOT modelled: the statements are
   about exact arithmetic and are tied on data where neither precision rounds (tools/props/C13.py, MK). *)
From Coq Require Import List Arith Lia.
Import ListNotations.
From Amgcl Require Import Scalar Vec Crs Kernels KernelsProofs Adapters BlockInst BlockSpmv.

Section Mixed.
Variables Sm Sv : Scalar.
Variable up : Sm -> Sv.
Hypothesis up0 : up s0 = s0.

Definition up_row (r : row Sm) : row Sv := map (fun e => (fst e, up (snd e))) r.
Definition up_crs (A : crs Sm) : crs Sv := mkCrs (ncols A) (map up_row (rows A)).
Definition up_block (v : @block Sm) : @block Sv := map (map up) v.
Definition up_gcrs (G : gcrs (@block Sm)) : gcrs (@block Sv) :=
  mkG (gncols G) (map (map (fun cv => (fst cv, up_block (snd cv)))) (grows G)).

Lemma heads_min_up b (rs : list (row Sm)) : heads_min b (map up_row rs) = heads_min b rs.
Proof.
  unfold heads_min. generalize (@None nat). induction rs as [|r tl IH]; intro acc; [reflexivity|].
  simpl. destruct r as [|e r']; simpl; apply IH.
Qed.

Lemma span_lt_up e (r : row Sm) :
  span_lt e (up_row r) = (up_row (fst (span_lt e r)), up_row (snd (span_lt e r))).
Proof.
  induction r as [|x tl IH]; [reflexivity|]. simpl.
  destruct (Nat.ltb (fst x) e); [|reflexivity].
  rewrite IH. destruct (span_lt e tl) as [t rest]. reflexivity.
Qed.

Lemma blk_entry_up b (t : row Sm) j : blk_entry b (up_row t) j = up (blk_entry b t j).
Proof.
  unfold blk_entry. rewrite <- up0. generalize (@s0 Sm). induction t as [|e tl IH]; intro acc; [reflexivity|].
  simpl. rewrite <- IH. destruct (Nat.eqb (fst e mod b) j); reflexivity.
Qed.

Lemma blk_of_up b (ts : list (row Sm)) : blk_of b (map up_row ts) = up_block (blk_of b ts).
Proof.
  unfold blk_of, up_block. rewrite !map_map. apply map_ext. intro t.
  rewrite map_map. apply map_ext. intro j. apply blk_entry_up.
Qed.

Lemma block_row_up b : forall fuel (rs : list (row Sm)),
  block_row fuel b (map up_row rs) = map (fun cv => (fst cv, up_block (snd cv))) (block_row fuel b rs).
Proof.
  induction fuel as [|k IH]; intro rs; [reflexivity|].
  simpl. rewrite heads_min_up. destruct (heads_min b rs) as [c|]; [|reflexivity].
  assert (E1 : map fst (map (span_lt ((c + 1) * b)) (map up_row rs))
               = map up_row (map fst (map (span_lt ((c + 1) * b)) rs))).
  { rewrite !map_map. apply map_ext. intro x. rewrite span_lt_up. reflexivity. }
  assert (E2 : map snd (map (span_lt ((c + 1) * b)) (map up_row rs))
               = map up_row (map snd (map (span_lt ((c + 1) * b)) rs))).
  { rewrite !map_map. apply map_ext. intro x. rewrite span_lt_up. reflexivity. }
  rewrite E1, E2, blk_of_up, IH. reflexivity.
Qed.

Lemma total_len_up (rs : list (row Sm)) : total_len (map up_row rs) = total_len rs.
Proof.
  unfold total_len. induction rs as [|r tl IH]; [reflexivity|]. simpl. rewrite IH.
  unfold up_row. rewrite map_length. reflexivity.
Qed.

Lemma nth_up_rows (l : list (row Sm)) k : nth k (map up_row l) [] = up_row (nth k l []).
Proof. change (@nil (nat * Sv)) with (up_row []). apply map_nth. Qed.

Lemma block_row_up_eq b (rsv : list (row Sv)) (rsm : list (row Sm)) :
  rsv = map up_row rsm ->
  block_row (total_len rsv) b rsv = map (fun cv => (fst cv, up_block (snd cv))) (block_row (total_len rsm) b rsm).
Proof. intro E. subst rsv. rewrite total_len_up. apply block_row_up. Qed.

(* (1) the block adapter commutes with the precision conversion *)
Theorem block_adapter_map (b : nat) (A : crs Sm) :
  to_gcrs (block_adapter b (crs_view (up_crs A))) = up_gcrs (to_gcrs (block_adapter b (crs_view A))).
Proof.
  unfold to_gcrs, up_gcrs, block_adapter, crs_view, up_crs. cbn [a_rows a_cols a_row gncols grows ncols rows nrows].
  unfold nrows. cbn [rows]. rewrite map_length. f_equal.
  rewrite map_map. apply map_ext. intro i. cbv zeta.
  apply block_row_up_eq. rewrite map_map. apply map_ext. intro k. apply nth_up_rows.
Qed.

Lemma up_row_sorted (r : row Sm) : sorted_strict (up_row r) = sorted_strict r.
Proof.
  induction r as [|e1 tl IH]; [reflexivity|]. destruct tl as [|e2 tl']; [reflexivity|].
  change (up_row (e1 :: e2 :: tl')) with ((fst e1, up (snd e1)) :: up_row (e2 :: tl')).
  change (up_row (e2 :: tl')) with ((fst e2, up (snd e2)) :: up_row tl') at 1.
  cbn [sorted_strict fst]. f_equal. exact IH.
Qed.

Lemma up_crs_sorted (A : crs Sm) :
  Forall (fun r => sorted_strict r = true) (rows A) -> Forall (fun r => sorted_strict r = true) (rows (up_crs A)).
Proof.
  unfold up_crs. cbn [rows]. intro H. induction H as [|r l Hr _ IH]; simpl; constructor; [|exact IH].
  rewrite up_row_sorted. exact Hr.
Qed.

Lemma up_crs_nrows (A : crs Sm) : nrows (up_crs A) = nrows A.
Proof. unfold nrows, up_crs. cbn [rows]. apply map_length. Qed.

(* the float block matrix as the product kernels see it: every entry promoted to the vector's precision *)
Definition promoted_block_matrix (b : nat) (A : crs Sm) : crs (BlockS Sv b) :=
  bcrs_of_gcrs Sv b (up_gcrs (to_gcrs (block_adapter b (crs_view A)))).

Theorem promoted_block_matrix_is_block_matrix (b : nat) (A : crs Sm) :
  promoted_block_matrix b A = block_matrix Sv b (up_crs A).
Proof. unfold promoted_block_matrix, block_matrix. rewrite block_adapter_map. reflexivity. Qed.

Section Products.
Variable b : nat.
Hypothesis Srt : Sring Sv.
Hypothesis Hb : 0 < b.

(* (2) builtin_hybrid<float block> matrix, Sv vectors (mixed spmv_impl: reinterpret at Sv, block kernel) *)
Theorem mixed_hybrid_spmv_is_scalar (Seqb : seqb_spec Sv) (alpha beta : Sv) (A : crs Sm) (x y : vec Sv) :
  nrows A mod b = 0 -> Forall (fun r => sorted_strict r = true) (rows A) -> length y = nrows A ->
  hybrid_spmv Sv b alpha (promoted_block_matrix b A) x beta y = spmv alpha (up_crs A) x beta y.
Proof.
  intros Hn Hs Hy. rewrite promoted_block_matrix_is_block_matrix.
  apply (hybrid_spmv_is_scalar Sv b Srt Hb Seqb).
  - rewrite up_crs_nrows. exact Hn.
  - apply up_crs_sorted. exact Hs.
  - rewrite up_crs_nrows. exact Hy.
Qed.

Theorem mixed_hybrid_residual_is_scalar (A : crs Sm) (f x r : vec Sv) :
  nrows A mod b = 0 -> Forall (fun r => sorted_strict r = true) (rows A) ->
  length f = nrows A -> length r = nrows A ->
  hybrid_residual Sv b f (promoted_block_matrix b A) x r = residual f (up_crs A) x r.
Proof.
  intros Hn Hs Hf Hr. rewrite promoted_block_matrix_is_block_matrix.
  apply (hybrid_residual_is_scalar Sv b Srt Hb).
  - rewrite up_crs_nrows. exact Hn.
  - apply up_crs_sorted. exact Hs.
  - rewrite up_crs_nrows. exact Hf.
  - rewrite up_crs_nrows. exact Hr.
Qed.

(* crs<float block> with vectors re-interpreted by the caller (make_block_solver, as_block) *)
Theorem mixed_block_spmv (Seqb : seqb_spec Sv) (alpha beta : Sv) (A : crs Sm) (x y : vec Sv) :
  nrows A mod b = 0 -> Forall (fun r => sorted_strict r = true) (rows A) -> length y = nrows A ->
  spmv (S:=BlockS Sv b) (blk_embed Sv b alpha) (promoted_block_matrix b A) (as_rhs Sv b x)
       (blk_embed Sv b beta) (as_rhs Sv b y)
  = as_rhs Sv b (spmv alpha (up_crs A) x beta y).
Proof.
  intros Hn Hs Hy. rewrite promoted_block_matrix_is_block_matrix.
  apply (block_spmv_full Sv b Srt Hb Seqb).
  - rewrite up_crs_nrows. exact Hn.
  - apply up_crs_sorted. exact Hs.
  - rewrite up_crs_nrows. exact Hy.
Qed.

End Products.
End Mixed.
