(* AmgProofs.v -- property C03: structure of the hierarchy built by [build] / kept by
   [rebuild_levels] (amgcl/amg.hpp:358-512).  Part 1 (any Scalar, no algebra): Galerkin
   chain, rebuild keeps transfers and chain, rebuild = fresh build, last-level rule.
   Part 2 (commutative ring): dense form of the (scaled) Galerkin product. *)
From Coq Require Import Sorting.Sorted Sorting.Permutation.
From Amgcl Require Import Scalar Vec Crs Kernels KernelsProofs MatOps MatOpsProofs Amg.
Local Open Scope S_scope.

(* ------------------------------------------------------------------ *)
Section Structure.
Context {S : Scalar}.
Local Notation vec := (vec S).
Local Notation row := (row S).
Local Notation crs := (crs S).
Local Notation ldesc := (@ldesc S).

(* --- sort_row on an already sorted row is the identity --- *)
Lemma ins_right_last (e : nat * S) (acc : row) :
  (forall a, In a acc -> lec a e) -> ins_right e acc = acc ++ [e].
Proof.
  induction acc as [|a acc IH]; intro H; simpl; [reflexivity|].
  assert (Ha : lec a e) by (apply H; left; reflexivity).
  unfold lec in Ha. apply Nat.leb_le in Ha. rewrite Ha. f_equal.
  apply IH. intros b Hb. apply H. right. exact Hb.
Qed.

Lemma sort_fold_sorted (r : row) : StronglySorted lec r -> forall acc : row,
  (forall a x, In a acc -> In x r -> lec a x) ->
  fold_left (fun acc e => ins_right e acc) r acc = acc ++ r.
Proof.
  induction 1 as [|e r Hss IH Hall]; intros acc H; simpl.
  - symmetry. apply app_nil_r.
  - rewrite ins_right_last by (intros a Ha; apply (H a e Ha); left; reflexivity).
    rewrite IH.
    + rewrite <- app_assoc. reflexivity.
    + intros a x Ha Hx. apply in_app_or in Ha. destruct Ha as [Ha|[<-|[]]].
      * apply (H a x Ha). right. exact Hx.
      * rewrite Forall_forall in Hall. apply Hall. exact Hx.
Qed.

Theorem sort_row_of_sorted (r : row) : StronglySorted lec r -> sort_row r = r.
Proof.
  intro H. unfold sort_row. rewrite (sort_fold_sorted r H []); [reflexivity|].
  intros a x [].
Qed.

Theorem sort_row_idem (r : row) : sort_row (sort_row r) = sort_row r.
Proof. apply sort_row_of_sorted. apply sort_row_SS. Qed.

Theorem sort_rows_idem (A : crs) : sort_rows (sort_rows A) = sort_rows A.
Proof.
  unfold sort_rows. simpl. f_equal. rewrite map_map. apply map_ext. intro r. apply sort_row_idem.
Qed.

Lemma sort_rows_nrows (A : crs) : nrows (sort_rows A) = nrows A.
Proof. apply sort_rows_shape. Qed.

(* --- shape of the coarse operator: as many rows as R --- *)
Definition coarse_shape (cop : crs -> crs -> crs -> crs) : Prop :=
  forall A P R, nrows (cop A P R) = nrows R.

Lemma mscale_nrows (A : crs) s : nrows (mscale A s) = nrows A.
Proof. unfold nrows, mscale. simpl. apply map_length. Qed.

Lemma galerkin_shape : coarse_shape (@galerkin S).
Proof. intros A P R. unfold galerkin. apply spgemm_saad_shape. Qed.

Lemma scaled_galerkin_shape s : coarse_shape (@scaled_galerkin S s).
Proof. intros A P R. unfold scaled_galerkin. rewrite mscale_nrows. apply galerkin_shape. Qed.

Lemma galerkin_ncols (A P R : crs) : ncols (galerkin A P R) = ncols P.
Proof. reflexivity. Qed.

(* ------------------------------------------------------------------ *)
Section Build.
Variable ce : nat.
Variable dc : bool.
Variable ml : nat.
Variable cop : crs -> crs -> crs -> crs.

Local Notation build := (build ce dc ml cop).
Local Notation amg_init := (amg_init ce dc ml cop).
Local Notation rebuild_levels := (rebuild_levels cop).
Local Notation amg_rebuild := (amg_rebuild cop).

Definition is_mid (l : ldesc) : bool := match l with LMid _ _ _ => true | _ => false end.

(* the Galerkin chain: every element but the last is an LMid whose successor carries
   the sorted coarse operator of its (A, P, R); the last element is not an LMid *)
Fixpoint chain (ls : list ldesc) : Prop :=
  match ls with
  | [] => False
  | l :: tl =>
    match tl with
    | [] => is_mid l = false
    | next :: _ =>
      match l with
      | LMid A P R => ld_A next = sort_rows (cop A P R) /\ chain tl
      | _ => False
      end
    end
  end.

Definition head_A (ls : list ldesc) (A : crs) : Prop :=
  match ls with l :: _ => ld_A l = A | [] => False end.

(* one unfolding of build, in readable form *)
Lemma build_unfold ts A nlev :
  build ts A nlev =
  if Nat.leb (nrows A) ce then [if dc then LSolve A else LLast A]
  else if Nat.leb ml (Datatypes.S nlev) then [LLast A]
  else match ts with
       | Some (P, R) :: ts' =>
         LMid A (sort_rows P) (sort_rows R)
           :: build ts' (sort_rows (cop A (sort_rows P) (sort_rows R))) (Datatypes.S nlev)
       | _ => [LLast A]
       end.
Proof. destruct ts; reflexivity. Qed.

Lemma build_head ts A nlev : head_A (build ts A nlev) A.
Proof.
  rewrite build_unfold.
  destruct (Nat.leb (nrows A) ce); [destruct dc; reflexivity|].
  destruct (Nat.leb ml (Datatypes.S nlev)); [reflexivity|].
  destruct ts as [|[[P R]|] ts']; reflexivity.
Qed.

Lemma chain_cons_mid A P R tl :
  head_A tl (sort_rows (cop A P R)) -> chain tl -> chain (LMid A P R :: tl).
Proof.
  intros Hh Hc. destruct tl as [|next tl']; [destruct Hh|].
  simpl. split; [exact Hh|exact Hc].
Qed.

(* T1 *)
Theorem build_chain ts : forall A nlev, chain (build ts A nlev).
Proof.
  induction ts as [|t ts' IH]; intros A nlev; rewrite build_unfold.
  - destruct (Nat.leb (nrows A) ce); [destruct dc; reflexivity|].
    destruct (Nat.leb ml (Datatypes.S nlev)); reflexivity.
  - destruct (Nat.leb (nrows A) ce); [destruct dc; reflexivity|].
    destruct (Nat.leb ml (Datatypes.S nlev)); [reflexivity|].
    destruct t as [[P R]|]; [|reflexivity].
    apply chain_cons_mid; [apply build_head|apply IH].
Qed.

Theorem amg_init_chain ts M : chain (amg_init ts M) /\ head_A (amg_init ts M) (sort_rows M).
Proof. split; [apply build_chain|apply build_head]. Qed.

(* the chain, read element-wise: adjacent pairs *)
Theorem chain_adjacent ls : chain ls -> forall i A P R next,
  nth_error ls i = Some (LMid A P R) -> nth_error ls (Datatypes.S i) = Some next ->
  ld_A next = sort_rows (cop A P R).
Proof.
  induction ls as [|l tl IH]; intros Hc i A P R next H1 H2; [destruct Hc|].
  destruct tl as [|n2 tl'].
  - destruct i; simpl in H2; [discriminate|]. destruct i; discriminate.
  - destruct l as [A0 P0 R0| |]; simpl in Hc; try contradiction. destruct Hc as [Hn Hc].
    destruct i as [|i].
    + simpl in H1, H2. inversion H1; subst. inversion H2; subst. exact Hn.
    + apply (IH Hc i A P R next); assumption.
Qed.

Theorem chain_mid_iff_not_last ls : chain ls -> forall i l,
  nth_error ls i = Some l -> (is_mid l = true <-> Datatypes.S i < length ls).
Proof.
  induction ls as [|l0 tl IH]; intros Hc i l H; [destruct Hc|].
  destruct tl as [|n2 tl'].
  - destruct i as [|i]; [|destruct i; discriminate]. simpl in H. inversion H; subst.
    simpl in Hc. rewrite Hc. simpl. split; [discriminate|lia].
  - destruct l0 as [A0 P0 R0| |]; simpl in Hc; try contradiction. destruct Hc as [_ Hc].
    destruct i as [|i].
    + simpl in H. inversion H; subst. simpl. split; [lia|reflexivity].
    + simpl in H. specialize (IH Hc i l H). simpl in *. rewrite IH. lia.
Qed.

(* T2 *)
Theorem rebuild_transfers ls : forall A', transfers_of (rebuild_levels ls A') = transfers_of ls.
Proof.
  induction ls as [|l tl IH]; intro A'; [reflexivity|].
  destruct l; simpl; rewrite IH; reflexivity.
Qed.

Lemma rebuild_head ls A' : ls <> [] -> head_A (rebuild_levels ls A') A'.
Proof. destruct ls as [|l tl]; [congruence|]. intros _. destruct l; reflexivity. Qed.

Lemma rebuild_length ls : forall A', length (rebuild_levels ls A') = length ls.
Proof.
  induction ls as [|l tl IH]; intro A'; [reflexivity|].
  destruct l; simpl; rewrite IH; reflexivity.
Qed.

Theorem rebuild_chain ls : chain ls -> forall A', chain (rebuild_levels ls A').
Proof.
  induction ls as [|l tl IH]; intros Hc A'; [destruct Hc|].
  destruct tl as [|n2 tl'].
  - destruct l; simpl in *; try discriminate; reflexivity.
  - destruct l as [A0 P0 R0| |]; simpl in Hc; try contradiction. destruct Hc as [_ Hc].
    change (rebuild_levels (LMid A0 P0 R0 :: n2 :: tl') A')
      with (LMid A' P0 R0 :: rebuild_levels (n2 :: tl') (sort_rows (cop A' P0 R0))).
    apply chain_cons_mid; [apply rebuild_head; discriminate|apply IH; exact Hc].
Qed.

Theorem amg_rebuild_chain ls M' : chain ls ->
  chain (amg_rebuild ls M') /\ head_A (amg_rebuild ls M') (sort_rows M') /\
  transfers_of (amg_rebuild ls M') = transfers_of ls.
Proof.
  intro Hc. unfold amg_rebuild. split; [apply rebuild_chain; exact Hc|]. split.
  - apply rebuild_head. destruct ls; [destruct Hc|discriminate].
  - apply rebuild_transfers.
Qed.

(* T3: rebuild = fresh build *)
Hypothesis cop_shape : coarse_shape cop.

Theorem rebuild_build ts : forall A A' nlev, nrows A' = nrows A ->
  rebuild_levels (build ts A nlev) A' = build ts A' nlev.
Proof.
  induction ts as [|t ts' IH]; intros A A' nlev Hn;
    rewrite (build_unfold _ A), (build_unfold _ A'), Hn.
  - destruct (Nat.leb (nrows A) ce); [destruct dc; reflexivity|].
    destruct (Nat.leb ml (Datatypes.S nlev)); reflexivity.
  - destruct (Nat.leb (nrows A) ce); [destruct dc; reflexivity|].
    destruct (Nat.leb ml (Datatypes.S nlev)); [reflexivity|].
    destruct t as [[P R]|]; [|reflexivity].
    simpl. f_equal. apply IH. rewrite !sort_rows_nrows, !cop_shape. reflexivity.
Qed.

Theorem amg_rebuild_init ts M M' : nrows M' = nrows M ->
  amg_rebuild (amg_init ts M) M' = amg_init ts M'.
Proof.
  intro Hn. unfold amg_rebuild, amg_init. apply rebuild_build.
  rewrite !sort_rows_nrows. exact Hn.
Qed.

(* rebuilding with the original matrix restores the original hierarchy *)
Theorem amg_rebuild_restore ts M M' : nrows M' = nrows M ->
  amg_rebuild (amg_rebuild (amg_init ts M) M') M = amg_init ts M.
Proof.
  intro Hn. rewrite (amg_rebuild_init ts M M' Hn). apply amg_rebuild_init. symmetry. exact Hn.
Qed.

(* any finite sequence of rebuilds: the hierarchy only depends on the last matrix *)
Theorem amg_rebuild_history ts M (Ms : list crs) M' :
  Forall (fun X => nrows X = nrows M) Ms -> nrows M' = nrows M ->
  amg_rebuild (fold_left amg_rebuild Ms (amg_init ts M)) M' = amg_init ts M'.
Proof.
  intros HF Hn.
  assert (G : forall Ls M0, nrows M0 = nrows M -> Forall (fun X => nrows X = nrows M) Ls ->
              exists M1, nrows M1 = nrows M /\ fold_left amg_rebuild Ls (amg_init ts M0) = amg_init ts M1).
  { clear HF Hn. induction Ls as [|X Ls IH]; intros M0 H0 HF; simpl.
    - exists M0. split; [exact H0|reflexivity].
    - inversion HF as [|? ? HX HF']; subst.
      rewrite (amg_rebuild_init ts M0 X) by congruence. apply IH; assumption. }
  destruct (G Ms M eq_refl HF) as (M1 & H1 & ->).
  apply amg_rebuild_init. congruence.
Qed.

(* rebuild = fresh build from the transfer operators stored in the hierarchy *)
Theorem rebuild_build_stored ts : forall A A' nlev, nrows A' = nrows A ->
  rebuild_levels (build ts A nlev) A' = build (transfers_of (build ts A nlev)) A' nlev.
Proof.
  induction ts as [|t ts' IH]; intros A A' nlev Hn.
  - rewrite (build_unfold _ A).
    destruct (Nat.leb (nrows A) ce) eqn:E1.
    + rewrite build_unfold, Hn, E1. destruct dc; reflexivity.
    + destruct (Nat.leb ml (Datatypes.S nlev)) eqn:E2;
        rewrite build_unfold, Hn, E1, E2; reflexivity.
  - rewrite (build_unfold _ A).
    destruct (Nat.leb (nrows A) ce) eqn:E1.
    + rewrite build_unfold, Hn, E1. destruct dc; reflexivity.
    + destruct (Nat.leb ml (Datatypes.S nlev)) eqn:E2.
      * rewrite build_unfold, Hn, E1, E2; reflexivity.
      * destruct t as [[P R]|].
        -- cbn [transfers_of map]. rewrite (build_unfold _ A'), Hn, E1, E2.
           rewrite !sort_rows_idem. cbn [rebuild_levels Amg.rebuild_levels]. f_equal.
           apply IH. rewrite !sort_rows_nrows, !cop_shape. reflexivity.
        -- rewrite build_unfold, Hn, E1, E2. reflexivity.
Qed.

Theorem amg_rebuild_stored ts M M' : nrows M' = nrows M ->
  amg_rebuild (amg_init ts M) M' = amg_init (transfers_of (amg_init ts M)) M'.
Proof.
  intro Hn. unfold amg_rebuild, amg_init. apply rebuild_build_stored.
  rewrite !sort_rows_nrows. exact Hn.
Qed.

End Build.

(* ------------------------------------------------------------------ *)
(* T4: last-level rule and number of levels *)
Section LastLevel.
Variable ce : nat.
Variable dc : bool.
Variable ml : nat.
Variable cop : crs -> crs -> crs -> crs.
Local Notation build := (build ce dc ml cop).

Lemma build_nonempty ts A nlev : build ts A nlev <> [].
Proof.
  pose proof (build_head ce dc ml cop ts A nlev) as H.
  destruct (build ts A nlev); [destruct H|discriminate].
Qed.

Lemma last_cons_ne {X} (a : X) l d : l <> [] -> last (a :: l) d = last l d.
Proof. destruct l; [congruence|reflexivity]. Qed.

Theorem build_last_rule ts : forall A nlev d,
  match last (build ts A nlev) d with
  | LSolve A' => nrows A' <= ce /\ dc = true
  | LLast A' => nrows A' <= ce -> dc = false
  | LMid _ _ _ => False
  end.
Proof.
  induction ts as [|t ts' IH]; intros A nlev d; rewrite build_unfold.
  - destruct (Nat.leb_spec (nrows A) ce) as [Hle|Hgt].
    + destruct dc; simpl; auto.
    + destruct (Nat.leb ml (Datatypes.S nlev)); simpl; lia.
  - destruct (Nat.leb_spec (nrows A) ce) as [Hle|Hgt].
    + destruct dc; simpl; auto.
    + destruct (Nat.leb ml (Datatypes.S nlev)); [simpl; lia|].
      destruct t as [[P R]|]; [|simpl; lia].
      rewrite last_cons_ne by apply build_nonempty. apply IH.
Qed.

(* the direct solver is used exactly when the last matrix is small and direct_coarse is set *)
Theorem build_last_solve_iff ts A nlev d :
  (exists A', last (build ts A nlev) d = LSolve A') <->
  (nrows (ld_A (last (build ts A nlev) d)) <= ce /\ dc = true).
Proof.
  pose proof (build_last_rule ts A nlev d) as H.
  destruct (last (build ts A nlev) d) as [A0 P0 R0|A0|A0]; simpl in *.
  - destruct H.
  - split; [intros [A' E]; discriminate|]. intros [H1 H2]. rewrite (H H1) in H2. discriminate.
  - split; [intros _; exact H|]. intros _. exists A0. reflexivity.
Qed.

Theorem build_length ts : forall A nlev,
  length (build ts A nlev) + nlev <= Nat.max ml (nlev + 1).
Proof.
  induction ts as [|t ts' IH]; intros A nlev; rewrite build_unfold.
  - destruct (Nat.leb (nrows A) ce); [destruct dc; simpl; lia|].
    destruct (Nat.leb ml (Datatypes.S nlev)); simpl; lia.
  - destruct (Nat.leb (nrows A) ce); [destruct dc; simpl; lia|].
    destruct (Nat.leb_spec ml (Datatypes.S nlev)) as [Hle|Hgt]; [simpl; lia|].
    destruct t as [[P R]|]; [|simpl; lia].
    specialize (IH (sort_rows (cop A (sort_rows P) (sort_rows R))) (Datatypes.S nlev)).
    simpl length. lia.
Qed.

Theorem amg_init_length ts M : length (amg_init ce dc ml cop ts M) <= Nat.max ml 1.
Proof. pose proof (build_length ts (sort_rows M) 0) as H. unfold amg_init. simpl in H. lia. Qed.

(* level sizes: the matrix of the level after an LMid has as many rows as its R *)
Theorem chain_sizes ls : coarse_shape cop -> chain cop ls -> forall i A P R next,
  nth_error ls i = Some (LMid A P R) -> nth_error ls (Datatypes.S i) = Some next ->
  nrows (ld_A next) = nrows R.
Proof.
  intros Hs Hc i A P R next H1 H2.
  rewrite (chain_adjacent cop ls Hc i A P R next H1 H2), sort_rows_nrows. apply Hs.
Qed.

End LastLevel.
End Structure.

(* ------------------------------------------------------------------ *)
(* T5: dense form of the Galerkin product (commutative ring) *)
Section Dense.
Context {S : Scalar}.
Local Notation crs := (crs S).
Hypothesis Srt : Sring S.
Add Ring SRingAmg : Srt.

Lemma mget_out_of_range (A : crs) i j : nrows A <= i -> mget A i j = s0.
Proof. intro H. unfold mget. rewrite nth_overflow by exact H. reflexivity. Qed.

(* spgemm_saad_dense without the row-range hypothesis *)
Lemma spgemm_saad_dense_all (A B : crs) sort i j : wf A = true ->
  mget (spgemm_saad A B sort) i j = sumn (fun k => mget A i k * mget B k j) (ncols A).
Proof.
  intro Hwf. destruct (Nat.lt_ge_cases i (nrows A)) as [Hi|Hi].
  - apply (spgemm_saad_dense Srt); assumption.
  - rewrite mget_out_of_range
      by (destruct (spgemm_saad_shape A B sort) as [-> _]; exact Hi).
    rewrite (sumn_ext _ (fun _ => s0)).
    + symmetry. apply (sumn_zero Srt).
    + intros k _. rewrite (mget_out_of_range A) by exact Hi. ring.
Qed.

Theorem galerkin_dense (A P R : crs) i j : wf A = true -> wf R = true ->
  mget (galerkin A P R) i j =
  sumn (fun k => mget R i k * sumn (fun l => mget A k l * mget P l j) (ncols A)) (ncols R).
Proof.
  intros HA HR. unfold galerkin. rewrite spgemm_saad_dense_all by exact HR.
  apply sumn_ext. intros k _. rewrite spgemm_saad_dense_all by exact HA. reflexivity.
Qed.

Theorem scaled_galerkin_dense s (A P R : crs) i j : wf A = true -> wf R = true ->
  mget (scaled_galerkin s A P R) i j =
  sumn (fun k => mget R i k * sumn (fun l => mget A k l * mget P l j) (ncols A)) (ncols R) * s.
Proof.
  intros HA HR. unfold scaled_galerkin. rewrite (mscale_dense Srt), galerkin_dense by assumption.
  reflexivity.
Qed.

(* every coarse matrix of a chain is densely R A P (times s) *)
Theorem chain_galerkin_dense (ls : list (@ldesc S)) : chain (@galerkin S) ls ->
  forall n A P R next i j,
  nth_error ls n = Some (LMid A P R) -> nth_error ls (Datatypes.S n) = Some next ->
  wf A = true -> wf R = true ->
  mget (ld_A next) i j =
  sumn (fun k => mget R i k * sumn (fun l => mget A k l * mget P l j) (ncols A)) (ncols R).
Proof.
  intros Hc n A P R next i j H1 H2 HA HR.
  rewrite (chain_adjacent _ ls Hc n A P R next H1 H2), (sort_rows_dense Srt).
  apply galerkin_dense; assumption.
Qed.

Theorem chain_scaled_galerkin_dense s (ls : list (@ldesc S)) : chain (@scaled_galerkin S s) ls ->
  forall n A P R next i j,
  nth_error ls n = Some (LMid A P R) -> nth_error ls (Datatypes.S n) = Some next ->
  wf A = true -> wf R = true ->
  mget (ld_A next) i j =
  sumn (fun k => mget R i k * sumn (fun l => mget A k l * mget P l j) (ncols A)) (ncols R) * s.
Proof.
  intros Hc n A P R next i j H1 H2 HA HR.
  rewrite (chain_adjacent _ ls Hc n A P R next H1 H2), (sort_rows_dense Srt).
  apply scaled_galerkin_dense; assumption.
Qed.

End Dense.

(* ------------------------------------------------------------------ *)
(* boolean comparison of hierarchies (through seqb), for closed examples *)
Section BoolEq.
Context {S : Scalar}.
Fixpoint list_eqb {X} (e : X -> X -> bool) (l1 l2 : list X) : bool :=
  match l1, l2 with
  | [], [] => true
  | a :: l1', b :: l2' => e a b && list_eqb e l1' l2'
  | _, _ => false
  end.
Definition vec_eqb (x y : vec S) : bool := list_eqb seqb x y.
Definition crs_eqb (A B : crs S) : bool :=
  Nat.eqb (ncols A) (ncols B) &&
  list_eqb (list_eqb (fun e f => Nat.eqb (fst e) (fst f) && seqb (snd e) (snd f))) (rows A) (rows B).
Definition ldesc_eqb (l1 l2 : @ldesc S) : bool :=
  match l1, l2 with
  | LMid A P R, LMid A' P' R' => crs_eqb A A' && crs_eqb P P' && crs_eqb R R'
  | LLast A, LLast A' => crs_eqb A A'
  | LSolve A, LSolve A' => crs_eqb A A'
  | _, _ => false
  end.
Definition hier_eqb (h1 h2 : list (@ldesc S)) : bool := list_eqb ldesc_eqb h1 h2.
End BoolEq.
