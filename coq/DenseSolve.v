(* DenseSolve.v -- exact dense solve (Gauss-Jordan with search for a non-zero pivot).
   Specification-level model of "the direct coarse solver returns the exact solution";
   the skyline LU algorithm itself is modelled in Direct.v (property C16). *)
From Amgcl Require Import Scalar Vec Crs.
Local Open Scope S_scope.

Section DenseSolve.
Context {S : Scalar}.
Local Notation vec := (vec S).

(* augmented rows: n coefficients followed by the right-hand side *)
Definition scale_row (a : S) (r : vec) : vec := map (fun v => a * v) r.
Definition sub_row (r : vec) (a : S) (p : vec) : vec := upd2 (fun pv rv => rv - a * pv) p r.

(* find the first row with a non-zero k-th entry: (row, others in order) *)
Fixpoint pick_pivot (k : nat) (rows : list vec) : option (vec * list vec) :=
  match rows with
  | [] => None
  | r :: tl => if is_zero (vget r k) then
                 match pick_pivot k tl with Some (p, rest) => Some (p, r :: rest) | None => None end
               else Some (r, tl)
  end.

(* eliminate columns k, k+1, ... , n-1 *)
Fixpoint gj (steps k : nat) (done todo : list vec) : option (list vec) :=
  match steps with
  | O => Some done
  | Datatypes.S steps' =>
    match pick_pivot k todo with
    | None => None
    | Some (p, rest) =>
      let p' := scale_row (sinv (vget p k)) p in
      let elim := fun r => sub_row r (vget r k) p' in
      gj steps' (Datatypes.S k) (map elim done ++ [p']) (map elim rest)
    end
  end.

Definition dense_rows (A : crs S) : list vec :=
  map (fun r => map (fun j => rget r j) (seq 0 (ncols A))) (rows A).

(* solve A x = b; None if no non-zero pivot is found in some column (singular) *)
Definition dense_solve (A : crs S) (b : vec) : option vec :=
  let n := nrows A in
  let aug := map (fun rb => fst rb ++ [snd rb]) (combine (dense_rows A) b) in
  match gj n 0 [] aug with
  | Some rows => Some (map (fun r => vget r n) rows)
  | None => None
  end.

End DenseSolve.
