(* AmgBlockCycleExample.v -- a concrete block-valued hierarchy over the exact rationals (b = 2, blocks that do NOT
   commute), used by the non-vacuity examples of Properties_C02.v (block part): three nodes on a path,
   A_JI = A_IJ^T (the expanded 6 x 6 matrix is a symmetric, weakly diagonally dominant M-matrix), aggregates
   {0,1}, {2} with identity blocks in P, R = P^T, direct solver on the 2 x 2 (block) coarse level. *)
From Coq Require Import QArith Qcanon.
From Amgcl Require Import Scalar QcInst Vec Crs Kernels MatOps Relax DenseSolve Amg AmgExec AmgProofs AmgProofs4
  DirectUtil Inverse StaticMat BlockInst BlockKernels AmgBlockCycle.
Local Close Scope Qc_scope.
Local Close Scope Q_scope.
Local Open Scope S_scope.

Definition B2 : Scalar := BlockS QcS 2.
Definition bq (a b c d : Z) : T B2 := blk_of_list QcS 2 [qc a 1; qc b 1; qc c 1; qc d 1].
Definition bI : T B2 := bq 1 0 0 1.

Definition exBM : crs B2 := mkCrs 3
  [[(1, bq (-1) (-2) 0 (-1)); (0, bq 5 (-1) (-1) 4)];                       (* stored unsorted: amg copies and sorts *)
   [(0, bq (-1) 0 (-2) (-1)); (1, bq 6 (-1) (-1) 5); (2, bq (-2) (-1) (-1) 0)];
   [(1, bq (-2) (-1) (-1) 0); (2, bq 4 (-1) (-1) 3)]]%nat.
Definition exBP : crs B2 := mkCrs 2 [[(0, bI)]; [(0, bI)]; [(1, bI)]]%nat.
Definition exBR : crs B2 := mkCrs 3 [[(0, bI); (1, bI)]; [(2, bI)]]%nat.
Definition exBTs := [Some (exBP, exBR)].
(* plain aggregation with over_interp = 2 (the default for block values): A_c = 1/2 R A P *)
Definition exBhalf : T B2 := blk_embed QcS 2 (qc 1 2).
Definition exBH := amg_init 2 true 10 (coarse_op_of (Some exBhalf)) exBTs exBM.

Definition bcol (u v : Z) : T B2 := blk_col QcS 2 [qc u 1; qc v 1].
Definition exBF : vec B2 := [bcol 1 (-2); bcol 3 0; bcol (-1) 4].
Definition exBG : vec B2 := [bcol 0 5; bcol (-2) 1; bcol 2 2].
Definition exBZ : vec B2 := [bcol 0 0; bcol 0 0; bcol 0 0].
Definition exBJunk : vec B2 := [bq 7 7 7 7; bq 1 2 3 4; bq (-5) 0 9 1].       (* not even column shaped *)
Definition exBScr0 := map (@fresh_scratch B2) exBH.
Definition exBDirty : list (@scratch B2) :=
  [mkScratch exBJunk exBG exBJunk; mkScratch [bq 1 1 1 1; bq 2 0 0 2] [bcol 9 9; bcol 8 8] [bq 3 1 4 1; bq 5 9 2 6]].

(* boolean form of the coarse-solver hypothesis of the block theorems *)
Definition solve_check_block (ls : list (@ldesc B2)) : bool :=
  forallb (fun l => match l with
                    | LSolve A => Nat.eqb (ncols A) (nrows A) && solvable_block QcS 2 A
                    | _ => true end) ls.
Lemma solve_check_block_ok ls : solve_check_block ls = true ->
  forall A, In (LSolve A) ls -> ncols A = nrows A /\ solvable_block QcS 2 A = true.
Proof.
  intros H A HA. unfold solve_check_block in H. rewrite forallb_forall in H. specialize (H _ HA).
  simpl in H. apply andb_prop in H as [H1 H2]. apply Nat.eqb_eq in H1. auto.
Qed.

Definition bvec_eqb (x y : vec B2) : bool := vec_eqb (S := B2) x y.

(* the same hierarchy with the smoother on the coarsest level (direct_coarse = false) *)
Definition exBH' := amg_init 2 false 10 (coarse_op_of (Some exBhalf)) exBTs exBM.
Definition exBJac : @relax5 B2 := R5Std (S := B2) (RJacobi (S := B2) (blk_embed QcS 2 (qc 3 4))).
