(* Ilu.v -- the incomplete-factorisation smoothers, definitions only
   (amgcl/relaxation/ilu0.hpp:92-207, iluk.hpp:97-160 + sparse_vector 209-276,
    ilup.hpp:52-170, ilut.hpp:108-190 + sparse_vector 222-380,
    detail/ilu_solve.hpp:214-249 serial_init/serial_solve).
   Proofs: IluProofs.v.

   Conventions.  Factors are returned as (L, U, D): L strictly-lower entries, U
   strictly-upper entries, D the INVERTED pivots, exactly the three objects handed to
   detail::ilu_solve.  Uninitialised D cells (numa_vector(n,false)) are the explicit
   input [junk].  `precondition` failures are the [Err] results.

   The row work-space of ilu0 (value pointers work[col]) is modelled by the triple
   (L part, diagonal cell, U part) of the current row, a pointer work[c] being "the LAST
   entry with column c" of the corresponding part (later duplicates overwrite work[c]).

   The priority queues of iluk/ilut pop the smallest not-yet-eliminated column < i;
   every entry created while column c is eliminated has a column > c (rows of U are
   strictly upper), hence the pop order is: ascending over c = 0..i-1, presence tested when
   c is reached.  The models iterate exactly like that.  The insertion order inside the
   deque/vector `nz` is unobservable (the row is sorted by column before it is emitted). *)
From Coq Require Import QArith_base Qround.
From Amgcl Require Import Scalar Vec Crs Kernels MatOps Relax.
Local Open Scope S_scope.
Local Close Scope Q_scope.

Inductive ilu_err := NoDiag | ZeroPivot.
Inductive res (X : Type) := Ok (x : X) | Err (e : ilu_err).
Arguments Ok {X}. Arguments Err {X}.

Section Ilu.
Context {S : Scalar}.
Local Notation vec := (vec S).
Local Notation row := (row S).
Local Notation crs := (crs S).

(* ------------------------------------------------------------------ *)
(* detail::ilu_solve<builtin>::serial_solve                            *)
(*   for i ascending : for entries of L row i : x[i] -= L.val * x[L.col]          *)
(*   for i descending: for entries of U row i : x[i] -= U.val * x[U.col];  x[i] = D[i]*x[i] *)
Definition lsolve_row (i : nat) (r : row) (x : vec) : vec :=
  fold_left (fun x e => set_nth x i (vget x i - snd e * vget x (fst e))) r x.
Definition usolve_row (D : vec) (i : nat) (r : row) (x : vec) : vec :=
  let x1 := lsolve_row i r x in set_nth x1 i (vget D i * vget x1 i).
Definition lsolve (L : crs) (x : vec) : vec :=
  fold_left (fun x i => lsolve_row i (nth i (rows L) []) x) (seq 0 (nrows L)) x.
Definition usolve (n : nat) (U : crs) (D : vec) (x : vec) : vec :=
  fold_left (fun x i => usolve_row D i (nth i (rows U) []) x) (rev (seq 0 n)) x.
Definition ilu_solve (L U : crs) (D : vec) (x : vec) : vec :=
  usolve (nrows L) U D (lsolve L x).

(* apply_pre = apply_post of ilu0/iluk/ilup/ilut:
   tmp = rhs - A x; ilu->solve(tmp); x = damping * tmp + 1 * x *)
Definition ilu_sweep (damping : S) (L U : crs) (D : vec) (A : crs) (rhs x tmp : vec) : vec * vec :=
  let t1 := residual rhs A x tmp in
  let t2 := ilu_solve L U D t1 in
  (axpby damping t2 s1 x, t2).
(* apply: copy(rhs, x); ilu->solve(x) *)
Definition ilu_apply (L U : crs) (D : vec) (rhs x : vec) : vec :=
  ilu_solve L U D (vcopy rhs x).

(* ------------------------------------------------------------------ *)
(* ILU(0)                                                              *)
Definition has_col (c : nat) (r : row) : bool := existsb (fun e => Nat.eqb (fst e) c) r.
(* value behind work[c] inside one part of the row: the last entry with column c *)
Fixpoint get_last (c : nat) (r : row) : option S :=
  match r with
  | [] => None
  | e :: tl => match get_last c tl with
               | Some v => Some v
               | None => if Nat.eqb (fst e) c then Some (snd e) else None
               end
  end.
Fixpoint upd_last (c : nat) (f : S -> S) (r : row) : row :=
  match r with
  | [] => []
  | e :: tl => if has_col c tl then e :: upd_last c f tl
               else if Nat.eqb (fst e) c then (fst e, f (snd e)) :: tl else e :: tl
  end.

(* work-space of row i *)
Record wrow := mkW { wL : row; wd : S; whasd : bool; wU : row }.

(* first loop of ilu0: scatter row i of A into L / D / U, in storage order *)
Definition ilu0_scatter (i : nat) (r : row) (junk_d : S) : wrow :=
  fold_left (fun w e =>
    if Nat.ltb (fst e) i then mkW (wL w ++ [e]) (wd w) (whasd w) (wU w)
    else if Nat.eqb (fst e) i then mkW (wL w) (snd e) true (wU w)
    else mkW (wL w) (wd w) (whasd w) (wU w ++ [e])) r (mkW [] junk_d false []).

(* value_type *w = work[c]; if (w) { *w = f( *w ) } *)
Definition wupd (i : nat) (w : wrow) (c : nat) (f : S -> S) : wrow :=
  if Nat.ltb c i then mkW (upd_last c f (wL w)) (wd w) (whasd w) (wU w)
  else if Nat.eqb c i then (if whasd w then mkW (wL w) (f (wd w)) true (wU w) else w)
  else mkW (wL w) (wd w) (whasd w) (upd_last c f (wU w)).
Definition wgetL (w : wrow) (c : nat) : S :=
  match get_last c (wL w) with Some v => v | None => s0 end.

(* second loop: walk row i of A in storage order; stop at the first entry with c >= i *)
Fixpoint ilu0_elim (i : nat) (Us : list row) (D : vec) (ents : row) (w : wrow) : res wrow :=
  match ents with
  | [] => Ok w                          (* no entry with c >= i: D[i] stays as it is *)
  | e :: tl =>
    let c := fst e in
    if Nat.leb i c then
      if Nat.eqb c i then
        (if is_zero (wd w) then Err ZeroPivot
         else Ok (mkW (wL w) (sinv (wd w)) (whasd w) (wU w)))
      else Err NoDiag
    else
      let t := wgetL w c * vget D c in
      let w1 := wupd i w c (fun _ => t) in
      let w2 := fold_left (fun w u => wupd i w (fst u) (fun v => v - t * snd u)) (nth c Us []) w1 in
      ilu0_elim i Us D tl w2
  end.

Definition drop_zeros (r : row) : row := filter (fun e => negb (is_zero (snd e))) r.

(* state: rows of L, rows of U, D built so far (row k at position k) *)
Definition ilu0_row (st : list row * list row * vec) (i : nat) (r : row) (junk_d : S)
  : res (list row * list row * vec) :=
  let '(Ls, Us, D) := st in
  match ilu0_elim i Us D r (ilu0_scatter i r junk_d) with
  | Err e => Err e
  | Ok w => Ok (Ls ++ [drop_zeros (wL w)], Us ++ [drop_zeros (wU w)], D ++ [wd w])
  end.

Fixpoint ilu0_rows (st : list row * list row * vec) (i : nat) (rs : list row) (junk : vec)
  : res (list row * list row * vec) :=
  match rs with
  | [] => Ok st
  | r :: tl => match ilu0_row st i r (vget junk i) with
               | Err e => Err e
               | Ok st' => ilu0_rows st' (Datatypes.S i) tl junk
               end
  end.

Definition ilu0 (A : crs) (junk : vec) : res (crs * crs * vec) :=
  match ilu0_rows ([], [], []) 0 (rows A) junk with
  | Err e => Err e
  | Ok (Ls, Us, D) => Ok (mkCrs (nrows A) Ls, mkCrs (nrows A) Us, D)
  end.

(* ------------------------------------------------------------------ *)
(* ILU(k)                                                              *)
Definition knz := (nat * (S * nat))%type.            (* col, (val, lev) *)
Definition kcol (e : knz) := fst e.
Definition kval (e : knz) := fst (snd e).
Definition klev (e : knz) := snd (snd e).

(* sparse_vector::add(col, val, lev) *)
Fixpoint kadd (lfil : nat) (w : list knz) (c : nat) (v : S) (lev : nat) : list knz :=
  match w with
  | [] => if Nat.leb lev lfil then [(c, (v, lev))] else []
  | e :: tl => if Nat.eqb (kcol e) c then (c, (kval e + v, Nat.min (klev e) lev)) :: tl
               else e :: kadd lfil tl c v lev
  end.
Fixpoint kfind (w : list knz) (c : nat) : option (S * nat) :=
  match w with
  | [] => None
  | e :: tl => if Nat.eqb (kcol e) c then Some (snd e) else kfind tl c
  end.
Fixpoint kset (w : list knz) (c : nat) (v : S) : list knz :=
  match w with
  | [] => []
  | e :: tl => if Nat.eqb (kcol e) c then (c, (v, klev e)) :: tl else e :: kset tl c v
  end.
(* std::sort by column; columns are pairwise distinct in nz *)
Fixpoint kins (e : knz) (l : list knz) : list knz :=
  match l with
  | [] => [e]
  | e' :: tl => if Nat.ltb (kcol e) (kcol e') then e :: e' :: tl else e' :: kins e tl
  end.
Definition ksort (l : list knz) : list knz := fold_left (fun acc e => kins e acc) l [].

(* one elimination step with pivot column c (if present in w) *)
Definition iluk_step (lfil : nat) (Us : list (list knz)) (D : vec) (w : list knz) (c : nat) : list knz :=
  match kfind w c with
  | None => w
  | Some (v, lev) =>
    let v' := v * vget D c in
    let w1 := kset w c v' in
    fold_left (fun w u => kadd lfil w (kcol u) (sopp v' * kval u) (Datatypes.S (Nat.max lev (klev u))))
              (nth c Us []) w1
  end.

Definition iluk_row (lfil : nat) (st : list row * list (list knz) * vec) (i : nat) (r : row) (junk_d : S)
  : list row * list (list knz) * vec :=
  let '(Ls, Us, D) := st in
  let w0 := fold_left (fun w e => kadd lfil w (fst e) (snd e) 0) r [] in
  let w1 := fold_left (iluk_step lfil Us D) (seq 0 i) w0 in
  let ws := ksort w1 in
  let Lr := map (fun e => (kcol e, kval e)) (filter (fun e => Nat.ltb (kcol e) i) ws) in
  let Ur := filter (fun e => Nat.ltb i (kcol e)) ws in
  let d  := match kfind ws i with Some (v, _) => sinv v | None => junk_d end in
  (Ls ++ [Lr], Us ++ [Ur], D ++ [d]).

Definition iluk (lfil : nat) (A : crs) (junk : vec) : crs * crs * vec :=
  let '(Ls, Us, D) :=
    fold_left (fun st ir => iluk_row lfil st (fst ir) (snd ir) (vget junk (fst ir)))
              (indexed (rows A)) ([], [], []) in
  (mkCrs (nrows A) Ls, mkCrs (nrows A) (map (map (fun e => (kcol e, kval e))) Us), D).
(* levels of the U entries, for inspection *)
Definition iluk_levels (lfil : nat) (A : crs) (junk : vec) : list (list (nat * nat)) :=
  let '(_, Us, _) :=
    fold_left (fun st ir => iluk_row lfil st (fst ir) (snd ir) (vget junk (fst ir)))
              (indexed (rows A)) ([], [], []) in
  map (map (fun e => (kcol e, klev e))) Us.

(* ------------------------------------------------------------------ *)
(* ILUP: ILU(0) on the pattern of A^(k+1)                              *)
(* detail::symb_product: distinct columns of the product row, then std::sort *)
Fixpoint ins_uniq (c : nat) (l : list nat) : list nat :=
  match l with
  | [] => [c]
  | c' :: tl => if Nat.ltb c c' then c :: c' :: tl else if Nat.eqb c c' then l else c' :: ins_uniq c tl
  end.
Definition symb_row (ra : list nat) (B : list (list nat)) : list nat :=
  fold_left (fun acc ca => fold_left (fun acc cb => ins_uniq cb acc) (nth ca B []) acc) ra [].
Definition symb_product (A B : list (list nat)) : list (list nat) :=
  map (fun ra => symb_row ra B) A.
Definition pattern (A : crs) : list (list nat) := map (map fst) (rows A).

(* the merge walk that copies row i of A into the zero-filled row of P:
   while (jp < ep && P.col[jp] < ca) ++jp;  if (P.col[jp] == ca) P.val[jp] = A.val[ja];
   (when jp == ep the C++ reads P.col[ep] out of the row; here: no match) *)
Fixpoint pskip (ca : nat) (rest done : row) : row * row :=
  match rest with
  | e :: tl => if Nat.ltb (fst e) ca then pskip ca tl (e :: done) else (rest, done)
  | [] => ([], done)
  end.
Definition ilup_fill_row (ra : row) (pc : list nat) : row :=
  let '(rest, done) :=
    fold_left (fun (st : row * row) ea =>
      let '(rest', done') := pskip (fst ea) (fst st) (snd st) in
      match rest' with
      | e :: tl => if Nat.eqb (fst e) (fst ea) then ((fst e, snd ea) :: tl, done') else (rest', done')
      | [] => ([], done')
      end) ra (map (fun c => (c, s0)) pc, []) in
  rev done ++ rest.
Fixpoint iter_symb (k : nat) (P A : list (list nat)) : list (list nat) :=
  match k with O => P | Datatypes.S k' => iter_symb k' (symb_product P A) A end.
(* k >= 1: P = pattern(A*A), then (k-1) more products with A *)
Definition ilup_matrix (k : nat) (A : crs) : crs :=
  match k with
  | O => A
  | Datatypes.S k' =>
    let pa := pattern A in
    let P := iter_symb k' (symb_product pa pa) pa in
    mkCrs (ncols A) (map2 ilup_fill_row (rows A) P)
  end.
Definition ilup (k : nat) (A : crs) (junk : vec) : res (crs * crs * vec) :=
  ilu0 (ilup_matrix k A) junk.

(* ------------------------------------------------------------------ *)
(* ILUT(p, tau)                                                        *)
Definition of_nat (n : nat) : S := sofQ (inject_Z (Z.of_nat n)).
(* static_cast<int>(len * p), p >= 0 *)
Definition trunc_len (len : nat) (p : Q) : nat :=
  Z.to_nat (Qfloor (Qmult (inject_Z (Z.of_nat len)) p)).

Fixpoint tfind (w : row) (c : nat) : option S :=
  match w with [] => None | e :: tl => if Nat.eqb (fst e) c then Some (snd e) else tfind tl c end.
(* w[c] = f(w[c]) with creation (zero-initialised) on first access *)
Fixpoint tupd (w : row) (c : nat) (f : S -> S) : row :=
  match w with
  | [] => [(c, f s0)]
  | e :: tl => if Nat.eqb (fst e) c then (c, f (snd e)) :: tl else e :: tupd tl c f
  end.

Definition ilut_step (tol : S) (Us : list row) (D : vec) (w : row) (c : nat) : row :=
  match tfind w c with
  | None => w
  | Some v =>
    let wk := v * vget D c in
    let w1 := tupd w c (fun _ => wk) in
    if sltb tol (sabs wk)
    then fold_left (fun w u => tupd w (fst u) (fun x => x - wk * snd u)) (nth c Us []) w1
    else w1
  end.

(* stable insertion sort, descending by |val| *)
Fixpoint ains (e : nat * S) (l : row) : row :=
  match l with
  | [] => [e]
  | e' :: tl => if sltb (sabs (snd e')) (sabs (snd e)) then e :: e' :: tl else e' :: ains e tl
  end.
Definition asort (l : row) : row := fold_left (fun acc e => ains e acc) l [].
(* keep the k largest; the flag tells whether the cut goes through a tie (then the
   nth_element result is implementation-defined) *)
Definition topk (k : nat) (l : row) : row * bool :=
  if Nat.leb (length l) k then (l, false)
  else let s := asort l in
       (firstn k s,
        match k with
        | O => false
        | Datatypes.S k' => seqb (sabs (snd (nth k' s (0%nat, s0)))) (sabs (snd (nth k s (0%nat, s0))))
        end).

(* result of one row: (L row, U row, D_i, tie flag) *)
Definition ilut_row (p : Q) (tau : S) (Us : list row) (D : vec) (i : nat) (r : row) (junk_d : S)
  : row * row * S * bool :=
  let w0 := fold_left (fun w e => tupd w (fst e) (fun _ => snd e)) r [] in
  let lenL := length (filter (fun e => Nat.ltb (fst e) i) r) in
  let lenU := length (filter (fun e => Nat.ltb i (fst e)) r) in
  let tol := fold_left (fun t e => t + sabs (snd e)) r s0 * (tau / of_nat (lenL + lenU)) in
  let w1 := fold_left (ilut_step tol Us D) (seq 0 i) w0 in
  let keep := filter (fun e => Nat.eqb (fst e) i || sltb tol (sabs (snd e))) w1 in
  let Lc := filter (fun e => Nat.ltb (fst e) i) keep in
  let Uc := filter (fun e => Nat.ltb i (fst e)) keep in
  let lp := trunc_len lenL p in
  let up := trunc_len lenU p in
  let '(Lsel, tieL) := topk lp Lc in
  (* the diagonal competes for one of the `up` places of the U part and always wins it *)
  let '(Usel, tieU) :=
    match tfind keep i with
    | Some _ => topk (Nat.pred up) Uc
    | None => topk up Uc
    end in
  let d := match tfind keep i with Some v => sinv v | None => junk_d end in
  (sort_row Lsel, sort_row Usel, d, orb tieL tieU).

Definition ilut (p : Q) (tau : S) (A : crs) (junk : vec) : crs * crs * vec * bool :=
  let '(Ls, Us, D, tie) :=
    fold_left (fun (st : list row * list row * vec * bool) ir =>
      let '(Ls, Us, D, tie) := st in
      let '(lr, ur, d, t) := ilut_row p tau Us D (fst ir) (snd ir) (vget junk (fst ir)) in
      (Ls ++ [lr], Us ++ [ur], D ++ [d], orb tie t))
      (indexed (rows A)) ([], [], [], false) in
  (mkCrs (nrows A) Ls, mkCrs (nrows A) Us, D, tie).

(* ------------------------------------------------------------------ *)
(* specification-side helpers (used by theorems and oracles)          *)
(* (L + I)(U + D^-1) at (i,j), with dense semantics *)
Definition lu_entry (L U : crs) (D : vec) (i j : nat) : S :=
  sumn (fun k => mget L i k * (if Nat.eqb k j then sinv (vget D k) else mget U k j)) i
  + (if Nat.eqb i j then sinv (vget D i) else mget U i j).

End Ilu.
