(* AmgBlockCycleSym2Built.v -- C02 for block value types: the full symmetry statement for the hierarchies amg_init builds.
   For every block-valued hierarchy built from a hermitian block matrix with R_l = adjoint P_l and a (re-scaled) Galerkin
   coarse operator, smoothed on every level by damped Jacobi, SPAI-0 or Gauss-Seidel (forward as pre-, backward as
   post-smoother), the preconditioner  apply  with npre = npost = k, any ncycle and any pre_cycles >= 1 is hermitian with
   respect to the block-valued form ipH.  For ILU(0) and Chebyshev the consistency of the sweep and its self-adjointness
   on every level matrix stay HYPOTHESES ([sweep_triple]); everything above the smoother (composition of adjoint pairs,
   coarse-grid correction, W-cycles, repeated cycles) is proved for them as well. *)
From Amgcl Require Import Scalar Vec Crs Kernels KernelsProofs MatOps MatOpsProofs Relax DenseSolve
  Amg AmgExec AmgProofs AmgProofs2 AmgProofs3 AmgProofs4 AmgProofs6 AmgProofs7 NcRing NcKernels AmgBlockNc AmgBlockCycle
  AmgBlockCycleProofs AmgBlockCycleSym AmgBlockCycleSym2 AmgBlockCycleSym2Gs
  DirectUtil Inverse StaticMat StaticMatProofs BlockInst BlockKernels NcRingBlock BlockMatOpsProofs.
Local Open Scope S_scope.

Section BuiltNc.
Context {S : Scalar}.
Local Notation vec := (vec S).
Local Notation crs := (crs S).
Local Notation level := (@level S).
Local Notation scratch := (@scratch S).
Local Notation sweep := (@sweep S).
Local Notation ldesc := (@ldesc S).
Hypothesis Hnc : ncring_theory S.
Hypothesis Seqb : seqb_spec S.
Local Instance ncsy4 : NcRingInst S := ncring_inst Hnc.
Hypothesis adj_add : forall a b : S, sadj (a + b) = sadj a + sadj b.
Hypothesis adj_mul : forall a b : S, sadj (a * b) = sadj b * sadj a.
Hypothesis adj_inv : forall a : S, sadj (sadj a) = a.

(* what the cycle theorem needs from a (pre, post) smoother pair on a level matrix *)
Definition sweep_triple (A : crs) (p : sweep * sweep) : Prop :=
  sweep_consH (nrows A) A (fst p) /\ sweep_consH (nrows A) A (snd p) /\ sweep_adjH (nrows A) (fst p) (snd p).

Section Inst.
Variable mk_relax : crs -> sweep * sweep.
Variable mk_solve : crs -> vec -> vec -> vec.
Hypothesis relax_ok : forall A, sweep_ok (nrows A) (fst (mk_relax A)) /\ sweep_ok (nrows A) (snd (mk_relax A)).
Variable good : crs -> Prop.
Hypothesis relax_triple : forall A, wf A = true -> herm_mat (nrows A) A -> good A -> sweep_triple A (mk_relax A).
Hypothesis solve_ok_all : forall A, solve_ok (nrows A) (mk_solve A).
Local Notation inst := (instantiate mk_relax mk_solve).

Lemma hier_hermk_inst (ls : list ldesc) : hier_herm (map inst ls) ->
  (forall l, In l ls -> good (ld_A l)) -> hier_hermk (map inst ls).
Proof.
  induction ls as [|l rest IH]; intros Hh Hg; [exact I|].
  cbn [map] in *. cbn [hier_herm] in Hh.
  destruct Hh as (_ & _ & WA & HsA & _ & _ & _ & Hrest).
  cbn [hier_hermk]. split.
  - rewrite (inst_lA mk_relax mk_solve) in *.
    destruct l as [A P R|A|A]; cbn [instantiate lpre ld_A] in *.
    + apply (relax_triple A WA HsA). apply (Hg (LMid A P R)). left. reflexivity.
    + apply (relax_triple A WA HsA). apply (Hg (LLast A)). left. reflexivity.
    + apply (id_sweep_consH Hnc).
  - apply IH; [exact Hrest|]. intros l' Hl'. apply Hg. right. exact Hl'.
Qed.

Lemma nosolve_top_inst ce ml cop ts (M : crs) :
  nosolve_top (map inst (amg_init ce false ml cop ts M)).
Proof.
  unfold amg_init. pose proof (nc_build_no_solve ce ml cop ts (sort_rows M) 0) as H.
  destruct (build ce false ml cop ts (sort_rows M) 0) as [|d [|d2 tl]]; simpl; auto.
  destruct d as [A P R|A|A]; simpl; auto. exfalso. apply (H A). left. reflexivity.
Qed.

Theorem built_apply_herm_full_gen ce dc ml sc ts (M : crs) k nc pc : scale_herm sc ->
  wf M = true -> herm_mat (nrows M) M -> ts_herm (nrows M) ts ->
  (forall A, In (LSolve A) (amg_init ce dc ml (coarse_op_of sc) ts M) -> solve_symH (nrows A) (mk_solve A)) ->
  (forall l, In l (amg_init ce dc ml (coarse_op_of sc) ts M) -> good (ld_A l)) ->
  let lvls := map inst (amg_init ce dc ml (coarse_op_of sc) ts M) in
  (pc = 0 \/ nosolve_top lvls) ->
  forall scr1 scr2 f g x1 x2,
  scratch_wf lvls scr1 -> scratch_wf lvls scr2 ->
  length f = nrows M -> length g = nrows M -> length x1 = nrows M -> length x2 = nrows M ->
  ipH (nrows M) (fst (apply k k nc (Datatypes.S pc) lvls scr1 f x1)) g =
  ipH (nrows M) f (fst (apply k k nc (Datatypes.S pc) lvls scr2 g x2)).
Proof.
  intros Hsc WM SM Hts Hsol Hgood lvls Hpc scr1 scr2 f g x1 x2 H1 H2 Lf Lg L1 L2.
  assert (Hh : hier_herm lvls).
  { unfold lvls, amg_init.
    apply (build_hier_herm Hnc adj_add mk_relax mk_solve relax_ok good
             (fun A WA HA Hg => conj (proj1 (proj2 (relax_triple A WA HA Hg))) (proj2 (proj2 (relax_triple A WA HA Hg))))
             solve_ok_all ce dc ml (coarse_op_of sc) (coarse_op_of_shape sc)); [| | | | |exact Hsol|exact Hgood].
    - destruct sc as [s|]; [apply (scaled_galerkin_cop_wf s)|apply galerkin_cop_wf].
    - apply (coarse_op_of_herm Hnc adj_add adj_mul adj_inv), Hsc.
    - apply sort_rows_wf, WM.
    - rewrite sort_rows_nrows. apply (sort_rows_herm Hnc), SM.
    - rewrite sort_rows_nrows. exact Hts. }
  assert (Hk : hier_hermk lvls) by (apply hier_hermk_inst; assumption).
  destruct (amg_init_chain ce dc ml (coarse_op_of sc) ts M) as [Hc Hhd].
  assert (Hne : lvls <> []) by (apply (chain_nonempty _ _ (coarse_op_of sc) _ Hc)).
  assert (En : top_n lvls = nrows M).
  { unfold lvls. rewrite (top_n_inst _ _ _ _ Hhd). apply sort_rows_nrows. }
  rewrite <- En.
  apply (apply_herm_full Hnc Seqb adj_add adj_mul adj_inv k nc pc lvls Hh Hk Hne Hpc); congruence.
Qed.

End Inst.

(* the side condition on a level matrix, per smoother: damped Jacobi / SPAI-0: the scaled inverted diagonal entries are
   hermitian (diag_good; for Jacobi it follows from the diagonal blocks, jacobi_diag_good); Gauss-Seidel: the stored
   diagonal entry is the dense diagonal and invertible on both sides; ILU(0), Chebyshev: consistency and self-adjointness
   of the sweep itself (hypothesis) *)
Definition good5 (k : @relax5 S) (A : crs) : Prop :=
  match k with
  | R5Std RGS => gs_diag_okH A
  | R5Std _ => diag_good k A
  | _ => sweep_triple A (mk_relax5 k A)
  end.

Lemma mk_relax5_triple (k : @relax5 S) (A : crs) : wf A = true -> herm_mat (nrows A) A -> good5 k A ->
  sweep_triple A (mk_relax5 k A).
Proof.
  intros WA HA Hg. destruct k as [[w| |]|w|degree lower higher scale]; cbn [good5] in Hg; try exact Hg.
  - destruct (mk_relax5_diag_herm Hnc Seqb adj_mul (R5Std (RJacobi w)) A WA Hg) as [Hc Ha].
    split; [exact Hc|]. split; [exact Hc|exact Ha].
  - destruct (mk_relax5_diag_herm Hnc Seqb adj_mul (R5Std RSpai0) A WA Hg) as [Hc Ha].
    split; [exact Hc|]. split; [exact Hc|exact Ha].
  - exact (gs_herm_ok Hnc adj_add adj_mul adj_inv A WA HA Hg).
Qed.

Theorem built_apply_herm_full (mk_solve : crs -> vec -> vec -> vec) (Hsok : forall A, solve_ok (nrows A) (mk_solve A))
  (k5 : @relax5 S) ce dc ml sc ts (M : crs) k nc pc : scale_herm sc ->
  wf M = true -> herm_mat (nrows M) M -> ts_herm (nrows M) ts ->
  (forall A, In (LSolve A) (amg_init ce dc ml (coarse_op_of sc) ts M) -> solve_symH (nrows A) (mk_solve A)) ->
  (forall l, In l (amg_init ce dc ml (coarse_op_of sc) ts M) -> good5 k5 (ld_A l)) ->
  let lvls := map (instantiate (mk_relax5 k5) mk_solve) (amg_init ce dc ml (coarse_op_of sc) ts M) in
  (pc = 0 \/ nosolve_top lvls) ->
  forall scr1 scr2 f g x1 x2,
  scratch_wf lvls scr1 -> scratch_wf lvls scr2 ->
  length f = nrows M -> length g = nrows M -> length x1 = nrows M -> length x2 = nrows M ->
  ipH (nrows M) (fst (apply k k nc (Datatypes.S pc) lvls scr1 f x1)) g =
  ipH (nrows M) f (fst (apply k k nc (Datatypes.S pc) lvls scr2 g x2)).
Proof.
  exact (built_apply_herm_full_gen (mk_relax5 k5) mk_solve (mk_relax5_ok k5) (good5 k5)
           (mk_relax5_triple k5) Hsok ce dc ml sc ts M k nc pc).
Qed.

(* boolean form of the Gauss-Seidel side condition (for closed instances) *)
Definition gs_diag_okHb (A : crs) : bool :=
  forallb (fun i => let D := gsD i (nth i (rows A) []) s1 in
                    seqb (mget A i i) D && seqb (D * sinv D) s1 && seqb (sinv D * D) s1) (seq 0 (nrows A)).
Lemma gs_diag_okHb_ok A : gs_diag_okHb A = true -> gs_diag_okH A.
Proof.
  unfold gs_diag_okHb. intros H i Hi. rewrite forallb_forall in H.
  assert (Hi' : In i (seq 0 (nrows A))) by (apply in_seq; lia). specialize (H i Hi'). cbv zeta in H.
  apply andb_prop in H as [H H3]. apply andb_prop in H as [H1 H2].
  split; [apply Seqb, H1|]. split; [apply Seqb, H2|apply Seqb, H3].
Qed.

Lemma levels_gs_okb_ok (ls : list ldesc) :
  forallb (fun l => gs_diag_okHb (ld_A l)) ls = true -> forall l, In l ls -> good5 (R5Std RGS) (ld_A l).
Proof. intros H l Hl. rewrite forallb_forall in H. cbn [good5]. apply gs_diag_okHb_ok, (H l Hl). Qed.

End BuiltNc.

(* ================================================================== *)
(* block values: static_matrix<T,b,b> over a commutative ring T with an additive, multiplicative, involutive adjoint *)
Section BlockSymFull.
Variable S0 : Scalar.
Variable b : nat.
Hypothesis Srt : Sring S0.
Hypothesis Seqb0 : seqb_spec S0.
Hypothesis Hb : 0 < b.
Hypothesis sadj_add0 : forall x y : S0, sadj (x + y) = sadj x + sadj y.
Hypothesis sadj_mul0 : forall x y : S0, sadj (x * y) = sadj x * sadj y.
Hypothesis sadj_invol0 : forall x : S0, sadj (sadj x) = x.
Local Notation B := (BlockS S0 b).
Let HncB : ncring_theory B := BlockS_ncring S0 b Srt.
Let SeqbB : seqb_spec B := BlockS_eqb S0 b Seqb0.
Let addB := BlockS_adj_add S0 b sadj_add0.
Let mulB := BlockS_adj_mul S0 b Srt sadj_add0 sadj_mul0.
Let invB := BlockS_adj_invol S0 b sadj_invol0.

(* the preconditioner of a block-valued hierarchy built by amg_init, npre = npost = k, ncycle = nc, pre_cycles = pc + 1 *)
Theorem block_apply_herm_full (k5 : @relax5 B) ce dc ml (sc : option B) ts (M : Crs.crs B) k nc pc :
  scale_herm sc -> wf M = true -> herm_mat (nrows M) M -> ts_herm (nrows M) ts ->
  (forall A, In (LSolve A) (amg_init ce dc ml (coarse_op_of sc) ts M) ->
             solve_symH (nrows A) (mk_solve_block S0 b A)) ->
  (forall l, In l (amg_init ce dc ml (coarse_op_of sc) ts M) -> good5 k5 (ld_A l)) ->
  let lvls := block_levels S0 b k5 (amg_init ce dc ml (coarse_op_of sc) ts M) in
  (pc = 0 \/ nosolve_top lvls) ->
  forall scr1 scr2 f g x1 x2,
  scratch_wf lvls scr1 -> scratch_wf lvls scr2 ->
  length f = nrows M -> length g = nrows M -> length x1 = nrows M -> length x2 = nrows M ->
  ipH (S := B) (nrows M) (fst (apply k k nc (Datatypes.S pc) lvls scr1 f x1)) g =
  ipH (S := B) (nrows M) f (fst (apply k k nc (Datatypes.S pc) lvls scr2 g x2)).
Proof.
  exact (built_apply_herm_full (S := B) HncB SeqbB addB mulB invB (mk_solve_block S0 b) (mk_solve_block_ok S0 b Hb)
           k5 ce dc ml sc ts M k nc pc).
Qed.

(* smoother on the coarsest level (direct_coarse = false): no hypothesis on a coarse solver, any pre_cycles *)
Theorem block_apply_herm_full_smoother_coarse (k5 : @relax5 B) ce ml (sc : option B) ts (M : Crs.crs B) k nc pc :
  scale_herm sc -> wf M = true -> herm_mat (nrows M) M -> ts_herm (nrows M) ts ->
  (forall l, In l (amg_init ce false ml (coarse_op_of sc) ts M) -> good5 k5 (ld_A l)) ->
  let lvls := block_levels S0 b k5 (amg_init ce false ml (coarse_op_of sc) ts M) in
  forall scr1 scr2 f g x1 x2,
  scratch_wf lvls scr1 -> scratch_wf lvls scr2 ->
  length f = nrows M -> length g = nrows M -> length x1 = nrows M -> length x2 = nrows M ->
  ipH (S := B) (nrows M) (fst (apply k k nc (Datatypes.S pc) lvls scr1 f x1)) g =
  ipH (S := B) (nrows M) f (fst (apply k k nc (Datatypes.S pc) lvls scr2 g x2)).
Proof.
  intros Hsc WM SM Hts Hgood. apply block_apply_herm_full; try assumption.
  - intros A HA. exfalso. unfold amg_init in HA. apply (nc_build_no_solve _ _ _ _ _ _ _ HA).
  - right. apply nosolve_top_inst.
Qed.

End BlockSymFull.
