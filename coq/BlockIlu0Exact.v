(* BlockIlu0Exact.v -- "ILU(0) reproduces A on the pattern of A" over a NON-COMMUTATIVE ring of values
   (block values): port of Ilu0Exact.v.  The executable model [ilu0] of Ilu.v computes the multiplier as
   l_ic = w_c * D_c (inverted pivot on the RIGHT, ilu0.hpp: tl = ( *work[c]) * ( *D)[c]) and updates
   w_j -= l_ic * u_cj; with these operand orders ((I+L)(U+D^-1))_ij = a_ij holds for block products.
   Swapping the operands of the multiplier (seeded change C06-1) breaks exactly this theorem's invariant
   (nx0_Inv_pivot: l_ic * u_cc = w_c needs D_c on the right of w_c).

   Inverses.  Where Ilu0Exact.v uses the field law (x <> 0 -> sinv x * x = 1), blocks need more than
   "non-zero".  Section hypothesis [Hinv]: whenever sinv x is not the zero default, it is a RIGHT inverse
   of x (true for fields with sinv 0 = 0, and for BlockS by InverseExact.inverse_exact: NcRingBlockInv.v).
   The theorem then asks, for every stored inverted pivot D_k:  D_k <> 0 and sinv D_k <> 0  (both inversions
   succeeded); from p * D_k = 1 and D_k * sinv D_k = 1 it follows that sinv D_k = p (the pivot block). *)
From Coq Require Import ZifyBool.
From Amgcl Require Import Scalar Vec Crs Kernels KernelsProofs MatOps Relax Ilu NcRing NcKernels.
Local Open Scope S_scope.

Section NcExact.
Context {S : Scalar}.
Hypothesis Hnc : ncring_theory S.
Hypothesis Seqb : seqb_spec S.
(* math::inverse either returns a RIGHT inverse or the (out-of-domain) zero default *)
Hypothesis Hinv : forall x : S, sinv x <> s0 -> x * sinv x = s1.
Local Instance ncx0 : NcRingInst S := ncring_inst Hnc.
Local Notation row := (row S).
Local Notation vec := (vec S).
Local Notation crs := (crs S).

(* ------------------------------------------------------------------ *)
(* field facts                                                         *)
(* p * q = 1 and q * P = 1  =>  P = p *)
Lemma nx0_inv_unique (p q P : S) : p * q = s1 -> q * P = s1 -> P = p.
Proof.
  intros H1 H2. transitivity ((p * q) * P); [rewrite H1; ncr|].
  transitivity (p * (q * P)); [ncr|]. rewrite H2. ncr.
Qed.

Lemma nx0_is_zero_false (x : S) : is_zero x = false -> x <> s0.
Proof.
  intros H E. unfold is_zero in H. apply (Seqb x s0) in E. congruence.
Qed.

(* ------------------------------------------------------------------ *)
(* 1. generic row lemmas                                               *)
Lemma nx0_has_col_cons c (e : nat * S) (r : row) :
  has_col c (e :: r) = (fst e =? c) || has_col c r.
Proof. reflexivity. Qed.

Lemma nx0_has_col_app c (r1 r2 : row) : has_col c (r1 ++ r2) = has_col c r1 || has_col c r2.
Proof. apply existsb_app. Qed.

Lemma nx0_has_col_map c (r1 : row) : forall r2 : row,
  map fst r1 = map fst r2 -> has_col c r1 = has_col c r2.
Proof.
  induction r1 as [|e r1 IH]; intros [|e2 r2] H; simpl in H; try discriminate; auto.
  inversion H as [[H1 H2]]. rewrite !nx0_has_col_cons, H1. f_equal. auto.
Qed.

Lemma nx0_has_col_In c (r : row) : has_col c r = true <-> In c (map fst r).
Proof.
  induction r as [|e r IH]; simpl; [split; [discriminate|tauto]|].
  fold (has_col c r). rewrite orb_true_iff, IH, Nat.eqb_eq. tauto.
Qed.

Lemma nx0_has_col_false c (r : row) : (forall e, In e r -> fst e <> c) -> has_col c r = false.
Proof.
  intro H. destruct (has_col c r) eqn:E; auto.
  apply nx0_has_col_In, in_map_iff in E as (e & E1 & E2). exfalso. exact (H e E2 E1).
Qed.

Lemma nx0_rget_absent c (r : row) : has_col c r = false -> rget r c = s0.
Proof.
  induction r as [|e r IH]; intro H; [reflexivity|].
  rewrite nx0_has_col_cons in H. apply orb_false_elim in H as [H1 H2].
  rewrite (nc_rget_cons Hnc), H1, IH by auto. ncr.
Qed.

Lemma nx0_rget_app (r1 r2 : row) j : rget (r1 ++ r2) j = rget r1 j + rget r2 j.
Proof.
  induction r1 as [|e r1 IH]; simpl.
  - rewrite nc_rget_nil. ncr.
  - rewrite !(nc_rget_cons Hnc), IH. ncr.
Qed.

Lemma nx0_map_fst_upd_last c f (r : row) : map fst (upd_last c f r) = map fst r.
Proof.
  induction r as [|e r IH]; simpl; auto.
  destruct (has_col c r); [simpl; f_equal; auto|].
  destruct (fst e =? c); reflexivity.
Qed.

Lemma nx0_upd_last_absent c f (r : row) : has_col c r = false -> upd_last c f r = r.
Proof.
  induction r as [|e r IH]; simpl; auto. intro H.
  apply orb_false_elim in H as [H1 H2]. fold (has_col c r) in H2. rewrite H2, H1. reflexivity.
Qed.

Lemma nx0_upd_last_app c f (l1 l2 : row) :
  upd_last c f (l1 ++ l2) =
  if has_col c l2 then l1 ++ upd_last c f l2 else upd_last c f l1 ++ l2.
Proof.
  induction l1 as [|e l1 IH]; simpl.
  - destruct (has_col c l2) eqn:E; [reflexivity|]. apply nx0_upd_last_absent; auto.
  - rewrite nx0_has_col_app, IH. destruct (has_col c l2) eqn:E2.
    + rewrite orb_true_r. reflexivity.
    + rewrite orb_false_r. destruct (has_col c l1); [reflexivity|].
      destruct (fst e =? c); reflexivity.
Qed.

Lemma nx0_rget_upd_last_other c f (r : row) j : j <> c -> rget (upd_last c f r) j = rget r j.
Proof.
  intro H. induction r as [|e r IH]; simpl; auto.
  destruct (has_col c r).
  - rewrite !(nc_rget_cons Hnc), IH; auto.
  - destruct (Nat.eqb_spec (fst e) c) as [E|E]; auto.
    rewrite !(nc_rget_cons Hnc). simpl.
    destruct (Nat.eqb_spec (fst e) j); [lia|reflexivity].
Qed.

Lemma nx0_rget_upd_last_same c f (r : row) :
  NoDup (map fst r) -> has_col c r = true -> rget (upd_last c f r) c = f (rget r c).
Proof.
  induction r as [|e r IH]; intros Hnd Hc; [discriminate|].
  rewrite nx0_has_col_cons in Hc. simpl in Hnd. inversion Hnd as [|? ? Hnin Hnd']; subst.
  simpl. destruct (has_col c r) eqn:Hcr.
  - assert (Hne : fst e <> c).
    { intro E; subst c. apply Hnin. apply nx0_has_col_In. exact Hcr. }
    rewrite !(nc_rget_cons Hnc), IH by auto.
    destruct (Nat.eqb_spec (fst e) c); [contradiction|].
    replace (s0 + rget r c) with (rget r c) by ncr. ncr.
  - rewrite orb_false_r in Hc. rewrite Hc. rewrite !(nc_rget_cons Hnc). simpl. rewrite Hc.
    rewrite (nx0_rget_absent c r Hcr).
    replace (snd e + s0) with (snd e) by ncr. ncr.
Qed.

Lemma nx0_get_last_none c (r : row) : has_col c r = false -> get_last c r = None.
Proof.
  induction r as [|e r IH]; simpl; auto. intro H.
  apply orb_false_elim in H as [H1 H2]. fold (has_col c r) in H2.
  rewrite IH, H1 by auto. reflexivity.
Qed.

Lemma nx0_get_last_rget c (r : row) : NoDup (map fst r) ->
  match get_last c r with Some v => v | None => s0 end = rget r c.
Proof.
  induction r as [|e r IH]; intros Hnd; [reflexivity|].
  simpl in Hnd. inversion Hnd as [|? ? Hnin Hnd']; subst. specialize (IH Hnd').
  simpl. rewrite (nc_rget_cons Hnc).
  destruct (has_col c r) eqn:Hcr.
  - assert (Hne : fst e <> c).
    { intro E; subst c. apply Hnin. apply nx0_has_col_In. exact Hcr. }
    destruct (Nat.eqb_spec (fst e) c); [contradiction|].
    destruct (get_last c r); rewrite <- IH; ncr.
  - rewrite (nx0_get_last_none c r Hcr). rewrite (nx0_rget_absent c r Hcr).
    destruct (fst e =? c); ncr.
Qed.

Lemma nx0_rget_drop_zeros (r : row) j : rget (drop_zeros r) j = rget r j.
Proof.
  induction r as [|e r IH]; [reflexivity|]. simpl.
  destruct (is_zero (snd e)) eqn:Z; simpl.
  - rewrite (nc_rget_cons Hnc), IH. rewrite (nc_is_zero_true Seqb _ Z).
    destruct (fst e =? j); ncr.
  - rewrite !(nc_rget_cons Hnc), IH. reflexivity.
Qed.

Lemma nx0_drop_zeros_In (r : row) e : In e (drop_zeros r) -> In e r.
Proof. unfold drop_zeros. intro H. apply filter_In in H. tauto. Qed.

(* sortedness *)
Lemma nx0_sorted_cons_inv (tl : row) : forall e : nat * S,
  sorted_strict (e :: tl) = true ->
  sorted_strict tl = true /\ forall e', In e' tl -> fst e < fst e'.
Proof.
  induction tl as [|e2 tl IH]; intros e H.
  - split; [reflexivity|intros ? []].
  - change (sorted_strict (e :: e2 :: tl)) with ((fst e <? fst e2) && sorted_strict (e2 :: tl)) in H.
    apply andb_prop in H as [H1 H2]. split; [exact H2|].
    destruct (IH e2 H2) as [_ H3]. apply Nat.ltb_lt in H1.
    intros e' [<-|Hin]; [exact H1|]. specialize (H3 e' Hin). lia.
Qed.

Lemma nx0_sorted_app_l (l1 l2 : row) : sorted_strict (l1 ++ l2) = true -> sorted_strict l1 = true.
Proof.
  induction l1 as [|e l1 IH]; intro H; [reflexivity|].
  destruct l1 as [|e2 l1]; [reflexivity|].
  change (sorted_strict ((e :: e2 :: l1) ++ l2))
    with ((fst e <? fst e2) && sorted_strict ((e2 :: l1) ++ l2)) in H.
  apply andb_prop in H as [H1 H2].
  change (sorted_strict (e :: e2 :: l1)) with ((fst e <? fst e2) && sorted_strict (e2 :: l1)).
  rewrite H1, IH; auto.
Qed.

Lemma nx0_sorted_NoDup (r : row) : sorted_strict r = true -> NoDup (map fst r).
Proof.
  induction r as [|e r IH]; intro H; simpl; [constructor|].
  destruct (nx0_sorted_cons_inv r e H) as [H1 H2]. constructor; auto.
  intro Hin. apply in_map_iff in Hin as (e' & E1 & E2). specialize (H2 e' E2). lia.
Qed.

Lemma nx0_sorted_split i (r : row) : sorted_strict r = true -> has_col i r = true ->
  exists Lp d Up, r = Lp ++ (i, d) :: Up /\
    (forall e, In e Lp -> fst e < i) /\ (forall e, In e Up -> i < fst e).
Proof.
  induction r as [|e r IH]; intros Hs Hc; [discriminate|].
  destruct (nx0_sorted_cons_inv r e Hs) as [Hs' Hlt].
  rewrite nx0_has_col_cons in Hc.
  destruct (Nat.eqb_spec (fst e) i) as [E|E].
  - exists [], (snd e), r. split; [|split].
    + simpl. rewrite <- E. destruct e; reflexivity.
    + intros ? [].
    + intros e' Hin. rewrite <- E. auto.
  - simpl in Hc. destruct (IH Hs' Hc) as (Lp & d & Up & -> & HL & HU).
    exists (e :: Lp), d, Up. split; [reflexivity|]. split; auto.
    intros e' [<-|Hin]; auto.
    assert (H := Hlt (i, d)). simpl in H. apply H. apply in_or_app. right. left. reflexivity.
Qed.

(* ------------------------------------------------------------------ *)
(* 2. flat view of the work row                                        *)
Definition nx0_wflat (i : nat) (w : @wrow S) : row := wL w ++ (i, wd w) :: wU w.

Definition nx0_fsub (t : S) (fl : row) (u : nat * S) : row :=
  upd_last (fst u) (fun v => v - t * snd u) fl.
Definition nx0_fstep (Us : list row) (D : vec) (fl : row) (e : nat * S) : row :=
  let c := fst e in
  let t := rget fl c * vget D c in
  fold_left (nx0_fsub t) (nth c Us []) (upd_last c (fun _ => t) fl).
Definition nx0_piv_step (i : nat) (Us : list row) (D : vec) (w : @wrow S) (e : nat * S) : @wrow S :=
  let c := fst e in
  let t := wgetL w c * vget D c in
  fold_left (fun w u => wupd i w (fst u) (fun v => v - t * snd u)) (nth c Us [])
            (wupd i w c (fun _ => t)).
Definition nx0_sstep (i : nat) (w : @wrow S) (e : nat * S) : @wrow S :=
  if Nat.ltb (fst e) i then mkW (wL w ++ [e]) (wd w) (whasd w) (wU w)
  else if Nat.eqb (fst e) i then mkW (wL w) (snd e) true (wU w)
  else mkW (wL w) (wd w) (whasd w) (wU w ++ [e]).

Section Flat.
Variables (i : nat) (Lp Up : row).
Hypothesis HL : forall e, In e Lp -> fst e < i.
Hypothesis HU : forall e, In e Up -> i < fst e.

Definition nx0_wok (w : @wrow S) : Prop :=
  whasd w = true /\ map fst (wL w) = map fst Lp /\ map fst (wU w) = map fst Up.

Lemma nx0_hcL w c : nx0_wok w -> i <= c -> has_col c (wL w) = false.
Proof.
  intros (_ & H & _) Hc. rewrite (nx0_has_col_map c _ _ H).
  apply nx0_has_col_false. intros e He. specialize (HL e He). lia.
Qed.
Lemma nx0_hcU w c : nx0_wok w -> c <= i -> has_col c (wU w) = false.
Proof.
  intros (_ & _ & H) Hc. rewrite (nx0_has_col_map c _ _ H).
  apply nx0_has_col_false. intros e He. specialize (HU e He). lia.
Qed.

Lemma nx0_wflat_wupd w c f : nx0_wok w ->
  nx0_wflat i (wupd i w c f) = upd_last c f (nx0_wflat i w) /\ nx0_wok (wupd i w c f).
Proof.
  intros Hw. pose proof Hw as (Hd & HmL & HmU). unfold wupd, nx0_wflat.
  rewrite nx0_upd_last_app, nx0_has_col_cons. cbn [fst].
  destruct (Nat.ltb_spec c i) as [Hlt|Hge].
  - cbn [wL wd wU whasd].
    replace (i =? c) with false by (symmetry; apply Nat.eqb_neq; lia).
    rewrite (nx0_hcU w c Hw) by lia. cbn [orb]. split; [reflexivity|].
    unfold nx0_wok; cbn [wL wd wU whasd]. rewrite nx0_map_fst_upd_last. auto.
  - destruct (Nat.eqb_spec c i) as [->|Hne].
    + rewrite Hd. cbn [wL wd wU whasd]. rewrite Nat.eqb_refl. cbn [orb].
      split; [|unfold nx0_wok; cbn [wL wd wU whasd]; auto].
      cbn [upd_last]. rewrite (nx0_hcU w i Hw) by lia. cbn [fst snd]. rewrite Nat.eqb_refl.
      reflexivity.
    + cbn [wL wd wU whasd].
      replace (i =? c) with false by (symmetry; apply Nat.eqb_neq; lia). cbn [orb].
      split; [|unfold nx0_wok; cbn [wL wd wU whasd]; rewrite nx0_map_fst_upd_last; auto].
      destruct (has_col c (wU w)) eqn:E.
      * cbn [upd_last]. rewrite E. reflexivity.
      * rewrite (nx0_upd_last_absent c f (wU w) E).
        rewrite (nx0_upd_last_absent c f (wL w)); [reflexivity|].
        apply nx0_hcL; [exact Hw|lia].
Qed.

Lemma nx0_wflat_fold_sub t (us : row) : forall w, nx0_wok w ->
  nx0_wflat i (fold_left (fun w u => wupd i w (fst u) (fun v => v - t * snd u)) us w)
  = fold_left (nx0_fsub t) us (nx0_wflat i w)
  /\ nx0_wok (fold_left (fun w u => wupd i w (fst u) (fun v => v - t * snd u)) us w).
Proof.
  induction us as [|u us IH]; intros w Hw; [split; [reflexivity|exact Hw]|].
  cbn [fold_left].
  destruct (nx0_wflat_wupd w (fst u) (fun v => v - t * snd u) Hw) as [E1 Hw1].
  destruct (IH _ Hw1) as [E2 Hw2]. split; [|exact Hw2].
  rewrite E2, E1. reflexivity.
Qed.

Hypothesis HndL : NoDup (map fst Lp).

Lemma nx0_wgetL_flat w c : nx0_wok w -> c < i -> wgetL w c = rget (nx0_wflat i w) c.
Proof.
  intros Hw Hc. pose proof Hw as (Hd & HmL & HmU). unfold wgetL, nx0_wflat.
  rewrite nx0_get_last_rget by (rewrite HmL; exact HndL).
  rewrite nx0_rget_app, (nc_rget_cons Hnc). cbn [fst snd].
  replace (i =? c) with false by (symmetry; apply Nat.eqb_neq; lia).
  rewrite (nx0_rget_absent c (wU w)) by (apply nx0_hcU; [exact Hw|lia]). ncr.
Qed.

Lemma nx0_wflat_piv_step Us D w e : nx0_wok w -> fst e < i ->
  nx0_wflat i (nx0_piv_step i Us D w e) = nx0_fstep Us D (nx0_wflat i w) e /\ nx0_wok (nx0_piv_step i Us D w e).
Proof.
  intros Hw Hc. unfold nx0_piv_step, nx0_fstep. cbv zeta.
  rewrite (nx0_wgetL_flat w (fst e) Hw Hc).
  set (t := rget (nx0_wflat i w) (fst e) * vget D (fst e)).
  destruct (nx0_wflat_wupd w (fst e) (fun _ => t) Hw) as [E1 Hw1].
  destruct (nx0_wflat_fold_sub t (nth (fst e) Us []) _ Hw1) as [E2 Hw2].
  split; [|exact Hw2]. rewrite E2, E1. reflexivity.
Qed.

Lemma nx0_wflat_fold_piv Us D (l : row) : forall w, nx0_wok w -> (forall e, In e l -> fst e < i) ->
  nx0_wflat i (fold_left (nx0_piv_step i Us D) l w) = fold_left (nx0_fstep Us D) l (nx0_wflat i w)
  /\ nx0_wok (fold_left (nx0_piv_step i Us D) l w).
Proof.
  induction l as [|e l IH]; intros w Hw Hl; [split; [reflexivity|exact Hw]|].
  cbn [fold_left].
  destruct (nx0_wflat_piv_step Us D w e Hw) as [E1 Hw1]; [apply Hl; left; reflexivity|].
  destruct (IH _ Hw1) as [E2 Hw2]; [intros; apply Hl; right; assumption|].
  split; [|exact Hw2]. rewrite E2, E1. reflexivity.
Qed.

(* the walk of ilu0_elim over a row  l ++ (i,d0) :: Up'  with  cols(l) < i *)
Lemma nx0_elim_app Us D d0 (Up' : row) (l : row) : forall w,
  (forall e, In e l -> fst e < i) ->
  ilu0_elim i Us D (l ++ (i, d0) :: Up') w =
  let w' := fold_left (nx0_piv_step i Us D) l w in
  if is_zero (wd w') then Err ZeroPivot
  else Ok (mkW (wL w') (sinv (wd w')) (whasd w') (wU w')).
Proof.
  induction l as [|e l IH]; intros w Hl.
  - cbn [app fold_left ilu0_elim fst]. rewrite Nat.leb_refl, Nat.eqb_refl. reflexivity.
  - cbn [app fold_left ilu0_elim].
    assert (Hc : fst e < i) by (apply Hl; left; reflexivity).
    replace (i <=? fst e) with false by (symmetry; apply Nat.leb_gt; exact Hc).
    rewrite IH by (intros; apply Hl; right; assumption). reflexivity.
Qed.

Lemma nx0_scat_L (l : row) : forall w, (forall e, In e l -> fst e < i) ->
  fold_left (nx0_sstep i) l w = mkW (wL w ++ l) (wd w) (whasd w) (wU w).
Proof.
  induction l as [|e l IH]; intros w Hl.
  - simpl. rewrite app_nil_r. destruct w; reflexivity.
  - cbn [fold_left]. rewrite IH by (intros; apply Hl; right; assumption).
    unfold nx0_sstep. assert (Hc : fst e < i) by (apply Hl; left; reflexivity).
    replace (fst e <? i) with true by (symmetry; apply Nat.ltb_lt; exact Hc).
    cbn [wL wd wU whasd]. rewrite <- app_assoc. reflexivity.
Qed.
Lemma nx0_scat_U (l : row) : forall w, (forall e, In e l -> i < fst e) ->
  fold_left (nx0_sstep i) l w = mkW (wL w) (wd w) (whasd w) (wU w ++ l).
Proof.
  induction l as [|e l IH]; intros w Hl.
  - simpl. rewrite app_nil_r. destruct w; reflexivity.
  - cbn [fold_left]. rewrite IH by (intros; apply Hl; right; assumption).
    unfold nx0_sstep. assert (Hc : i < fst e) by (apply Hl; left; reflexivity).
    replace (fst e <? i) with false by (symmetry; apply Nat.ltb_ge; lia).
    replace (fst e =? i) with false by (symmetry; apply Nat.eqb_neq; lia).
    cbn [wL wd wU whasd]. rewrite <- app_assoc. reflexivity.
Qed.

Lemma nx0_scatter d0 jd : ilu0_scatter i (Lp ++ (i, d0) :: Up) jd = mkW Lp d0 true Up.
Proof.
  change (ilu0_scatter i (Lp ++ (i, d0) :: Up) jd)
    with (fold_left (nx0_sstep i) (Lp ++ (i, d0) :: Up) (mkW [] jd false [])).
  rewrite fold_left_app, (nx0_scat_L Lp _ HL). cbn [fold_left].
  unfold nx0_sstep at 2. cbn [fst snd wL wd wU whasd].
  rewrite Nat.ltb_irrefl, Nat.eqb_refl. rewrite (nx0_scat_U Up _ HU). reflexivity.
Qed.

End Flat.

(* ------------------------------------------------------------------ *)
(* 3. dense semantics of the flat elimination step                     *)
Lemma nx0_fsub_spec t (fl : row) (u : nat * S) : NoDup (map fst fl) ->
  map fst (nx0_fsub t fl u) = map fst fl /\
  forall j, rget (nx0_fsub t fl u) j =
            rget fl j - (if has_col j fl then t * (if fst u =? j then snd u else s0) else s0).
Proof.
  intro Hnd. unfold nx0_fsub. split; [apply nx0_map_fst_upd_last|]. intro j.
  destruct (Nat.eqb_spec (fst u) j) as [E|E].
  - subst j. destruct (has_col (fst u) fl) eqn:Hc.
    + rewrite nx0_rget_upd_last_same by assumption. reflexivity.
    + rewrite nx0_upd_last_absent by assumption. ncr.
  - rewrite nx0_rget_upd_last_other by auto. destruct (has_col j fl); ncr.
Qed.

Lemma nx0_fold_fsub t (u : row) : forall fl : row, NoDup (map fst fl) ->
  map fst (fold_left (nx0_fsub t) u fl) = map fst fl /\
  forall j, rget (fold_left (nx0_fsub t) u fl) j =
            rget fl j - (if has_col j fl then t * rget u j else s0).
Proof.
  induction u as [|e u IH]; intros fl Hnd.
  - split; [reflexivity|]. intro j. cbn [fold_left]. rewrite nc_rget_nil.
    destruct (has_col j fl); ncr.
  - cbn [fold_left]. destruct (nx0_fsub_spec t fl e Hnd) as [M1 R1].
    assert (Hnd1 : NoDup (map fst (nx0_fsub t fl e))) by (rewrite M1; exact Hnd).
    destruct (IH _ Hnd1) as [M2 R2]. split; [congruence|]. intro j.
    rewrite R2, R1, (nx0_has_col_map j _ _ M1), (nc_rget_cons Hnc).
    destruct (has_col j fl); ncr.
Qed.

Lemma nx0_fstep_spec Us D (fl : row) (e : nat * S) :
  NoDup (map fst fl) -> has_col (fst e) fl = true ->
  map fst (nx0_fstep Us D fl e) = map fst fl /\
  forall j, rget (nx0_fstep Us D fl e) j =
    (if j =? fst e then rget fl (fst e) * vget D (fst e) else rget fl j)
    - (if has_col j fl
       then rget fl (fst e) * vget D (fst e) * rget (nth (fst e) Us []) j else s0).
Proof.
  intros Hnd Hc. unfold nx0_fstep. cbv zeta.
  set (t := rget fl (fst e) * vget D (fst e)).
  set (fl1 := upd_last (fst e) (fun _ => t) fl).
  assert (M1 : map fst fl1 = map fst fl) by apply nx0_map_fst_upd_last.
  assert (Hnd1 : NoDup (map fst fl1)) by (rewrite M1; exact Hnd).
  destruct (nx0_fold_fsub t (nth (fst e) Us []) fl1 Hnd1) as [M2 R2].
  split; [congruence|]. intro j. rewrite R2, (nx0_has_col_map j _ _ M1).
  f_equal. unfold fl1. destruct (Nat.eqb_spec j (fst e)) as [->|Hne].
  - rewrite nx0_rget_upd_last_same by assumption. reflexivity.
  - rewrite nx0_rget_upd_last_other by assumption. reflexivity.
Qed.

(* ------------------------------------------------------------------ *)
(* 4. the row invariant                                                *)
Section RowInv.
Variables (Us : list row) (D : vec) (r : row) (i : nat).
Hypothesis Hnd : NoDup (map fst r).
Hypothesis Hup : forall k j, k < i -> j <= k -> rget (nth k Us []) j = s0.

(* all pattern columns < m have been used as pivots *)
Definition nx0_Inv (m : nat) (fl : row) : Prop :=
  map fst fl = map fst r /\
  forall j, has_col j r = true ->
    rget fl j = (rget r j - sumn (fun k => rget fl k * rget (nth k Us []) j) m)
                * (if j <? m then vget D j else s1).

Lemma nx0_Inv_0 : nx0_Inv 0 r.
Proof.
  split; [reflexivity|]. intros j _. cbn [sumn]. cbn. ncr.
Qed.

Lemma nx0_Inv_skip m fl : nx0_Inv m fl -> has_col m r = false -> nx0_Inv (Datatypes.S m) fl.
Proof.
  intros [M R] Hm. split; [exact M|]. intros j Hj. rewrite (R j Hj). cbn [sumn].
  assert (Z : rget fl m = s0).
  { apply nx0_rget_absent. rewrite (nx0_has_col_map m _ _ M). exact Hm. }
  rewrite Z.
  assert (j <> m) by (intro; subst; congruence).
  replace (j <? Datatypes.S m) with (j <? m) by lia.
  ncr.
Qed.

Lemma nx0_Inv_skip_many n : forall m fl,
  (forall j, m <= j -> j < (m + n)%nat -> has_col j r = false) -> nx0_Inv m fl -> nx0_Inv (m + n)%nat fl.
Proof.
  induction n as [|n IH]; intros m fl H HI.
  - rewrite Nat.add_0_r. exact HI.
  - replace (m + Datatypes.S n)%nat with (Datatypes.S m + n)%nat by lia.
    apply IH; [intros; apply H; lia|]. apply nx0_Inv_skip; [exact HI|]. apply H; lia.
Qed.

Lemma nx0_Inv_pivot m fl e : m < i -> fst e = m -> nx0_Inv m fl -> has_col m r = true ->
  nx0_Inv (Datatypes.S m) (nx0_fstep Us D fl e).
Proof.
  intros Hmi He [M R] Hm.
  assert (Hndf : NoDup (map fst fl)) by (rewrite M; exact Hnd).
  assert (Hcf : has_col (fst e) fl = true) by (rewrite He, (nx0_has_col_map m _ _ M); exact Hm).
  destruct (nx0_fstep_spec Us D fl e Hndf Hcf) as [M' R']. rewrite He in R'.
  split; [congruence|]. intros j Hj.
  assert (Hk : forall k, k < m -> rget (nx0_fstep Us D fl e) k = rget fl k).
  { intros k Hk. rewrite R'. replace (k =? m) with false by lia.
    rewrite (Hup m k) by lia. destruct (has_col k fl); ncr. }
  cbn [sumn].
  rewrite (sumn_ext _ (fun k => rget fl k * rget (nth k Us []) j))
    by (intros k Hk'; rewrite Hk by exact Hk'; reflexivity).
  assert (Hm' : rget (nx0_fstep Us D fl e) m = rget fl m * vget D m).
  { rewrite R'. rewrite Nat.eqb_refl. rewrite (Hup m m) by lia. destruct (has_col m fl); ncr. }
  rewrite Hm'. rewrite R'. rewrite (nx0_has_col_map j _ _ M), Hj.
  pose proof (R j Hj) as Rj. pose proof (R m Hm) as Rm.
  rewrite Nat.ltb_irrefl in Rm.
  destruct (Nat.eqb_spec j m) as [->|Hne].
  - replace (m <? Datatypes.S m) with true by lia.
    rewrite (Hup m m) by lia. rewrite Rm. ncr.
  - destruct (Nat.ltb_spec j m) as [Hlt|Hge].
    + replace (j <? Datatypes.S m) with true by lia.
      rewrite (Hup m j) by lia. rewrite Rj. ncr.
    + replace (j <? Datatypes.S m) with false by lia.
      rewrite Rj. ncr.
Qed.

(* the fold over the (sorted) strictly-lower entries *)
Lemma nx0_Inv_fold (l : row) : forall m fl,
  sorted_strict l = true ->
  (forall e, In e l -> m <= fst e /\ fst e < i) ->
  (forall j, m <= j -> j < i -> has_col j r = has_col j l) ->
  m <= i -> nx0_Inv m fl -> nx0_Inv i (fold_left (nx0_fstep Us D) l fl).
Proof.
  induction l as [|e l IH]; intros m fl Hs Hb Hpat Hmi HI.
  - cbn [fold_left]. replace i with (m + (i - m))%nat by lia.
    apply nx0_Inv_skip_many; [|exact HI]. intros j H1 H2. rewrite Hpat by lia. reflexivity.
  - cbn [fold_left].
    destruct (nx0_sorted_cons_inv l e Hs) as [Hs' Hlt].
    destruct (Hb e (or_introl eq_refl)) as [Hme Hei].
    assert (HIc : nx0_Inv (fst e) fl).
    { replace (fst e) with (m + (fst e - m))%nat by lia.
      apply nx0_Inv_skip_many; [|exact HI]. intros j H1 H2. rewrite Hpat by lia.
      apply nx0_has_col_false. intros e' [<-|Hin]; [lia|]. specialize (Hlt e' Hin). lia. }
    assert (Hce : has_col (fst e) r = true).
    { rewrite Hpat by lia. rewrite nx0_has_col_cons, Nat.eqb_refl. reflexivity. }
    apply (IH (Datatypes.S (fst e))); [exact Hs'| | |lia|].
    + intros e' Hin. specialize (Hlt e' Hin). destruct (Hb e' (or_intror Hin)). lia.
    + intros j H1 H2. rewrite Hpat by lia. rewrite nx0_has_col_cons.
      replace (fst e =? j) with false by lia. reflexivity.
    + apply nx0_Inv_pivot; auto.
Qed.

End RowInv.

(* ------------------------------------------------------------------ *)
(* 5. result of one row                                                *)
Lemma nx0_row_spec (Us : list row) (D : vec) i (r : row) jd w :
  (forall k j, k < i -> j <= k -> rget (nth k Us []) j = s0) ->
  (forall k, k < i -> vget D k * sinv (vget D k) = s1) ->
  sorted_strict r = true -> has_col i r = true ->
  ilu0_elim i Us D r (ilu0_scatter i r jd) = Ok w ->
  wd w <> s0 -> sinv (wd w) <> s0 ->
  (wd w * sinv (wd w) = s1 /\ sinv (wd w) * wd w = s1) /\
  (forall j, j <= i -> rget (drop_zeros (wU w)) j = s0) /\
  forall j, has_col j r = true ->
    sumn (fun k => rget (drop_zeros (wL w)) k *
                   (if k =? j then sinv (vget D k) else rget (nth k Us []) j)) i
    + (if i =? j then sinv (wd w) else rget (drop_zeros (wU w)) j) = rget r j.
Proof.
  intros Hup HD Hs Hci Hel Hw1 Hw2.
  pose proof (nx0_sorted_NoDup r Hs) as Hnd.
  destruct (nx0_sorted_split i r Hs Hci) as (Lp & d0 & Up & Er & HL & HU).
  assert (HsL : sorted_strict Lp = true) by (apply (nx0_sorted_app_l Lp ((i, d0) :: Up)); rewrite <- Er; exact Hs).
  assert (HndL : NoDup (map fst Lp)) by (apply nx0_sorted_NoDup; exact HsL).
  rewrite Er in Hel at 2. rewrite (nx0_scatter i Lp Up HL HU) in Hel.
  rewrite Er in Hel. rewrite (nx0_elim_app i Us D d0 Up Lp _ HL) in Hel. cbv zeta in Hel.
  set (w0 := mkW Lp d0 true Up) in Hel.
  assert (Hw0 : nx0_wok Lp Up w0) by (unfold nx0_wok, w0; cbn; auto).
  destruct (nx0_wflat_fold_piv i Lp Up HL HU HndL Us D Lp w0 Hw0 HL) as [Efl Hw'].
  set (w' := fold_left (nx0_piv_step i Us D) Lp w0) in *.
  assert (Ew0 : nx0_wflat i w0 = r) by (unfold nx0_wflat, w0; cbn [wL wd wU]; symmetry; exact Er).
  rewrite Ew0 in Efl.
  assert (HI : nx0_Inv Us D r i (nx0_wflat i w')).
  { rewrite Efl. apply (nx0_Inv_fold Us D r i Hnd Hup Lp 0 r HsL).
    - intros e He. split; [lia|auto].
    - intros j _ Hj. rewrite Er, nx0_has_col_app, nx0_has_col_cons. cbn [fst].
      replace (i =? j) with false by lia.
      rewrite (nx0_has_col_false j Up) by (intros e He; specialize (HU e He); lia).
      rewrite !orb_false_r. reflexivity.
    - lia.
    - apply nx0_Inv_0. }
  destruct HI as [M R].
  (* components of the flat row *)
  assert (FL : forall k, k < i -> rget (nx0_wflat i w') k = rget (wL w') k).
  { intros k Hk. unfold nx0_wflat. rewrite nx0_rget_app, (nc_rget_cons Hnc). cbn [fst snd].
    replace (i =? k) with false by lia.
    rewrite (nx0_rget_absent k (wU w')) by (apply (nx0_hcU i Lp Up HU w' k Hw'); lia). ncr. }
  assert (FD : rget (nx0_wflat i w') i = wd w').
  { unfold nx0_wflat. rewrite nx0_rget_app, (nc_rget_cons Hnc). cbn [fst snd]. rewrite Nat.eqb_refl.
    rewrite (nx0_rget_absent i (wU w')) by (apply (nx0_hcU i Lp Up HU w' i Hw'); lia).
    rewrite (nx0_rget_absent i (wL w')) by (apply (nx0_hcL i Lp Up HL w' i Hw'); lia). ncr. }
  assert (FU : forall j, i < j -> rget (nx0_wflat i w') j = rget (wU w') j).
  { intros j Hj. unfold nx0_wflat. rewrite nx0_rget_app, (nc_rget_cons Hnc). cbn [fst snd].
    replace (i =? j) with false by lia.
    rewrite (nx0_rget_absent j (wL w')) by (apply (nx0_hcL i Lp Up HL w' j Hw'); lia). ncr. }
  assert (UL : forall j, j <= i -> rget (wU w') j = s0).
  { intros j Hj. apply nx0_rget_absent. apply (nx0_hcU i Lp Up HU w' j Hw'); lia. }
  destruct (is_zero (wd w')) eqn:Z; [discriminate|].
  apply nx0_is_zero_false in Z.
  inversion Hel as [Ew]. rewrite <- Ew in Hw1, Hw2. cbn [wL wd wU] in *.
  pose proof (Hinv _ Hw1) as Hp1.        (* p * sinv p = 1 *)
  pose proof (Hinv _ Hw2) as Hp2.        (* sinv p * sinv (sinv p) = 1 *)
  split; [split; [exact Hp2|]|].
  { rewrite (nx0_inv_unique _ _ _ Hp1 Hp2). exact Hp1. }
  split; [intros j Hj; rewrite nx0_rget_drop_zeros; apply UL; exact Hj|].
  intros j Hj.
  set (Sg := sumn (fun k => rget (nx0_wflat i w') k * rget (nth k Us []) j) i).
  pose proof (R j Hj) as Rj. fold Sg in Rj.
  rewrite (sumn_ext _ (fun k => rget (nx0_wflat i w') k * rget (nth k Us []) j
                               + (if j =? k then rget (nx0_wflat i w') j * sinv (vget D j) else s0))).
  2:{ intros k Hk. rewrite nx0_rget_drop_zeros, <- (FL k Hk).
      destruct (Nat.eqb_spec k j) as [->|Hne].
      - rewrite Nat.eqb_refl. rewrite (Hup j j) by lia. ncr.
      - replace (j =? k) with false by lia. ncr. }
  rewrite (ncsumn_add Hnc), (ncsumn_delta' Hnc). fold Sg.
  rewrite nx0_rget_drop_zeros.
  destruct (Nat.ltb_spec j i) as [Hlt|Hge].
  - replace (i =? j) with false by lia. rewrite (UL j) by lia.
    rewrite Rj.
    transitivity (Sg + (rget r j - Sg) * (vget D j * sinv (vget D j))); [ncr|].
    rewrite (HD j Hlt). ncr.
  - destruct (Nat.eqb_spec i j) as [<-|Hne].
    + rewrite (nx0_inv_unique _ _ _ Hp1 Hp2). rewrite <- FD, Rj. ncr.
    + rewrite <- (FU j) by lia. rewrite Rj. ncr.
Qed.

(* ------------------------------------------------------------------ *)
(* 6. induction over the rows                                          *)
Definition nx0_row_exact (Ls Us : list row) (D : vec) (r : row) (k : nat) : Prop :=
  forall j, has_col j r = true ->
    sumn (fun k' => rget (nth k Ls []) k' *
                    (if k' =? j then sinv (vget D k') else rget (nth k' Us []) j)) k
    + (if k =? j then sinv (vget D k) else rget (nth k Us []) j) = rget r j.

Definition nx0_ginv (allrows : list row) (Ls Us : list row) (D : vec) (i : nat) : Prop :=
  length Ls = i /\ length Us = i /\ length D = i /\
  (forall k j, k < i -> j <= k -> rget (nth k Us []) j = s0) /\
  (forall k, k < i -> vget D k * sinv (vget D k) = s1 /\ sinv (vget D k) * vget D k = s1) /\
  (forall k, k < i -> nx0_row_exact Ls Us D (nth k allrows []) k).

Lemma nx0_row_exact_app (Ls Us : list row) (D : vec) (r : row) k (a b : row) (c : S) :
  k < length Ls -> k < length Us -> k < length D ->
  nx0_row_exact Ls Us D r k -> nx0_row_exact (Ls ++ [a]) (Us ++ [b]) (D ++ [c]) r k.
Proof.
  intros H1 H2 H3 H j Hj. rewrite <- (H j Hj). unfold vget.
  rewrite !app_nth1 by assumption. f_equal.
  apply sumn_ext. intros k' Hk'. rewrite !app_nth1 by lia. reflexivity.
Qed.

(* the vector of inverted pivots only grows *)
Lemma nx0_rows_prefix (junk : vec) : forall (rs : list row) i Ls Us D Ls' Us' D',
  ilu0_rows (Ls, Us, D) i rs junk = Ok (Ls', Us', D') -> exists sfx, D' = D ++ sfx.
Proof.
  induction rs as [|r tl IH]; intros i Ls Us D Ls' Us' D' H.
  - cbn [ilu0_rows] in H. inversion H. exists []. rewrite app_nil_r. reflexivity.
  - cbn [ilu0_rows] in H. unfold ilu0_row in H.
    destruct (ilu0_elim i Us D r (ilu0_scatter i r (vget junk i))) as [w|]; [|discriminate].
    destruct (IH _ _ _ _ _ _ _ H) as [sfx E]. exists (wd w :: sfx). rewrite E, <- app_assoc. reflexivity.
Qed.

Lemma nx0_rows_inv (allrows : list row) (junk : vec) :
  (forall k, k < length allrows ->
     sorted_strict (nth k allrows []) = true /\ has_col k (nth k allrows []) = true) ->
  forall (rs pre : list row) i Ls Us D Ls' Us' D',
  allrows = pre ++ rs -> i = length pre ->
  nx0_ginv allrows Ls Us D i ->
  ilu0_rows (Ls, Us, D) i rs junk = Ok (Ls', Us', D') ->
  (forall k, k < length allrows -> vget D' k <> s0 /\ sinv (vget D' k) <> s0) ->
  nx0_ginv allrows Ls' Us' D' (length allrows).
Proof.
  intro Hrows. induction rs as [|r tl IH]; intros pre i Ls Us D Ls' Us' D' Ea Ei G H HD'.
  - cbn [ilu0_rows] in H. inversion H; subst Ls' Us' D'.
    assert (El : length allrows = i) by (rewrite Ea, app_nil_r; auto).
    rewrite El. exact G.
  - cbn [ilu0_rows] in H. unfold ilu0_row in H.
    destruct (ilu0_elim i Us D r (ilu0_scatter i r (vget junk i))) as [w|] eqn:El; [|discriminate].
    destruct G as (G1 & G2 & G3 & G4 & G5 & G6).
    assert (Hr : nth i allrows [] = r) by (rewrite Ea, Ei; apply nth_middle).
    assert (Hi : i < length allrows) by (rewrite Ea, app_length; cbn [length]; lia).
    destruct (Hrows i Hi) as [Hs Hc]. rewrite Hr in Hs, Hc.
    assert (HDi : vget D' i = wd w).
    { destruct (nx0_rows_prefix junk _ _ _ _ _ _ _ _ H) as [sfx E]. rewrite E. unfold vget.
      rewrite app_nth1 by (rewrite app_length; cbn [length]; lia). rewrite <- G3. apply nth_middle. }
    destruct (HD' i Hi) as [Hw1 Hw2]. rewrite HDi in Hw1, Hw2.
    destruct (nx0_row_spec Us D i r (vget junk i) w G4 (fun k Hk => proj1 (G5 k Hk)) Hs Hc El Hw1 Hw2) as (W1 & W2 & W3).
    apply (IH (pre ++ [r]) (Datatypes.S i) (Ls ++ [drop_zeros (wL w)])
              (Us ++ [drop_zeros (wU w)]) (D ++ [wd w]) Ls' Us' D').
    + rewrite <- app_assoc. exact Ea.
    + rewrite app_length; cbn [length]; lia.
    + assert (NL : nth i (Ls ++ [drop_zeros (wL w)]) [] = drop_zeros (wL w))
        by (rewrite <- G1; apply nth_middle).
      assert (NU : nth i (Us ++ [drop_zeros (wU w)]) [] = drop_zeros (wU w))
        by (rewrite <- G2; apply nth_middle).
      assert (ND : nth i (D ++ [wd w]) s0 = wd w)
        by (rewrite <- G3; apply nth_middle).
      unfold nx0_ginv. rewrite !app_length. cbn [length].
      split; [lia|]. split; [lia|]. split; [lia|]. split; [|split].
      * intros k j Hk Hj. destruct (Nat.eq_dec k i) as [->|Hne].
        -- rewrite NU. apply W2. exact Hj.
        -- rewrite app_nth1 by lia. apply G4; lia.
      * intros k Hk. unfold vget. destruct (Nat.eq_dec k i) as [->|Hne].
        -- rewrite ND. exact W1.
        -- rewrite app_nth1 by lia. apply G5; lia.
      * intros k Hk. destruct (Nat.eq_dec k i) as [->|Hne].
        -- rewrite Hr. intros j Hj. rewrite <- (W3 j Hj). unfold vget.
           rewrite NL, NU, ND.
           f_equal. apply sumn_ext. intros k' Hk'. rewrite !app_nth1 by lia. reflexivity.
        -- apply nx0_row_exact_app; try lia. apply G6. lia.
    + exact H.
    + exact HD'.
Qed.

Lemma nx0_In_indexed {X} (l : list X) i d : i < length l -> In (i, nth i l d) (indexed l).
Proof.
  intro Hi. unfold indexed.
  assert (E : nth i (combine (seq 0 (length l)) l) (0%nat, d) = (i, nth i l d)).
  { rewrite combine_nth by (rewrite seq_length; reflexivity). rewrite seq_nth by exact Hi. reflexivity. }
  rewrite <- E. apply nth_In. rewrite combine_length, seq_length. lia.
Qed.

Lemma nx0_first_col_has_col (r : row) i : first_col r i <> None -> has_col i r = true.
Proof.
  induction r as [|[c v] r IH]; simpl; [congruence|]. intro H.
  destruct (c =? i); [reflexivity|]. apply IH. exact H.
Qed.

Lemma nx0_has_diag_has_col (A : crs) i : has_diag A = true -> i < nrows A ->
  has_col i (nth i (rows A) []) = true.
Proof.
  intros H Hi. unfold has_diag in H. rewrite forallb_forall in H.
  specialize (H _ (nx0_In_indexed (rows A) i [] Hi)). cbn [fst snd] in H.
  apply nx0_first_col_has_col. destruct (first_col (nth i (rows A) []) i); congruence.
Qed.

(* ------------------------------------------------------------------ *)
(* MAIN THEOREM                                                        *)
Theorem nc_ilu0_exact_on_pattern (A : crs) (junk : vec) L U D :
  wf A = true -> ncols A = nrows A ->
  (forall i, i < nrows A -> sorted_strict (nth i (rows A) []) = true) ->
  has_diag A = true ->
  ilu0 A junk = Ok (L, U, D) ->
  (forall k, k < nrows A -> vget D k <> s0 /\ sinv (vget D k) <> s0) ->
  forall i j, i < nrows A -> has_col j (nth i (rows A) []) = true ->
    lu_entry L U D i j = mget A i j.
Proof.
  intros _ _ Hs Hd H HDk i j Hi Hj. unfold ilu0 in H.
  destruct (ilu0_rows ([], [], []) 0 (rows A) junk) as [[[Ls Us] D']|] eqn:E; [|discriminate].
  inversion H; subst L U D. clear H.
  assert (G : nx0_ginv (rows A) Ls Us D' (length (rows A))).
  { apply (nx0_rows_inv (rows A) junk) with (rs := rows A) (pre := []) (i := 0%nat)
      (Ls := []) (Us := []) (D := []); auto.
    - intros k Hk. split; [apply Hs; exact Hk|apply nx0_has_diag_has_col; assumption].
    - unfold nx0_ginv. cbn [length]. repeat split; intros; lia. }
  destruct G as (_ & _ & _ & _ & _ & G6).
  exact (G6 i Hi j Hj).
Qed.

(* the stored inverted pivots are two-sided inverses of [sinv D_k] (= the pivot blocks) *)
Theorem nc_ilu0_pivots_two_sided (A : crs) (junk : vec) L U D :
  (forall i, i < nrows A -> sorted_strict (nth i (rows A) []) = true) ->
  has_diag A = true ->
  ilu0 A junk = Ok (L, U, D) ->
  (forall k, k < nrows A -> vget D k <> s0 /\ sinv (vget D k) <> s0) ->
  forall k, k < nrows A -> vget D k * sinv (vget D k) = s1 /\ sinv (vget D k) * vget D k = s1.
Proof.
  intros Hs Hd H HDk k Hk. unfold ilu0 in H.
  destruct (ilu0_rows ([], [], []) 0 (rows A) junk) as [[[Ls Us] D']|] eqn:E; [|discriminate].
  inversion H; subst L U D. clear H.
  assert (G : nx0_ginv (rows A) Ls Us D' (length (rows A))).
  { apply (nx0_rows_inv (rows A) junk) with (rs := rows A) (pre := []) (i := 0%nat)
      (Ls := []) (Us := []) (D := []); auto.
    - intros k' Hk'. split; [apply Hs; exact Hk'|apply nx0_has_diag_has_col; assumption].
    - unfold nx0_ginv. cbn [length]. repeat split; intros; lia. }
  destruct G as (_ & _ & _ & _ & G5 & _).
  exact (G5 k Hk).
Qed.

(* ILUP = ILU(0) on P = ilup_matrix k A *)
Lemma nc_ilup_exact_on_pattern (k : nat) (A : crs) (junk : vec) L U D :
  let P := ilup_matrix k A in
  wf P = true -> ncols P = nrows P ->
  (forall i, i < nrows P -> sorted_strict (nth i (rows P) []) = true) ->
  has_diag P = true ->
  ilup k A junk = Ok (L, U, D) ->
  (forall i, i < nrows P -> vget D i <> s0 /\ sinv (vget D i) <> s0) ->
  forall i j, i < nrows P -> has_col j (nth i (rows P) []) = true ->
    lu_entry L U D i j = mget P i j.
Proof. intros P. unfold ilup. apply nc_ilu0_exact_on_pattern. Qed.

End NcExact.
