(* DirectSpec.v -- executable SPECIFICATION-side checkers used by the C16 oracle stage
   (evaluated by the extracted code on the implementation's outputs). *)
From Amgcl Require Import Scalar Vec Crs Kernels DirectUtil Inverse.
Local Open Scope S_scope.
Local Open Scope nat_scope.

(* p is a permutation of 0..n-1: length n and every i < n occurs exactly once *)
Definition is_perm_b (n : nat) (p : list nat) : bool :=
  Nat.eqb (length p) n && forallb (fun i => Nat.eqb (count_occ Nat.eq_dec p i) 1) (seq 0 n).

Section Spec.
Context {S : Scalar}.
Local Notation vec := (vec S).

Definition vec_eqb (x y : vec) : bool :=
  Nat.eqb (length x) (length y) && forallb (fun xy => seqb (fst xy) (snd xy)) (combine x y).

(* A x = b, exactly, with the spec-level spmv (dense semantics of CRS proved in C07) *)
Definition solves_b (A : crs S) (x b : vec) : bool :=
  vec_eqb (spmv s1 A x s0 (repeat s0 (nrows A))) b.

(* row-major n x n: A * B = I *)
Definition is_inverse_b (n : nat) (A B : vec) : bool :=
  forallb (fun i => forallb (fun j => seqb (mat_mul_get n A B i j) (if Nat.eqb i j then s1 else s0))
                            (seq 0 n)) (seq 0 n).
End Spec.
