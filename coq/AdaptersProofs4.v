(* AdaptersProofs4.v -- C17, round 2b:
   (1) entry points that accept a user matrix AFTER construction:
       amg::rebuild(const Matrix &M)  (amg.hpp:238-247)  =  copy, sort_rows, rebuild(shared_ptr)  -- the model's
       Amg.amg_rebuild; reached also through make_solver::precond() and runtime::preconditioner::rebuild
       (runtime.hpp:210-229), which forward the user matrix;
       cpr::partial_update / cpr_drs::partial_update (cpr.hpp:160-181, cpr_drs.hpp:188-209) = copy, sort_rows,
       new SPrecond(K_ptr), optionally update_transfer(K_ptr).
       Each is [sorting_entry] composed with a function of the SORTED copy, hence independent of the listing.
       The overload amg::rebuild(std::shared_ptr<build_matrix>) does not sort ([amg_rebuild_sp]): handing it the
       user's listing (what seeded change C17-2 made the template overload do) is refuted -- the smoother of
       level 0 is set up on the user's listing, for which the ILU(0) row scan differs.
   (2) make_block_solver after /repo a433813: backend::crs<scalar> As(A); sort_rows(As); block_matrix(As):
       [sorting_entry] composed with the block adapter; the refutation witness of AdaptersProofs3 (kept as the
       historical record of the defect) now yields one block matrix for both listings, and for every listing with
       distinct columns the block matrix handed to the inner solver has the dense operator of the user's matrix. *)
From Coq Require Import Permutation.
From Amgcl Require Import Scalar Vec Crs Kernels KernelsProofs MatOps MatOpsProofs Relax Ilu Amg Adapters AdaptersProofs
  AdaptersProofs2 AdaptersProofs3 BlockProofs.

(* ================================================================ (1) rebuild / partial_update *)
Section RebuildEntry.
Context {S : Scalar}.
Local Notation crs := (crs S).

(* amg::rebuild(std::shared_ptr<build_matrix> A): the levels are rebuilt from A as it is *)
Definition amg_rebuild_sp (cop : crs -> crs -> crs -> crs) (ls : list ldesc) (A : crs) : list ldesc :=
  rebuild_levels cop ls A.
(* amg::rebuild(const Matrix &M): A = make_shared<build_matrix>(M); sort_rows( *A ); rebuild(A) -- Amg.amg_rebuild
   applied to the generic copy of the adapter *)
Definition amg_rebuild_entry (cop : crs -> crs -> crs -> crs) (ls : list ldesc) (A : adapter S) : list ldesc :=
  amg_rebuild cop ls (to_crs A).

Lemma amg_rebuild_entry_sorts cop ls (A : adapter S) :
  amg_rebuild_entry cop ls A = sorting_entry (amg_rebuild_sp cop ls) A.
Proof. reflexivity. Qed.

Theorem amg_rebuild_entry_order_independent cop ls (A B : adapter S) :
  rows_perm (to_crs A) (to_crs B) -> distinct_cols (to_crs A) ->
  amg_rebuild_entry cop ls A = amg_rebuild_entry cop ls B.
Proof. intros H1 H2. rewrite !amg_rebuild_entry_sorts. apply sorting_entry_order_independent; assumption. Qed.

(* ... and it is what the non-sorting overload builds from the sorted matrix *)
Theorem amg_rebuild_entry_is_sorted_input cop ls (A B : adapter S) :
  rows_perm (to_crs A) (to_crs B) -> distinct_cols (to_crs A) ->
  amg_rebuild_entry cop ls A = amg_rebuild_sp cop ls (sort_rows (to_crs B)).
Proof.
  intros H1 H2. rewrite amg_rebuild_entry_sorts, (sorting_entry_is_sorted_input _ A B H1 H2).
  unfold plain_entry. rewrite to_crs_crs_view. reflexivity.
Qed.

(* a sequence of rebuilds: only the last listing matters, and not its order (the transfer operators are kept,
   the matrices are recomputed: rebuild_levels ignores the old level matrices) *)
Lemma rebuild_levels_forgets cop (ls : list ldesc) (A1 A : crs) :
  rebuild_levels cop (rebuild_levels cop ls A1) A = rebuild_levels cop ls A.
Proof.
  revert A1 A. induction ls as [|l tl IH]; intros A1 A; [reflexivity|].
  destruct l; simpl; rewrite IH; reflexivity.
Qed.
Theorem amg_rebuild_chain_order_independent cop ls (A1 A B : adapter S) :
  rows_perm (to_crs A) (to_crs B) -> distinct_cols (to_crs A) ->
  amg_rebuild_entry cop (amg_rebuild_entry cop ls A1) A = amg_rebuild_entry cop ls B.
Proof.
  intros H1 H2. unfold amg_rebuild_entry, amg_rebuild. rewrite rebuild_levels_forgets.
  f_equal. apply sort_rows_canonical; assumption.
Qed.

(* cpr / cpr_drs ::partial_update(K, update_transfer_ops): K_ptr = copy; sort_rows( *K_ptr );
   S = SPrecond(K_ptr); if (update_transfer_ops) Fpp = update_transfer(K_ptr) else Fpp stays *)
Definition partial_update_entry {Y Z} (sprecond : crs -> Y) (transfer : crs -> Z) (upd : bool) (old : Z)
           (A : adapter S) : Y * Z :=
  sorting_entry (fun K => (sprecond K, if upd then transfer K else old)) A.

Theorem partial_update_entry_order_independent {Y Z} (sprecond : crs -> Y) (transfer : crs -> Z) upd old
        (A B : adapter S) :
  rows_perm (to_crs A) (to_crs B) -> distinct_cols (to_crs A) ->
  partial_update_entry sprecond transfer upd old A = partial_update_entry sprecond transfer upd old B.
Proof. apply sorting_entry_order_independent. Qed.

(* negative: the non-sorting overload applied to the USER's listing (= amg::rebuild(const Matrix&) after seeded
   change C17-2).  Level 0 keeps the listing as it is, and the smoother is set up on it: for the tridiagonal
   witness of ilu0_scan_order_dependent_refuted the ILU(0) row scan throws on one listing and eliminates
   column 0 on the other, while the sorting entry point gives one hierarchy for both. *)
Lemma rebuild_levels_head cop (l : ldesc) (ls : list ldesc) (A : crs) d :
  ld_A (hd d (rebuild_levels cop (l :: ls) A)) = A.
Proof. destruct l; reflexivity. Qed.

Definition rb_sorted (v : S) : crs := mkCrs 3 [[(0, v); (1, v)]; [(0, v); (1, v); (2, v)]; [(1, v); (2, v)]]%nat.
Definition rb_shuffled (v : S) : crs := mkCrs 3 [[(0, v); (1, v)]; [(2, v); (1, v); (0, v)]; [(1, v); (2, v)]]%nat.

Theorem amg_rebuild_unsorted_listing_refuted cop (v : S) (l0 : ldesc) :
  let ls := [LLast (rb_sorted v)] in
  rows_perm (rb_shuffled v) (rb_sorted v) /\ distinct_cols (rb_shuffled v) /\
  ilu0_scan 1 (nth 1 (rows (ld_A (hd l0 (amg_rebuild_sp cop ls (rb_shuffled v))))) []) = ScanThrow /\
  ilu0_scan 1 (nth 1 (rows (ld_A (hd l0 (amg_rebuild_sp cop ls (rb_sorted v))))) []) = ScanElim [0%nat] /\
  amg_rebuild_entry cop ls (crs_view (rb_shuffled v)) = amg_rebuild_entry cop ls (crs_view (rb_sorted v)).
Proof.
  cbv zeta. split; [|split; [|split; [|split]]].
  - split; [reflexivity|]. simpl. constructor; [apply Permutation_refl|].
    constructor; [|constructor; [apply Permutation_refl|constructor]].
    change (Permutation (rev [(0, v); (1, v); (2, v)]%nat) [(0, v); (1, v); (2, v)]%nat).
    apply Permutation_sym, Permutation_rev.
  - unfold distinct_cols. simpl. repeat constructor; simpl; intuition discriminate.
  - reflexivity.
  - reflexivity.
  - reflexivity.
Qed.

End RebuildEntry.

(* ================================================================ (2) make_block_solver, repaired *)
Section BlockSolverEntrySorted.
Context {S : Scalar}.

(* make_block_solver(const Matrix &A) since a433813: crs<scalar> As(A); sort_rows(As);
   S = make_shared<Solver>(adapter::block_matrix<value_type>(As), ...) *)
Definition block_solver_entry_sorted {Y} (b : nat) (build : gcrs (@Adapters.block S) -> Y) (A : adapter S) : Y :=
  sorting_entry (fun M => block_solver_entry b build (crs_view M)) A.

Lemma block_solver_entry_sorted_unfold {Y} b (build : gcrs (@Adapters.block S) -> Y) (A : adapter S) :
  block_solver_entry_sorted b build A = build (to_gcrs (block_adapter b (crs_view (sort_rows (to_crs A))))).
Proof. reflexivity. Qed.

Lemma block_solver_entry_sorted_is_sorting_entry {Y} b (build : gcrs (@Adapters.block S) -> Y) (A : adapter S) :
  block_solver_entry_sorted b build A = sorting_entry (fun M => build (to_gcrs (block_adapter b (crs_view M)))) A.
Proof. reflexivity. Qed.

Theorem block_solver_entry_sorted_order_independent {Y} b (build : gcrs (@Adapters.block S) -> Y) (A B : adapter S) :
  rows_perm (to_crs A) (to_crs B) -> distinct_cols (to_crs A) ->
  block_solver_entry_sorted b build A = block_solver_entry_sorted b build B.
Proof. apply sorting_entry_order_independent. Qed.

(* the historical witness: both listings now give the block matrix of the sorted listing *)
Theorem block_solver_entry_sorted_witness (a c d : S) :
  block_solver_entry_sorted 2 (fun G => G) (crs_view (bs_shuffled a c d))
    = mkG 2 [[(0, [[a; s0]; [s0; d]]); (1, [[s0; c]; [s0; s0]])]]%nat /\
  block_solver_entry_sorted 2 (fun G => G) (crs_view (bs_sorted a c d))
    = mkG 2 [[(0, [[a; s0]; [s0; d]]); (1, [[s0; c]; [s0; s0]])]]%nat.
Proof. split; reflexivity. Qed.

End BlockSolverEntrySorted.

(* sorting a row with distinct columns gives a STRICTLY sorted row: the precondition of the block adapter's
   theorems (C13) is established by the repaired entry point for every listing *)
Section SortedStrict.
Context {S : Scalar}.

Lemma weak_nodup_strict (r : row S) : sorted_weak r = true -> NoDup (map fst r) -> sorted_strict r = true.
Proof.
  induction r as [|e1 tl IH]; [reflexivity|]. destruct tl as [|e2 tl']; [reflexivity|].
  intros Hw Hn. cbn [sorted_weak] in Hw. apply andb_prop in Hw. destruct Hw as [Hle Hw].
  cbn [sorted_strict]. apply andb_true_intro. split.
  - apply Nat.ltb_lt. apply Nat.leb_le in Hle.
    assert (fst e1 <> fst e2).
    { intro E. inversion Hn as [|x l Hni _]; subst. apply Hni. simpl. left. symmetry. exact E. }
    apply Nat.le_neq. split; assumption.
  - apply IH; [exact Hw|]. inversion Hn; assumption.
Qed.

Theorem sort_rows_strict (A : crs S) :
  distinct_cols A -> Forall (fun r => sorted_strict r = true) (rows (sort_rows A)).
Proof.
  unfold distinct_cols, sort_rows. simpl. intro H. induction H as [|r l Hr _ IH]; simpl; constructor; [|exact IH].
  apply weak_nodup_strict; [apply MatOpsProofs.sort_row_sorted|apply MatOpsProofs.sort_row_nodup; exact Hr].
Qed.

End SortedStrict.

Section BlockSolverOperator.
Context {S : Scalar}.
Hypothesis Srt : Sring S.

(* the block matrix the repaired make_block_solver hands to the inner solver represents the user's matrix:
   entry for entry the dense operator of ANY listing with distinct columns (dimensions divisible by b) *)
Theorem block_solver_entry_sorted_dense (b : nat) (A : adapter S) i j :
  0 < b -> nrows (to_crs A) mod b = 0 -> ncols (to_crs A) mod b = 0 -> distinct_cols (to_crs A) ->
  i < nrows (to_crs A) -> j < ncols (to_crs A) ->
  mget (unblock b (block_solver_entry_sorted b (fun G => G) A)) i j = mget (to_crs A) i j.
Proof.
  intros Hb Hn Hm Hd Hi Hj. rewrite block_solver_entry_sorted_unfold.
  assert (En : nrows (sort_rows (to_crs A)) = nrows (to_crs A)).
  { unfold nrows, sort_rows. simpl. apply map_length. }
  assert (Em : ncols (sort_rows (to_crs A)) = ncols (to_crs A)) by reflexivity.
  rewrite (unblock_block_dense Srt b (sort_rows (to_crs A)) i j).
  - apply (sort_rows_dense Srt).
  - exact Hb.
  - rewrite En. exact Hn.
  - rewrite Em. exact Hm.
  - apply sort_rows_strict; exact Hd.
  - rewrite En. exact Hi.
  - rewrite Em. exact Hj.
Qed.

End BlockSolverOperator.
