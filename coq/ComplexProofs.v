(* ComplexProofs.v -- C13-A4: the complex adapter's 2x2 real expansion acts on interleaved
   vectors as the complex matrix acts on complex vectors (C modelled as pairs over a
   commutative ring); C13-A3: the block wrappers are re-chunking. *)
From Amgcl Require Import Scalar Vec Crs Kernels KernelsProofs MatOps Adapters AdaptersProofs.
Local Open Scope S_scope.

Section Ring.
Context {S : Scalar}.
Local Notation vec := (vec S).
Local Notation row := (row S).
Local Notation cplx := (@cplx S).
Hypothesis Srt : Sring S.
Add Ring SRingC : Srt.

(* [[a,-b],[b,a]] (x,y)^T = (a+bi)(x+yi) *)
Theorem complex_2x2 (a b x y : S) :
  (a * x + (- b) * y, b * x + a * y) = cmul (a, b) (x, y).
Proof. unfold cmul; simpl. f_equal; ring. Qed.

Lemma dotrow_app (l1 l2 : row) (x : vec) : dotrow (l1 ++ l2) x = dotrow l1 x + dotrow l2 x.
Proof.
  induction l1 as [|e l1 IH]; simpl app.
  - unfold dotrow at 2; simpl. ring.
  - rewrite !(dotrow_cons Srt), IH. ring.
Qed.

Lemma dotrow_two (e1 e2 : nat * S) (x : vec) :
  dotrow [e1; e2] x = snd e1 * vget x (fst e1) + snd e2 * vget x (fst e2).
Proof. rewrite !(dotrow_cons Srt). unfold dotrow; simpl. ring. Qed.

Lemma interleave_get (z : list cplx) c :
  vget (interleave z) (c * 2) = fst (nth c z c0) /\ vget (interleave z) (c * 2 + 1) = snd (nth c z c0).
Proof.
  revert c; induction z as [|w z IH]; intro c.
  - unfold vget; simpl. destruct c; simpl; [split; reflexivity|]. destruct (c * 2 + 1)%nat; split; reflexivity.
  - destruct c as [|c]; [split; reflexivity|].
    destruct (IH c) as [I1 I2]. unfold vget in *. simpl. split; assumption.
Qed.

Lemma cdot_acc (r : grow cplx) (z : list cplx) acc :
  fold_left (fun acc e => cadd acc (cmul (snd e) (nth (fst e) z c0))) r acc =
  (fst acc + fst (cdotrow r z), snd acc + snd (cdotrow r z)).
Proof.
  unfold cdotrow. revert acc; induction r as [|e r IH]; intro acc; simpl.
  - destruct acc; simpl. f_equal; ring.
  - rewrite IH. rewrite (IH (cadd c0 _)). unfold cadd, c0; simpl. f_equal; ring.
Qed.

Lemma cdot_cons e (r : grow cplx) (z : list cplx) :
  cdotrow (e :: r) z = cadd (cmul (snd e) (nth (fst e) z c0)) (cdotrow r z).
Proof.
  unfold cdotrow at 1. simpl. rewrite cdot_acc. unfold cadd, c0; simpl. f_equal; ring.
Qed.

(* one complex row of the adapter = the real and imaginary rows of the expansion *)
Theorem complex_row_action (A : adapter cplx) (z : list cplx) i :
  dotrow (a_row (complex_adapter A) (2 * i)) (interleave z) = fst (cdotrow (a_row A i) z) /\
  dotrow (a_row (complex_adapter A) (2 * i + 1)) (interleave z) = snd (cdotrow (a_row A i) z).
Proof.
  unfold complex_adapter. cbn [a_row].
  assert (E0 : Nat.even (2 * i) = true) by (rewrite Nat.even_mul; reflexivity).
  assert (E1 : Nat.even (2 * i + 1) = false).
  { rewrite Nat.add_1_r, Nat.even_succ, <- Nat.negb_even, E0. reflexivity. }
  assert (D0 : (2 * i / 2 = i)%nat) by (rewrite Nat.mul_comm; apply Nat.div_mul; discriminate).
  assert (D1 : ((2 * i + 1) / 2 = i)%nat).
  { rewrite Nat.mul_comm, Nat.add_comm. rewrite Nat.div_add by discriminate. reflexivity. }
  rewrite E0, E1, D0, D1.
  induction (a_row A i) as [|e r [IH1 IH2]].
  - split; reflexivity.
  - simpl flat_map. rewrite cdot_cons.
    change (?a :: ?b :: ?l) with ([a; b] ++ l).
    rewrite !dotrow_app, IH1, IH2.
    destruct (interleave_get z (fst e)) as [G1 G2].
    rewrite !dotrow_two. cbn [fst snd]. unfold Adapters.cplx in *. rewrite G1, G2.
    unfold cadd, cmul; simpl. split; ring.
Qed.

End Ring.

(* C13-A3: wrappers apply the inner object to the re-chunked vectors (any S) *)
Section Wrappers.
Context {S : Scalar}.

Theorem block_solver_is_rechunking b (inner : list (@bvec S) -> list bvec -> list bvec) rhs x :
  block_solver_apply b inner rhs x = of_blocks (inner (to_blocks b rhs) (to_blocks b x)).
Proof. reflexivity. Qed.

Theorem as_block_is_rechunking b inner (A : adapter S) rhs x :
  as_block_apply b inner A rhs x
  = of_blocks (inner (to_gcrs (block_adapter b A)) (to_blocks b rhs) (to_blocks b x)).
Proof. reflexivity. Qed.

Lemma chunk_concat b (x : vec S) fuel : 0 < b -> length x <= fuel -> concat (chunk fuel b x) = x.
Proof.
  intros Hb. revert x; induction fuel as [|k IH]; intros x Hl; simpl.
  - destruct x; [reflexivity|simpl in Hl; lia].
  - destruct x as [|a x]; [reflexivity|]. simpl concat.
    rewrite IH.
    + apply firstn_skipn.
    + rewrite skipn_length. cbn [length] in *. lia.
Qed.

(* re-chunking loses nothing: of_blocks (to_blocks x) = x *)
Theorem rechunk_roundtrip b (x : vec S) : 0 < b -> of_blocks (to_blocks b x) = x.
Proof. intro Hb. unfold of_blocks, to_blocks. apply chunk_concat; [exact Hb|lia]. Qed.

End Wrappers.
