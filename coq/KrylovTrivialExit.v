(* KrylovTrivialExit.v -- the trivial-solution exit of the common prologue of all eight solvers
   (cg.hpp:161-169 and the same lines in bicgstab, bicgstabl, gmres, fgmres, lgmres, idrs, richardson):

       scalar_type norm_rhs = norm(rhs);
       if (norm_rhs < amgcl::detail::eps<scalar_type>(1)) {
           if (prm.ns_search) norm_rhs = 1; else { clear(x); return (0, norm_rhs); } }

   amgcl::detail::eps<T>(n) = 2 * epsilon * n; the prologue calls it with the CONSTANT 1, so the
   threshold is 2 * epsilon whatever the number of unknowns is.  The lemmas below pin this for the
   model: the exit is taken iff ||f|| < eps1 (= 2 * seps) and ns_search is off -- the statement does
   not mention the length of f --, all eight solver models take their trivial exit exactly through
   [k_prologue], and a right-hand side in the window 2 eps <= ||f|| < 2 eps n is iterated on. *)
From Amgcl Require Import Scalar QcInst Vec Kernels Krylov KrylovIdrs.
From Coq Require Import QArith Qcanon.
Local Close Scope Qc_scope.
Local Close Scope Q_scope.
Local Open Scope S_scope.

Section TrivialExit.
Context {S : Scalar}.
Local Notation vec := (vec S).

Lemma prologue_trivial_iff (nrm : vec -> S) (prm : kprm) (f : vec) (nr : S) :
  k_prologue nrm prm f = Trivial nr <->
  (sltb (nrm f) eps1 = true /\ p_ns prm = false /\ nr = nrm f).
Proof.
  unfold k_prologue.
  destruct (sltb (nrm f) eps1) eqn:E; destruct (p_ns prm) eqn:N; split; intro H;
    try discriminate H;
    try (destruct H as (H1 & H2 & H3); try discriminate H1; try discriminate H2).
  - injection H as H. repeat split. symmetry; exact H.
  - subst nr. reflexivity.
Qed.

(* not below the threshold: the solver goes on with norm_rhs = ||f||, whatever ns_search says *)
Lemma prologue_go (nrm : vec -> S) (prm : kprm) (f : vec) :
  sltb (nrm f) eps1 = false -> k_prologue nrm prm f = Go (nrm f).
Proof. unfold k_prologue. intros ->. reflexivity. Qed.

Lemma prologue_go_iff (nrm : vec -> S) (prm : kprm) (f : vec) (nr : S) :
  k_prologue nrm prm f = Go nr <->
  ((sltb (nrm f) eps1 = false /\ nr = nrm f) \/ (sltb (nrm f) eps1 = true /\ p_ns prm = true /\ nr = s1)).
Proof.
  unfold k_prologue.
  destruct (sltb (nrm f) eps1) eqn:E; destruct (p_ns prm) eqn:N; split; intro H.
  - injection H as H. right. repeat split. symmetry; exact H.
  - destruct H as [(H & _) | (_ & _ & H)]; [discriminate H | subst nr; reflexivity].
  - discriminate H.
  - destruct H as [(H & _) | (_ & H & _)]; discriminate H.
  - injection H as H. left. split; [reflexivity | symmetry; exact H].
  - destruct H as [(_ & H) | (H & _)]; [subst nr; reflexivity | discriminate H].
  - injection H as H. left. split; [reflexivity | symmetry; exact H].
  - destruct H as [(_ & H) | (H & _)]; [subst nr; reflexivity | discriminate H].
Qed.

(* all eight solvers reach their trivial-solution exit through k_prologue, and only through it:
   the result is (0, ||f||, x := 0) with the workspace untouched (lgmres: after the always_reset clear) *)
Lemma solvers_trivial_exit (A P : vec -> vec) (prm : kprm) (f x0 : vec) :
  (forall nr junk, k_prologue norm_a prm f = Trivial nr -> cg A P prm f x0 junk = (k_trivial nr x0, junk)) /\
  (forall nr junk, k_prologue norm_a prm f = Trivial nr -> richardson A P prm f x0 junk = (k_trivial nr x0, junk)) /\
  (forall nr junk, k_prologue norm_a prm f = Trivial nr -> bicgstab A P prm f x0 junk = (k_trivial nr x0, junk)) /\
  (forall nr junk, k_prologue norm_b prm f = Trivial nr -> gmres A P prm f x0 junk = (k_trivial nr x0, junk)) /\
  (forall nr junk, k_prologue norm_b prm f = Trivial nr -> fgmres A P prm f x0 junk = (k_trivial nr x0, junk)) /\
  (forall nr st, k_prologue norm_b prm f = Trivial nr ->
                 lgmres A P prm f x0 st =
                 (k_trivial nr x0, if p_areset prm then mkLgWs (l_g st) (l_data st) cb_clear else st)) /\
  (forall nr junk, k_prologue norm_a prm f = Trivial nr -> bicgstabl A P prm f x0 junk = (k_trivial nr x0, junk)) /\
  (forall nr Sh ip junk, ip_k ip = prm -> k_prologue norm_b prm f = Trivial nr ->
                 idrs A P Sh ip f x0 junk = (k_trivial nr x0, junk)).
Proof.
  repeat split; intros.
  - unfold cg. rewrite H. reflexivity.
  - unfold richardson. rewrite H. reflexivity.
  - unfold bicgstab. rewrite H. reflexivity.
  - unfold gmres. rewrite H. reflexivity.
  - unfold fgmres. rewrite H. reflexivity.
  - unfold lgmres. rewrite H. reflexivity.
  - unfold bicgstabl. rewrite H. reflexivity.
  - unfold idrs. rewrite H. rewrite H0. reflexivity.
Qed.

(* the statement asked for: the model takes the trivial exit iff ||f|| < eps1 and ns_search is off;
   nothing in it depends on the number of unknowns *)
Definition takes_trivial_exit (nrm : vec -> S) (prm : kprm) (f : vec) : Prop :=
  exists nr, k_prologue nrm prm f = Trivial nr.

Lemma trivial_exit_only_below_eps1 (nrm : vec -> S) (prm : kprm) (f : vec) :
  takes_trivial_exit nrm prm f <-> (sltb (nrm f) eps1 = true /\ p_ns prm = false).
Proof.
  split.
  - intros (nr & H). apply prologue_trivial_iff in H. tauto.
  - intros (H1 & H2). exists (nrm f). apply prologue_trivial_iff. tauto.
Qed.

(* two right-hand sides of DIFFERENT lengths with the same norm are treated alike *)
Lemma trivial_exit_independent_of_n (nrm : vec -> S) (prm : kprm) (f g : vec) :
  nrm f = nrm g -> (takes_trivial_exit nrm prm f <-> takes_trivial_exit nrm prm g).
Proof. intro E. rewrite !trivial_exit_only_below_eps1, E. tauto. Qed.

(* eps1 is 2 * epsilon as soon as the value type converts the literals 1 and 2 faithfully *)
Section Ring.
Hypothesis Srt : Sring S.
Add Ring SringTE : Srt.
Hypothesis sofQ_1 : @sofQ S (1 # 1)%Q = s1.
Hypothesis sofQ_2 : @sofQ S (2 # 1)%Q = s1 + s1.
Lemma eps1_is_two_eps : @eps1 S = (s1 + s1) * seps.
Proof. unfold eps1. rewrite sofQ_1, sofQ_2. ring. Qed.
End Ring.
End TrivialExit.

(* ---- closed at the rationals: epsilon = 2^-52, eps1 = 2^-51 ---- *)
Lemma eps1_Qc : @eps1 QcS = qc 1 (2 ^ 51) /\ @eps1 QcS = (qc 2 1 * @seps QcS)%Qc.
Proof. split; apply Qc_is_canon; vm_compute; reflexivity. Qed.

Lemma sltb_Qc (a b : QcS) : @sltb QcS a b = true <-> (a < b)%Qc.
Proof.
  change (@sltb QcS a b) with (qc_ltb a b). unfold qc_ltb. rewrite Z.ltb_lt. reflexivity.
Qed.

Lemma trivial_exit_only_below_two_eps_Qc (nrm : vec QcS -> QcS) (prm : @kprm QcS) (f : vec QcS) :
  takes_trivial_exit nrm prm f <-> ((nrm f < qc 2 1 * @seps QcS)%Qc /\ p_ns prm = false).
Proof.
  rewrite trivial_exit_only_below_eps1.
  destruct eps1_Qc as (_ & E). rewrite E. rewrite sltb_Qc. tauto.
Qed.

(* a right-hand side in the window 2 eps <= ||f|| < 2 eps n (n = 40, f = 2^-50 e_0, ||f|| = 2^-50,
   2 eps = 2^-51, 2 eps n = 40 / 2^51): no trivial exit, CG iterates, and what it returns is the
   true relative residual of the returned x (here: A = P = identity, one step reaches x = f) *)
Definition te_idop : vec QcS -> vec QcS := fun v => v.
Definition te_prm (maxiter : nat) : @kprm QcS :=
  mkPrm maxiter (qc 1 1024) (qc 0 1) false false 2 false (qc 1 1) 0 true 2 (qc 0 1) true.
Definition te_f40 : vec QcS := qc 1 (2 ^ 50) :: repeat (qc 0 1) 39.
Definition te_x40 : vec QcS := repeat (qc 1 1) 40.

Lemma window_rhs_iterates :
  length te_f40 = 40 /\
  (qc 2 1 * @seps QcS <= norm_a te_f40)%Qc /\ (norm_a te_f40 < qc 2 1 * @seps QcS * qc 40 1)%Qc /\
  ~ takes_trivial_exit norm_a (te_prm 3) te_f40 /\
  match cg te_idop te_idop (te_prm 3) te_f40 te_x40 (mkCgWs [] [] [] []) with
  | (KOk r, _) => k_it r = 1 /\ map this (k_x r) = map this te_f40 /\ k_res r = qc 0 1
  | _ => False
  end.
Proof.
  split; [reflexivity|]. split; [vm_compute; discriminate|]. split; [vm_compute; reflexivity|].
  split.
  - intros (nr & H). vm_compute in H. discriminate H.
  - vm_compute. repeat split; reflexivity.
Qed.
