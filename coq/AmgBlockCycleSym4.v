(* AmgBlockCycleSym4.v -- C02 for block value types, direct coarse solve (WZ6): the symmetric-cycle theorem of
   AmgBlockCycleSym2.v RELATIVE TO A SUBSPACE of vectors.  Over a non-commutative ring S with an involutive
   anti-automorphism, fix e : S and call a vector column shaped when every entry satisfies  x_i * e = x_i  (at
   static_matrix<T,b,b>, e = the matrix unit E_00: the columns 1..b-1 of every entry are zero -- the embedded
   static_matrix<T,b,1> values, the only vectors the C++ can represent).  Every operator of the cycle is right-linear
   (AmgBlockCycleLin.v), hence preserves the subspace; the coarse solver has to be hermitian ON THE SUBSPACE only
   (solve_symHP) and to preserve it (solve_P).  Result: apply_herm_fullP / built_apply_herm_fullP -- the
   preconditioner is hermitian with respect to the block form ipH on column-shaped f, g, for npre = npost, any ncycle,
   pre_cycles >= 1.  The hypotheses on smoothers (consistent, adjoint pairs) are the unrestricted ones of
   AmgBlockCycleSym2.v, so every smoother instance proved there is re-used unchanged. *)
From Amgcl Require Import Scalar Vec Crs Kernels KernelsProofs MatOps MatOpsProofs Relax DenseSolve
  Amg AmgExec AmgProofs AmgProofs2 AmgProofs3 AmgProofs4 AmgProofs6 AmgProofs7 NcRing NcKernels AmgBlockNc AmgBlockCycle
  AmgBlockCycleProofs AmgBlockCycleLin AmgBlockCycleSym AmgBlockCycleSym2 AmgBlockCycleSym2Gs AmgBlockCycleSym2Built.
Local Open Scope S_scope.

Section ColNc.
Context {S : Scalar}.
Local Notation vec := (vec S).
Local Notation crs := (crs S).
Local Notation level := (@level S).
Local Notation scratch := (@scratch S).
Local Notation sweep := (@sweep S).
Local Notation ldesc := (@ldesc S).
Hypothesis Hnc : ncring_theory S.
Hypothesis Seqb : seqb_spec S.
Local Instance ncsy9 : NcRingInst S := ncring_inst Hnc.
Hypothesis adj_add : forall a b : S, sadj (a + b) = sadj a + sadj b.
Hypothesis adj_mul : forall a b : S, sadj (a * b) = sadj b * sadj a.
Hypothesis adj_inv : forall a : S, sadj (sadj a) = a.

Variable e : S.

(* the subspace: x = x e entrywise (entries beyond the length read as 0 = 0 e) *)
Definition Pv (v : vec) : Prop := forall i, vget v i * e = vget v i.

Local Notation vaddg := (AmgBlockCycleSym.vadd_get Hnc).

Lemma vget_over (v : vec) i : length v <= i -> vget v i = s0.
Proof. intro H. unfold vget. apply nth_overflow. exact H. Qed.

Lemma Pv_intro (v : vec) n : length v = n -> (forall i, i < n -> vget v i * e = vget v i) -> Pv v.
Proof.
  intros L H i. destruct (Nat.lt_ge_cases i n) as [Hi|Hi]; [apply H, Hi|].
  rewrite vget_over by lia. ncr.
Qed.

Lemma Pv_vzero n : Pv (vzero n).
Proof. intro i. rewrite nc_vget_vzero. ncr. Qed.

Lemma Pv_vadd (x y : vec) : length x = length y -> Pv x -> Pv y -> Pv (vadd x y).
Proof.
  intros L Px Py i. rewrite vaddg by exact L.
  transitivity (vget x i * e + vget y i * e); [ncr|]. rewrite Px, Py. reflexivity.
Qed.

Lemma Ax_Pv (A : crs) (x : vec) i : Pv x -> Ax A x i * e = Ax A x i.
Proof.
  intro Px. unfold Ax. rewrite <- (ncsumn_scal_r Hnc). apply sumn_ext. intros j _.
  transitivity (mget A i j * (vget x j * e)); [ncr|]. rewrite Px. reflexivity.
Qed.

(* --- smoothers: preservation of the subspace --- *)
Definition sweep_P (n : nat) (sw : sweep) : Prop :=
  forall f x t, length f = n -> length x = n -> length t = n -> Pv f -> Pv x -> Pv (fst (sw f x t)).

(* a right-linear sweep preserves the subspace *)
Lemma sweep_rlin_P n (sw : sweep) : sweep_ok n sw -> sweep_rlin (fun _ => True) n sw -> sweep_P n sw.
Proof.
  intros Hok H f x t Lf Lx Lt Pf Px.
  assert (Ef : f = vrlin f e f s0).
  { apply (vrlin_intro Hnc e s0 f f f n Lf Lf Lf). intros i _. rewrite Pf. ncr. }
  assert (Ex : x = vrlin x e x s0).
  { apply (vrlin_intro Hnc e s0 x x x n Lx Lx Lx). intros i _. rewrite Px. ncr. }
  pose proof (H e s0 f f x x t t t I I Lf Lf Lx Lx Lt Lt Lt) as E1.
  rewrite <- Ef, <- Ex in E1.
  destruct (Hok f x t Lf Lx Lt) as (Lu & _ & _).
  apply (Pv_intro _ n Lu). intros i Hi.
  rewrite E1 at 2. rewrite (vrlin_get Hnc) by reflexivity. ncr.
Qed.

Section Iterations.
Set Default Proof Using "All".
Variable n : nat.
Variable A : crs.
Hypothesis WA : wf A = true.
Hypothesis NA : nrows A = n.
Hypothesis HA : herm_mat n A.

Local Notation res := (res n A).
Local Notation z := (z n).
Local Notation it_len := (it_len n).
Local Notation it_cons := (it_cons n A).
Local Notation resH_length := (resH_length n A NA HA).
Local Notation resH_get := (resH_get Hnc n A WA NA HA).

Lemma Pv_res (f x : vec) : length f = n -> Pv f -> Pv x -> Pv (res f x).
Proof.
  intros Lf Pf Px. apply (Pv_intro _ n); [apply resH_length; exact Lf|].
  intros i Hi. rewrite resH_get by assumption.
  transitivity (vget f i * e - Ax A x i * e); [ncr|]. rewrite Pf, (Ax_Pv A x i Px). reflexivity.
Qed.

Lemma Pz : Pv z.
Proof. apply Pv_vzero. Qed.

Definition it_P (Phi : iteration) : Prop :=
  forall f x, length f = n -> length x = n -> Pv f -> Pv x -> Pv (Phi f x).

Definition it_dualP (Psi Phi : iteration) : Prop :=
  forall f x g, length f = n -> length x = n -> length g = n -> Pv f -> Pv x -> Pv g ->
    ipH n (Psi f x) g = ipH n f (Phi g z) + ipH n x (res g (Phi g z)).

Lemma dualH_P Psi Phi : it_dualH n A Psi Phi -> it_dualP Psi Phi.
Proof. intros H f x g Lf Lx Lg _ _ _. apply H; assumption. Qed.

Lemma comp_P Phi2 Phi1 : it_len Phi1 -> it_P Phi2 -> it_P Phi1 -> it_P (comp Phi2 Phi1).
Proof. intros L1 H2 H1 f x Lf Lx Pf Px. unfold comp. apply H2; auto. Qed.

Lemma id_P : it_P (fun _ x => x).
Proof. intros f x _ _ _ Px. exact Px. Qed.

Lemma itpow_P k Phi : it_len Phi -> it_P Phi -> it_P (itpow k Phi).
Proof.
  intros HL HP. unfold itpow. induction k as [|k IH]; intros f x Lf Lx Pf Px; simpl; [exact Px|].
  apply IH; [exact Lf|apply HL; assumption|exact Pf|apply HP; assumption].
Qed.

(* the dual of "Psi1 then Psi2" is "Phi2 then Phi1", on the subspace *)
Lemma comp_dualP Psi1 Psi2 Phi1 Phi2 :
  it_len Psi1 -> it_len Phi1 -> it_len Phi2 -> it_cons Phi1 -> it_P Psi1 -> it_P Phi2 ->
  it_dualP Psi1 Phi1 -> it_dualP Psi2 Phi2 ->
  it_dualP (comp Psi2 Psi1) (comp Phi1 Phi2).
Proof.
  intros LP1 L1 L2 C1 PP1 PF2 D1 D2 f x g Lf Lx Lg Pf Px Pg. unfold comp.
  assert (Lw : length (Phi2 g z) = n) by (apply L2; auto using Lz).
  assert (Pw : Pv (Phi2 g z)) by (apply PF2; auto using Lz, Pz).
  assert (Lg' : length (res g (Phi2 g z)) = n) by (apply resH_length; exact Lg).
  assert (Pg' : Pv (res g (Phi2 g z))) by (apply Pv_res; assumption).
  set (g' := res g (Phi2 g z)) in *.
  assert (Lv : length (Phi1 g' z) = n) by (apply L1; auto using Lz).
  rewrite (D2 f (Psi1 f x) g Lf (LP1 f x Lf Lx) Lg Pf (PP1 f x Lf Lx Pf Px) Pg). fold g'.
  rewrite (D1 f x g' Lf Lx Lg' Pf Px Pg').
  rewrite (C1 g (Phi2 g z) Lg Lw). fold g'.
  change (vlin s1 (Phi2 g z) s1 (Phi1 g' z)) with (vadd (Phi2 g z) (Phi1 g' z)).
  rewrite (ipH_vadd_r Hnc n f (Phi2 g z) (Phi1 g' z) Lw Lv).
  rewrite (resH_add Hnc n A WA NA HA g (Phi2 g z) (Phi1 g' z) Lg Lw Lv). fold g'. ncr.
Qed.

Lemma id_dualP : it_dualP (fun _ x => x) (fun _ x => x).
Proof. apply dualH_P. apply (id_dualH Hnc n A WA NA HA). Qed.

Lemma itpow_dualP k Psi Phi : it_len Psi -> it_len Phi -> it_cons Phi -> it_P Psi -> it_P Phi ->
  it_dualP Psi Phi -> it_dualP (itpow k Psi) (itpow k Phi).
Proof.
  intros LP LF HC PP PF HD. induction k as [|k IH].
  - exact id_dualP.
  - intros f x g Lf Lx Lg Pf Px Pg.
    assert (E : forall h y, itpow (Datatypes.S k) Phi h y = comp Phi (itpow k Phi) h y).
    { intros h y. unfold itpow, comp. simpl. apply iter_comm. }
    change (itpow (Datatypes.S k) Psi f x) with (comp (itpow k Psi) Psi f x).
    rewrite !E.
    apply (comp_dualP Psi (itpow k Psi) Phi (itpow k Phi)); auto using itpow_len, itpow_P.
Qed.

Lemma dual_hermP Phi : it_dualP Phi Phi -> forall f g, length f = n -> length g = n -> Pv f -> Pv g ->
  ipH n (Phi f z) g = ipH n f (Phi g z).
Proof.
  intros HD f g Lf Lg Pf Pg. rewrite (HD f z g Lf (Lz n) Lg Pf Pz Pg), (ipH_zero_l Hnc adj_add n). ncr.
Qed.

Lemma it_dualP_ext Phi Psi : (forall f x, length f = n -> length x = n -> Psi f x = Phi f x) ->
  it_dualP Phi Phi -> it_dualP Psi Psi.
Proof. intros E H f x g Lf Lx Lg Pf Px Pg. rewrite (E f x Lf Lx), (E g z Lg (Lz n)). apply H; assumption. Qed.

Lemma it_P_ext Phi Psi : (forall f x, length f = n -> length x = n -> Psi f x = Phi f x) -> it_P Phi -> it_P Psi.
Proof. intros E H f x Lf Lx Pf Px. rewrite (E f x Lf Lx). apply H; assumption. Qed.

(* --- smoothers --- *)
Lemma sm_P (sw : sweep) : sweep_P n sw -> it_P (sm n sw).
Proof. intros H f x Lf Lx Pf Px. apply H; auto using Lz. Qed.

(* --- the coarse-grid correction --- *)
Section Cgc.
Variable n' : nat.
Variables R P : crs.
Variable Bc : vec -> vec.
Hypothesis WR : wf R = true.
Hypothesis WP : wf P = true.
Hypothesis NR : nrows R = n'.
Hypothesis NP : nrows P = n.
Hypothesis HT : transpH n n' R P.
Hypothesis Bc_len : forall h, length h = n' -> length (Bc h) = n'.
Hypothesis Bc_P : forall h, length h = n' -> Pv h -> Pv (Bc h).
Hypothesis Bc_herm : forall a b, length a = n' -> length b = n' -> Pv a -> Pv b -> ipH n' (Bc a) b = ipH n' a (Bc b).

Local Notation restr := (restr n' R).
Local Notation cgc := (cgc n A n' R P Bc).
Local Notation cgc_getH := (cgc_getH Hnc Seqb n A n' R P Bc WP NP).
Local Notation restr_get := (restr_get Hnc Seqb n' R WR NR).

Lemma restr_P (t : vec) : Pv t -> Pv (restr t).
Proof.
  intro Pt. apply (Pv_intro _ n'); [apply restr_length|].
  intros i Hi. rewrite restr_get by exact Hi. apply Ax_Pv, Pt.
Qed.

Lemma cgc_P : it_P cgc.
Proof.
  intros f x Lf Lx Pf Px.
  apply (Pv_intro _ n); [apply (cgc_len n A n' R P Bc); assumption|].
  intros i Hi. rewrite cgc_getH by assumption.
  transitivity (Ax P (Bc (restr (res f x))) i * e + vget x i * e); [ncr|].
  rewrite Px, Ax_Pv; [reflexivity|].
  apply Bc_P; [apply restr_length|]. apply restr_P, Pv_res; assumption.
Qed.

Lemma cgc_dualP : it_dualP cgc cgc.
Proof.
  intros f x g Lf Lx Lg Pf Px Pg. destruct HT as (HcR & HcP & Htr).
  pose proof (cgc_len n A n' R P Bc) as CL.
  assert (Lrf : length (res f x) = n) by (apply resH_length; exact Lf).
  assert (Lrs : forall h, length (restr h) = n') by (intro h; apply restr_length).
  set (uf := Bc (restr (res f x))). set (ug := Bc (restr g)).
  assert (Ecg : forall i, i < n -> vget (cgc g z) i = Ax P ug i).
  { intros i Hi. rewrite cgc_getH by (auto using Lz). rewrite (resH_zero Hnc n A WA NA HA g Lg). fold ug.
    unfold AmgProofs7.z. rewrite nc_vget_vzero. ncr. }
  assert (Lcg : length (cgc g z) = n) by (apply CL; auto using Lz).
  rewrite (ipH_add_l Hnc adj_add n (map (fun r => dotrow r uf) (rows P)) x (cgc f x) g).
  2:{ intros i Hi. rewrite cgc_getH by assumption. fold uf.
      rewrite (nc_dotrows_get Hnc) by (auto; congruence). reflexivity. }
  rewrite (ipH_Ax_l n P uf (map (fun r => dotrow r uf) (rows P)))
    by (intros i Hi; apply (nc_dotrows_get Hnc); auto; congruence).
  rewrite (qL_adj Hnc adj_add adj_mul P R n n' uf g HcP HcR) by (intros i j Hi Hj; apply Htr; assumption).
  rewrite <- (ipH_Ax_r n' R g (restr g) uf) by (intros j Hj; apply restr_get; exact Hj).
  unfold uf. rewrite (Bc_herm (restr (res f x)) (restr g) (Lrs _) (Lrs _)
                        (restr_P _ (Pv_res f x Lf Pf Px)) (restr_P _ Pg)). fold ug.
  rewrite (ipH_Ax_l n' R (res f x) (restr (res f x)) ug) by (intros j Hj; apply restr_get; exact Hj).
  rewrite (qL_adj Hnc adj_add adj_mul R P n' n (res f x) ug HcR HcP).
  2:{ intros i j Hi Hj. rewrite (Htr i j Hi Hj), adj_inv. reflexivity. }
  rewrite <- (ipH_Ax_r n P ug (cgc g z) (res f x)) by exact Ecg.
  rewrite (ipH_res_l Hnc adj_add n A WA NA HA f x (cgc g z) Lf).
  rewrite (ipH_res_r Hnc n A WA NA HA x g (cgc g z) Lg).
  rewrite (qLR Hnc adj_add adj_mul n A HA x (cgc g z)). ncr.
Qed.

End Cgc.
End Iterations.
Unset Default Proof Using.

(* ------------------------------------------------------------------ *)
(* hierarchies: as hier_herm /\ hier_hermk of AmgBlockCycleSym[2].v, plus preservation of the subspace by the sweeps; the
   solver of the coarsest level is hermitian on the subspace and preserves it *)
Definition solve_symHP (n : nat) (sv : vec -> vec -> vec) : Prop :=
  forall f g x y, length f = n -> length g = n -> length x = n -> length y = n -> Pv f -> Pv g ->
    ipH n (sv f x) g = ipH n f (sv g y).
Definition solve_P (n : nat) (sv : vec -> vec -> vec) : Prop :=
  forall f x, length f = n -> length x = n -> Pv f -> Pv x -> Pv (sv f x).

Fixpoint hier_hermP (lvls : list level) : Prop :=
  match lvls with
  | [] => True
  | l :: rest =>
    let n := nrows (lA l) in
    sweep_ok n (lpre l) /\ sweep_ok n (lpost l) /\
    wf (lA l) = true /\ herm_mat n (lA l) /\
    sweep_consH n (lA l) (lpre l) /\ sweep_consH n (lA l) (lpost l) /\ sweep_adjH n (lpre l) (lpost l) /\
    sweep_P n (lpre l) /\ sweep_P n (lpost l) /\
    match rest with
    | [] => forall sv, Amg.lsolve l = Some sv -> solve_ok n sv /\ solve_symHP n sv /\ solve_P n sv
    | nxt :: _ => wf (lR l) = true /\ wf (lP l) = true /\
                  nrows (lR l) = nrows (lA nxt) /\ nrows (lP l) = n /\
                  transpH n (nrows (lA nxt)) (lR l) (lP l)
    end /\ hier_hermP rest
  end.

Lemma hier_hermP_wf lvls : hier_hermP lvls -> hier_wf lvls.
Proof.
  induction lvls as [|l rest IH]; intro H; [exact I|].
  cbn [hier_hermP] in H. destruct H as (H1 & H2 & _ & _ & _ & _ & _ & _ & _ & Hm & Hr).
  cbn [hier_wf]. split; [exact H1|]. split; [exact H2|]. split; [|apply IH, Hr].
  destruct rest as [|nxt rest']; [intros sv E; apply (Hm sv E)|apply Hm].
Qed.

Section CycleIt.
Variables k nc : nat.
Local Notation Cyc := (Cyc k nc).

Definition selfdualP (lvls : list level) : Prop :=
  match lvls with
  | l :: _ => it_cons (nrows (lA l)) (lA l) (Cyc lvls) /\ it_dualP (nrows (lA l)) (lA l) (Cyc lvls) (Cyc lvls)
  | [] => True
  end.

Theorem Cyc_hermNP (lvls : list level) : hier_hermP lvls -> lvls <> [] ->
  it_P (top_n lvls) (Cyc lvls) /\
  (forall f g, length f = top_n lvls -> length g = top_n lvls -> Pv f -> Pv g ->
     ipH (top_n lvls) (Cyc lvls f (vzero (top_n lvls))) g = ipH (top_n lvls) f (Cyc lvls g (vzero (top_n lvls)))) /\
  (nosolve_top lvls -> selfdualP lvls).
Proof.
  induction lvls as [|l rest IH]; intros Hh Hne; [congruence|]. clear Hne.
  pose proof (hier_hermP_wf _ Hh) as Hwf.
  cbn [hier_hermP] in Hh.
  destruct Hh as (Hpre & Hpost & WA & HsA & Hcpre & Hcpost & Hadj & HPpre & HPpost & Hmid & Hrest).
  cbn [top_n]. set (n := nrows (lA l)) in *.
  assert (NA : nrows (lA l) = n) by reflexivity.
  pose proof (sweep_adjH_swap Hnc adj_add adj_mul adj_inv n (lpre l) (lpost l) Hadj) as Hadj'.
  pose proof (sm_len n _ Hpre) as Lpre. pose proof (sm_len n _ Hpost) as Lpost.
  pose proof (itpow_len n k _ Lpre) as LPpre. pose proof (itpow_len n k _ Lpost) as LPpost.
  pose proof (itpow_P n (lA l) WA NA HsA k _ Lpre (sm_P n (lA l) WA NA HsA _ HPpre)) as PPpre.
  pose proof (itpow_P n (lA l) WA NA HsA k _ Lpost (sm_P n (lA l) WA NA HsA _ HPpost)) as PPpost.
  pose proof (itpow_consH Hnc n (lA l) WA NA HsA k _ Lpre (sm_consH n (lA l) _ Hcpre)) as CPpre.
  pose proof (itpow_consH Hnc n (lA l) WA NA HsA k _ Lpost (sm_consH n (lA l) _ Hcpost)) as CPpost.
  pose proof (dualH_P n (lA l) WA NA HsA _ _
                (itpow_dualH Hnc n (lA l) WA NA HsA k _ _ Lpost Lpre (sm_consH n (lA l) _ Hcpre)
                   (sm_dualH Hnc adj_add adj_mul adj_inv n (lA l) WA NA HsA _ _ Hpre Hpost Hcpost Hadj))) as Dpost.
  pose proof (dualH_P n (lA l) WA NA HsA _ _
                (itpow_dualH Hnc n (lA l) WA NA HsA k _ _ Lpre Lpost (sm_consH n (lA l) _ Hcpost)
                   (sm_dualH Hnc adj_add adj_mul adj_inv n (lA l) WA NA HsA _ _ Hpost Hpre Hcpre Hadj'))) as Dpre.
  destruct rest as [|nxt rest'].
  - (* coarsest level *)
    assert (Ec : forall f x, length f = n -> length x = n -> Cyc [l] f x =
              match lsolve l with
              | Some sv => sv f x
              | None => comp (itpow k (sm n (lpost l))) (itpow k (sm n (lpre l))) f x end).
    { intros f x Lf Lx. unfold AmgProofs7.Cyc. apply (cyc_last_eq k nc l Hwf); auto. apply (zscr_wf [l]). }
    destruct (lsolve l) as [sv|] eqn:El.
    + destruct (Hmid sv eq_refl) as (Hok & Hsy & HsP).
      split; [|split; [|intro Hn; simpl in Hn; congruence]].
      * apply (it_P_ext n (lA l) WA NA HsA (fun f x => sv f x)); [exact Ec|]. intros f x Lf Lx Pf Px. apply HsP; assumption.
      * intros f g Lf Lg Pf Pg. rewrite !Ec by (auto using vzero_length).
        apply Hsy; auto using vzero_length.
    + assert (SD : it_dualP n (lA l) (Cyc [l]) (Cyc [l])).
      { apply (it_dualP_ext n (lA l) WA NA HsA (comp (itpow k (sm n (lpost l))) (itpow k (sm n (lpre l)))));
          [exact Ec|].
        apply (comp_dualP n (lA l) WA NA HsA); assumption. }
      split; [|split].
      * apply (it_P_ext n (lA l) WA NA HsA (comp (itpow k (sm n (lpost l))) (itpow k (sm n (lpre l))))); [exact Ec|].
        apply (comp_P n (lA l) WA NA HsA); assumption.
      * intros f g Lf Lg Pf Pg. apply (dual_hermP n (lA l) WA NA HsA _ SD); assumption.
      * intros _. split; [|exact SD].
        apply (it_cons_ext n (lA l) (comp (itpow k (sm n (lpost l))) (itpow k (sm n (lpre l)))));
          [exact Ec| |exact NA].
        apply (comp_consH Hnc n (lA l) WA NA HsA); assumption.
  - (* level with a coarser one below *)
    destruct Hmid as (WR & WP & NR & NP & HT).
    set (n' := nrows (lA nxt)) in *.
    destruct (IH Hrest ltac:(discriminate)) as (BP & Bsym & _). cbn [top_n] in BP, Bsym. fold n' in BP, Bsym.
    pose proof Hwf as (_ & _ & _ & Hwf').
    set (Bc := fun h => Cyc (nxt :: rest') h (vzero n')).
    assert (Bc_len : forall h, length h = n' -> length (Bc h) = n').
    { intros h Lh. unfold Bc. apply (Cyc_len Seqb k nc (nxt :: rest') Hwf'); [exact Lh|apply vzero_length]. }
    assert (Bc_P : forall h, length h = n' -> Pv h -> Pv (Bc h)).
    { intros h Lh Ph. unfold Bc. apply BP; auto using vzero_length, Pv_vzero. }
    pose proof (cgc_len n (lA l) n' (lR l) (lP l) Bc) as Lcgc.
    pose proof (cgc_consH Hnc Seqb n (lA l) WA NA HsA n' (lR l) (lP l) Bc WP NP) as Ccgc.
    pose proof (cgc_P n (lA l) WA NA HsA n' (lR l) (lP l) Bc WR WP NR NP HT Bc_len Bc_P Bsym) as Pcgc.
    pose proof (cgc_dualP n (lA l) WA NA HsA n' (lR l) (lP l) Bc WR WP NR NP HT Bc_len Bc_P Bsym) as Dcgc.
    set (mid := comp (cgc n (lA l) n' (lR l) (lP l) Bc) (itpow k (sm n (lpre l)))).
    assert (Lmid : it_len n mid) by (apply comp_len; assumption).
    assert (Pmid : it_P n mid) by (apply (comp_P n (lA l) WA NA HsA); assumption).
    assert (Cmid : it_cons n (lA l) mid) by (apply (comp_consH Hnc n (lA l) WA NA HsA); assumption).
    set (mid' := comp (itpow k (sm n (lpost l))) (cgc n (lA l) n' (lR l) (lP l) Bc)).
    assert (Lmid' : it_len n mid') by (apply comp_len; assumption).
    assert (Pmid' : it_P n mid') by (apply (comp_P n (lA l) WA NA HsA); assumption).
    assert (Cmid' : it_cons n (lA l) mid') by (apply (comp_consH Hnc n (lA l) WA NA HsA); assumption).
    assert (Dmid : it_dualP n (lA l) mid mid').
    { unfold mid, mid'. apply (comp_dualP n (lA l) WA NA HsA); assumption. }
    assert (Lbody : it_len n (body_it k l n' Bc)) by (apply comp_len; assumption).
    assert (Pbody : it_P n (body_it k l n' Bc)) by (apply (comp_P n (lA l) WA NA HsA); assumption).
    assert (Cbody : it_cons n (lA l) (body_it k l n' Bc))
      by (apply (comp_consH Hnc n (lA l) WA NA HsA); assumption).
    assert (Dbody : it_dualP n (lA l) (body_it k l n' Bc) (body_it k l n' Bc)).
    { assert (E : forall f x, body_it k l n' Bc f x = comp mid' (itpow k (sm n (lpre l))) f x) by reflexivity.
      intros f x g Lf Lx Lg Pf Px Pg. rewrite (E g (z n)).
      change (body_it k l n' Bc f x) with (comp (itpow k (sm n (lpost l))) mid f x).
      apply (comp_dualP n (lA l) WA NA HsA mid (itpow k (sm n (lpost l))) mid' (itpow k (sm n (lpre l))));
        assumption. }
    assert (Ec : forall f x, length f = n -> length x = n ->
              Cyc (l :: nxt :: rest') f x = itpow nc (body_it k l n' Bc) f x).
    { intros f x Lf Lx. unfold AmgProofs7.Cyc. apply (cyc_mid_eq Seqb k nc l nxt rest' Hwf); auto. apply zscr_wf. }
    assert (SD : it_dualP n (lA l) (Cyc (l :: nxt :: rest')) (Cyc (l :: nxt :: rest'))).
    { apply (it_dualP_ext n (lA l) WA NA HsA (itpow nc (body_it k l n' Bc))); [exact Ec|].
      apply (itpow_dualP n (lA l) WA NA HsA); assumption. }
    split; [|split].
    + apply (it_P_ext n (lA l) WA NA HsA (itpow nc (body_it k l n' Bc))); [exact Ec|]. apply (itpow_P n (lA l) WA NA HsA); assumption.
    + intros f g Lf Lg Pf Pg. apply (dual_hermP n (lA l) WA NA HsA _ SD); assumption.
    + intros _. split; [|exact SD].
      apply (it_cons_ext n (lA l) (itpow nc (body_it k l n' Bc))); [exact Ec| |exact NA].
      apply (itpow_consH Hnc n (lA l) WA NA HsA); assumption.
Qed.

End CycleIt.

Theorem apply_herm_fullP k nc pc (lvls : list level) : hier_hermP lvls -> lvls <> [] ->
  (pc = 0 \/ nosolve_top lvls) ->
  forall scr1 scr2 f g x1 x2,
  scratch_wf lvls scr1 -> scratch_wf lvls scr2 ->
  length f = top_n lvls -> length g = top_n lvls ->
  length x1 = top_n lvls -> length x2 = top_n lvls -> Pv f -> Pv g ->
  ipH (top_n lvls) (fst (apply k k nc (Datatypes.S pc) lvls scr1 f x1)) g =
  ipH (top_n lvls) f (fst (apply k k nc (Datatypes.S pc) lvls scr2 g x2)).
Proof.
  intros Hh Hne Hpc scr1 scr2 f g x1 x2 H1 H2 Lf Lg L1 L2 Pf Pg.
  pose proof (hier_hermP_wf _ Hh) as Hw.
  rewrite !(apply_it Seqb k nc pc lvls Hw) by assumption.
  set (n := top_n lvls) in *.
  destruct (Cyc_hermNP k nc lvls Hh Hne) as (BP & Bsym & SD).
  destruct Hpc as [->|Hns].
  - apply Bsym; assumption.
  - specialize (SD Hns). destruct lvls as [|l rest]; [congruence|].
    destruct SD as [SC SD]. cbn [top_n] in *.
    pose proof Hh as Hh'. cbn [hier_hermP] in Hh'. destruct Hh' as (_ & _ & WA & HsA & _).
    apply (dual_hermP n (lA l) WA eq_refl HsA (itpow (Datatypes.S pc) (Cyc k nc (l :: rest)))); try assumption.
    apply (itpow_dualP n (lA l) WA eq_refl HsA); try assumption; apply (Cyc_len Seqb k nc (l :: rest) Hw).
Qed.

(* ------------------------------------------------------------------ *)
(* hierarchies of build + instantiate: the smoother / transfer part of hier_hermP is that of hier_herm, hier_hermk for the
   SAME descriptors instantiated with any other solver (the levels differ in the lsolve field only) *)
Section Inst.
Variable mk_relax : crs -> sweep * sweep.
Variables mk_solve0 mk_solve : crs -> vec -> vec -> vec.
Hypothesis relax_P : forall A, wf A = true ->
  sweep_P (nrows A) (fst (mk_relax A)) /\ sweep_P (nrows A) (snd (mk_relax A)).
Hypothesis solve_ok_all : forall A, solve_ok (nrows A) (mk_solve A).

Lemma inst_hier_hermP (ls : list ldesc) :
  hier_herm (map (instantiate mk_relax mk_solve0) ls) -> hier_hermk (map (instantiate mk_relax mk_solve0) ls) ->
  (forall A, In (LSolve A) ls -> wf A = true -> herm_mat (nrows A) A ->
             solve_symHP (nrows A) (mk_solve A) /\ solve_P (nrows A) (mk_solve A)) ->
  hier_hermP (map (instantiate mk_relax mk_solve) ls).
Proof.
  induction ls as [|l tl IH]; intros Hh Hk Hs; [exact I|].
  cbn [map] in *. cbn [hier_herm] in Hh. cbn [hier_hermk] in Hk.
  destruct Hh as (H1 & H2 & WA & HsA & Hc2 & Hadj & Hmid & Hrest). destruct Hk as [Hc1 Hk'].
  cbn [hier_hermP].
  assert (IH' : hier_hermP (map (instantiate mk_relax mk_solve) tl))
    by (apply IH; [exact Hrest|exact Hk'|intros A0 HA0; apply Hs; right; exact HA0]).
  assert (HP : sweep_P (nrows (lA (instantiate mk_relax mk_solve l))) (lpre (instantiate mk_relax mk_solve l)) /\
               sweep_P (nrows (lA (instantiate mk_relax mk_solve l))) (lpost (instantiate mk_relax mk_solve l))).
  { destruct l as [A P R|A|A]; cbn [instantiate lA lpre lpost] in *; try (apply relax_P; exact WA).
    split; intros f x t _ _ _ _ Px; exact Px. }
  destruct HP as [HP1 HP2].
  destruct l as [A P R|A|A]; cbn [instantiate lA lpre lpost lR lP Amg.lsolve] in *;
    (split; [exact H1|]; split; [exact H2|]; split; [exact WA|]; split; [exact HsA|];
     split; [exact Hc1|]; split; [exact Hc2|]; split; [exact Hadj|]; split; [exact HP1|]; split; [exact HP2|];
     split; [|exact IH']);
    destruct tl as [|nxt tl']; cbn [map] in *;
      try (intros sv E; try discriminate E);
      try (rewrite !(inst_lA mk_relax mk_solve0) in Hmid; rewrite !(inst_lA mk_relax mk_solve); exact Hmid).
  inversion E; subst sv. split; [apply solve_ok_all|]. apply Hs; [left; reflexivity|exact WA|exact HsA].
Qed.

End Inst.

(* the preconditioner of a hierarchy built by amg_init with right-linear, consistent, adjoint smoother pairs and ANY coarse
   solver that is hermitian on the subspace and preserves it (as soon as the level matrix is well formed and hermitian) *)
Section BuiltP.
Variable mk_relax : crs -> sweep * sweep.
Variable mk_solve : crs -> vec -> vec -> vec.
Hypothesis relax_ok : forall A, sweep_ok (nrows A) (fst (mk_relax A)) /\ sweep_ok (nrows A) (snd (mk_relax A)).
Hypothesis relax_rlin : forall A, wf A = true ->
  sweep_rlin (fun _ => True) (nrows A) (fst (mk_relax A)) /\ sweep_rlin (fun _ => True) (nrows A) (snd (mk_relax A)).
Variable good : crs -> Prop.
Hypothesis relax_triple : forall A, wf A = true -> herm_mat (nrows A) A -> good A -> sweep_triple A (mk_relax A).
Hypothesis Hsok : forall A, solve_ok (nrows A) (mk_solve A).

Theorem built_apply_herm_fullP_gen ce dc ml sc ts (M : crs) k nc pc : scale_herm sc ->
  wf M = true -> herm_mat (nrows M) M -> ts_herm (nrows M) ts ->
  (forall A, In (LSolve A) (amg_init ce dc ml (coarse_op_of sc) ts M) -> wf A = true -> herm_mat (nrows A) A ->
             solve_symHP (nrows A) (mk_solve A) /\ solve_P (nrows A) (mk_solve A)) ->
  (forall l, In l (amg_init ce dc ml (coarse_op_of sc) ts M) -> good (ld_A l)) ->
  let lvls := map (instantiate mk_relax mk_solve) (amg_init ce dc ml (coarse_op_of sc) ts M) in
  (pc = 0 \/ nosolve_top lvls) ->
  forall scr1 scr2 f g x1 x2,
  scratch_wf lvls scr1 -> scratch_wf lvls scr2 ->
  length f = nrows M -> length g = nrows M -> length x1 = nrows M -> length x2 = nrows M -> Pv f -> Pv g ->
  ipH (nrows M) (fst (apply k k nc (Datatypes.S pc) lvls scr1 f x1)) g =
  ipH (nrows M) f (fst (apply k k nc (Datatypes.S pc) lvls scr2 g x2)).
Proof.
  intros Hsc WM SM Hts Hsol Hgood lvls Hpc scr1 scr2 f g x1 x2 H1 H2 Lf Lg L1 L2 Pf Pg.
  set (zsolve := fun (A : crs) (_ _ : vec) => (vzero (nrows A) : vec)).
  assert (Hzok : forall A, solve_ok (nrows A) (zsolve A)) by (intros A rhs x _ _; apply vzero_length).
  assert (Hzsym : forall A, solve_symH (nrows A) (zsolve A)).
  { intros A f0 g0 x0 y0 _ _ _ _. unfold zsolve.
    etransitivity; [exact (ipH_zero_l Hnc adj_add (nrows A) g0)|].
    symmetry. exact (ipH_zero_r Hnc (nrows A) f0). }
  set (lvls0 := map (instantiate mk_relax zsolve) (amg_init ce dc ml (coarse_op_of sc) ts M)).
  assert (Hh : hier_herm lvls0).
  { unfold lvls0, amg_init.
    apply (build_hier_herm Hnc adj_add mk_relax zsolve relax_ok good
             (fun A WA HA Hg => conj (proj1 (proj2 (relax_triple A WA HA Hg))) (proj2 (proj2 (relax_triple A WA HA Hg))))
             Hzok ce dc ml (coarse_op_of sc) (coarse_op_of_shape sc)); [| | | | |intros; apply Hzsym|exact Hgood].
    - destruct sc as [s|]; [apply (scaled_galerkin_cop_wf s)|apply galerkin_cop_wf].
    - apply (coarse_op_of_herm Hnc adj_add adj_mul adj_inv), Hsc.
    - apply sort_rows_wf, WM.
    - rewrite sort_rows_nrows. apply (sort_rows_herm Hnc), SM.
    - rewrite sort_rows_nrows. exact Hts. }
  assert (Hk : hier_hermk lvls0) by (apply (hier_hermk_inst Hnc mk_relax zsolve good relax_triple); assumption).
  assert (HhP : hier_hermP lvls).
  { apply (inst_hier_hermP mk_relax zsolve mk_solve); try assumption.
    intros A WA. destruct (relax_ok A) as [O1 O2]. destruct (relax_rlin A WA) as [R1 R2].
    split; apply sweep_rlin_P; assumption. }
  destruct (amg_init_chain ce dc ml (coarse_op_of sc) ts M) as [Hc Hhd].
  assert (Hne : lvls <> []) by (apply (chain_nonempty _ _ (coarse_op_of sc) _ Hc)).
  assert (En : top_n lvls = nrows M).
  { unfold lvls. rewrite (top_n_inst _ _ _ _ Hhd). apply sort_rows_nrows. }
  rewrite <- En.
  apply (apply_herm_fullP k nc pc lvls HhP Hne Hpc); congruence.
Qed.

End BuiltP.

(* the five smoothers of mk_relax5, side condition good5 *)
Theorem built_apply_herm_fullP (mk_solve : crs -> vec -> vec -> vec) (Hsok : forall A, solve_ok (nrows A) (mk_solve A))
  (k5 : @relax5 S) ce dc ml sc ts (M : crs) k nc pc : scale_herm sc ->
  wf M = true -> herm_mat (nrows M) M -> ts_herm (nrows M) ts ->
  (forall A, In (LSolve A) (amg_init ce dc ml (coarse_op_of sc) ts M) -> wf A = true -> herm_mat (nrows A) A ->
             solve_symHP (nrows A) (mk_solve A) /\ solve_P (nrows A) (mk_solve A)) ->
  (forall l, In l (amg_init ce dc ml (coarse_op_of sc) ts M) -> good5 k5 (ld_A l)) ->
  let lvls := map (instantiate (mk_relax5 k5) mk_solve) (amg_init ce dc ml (coarse_op_of sc) ts M) in
  (pc = 0 \/ nosolve_top lvls) ->
  forall scr1 scr2 f g x1 x2,
  scratch_wf lvls scr1 -> scratch_wf lvls scr2 ->
  length f = nrows M -> length g = nrows M -> length x1 = nrows M -> length x2 = nrows M -> Pv f -> Pv g ->
  ipH (nrows M) (fst (apply k k nc (Datatypes.S pc) lvls scr1 f x1)) g =
  ipH (nrows M) f (fst (apply k k nc (Datatypes.S pc) lvls scr2 g x2)).
Proof.
  exact (built_apply_herm_fullP_gen (mk_relax5 k5) mk_solve (mk_relax5_ok k5)
           (mk_relax5_rlin Hnc Seqb (fun _ => True) k5) (good5 k5)
           (mk_relax5_triple Hnc Seqb adj_add adj_mul adj_inv k5) Hsok ce dc ml sc ts M k nc pc).
Qed.

End ColNc.
