(* AmgBlockCycleSym3Ilu.v -- C02 for block value types, ILU smoothers: the triangular solve N = ilu_solve L U D =
   (D^-1 + U)^-1 (I + L)^-1 is HERMITIAN with respect to ipH as soon as the factors satisfy the entrywise relation
        L_ij = (D_j U_ji)^H,   D_j^H = D_j        (factors_herm; D holds the inverted pivots),
   over a non-commutative ring with an involutive anti-automorphism:  <N f, g> = sum_j y_f,j^H D_j^H y_g,j  with
   y = (I + L)^-1 . (forward substitution).  With AmgBlockCycleSym2Ilu.ilu0_good5 the side condition good5 (R5Ilu0 w) A of
   the symmetric-cycle theorems is reduced to this FINITE condition on the computed factors (boolean form
   factors_hermb); for commuting values it is proved for every symmetric matrix with symmetric pattern
   (AmgBlockCycleSym3IluFactors.v). *)
From Coq Require Import ZifyBool.
From Amgcl Require Import Scalar Vec Crs Kernels KernelsProofs MatOps MatOpsProofs Relax DenseSolve
  Amg AmgExec AmgProofs AmgProofs2 AmgProofs3 AmgProofs4 AmgProofs6 AmgProofs7 NcRing NcKernels AmgBlockNc Ilu IluProofs
  BlockRelaxProofsIlu
  AmgBlockCycle AmgBlockCycleProofs AmgBlockCycleSym AmgBlockCycleSym2 AmgBlockCycleSym2Gs AmgBlockCycleSym2Built
  AmgBlockCycleSym2Ilu.
Local Open Scope S_scope.

Section IluSolveHerm.
Context {S : Scalar}.
Local Notation vec := (vec S).
Local Notation crs := (crs S).
Local Notation sweep := (@sweep S).
Hypothesis Hnc : ncring_theory S.
Hypothesis Seqb : seqb_spec S.
Local Instance ncsy6 : NcRingInst S := ncring_inst Hnc.
Hypothesis adj_add : forall a b : S, sadj (a + b) = sadj a + sadj b.
Hypothesis adj_mul : forall a b : S, sadj (a * b) = sadj b * sadj a.
Hypothesis adj_inv : forall a : S, sadj (sadj a) = a.

Variables (L U : crs) (D : vec).
Local Notation n := (nrows L).
Hypothesis HL : strict_lower L.
Hypothesis HU : strict_upper n U.
(* the factors of a hermitian matrix: L_ij = (D_j U_ji)^H, D_j^H = D_j  (D holds the inverted pivots) *)
Definition factors_herm : Prop :=
  (forall i j, i < n -> j < n -> mget L i j = sadj (vget D j * mget U j i)) /\
  (forall j, j < n -> sadj (vget D j) = vget D j).
Hypothesis HF : factors_herm.

Local Notation N := (ilu_solve L U D).

(* <N f, g> = sum_j y_f,j^H D_j^H y_g,j  with y = (I + L)^-1 . *)
Lemma ilu_solve_form (f g : vec) : length f = n -> length g = n ->
  ipH n (N f) g = sumn (fun j => sadj (vget (lsolve L f) j) * sadj (vget D j) * vget (lsolve L g) j) n.
Proof.
  intros Lf Lg. destruct HF as [Hrel _].
  destruct (nc_ilu_solve_spec Hnc L U D f HL HU Lf) as [_ Ef].
  destruct (nc_ilu_solve_spec Hnc L U D g HL HU Lg) as [_ Eg].
  set (x := N f) in *. set (yf := lsolve L f) in *. set (yg := lsolve L g) in *.
  unfold ipH.
  (* g_i = y_g,i + sum_j L_ij y_g,j *)
  rewrite (sumn_ext _ (fun i => sadj (vget x i) * vget yg i
                                + sumn (fun j => sadj (vget x i) * mget L i j * vget yg j) n)).
  2:{ intros i Hi. rewrite <- (proj1 (Eg i Hi)).
      rewrite (sumn_ext (fun j => sadj (vget x i) * mget L i j * vget yg j)
                        (fun j => sadj (vget x i) * (mget L i j * vget yg j))) by (intros; ncr).
      rewrite (ncsumn_scal_l Hnc). ncr. }
  rewrite (ncsumn_add Hnc), (ncsumn_swap Hnc), <- (ncsumn_add Hnc).
  apply sumn_ext. intros j Hj.
  rewrite (ncsumn_scal_r Hnc).
  transitivity ((sadj (vget x j) + sumn (fun i => sadj (vget x i) * mget L i j) n) * vget yg j); [ncr|].
  f_equal.
  (* x_j = D_j (y_f,j - sum_i U_ji x_i) *)
  rewrite (proj2 (Ef j Hj)) at 1. rewrite adj_mul, (adj_sub Hnc adj_add), (adj_sumn Hnc adj_add).
  rewrite (sumn_ext (fun i => sadj (vget x i) * mget L i j) (fun i => (sadj (vget x i) * sadj (mget U j i)) * sadj (vget D j))).
  2:{ intros i Hi. rewrite (Hrel i j Hi Hj), adj_mul. ncr. }
  rewrite (ncsumn_scal_r Hnc).
  rewrite (sumn_ext (fun i => sadj (mget U j i * vget x i)) (fun i => sadj (vget x i) * sadj (mget U j i)))
    by (intros; apply adj_mul).
  ncr.
Qed.

Theorem ilu_solve_herm (f g : vec) : length f = n -> length g = n ->
  ipH n (N f) g = ipH n f (N g).
Proof.
  intros Lf Lg.
  rewrite <- (ipH_herm Hnc adj_add adj_mul adj_inv n (N g) f).
  rewrite (ilu_solve_form f g Lf Lg), (ilu_solve_form g f Lg Lf).
  rewrite (adj_sumn Hnc adj_add). apply sumn_ext. intros j Hj.
  rewrite !adj_mul, !adj_inv. rewrite (proj2 HF j Hj). ncr.
Qed.

End IluSolveHerm.

Section IluGood5.
Context {S : Scalar}.
Local Notation vec := (vec S).
Local Notation crs := (crs S).
Hypothesis Hnc : ncring_theory S.
Hypothesis Seqb : seqb_spec S.
Hypothesis adj_add : forall a b : S, sadj (a + b) = sadj a + sadj b.
Hypothesis adj_mul : forall a b : S, sadj (a * b) = sadj b * sadj a.
Hypothesis adj_inv : forall a : S, sadj (sadj a) = a.

(* what is left of good5 for ILU(0): a condition on the entries of the computed factors *)
Theorem ilu0_good5_factors (w : S) (A L U : crs) (D : vec) : wf A = true -> ncols A = nrows A ->
  ilu0 A (vzero (nrows A)) = Ok (L, U, D) ->
  sadj w = w -> (forall c : S, w * c = c * w) ->
  factors_herm L U D -> good5 (R5Ilu0 w) A.
Proof.
  intros WA Sq E Hw Hc HF.
  destruct (ilu0_structure A _ L U D E) as (NL & _).
  apply (ilu0_good5 Hnc Seqb adj_mul w A L U D WA E Hw Hc).
  intros f g Lf Lg.
  assert (HU : strict_upper (nrows L) U) by (rewrite NL, <- Sq; exact (ilu0_strict_upper A _ L U D E WA)).
  rewrite <- NL in Lf, Lg |- *.
  apply (ilu_solve_herm Hnc adj_add adj_mul adj_inv L U D); try assumption.
  exact (ilu0_strict_lower A _ L U D E).
Qed.

(* boolean form, for closed instances *)
Definition factors_hermb (L U : crs) (D : vec) : bool :=
  forallb (fun j => seqb (sadj (vget D j)) (vget D j) &&
                    forallb (fun i => seqb (mget L i j) (sadj (vget D j * mget U j i))) (seq 0 (nrows L)))
          (seq 0 (nrows L)).
Lemma factors_hermb_ok (L U : crs) (D : vec) : factors_hermb L U D = true -> factors_herm L U D.
Proof.
  unfold factors_hermb. intro H. rewrite forallb_forall in H. split.
  - intros i j Hi Hj. assert (Hj' : In j (seq 0 (nrows L))) by (apply in_seq; lia).
    specialize (H j Hj'). apply andb_prop in H as [_ H]. rewrite forallb_forall in H.
    apply Seqb, H. apply in_seq. lia.
  - intros j Hj. assert (Hj' : In j (seq 0 (nrows L))) by (apply in_seq; lia).
    specialize (H j Hj'). apply andb_prop in H as [H _]. apply Seqb, H.
Qed.
End IluGood5.
