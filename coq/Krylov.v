(* Krylov.v -- executable models of the iterative solvers
   (amgcl/solver/{cg,bicgstab,richardson,gmres,fgmres}.hpp, precond_side.hpp,
    detail/givens_rotations.hpp).  Definitions only; proofs: KrylovProofs.v.

   Conventions
   * the system matrix and the preconditioner enter as functions [A P : vec -> vec]
     ([A v] = the result of backend::spmv(1, A, v, 0, out) and the product inside
     backend::residual; [P v] = the result of P.apply(v, out)); both overwrite their
     output completely (C07 for spmv/residual; an assumption on P.apply).
   * every mutable member of the solver object is a field of a workspace record that
     is an INPUT of the model ([junk]); scalars/vectors are read from it exactly where
     the C++ reads the member.
   * vector updates use the backend primitives with their is_zero branches; the
     "sized" forms below coincide with Kernels.axpby/axpbypcz/lin_comb/vcopy/vclear
     when all vectors have the allocated length n (KrylovProofs.k_*_kernels).
   * loops are recursions on explicit fuel = maxiter (restart structure: outer fuel
     maxiter+1, inner fuel M); running out of fuel sets the flag [k_oof], proved
     impossible in KrylovProofs.
   * precondition(...) failures are the result [KExc]. *)
From Amgcl Require Import Scalar Vec Kernels.
From Coq Require Import QArith_base.
Local Close Scope Q_scope.
Local Open Scope S_scope.

Section Krylov.
Context {S : Scalar}.
Local Notation vec := (vec S).
Local Notation SS := Datatypes.S.

(* ---------- vector primitives, sized by their input arguments ---------- *)
Fixpoint vmap2 (f : S -> S -> S) (x y : vec) : vec :=
  match x, y with
  | a :: x', b :: y' => f a b :: vmap2 f x' y'
  | _, _ => []
  end.
Fixpoint vmap3 (f : S -> S -> S -> S) (x y z : vec) : vec :=
  match x, y, z with
  | a :: x', b :: y', c :: z' => f a b c :: vmap3 f x' y' z'
  | _, _, _ => []
  end.

(* backend::axpby(a, x, b, y) : y = a x + b y *)
Definition k_axpby (a : S) (x : vec) (b : S) (y : vec) : vec :=
  if is_zero b then map (fun xi => a * xi) x
  else vmap2 (fun xi yi => a * xi + b * yi) x y.
(* backend::axpbypcz(a, x, b, y, c, z) : z = a x + b y + c z *)
Definition k_axpbypcz (a : S) (x : vec) (b : S) (y : vec) (c : S) (z : vec) : vec :=
  if is_zero c then vmap2 (fun xi yi => a * xi + b * yi) x y
  else vmap3 (fun xi yi zi => a * xi + b * yi + c * zi) x y z.
Definition k_clear (x : vec) : vec := map (fun _ => s0) x.
(* backend::residual(f, A, x, r) with Ax = A x *)
Definition k_residual (f Ax : vec) : vec := vmap2 (fun s fi => fi - s) Ax f.
(* backend::lin_comb(n, c, v, alpha, y), cv = [(c_0,v_0); ...; (c_{n-1},v_{n-1})] *)
Fixpoint k_lin_comb_rest (cv : list (S * vec)) (y : vec) : vec :=
  match cv with
  | (c1, v1) :: (c2, v2) :: tl => k_lin_comb_rest tl (k_axpbypcz c1 v1 c2 v2 s1 y)
  | [(c1, v1)] => k_axpby c1 v1 s1 y
  | [] => y
  end.
Definition k_lin_comb (cv : list (S * vec)) (alpha : S) (y : vec) : vec :=
  match cv with
  | (c0, v0) :: tl => k_lin_comb_rest tl (k_axpby c0 v0 alpha y)
  | [] => y
  end.

Definition ip (x y : vec) : S := inner_product_serial x y.
(* cg, bicgstab, richardson, bicgstabl: sqrt(math::norm(inner_product(x,x))) *)
Definition norm_a (x : vec) : S := ssqrt (sabs (ip x x)).
(* gmres family, idrs: std::abs(sqrt(inner_product(x,x))) *)
Definition norm_b (x : vec) : S := sabs (ssqrt (ip x x)).

(* amgcl::detail::eps<scalar>(1) = 2 * epsilon * 1 *)
Definition eps1 : S := (sofQ (2 # 1)%Q * seps) * sofQ (1 # 1)%Q.

(* ---------- parameters, results ---------- *)
Record kprm := mkPrm {
  p_maxiter : nat; p_tol : S; p_abstol : S; p_ns : bool;
  p_ca : bool;          (* bicgstab: check_after *)
  p_M : nat;            (* gmres family: restart *)
  p_left : bool;        (* pside == side::left *)
  p_damping : S;        (* richardson *)
  p_K : nat;            (* lgmres: number of augmentation vectors *)
  p_areset : bool;      (* lgmres: always_reset *)
  p_L : nat;            (* bicgstabl *)
  p_delta : S;          (* bicgstabl *)
  p_convex : bool       (* bicgstabl *)
}.

Record kres := mkRes { k_it : nat; k_res : S; k_x : vec; k_oof : bool }.
Inductive kout := KOk (r : kres) | KExc.

(* the common prologue: norm_rhs < eps(1) ? (ns_search ? norm_rhs := 1 : trivial exit) *)
Inductive prologue := Trivial (norm_rhs : S) | Go (norm_rhs : S).
Definition k_prologue (nrm : vec -> S) (prm : kprm) (f : vec) : prologue :=
  let nr := nrm f in
  if sltb nr eps1 then (if p_ns prm then Go s1 else Trivial nr) else Go nr.
Definition k_trivial (nr : S) (x : vec) : kout := KOk (mkRes 0 nr (k_clear x) false).

(* preconditioner::spmv(pside, P, A, F, X, T): returns (X, T) *)
Definition pspmv (left : bool) (A P : vec -> vec) (F : vec) : vec * vec :=
  if left then let T := A F in (P T, T) else let T := P F in (A T, T).

(* =====================================================================
   CG (cg.hpp:152-204)                                                  *)
Record cg_ws := mkCgWs { cg_r : vec; cg_s : vec; cg_p : vec; cg_q : vec }.
Record cg_st := mkCgSt { c_x : vec; c_ws : cg_ws; c_rho1 : S; c_rho2 : S; c_res : S; c_it : nat }.

Definition cg_step (A P : vec -> vec) (st : cg_st) : cg_st :=
  let w := c_ws st in
  let s := P (cg_r w) in
  let rho2 := c_rho1 st in
  let rho1 := ip (cg_r w) s in
  let p := if Nat.eqb (c_it st) 0 then s                          (* backend::copy(s, p) *)
           else k_axpby s1 s (rho1 / rho2) (cg_p w) in
  let q := A p in
  let alpha := rho1 / ip q p in
  let x := k_axpby alpha p s1 (c_x st) in
  let r := k_axpby (- alpha) q s1 (cg_r w) in
  mkCgSt x (mkCgWs r s p q) rho1 rho2 (norm_a r) (SS (c_it st)).

(* for(; iter < maxiter && math::norm(res_norm) > eps; ++iter) ; fuel = maxiter - iter *)
Fixpoint cg_loop (A P : vec -> vec) (eps : S) (fuel : nat) (st : cg_st) : cg_st :=
  match fuel with
  | O => st
  | SS k => if sltb eps (sabs (c_res st)) then cg_loop A P eps k (cg_step A P st) else st
  end.

Definition cg_init (A : vec -> vec) (prm : kprm) (nr : S) (f x0 : vec) (junk : cg_ws) : S * cg_st :=
  let eps := smax (p_tol prm * nr) (p_abstol prm) in
  let r := k_residual f (A x0) in
  (eps, mkCgSt x0 (mkCgWs r (cg_s junk) (cg_p junk) (cg_q junk))
               ((sofQ (2 # 1)%Q * eps) * s1) s0 (norm_a r) 0).

Definition cg (A P : vec -> vec) (prm : kprm) (f x0 : vec) (junk : cg_ws) : kout * cg_ws :=
  match k_prologue norm_a prm f with
  | Trivial nr => (k_trivial nr x0, junk)
  | Go nr =>
    let '(eps, st0) := cg_init A prm nr f x0 junk in
    let st := cg_loop A P eps (p_maxiter prm) st0 in
    (KOk (mkRes (c_it st) (c_res st / nr) (c_x st) false), c_ws st)
  end.

(* =====================================================================
   Richardson (richardson.hpp:140-180)                                  *)
Record ri_ws := mkRiWs { ri_r : vec; ri_s : vec }.
Record ri_st := mkRiSt { i_x : vec; i_ws : ri_ws; i_res : S; i_it : nat }.

Definition ri_step (A P : vec -> vec) (damping : S) (f : vec) (st : ri_st) : ri_st :=
  let s := P (ri_r (i_ws st)) in
  let x := k_axpby damping s s1 (i_x st) in
  let r := k_residual f (A x) in
  mkRiSt x (mkRiWs r s) (norm_a r) (SS (i_it st)).

Fixpoint ri_loop (A P : vec -> vec) (damping : S) (f : vec) (eps : S) (fuel : nat) (st : ri_st) : ri_st :=
  match fuel with
  | O => st
  | SS k => if sltb eps (sabs (i_res st)) then ri_loop A P damping f eps k (ri_step A P damping f st) else st
  end.

Definition richardson (A P : vec -> vec) (prm : kprm) (f x0 : vec) (junk : ri_ws) : kout * ri_ws :=
  match k_prologue norm_a prm f with
  | Trivial nr => (k_trivial nr x0, junk)
  | Go nr =>
    let eps := smax (p_tol prm * nr) (p_abstol prm) in
    let r := k_residual f (A x0) in
    let st := ri_loop A P (p_damping prm) f eps (p_maxiter prm) (mkRiSt x0 (mkRiWs r (ri_s junk)) (norm_a r) 0) in
    (KOk (mkRes (i_it st) (i_res st / nr) (i_x st) false), i_ws st)
  end.

(* =====================================================================
   BiCGStab (bicgstab.hpp:160-244)                                      *)
Record bs_ws := mkBsWs { bs_r : vec; bs_p : vec; bs_v : vec; bs_s : vec; bs_t : vec; bs_rh : vec; bs_T : vec }.
Record bs_st := mkBsSt { b_x : vec; b_ws : bs_ws; b_rho1 : S; b_rho2 : S; b_alpha : S; b_omega : S;
                         b_res : S; b_first : bool; b_it : nat }.

(* one pass of the loop body; None = precondition(...) threw *)
Definition bs_step (A P : vec -> vec) (left : bool) (eps : S) (st : bs_st) : option bs_st :=
  let w := b_ws st in
  let rho2 := b_rho1 st in
  let rho1 := ip (bs_r w) (bs_rh w) in
  let p_opt :=
    if b_first st then Some (bs_r w)                               (* backend::copy(r, p) *)
    else if is_zero rho2 then None                                 (* "Zero rho in BiCGStab" *)
    else let beta := (rho1 * b_alpha st) / (rho2 * b_omega st) in
         Some (k_axpbypcz s1 (bs_r w) (- beta * b_omega st) (bs_v w) beta (bs_p w)) in
  match p_opt with
  | None => None
  | Some p =>
    let '(v, T) := pspmv left A P p in
    let alpha := rho1 / ip (bs_rh w) v in
    let x := if left then k_axpby alpha p s1 (b_x st) else k_axpby alpha T s1 (b_x st) in
    let s := k_axpbypcz s1 (bs_r w) (- alpha) v s0 (bs_s w) in
    let res := norm_a s in
    if sltb eps res then
      let '(t, T') := pspmv left A P s in
      let omega := ip t s / ip t t in
      if is_zero omega then None                                   (* "Zero omega in BiCGStab" *)
      else
        let x' := if left then k_axpby omega s s1 x else k_axpby omega T' s1 x in
        let r := k_axpbypcz s1 s (- omega) t s0 (bs_r w) in
        Some (mkBsSt x' (mkBsWs r p v s t (bs_rh w) T') rho1 rho2 alpha omega (norm_a r) false (SS (b_it st)))
    else
      Some (mkBsSt x (mkBsWs (bs_r w) p v s (bs_t w) (bs_rh w) T) rho1 rho2 alpha (b_omega st) res false (SS (b_it st)))
  end.

(* for(first = true; (res > eps || (first && check_after)) && iter < maxiter; ++iter)
   (bicgstab.hpp after fix 60a0b5c: res always starts as ||r0||; check_after forces the first pass) *)
Fixpoint bs_loop (A P : vec -> vec) (left ca : bool) (eps : S) (fuel : nat) (st : bs_st) : option bs_st :=
  match fuel with
  | O => Some st
  | SS k => if sltb eps (b_res st) || (b_first st && ca) then
              match bs_step A P left eps st with
              | None => None
              | Some st' => bs_loop A P left ca eps k st'
              end
            else Some st
  end.

Definition bs_init (A P : vec -> vec) (prm : kprm) (nr : S) (f x0 : vec) (junk : bs_ws) : S * bs_st :=
  let r := if p_left prm then P (k_residual f (A x0)) else k_residual f (A x0) in
  let rh := r in                                                   (* backend::copy(r, rh) *)
  let eps := smax (nr * p_tol prm) (p_abstol prm) in
  let res := norm_a r in
  (eps, mkBsSt x0 (mkBsWs r (bs_p junk) (bs_v junk) (bs_s junk) (bs_t junk) rh (bs_T junk))
               s0 s0 s0 s0 res true 0).

Definition bicgstab (A P : vec -> vec) (prm : kprm) (f x0 : vec) (junk : bs_ws) : kout * bs_ws :=
  match k_prologue norm_a prm f with
  | Trivial nr => (k_trivial nr x0, junk)
  | Go nr =>
    let '(eps, st0) := bs_init A P prm nr f x0 junk in
    match bs_loop A P (p_left prm) (p_ca prm) eps (p_maxiter prm) st0 with
    | None => (KExc, junk)
    | Some st => (KOk (mkRes (b_it st) (b_res st / nr) (b_x st) false), b_ws st)
    end
  end.

(* =====================================================================
   Givens rotations (detail/givens_rotations.hpp)                       *)
Definition gen_rot (dx dy : S) : S * S :=                          (* (cs, sn) *)
  if is_zero dy then (sofQ (1 # 1)%Q, sofQ (0 # 1)%Q)
  else if sltb (sabs dx) (sabs dy) then
    let tmp := dx / dy in
    let sn := sinv (ssqrt (s1 + tmp * tmp)) in (tmp * sn, sn)
  else
    let tmp := dy / dx in
    let cs := sinv (ssqrt (s1 + tmp * tmp)) in (cs, tmp * cs).
Definition app_rot (dx dy cs sn : S) : S * S :=                    (* new (dx, dy) *)
  (sadj cs * dx + sadj sn * dy, - sn * dx + cs * dy).

(* =====================================================================
   GMRES(M) (gmres.hpp:162-261) and FGMRES(M) (fgmres.hpp:155-241)
   arrays H (M+1 x M), s, cs, sn (M+1) and the basis v[0..M] (z[0..M-1]) are total
   maps from indices; the code touches only indices inside the allocated range.  *)
Definition upd {X : Type} (m : nat -> X) (i : nat) (v : X) : nat -> X :=
  fun j => if Nat.eqb j i then v else m j.
Definition updm {X : Type} (m : nat -> nat -> X) (i j : nat) (v : X) : nat -> nat -> X :=
  fun a b => if Nat.eqb a i && Nat.eqb b j then v else m a b.

Record gm_ws := mkGmWs { g_H : nat -> nat -> S; g_s : nat -> S; g_cs : nat -> S; g_sn : nat -> S;
                         g_r : vec; g_v : nat -> vec; g_z : nat -> vec }.

(* for(k = 0; k <= j; ++k) { H(k,j) = <v_new, v[k]>; v_new -= H(k,j) v[k]; }   (ks = 0..j) *)
Fixpoint mgs (v : nat -> vec) (j : nat) (ks : list nat) (H : nat -> nat -> S) (vnew : vec)
  : (nat -> nat -> S) * vec :=
  match ks with
  | [] => (H, vnew)
  | k :: tl => let h := ip vnew (v k) in
               mgs v j tl (updm H k j h) (k_axpby (- h) (v k) s1 vnew)
  end.
(* for(k = 0; k < j; ++k) apply_plane_rotation(H(k,j), H(k+1,j), cs[k], sn[k]) *)
Fixpoint rot_col (cs sn : nat -> S) (j : nat) (ks : list nat) (H : nat -> nat -> S) : nat -> nat -> S :=
  match ks with
  | [] => H
  | k :: tl => let '(a, b) := app_rot (H k j) (H (SS k) j) (cs k) (sn k) in
               rot_col cs sn j tl (updm (updm H k j a) (SS k) j b)
  end.

(* the part of an inner iteration after v_new = (preconditioned) A v[j] is formed;
   returns the workspace and inner_res = |s[j+1]| *)
Definition arnoldi_tail (w : gm_ws) (j : nat) (vnew0 : vec) : gm_ws * S :=
  let '(H1, vnew1) := mgs (g_v w) j (seq 0 (SS j)) (g_H w) vnew0 in
  let hj1 := norm_b vnew1 in
  let H2 := updm H1 (SS j) j hj1 in
  let vnew := k_axpby (sinv hj1) vnew1 s0 vnew1 in
  let H3 := rot_col (g_cs w) (g_sn w) j (seq 0 j) H2 in
  let '(c, s) := gen_rot (H3 j j) (H3 (SS j) j) in
  let cs := upd (g_cs w) j c in
  let sn := upd (g_sn w) j s in
  let '(a, b) := app_rot (H3 j j) (H3 (SS j) j) c s in
  let H4 := updm (updm H3 j j a) (SS j) j b in
  let '(sa, sb) := app_rot (g_s w j) (g_s w (SS j)) c s in
  let sv := upd (upd (g_s w) j sa) (SS j) sb in
  (mkGmWs H4 sv cs sn (g_r w) (upd (g_v w) (SS j) vnew) (g_z w), sabs sb).

(* for (i = j; i --> 0;) { s[i] /= H(i,i); for (k < i) s[k] -= H(k,i) * s[i]; }   (is = j-1 .. 0) *)
Fixpoint backsub (H : nat -> nat -> S) (is : list nat) (s : nat -> S) : nat -> S :=
  match is with
  | [] => s
  | i :: tl =>
    let si := s i / H i i in
    let s' := upd s i si in
    backsub H tl (fold_left (fun acc k => upd acc k (acc k - H k i * si)) (seq 0 i) s')
  end.

(* inner while(true): do-while; fuel = number of further passes allowed (M - 1 suffices) *)
Record gm_in := mkGmIn { n_ws : gm_ws; n_j : nat; n_it : nat; n_oof : bool }.

Definition gm_body (A P : vec -> vec) (left : bool) (w : gm_ws) (j : nat) : gm_ws * S :=
  let '(vnew0, T) := pspmv left A P (g_v w j) in
  arnoldi_tail (mkGmWs (g_H w) (g_s w) (g_cs w) (g_sn w) T (g_v w) (g_z w)) j vnew0.
Definition fg_body (A P : vec -> vec) (w : gm_ws) (j : nat) : gm_ws * S :=
  let zj := P (g_v w j) in
  arnoldi_tail (mkGmWs (g_H w) (g_s w) (g_cs w) (g_sn w) (g_r w) (g_v w) (upd (g_z w) j zj)) j (A zj).

Fixpoint gm_inner (body : gm_ws -> nat -> gm_ws * S) (maxiter M : nat) (eps : S)
                  (fuel : nat) (w : gm_ws) (j it : nat) : gm_in :=
  let '(w', inner_res) := body w j in
  let j' := SS j in let it' := SS it in
  if Nat.leb maxiter it' || Nat.leb M j' || negb (sltb eps inner_res) then mkGmIn w' j' it' false
  else match fuel with
       | O => mkGmIn w' j' it' true
       | SS k => gm_inner body maxiter M eps k w' j' it'
       end.

Definition cv_of (s : nat -> S) (v : nat -> vec) (j : nat) : list (S * vec) :=
  map (fun i => (s i, v i)) (seq 0 j).

(* one outer cycle after the stopping test: returns new x and workspace *)
Definition gm_cycle (A P : vec -> vec) (prm : kprm) (eps norm_r : S) (x : vec) (w : gm_ws) (it : nat)
  : vec * gm_in :=
  let left := p_left prm in
  (* axpby(inverse(norm_r), r, zero, v[0]); fill(s, 0); s[0] = norm_r *)
  let v0 := k_axpby (sinv norm_r) (g_r w) s0 (g_v w 0) in
  let w1 := mkGmWs (g_H w) (upd (fun _ => sofQ (0 # 1)%Q) 0 norm_r) (g_cs w) (g_sn w) (g_r w) (upd (g_v w) 0 v0) (g_z w) in
  let r := gm_inner (gm_body A P left) (p_maxiter prm) (p_M prm) eps (pred (p_M prm)) w1 0 it in
  let w2 := n_ws r in
  let sv := backsub (g_H w2) (rev (seq 0 (n_j r))) (g_s w2) in
  let dx := k_lin_comb (cv_of sv (g_v w2) (n_j r)) s0 (g_r w2) in
  if left then
    (k_axpby s1 dx s1 x, mkGmIn (mkGmWs (g_H w2) sv (g_cs w2) (g_sn w2) dx (g_v w2) (g_z w2)) (n_j r) (n_it r) (n_oof r))
  else
    let tmp := P dx in
    (k_axpby s1 tmp s1 x, mkGmIn (mkGmWs (g_H w2) sv (g_cs w2) (g_sn w2) dx (upd (g_v w2) 0 tmp) (g_z w2)) (n_j r) (n_it r) (n_oof r)).

Definition fg_cycle (A P : vec -> vec) (prm : kprm) (eps norm_r : S) (x : vec) (w : gm_ws) (it : nat)
  : vec * gm_in :=
  (* fill(s, 0); s[0] = norm_r; axpby(inverse(norm_r), v[0], zero, v[0]) *)
  let v0 := k_axpby (sinv norm_r) (g_v w 0) s0 (g_v w 0) in
  let w1 := mkGmWs (g_H w) (upd (fun _ => sofQ (0 # 1)%Q) 0 norm_r) (g_cs w) (g_sn w) (g_r w) (upd (g_v w) 0 v0) (g_z w) in
  let r := gm_inner (fg_body A P) (p_maxiter prm) (p_M prm) eps (pred (p_M prm)) w1 0 it in
  let w2 := n_ws r in
  let sv := backsub (g_H w2) (rev (seq 0 (n_j r))) (g_s w2) in
  (k_lin_comb (cv_of sv (g_z w2) (n_j r)) s1 x,
   mkGmIn (mkGmWs (g_H w2) sv (g_cs w2) (g_sn w2) (g_r w2) (g_v w2) (g_z w2)) (n_j r) (n_it r) (n_oof r)).

(* outer while(true): residual, stopping test, cycle.  fuel = maxiter + 1. *)
Fixpoint gm_outer (A P : vec -> vec) (prm : kprm) (f : vec) (eps nr : S)
                  (fuel : nat) (x : vec) (w : gm_ws) (it : nat) (oof : bool) : kres * gm_ws :=
  let w0 := if p_left prm
            then let v0 := k_residual f (A x) in
                 mkGmWs (g_H w) (g_s w) (g_cs w) (g_sn w) (P v0) (upd (g_v w) 0 v0) (g_z w)
            else mkGmWs (g_H w) (g_s w) (g_cs w) (g_sn w) (k_residual f (A x)) (g_v w) (g_z w) in
  let norm_r := norm_b (g_r w0) in
  if sltb norm_r eps || Nat.leb (p_maxiter prm) it then (mkRes it (norm_r / nr) x oof, w0)
  else match fuel with
       | O => (mkRes it (norm_r / nr) x true, w0)
       | SS k => let '(x', r) := gm_cycle A P prm eps norm_r x w0 it in
                 gm_outer A P prm f eps nr k x' (n_ws r) (n_it r) (oof || n_oof r)
       end.

Fixpoint fg_outer (A P : vec -> vec) (prm : kprm) (f : vec) (eps nr : S)
                  (fuel : nat) (x : vec) (w : gm_ws) (it : nat) (oof : bool) : kres * gm_ws :=
  let w0 := mkGmWs (g_H w) (g_s w) (g_cs w) (g_sn w) (g_r w) (upd (g_v w) 0 (k_residual f (A x))) (g_z w) in
  let norm_r := norm_b (g_v w0 0) in
  if sltb norm_r eps || Nat.leb (p_maxiter prm) it then (mkRes it (norm_r / nr) x oof, w0)
  else match fuel with
       | O => (mkRes it (norm_r / nr) x true, w0)
       | SS k => let '(x', r) := fg_cycle A P prm eps norm_r x w0 it in
                 fg_outer A P prm f eps nr k x' (n_ws r) (n_it r) (oof || n_oof r)
       end.

Definition gmres (A P : vec -> vec) (prm : kprm) (f x0 : vec) (junk : gm_ws) : kout * gm_ws :=
  match k_prologue norm_b prm f with
  | Trivial nr => (k_trivial nr x0, junk)
  | Go nr =>
    let eps := smax (p_tol prm * nr) (p_abstol prm) in
    let '(r, w) := gm_outer A P prm f eps nr (SS (p_maxiter prm)) x0 junk 0 false in
    (KOk r, w)
  end.

Definition fgmres (A P : vec -> vec) (prm : kprm) (f x0 : vec) (junk : gm_ws) : kout * gm_ws :=
  match k_prologue norm_b prm f with
  | Trivial nr => (k_trivial nr x0, junk)
  | Go nr =>
    let eps := smax (p_tol prm * nr) (p_abstol prm) in
    let '(r, w) := fg_outer A P prm f eps nr (SS (p_maxiter prm)) x0 junk 0 false in
    (KOk r, w)
  end.

(* =====================================================================
   LGMRES(M,K) (lgmres.hpp:218-376).  GMRES workspace (vs = g_v, ws = g_z: the vectors z fed to
   the Arnoldi process, by value -- they are not modified between ws[j] = z and lin_comb) plus
   the K augmentation vectors outer_v_data[] and the circular buffer outer_v of slot indices,
   which is OBJECT STATE: it survives the call when always_reset = false.  H0 is write-only in
   the code and not modelled.                                                                  *)
Record cbuf := mkCb { cb_start : nat; cb_buf : list nat }.
Fixpoint set_nth_nat (l : list nat) (i v : nat) : list nat :=
  match l, i with
  | [], _ => []
  | _ :: tl, O => v :: tl
  | a :: tl, SS k => a :: set_nth_nat tl k v
  end.
(* circular_buffer (util.hpp:324-359), capacity K *)
Definition cb_push (K : nat) (c : cbuf) (v : nat) : cbuf :=
  if Nat.ltb (length (cb_buf c)) K then mkCb (cb_start c) (cb_buf c ++ [v])
  else mkCb ((cb_start c + 1) mod K)%nat (set_nth_nat (cb_buf c) (cb_start c) v).
Definition cb_get (K : nat) (c : cbuf) (i : nat) : nat := nth ((cb_start c + i) mod K)%nat (cb_buf c) 0.
Definition cb_clear : cbuf := mkCb 0 [].

Record lg_ws := mkLgWs { l_g : gm_ws; l_data : nat -> vec; l_outer : cbuf }.

Definition lg_body (A P : vec -> vec) (left : bool) (Mt K : nat) (data : nat -> vec) (outer : cbuf)
                   (w : gm_ws) (j : nat) : gm_ws * S :=
  let osz := length (cb_buf outer) in
  (* if (j >= M - outer_v.size()) z = outer_v[j - (M - outer_v.size())]; else z = vs[j]; ws[j] = z *)
  let z := if Nat.leb (Mt - osz)%nat j then data (cb_get K outer (j - (Mt - osz))%nat) else g_v w j in
  let '(vnew0, T) := pspmv left A P z in
  arnoldi_tail (mkGmWs (g_H w) (g_s w) (g_cs w) (g_sn w) T (g_v w) (upd (g_z w) j z)) j vnew0.

Record lg_cyc := mkLgCyc { y_x : vec; y_ws : lg_ws; y_it : nat; y_nouter : nat; y_oof : bool }.

Definition lg_cycle (A P : vec -> vec) (prm : kprm) (eps norm_r : S) (x : vec) (w : lg_ws) (it n_outer : nat) : lg_cyc :=
  let left := p_left prm in
  let K := p_K prm in
  let Mt := (p_M prm + K)%nat in
  let g := l_g w in
  let v0 := k_axpby (sinv norm_r) (g_r g) s0 (g_v g 0) in
  let g1 := mkGmWs (g_H g) (upd (fun _ => sofQ (0 # 1)%Q) 0 norm_r) (g_cs g) (g_sn g) (g_r g) (upd (g_v g) 0 v0) (g_z g) in
  let r := gm_inner (lg_body A P left Mt K (l_data w) (l_outer w)) (p_maxiter prm) Mt eps (pred Mt) g1 0 it in
  let g2 := n_ws r in
  let sv := backsub (g_H g2) (rev (seq 0 (n_j r))) (g_s g2) in
  let dx := k_lin_comb (cv_of sv (g_z g2) (n_j r)) s0 (g_r g2) in
  (* apply step; for side = right tmp = *ws[0], which is vs[0] unless the buffer fills all of W *)
  let osz := length (cb_buf (l_outer w)) in
  let '(x', vs', data1) :=
    if left then (k_axpby s1 dx s1 x, g_v g2, l_data w)
    else let tmp := P dx in
         if Nat.leb (Mt - osz)%nat 0
         then (k_axpby s1 tmp s1 x, g_v g2, upd (l_data w) (cb_get K (l_outer w) 0) tmp)
         else (k_axpby s1 tmp s1 x, upd (g_v g2) 0 tmp, l_data w) in
  let g3 := mkGmWs (g_H g2) sv (g_cs g2) (g_sn g2) dx vs' (g_z g2) in
  (* store the LGMRES augmentation vector *)
  let norm_dx := norm_b dx in
  if Nat.ltb 0 K && negb (is_zero norm_dx) then
    let slot := (n_outer mod K)%nat in
    let data2 := upd data1 slot (k_axpby (sinv norm_dx) dx s0 (data1 slot)) in
    mkLgCyc x' (mkLgWs g3 data2 (cb_push K (l_outer w) slot)) (n_it r) (SS n_outer) (n_oof r)
  else mkLgCyc x' (mkLgWs g3 data1 (l_outer w)) (n_it r) n_outer (n_oof r).

Fixpoint lg_outer (A P : vec -> vec) (prm : kprm) (f : vec) (eps nr : S)
                  (fuel : nat) (x : vec) (w : lg_ws) (it n_outer : nat) (oof : bool) : kres * lg_ws :=
  let g := l_g w in
  let g0 := if p_left prm
            then let v0 := k_residual f (A x) in
                 mkGmWs (g_H g) (g_s g) (g_cs g) (g_sn g) (P v0) (upd (g_v g) 0 v0) (g_z g)
            else mkGmWs (g_H g) (g_s g) (g_cs g) (g_sn g) (k_residual f (A x)) (g_v g) (g_z g) in
  let w0 := mkLgWs g0 (l_data w) (l_outer w) in
  let norm_r := norm_b (g_r g0) in
  if sltb norm_r eps || Nat.leb (p_maxiter prm) it then (mkRes it (norm_r / nr) x oof, w0)
  else match fuel with
       | O => (mkRes it (norm_r / nr) x true, w0)
       | SS k => let c := lg_cycle A P prm eps norm_r x w0 it n_outer in
                 lg_outer A P prm f eps nr k (y_x c) (y_ws c) (y_it c) (y_nouter c) (oof || y_oof c)
       end.

Definition lgmres (A P : vec -> vec) (prm : kprm) (f x0 : vec) (st : lg_ws) : kout * lg_ws :=
  (* if (prm.always_reset) outer_v.clear();  -- before the trivial-solution exit *)
  let st0 := if p_areset prm then mkLgWs (l_g st) (l_data st) cb_clear else st in
  match k_prologue norm_b prm f with
  | Trivial nr => (k_trivial nr x0, st0)
  | Go nr =>
    let eps := smax (p_tol prm * nr) (p_abstol prm) in
    let '(r, w) := lg_outer A P prm f eps nr (SS (p_maxiter prm)) x0 st0 0 0 false in
    (KOk r, w)
  end.

(* =====================================================================
   Householder QR (detail/qr.hpp:118-170, 257-300, 337-470), square m x m case used by
   BiCGStab(L).  The matrix is an index map relative to its origin.                          *)
Definition sqr (x : S) : S := x * x.
(* gen_reflector(order, alpha, x): (tau, new alpha, new x) *)
Definition gen_reflector (order : nat) (alpha : S) (x : nat -> S) : S * S * (nat -> S) :=
  if Nat.leb order 1 then (s0, alpha, x) else
  let n := (order - 1)%nat in
  let xnorm2 := fold_left (fun acc i => acc + sqr (sabs (x i))) (seq 0 n) (sofQ (0 # 1)%Q) in
  if is_zero xnorm2 then (s0, alpha, x) else
  let beta0 := - sabs (ssqrt (sqr (sabs alpha) + xnorm2)) in
  let beta := if sltb alpha (sofQ (0 # 1)%Q) then - beta0 else beta0 in
  let tau := s1 - sinv beta * alpha in
  let a' := sinv (alpha - beta * s1) in
  (tau, beta * s1, fun i => if Nat.ltb i n then a' * x i else x i).

(* apply_reflector(m, n, v, tau, C) on the block of C with origin (ro, co) *)
Definition app_refl (m n : nat) (v : nat -> S) (tau : S) (ro co : nat) (C : nat -> nat -> S) : nat -> nat -> S :=
  if is_zero tau then C else
  fold_left (fun C i =>
     let s := fold_left (fun s j => s + sadj (C (ro + j)%nat (co + i)%nat) * v j) (seq 1 (m - 1)) (sadj (C ro (co + i)%nat)) in
     let s := tau * sadj s in
     let C1 := updm C ro (co + i)%nat (C ro (co + i)%nat - s) in
     fold_left (fun C' j => updm C' (ro + j)%nat (co + i)%nat (C' (ro + j)%nat (co + i)%nat - v j * s)) (seq 1 (m - 1)) C1)
    (seq 0 n) C.
(* the same on a vector (n = 1) with origin o *)
Definition app_refl_vec (m : nat) (v : nat -> S) (tau : S) (o : nat) (f : nat -> S) : nat -> S :=
  if is_zero tau then f else
  let s := fold_left (fun s j => s + sadj (f (o + j)%nat) * v j) (seq 1 (m - 1)) (sadj (f o)) in
  let s := tau * sadj s in
  let f1 := upd f o (f o - s) in
  fold_left (fun f' j => upd f' (o + j)%nat (f' (o + j)%nat - v j * s)) (seq 1 (m - 1)) f1.

(* QR::compute(m, m, A): returns the factored array and tau *)
Definition qr_compute (m : nat) (A : nat -> nat -> S) : (nat -> nat -> S) * (nat -> S) :=
  fold_left (fun (At : (nat -> nat -> S) * (nat -> S)) i =>
     let '(A, tau) := At in
     let '(ti, aii, col) := gen_reflector (m - i) (A i i) (fun k => A (i + 1 + k)%nat i) in
     let A1 := fold_left (fun A' k => updm A' (i + 1 + k)%nat i (col k)) (seq 0 (m - i - 1)) (updm A i i aii) in
     let A2 := if Nat.ltb (i + 1) m
               then app_refl (m - i) (m - i - 1) (fun j => A1 (i + j)%nat i) (sadj ti) i (i + 1)%nat A1
               else A1 in
     (A2, upd tau i ti)) (seq 0 m) (A, fun _ => s0).

(* QR::solve(m, m, A, b, x, computed) for rows >= cols; (A, tau) are the factors when computed *)
Definition qr_solve (m : nat) (At : (nat -> nat -> S) * (nat -> S)) (b : nat -> S) (computed : bool)
  : ((nat -> nat -> S) * (nat -> S)) * (nat -> S) :=
  let '(A, tau) := if computed then At else qr_compute m (fst At) in
  let f := fold_left (fun f i => app_refl_vec (m - i) (fun j => A (i + j)%nat i) (sadj (tau i)) i f) (seq 0 m) b in
  let x := fold_left (fun x i =>
              let rii := A i i in
              if is_zero rii then x else
              let xi := sinv rii * x i in
              fold_left (fun x' j => upd x' j (x' j - A j i * xi)) (seq 0 i) (upd x i xi))
            (rev (seq 0 m)) f in
  ((A, tau), x).

(* =====================================================================
   BiCGStab(L) (bicgstabl.hpp:213-424).  MZa, MZb, Y0, YL and the QR scratch are written
   completely in every polynomial part before they are read and are computed locally here;
   the vectors Rt, X, B, T, R[0..L], U[0..L] are the workspace.                              *)
Record bl_ws := mkBlWs { l_Rt : vec; l_X : vec; l_B : vec; l_T : vec; l_R : nat -> vec; l_U : nat -> vec }.
Record bl_st := mkBlSt { t_x : vec; t_ws : bl_ws; t_alpha : S; t_rho0 : S; t_omega : S;
                         t_zeta : S; t_rnc : S; t_rnt : S; t_it : nat }.
Inductive bl_bicg := BlExc | BlDone (st : bl_st) | BlCont (st : bl_st).

(* for(j = 0; j < L; ++j) { ... }  over js = [0; ...; L-1] *)
Fixpoint bl_bicg_part (A P : vec -> vec) (left : bool) (eps : S) (js : list nat) (st : bl_st) : bl_bicg :=
  match js with
  | [] => BlCont st
  | j :: tl =>
    let w := t_ws st in
    let rho1 := ip (l_R w j) (l_Rt w) in
    if is_zero rho1 then BlExc else
    let beta := t_alpha st * (rho1 / t_rho0 st) in
    let U1 := fold_left (fun U i => upd U i (k_axpby s1 (l_R w i) (- beta) (U i))) (seq 0 (SS j)) (l_U w) in
    let '(uj1, T1) := pspmv left A P (U1 j) in
    let U2 := upd U1 (SS j) uj1 in
    let sigma := ip uj1 (l_Rt w) in
    if is_zero sigma then BlExc else
    let alpha := rho1 / sigma in
    let X := k_axpby alpha (U2 0) s1 (l_X w) in
    let R1 := fold_left (fun R i => upd R i (k_axpby (- alpha) (U2 (SS i)) s1 (R i))) (seq 0 (SS j)) (l_R w) in
    let '(rj1, T2) := pspmv left A P (R1 j) in
    let R2 := upd R1 (SS j) rj1 in
    let zeta := norm_a (R2 0) in
    let st' := mkBlSt (t_x st) (mkBlWs (l_Rt w) X (l_B w) T2 R2 U2) alpha rho1 (t_omega st)
                      zeta (smax zeta (t_rnc st)) (smax zeta (t_rnt st)) (t_it st) in
    if sltb zeta eps
    then BlDone (mkBlSt (t_x st) (t_ws st') alpha rho1 (t_omega st) zeta (t_rnc st') (t_rnt st') (t_it st + SS j)%nat)
    else bl_bicg_part A P left eps tl st'
  end.

Definition c07 : Q := (3152519739159347 # 4503599627370496)%Q.   (* the double 0.7 *)

(* the polynomial part: returns Y0[0..L] (None: "zero omega") *)
Definition bl_poly (L : nat) (convex : bool) (R : nat -> vec) : option ((nat -> S) * S) :=
  (* MZa(i,j) = <R_i, R_j>, j <= i; symmetrised *)
  (* after symmetrisation: diagonal <R_i,R_i>, both (i,j) and (j,i), j < i, hold adjoint(<R_i,R_j>) *)
  let MZb := fun i j => if Nat.ltb j i then sadj (ip (R i) (R j)) else if Nat.eqb i j then ip (R i) (R i) else sadj (ip (R j) (R i)) in
  let Asub := fun i j => MZb (1 + i)%nat (1 + j)%nat in
  let Y0 :=
    if convex || Nat.eqb L 1 then
      let '(_, y) := qr_solve L (Asub, fun _ => s0) (fun k => MZb 0 (1 + k)%nat) false in
      fun i => if Nat.eqb i 0 then - s1 else y (i - 1)%nat
    else
      let '(At, y0) := qr_solve (L - 1) (Asub, fun _ => s0) (fun k => MZb 0 (1 + k)%nat) false in
      let '(_, yl) := qr_solve (L - 1) At (fun k => MZb L (1 + k)%nat) true in
      let Y0 := fun i => if Nat.eqb i 0 then - s1 else if Nat.eqb i L then s0 else y0 (i - 1)%nat in
      let YL := fun i => if Nat.eqb i 0 then s0 else if Nat.eqb i L then - s1 else yl (i - 1)%nat in
      let '(dot0, dot1, dotA) :=
        fold_left (fun (d : S * S * S) i =>
          let '(d0, d1, dA) := d in
          let '(z0, zL) := fold_left (fun (z : S * S) j => (fst z + MZb i j * Y0 j, snd z + MZb i j * YL j)) (seq 0 (SS L)) (s0, s0) in
          (d0 + Y0 i * z0, d1 + YL i * zL, dA + YL i * z0)) (seq 0 (SS L)) (s0, s0, s0) in
      let kappa0 := ssqrt (sabs dot0) in
      let kappa1 := ssqrt (sabs dot1) in
      let kappaA := dotA in
      if negb (is_zero kappa0) && negb (is_zero kappa1) then
        let ghat := if sltb kappaA (sofQ c07 * kappa0 * kappa1)
                    then (if sltb kappaA (sofQ (0 # 1)%Q) then (- sofQ c07) * kappa0 / kappa1 else sofQ c07 * kappa0 / kappa1)
                    else kappaA / (kappa1 * kappa1) in
        fun i => Y0 i - ghat * YL i
      else Y0 in
  (* omega = Y0[L]; for(h = L; h > 0 && is_zero(omega); --h) omega = Y0[h]; *)
  let omega := fold_left (fun om h => if is_zero om then Y0 h else om) (rev (seq 1 L)) (Y0 L) in
  if is_zero omega then None else Some (Y0, omega).

Definition bl_step (A P : vec -> vec) (prm : kprm) (eps zeta0 : S) (st : bl_st) : bl_bicg :=
  let L := p_L prm in
  let left := p_left prm in
  let st1 := mkBlSt (t_x st) (t_ws st) (t_alpha st) (- t_omega st * t_rho0 st) (t_omega st)
                    (t_zeta st) (t_rnc st) (t_rnt st) (t_it st) in
  match bl_bicg_part A P left eps (seq 0 L) st1 with
  | BlExc => BlExc
  | BlDone s => BlDone s
  | BlCont s =>
    let w := t_ws s in
    match bl_poly L (p_convex prm) (l_R w) with
    | None => BlExc
    | Some (Y0, omega) =>
      let X := k_lin_comb (map (fun i => (Y0 (SS i), l_R w i)) (seq 0 L)) s1 (l_X w) in
      let Yn := fun i => (- s1) * Y0 i in
      let U0 := k_lin_comb (map (fun i => (Yn (SS i), l_U w (SS i))) (seq 0 L)) s1 (l_U w 0) in
      let R0 := k_lin_comb (map (fun i => (Yn (SS i), l_R w (SS i))) (seq 0 L)) s1 (l_R w 0) in
      let zeta := norm_a R0 in
      let w1 := mkBlWs (l_Rt w) X (l_B w) (l_T w) (upd (l_R w) 0 R0) (upd (l_U w) 0 U0) in
      let s1' := mkBlSt (t_x s) w1 (t_alpha s) (t_rho0 s) omega zeta (t_rnc s) (t_rnt s) (t_it s + L)%nat in
      if sltb (sofQ (0 # 1)%Q) (p_delta prm) then
        let rnc := smax zeta (t_rnc s) in
        let rnt := smax zeta (t_rnt s) in
        let update_x := sltb zeta (p_delta prm * zeta0) && sleb zeta0 rnc in
        if (sltb zeta (p_delta prm * rnt) && sleb zeta rnt) || update_x then
          let '(r0, T) := pspmv left A P X in
          let R0' := k_axpby s1 (l_B w) (- s1) r0 in
          if update_x then
            let x' := if left then k_axpby s1 X s1 (t_x s) else k_axpby s1 T s1 (t_x s) in
            BlCont (mkBlSt x' (mkBlWs (l_Rt w) (k_clear X) R0' T (upd (l_R w1) 0 R0') (l_U w1))
                           (t_alpha s) (t_rho0 s) omega zeta zeta zeta (t_it s + L)%nat)
          else
            BlCont (mkBlSt (t_x s) (mkBlWs (l_Rt w) X (l_B w) T (upd (l_R w1) 0 R0') (l_U w1))
                           (t_alpha s) (t_rho0 s) omega zeta rnc zeta (t_it s + L)%nat)
        else BlCont (mkBlSt (t_x s) w1 (t_alpha s) (t_rho0 s) omega zeta rnc rnt (t_it s + L)%nat)
      else BlCont s1'
    end
  end.

(* for(; iter < maxiter && zeta >= eps; iter += L): at most maxiter passes (L >= 1) *)
Fixpoint bl_loop (A P : vec -> vec) (prm : kprm) (eps zeta0 : S) (fuel : nat) (st : bl_st) : option (bl_st * bool) :=
  if Nat.ltb (t_it st) (p_maxiter prm) && negb (sltb (t_zeta st) eps) then
    match fuel with
    | O => Some (st, true)
    | SS k => match bl_step A P prm eps zeta0 st with
              | BlExc => None
              | BlDone s => Some (s, false)
              | BlCont s => bl_loop A P prm eps zeta0 k s
              end
    end
  else Some (st, false).

Definition bicgstabl (A P : vec -> vec) (prm : kprm) (f x0 : vec) (junk : bl_ws) : kout * bl_ws :=
  match k_prologue norm_a prm f with
  | Trivial nr => (k_trivial nr x0, junk)
  | Go nr =>
    let left := p_left prm in
    let '(B, T) := if left then let t := k_residual f (A x0) in (P t, t) else (k_residual f (A x0), l_T junk) in
    let zeta0 := norm_a B in
    let eps := smax (p_tol prm * nr) (p_abstol prm) in
    let w0 := mkBlWs B (k_clear (l_X junk)) B T (upd (l_R junk) 0 B) (upd (l_U junk) 0 (k_clear (l_U junk 0))) in
    let st0 := mkBlSt x0 w0 s0 s1 s1 zeta0 zeta0 zeta0 0 in
    match bl_loop A P prm eps zeta0 (p_maxiter prm) st0 with
    | None => (KExc, junk)
    | Some (st, oof) =>
      let w := t_ws st in
      let '(x, T') := if left then (k_axpby s1 (l_X w) s1 (t_x st), l_T w)
                      else let t := P (l_X w) in (k_axpby s1 t s1 (t_x st), t) in
      (KOk (mkRes (t_it st) (t_zeta st / nr) x oof), mkBlWs (l_Rt w) (l_X w) (l_B w) T' (l_R w) (l_U w))
    end
  end.

(* ---------- specification-level observables (used by theorems and oracles) ---------- *)
(* relative (preconditioned) residual of a vector x, with the solver's own norm *)
Definition true_res (nrm : vec -> S) (A P : vec -> vec) (left : bool) (f x : vec) : S :=
  let r := k_residual f (A x) in nrm (if left then P r else r).

End Krylov.
