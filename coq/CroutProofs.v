(* CroutProofs.v -- skyline_lu::factorize() (Direct.v) is exact for EVERY n and EVERY
   well-formed profile: the stored factors multiply to the dense view of the arrays that
   were filled in, L' U' = M0 (entries outside the profile are zero and stay zero), given
   that no pivot is zero.  Then: the constructor's fill equals P A P^T, and the end-to-end
   statement A x = b.   (C16 / A2) *)
From Amgcl Require Import Scalar Vec Crs KernelsProofs DirectUtil CuthillMcKee Direct DirectProofs.
Local Open Scope S_scope.
Local Open Scope nat_scope.

Section Crout.
Context {S : Scalar}.
Local Notation vec := (vec S).
Hypothesis Sft : Sfield S.
Hypothesis Seqb : seqb_spec S.
Let SrtC : Sring S := F_R Sft.
Add Ring SRingCrout : SrtC.

Variable n : nat.
Variable ptr : list nat.
Hypothesis Hwf : profile_wf n ptr.

(* ---------- skyline addressing ---------- *)
Definition beg (a : nat) : nat := a - plen ptr a.
Definition inp (a t : nat) : bool := Nat.leb (beg a) t && Nat.ltb t a.
Definition slot (a t : nat) : nat := pget ptr (Datatypes.S a) + t - a.
Definition sget (X : vec) (a t : nat) : S := if inp a t then vget X (slot a t) else s0.

Lemma wf_at a : a < n -> pget ptr a <= pget ptr (Datatypes.S a) /\ plen ptr a <= a.
Proof. intro Ha. destruct Hwf as [_ H]. destruct (H a Ha). unfold plen. split; assumption. Qed.

Lemma ptr_mono a b : a <= b -> b <= n -> pget ptr a <= pget ptr b.
Proof.
  intros Hab Hb. induction b as [|b IH]; [replace a with 0 by lia; lia|].
  destruct (Nat.eq_dec a (Datatypes.S b)) as [->|]; [lia|].
  destruct (wf_at b) as [H _]; [lia|]. specialize (IH ltac:(lia) ltac:(lia)). lia.
Qed.

Lemma inp_spec a t : inp a t = true <-> beg a <= t < a.
Proof.
  unfold inp. rewrite Bool.andb_true_iff, Nat.leb_le, Nat.ltb_lt. tauto.
Qed.

Lemma slot_range a t : a < n -> inp a t = true -> pget ptr a <= slot a t < pget ptr (Datatypes.S a).
Proof.
  intros Ha Hi. apply inp_spec in Hi. destruct (wf_at a Ha) as [H1 H2].
  unfold slot, beg, plen in *. lia.
Qed.

Lemma slot_lt_len a t : a < n -> inp a t = true -> slot a t < pget ptr n.
Proof.
  intros Ha Hi. destruct (slot_range a t Ha Hi). pose proof (ptr_mono (Datatypes.S a) n ltac:(lia) ltac:(lia)). lia.
Qed.

Lemma slot_inj a t a' t' : a < n -> a' < n -> inp a t = true -> inp a' t' = true ->
  slot a t = slot a' t' -> a = a' /\ t = t'.
Proof.
  intros Ha Ha' Hi Hi' E.
  destruct (slot_range a t Ha Hi) as [R1 R2]. destruct (slot_range a' t' Ha' Hi') as [R1' R2'].
  assert (a = a').
  { destruct (Nat.lt_trichotomy a a') as [Hl|[He|Hg]]; [|assumption|].
    - pose proof (ptr_mono (Datatypes.S a) a' ltac:(lia) ltac:(lia)). lia.
    - pose proof (ptr_mono (Datatypes.S a') a ltac:(lia) ltac:(lia)). lia. }
  subst a'. split; [reflexivity|].
  apply inp_spec in Hi. apply inp_spec in Hi'. destruct (wf_at a Ha). unfold slot, beg, plen in *. lia.
Qed.

Lemma sget_lset (X : vec) a t v a' t' : a < n -> a' < n -> inp a t = true -> length X = pget ptr n ->
  sget (lset X (slot a t) v) a' t' = if Nat.eqb a a' && Nat.eqb t t' then v else sget X a' t'.
Proof.
  intros Ha Ha' Hi HX. unfold sget. destruct (inp a' t') eqn:Hi'.
  - destruct (Nat.eqb_spec a a') as [->|Hne]; simpl.
    + destruct (Nat.eqb_spec t t') as [->|Hne].
      * apply vget_lset_eq. rewrite HX. apply slot_lt_len; assumption.
      * apply vget_lset_neq. intro E. destruct (slot_inj a' t a' t' Ha Ha' Hi Hi' E). congruence.
    + apply vget_lset_neq. intro E. destruct (slot_inj a t a' t' Ha Ha' Hi Hi' E). congruence.
  - destruct (Nat.eqb_spec a a') as [->|]; simpl; [|reflexivity].
    destruct (Nat.eqb_spec t t') as [->|]; [congruence|reflexivity].
Qed.

Lemma sget_out (X : vec) a t : inp a t = false -> sget X a t = s0.
Proof. intro H. unfold sget. rewrite H. reflexivity. Qed.

(* ---------- the truncated dot products ---------- *)
Lemma dot_spec (L U : vec) a b m (sum : S) : a < n -> b < n -> m <= a -> m <= b ->
  Nat.max (beg a) (beg b) <= m ->
  dot_sub L U (pget ptr a + Nat.max (beg a) (beg b) - beg a) (pget ptr b + Nat.max (beg a) (beg b) - beg b)
          (m - Nat.max (beg a) (beg b)) sum
  = (sum - sumn (fun t => sget L a t * sget U b t) m)%S.
Proof.
  intros Ha Hb Hma Hmb Hjm. set (jm := Nat.max (beg a) (beg b)) in *.
  unfold dot_sub.
  rewrite (sub_loop Sft (fun t => (vget L (pget ptr a + jm - beg a + t) * vget U (pget ptr b + jm - beg b + t))%S)).
  f_equal.
  transitivity (sumn (fun t => if Nat.leb jm t then (sget L a t * sget U b t)%S else s0) (jm + (m - jm))).
  - rewrite (sumn_shift Sft). apply sumn_ext. intros u Hu. simpl.
    destruct (wf_at a Ha) as [A1 A2]. destruct (wf_at b Hb) as [B1 B2].
    assert (Ia : inp a (jm + u) = true) by (apply inp_spec; unfold jm, beg, plen in *; lia).
    assert (Ib : inp b (jm + u) = true) by (apply inp_spec; unfold jm, beg, plen in *; lia).
    unfold sget. rewrite Ia, Ib. unfold slot.
    replace (pget ptr (Datatypes.S a) + (jm + u) - a) with (pget ptr a + jm - beg a + u)
      by (unfold jm, beg, plen in *; lia).
    replace (pget ptr (Datatypes.S b) + (jm + u) - b) with (pget ptr b + jm - beg b + u)
      by (unfold jm, beg, plen in *; lia).
    reflexivity.
  - replace (jm + (m - jm)) with m by lia. apply sumn_ext. intros t Ht.
    destruct (Nat.leb_spec jm t); [reflexivity|].
    assert (inp a t = false \/ inp b t = false) as [E|E].
    { unfold inp. destruct (Nat.leb_spec (beg a) t); [|left; reflexivity].
      destruct (Nat.leb_spec (beg b) t); [unfold jm in *; lia|right; reflexivity]. }
    + rewrite (sget_out L a t E). ring.
    + rewrite (sget_out U b t E). ring.
Qed.

(* ---------- normal forms of the two inner phases ---------- *)
Lemma beg_le a : beg a <= a.
Proof. unfold beg. lia. Qed.

Lemma beg_code a : a < n -> a + pget ptr a - pget ptr (Datatypes.S a) = beg a.
Proof. intro Ha. destruct (wf_at a Ha). unfold beg, plen. lia. Qed.

Lemma entry_code c i : c < n -> beg c <= i -> i < c -> pget ptr c + (i - beg c) = slot c i.
Proof. intros Hc H1 H2. destruct (wf_at c Hc). unfold slot, beg, plen in *. lia. Qed.

Lemma crout_U_col_nf k (L D U : vec) : Datatypes.S k < n ->
  crout_U_col ptr L D k U =
  for_loop (beg (Datatypes.S k)) (Datatypes.S k - beg (Datatypes.S k)) (fun i U =>
    if Nat.eqb i 0 then U else
    lset U (slot (Datatypes.S k) i)
         (vget D i * (vget U (slot (Datatypes.S k) i)
                      - sumn (fun t => sget L i t * sget U (Datatypes.S k) t) i))%S) U.
Proof.
  intro Hc. unfold crout_U_col. replace (k + 1) with (Datatypes.S k) by lia.
  replace (k + 2) with (Datatypes.S (Datatypes.S k)) by lia. cbv zeta.
  rewrite (beg_code (Datatypes.S k) Hc). apply for_loop_ext. intros i s Hi.
  pose proof (beg_le (Datatypes.S k)). pose proof (beg_le i).
  destruct (Nat.eqb i 0); [reflexivity|].
  replace (i + 1) with (Datatypes.S i) by lia. rewrite (beg_code i) by lia.
  rewrite entry_code by lia. f_equal. f_equal.
  rewrite (Nat.max_comm (beg (Datatypes.S k)) (beg i)).
  apply dot_spec; lia.
Qed.

Lemma crout_L_row_nf k (U L : vec) : Datatypes.S k < n ->
  crout_L_row ptr U k L =
  for_loop (beg (Datatypes.S k)) (Datatypes.S k - beg (Datatypes.S k)) (fun i L =>
    if Nat.eqb i 0 then L else
    lset L (slot (Datatypes.S k) i)
         (vget L (slot (Datatypes.S k) i)
          - sumn (fun t => sget L (Datatypes.S k) t * sget U i t) i)%S) L.
Proof.
  intro Hc. unfold crout_L_row. replace (k + 1) with (Datatypes.S k) by lia.
  replace (k + 2) with (Datatypes.S (Datatypes.S k)) by lia. cbv zeta.
  rewrite (beg_code (Datatypes.S k) Hc). apply for_loop_ext. intros i s Hi.
  pose proof (beg_le (Datatypes.S k)). pose proof (beg_le i).
  destruct (Nat.eqb i 0); [reflexivity|].
  replace (i + 1) with (Datatypes.S i) by lia. rewrite (beg_code i) by lia.
  rewrite entry_code by lia. f_equal.
  rewrite (Nat.max_comm (beg i) (beg (Datatypes.S k))).
  apply dot_spec; lia.
Qed.

(* ---------- what the two phases compute ---------- *)
Lemma U_phase k (L D U1 : vec) : Datatypes.S k < n -> length U1 = pget ptr n ->
  length (crout_U_col ptr L D k U1) = pget ptr n /\
  (forall a t, a < n -> a <> Datatypes.S k -> sget (crout_U_col ptr L D k U1) a t = sget U1 a t) /\
  sget (crout_U_col ptr L D k U1) (Datatypes.S k) 0 = sget U1 (Datatypes.S k) 0 /\
  (forall i, 1 <= i -> inp (Datatypes.S k) i = true ->
     sget (crout_U_col ptr L D k U1) (Datatypes.S k) i =
     (vget D i * (sget U1 (Datatypes.S k) i
                  - sumn (fun t => sget L i t * sget (crout_U_col ptr L D k U1) (Datatypes.S k) t) i))%S).
Proof.
  intros Hc HU. rewrite crout_U_col_nf by assumption. set (c := Datatypes.S k) in *.
  pose (Rec := fun (U' : vec) r => sget U' c r =
        (vget D r * (sget U1 c r - sumn (fun t => sget L r t * sget U' c t) r))%S).
  pose (P := fun i (U' : vec) =>
     length U' = pget ptr n /\
     (forall a t, a < n -> a <> c -> sget U' a t = sget U1 a t) /\
     (forall r, i <= r \/ r = 0 -> sget U' c r = sget U1 c r) /\
     (forall r, 1 <= r -> beg c <= r < i -> Rec U' r)).
  pose proof (beg_le c) as Hbc.
  match goal with |- context [for_loop ?lo ?cnt ?body U1] =>
    assert (H : P (lo + cnt) (for_loop lo cnt body U1)) end.
  { apply (for_loop_inv P).
    - unfold P. repeat split; try assumption; try reflexivity. intros; lia.
    - intros i U' Hi (HL & Hfr & Hun & Hrec). destruct (Nat.eqb_spec i 0) as [->|Hi0].
      + unfold P. split; [assumption|]. split; [assumption|]. split.
        * intros r Hr. apply Hun. lia.
        * intros r H1 H2. lia.
      + assert (Ici : inp c i = true) by (apply inp_spec; lia).
        assert (Evi : vget U' (slot c i) = sget U1 c i).
        { rewrite <- (Hun i) by lia. unfold sget. rewrite Ici. reflexivity. }
        rewrite Evi. unfold P. split; [rewrite lset_length; assumption|]. split; [|split].
        * intros a t Ha Hne. rewrite sget_lset by (try assumption; lia).
          destruct (Nat.eqb_spec c a); [congruence|]. simpl. apply Hfr; assumption.
        * intros r Hr. rewrite sget_lset by (try assumption; lia).
          rewrite Nat.eqb_refl. destruct (Nat.eqb_spec i r); [lia|]. simpl. apply Hun. lia.
        * assert (Hsame : forall r, r <= i -> sumn (fun t => (sget L r t * sget (lset U' (slot c i)
                     (vget D i * (sget U1 c i - sumn (fun t0 => sget L i t0 * sget U' c t0) i))%S) c t)%S) r
                   = sumn (fun t => (sget L r t * sget U' c t)%S) r).
          { intros r Hr. apply sumn_ext. intros t Ht. rewrite sget_lset by (try assumption; lia).
            rewrite Nat.eqb_refl. destruct (Nat.eqb_spec i t); [lia|]. reflexivity. }
          intros r H1 H2. unfold Rec. rewrite Hsame by lia. rewrite sget_lset by (try assumption; lia).
          rewrite Nat.eqb_refl. destruct (Nat.eqb_spec i r) as [<-|Hne]; simpl; [reflexivity|].
          apply Hrec; [assumption|lia]. }
  replace (beg c + (c - beg c)) with c in H by lia.
  destruct H as (HL & Hfr & Hun & Hrec). split; [assumption|]. split; [assumption|]. split.
  - apply Hun. right. reflexivity.
  - intros i H1 Hi. apply inp_spec in Hi. apply Hrec; [assumption|lia].
Qed.

Lemma L_phase k (U L1 : vec) : Datatypes.S k < n -> length L1 = pget ptr n ->
  length (crout_L_row ptr U k L1) = pget ptr n /\
  (forall a t, a < n -> a <> Datatypes.S k -> sget (crout_L_row ptr U k L1) a t = sget L1 a t) /\
  sget (crout_L_row ptr U k L1) (Datatypes.S k) 0 = sget L1 (Datatypes.S k) 0 /\
  (forall j, 1 <= j -> inp (Datatypes.S k) j = true ->
     sget (crout_L_row ptr U k L1) (Datatypes.S k) j =
     (sget L1 (Datatypes.S k) j
      - sumn (fun t => sget (crout_L_row ptr U k L1) (Datatypes.S k) t * sget U j t) j)%S).
Proof.
  intros Hc HU. rewrite crout_L_row_nf by assumption. set (c := Datatypes.S k) in *.
  pose (Rec := fun (L' : vec) r => sget L' c r =
        (sget L1 c r - sumn (fun t => sget L' c t * sget U r t) r)%S).
  pose (P := fun i (L' : vec) =>
     length L' = pget ptr n /\
     (forall a t, a < n -> a <> c -> sget L' a t = sget L1 a t) /\
     (forall r, i <= r \/ r = 0 -> sget L' c r = sget L1 c r) /\
     (forall r, 1 <= r -> beg c <= r < i -> Rec L' r)).
  pose proof (beg_le c) as Hbc.
  match goal with |- context [for_loop ?lo ?cnt ?body L1] =>
    assert (H : P (lo + cnt) (for_loop lo cnt body L1)) end.
  { apply (for_loop_inv P).
    - unfold P. repeat split; try assumption; try reflexivity. intros; lia.
    - intros i L' Hi (HL & Hfr & Hun & Hrec). destruct (Nat.eqb_spec i 0) as [->|Hi0].
      + unfold P. split; [assumption|]. split; [assumption|]. split.
        * intros r Hr. apply Hun. lia.
        * intros r H1 H2. lia.
      + assert (Ici : inp c i = true) by (apply inp_spec; lia).
        assert (Evi : vget L' (slot c i) = sget L1 c i).
        { rewrite <- (Hun i) by lia. unfold sget. rewrite Ici. reflexivity. }
        rewrite Evi. unfold P. split; [rewrite lset_length; assumption|]. split; [|split].
        * intros a t Ha Hne. rewrite sget_lset by (try assumption; lia).
          destruct (Nat.eqb_spec c a); [congruence|]. simpl. apply Hfr; assumption.
        * intros r Hr. rewrite sget_lset by (try assumption; lia).
          rewrite Nat.eqb_refl. destruct (Nat.eqb_spec i r); [lia|]. simpl. apply Hun. lia.
        * assert (Hsame : forall r, r <= i -> sumn (fun t => (sget (lset L' (slot c i)
                     (sget L1 c i - sumn (fun t0 => sget L' c t0 * sget U i t0) i)%S) c t * sget U r t)%S) r
                   = sumn (fun t => (sget L' c t * sget U r t)%S) r).
          { intros r Hr. apply sumn_ext. intros t Ht. rewrite sget_lset by (try assumption; lia).
            rewrite Nat.eqb_refl. destruct (Nat.eqb_spec i t); [lia|]. reflexivity. }
          intros r H1 H2. unfold Rec. rewrite Hsame by lia. rewrite sget_lset by (try assumption; lia).
          rewrite Nat.eqb_refl. destruct (Nat.eqb_spec i r) as [<-|Hne]; simpl; [reflexivity|].
          apply Hrec; [assumption|lia]. }
  replace (beg c + (c - beg c)) with c in H by lia.
  destruct H as (HL & Hfr & Hun & Hrec). split; [assumption|]. split; [assumption|]. split.
  - apply Hun. right. reflexivity.
  - intros i H1 Hi. apply inp_spec in Hi. apply Hrec; [assumption|lia].
Qed.

(* ---------- one pass of the k loop ---------- *)
Lemma crout_step_spec k (L U D L2 U2 D2 : vec) : Datatypes.S k < n ->
  length L = pget ptr n -> length U = pget ptr n -> length D = n ->
  crout_step ptr k (L, U, D) = Some (L2, U2, D2) ->
  (length L2 = pget ptr n /\ length U2 = pget ptr n /\ length D2 = n) /\
  (forall a t, a < n -> a <> Datatypes.S k -> sget L2 a t = sget L a t /\ sget U2 a t = sget U a t) /\
  (forall a, a <> Datatypes.S k -> vget D2 a = vget D a) /\
  (forall i, inp (Datatypes.S k) i = true ->
     sget U2 (Datatypes.S k) i =
     (vget D i * (sget U (Datatypes.S k) i - sumn (fun t => sget L i t * sget U2 (Datatypes.S k) t) i))%S) /\
  (forall j, inp (Datatypes.S k) j = true ->
     sget L2 (Datatypes.S k) j =
     (sget L (Datatypes.S k) j - sumn (fun t => sget L2 (Datatypes.S k) t * sget U2 j t) j)%S) /\
  (exists p, p <> s0 /\
     p = (vget D (Datatypes.S k) - sumn (fun t => sget L2 (Datatypes.S k) t * sget U2 (Datatypes.S k) t) (Datatypes.S k))%S /\
     vget D2 (Datatypes.S k) = sinv p).
Proof.
  intros Hc HL HU HD H. unfold crout_step in H.
  replace (k + 1) with (Datatypes.S k) in H by lia. replace (k + 2) with (Datatypes.S (Datatypes.S k)) in H by lia.
  set (c := Datatypes.S k) in *. cbv zeta in H.
  destruct (wf_at c Hc) as [W1 W2]. pose proof (beg_le c) as Hbc.
  (* the row-0 pre-scaling *)
  set (U1 := if Nat.eqb (pget ptr c + k + 1) (pget ptr (Datatypes.S c))
             then lset U (pget ptr c) (vget D 0 * vget U (pget ptr c))%S else U) in *.
  assert (HU1 : length U1 = pget ptr n /\
                (forall a t, a < n -> a <> c -> sget U1 a t = sget U a t) /\
                (forall i, 1 <= i -> sget U1 c i = sget U c i) /\
                sget U1 c 0 = (vget D 0 * sget U c 0)%S).
  { unfold U1. destruct (Nat.eqb_spec (pget ptr c + k + 1) (pget ptr (Datatypes.S c))) as [E|E].
    - assert (Ic0 : inp c 0 = true) by (apply inp_spec; unfold beg, plen, c in *; lia).
      assert (Es : pget ptr c = slot c 0) by (unfold slot, c in *; lia).
      rewrite Es. split; [rewrite lset_length; assumption|]. split; [|split].
      + intros a t Ha Hne. rewrite sget_lset by assumption.
        destruct (Nat.eqb_spec c a); [congruence|]. reflexivity.
      + intros i Hi. rewrite sget_lset by assumption. rewrite Nat.eqb_refl.
        destruct (Nat.eqb_spec 0 i); [lia|]. reflexivity.
      + rewrite sget_lset by assumption. rewrite !Nat.eqb_refl. simpl.
        unfold sget. rewrite Ic0. reflexivity.
    - split; [assumption|]. split; [reflexivity|]. split; [reflexivity|].
      assert (Ic0 : inp c 0 = false).
      { destruct (inp c 0) eqn:E0; [|reflexivity]. apply inp_spec in E0. unfold beg, plen, c in *. lia. }
      rewrite (sget_out U c 0 Ic0). ring. }
  destruct HU1 as (HU1L & HU1f & HU1i & HU10).
  destruct (U_phase k L D U1 Hc HU1L) as (HU2L & HU2f & HU20 & HU2i). fold c in HU2f, HU20, HU2i.
  set (Ux := crout_U_col ptr L D k U1) in *.
  destruct (L_phase k Ux L Hc HL) as (HL2L & HL2f & HL20 & HL2j). fold c in HL2f, HL20, HL2j.
  set (Lx := crout_L_row ptr Ux k L) in *.
  (* the pivot *)
  assert (Edot : dot_sub Lx Ux (pget ptr c) (pget ptr c) (pget ptr (Datatypes.S c) - pget ptr c) (vget D c)
                 = (vget D c - sumn (fun t => sget Lx c t * sget Ux c t) c)%S).
  { rewrite <- (dot_spec Lx Ux c c c (vget D c)) by (try lia; rewrite Nat.max_id; lia).
    rewrite Nat.max_id. f_equal; unfold beg, plen in *; lia. }
  rewrite Edot in H.
  destruct (is_zero (vget D c - sumn (fun t => sget Lx c t * sget Ux c t) c)%S) eqn:Ez; [discriminate|].
  injection H as <- <- <-.
  split; [split; [assumption|split; [assumption|rewrite lset_length; assumption]]|].
  split.
  { intros a t Ha Hne. split; [apply HL2f; assumption|]. rewrite HU2f by assumption. apply HU1f; assumption. }
  split.
  { intros a Hne. apply vget_lset_neq. unfold c in *. lia. }
  split.
  { intros i Hi. destruct (Nat.eq_dec i 0) as [->|Hi0].
    - rewrite HU20, HU10. simpl. ring.
    - rewrite HU2i by (try assumption; lia). rewrite HU1i by lia. reflexivity. }
  split.
  { intros j Hj. destruct (Nat.eq_dec j 0) as [->|Hj0].
    - rewrite HL20. simpl. ring.
    - apply HL2j; [lia|assumption]. }
  exists (vget D c - sumn (fun t => sget Lx c t * sget Ux c t) c)%S.
  split; [apply (is_zero_false Seqb); assumption|]. split; [reflexivity|].
  apply vget_lset_eq. lia.
Qed.

(* ---------- the outer loop: Crout recurrences as an invariant ---------- *)
Variables L0 U0 D0 : vec.
Hypothesis HL0 : length L0 = pget ptr n.
Hypothesis HU0 : length U0 = pget ptr n.
Hypothesis HD0 : length D0 = n.

Definition RecU (L U D : vec) (c i : nat) : Prop :=
  sget U c i = (vget D i * (sget U0 c i - sumn (fun t => sget L i t * sget U c t) i))%S.
Definition RecL (L U : vec) (c j : nat) : Prop :=
  sget L c j = (sget L0 c j - sumn (fun t => sget L c t * sget U j t) j)%S.
Definition RecD (L U D : vec) (c : nat) : Prop :=
  exists p, p <> s0 /\ p = (vget D0 c - sumn (fun t => sget L c t * sget U c t) c)%S /\ vget D c = sinv p.

Definition CInv (m : nat) (st : vec * vec * vec) : Prop :=
  let '(L, U, D) := st in
  (length L = pget ptr n /\ length U = pget ptr n /\ length D = n) /\
  (forall c, c <= m -> c < n ->
     (forall i, inp c i = true -> RecU L U D c i) /\ (forall j, inp c j = true -> RecL L U c j) /\ RecD L U D c) /\
  (forall c, m < c -> c < n ->
     (forall t, sget L c t = sget L0 c t /\ sget U c t = sget U0 c t) /\ vget D c = vget D0 c).

Lemma CInv_step k (L U D L2 U2 D2 : vec) : Datatypes.S k < n ->
  CInv k (L, U, D) -> crout_step ptr k (L, U, D) = Some (L2, U2, D2) -> CInv (Datatypes.S k) (L2, U2, D2).
Proof.
  intros Hc ((HL & HU & HD) & Hdone & Htodo) Hst.
  destruct (crout_step_spec k L U D L2 U2 D2 Hc HL HU HD Hst) as (Hlen & Hfr & HfrD & HcU & HcL & HcD).
  set (c := Datatypes.S k) in *.
  destruct (Htodo c ltac:(unfold c; lia) Hc) as (Hun & HunD).
  unfold CInv. split; [exact Hlen|]. split.
  - intros c' Hc'le Hc'n. destruct (Nat.eq_dec c' c) as [->|Hne].
    + (* the new row / column *)
      split; [|split].
      * intros i Hi. unfold RecU. rewrite (HcU i Hi). apply inp_spec in Hi.
        rewrite HfrD by lia. rewrite (proj2 (Hun i)). f_equal. f_equal.
        apply sumn_ext. intros t Ht. rewrite (proj1 (Hfr i t ltac:(lia) ltac:(lia))). reflexivity.
      * intros j Hj. unfold RecL. rewrite (HcL j Hj). rewrite (proj1 (Hun j)). reflexivity.
      * destruct HcD as (p & Hp & Ep & ED). exists p. split; [assumption|]. split; [|assumption].
        rewrite Ep, HunD. reflexivity.
    + (* rows / columns finished earlier are not touched *)
      assert (Hc'k : c' <= k) by (unfold c in *; lia).
      destruct (Hdone c' Hc'k Hc'n) as (HU' & HL' & HD').
      split; [|split].
      * intros i Hi. specialize (HU' i Hi). apply inp_spec in Hi. unfold RecU in *.
        rewrite (proj2 (Hfr c' i Hc'n Hne)). rewrite HfrD by lia. rewrite HU'. f_equal. f_equal.
        apply sumn_ext. intros t Ht.
        rewrite (proj1 (Hfr i t ltac:(lia) ltac:(lia))), (proj2 (Hfr c' t Hc'n Hne)). reflexivity.
      * intros j Hj. specialize (HL' j Hj). apply inp_spec in Hj. unfold RecL in *.
        rewrite (proj1 (Hfr c' j Hc'n Hne)). rewrite HL'. f_equal.
        apply sumn_ext. intros t Ht.
        rewrite (proj1 (Hfr c' t Hc'n Hne)), (proj2 (Hfr j t ltac:(lia) ltac:(lia))). reflexivity.
      * destruct HD' as (p & Hp & Ep & ED). exists p. split; [assumption|]. split.
        -- rewrite Ep. f_equal. apply sumn_ext. intros t Ht.
           rewrite (proj1 (Hfr c' t Hc'n Hne)), (proj2 (Hfr c' t Hc'n Hne)). reflexivity.
        -- rewrite HfrD by assumption. assumption.
  - intros c' Hgt Hc'n. assert (Hne : c' <> c) by lia.
    destruct (Htodo c' ltac:(unfold c in *; lia) Hc'n) as (Hun' & HunD').
    split.
    + intro t. destruct (Hfr c' t Hc'n Hne) as [E1 E2]. rewrite E1, E2. apply Hun'.
    + rewrite HfrD by assumption. assumption.
Qed.

Lemma factorize_CInv (L U D : vec) : 0 < n ->
  factorize n ptr (L0, U0, D0) = Some (L, U, D) -> CInv (n - 1) (L, U, D).
Proof.
  intros Hn H. unfold factorize in H. destruct (is_zero (vget D0 0)) eqn:E0; [discriminate|].
  pose (P := fun k (o : option (vec * vec * vec)) => match o with None => True | Some st => CInv k st end).
  assert (HP : P (0 + (n - 1)) (for_loop 0 (n - 1)
     (fun k o => match o with None => None | Some lud => crout_step ptr k lud end)
     (Some (L0, U0, lset D0 0 (sinv (vget D0 0)))))).
  { apply (for_loop_inv P).
    - simpl. split; [split; [assumption|split; [assumption|rewrite lset_length; assumption]]|]. split.
      + intros c Hc0 Hcn. replace c with 0 by lia. split; [|split].
        * intros i Hi. apply inp_spec in Hi. lia.
        * intros j Hj. apply inp_spec in Hj. lia.
        * exists (vget D0 0 - sumn (fun t => sget L0 0 t * sget U0 0 t) 0)%S. simpl.
          replace (vget D0 0 - s0)%S with (vget D0 0) by ring.
          split; [apply (is_zero_false Seqb); assumption|]. split; [reflexivity|].
          apply vget_lset_eq. lia.
      + intros c Hc0 Hcn. split; [intro t; split; reflexivity|]. apply vget_lset_neq. lia.
    - intros k o Hk Ho. destruct o as [[[Lk Uk] Dk]|]; [|exact I]. simpl in Ho.
      destruct (crout_step ptr k (Lk, Uk, Dk)) as [[[L' U'] D']|] eqn:Ec; [|exact I].
      simpl. eapply CInv_step; [lia|exact Ho|exact Ec]. }
  rewrite H in HP. exact HP.
Qed.

(* ---------- the stored factors multiply to the dense view of the input arrays ---------- *)
Definition M0 (i j : nat) : S :=
  if Nat.ltb j i then sget L0 i j else if Nat.eqb i j then vget D0 i else sget U0 j i.

Lemma sumn_upto (F : nat -> S) m : forall k, m < k -> (forall t, m < t -> t < k -> F t = s0) ->
  sumn F k = (sumn F m + F m)%S.
Proof.
  induction k as [|k IH]; intros Hm HF; [lia|].
  destruct (Nat.eq_dec m k) as [->|Hne]; [reflexivity|].
  simpl. rewrite IH by (try lia; intros; apply HF; lia). rewrite (HF k) by lia. ring.
Qed.

Lemma sinv_invol (p : S) : p <> s0 -> sinv (sinv p) = p.
Proof.
  intro Hp. assert (H1 : (sinv p * p = s1)%S) by (apply (Finv_l Sft); assumption).
  assert (Hq : sinv p <> s0) by (apply (sinv_nonzero Sft); assumption).
  assert (H2 : (sinv (sinv p) * sinv p = s1)%S) by (apply (Finv_l Sft); assumption).
  transitivity (sinv (sinv p) * (sinv p * p))%S; [rewrite H1; ring|].
  transitivity ((sinv (sinv p) * sinv p) * p)%S; [ring|]. rewrite H2. ring.
Qed.

Lemma sumn_all_zero (F : nat -> S) k : (forall t, t < k -> F t = s0) -> sumn F k = s0.
Proof.
  intro H. transitivity (sumn (fun _ : nat => @s0 S) k); [apply sumn_ext; assumption|apply (sumn_zero SrtC)].
Qed.

Theorem crout_product perm (L U D : vec) : CInv (n - 1) (L, U, D) ->
  forall i j, i < n -> j < n ->
    sumn (fun t => Lfull (mkSky n perm ptr L U D) i t * Ufull (mkSky n perm ptr L U D) t j)%S n = M0 i j.
Proof.
  intros (_ & Hdone & _) i j Hi Hj. set (f := mkSky n perm ptr L U D).
  assert (ELf : forall a t, Lf f a t = sget L a t) by reflexivity.
  assert (EUf : forall a t, Uf f a t = sget U t a) by reflexivity.
  destruct (Hdone i ltac:(lia) Hi) as (HUi & HLi & HDi).
  destruct (Hdone j ltac:(lia) Hj) as (HUj & HLj & HDj).
  unfold M0. destruct (Nat.lt_trichotomy i j) as [Hlt|[Heq|Hgt]].
  - (* strictly upper part *)
    destruct (Nat.ltb_spec j i); [lia|]. destruct (Nat.eqb_spec i j); [lia|].
    rewrite (sumn_upto _ i n Hi).
    2:{ intros t H1 H2. unfold Lfull. destruct (Nat.ltb_spec t i); [lia|]. destruct (Nat.eqb_spec i t); [lia|]. ring. }
    transitivity (sumn (fun t => sget L i t * sget U j t)%S i + sinv (vget D i) * sget U j i)%S.
    { f_equal.
      - apply sumn_ext. intros t Ht. unfold Lfull, Ufull.
        destruct (Nat.ltb_spec t i); [|lia]. destruct (Nat.ltb_spec t j); [|lia]. rewrite ELf, EUf. reflexivity.
      - unfold Lfull, Ufull. destruct (Nat.ltb_spec i i); [lia|]. rewrite Nat.eqb_refl.
        destruct (Nat.ltb_spec i j); [|lia]. rewrite EUf. reflexivity. }
    destruct (inp j i) eqn:Iji.
    + rewrite (HUj i Iji). destruct HDi as (p & Hp & _ & ED). rewrite ED.
      assert (Hq : sinv p <> s0) by (apply (sinv_nonzero Sft); assumption).
      assert (H2 : (sinv (sinv p) * sinv p = s1)%S) by (apply (Finv_l Sft); assumption).
      set (sm := sumn (fun t => (sget L i t * sget U j t)%S) i). set (X := sget U0 j i).
      transitivity (sm + (sinv (sinv p) * sinv p) * (X - sm))%S; [ring|]. rewrite H2. ring.
    + rewrite (sget_out U j i Iji), (sget_out U0 j i Iji).
      rewrite sumn_all_zero; [ring|]. intros t Ht.
      assert (inp j t = false).
      { destruct (inp j t) eqn:E; [|reflexivity]. apply inp_spec in E.
        assert (inp j i = true) by (apply inp_spec; lia). congruence. }
      rewrite (sget_out U j t) by assumption. ring.
  - (* diagonal *)
    subst j. destruct (Nat.ltb_spec i i); [lia|]. rewrite Nat.eqb_refl.
    rewrite (sumn_upto _ i n Hi).
    2:{ intros t H1 H2. unfold Lfull. destruct (Nat.ltb_spec t i); [lia|]. destruct (Nat.eqb_spec i t); [lia|]. ring. }
    transitivity (sumn (fun t => sget L i t * sget U i t)%S i + sinv (vget D i))%S.
    { f_equal.
      - apply sumn_ext. intros t Ht. unfold Lfull, Ufull.
        destruct (Nat.ltb_spec t i); [|lia]. rewrite ELf, EUf. reflexivity.
      - unfold Lfull, Ufull. destruct (Nat.ltb_spec i i); [lia|]. rewrite Nat.eqb_refl.
        unfold f. cbn [sk_D]. ring. }
    destruct HDi as (p & Hp & Ep & ED). rewrite ED, (sinv_invol p Hp). rewrite Ep. ring.
  - (* strictly lower part *)
    destruct (Nat.ltb_spec j i); [|lia].
    rewrite (sumn_upto _ j n Hj).
    2:{ intros t H1 H2. unfold Ufull. destruct (Nat.ltb_spec t j); [lia|]. destruct (Nat.eqb_spec t j); [lia|]. ring. }
    transitivity (sumn (fun t => sget L i t * sget U j t)%S j + sget L i j)%S.
    { f_equal.
      - apply sumn_ext. intros t Ht. unfold Lfull, Ufull.
        destruct (Nat.ltb_spec t i); [|lia]. destruct (Nat.ltb_spec t j); [|lia]. rewrite ELf, EUf. reflexivity.
      - unfold Lfull, Ufull. destruct (Nat.ltb_spec j i); [|lia]. destruct (Nat.ltb_spec j j); [lia|].
        rewrite Nat.eqb_refl, ELf. ring. }
    destruct (inp i j) eqn:Iij.
    + rewrite (HLi j Iij). ring.
    + rewrite (sget_out L i j Iij), (sget_out L0 i j Iij).
      rewrite sumn_all_zero; [ring|]. intros t Ht.
      assert (inp i t = false).
      { destruct (inp i t) eqn:E; [|reflexivity]. apply inp_spec in E.
        assert (inp i j = true) by (apply inp_spec; lia). congruence. }
      rewrite (sget_out L i t) by assumption. ring.
Qed.

End Crout.

(* ====================================================================== *)
(* The constructor: permutation, profile and fill.                              *)
From Coq Require Import Permutation.
Section Fill.
Context {S : Scalar}.
Local Notation vec := (vec S).
Hypothesis Sft : Sfield S.
Hypothesis Seqb : seqb_spec S.
Let SrtF : Sring S := F_R Sft.
Add Ring SRingFill : SrtF.

Variable n : nat.

(* ---------- inverse permutation ---------- *)
Lemma perm_facts perm : Permutation perm (seq 0 n) ->
  length perm = n /\ NoDup perm /\ (forall i, i < n -> pget perm i < n) /\
  (forall r, r < n -> exists i, i < n /\ pget perm i = r).
Proof.
  intro Hp. assert (HL : length perm = n) by (rewrite (Permutation_length Hp); apply seq_length).
  split; [assumption|]. split; [eapply Permutation_NoDup; [apply Permutation_sym; eassumption|apply seq_NoDup]|].
  split.
  - intros i Hi. assert (In (nth i perm 0) (seq 0 n)) by (eapply Permutation_in; [eassumption|apply nth_In; lia]).
    apply in_seq in H. unfold pget. lia.
  - intros r Hr. assert (Hin : In r perm) by (eapply Permutation_in; [apply Permutation_sym; eassumption|apply in_seq; lia]).
    destruct (In_nth perm r 0 Hin) as (i & Hi & E). exists i. split; [lia|exact E].
Qed.

Lemma inverse_perm_spec perm : Permutation perm (seq 0 n) ->
  length (inverse_perm n perm) = n /\
  (forall i, i < n -> pget (inverse_perm n perm) (pget perm i) = i) /\
  (forall r, r < n -> pget (inverse_perm n perm) r < n /\ pget perm (pget (inverse_perm n perm) r) = r).
Proof.
  intro Hp. destruct (perm_facts perm Hp) as (HL & Hnd & Hr & Hs).
  unfold inverse_perm.
  pose (P := fun k (ip : list nat) => length ip = n /\ forall i, i < k -> pget ip (pget perm i) = i).
  assert (H : P (0 + n) (for_loop 0 n (fun i ip => lset ip (pget perm i) i) (repeat 0 n))).
  { apply (for_loop_inv P).
    - split; [apply repeat_length|]. intros; lia.
    - intros k ip Hk (HLi & Hi). split; [rewrite lset_length; assumption|].
      intros i Hik. rewrite pget_lset. destruct (Nat.eqb_spec (pget perm k) (pget perm i)) as [E|E].
      + assert (k = i) by (apply (proj1 (NoDup_nth perm 0) Hnd); [lia|lia|exact E]). subst i.
        specialize (Hr k ltac:(lia)). destruct (Nat.ltb_spec (pget perm k) (length ip)); lia.
      + assert (i <> k) by (intro; subst; apply E; reflexivity). apply Hi. lia. }
  destruct H as (HLi & Hi). split; [assumption|]. split; [assumption|].
  intros r Hrn. destruct (Hs r Hrn) as (i & Hin & E). rewrite <- E. rewrite Hi by assumption. split; [assumption|reflexivity].
Qed.

(* ---------- the profile covers every non-zero entry ---------- *)
Definition cov (h : list nat) (a b : nat) : Prop :=
  (b < a -> a - b <= pget h a) /\ (a < b -> b - a <= pget h b).
Definition hle (h h' : list nat) : Prop := length h' = length h /\ forall x, pget h x <= pget h' x.

Lemma hle_refl h : hle h h. Proof. split; [reflexivity|intros; lia]. Qed.
Lemma hle_trans h1 h2 h3 : hle h1 h2 -> hle h2 h3 -> hle h1 h3.
Proof. intros [A1 A2] [B1 B2]. split; [congruence|]. intro x. specialize (A2 x). specialize (B2 x). lia. Qed.
Lemma cov_mono h h' a b : hle h h' -> cov h a b -> cov h' a b.
Proof. intros [_ H] [C1 C2]. split; intro Hab; [specialize (C1 Hab); specialize (H a)|specialize (C2 Hab); specialize (H b)]; lia. Qed.

Lemma profile_entry_mono ip i h (e : nat * S) : length h = Datatypes.S n -> pget ip i < n -> pget ip (fst e) < n ->
  hle h (profile_entry ip i h e) /\
  (is_zero (snd e) = false -> cov (profile_entry ip i h e) (pget ip i) (pget ip (fst e))).
Proof.
  intros HL Ha Hb. unfold profile_entry. set (a := pget ip i) in *. set (b := pget ip (fst e)) in *.
  destruct (is_zero (snd e)); simpl.
  - split; [apply hle_refl|discriminate].
  - destruct (Nat.ltb_spec b a).
    + destruct (Nat.ltb_spec (pget h a) (a - b)).
      * split.
        -- split; [apply lset_length|]. intro x. rewrite pget_lset. destruct (Nat.eqb_spec a x) as [<-|]; [|lia].
           destruct (Nat.ltb_spec a (length h)); lia.
        -- intros _. split; intro; [|lia]. rewrite pget_lset, Nat.eqb_refl.
           destruct (Nat.ltb_spec a (length h)); lia.
      * split; [apply hle_refl|]. intros _. split; intro; lia.
    + destruct (Nat.ltb_spec a b).
      * destruct (Nat.ltb_spec (pget h b) (b - a)).
        -- split.
           ++ split; [apply lset_length|]. intro x. rewrite pget_lset. destruct (Nat.eqb_spec b x) as [<-|]; [|lia].
              destruct (Nat.ltb_spec b (length h)); lia.
           ++ intros _. split; intro; [lia|]. rewrite pget_lset, Nat.eqb_refl.
              destruct (Nat.ltb_spec b (length h)); lia.
        -- split; [apply hle_refl|]. intros _. split; intro; lia.
      * split; [apply hle_refl|]. intros _. split; intro; lia.
Qed.

Lemma profile_row_cov ip i (r : row S) : pget ip i < n -> (forall e, In e r -> pget ip (fst e) < n) ->
  forall h, length h = Datatypes.S n ->
    hle h (fold_left (profile_entry ip i) r h) /\
    forall e, In e r -> is_zero (snd e) = false ->
      cov (fold_left (profile_entry ip i) r h) (pget ip i) (pget ip (fst e)).
Proof.
  intros Ha. induction r as [|e0 r IH]; intros Hb h HL; simpl.
  - split; [apply hle_refl|]. intros e [].
  - destruct (profile_entry_mono ip i h e0 HL Ha (Hb e0 (or_introl eq_refl))) as [M1 C1].
    destruct (IH (fun e He => Hb e (or_intror He)) (profile_entry ip i h e0)) as [M2 C2].
    { destruct M1 as [E _]. congruence. }
    split; [eapply hle_trans; eassumption|].
    intros e [<-|He] Hz.
    + eapply cov_mono; [exact M2|]. apply C1. assumption.
    + apply C2; assumption.
Qed.

Lemma profile_heights_cov ip (A : crs S) :
  (forall x, x < n -> pget ip x < n) -> nrows A = n -> ncols A = n -> wf A = true ->
  forall r e, r < n -> In e (nth r (rows A) []) -> is_zero (snd e) = false ->
    cov (profile_heights n ip A) (pget ip r) (pget ip (fst e)).
Proof.
  intros Hip Hnr Hnc HwfA.
  assert (Hcols : forall r e, In e (nth r (rows A) []) -> fst e < n).
  { intros r e He. destruct (Nat.lt_ge_cases r (nrows A)) as [Hr|Hr].
    - unfold wf in HwfA. rewrite forallb_forall in HwfA. unfold nrows in Hr.
      specialize (HwfA _ (nth_In _ [] Hr)). unfold row_wf in HwfA. rewrite forallb_forall in HwfA.
      specialize (HwfA e He). apply Nat.ltb_lt in HwfA. lia.
    - unfold nrows in Hr. rewrite nth_overflow in He by assumption. destruct He. }
  unfold profile_heights.
  pose (P := fun k (h : list nat) => length h = Datatypes.S n /\
     forall r e, r < k -> In e (nth r (rows A) []) -> is_zero (snd e) = false -> cov h (pget ip r) (pget ip (fst e))).
  assert (H : P (0 + n) (for_loop 0 n (fun i ptr => fold_left (profile_entry ip i) (nth i (rows A) []) ptr)
                                   (repeat 0 (Datatypes.S n)))).
  { apply (for_loop_inv P).
    - split; [apply repeat_length|]. intros; lia.
    - intros k h Hk (HL & Hc).
      destruct (profile_row_cov ip k (nth k (rows A) []) (Hip k ltac:(lia))
                  (fun e He => Hip _ (Hcols k e He)) h HL) as [M C].
      split; [destruct M; congruence|]. intros r e Hr He Hz.
      destruct (Nat.eq_dec r k) as [->|Hne]; [apply C; assumption|].
      eapply cov_mono; [exact M|]. apply Hc; [lia|assumption|assumption]. }
  destruct H as [_ H]. intros r e Hr. apply H. lia.
Qed.

(* ---------- row/column lengths of the computed profile are exactly the heights ---------- *)
Lemma profile_ptr_plen h : heights_ok n h -> forall j, j < n -> plen (profile_ptr n h) j = pget h j.
Proof.
  intros [HL Hh]. unfold profile_ptr.
  pose (P := fun k (pl : list nat * nat) =>
     length (fst pl) = Datatypes.S n /\
     (forall j, k <= j -> pget (fst pl) j = pget h j) /\
     snd pl = (if Nat.eqb k 1 then 0 else pget h (k - 1)) /\
     (forall j, j + 1 < k -> pget (fst pl) (Datatypes.S j) = pget (fst pl) j + (if Nat.eqb j 0 then 0 else pget h j))).
  assert (H : P (1 + n) (for_loop 1 n (fun i (pl : list nat * nat) =>
                       let tmp := pget (fst pl) i in
                       (lset (fst pl) i (pget (fst pl) (i - 1) + snd pl), tmp)) (h, 0))).
  { apply (for_loop_inv P).
    - unfold P. cbn [fst snd]. repeat split; try assumption; try reflexivity; intros; lia.
    - intros k [p l] Hk HP. unfold P in *. cbv zeta. cbn [fst snd] in *.
      destruct HP as (HLp & Htail & Hl & Hstep). split; [rewrite lset_length; assumption|]. split; [|split].
      + intros j Hj. rewrite pget_lset. destruct (Nat.eqb_spec k j); [lia|]. apply Htail. lia.
      + destruct (Nat.eqb_spec (Datatypes.S k) 1); [lia|]. replace (Datatypes.S k - 1) with k by lia.
        apply Htail. lia.
      + intros j Hj. destruct (Nat.eq_dec (j + 1) k) as [E|E].
        * rewrite !pget_lset. replace (Datatypes.S j) with k by lia.
          rewrite Nat.eqb_refl. destruct (Nat.eqb_spec k j); [lia|].
          destruct (Nat.ltb_spec k (length p)); [|lia]. replace (k - 1) with j by lia.
          rewrite Hl. destruct (Nat.eqb_spec k 1); destruct (Nat.eqb_spec j 0); try lia.
          replace (k - 1) with j by lia. reflexivity.
        * rewrite !pget_lset. destruct (Nat.eqb_spec k (Datatypes.S j)); [lia|].
          destruct (Nat.eqb_spec k j); [lia|]. apply Hstep. lia. }
  unfold P in H. destruct H as (_ & _ & _ & Hstep). intros j Hj. unfold plen.
  rewrite Hstep by lia. destruct (Nat.eqb_spec j 0) as [->|]; [specialize (Hh 0)|]; lia.
Qed.

End Fill.

(* ---------- the second traversal: the dense view of the filled arrays is P A P^T ---------- *)
Section FillView.
Context {S : Scalar}.
Local Notation vec := (vec S).
Hypothesis Sft : Sfield S.
Hypothesis Seqb : seqb_spec S.
Let SrtV : Sring S := F_R Sft.
Add Ring SRingFillV : SrtV.

Definition rows_distinct (A : crs S) : Prop := forall r, NoDup (map fst (nth r (rows A) [])).

Lemma rget_app1 (l : row S) (e : nat * S) j :
  rget (l ++ [e]) j = (rget l j + (if Nat.eqb (fst e) j then snd e else s0))%S.
Proof.
  unfold rget. rewrite fold_left_app. simpl. destruct (Nat.eqb (fst e) j); ring.
Qed.

Lemma rget_notin (l : row S) j : ~ In j (map fst l) -> rget l j = s0.
Proof.
  induction l as [|e l IH]; intro H; [reflexivity|]. rewrite (rget_cons SrtV).
  simpl in H. destruct (Nat.eqb_spec (fst e) j) as [E|E]; [exfalso; apply H; left; assumption|].
  rewrite IH by (intro; apply H; right; assumption). ring.
Qed.

Variable n : nat.
Variable A : crs S.
Variable perm : list nat.
Hypothesis Hnr : nrows A = n.
Hypothesis Hnc : ncols A = n.
Hypothesis HwfA : wf A = true.
Hypothesis Hdist : rows_distinct A.
Hypothesis Hperm : Permutation perm (seq 0 n).

Let ip := inverse_perm n perm.
Let ptr := profile_ptr n (profile_heights n ip A).

Lemma fv_wf : profile_wf n ptr.
Proof. apply profile_ptr_wf, profile_heights_ok. Qed.

Lemma fv_cols r e : In e (nth r (rows A) []) -> fst e < n.
Proof.
  intro He. destruct (Nat.lt_ge_cases r (nrows A)) as [Hr|Hr].
  - unfold wf in HwfA. rewrite forallb_forall in HwfA. unfold nrows in Hr.
    specialize (HwfA _ (nth_In _ [] Hr)). unfold row_wf in HwfA. rewrite forallb_forall in HwfA.
    specialize (HwfA e He). apply Nat.ltb_lt in HwfA. lia.
  - unfold nrows in Hr. rewrite nth_overflow in He by assumption. destruct He.
Qed.

(* every non-zero entry lies inside the profile *)
Lemma fv_inprofile r e : r < n -> In e (nth r (rows A) []) -> is_zero (snd e) = false ->
  (pget ip (fst e) < pget ip r -> inp ptr (pget ip r) (pget ip (fst e)) = true) /\
  (pget ip r < pget ip (fst e) -> inp ptr (pget ip (fst e)) (pget ip r) = true).
Proof.
  intros Hr He Hz. destruct (inverse_perm_spec n perm Hperm) as (_ & _ & Hip).
  pose proof (profile_heights_cov n ip A (fun x Hx => proj1 (Hip x Hx)) Hnr Hnc HwfA r e Hr He Hz) as [C1 C2].
  pose proof (profile_ptr_plen n _ (profile_heights_ok n ip A)) as Hpl. fold ptr in Hpl.
  pose proof (proj1 (Hip r Hr)) as Ha. pose proof (proj1 (Hip _ (fv_cols r e He))) as Hb. fold ip in Ha, Hb, C1, C2.
  split; intro Hlt; apply inp_spec; unfold beg.
  - rewrite Hpl by assumption. specialize (C1 Hlt). lia.
  - rewrite Hpl by assumption. specialize (C2 Hlt). lia.
Qed.

(* one entry *)
Lemma fill_entry_view r (st : vec * vec * vec) (e : nat * S) :
  r < n -> In e (nth r (rows A) []) ->
  (length (fst (fst st)) = pget ptr n /\ length (snd (fst st)) = pget ptr n /\ length (snd st) = n) ->
  let st' := fill_entry ip ptr r st e in
  (length (fst (fst st')) = pget ptr n /\ length (snd (fst st')) = pget ptr n /\ length (snd st') = n) /\
  forall i j, i < n -> j < n ->
    M0 ptr (fst (fst st')) (snd (fst st')) (snd st') i j =
    if is_zero (snd e) then M0 ptr (fst (fst st)) (snd (fst st)) (snd st) i j
    else if Nat.eqb i (pget ip r) && Nat.eqb j (pget ip (fst e)) then snd e
         else M0 ptr (fst (fst st)) (snd (fst st)) (snd st) i j.
Proof.
  intros Hr He (HL & HU & HD). destruct st as [[L U] D]. cbn [fst snd] in *. cbv zeta.
  destruct (inverse_perm_spec n perm Hperm) as (_ & _ & Hip).
  pose proof (proj1 (Hip r Hr)) as Ha. pose proof (proj1 (Hip _ (fv_cols r e He))) as Hb. fold ip in Ha, Hb.
  unfold fill_entry. set (a := pget ip r) in *. set (b := pget ip (fst e)) in *.
  destruct (is_zero (snd e)) eqn:Hz; cbn [negb].
  - cbn [fst snd]. split; [auto|]. reflexivity.
  - destruct (fv_inprofile r e Hr He Hz) as [I1 I2]. fold a b in I1, I2.
    destruct (Nat.ltb_spec a b) as [Hab|Hab].
    + (* upper: U *)
      cbn [fst snd]. specialize (I2 Hab).
      replace (pget ptr (Datatypes.S b) + a - b) with (slot ptr b a) by reflexivity.
      split; [split; [assumption|split; [rewrite lset_length; assumption|assumption]]|].
      intros i j Hi Hj. unfold M0.
      destruct (Nat.ltb_spec j i).
      * destruct (Nat.eqb_spec i a), (Nat.eqb_spec j b); simpl; try reflexivity. lia.
      * destruct (Nat.eqb_spec i j).
        -- destruct (Nat.eqb_spec i a), (Nat.eqb_spec j b); simpl; try reflexivity. lia.
        -- rewrite (sget_lset n ptr fv_wf) by assumption.
           rewrite (Nat.eqb_sym b j), (Nat.eqb_sym a i), Bool.andb_comm. reflexivity.
    + destruct (Nat.eqb_spec a b) as [Eab|Nab].
      * (* diagonal: D *)
        cbn [fst snd]. split; [split; [assumption|split; [assumption|rewrite lset_length; assumption]]|].
        intros i j Hi Hj. unfold M0.
        destruct (Nat.ltb_spec j i).
        -- destruct (Nat.eqb_spec i a), (Nat.eqb_spec j b); simpl; try reflexivity. lia.
        -- destruct (Nat.eqb_spec i j) as [->|].
           ++ rewrite vget_lset. rewrite HD. destruct (Nat.eqb_spec a j) as [->|].
              ** rewrite Nat.eqb_refl. destruct (Nat.eqb_spec j b); [|lia]. simpl.
                 destruct (Nat.ltb_spec j n); [reflexivity|lia].
              ** destruct (Nat.eqb_spec j a); [lia|]. reflexivity.
           ++ destruct (Nat.eqb_spec i a), (Nat.eqb_spec j b); simpl; try reflexivity. lia.
      * (* lower: L *)
        cbn [fst snd]. assert (Hba : b < a) by lia. specialize (I1 Hba).
        replace (pget ptr (Datatypes.S a) + b - a) with (slot ptr a b) by reflexivity.
        split; [split; [rewrite lset_length; assumption|split; assumption]|].
        intros i j Hi Hj. unfold M0.
        destruct (Nat.ltb_spec j i).
        -- rewrite (sget_lset n ptr fv_wf) by assumption.
           rewrite (Nat.eqb_sym a i), (Nat.eqb_sym b j). reflexivity.
        -- destruct (Nat.eqb_spec i a), (Nat.eqb_spec j b); simpl; try reflexivity. lia.
Qed.

Definition st_ok (st : vec * vec * vec) : Prop :=
  length (fst (fst st)) = pget ptr n /\ length (snd (fst st)) = pget ptr n /\ length (snd st) = n.
Definition view_is (st : vec * vec * vec) (T : nat -> nat -> S) : Prop :=
  forall i j, i < n -> j < n -> M0 ptr (fst (fst st)) (snd (fst st)) (snd st) i j = T i j.
Definition Tgt (r : nat) (prefix : row S) (i j : nat) : S :=
  if Nat.ltb (pget perm i) r then mget A (pget perm i) (pget perm j)
  else if Nat.eqb (pget perm i) r then rget prefix (pget perm j) else s0.

Lemma fill_row_view r : r < n -> forall suffix prefix st,
  nth r (rows A) [] = prefix ++ suffix -> st_ok st -> view_is st (Tgt r prefix) ->
  st_ok (fold_left (fill_entry ip ptr r) suffix st) /\
  view_is (fold_left (fill_entry ip ptr r) suffix st) (Tgt r (prefix ++ suffix)).
Proof.
  intro Hr. destruct (inverse_perm_spec n perm Hperm) as (_ & Hip1 & Hip2). fold ip in Hip1, Hip2.
  induction suffix as [|e suffix IH]; intros prefix st Hrow Hok Hview; simpl.
  - rewrite app_nil_r. split; assumption.
  - assert (He : In e (nth r (rows A) [])) by (rewrite Hrow; apply in_or_app; right; left; reflexivity).
    destruct (fill_entry_view r st e Hr He Hok) as [Hok1 Hv1].
    replace (prefix ++ e :: suffix) with ((prefix ++ [e]) ++ suffix) by (rewrite <- app_assoc; reflexivity).
    apply IH; [rewrite <- app_assoc; exact Hrow|exact Hok1|].
    intros i j Hi Hj. rewrite (Hv1 i j Hi Hj). rewrite (Hview i j Hi Hj).
    assert (Hnotin : ~ In (fst e) (map fst prefix)).
    { pose proof (Hdist r) as Hd. rewrite Hrow, map_app in Hd. simpl in Hd.
      apply NoDup_remove_2 in Hd. intro Hin. apply Hd. apply in_or_app. left. assumption. }
    pose proof (fv_cols r e He) as Hce.
    unfold Tgt. destruct (Nat.ltb_spec (pget perm i) r) as [Hlt|Hge].
    + destruct (is_zero (snd e)); [reflexivity|].
      destruct (Nat.eqb_spec i (pget ip r)) as [->|]; simpl; [|reflexivity].
      rewrite (proj2 (Hip2 r Hr)) in Hlt. lia.
    + destruct (Nat.eqb_spec (pget perm i) r) as [Epi|Npi].
      * rewrite rget_app1.
        assert (Ei : i = pget ip r) by (rewrite <- Epi; symmetry; apply Hip1; assumption).
        destruct (is_zero (snd e)) eqn:Hz.
        -- apply (is_zero_true Seqb) in Hz. rewrite Hz. destruct (Nat.eqb (fst e) (pget perm j)); ring.
        -- rewrite <- Ei, Nat.eqb_refl. simpl.
           destruct (Nat.eqb_spec j (pget ip (fst e))) as [Ej|Nj].
           ++ rewrite Ej, (proj2 (Hip2 _ Hce)), Nat.eqb_refl. rewrite rget_notin by assumption. ring.
           ++ destruct (Nat.eqb_spec (fst e) (pget perm j)) as [E2|]; [|ring].
              exfalso. apply Nj. rewrite E2. symmetry. apply Hip1. assumption.
      * destruct (is_zero (snd e)); [reflexivity|].
        destruct (Nat.eqb_spec i (pget ip r)) as [Ei|]; simpl; [|reflexivity].
        exfalso. apply Npi. rewrite Ei. apply (proj2 (Hip2 r Hr)).
Qed.

Lemma vget_repeat0 k idx : vget (repeat (@s0 S) k) idx = s0.
Proof.
  unfold vget. destruct (Nat.lt_ge_cases idx k).
  - apply nth_repeat.
  - apply nth_overflow. rewrite repeat_length. assumption.
Qed.

(* the arrays handed to factorize() are the dense permuted matrix *)
Theorem fill_view :
  st_ok (fill n ip ptr A) /\
  forall i j, i < n -> j < n ->
    M0 ptr (fst (fst (fill n ip ptr A))) (snd (fst (fill n ip ptr A))) (snd (fill n ip ptr A)) i j
    = mget A (pget perm i) (pget perm j).
Proof.
  destruct (perm_facts n perm Hperm) as (_ & _ & Hpr & _).
  unfold fill.
  pose (P := fun k (st : vec * vec * vec) => st_ok st /\
     view_is st (fun i j => if Nat.ltb (pget perm i) k then mget A (pget perm i) (pget perm j) else s0)).
  match goal with |- st_ok ?X /\ _ => assert (H : P (0 + n) X) end.
  { apply (for_loop_inv P).
    - split.
      + unfold st_ok. cbn [fst snd]. rewrite !repeat_length. auto.
      + intros i j Hi Hj. cbn [fst snd]. unfold M0, sget.
        destruct (Nat.ltb j i); [destruct (inp ptr i j); [apply vget_repeat0|reflexivity]|].
        destruct (Nat.eqb i j); [apply vget_repeat0|]. destruct (inp ptr j i); [apply vget_repeat0|reflexivity].
    - intros k st Hk (Hok & Hv).
      destruct (fill_row_view k ltac:(lia) (nth k (rows A) []) [] st eq_refl Hok) as [Hok' Hv'].
      { intros i j Hi Hj. rewrite (Hv i j Hi Hj). unfold Tgt.
        destruct (Nat.ltb (pget perm i) k); [reflexivity|]. destruct (Nat.eqb (pget perm i) k); reflexivity. }
      split; [exact Hok'|]. intros i j Hi Hj. rewrite (Hv' i j Hi Hj). unfold Tgt. simpl.
      destruct (Nat.ltb_spec (pget perm i) k), (Nat.ltb_spec (pget perm i) (Datatypes.S k)); try lia; try reflexivity.
      + destruct (Nat.eqb_spec (pget perm i) k) as [->|]; [reflexivity|lia].
      + destruct (Nat.eqb_spec (pget perm i) k); [lia|reflexivity]. }
  destruct H as [Hok Hv]. split; [exact Hok|]. intros i j Hi Hj. rewrite (Hv i j Hi Hj).
  specialize (Hpr i Hi). destruct (Nat.ltb_spec (pget perm i) (0 + n)); [reflexivity|simpl in *; lia].
Qed.

End FillView.

(* ====================================================================== *)
(* End to end:  skyline_lu(A)(rhs, x)  returns x with  A x = rhs.                       *)
From Amgcl Require Import StaticMatProofs CuthillMcKeeProofs.
Section AxEqB.
Context {S : Scalar}.
Local Notation vec := (vec S).
Hypothesis Sft : Sfield S.
Hypothesis Seqb : seqb_spec S.
Let SrtE : Sring S := F_R Sft.
Add Ring SRingE2E : SrtE.

(* sums over a permutation of the index range *)
Fixpoint lsum (g : nat -> S) (l : list nat) : S :=
  match l with [] => s0 | x :: tl => (g x + lsum g tl)%S end.
Lemma lsum_app (g : nat -> S) l1 l2 : lsum g (l1 ++ l2) = (lsum g l1 + lsum g l2)%S.
Proof. induction l1 as [|a l1 IH]; simpl; [ring|rewrite IH; ring]. Qed.
Lemma lsum_perm (g : nat -> S) l l' : Permutation l l' -> lsum g l = lsum g l'.
Proof. induction 1; simpl; try ring; [rewrite IHPermutation; ring|congruence]. Qed.
Lemma sumn_lsum (g : nat -> S) k : sumn g k = lsum g (seq 0 k).
Proof. induction k as [|k IH]; [reflexivity|]. rewrite seq_S, lsum_app. simpl. rewrite IH. ring. Qed.
Lemma lsum_map (g : nat -> S) (f : nat -> nat) l : lsum g (map f l) = lsum (fun t => g (f t)) l.
Proof. induction l as [|a l IH]; simpl; [reflexivity|rewrite IH; reflexivity]. Qed.
Lemma map_nth_seq (l : list nat) : map (fun t => nth t l 0) (seq 0 (length l)) = l.
Proof.
  apply (list_ext _ _ 0).
  - rewrite map_length, seq_length. reflexivity.
  - intros i Hi. rewrite map_length, seq_length in Hi.
    rewrite (nth_indep _ 0 (nth 0 l 0)) by (rewrite map_length, seq_length; assumption).
    rewrite (map_nth (fun t => nth t l 0)). rewrite seq_nth by assumption. reflexivity.
Qed.
Lemma sumn_perm (g : nat -> S) perm k : Permutation perm (seq 0 k) ->
  sumn (fun t => g (pget perm t)) k = sumn g k.
Proof.
  intro Hp. assert (HL : length perm = k) by (rewrite (Permutation_length Hp); apply seq_length).
  rewrite !sumn_lsum. rewrite <- (lsum_map g (fun t => pget perm t)). unfold pget.
  rewrite <- HL at 1. rewrite map_nth_seq. apply lsum_perm. assumption.
Qed.

Lemma graph_wf_of_wf (A : crs S) : wf A = true -> ncols A = nrows A ->
  graph_wf (map (map fst) (rows A)) = true.
Proof.
  intros Hw Hsq. unfold graph_wf. rewrite map_length. change (length (rows A)) with (nrows A). rewrite <- Hsq.
  unfold wf in Hw. rewrite forallb_forall in *. intros r Hr. apply in_map_iff in Hr.
  destruct Hr as (r0 & <- & Hr0). specialize (Hw r0 Hr0). unfold row_wf in Hw.
  rewrite forallb_forall in *. intros c Hc. apply in_map_iff in Hc. destruct Hc as (e & <- & He).
  apply Hw. assumption.
Qed.

(* C16, first sentence: the returned x solves the system exactly *)
Theorem skyline_lu_solves reverse (A : crs S) f (rhs x y : vec) :
  wf A = true -> ncols A = nrows A -> 0 < nrows A -> rows_distinct A ->
  sky_build reverse A = SkyOk f -> length y = nrows A -> length x = nrows A ->
  forall r, r < nrows A -> Ax A (fst (sky_solve f rhs x y)) r = vget rhs r.
Proof.
  intros Hw Hsq Hn Hdist Hb Hy Hx. set (n := nrows A) in *.
  pose proof (graph_wf_of_wf A Hw Hsq) as Hg.
  destruct (sky_build_solve_exact Sft Seqb reverse A f rhs x y Hg Hn Hb Hy Hx) as (Hnf & Hperm & Hsolve).
  fold n in Hnf, Hperm, Hsolve.
  (* open the constructor *)
  unfold sky_build in Hb.
  destruct (cuthill_mckee reverse (map (map fst) (rows A))) as [p| | |] eqn:Ecm; try discriminate.
  destruct (sky_build_perm_wf A p f Hb) as (_ & Hpf & _).
  rewrite Hpf in Hperm. unfold sky_build_perm in Hb. fold n in Hb.
  set (ip := inverse_perm n p) in *. set (ptr := profile_ptr n (profile_heights n ip A)) in *.
  destruct (fill_view Sft Seqb n A p eq_refl Hsq Hw Hdist Hperm) as [(HL0 & HU0 & HD0) Hview].
  fold ip ptr in HL0, HU0, HD0, Hview.
  destruct (fill n ip ptr A) as [[L0 U0] D0] eqn:Efill. cbn [fst snd] in *.
  destruct (factorize n ptr (L0, U0, D0)) as [[[L U] D]|] eqn:Efact; [|discriminate].
  injection Hb as <-.
  assert (Hwfp : profile_wf n ptr) by (apply profile_ptr_wf, profile_heights_ok).
  pose proof (factorize_CInv Sft Seqb n ptr Hwfp L0 U0 D0 HL0 HU0 HD0 L U D Hn Efact) as HC.
  pose proof (crout_product Sft n ptr L0 U0 D0 HL0 HU0 HD0 p L U D HC) as Hprod.
  cbn [sk_n sk_perm] in *. set (f := mkSky n p ptr L U D) in *.
  set (xo := fst (sky_solve f rhs x y)) in *.
  destruct (inverse_perm_spec n p Hperm) as (_ & _ & Hip). fold ip in Hip.
  intros r Hr. destruct (Hip r Hr) as [Hi Epr]. set (i := pget ip r) in *.
  rewrite <- Epr. unfold Ax. rewrite Hsq. fold n.
  rewrite <- (Hsolve i Hi).
  (* reassociate  L'(U'x')  into  (L'U')x'  and reindex the columns through the permutation *)
  rewrite <- (sumn_perm (fun c => (mget A (pget p i) c * vget xo c)%S) p n Hperm).
  transitivity (sumn (fun t => sumn (fun j => (Lfull f i j * Ufull f j t)%S) n * vget xo (pget p t))%S n).
  - apply sumn_ext. intros t Ht. rewrite (Hprod i t Hi Ht). rewrite (Hview i t Hi Ht). reflexivity.
  - transitivity (sumn (fun t => sumn (fun j => (Lfull f i j * (Ufull f j t * vget xo (pget p t)))%S) n) n).
    + apply sumn_ext. intros t Ht. rewrite <- (sumn_scal_r SrtE). apply sumn_ext. intros j Hj. ring.
    + rewrite (sumn_swap SrtE). apply sumn_ext. intros j Hj. rewrite (sumn_scal SrtE). reflexivity.
Qed.

End AxEqB.
