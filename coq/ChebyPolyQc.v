(* ChebyPolyQc.v -- the hypotheses of the Chebyshev error-polynomial theorems (ChebyPoly.v) are satisfiable:
   exact rationals, the 3x3 SPD matrix A = tridiag(-1, 2, -1), (c, d) as computed by the constructor model
   cheby_setup from the Gershgorin radius with lower = 1/30, higher = 1, scale off and on, degree 2 and 3. *)
From Coq Require Import QArith Qcanon.
From Amgcl Require Import Scalar QcInst Vec Crs Kernels KernelsProofs MatOps Cheby ChebyProofs AmgOrder ChebyPoly.
Local Close Scope Q_scope.
Local Close Scope Qc_scope.
Local Open Scope S_scope.
Local Notation SS := Datatypes.S.

(* QcS is an ordered field (as KrylovMathQc.QcS_ordered'; repeated to keep the C06 closure free of Krylov files) *)
Lemma qc_ltb_lt_cp (a b : Qc) : qc_ltb a b = true <-> (a < b)%Qc.
Proof. unfold qc_ltb, Qclt, Qlt. apply Z.ltb_lt. Qed.
Lemma QcS_ordered_cp : ordered QcS.
Proof.
  constructor.
  - intro x. change (@sltb QcS) with qc_ltb. destruct (qc_ltb x x) eqn:E; [|reflexivity].
    apply qc_ltb_lt_cp in E. exfalso. exact (Qclt_not_eq _ _ E eq_refl).
  - intros x y z H1 H2. apply qc_ltb_lt_cp. apply qc_ltb_lt_cp in H1, H2. exact (Qclt_trans _ _ _ H1 H2).
  - intros x y H1 H2. change (@sltb QcS) with qc_ltb in *. apply Qcle_antisym; apply Qcnot_lt_le; intro L;
      apply qc_ltb_lt_cp in L; congruence.
  - intros x y z H. apply qc_ltb_lt_cp. apply qc_ltb_lt_cp in H. change (sadd x z) with (x + z)%Qc.
    change (sadd y z) with (y + z)%Qc. unfold Qclt in *.
    change (this (x + z)%Qc) with (Qred (this x + this z)). change (this (y + z)%Qc) with (Qred (this y + this z)).
    rewrite !Qred_correct. apply Qplus_lt_le_compat; [exact H|apply Qle_refl].
  - intros x y z Hz H. apply qc_ltb_lt_cp. apply qc_ltb_lt_cp in Hz, H.
    apply Qcmult_lt_compat_r; assumption.
Qed.

Ltac qc_eq := apply QcS_eqb; vm_compute; reflexivity.
Ltac qc_neq := let E := fresh in intro E; apply QcS_eqb in E; vm_compute in E; discriminate.

Definition AP : crs QcS :=
  mkCrs 3 [[(0, qc 2 1); (1, qc (-1) 1)]; [(0, qc (-1) 1); (1, qc 2 1); (2, qc (-1) 1)]; [(1, qc (-1) 1); (2, qc 2 1)]].
Definition junkP : vec QcS := [qc 17 3; qc 17 3; qc 17 3].
Definition lowerP : QcS := qc 1 30.
Definition higherP : QcS := s1.
Definition hiP (scale : bool) : QcS := gershgorin scale AP.
Definition cP (scale : bool) : QcS := fst (cheby_cd c_half (hiP scale) lowerP higherP).
Definition dP (scale : bool) : QcS := snd (cheby_cd c_half (hiP scale) lowerP higherP).
Definition MP (scale : bool) : option (vec QcS) := if scale then Some (diagonal AP true junkP) else None.

(* (c, d, M) are what the constructor model produces *)
Lemma setup_is scale : cheby_setup scale AP (hiP scale) lowerP higherP junkP = (cP scale, dP scale, MP scale).
Proof.
  unfold cheby_setup, cP, dP, MP. destruct (cheby_cd c_half (hiP scale) lowerP higherP) as [c d]. reflexivity.
Qed.

Lemma cdP_ordered scale : olt s0 (cP scale) /\ ole (cP scale) (dP scale) /\ dP scale <> s0.
Proof.
  pose proof (cheby_cd_ordered QcS_field QcS_ordered_cp (hiP scale) lowerP higherP) as H.
  unfold cP, dP. destruct (cheby_cd c_half (hiP scale) lowerP higherP) as [c d]. cbn [fst snd].
  apply H; destruct scale; vm_compute; reflexivity.
Qed.
Lemma tauP_nonzero scale k : tau (cP scale) (dP scale) k <> s0.
Proof.
  destruct (cdP_ordered scale) as (Hc & Hcd & _).
  apply (tau_nonzero QcS_field QcS_ordered_cp (cP scale) (dP scale) Hc Hcd k).
Qed.
Lemma MP_len scale : forall m, MP scale = Some m -> length m = nrows AP.
Proof. intros m E. destruct scale; [|discriminate]. injection E as <-. reflexivity. Qed.

(* a general system: x* = (1, 2, 3), b = A x* = (0, 0, 4), x0 = (5, -1, 1/2) *)
Definition xsP : vec QcS := [qc 1 1; qc 2 1; qc 3 1].
Definition bP : vec QcS := [qc 0 1; qc 0 1; qc 4 1].
Definition x0P : vec QcS := [qc 5 1; qc (-1) 1; qc 1 2].
Lemma solP : forall i, i < nrows AP -> Ax AP xsP i = vget bP i.
Proof. intros i Hi. change (nrows AP) with 3 in Hi. destruct i as [|[|[|i]]]; try lia; qc_eq. Qed.

Example cheby_error_polynomial_hypotheses_satisfiable scale :
  Sfield QcS /\ seqb_spec QcS /\ cP scale <> s0 /\ @c_two QcS <> s0 /\ dP scale <> s0 /\
  wf AP = true /\ length bP = nrows AP /\ length xsP = nrows AP /\ length x0P = nrows AP /\ length junkP = nrows AP /\
  (forall m, MP scale = Some m -> length m = nrows AP) /\
  (forall i, i < nrows AP -> Ax AP xsP i = vget bP i) /\
  (forall m, 1 <= m -> m <= 3 -> tau (cP scale) (dP scale) m <> s0).
Proof.
  destruct (cdP_ordered scale) as (Hc & _ & Hd).
  split; [exact QcS_field|]. split; [exact QcS_eqb|].
  split; [apply (pos_neq0 QcS_ordered_cp), Hc|]. split; [apply (two_neq0 QcS_field QcS_ordered_cp)|].
  split; [exact Hd|]. repeat (split; [reflexivity|]).
  split; [apply MP_len|]. split; [exact solP|]. intros m _ _. apply tauP_nonzero.
Qed.

(* the conclusion on it, degree 2 and 3, scale off and on, with the uninitialised workspaces junkP *)
Example cheby_error_polynomial_example scale degree : degree = 2 \/ degree = 3 ->
  forall i, i < 3 ->
    tau (cP scale) (dP scale) degree *
      (vget xsP i - vget (cheby_sweep (cheby_setup scale AP (hiP scale) lowerP higherP junkP) degree AP bP x0P junkP junkP) i)
    = vget (Tz (cP scale) (dP scale) (MP scale) AP degree (errv AP xsP x0P)) i.
Proof.
  intros _ i Hi. rewrite setup_is.
  destruct (cheby_error_polynomial_hypotheses_satisfiable scale) as (F & E & Nc & N2 & Nd & W & Lb & Lxs & Lx0 & Lj & HM & Sol & _).
  apply (cheby_sweep_error_polynomial F E (cP scale) (dP scale) (MP scale) AP Nc N2 bP xsP x0P W Lb Lxs Lx0 HM Sol Nd
           degree junkP junkP Lj Lj); [|exact Hi].
  intros m _ _. apply tauP_nonzero.
Qed.

(* an eigenvector: x* - x0 = (1, 0, -1), A e = 2 e (scale off), D^-1 A e = e (scale on) *)
Definition xsE : vec QcS := [qc 1 1; qc 0 1; qc (-1) 1].
Definition bE : vec QcS := [qc 2 1; qc 0 1; qc (-2) 1].
Definition x0E : vec QcS := [qc 0 1; qc 0 1; qc 0 1].
Definition lamE (scale : bool) : QcS := if scale then qc 1 1 else qc 2 1.
Example cheby_eigenvector_example scale degree : degree = 2 \/ degree = 3 ->
  (forall i, i < 3 -> vget (Bop (MP scale) AP (errv AP xsE x0E)) i = lamE scale * (vget xsE i - vget x0E i)) /\
  (forall i, i < 3 ->
     vget xsE i - vget (cheby_sweep (cheby_setup scale AP (hiP scale) lowerP higherP junkP) degree AP bE x0E junkP junkP) i
     = cheb ((dP scale - lamE scale) / cP scale) degree / tau (cP scale) (dP scale) degree * (vget xsE i - vget x0E i)) /\
  cheb ((dP false - lamE false) / cP false) 2 / tau (cP false) (dP false) 2 = qc (-839) 1081.
Proof.
  intros _.
  assert (Hev : forall i, i < 3 -> vget (Bop (MP scale) AP (errv AP xsE x0E)) i = lamE scale * (vget xsE i - vget x0E i)).
  { intros [|[|[|i]]] Hi; try lia; destruct scale; qc_eq. }
  split; [exact Hev|]. split; [|qc_eq].
  intros i Hi. rewrite setup_is.
  destruct (cheby_error_polynomial_hypotheses_satisfiable scale) as (F & E & Nc & N2 & Nd & W & _ & _ & _ & Lj & HM & _ & _).
  assert (Sol : forall j, j < nrows AP -> Ax AP xsE j = vget bE j).
  { intros j Hj. change (nrows AP) with 3 in Hj. destruct j as [|[|[|j]]]; try lia; qc_eq. }
  apply (cheby_sweep_eigenvector F E (cP scale) (dP scale) (MP scale) AP Nc N2 bE xsE x0E W eq_refl eq_refl eq_refl HM Sol Nd
           degree (lamE scale) junkP junkP Lj Lj); [|exact Hev|exact Hi].
  intros m _ _. apply tauP_nonzero.
Qed.
