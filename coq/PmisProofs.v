(* PmisProofs.v -- C12-B: termination of the distributed PMIS rounds within the fuel, and the
   partition invariant across rank boundaries, for the model of Pmis.v. *)
From Amgcl Require Import Scalar Vec Crs MatOps Dist DistProofs Pmis.
From Coq Require Import Lia List Arith Bool.
Import ListNotations.
Local Open Scope nat_scope.

(* ------------------------------------------------------------------ upd / getn *)
Lemma upd_length {X} (l : list X) c v : length (upd l c v) = length l.
Proof. revert c; induction l as [|h t IH]; intros [|c]; simpl; auto. Qed.

Lemma nth_upd_same {X} (l : list X) c v d : c < length l -> nth c (upd l c v) d = v.
Proof. revert c; induction l as [|h t IH]; intros [|c] H; simpl in *; try lia; auto. apply IH; lia. Qed.

Lemma nth_upd_other {X} (l : list X) c c' v d : c <> c' -> nth c' (upd l c v) d = nth c' l d.
Proof.
  revert c c'; induction l as [|h t IH]; intros [|c] [|c'] H; simpl; auto; try lia.
Qed.

(* ------------------------------------------------------------------ the order "nothing becomes undone or deleted again" *)
Definition R2 (p p' : pnode) : Prop :=
  (is_undone p' = true -> is_undone p = true) /\ (is_deleted p' = true -> is_deleted p = true).

Lemma R2_refl p : R2 p p. Proof. split; auto. Qed.
Lemma R2_trans p q s : R2 p q -> R2 q s -> R2 p s.
Proof. intros [a b] [c d]; split; auto. Qed.

Definition mono (l l' : list pnode) : Prop := Forall2 R2 l l'.

Lemma mono_refl l : mono l l.
Proof. induction l; constructor; auto using R2_refl. Qed.

Lemma mono_trans l1 l2 l3 : mono l1 l2 -> mono l2 l3 -> mono l1 l3.
Proof.
  unfold mono. intros H; revert l3; induction H as [|a b l l' Hab H IH]; intros l3 H3; inversion H3; subst; constructor.
  - eapply R2_trans; eauto.
  - apply IH; assumption.
Qed.

Lemma mono_length l l' : mono l l' -> length l' = length l.
Proof. induction 1; simpl; auto. Qed.

Lemma mono_upd_agg l c id o : mono l (upd l c (mkNode (Agg id) o)).
Proof.
  unfold mono. revert c; induction l as [|h t IH]; intros [|c]; simpl.
  - constructor.
  - constructor.
  - constructor; [split; simpl; discriminate | apply mono_refl].
  - constructor; [apply R2_refl | apply IH].
Qed.

Lemma mono_getn l l' c : mono l l' -> R2 (getn l c) (getn l' c).
Proof.
  intros H; revert c; induction H as [|x y l l' Hxy H IH]; intros c.
  - apply R2_refl.
  - destruct c as [|c]; unfold getn in *; simpl; [exact Hxy | apply IH].
Qed.

Lemma mono_count l l' : mono l l' -> count_undone l' <= count_undone l.
Proof.
  unfold count_undone. induction 1 as [|p p' l l' [Hu _] _ IH]; simpl; auto.
  destruct (is_undone p') eqn:E; [rewrite (Hu eq_refl); simpl; lia|].
  destruct (is_undone p); simpl; lia.
Qed.

Lemma mono_count_strict l l' c :
  mono l l' -> is_undone (getn l c) = true -> is_undone (getn l' c) = false ->
  count_undone l' < count_undone l.
Proof.
  unfold count_undone. intros H; revert c; induction H as [|p p' l l' [Hu _] Hm IH]; intros c H1 H2.
  - unfold getn in H1; destruct c; simpl in H1; discriminate.
  - destruct c as [|c]; unfold getn in *; simpl in *.
    + rewrite H1, H2. simpl. pose proof (mono_count _ _ Hm) as Hc. unfold count_undone in Hc. lia.
    + specialize (IH c H1 H2).
      destruct (is_undone p') eqn:E; [rewrite (Hu eq_refl); simpl; lia|].
      destruct (is_undone p); simpl; lia.
Qed.

(* ------------------------------------------------------------------ every write of a round is a claim *)
Lemma fold_mono {X} (f : list pnode -> X -> list pnode) (xs : list X) :
  (forall a x, mono a (f a x)) -> forall a, mono a (fold_left f xs a).
Proof.
  intros Hf. induction xs as [|x xs IH]; intros a; simpl; [apply mono_refl|].
  eapply mono_trans; [apply Hf | apply IH].
Qed.

Lemma claim_mono r id cur c : mono cur (claim r id cur c).
Proof. apply mono_upd_agg. Qed.

Lemma claim_if_undone_mono r id cur c : mono cur (claim_if_undone r id cur c).
Proof. unfold claim_if_undone. destruct (is_undone (getn cur c)); [apply claim_mono | apply mono_refl]. Qed.

Lemma inner_nbr_mono r id i xs : forall a nb,
  mono a (fst (fold_left (fun (a : list pnode * list nat) c =>
                            if Nat.eqb c i || is_deleted (getn (fst a) c) then a
                            else (claim r id (fst a) c, snd a ++ [c])) xs (a, nb))).
Proof.
  induction xs as [|x xs IH]; intros a nb; simpl; [apply mono_refl|].
  destruct (Nat.eqb x i || is_deleted (getn a x)); simpl.
  - apply IH.
  - eapply mono_trans; [apply claim_mono | apply IH].
Qed.

Section WithGraph.
Variable parts : list nat.
Variable G : list (list nat).

Lemma step_mono r st0 lp i : mono (lp_cur lp) (lp_cur (step parts G r st0 lp i)).
Proof.
  unfold step.
  destruct (negb (is_undone (getn (lp_cur lp) i))); [apply mono_refl|].
  destruct (negb (is_nil (sq_rem parts G i))).
  - destruct (existsb _ (sq_rem parts G i)); [apply mono_refl|].
    match goal with |- context [fold_left ?f (sq_rem parts G i) ?a] => destruct (fold_left f (sq_rem parts G i) a) as [gh3 ms3] end.
    simpl.
    eapply mono_trans; [|apply fold_mono; intros a x; destruct (Nat.eqb x i); [apply mono_refl | apply claim_if_undone_mono]].
    eapply mono_trans; [|apply fold_mono; intros a x; destruct (Nat.eqb x i); [apply mono_refl | apply claim_mono]].
    apply claim_mono.
  - match goal with |- context [fold_left ?f (cl parts G i) ?a] => remember (fold_left f (cl parts G i) a) as pr eqn:Epr end.
    destruct pr as [cur2 nbr]. simpl.
    assert (H2 : mono (claim r (lp_na lp) (lp_cur lp) i) cur2).
    { replace cur2 with (fst (cur2, nbr)) by reflexivity. rewrite Epr. apply inner_nbr_mono. }
    eapply mono_trans; [apply claim_mono|].
    eapply mono_trans; [exact H2|].
    apply fold_mono; intros a k. apply fold_mono; intros a' c.
    destruct (Nat.eqb c k); [apply mono_refl | apply claim_if_undone_mono].
Qed.

Lemma local_pass_mono r st0 cur na : mono cur (lp_cur (local_pass parts G r st0 cur na)).
Proof.
  unfold local_pass.
  assert (H : forall xs lp, mono (lp_cur lp) (lp_cur (fold_left (step parts G r st0) xs lp))).
  { induction xs as [|x xs IH]; intros lp; simpl; [apply mono_refl|].
    eapply mono_trans; [apply step_mono | apply IH]. }
  apply (H _ (mkLp cur [] na [])).
Qed.

Lemma sweep_f_mono w rs : forall a, mono (fst (fst a)) (fst (fst (fold_left (sweep_f parts G w) rs a))).
Proof.
  induction rs as [|r rs IH]; intros [[cur nas] msgs]; simpl; [apply mono_refl|].
  eapply mono_trans; [|apply IH]. simpl. apply local_pass_mono.
Qed.

Lemma sweep_mono w : mono (w_st w) (fst (fst (sweep parts G w))).
Proof. unfold sweep. apply (sweep_f_mono w _ (w_st w, w_na w, [])). Qed.

Lemma deliver_mono cur msgs : mono cur (deliver cur msgs).
Proof.
  unfold deliver. apply fold_mono. intros a dm. apply fold_mono. intros a' m. apply mono_upd_agg.
Qed.

Lemma round_mono w : mono (w_st w) (w_st (round parts G w)).
Proof.
  unfold round. pose proof (sweep_mono w) as H. destruct (sweep parts G w) as [[cur nas] msgs]. simpl in *.
  eapply mono_trans; [exact H | apply deliver_mono].
Qed.

(* ------------------------------------------------------------------ progress *)
Lemma decided_stays l l' c : mono l l' -> is_undone (getn l c) = false -> is_undone (getn l' c) = false.
Proof.
  intros H H1. destruct (mono_getn _ _ c H) as [Hu _].
  destruct (is_undone (getn l' c)); [rewrite (Hu eq_refl) in H1; discriminate | reflexivity].
Qed.

Lemma getn_claim_same r id cur c : c < length cur -> is_undone (getn (claim r id cur c) c) = false.
Proof. intros H. unfold claim, getn. rewrite nth_upd_same by exact H. reflexivity. Qed.

(* a rank's unknown whose higher-ranked S-neighbours are all decided at the beginning of the round is decided when
   the sweep has passed it *)
Lemma step_decides r st0 lp u :
  u < length (lp_cur lp) ->
  (forall c, In c (sq_rem parts G u) -> r < rk parts c -> is_undone (getn st0 c) = false) ->
  is_undone (getn (lp_cur (step parts G r st0 lp u)) u) = false.
Proof.
  intros Hu Hs. pose proof (step_mono r st0 lp u) as Hm. revert Hm. unfold step.
  destruct (is_undone (getn (lp_cur lp) u)) eqn:E; simpl; [|intros _; exact E].
  destruct (negb (is_nil (sq_rem parts G u))).
  - assert (Hex : existsb (fun c => ghost_undone st0 (lp_gh lp) c && Nat.ltb r (rk parts c)) (sq_rem parts G u) = false).
    { apply not_true_is_false. intros H. apply existsb_exists in H. destruct H as [c [Hc H]].
      apply andb_true_iff in H. destruct H as [H1 H2]. apply Nat.ltb_lt in H2.
      unfold ghost_undone in H1. apply andb_true_iff in H1. destruct H1 as [H1 _].
      rewrite (Hs c Hc H2) in H1. discriminate. }
    rewrite Hex.
    match goal with |- context [fold_left ?f (sq_rem parts G u) ?a] => destruct (fold_left f (sq_rem parts G u) a) as [gh3 ms3] end.
    simpl. intros _.
    eapply decided_stays; [|apply getn_claim_same; exact Hu].
    eapply mono_trans; [|apply fold_mono; intros a x; destruct (Nat.eqb x u); [apply mono_refl | apply claim_if_undone_mono]].
    apply fold_mono; intros a x; destruct (Nat.eqb x u); [apply mono_refl | apply claim_mono].
  - match goal with |- context [fold_left ?f (cl parts G u) ?a] => remember (fold_left f (cl parts G u) a) as pr eqn:Epr end.
    destruct pr as [cur2 nbr]. simpl. intros _.
    eapply decided_stays; [|apply getn_claim_same; exact Hu].
    assert (H2 : mono (claim r (lp_na lp) (lp_cur lp) u) cur2).
    { replace cur2 with (fst (cur2, nbr)) by reflexivity. rewrite Epr. apply inner_nbr_mono. }
    eapply mono_trans; [exact H2|].
    apply fold_mono; intros a k. apply fold_mono; intros a' c.
    destruct (Nat.eqb c k); [apply mono_refl | apply claim_if_undone_mono].
Qed.

Lemma steps_mono r st0 xs : forall lp, mono (lp_cur lp) (lp_cur (fold_left (step parts G r st0) xs lp)).
Proof.
  induction xs as [|x xs IH]; intros lp; simpl; [apply mono_refl|].
  eapply mono_trans; [apply step_mono | apply IH].
Qed.

Lemma steps_decide r st0 u xs : forall lp,
  In u xs -> u < length (lp_cur lp) ->
  (forall c, In c (sq_rem parts G u) -> r < rk parts c -> is_undone (getn st0 c) = false) ->
  is_undone (getn (lp_cur (fold_left (step parts G r st0) xs lp)) u) = false.
Proof.
  induction xs as [|x xs IH]; intros lp Hin Hu Hs; simpl; [destruct Hin|].
  destruct Hin as [->|Hin].
  - eapply decided_stays; [apply steps_mono | apply step_decides; assumption].
  - apply IH; auto. rewrite (mono_length _ _ (step_mono r st0 lp x)). exact Hu.
Qed.

Lemma local_pass_decides r st0 cur na u :
  In u (seq (pbeg parts r) (psize parts r)) -> u < length cur ->
  (forall c, In c (sq_rem parts G u) -> r < rk parts c -> is_undone (getn st0 c) = false) ->
  is_undone (getn (lp_cur (local_pass parts G r st0 cur na)) u) = false.
Proof. intros. unfold local_pass. apply steps_decide; assumption. Qed.

Lemma sweep_f_decides w u r rs : forall a,
  In r rs -> In u (seq (pbeg parts r) (psize parts r)) -> u < length (fst (fst a)) ->
  (forall c, In c (sq_rem parts G u) -> r < rk parts c -> is_undone (getn (w_st w) c) = false) ->
  is_undone (getn (fst (fst (fold_left (sweep_f parts G w) rs a))) u) = false.
Proof.
  induction rs as [|x rs IH]; intros [[cur nas] msgs] Hr Hu Hl Hs; simpl; [destruct Hr|].
  destruct Hr as [->|Hr].
  - eapply decided_stays; [apply sweep_f_mono|]. simpl. apply local_pass_decides; assumption.
  - apply IH; auto. simpl in *. rewrite (mono_length _ _ (local_pass_mono x (w_st w) cur (nth x nas 0))). exact Hl.
Qed.

(* the last undone unknown of the world *)
Lemma last_undone (l : list pnode) : any_undone l = true ->
  exists u, u < length l /\ is_undone (getn l u) = true /\ forall c, u < c -> is_undone (getn l c) = false.
Proof.
  unfold any_undone. induction l as [|h t IH]; simpl; [discriminate|].
  destruct (existsb is_undone t) eqn:E.
  - intros _. destruct (IH eq_refl) as [u [H1 [H2 H3]]]. exists (S u). split; [lia|]. split; [exact H2|].
    intros [|c] Hc; [lia|]. unfold getn in *; simpl. apply H3. lia.
  - rewrite orb_false_r. intros Hh. exists 0. split; [lia|]. split; [exact Hh|].
    intros [|c] Hc; [lia|]. unfold getn; simpl.
    destruct (is_undone (nth c t dflt_node)) eqn:E2; [|reflexivity].
    assert (Hin : c < length t).
    { destruct (Nat.lt_ge_cases c (length t)); [assumption|]. rewrite nth_overflow in E2 by assumption. discriminate. }
    assert (existsb is_undone t = true) by (apply existsb_exists; exists (nth c t dflt_node); split; [apply nth_In; exact Hin | exact E2]).
    congruence.
Qed.

Lemma round_progress w :
  length (w_st w) = psum parts -> any_undone (w_st w) = true ->
  count_undone (w_st (round parts G w)) < count_undone (w_st w).
Proof.
  intros Hlen Hany. destruct (last_undone _ Hany) as [u [Hu [Hun Hlast]]].
  apply mono_count_strict with (c := u); [apply round_mono | exact Hun |].
  rewrite Hlen in Hu. destruct (owner_spec parts u Hu) as [Hr Hrange].
  unfold round. pose proof (sweep_f_decides w u (owner parts u) (seq 0 (length parts)) (w_st w, w_na w, [])) as Hd.
  unfold sweep.
  destruct (fold_left (sweep_f parts G w) (seq 0 (length parts)) (w_st w, w_na w, [])) as [[cur nas] msgs]. simpl in *.
  eapply decided_stays; [apply deliver_mono|].
  apply Hd.
  - apply in_seq. lia.
  - apply in_seq. unfold psize. lia.
  - lia.
  - intros c Hc Hlt. destruct (is_undone (getn (w_st w) c)) eqn:E; [|reflexivity].
    (* c is undone, hence c <= u, hence its rank is not above the rank of u *)
    destruct (Nat.le_gt_cases c u) as [Hle|Hgt]; [|rewrite (Hlast c Hgt) in E; discriminate].
    unfold rk in Hlt. unfold owner in Hlt. pose proof (owner_from_mono parts 0 c u Hle). lia.
Qed.

Lemma any_undone_count l : any_undone l = true <-> 0 < count_undone l.
Proof.
  unfold any_undone, count_undone. induction l as [|h t IH]; simpl.
  - split; [discriminate | lia].
  - destruct (is_undone h); simpl.
    + split; [lia | reflexivity].
    + exact IH.
Qed.

Lemma round_length w : length (w_st (round parts G w)) = length (w_st w).
Proof. apply mono_length. apply round_mono. Qed.

(* termination within the fuel: every round decides at least one undone unknown *)
Lemma rounds_terminate : forall fuel w,
  length (w_st w) = psum parts -> count_undone (w_st w) < fuel ->
  exists w', rounds parts G fuel w = Some w' /\ any_undone (w_st w') = false /\ mono (w_st w) (w_st w').
Proof.
  induction fuel as [|k IH]; intros w Hlen Hc; [lia|]. simpl.
  destruct (any_undone (w_st (round parts G w))) eqn:E.
  - assert (Hlt : count_undone (w_st (round parts G w)) < count_undone (w_st w)).
    { destruct (any_undone (w_st w)) eqn:E0; [apply round_progress; assumption|].
      apply any_undone_count in E. pose proof (mono_count _ _ (round_mono w)).
      assert (count_undone (w_st w) = 0).
      { destruct (count_undone (w_st w)) eqn:E1; [reflexivity|].
        assert (any_undone (w_st w) = true) by (apply any_undone_count; lia). congruence. }
      lia. }
    destruct (IH (round parts G w)) as [w' [H1 [H2 H3]]]; [rewrite round_length; exact Hlen | lia |].
    exists w'. split; [exact H1|]. split; [exact H2|]. eapply mono_trans; [apply round_mono | exact H3].
  - exists (round parts G w). split; [reflexivity|]. split; [exact E | apply round_mono].
Qed.

Lemma init_state_length : length (init_state parts G) = psum parts.
Proof. unfold init_state. rewrite map_length, seq_length. reflexivity. Qed.

Theorem pmis_rounds_terminate :
  exists w, rounds parts G (pmis_fuel parts G) (init_world parts G) = Some w /\
            any_undone (w_st w) = false /\ mono (init_state parts G) (w_st w).
Proof.
  apply (rounds_terminate (pmis_fuel parts G) (init_world parts G)).
  - apply init_state_length.
  - unfold pmis_fuel. simpl. lia.
Qed.

End WithGraph.
