(* AmgCycleSymChebBuilt.v -- C02, part A3 for the Chebyshev smoother, hierarchies built by amg_init.
   The commutative ring S with trivial conjugation is read as an instance of the non-commutative development
   (AmgBlockCycleSym2Built.built_apply_herm_full_gen, generic in the smoother constructor): ipH = ip, herm_mat = sym_mat,
   transpH = transp.  With AmgCycleSymCheb.cheby_sweeps_sym (chebyshev is consistent and self-adjoint on every symmetric
   matrix) the preconditioner  apply  with npre = npost = k, any ncycle, any pre_cycles >= 1 is symmetric for every
   hierarchy built from a symmetric matrix with R = P^T and smoothed by chebyshev (any degree, lower, higher, scale):
   no hypothesis about the smoother is left.  built_apply_sym_gen is the same bridge for ANY smoother constructor. *)
From Amgcl Require Import Scalar Vec Crs Kernels KernelsProofs MatOps MatOpsProofs Relax DenseSolve
  Amg AmgExec AmgProofs AmgProofs2 AmgProofs3 AmgProofs4 AmgProofs6 AmgProofs7 Cheby ChebyProofs NcRing NcKernels AmgBlockNc
  AmgBlockCycle AmgBlockCycleProofs AmgBlockCycleSym AmgBlockCycleSym2 AmgBlockCycleSym2Gs AmgBlockCycleSym2Built
  AmgProofs9 AmgCycleSymCheb.
Local Open Scope S_scope.

Section Bridge.
Context {S : Scalar}.
Local Notation vec := (vec S).
Local Notation crs := (crs S).
Local Notation level := (@level S).
Local Notation sweep := (@sweep S).
Hypothesis Srt : Sring S.
Hypothesis Seqb : seqb_spec S.
Hypothesis sadj_id : forall a : S, sadj a = a.
Add Ring SRingBr : Srt.
Let Hnc : ncring_theory S := ncring_of_ring S Srt.

Lemma c_adj_add (a b : S) : sadj (a + b) = sadj a + sadj b.
Proof. rewrite !sadj_id. reflexivity. Qed.
Lemma c_adj_mul (a b : S) : sadj (a * b) = sadj b * sadj a.
Proof. rewrite !sadj_id. ring. Qed.
Lemma c_adj_inv (a : S) : sadj (sadj a) = a.
Proof. rewrite !sadj_id. reflexivity. Qed.

Lemma ipH_ip n (x y : vec) : ipH n x y = ip n x y.
Proof. unfold ipH, ip. apply sumn_ext. intros i _. rewrite sadj_id. reflexivity. Qed.

Lemma sym_herm n (A : crs) : sym_mat n A -> herm_mat n A.
Proof. intros [H1 H2]. split; [exact H1|]. intros i j Hi Hj. rewrite sadj_id. symmetry. apply H2; assumption. Qed.
Lemma herm_sym n (A : crs) : herm_mat n A -> sym_mat n A.
Proof. intros [H1 H2]. split; [exact H1|]. intros i j Hi Hj. rewrite (H2 i j Hi Hj), sadj_id. reflexivity. Qed.

Lemma transp_transpH n n' (R P : crs) : transp n n' R P -> transpH n n' R P.
Proof. intros (H1 & H2 & H3). split; [exact H1|]. split; [exact H2|]. intros i j Hi Hj. rewrite sadj_id. apply H3; assumption. Qed.

Lemma ts_sym_herm (ts : list (option (crs * crs))) : forall n, ts_sym n ts -> ts_herm n ts.
Proof.
  induction ts as [|[[P R]|] ts' IH]; intros n H; simpl in *; auto.
  destruct H as (H1 & H2 & H3 & H4 & H5). repeat split; auto using transp_transpH.
  - apply (transp_transpH _ _ _ _ H4).
  - apply (transp_transpH _ _ _ _ H4).
  - apply (transp_transpH _ _ _ _ H4).
Qed.

Lemma scale_herm_comm (sc : option S) : scale_herm sc.
Proof. destruct sc as [s|]; [|exact I]. split; [apply sadj_id|intro x; ring]. Qed.

Lemma sweep_cons_H n (A : crs) (sw : sweep) : sweep_cons n A sw -> sweep_consH n A sw.
Proof. intro H. exact H. Qed.
Lemma sweep_adj_H n (pre post : sweep) : sweep_adj n pre post -> sweep_adjH n pre post.
Proof.
  intros H f g Lf Lg. rewrite !ipH_ip. exact (H f g Lf Lg).
Qed.
Lemma solve_sym_H n (sv : vec -> vec -> vec) : solve_sym n sv -> solve_symH n sv.
Proof. intros H f g x y Lf Lg Lx Ly. rewrite !ipH_ip. apply H; assumption. Qed.


(* ---------- hierarchies built by amg_init, any smoother constructor whose sweeps are consistent and adjoint on
   symmetric level matrices, exact coarse solve: the commutative reading of built_apply_herm_full_gen ---------- *)
Section BuiltC.
Variable mk_relax : crs -> sweep * sweep.
Hypothesis relax_ok : forall A, sweep_ok (nrows A) (fst (mk_relax A)) /\ sweep_ok (nrows A) (snd (mk_relax A)).
Variable good : crs -> Prop.
Hypothesis relax_sym : forall A, wf A = true -> sym_mat (nrows A) A -> good A ->
  sweep_cons (nrows A) A (fst (mk_relax A)) /\ sweep_cons (nrows A) A (snd (mk_relax A)) /\
  sweep_adj (nrows A) (fst (mk_relax A)) (snd (mk_relax A)).

Theorem built_apply_sym_gen ce dc ml sc ts (M : crs) k nc pc :
  wf M = true -> sym_mat (nrows M) M -> ts_sym (nrows M) ts ->
  (forall A, In (LSolve A) (amg_init ce dc ml (coarse_op_of sc) ts M) -> solve_sym (nrows A) (mk_solve_exact A)) ->
  (forall l, In l (amg_init ce dc ml (coarse_op_of sc) ts M) -> good (ld_A l)) ->
  let lvls := map (instantiate mk_relax mk_solve_exact) (amg_init ce dc ml (coarse_op_of sc) ts M) in
  (pc = 0 \/ nosolve_top lvls) ->
  forall scr1 scr2 f g x1 x2,
  scratch_wf lvls scr1 -> scratch_wf lvls scr2 ->
  length f = nrows M -> length g = nrows M -> length x1 = nrows M -> length x2 = nrows M ->
  dot (fst (apply k k nc (Datatypes.S pc) lvls scr1 f x1)) g =
  dot f (fst (apply k k nc (Datatypes.S pc) lvls scr2 g x2)).
Proof.
  intros WM SM Hts Hsol Hgood lvls Hpc scr1 scr2 f g x1 x2 H1 H2 Lf Lg L1 L2.
  assert (Htri : forall A, wf A = true -> herm_mat (nrows A) A -> good A -> sweep_triple A (mk_relax A)).
  { intros A WA HA Hg. destruct (relax_sym A WA (herm_sym _ _ HA) Hg) as (C1 & C2 & C3).
    split; [exact C1|]. split; [exact C2|apply sweep_adj_H, C3]. }
  pose proof (built_apply_herm_full_gen Hnc Seqb c_adj_add c_adj_mul c_adj_inv mk_relax mk_solve_exact relax_ok good Htri
                mk_solve_exact_ok ce dc ml sc ts M k nc pc (scale_herm_comm sc) WM (sym_herm _ _ SM)
                (ts_sym_herm ts _ Hts) (fun A HA => solve_sym_H _ _ (Hsol A HA)) Hgood Hpc
                scr1 scr2 f g x1 x2 H1 H2 Lf Lg L1 L2) as E.
  rewrite !ipH_ip in E.
  destruct (amg_init_chain ce dc ml (coarse_op_of sc) ts M) as [Hc Hh].
  pose proof (chain_hier_wf mk_relax mk_solve_exact relax_ok mk_solve_exact_ok (coarse_op_of sc) (coarse_op_of_shape sc) _ Hc) as Hw.
  pose proof (chain_nonempty mk_relax mk_solve_exact (coarse_op_of sc) _ Hc) as Hne.
  assert (En : top_n lvls = nrows M).
  { unfold lvls. rewrite (top_n_inst _ _ _ _ Hh). apply sort_rows_nrows. }
  fold lvls in Hw, Hne.
  destruct (apply_history_indep (zero_is_zero Seqb) k k nc (Datatypes.S pc) lvls Hw Hne scr1 scr1 f x1 x1) as (_ & La & _);
    try congruence.
  destruct (apply_history_indep (zero_is_zero Seqb) k k nc (Datatypes.S pc) lvls Hw Hne scr2 scr2 g x2 x2) as (_ & Lb & _);
    try congruence.
  rewrite (dot_ip Srt sadj_id (nrows M)) by congruence.
  rewrite (dot_ip Srt sadj_id (nrows M)) by congruence.
  exact E.
Qed.
End BuiltC.

(* the side condition good5 of the block theorems (AmgBlockCycleSym2Built) for chebyshev, when the values commute *)
Lemma cheby_good5_comm degree (lower higher : S) scale (A : crs) :
  wf A = true -> herm_mat (nrows A) A -> good5 (R5Cheby degree lower higher scale) A.
Proof.
  intros WA HA. cbn [good5]. cbn [mk_relax5].
  destruct (cheby_sweeps_sym Srt Seqb degree lower higher scale A WA (herm_sym _ _ HA)) as (C1 & C2 & C3).
  split; [exact C1|]. split; [exact C2|apply sweep_adj_H, C3].
Qed.

(* ---------- chebyshev on every level ---------- *)
Theorem built_apply_sym_cheby degree (lower higher : S) scale ce dc ml sc ts (M : crs) k nc pc :
  wf M = true -> sym_mat (nrows M) M -> ts_sym (nrows M) ts ->
  (forall A, In (LSolve A) (amg_init ce dc ml (coarse_op_of sc) ts M) -> solve_sym (nrows A) (mk_solve_exact A)) ->
  let lvls := map (instantiate (mk_relax5 (R5Cheby degree lower higher scale)) mk_solve_exact)
                  (amg_init ce dc ml (coarse_op_of sc) ts M) in
  (pc = 0 \/ nosolve_top lvls) ->
  forall scr1 scr2 f g x1 x2,
  scratch_wf lvls scr1 -> scratch_wf lvls scr2 ->
  length f = nrows M -> length g = nrows M -> length x1 = nrows M -> length x2 = nrows M ->
  dot (fst (apply k k nc (Datatypes.S pc) lvls scr1 f x1)) g =
  dot f (fst (apply k k nc (Datatypes.S pc) lvls scr2 g x2)).
Proof.
  intros WM SM Hts Hsol.
  apply (built_apply_sym_gen (mk_relax5 (R5Cheby degree lower higher scale)) (mk_relax5_ok _) (fun _ => True)
           (fun A WA SA _ => cheby_sweeps_sym Srt Seqb degree lower higher scale A WA SA)
           ce dc ml sc ts M k nc pc WM SM Hts Hsol (fun _ _ => I)).
Qed.

(* smoother on the coarsest level (direct_coarse = false): nothing at all is assumed about a coarse solver *)
Theorem built_apply_sym_cheby_smoother_coarse degree (lower higher : S) scale ce ml sc ts (M : crs) k nc pc :
  wf M = true -> sym_mat (nrows M) M -> ts_sym (nrows M) ts ->
  let lvls := map (instantiate (mk_relax5 (R5Cheby degree lower higher scale)) mk_solve_exact)
                  (amg_init ce false ml (coarse_op_of sc) ts M) in
  forall scr1 scr2 f g x1 x2,
  scratch_wf lvls scr1 -> scratch_wf lvls scr2 ->
  length f = nrows M -> length g = nrows M -> length x1 = nrows M -> length x2 = nrows M ->
  dot (fst (apply k k nc (Datatypes.S pc) lvls scr1 f x1)) g =
  dot f (fst (apply k k nc (Datatypes.S pc) lvls scr2 g x2)).
Proof.
  intros WM SM Hts. apply built_apply_sym_cheby; try assumption.
  - intros A HA. exfalso. unfold amg_init in HA. apply (nc_build_no_solve _ _ _ _ _ _ _ HA).
  - right. apply nosolve_top_inst.
Qed.

End Bridge.

Section Exact.
Context {S : Scalar}.
Local Notation crs := (crs S).
Hypothesis Sft : Sfield S.
Hypothesis Seqb : seqb_spec S.
Hypothesis sadj_id : forall a : S, sadj a = a.

(* field: the exact coarse solve of a symmetric solvable matrix is symmetric (AmgProofs9): nothing is assumed about
   smoother or solver *)
Theorem built_apply_sym_cheby_exact degree (lower higher : S) scale ce dc ml sc ts (M : crs) k nc pc :
  wf M = true -> sym_mat (nrows M) M -> ts_sym (nrows M) ts ->
  (forall A, In (LSolve A) (amg_init ce dc ml (coarse_op_of sc) ts M) -> solvable A = true /\ sym_mat (nrows A) A) ->
  let lvls := map (instantiate (mk_relax5 (R5Cheby degree lower higher scale)) mk_solve_exact)
                  (amg_init ce dc ml (coarse_op_of sc) ts M) in
  (pc = 0 \/ nosolve_top lvls) ->
  forall scr1 scr2 f g x1 x2,
  scratch_wf lvls scr1 -> scratch_wf lvls scr2 ->
  length f = nrows M -> length g = nrows M -> length x1 = nrows M -> length x2 = nrows M ->
  dot (fst (apply k k nc (Datatypes.S pc) lvls scr1 f x1)) g =
  dot f (fst (apply k k nc (Datatypes.S pc) lvls scr2 g x2)).
Proof.
  intros WM SM Hts Hsol.
  apply (built_apply_sym_cheby (F_R Sft) Seqb sadj_id degree lower higher scale ce dc ml sc ts M k nc pc WM SM Hts).
  apply (exact_solve_hyp Sft Seqb), Hsol.
Qed.
End Exact.
