(* DistSaNcConn.v -- C12: the strength pattern the ranks of the distributed smoothed aggregation compute
   (DistSa.dist_conn: pmis::conn_strength with the rank's own diagonal and the ghost diagonal values received through
   C.exchange) IS the strength pattern of the assembled matrix (Pmis.conn, what the PMIS model and the filtered matrix
   of the serial specification work on) -- for every rank count and every contiguous partition, empty ranks included,
   without any algebraic law (the strength TESTS are literally the same values).
   Storage order: a rank lists the strong LOCAL columns of a row first and the strong REMOTE columns after them
   (S_loc / S_rem), the serial pattern lists them in the storage order of the row; so row i of dist_conn is
   [reorder_cols] of row i of Pmis.conn (a stable two-way partition by "column owned by the rank of row i"), hence a
   permutation with the same members, and literally the same list when no remote column precedes a local one. *)
From Coq Require Import ZifyBool Permutation.
From Amgcl Require Import Scalar Vec Crs Kernels MatOps CoarsenProofs Dist DistProofs DistProofsT Pmis DistSa DistSaProofs.
Local Open Scope nat_scope.

(* a row of global columns as a rank with column range [b, b+p) holds it: own columns first *)
Definition reorder_cols (b p : nat) (g : list nat) : list nat :=
  filter (in_range b p) g ++ filter (fun c => negb (in_range b p c)) g.
Definition conn_reordered (parts : list nat) (G : list (list nat)) : list (list nat) :=
  concat (map (fun r => map (reorder_cols (pbeg parts r) (psize parts r)) (nth r (chunks parts G) []))
              (seq 0 (length parts))).

Lemma reorder_cols_perm b p g : Permutation (reorder_cols b p g) g.
Proof.
  unfold reorder_cols. induction g as [|c g IH]; [constructor|].
  cbn [filter]. destruct (in_range b p c); cbn [negb].
  - cbn [app]. constructor. exact IH.
  - apply Permutation_sym. apply Permutation_cons_app. apply Permutation_sym. exact IH.
Qed.

Lemma reorder_cols_id b p g :
  (forall g1 c g2 c', g = g1 ++ c :: g2 -> In c' g2 -> in_range b p c = false -> in_range b p c' = false) ->
  reorder_cols b p g = g.
Proof.
  unfold reorder_cols. induction g as [|c g IH]; intro H; [reflexivity|].
  cbn [filter]. destruct (in_range b p c) eqn:Ec; cbn [negb].
  - cbn [app]. f_equal. apply IH. intros g1 x g2 x' E. apply (H (c :: g1) x g2 x'). rewrite E. reflexivity.
  - assert (Hall : forall x, In x g -> in_range b p x = false).
    { intros x Hx. apply (H [] c g x eq_refl Hx Ec). }
    assert (E1 : filter (in_range b p) g = []).
    { clear -Hall. induction g as [|x g IHg]; [reflexivity|]. cbn [filter].
      rewrite (Hall x (or_introl eq_refl)). apply IHg. intros y Hy. apply Hall. right. exact Hy. }
    assert (E2 : filter (fun c0 => negb (in_range b p c0)) g = g).
    { clear -Hall. induction g as [|x g IHg]; [reflexivity|]. cbn [filter].
      rewrite (Hall x (or_introl eq_refl)). cbn [negb]. f_equal. apply IHg. intros y Hy. apply Hall. right. exact Hy. }
    rewrite E1, E2. reflexivity.
Qed.

Section RowPattern.
Context {S : Scalar}.
Variables b p : nat.
Variables sl sr sg : nat * S -> bool.

Lemma conn_loc_part (rw : row S) :
  (forall e, In e rw -> in_range b p (fst e) = true -> sl (shift b e) = sg e) ->
  map (fun e : nat * S => fst e + b) (filter sl (loc_row b p rw)) = filter (in_range b p) (map fst (filter sg rw)).
Proof.
  induction rw as [|e rw IH]; intro H; [reflexivity|].
  assert (IH' := IH (fun x Hx => H x (or_intror Hx))). clear IH.
  unfold loc_row in *. cbn [filter]. destruct (in_range b p (fst e)) eqn:Er.
  - cbn [map filter]. change ((fst e - b)%nat, snd e) with (shift b e).
    rewrite (H e (or_introl eq_refl) Er). destruct (sg e).
    + cbn [map filter fst]. rewrite Er. rewrite IH'. f_equal.
      unfold shift. cbn [fst]. unfold in_range in Er. lia.
    + exact IH'.
  - rewrite IH'. destruct (sg e); [|reflexivity]. cbn [map filter fst]. rewrite Er. reflexivity.
Qed.

Lemma conn_rem_part (rw : row S) :
  (forall e, In e rw -> in_range b p (fst e) = false -> sr e = sg e) ->
  map fst (filter sr (rem_row b p rw)) = filter (fun c => negb (in_range b p c)) (map fst (filter sg rw)).
Proof.
  induction rw as [|e rw IH]; intro H; [reflexivity|].
  assert (IH' := IH (fun x Hx => H x (or_intror Hx))). clear IH.
  unfold rem_row in *. cbn [filter]. destruct (in_range b p (fst e)) eqn:Er; cbn [negb].
  - rewrite IH'. destruct (sg e); [|reflexivity]. cbn [map filter fst]. rewrite Er. reflexivity.
  - cbn [filter]. rewrite (H e (or_introl eq_refl) Er). destruct (sg e).
    + cbn [map filter fst]. rewrite Er. cbn [negb]. f_equal. exact IH'.
    + exact IH'.
Qed.
End RowPattern.

Section World.
Context {S : Scalar}.
Variable A : crs S.
Variable parts : list nat.
Hypothesis Hrows : psum parts = nrows A.
Hypothesis Hsq : ncols A = nrows A.
Hypothesis Hwf : wf A = true.
Variables junk eps2 : S.
Local Notation n := (length parts).
Local Notation D := (split A parts parts).
Local Notation sg := (strong_entry junk A eps2).
Local Notation pats := (dm_pattern D).
Local Notation Ds := (dist_dia junk D).

(* the strength test a rank evaluates for a LOCAL entry (own diagonal slice, local column number) is the test of the
   assembled matrix with the global diagonal *)
Lemma loc_strong_global r k (e : nat * S) : r < n -> k < psize parts r ->
  in_range (pbeg parts r) (psize parts r) (fst e) = true ->
  loc_strong eps2 (nth r Ds []) k (shift (pbeg parts r) e) = sg (pbeg parts r + k) e.
Proof.
  intros Hr Hk Er. unfold in_range in Er.
  unfold loc_strong, strong_entry, shift. cbn [fst snd].
  rewrite (vget_Dl A parts Hrows Hsq Hwf junk r k Hr Hk).
  rewrite (vget_Dl A parts Hrows Hsq Hwf junk r (fst e - pbeg parts r) Hr) by lia.
  replace (pbeg parts r + (fst e - pbeg parts r)) with (fst e) by lia.
  replace (Nat.eqb (fst e - pbeg parts r) k) with (Nat.eqb (fst e) (pbeg parts r + k)) by lia. reflexivity.
Qed.

(* ... and for a REMOTE entry (ghost diagonal value delivered by C.exchange at C.local_index(col)) as well *)
Lemma rem_strong_global r k (e : nat * S) : r < n -> k < psize parts r ->
  In e (nth (pbeg parts r + k) (rows A) []) ->
  in_range (pbeg parts r) (psize parts r) (fst e) = false ->
  rem_strong eps2 (nth r Ds []) (exchange pats Ds r) (cp_rc (nth r pats dflt_cpat)) k e = sg (pbeg parts r + k) e.
Proof.
  intros Hr Hk He Er. unfold rem_strong, strong_entry.
  rewrite (vget_Dl A parts Hrows Hsq Hwf junk r k Hr Hk).
  rewrite (vget_Dghost A parts Hrows Hsq Hwf junk r (fst e) Hr).
  - replace (Nat.eqb (fst e) (pbeg parts r + k)) with false; [reflexivity|]. unfold in_range in Er. lia.
  - unfold split_rank. apply (rem_cols_In _ _ _ _ (nth (pbeg parts r + k) (rows A) []) e).
    + rewrite <- (chunk_nth parts (rows A) r k [] Hr Hk). apply nth_In.
      rewrite (chunk_len A parts Hrows Hsq Hwf (rows A) r Hr Hrows). exact Hk.
    + unfold rem_row. apply filter_In. split; [exact He|]. rewrite Er. reflexivity.
Qed.

Lemma conn_length : length (conn junk A eps2) = nrows A.
Proof. unfold conn. rewrite map_length, indexed_length. reflexivity. Qed.

Lemma nth_conn i : i < nrows A ->
  nth i (conn junk A eps2) [] = map fst (filter (sg i) (nth i (rows A) [])).
Proof.
  intro Hi. unfold conn.
  set (F := fun ir : nat * row S => map fst (filter (sg (fst ir)) (snd ir))).
  rewrite (nth_indep _ [] (F (0, []))) by (rewrite map_length, indexed_length; exact Hi).
  rewrite (map_nth F). rewrite nth_indexed by exact Hi. reflexivity.
Qed.

(* one rank *)
Lemma rank_conn_global r : r < n ->
  rank_conn_rows eps2 (pbeg parts r) (nth r (dm_ranks D) dflt_rank) (nth r Ds []) (exchange pats Ds r)
                 (cp_rc (nth r pats dflt_cpat))
  = map (reorder_cols (pbeg parts r) (psize parts r)) (nth r (chunks parts (conn junk A eps2)) []).
Proof.
  intro Hr. rewrite nth_rank by exact Hr.
  set (b := pbeg parts r). set (p := psize parts r).
  set (Dl := nth r Ds []). set (Dgh := exchange pats Ds r). set (rc := cp_rc (nth r pats dflt_cpat)).
  set (M := split_rank A parts parts r).
  assert (Hbp : b + p <= nrows A) by (rewrite <- Hrows; apply pbeg_le_psum).
  assert (HlenL : length (rows (rm_loc M)) = p) by (apply (local_rows_len A parts Hrows Hsq Hwf); exact Hr).
  assert (HlenR : length (rows (rm_rem M)) = p).
  { unfold M, split_rank, split_rows. cbn [rm_rem rows]. rewrite map_length.
    apply (chunk_len A parts Hrows Hsq Hwf); [exact Hr | exact Hrows]. }
  assert (HlenC : length (nth r (chunks parts (conn junk A eps2)) []) = p).
  { apply (chunk_len A parts Hrows Hsq Hwf); [exact Hr|]. rewrite conn_length. exact Hrows. }
  assert (Hlc : length (combine (rows (rm_loc M)) (rows (rm_rem M))) = p)
    by (rewrite combine_length, HlenL, HlenR; apply Nat.min_id).
  unfold rank_conn_rows.
  set (F := fun irr : nat * (row S * row S) =>
     map (fun e : nat * S => fst e + b) (filter (loc_strong eps2 Dl (fst irr)) (fst (snd irr))) ++
     map fst (filter (rem_strong eps2 Dl Dgh rc (fst irr)) (snd (snd irr)))).
  change (map F (indexed (combine (rows (rm_loc M)) (rows (rm_rem M))))
          = map (reorder_cols b p) (nth r (chunks parts (conn junk A eps2)) [])).
  apply (nth_ext _ _ (F (0, ([], []))) (reorder_cols b p [])).
  - rewrite !map_length, indexed_length, Hlc, HlenC. reflexivity.
  - intros k Hk. rewrite map_length, indexed_length, Hlc in Hk.
    rewrite (map_nth F), (map_nth (reorder_cols b p)).
    rewrite nth_indexed by (rewrite Hlc; exact Hk).
    pose proof (local_row_nth A parts Hrows Hsq Hwf r k Hr Hk) as E1.
    pose proof (remote_row_nth A parts Hrows Hsq Hwf r k Hr Hk) as E2.
    unfold Crs.row in *. rewrite combine_nth by (rewrite HlenL, HlenR; reflexivity).
    unfold M. rewrite E1, E2. clear E1 E2.
    fold b p. rewrite (chunk_nth parts _ r k [] Hr Hk). fold b.
    rewrite nth_conn by lia.
    set (rw := nth (b + k) (rows A) []).
    unfold F, reorder_cols. cbn [fst snd]. f_equal.
    + apply conn_loc_part. intros e _ Er. apply loc_strong_global; assumption.
    + apply conn_rem_part. intros e He Er. apply rem_strong_global; assumption.
Qed.

(* the world: every rank's aggr.conn rows, rank after rank = the pattern of the assembled matrix, own columns first *)
Theorem dist_conn_global : dist_conn junk eps2 D = conn_reordered parts (conn junk A eps2).
Proof.
  unfold dist_conn, conn_reordered. change (dm_cparts D) with parts.
  rewrite flat_map_concat_map. f_equal. apply map_ext_in. intros r Hr. apply in_seq in Hr.
  apply rank_conn_global. lia.
Qed.

Lemma conn_length_concat {X} (Ls : list (list X)) : length (concat Ls) = psum (map (@length X) Ls).
Proof. induction Ls as [|L Ls IH]; [reflexivity|]. cbn [concat map]. rewrite app_length, IH. reflexivity. Qed.

Lemma conn_reordered_lens (G : list (list nat)) : psum parts = length G ->
  map (@length (list nat)) (map (fun r => map (reorder_cols (pbeg parts r) (psize parts r)) (nth r (chunks parts G) []))
                                (seq 0 n)) = parts.
Proof.
  intro HG. rewrite map_map. rewrite <- (map_nth_seq parts 0) at 2.
  apply map_ext_in. intros r Hr. apply in_seq in Hr. rewrite map_length.
  apply (chunk_len A parts Hrows Hsq Hwf); [lia | exact HG].
Qed.

Lemma conn_reordered_length (G : list (list nat)) : psum parts = length G ->
  length (conn_reordered parts G) = length G.
Proof.
  intro HG. unfold conn_reordered. rewrite conn_length_concat, conn_reordered_lens by exact HG. exact HG.
Qed.

Lemma nth_conn_reordered (G : list (list nat)) r k : psum parts = length G -> r < n -> k < psize parts r ->
  nth (pbeg parts r + k) (conn_reordered parts G) []
  = reorder_cols (pbeg parts r) (psize parts r) (nth (pbeg parts r + k) G []).
Proof.
  intros HG Hr Hk. unfold conn_reordered.
  rewrite (nth_concat_blocks _ parts r k [] (conn_reordered_lens G HG) Hr Hk).
  rewrite nth_map_seq by exact Hr.
  rewrite (nth_map_lt (reorder_cols (pbeg parts r) (psize parts r)) _ k [] [])
    by (rewrite (chunk_len A parts Hrows Hsq Hwf G r Hr HG); exact Hk).
  rewrite (chunk_nth parts G r k [] Hr Hk). reflexivity.
Qed.

(* row by row: row i of the ranks' pattern is row i of the global pattern with the columns of the owner of row i first *)
Theorem dist_conn_rows :
  length (dist_conn junk eps2 D) = nrows A /\
  forall i, i < nrows A ->
    let r := owner parts i in
    nth i (dist_conn junk eps2 D) [] = reorder_cols (pbeg parts r) (psize parts r) (nth i (conn junk A eps2) []) /\
    Permutation (nth i (dist_conn junk eps2 D) []) (nth i (conn junk A eps2) []) /\
    (forall c, In c (nth i (dist_conn junk eps2 D) []) <-> In c (nth i (conn junk A eps2) [])).
Proof.
  assert (HG : psum parts = length (conn junk A eps2)) by (rewrite conn_length; exact Hrows).
  rewrite dist_conn_global. split; [rewrite conn_reordered_length by exact HG; apply conn_length|].
  intros i Hi r.
  destruct (owner_spec parts i ltac:(lia)) as [Hr Hrange]. fold r in Hr, Hrange.
  assert (E : nth i (conn_reordered parts (conn junk A eps2)) []
              = reorder_cols (pbeg parts r) (psize parts r) (nth i (conn junk A eps2) [])).
  { pose proof (nth_conn_reordered (conn junk A eps2) r (i - pbeg parts r) HG Hr ltac:(unfold psize; lia)) as E0.
    replace (pbeg parts r + (i - pbeg parts r)) with i in E0 by lia. exact E0. }
  split; [exact E|]. rewrite E. split; [apply reorder_cols_perm|].
  intro c. split; intro H.
  - apply (Permutation_in _ (reorder_cols_perm _ _ _) H).
  - apply (Permutation_in _ (Permutation_sym (reorder_cols_perm _ _ _)) H).
Qed.
End World.

(* ------------------------------------------------------------------ closed witness: the literal list equality
   dist_conn = Pmis.conn does NOT hold, already for sorted rows: rank 1 of [1;1] owns row 1 = [(0,-1); (1,2)] and lists its own
   column 1 before the remote column 0 *)
From Amgcl Require Import QcInst.
Definition connw_A : crs QcS := mkCrs 2 [[(0, qc 2 1); (1, qc (-1) 1)]; [(0, qc (-1) 1); (1, qc 2 1)]].
Example dist_conn_storage_order_differs :
  let parts := [1; 1] in let junk := qc 0 1 in let eps2 := qc 1 16 in
  psum parts = nrows connw_A /\ ncols connw_A = nrows connw_A /\ wf connw_A = true /\
  conn junk connw_A eps2 = [[0; 1]; [0; 1]] /\
  dist_conn junk eps2 (split connw_A parts parts) = [[0; 1]; [1; 0]].
Proof. vm_compute. repeat split; reflexivity. Qed.
