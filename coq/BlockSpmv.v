(* BlockSpmv.v -- C13-A2: the block-valued matrix-vector product IS the scalar one.

   The LHS of the identity is literally [Kernels.spmv] (backend/detail/matrix_ops.hpp:47-116, the
   one spmv_impl of the builtin backend) at the Scalar instance [BlockS S0 b]
   (= static_matrix<T,b,b>, BlockInst.v) applied to
     - [block_matrix A]: the output of adapter::block_matrix<static_matrix<T,b,b>>(A)
       (Adapters.block_adapter, the row iterator that merges b scalar rows) copied into a
       crs<static_matrix> by the generic copy constructor,
     - [as_rhs x]: backend::reinterpret_as_rhs<static_matrix<T,b,b>>(x) (builtin.hpp:1323-1342):
       consecutive groups of b scalars read as static_matrix<T,b,1>, each embedded as a block with
       that column 0 (the convention of BlockInst.v),
     - alpha, beta : scalar_type, embedded as alpha*I, beta*I (BlockInst.blk_embed).
   Theorem: that product equals [as_rhs] of the SCALAR [Kernels.spmv alpha A x beta y], for every
   block size b > 0, every scalar matrix with strictly sorted rows whose number of rows is divisible
   by b -- structurally incomplete blocks, rows of one block row touching different block columns,
   out-of-range columns and any length of x included -- over any commutative ring S0.
   Also: residual; and the hybrid backend (backend/builtin_hybrid.hpp: block storage, scalar
   vectors; spmv_impl for mixed types = reinterpret + block spmv) computes the scalar product. *)
From Coq Require Import ZifyBool.
From Amgcl Require Import Scalar Vec Crs Kernels KernelsProofs MatOps Adapters AdaptersProofs BlockProofs
  DirectUtil Inverse StaticMat StaticMatProofs BlockInst NcRing NcRingBlock ComplexProofs.
Local Open Scope S_scope.

(* ---------------------------------------------------------------- lists *)
Lemma skipn_skipn' {X} (n m : nat) (l : list X) : skipn n (skipn m l) = skipn (m + n) l.
Proof.
  revert l; induction m as [|m IH]; intro l; [reflexivity|].
  destruct l as [|a l]; [simpl; apply skipn_nil|]. simpl. apply IH.
Qed.

Lemma nth_skipn' {X} (m k : nat) (l : list X) d : nth k (skipn m l) d = nth (m + k) l d.
Proof.
  revert l; induction m as [|m IH]; intro l; [reflexivity|].
  destruct l as [|a l]; [simpl; destruct k; reflexivity|]. simpl. apply IH.
Qed.

Lemma nth_firstn' {X} (n k : nat) (l : list X) d : k < n -> nth k (firstn n l) d = nth k l d.
Proof.
  revert k l; induction n as [|n IH]; intros k l Hk; [lia|].
  destruct l as [|a l]; [reflexivity|]. destruct k as [|k]; [reflexivity|]. simpl. apply IH. lia.
Qed.

Section Chunks.
Context {S : Scalar}.
Variable b : nat.
Hypothesis Hb : 0 < b.

(* block I of the re-interpreted vector is x[I*b .. I*b+b) *)
Lemma chunk_nth fuel : forall (x : vec S) c, length x <= fuel ->
  nth c (chunk fuel b x) [] = firstn b (skipn (c * b) x).
Proof.
  induction fuel as [|k IH]; intros x c Hl.
  - destruct x; [|simpl in Hl; lia]. simpl. rewrite skipn_nil, firstn_nil. destruct c; reflexivity.
  - destruct x as [|a x].
    + simpl. rewrite skipn_nil, firstn_nil. destruct c; reflexivity.
    + cbn [chunk]. destruct c as [|c]; [reflexivity|].
      cbn [nth]. rewrite IH.
      * rewrite skipn_skipn'. replace (b + c * b)%nat with (Datatypes.S c * b)%nat by lia. reflexivity.
      * rewrite skipn_length. simpl length in *. lia.
Qed.

Lemma chunk_length n : forall fuel (x : vec S), length x = (n * b)%nat -> length x <= fuel ->
  length (chunk fuel b x) = n.
Proof.
  induction n as [|n IH]; intros fuel x Hx Hl.
  - destruct x; [|simpl in Hx; lia]. destruct fuel; reflexivity.
  - destruct x as [|a x]; [simpl in Hx; lia|].
    destruct fuel as [|k]; [simpl in Hl; lia|].
    cbn [chunk length]. f_equal. apply IH.
    + rewrite skipn_length, Hx. lia.
    + rewrite skipn_length. simpl length in *. lia.
Qed.

Lemma chunk_all_len n : forall fuel (x : vec S), length x = (n * b)%nat -> length x <= fuel ->
  Forall (fun ch => length ch = b) (chunk fuel b x).
Proof.
  induction n as [|n IH]; intros fuel x Hx Hl.
  - destruct x; [|simpl in Hx; lia]. destruct fuel; constructor.
  - destruct x as [|a x]; [simpl in Hx; lia|].
    destruct fuel as [|k]; [simpl in Hl; lia|].
    cbn [chunk]. constructor.
    + rewrite firstn_length, Hx. lia.
    + apply IH.
      * rewrite skipn_length, Hx. lia.
      * rewrite skipn_length. simpl length in *. lia.
Qed.

Lemma to_blocks_nth (x : vec S) c k : k < b ->
  vget (nth c (to_blocks b x) []) k = vget x (c * b + k).
Proof.
  intro Hk. unfold to_blocks. rewrite chunk_nth by lia. unfold vget.
  rewrite nth_firstn' by exact Hk. apply nth_skipn'.
Qed.

Lemma to_blocks_length (x : vec S) n : length x = (n * b)%nat -> length (to_blocks b x) = n.
Proof. intro H. unfold to_blocks. apply (chunk_length n); [exact H|lia]. Qed.

End Chunks.

(* ---------------------------------------------------------------- the block instance *)
Section BlockSpmv.
Variable S0 : Scalar.
Variable b : nat.
Hypothesis Srt : Sring S0.
Hypothesis Hb : 0 < b.
Add Ring SRingBS : Srt.
Local Notation B := (BlockS S0 b).
Local Notation blk := (blk S0 b).
Local Notation bcol := (blk_col S0 b).
Local Notation isc := (is_col S0 b).

(* static_matrix<T,b,b> value of the adapter (list of b rows of b scalars) as the carrier of BlockS *)
Definition blk_of_block (v : @block S0) : blk := blk_of_fun S0 b (bget v).
(* crs<static_matrix<T,b,b>>(adapter): the generic copy keeps columns and iteration order *)
Definition bcrs_of_gcrs (G : gcrs (@block S0)) : crs B :=
  @mkCrs B (gncols G) (map (map (fun cv : nat * @block S0 => ((fst cv, blk_of_block (snd cv)) : nat * B))) (grows G)).
Definition block_matrix (A : crs S0) : crs B := bcrs_of_gcrs (to_gcrs (block_adapter b (crs_view A))).
(* backend::reinterpret_as_rhs: groups of b scalars as static_matrix<T,b,1>, and back *)
Definition as_rhs (x : vec S0) : vec B := map bcol (to_blocks b x).
Definition of_rhs (X : vec B) : vec S0 := flat_map (fun a : blk => blk_col0 a) X.
(* backend::builtin_hybrid: spmv_impl / residual_impl for a block matrix and scalar vectors
   (matrix_ops.hpp:120-170): reinterpret the vectors, run the block kernel in place *)
Definition hybrid_spmv (alpha : S0) (M : crs B) (x : vec S0) (beta : S0) (y : vec S0) : vec S0 :=
  of_rhs (spmv (S:=B) (blk_embed S0 b alpha) M (as_rhs x) (blk_embed S0 b beta) (as_rhs y)).
Definition hybrid_residual (f : vec S0) (M : crs B) (x r : vec S0) : vec S0 :=
  of_rhs (residual (S:=B) (as_rhs f) M (as_rhs x) (as_rhs r)).

(* ---- entries of the re-interpreted vector ---- *)
Lemma as_rhs_cell (x : vec S0) c k : k < b ->
  blk_get (vget (S:=B) (as_rhs x) c) k 0 = vget x (c * b + k).
Proof.
  intro Hk. unfold as_rhs, vget at 1. cbn [s0 BlockS].
  rewrite <- (to_blocks_nth b Hb x c k Hk).
  destruct (Nat.lt_ge_cases c (length (to_blocks b x))) as [Hc|Hc].
  - rewrite (nth_indep _ (blk_zero S0 b) (bcol [])) by (rewrite map_length; exact Hc).
    rewrite (map_nth bcol). rewrite blk_get_col by lia. reflexivity.
  - rewrite !nth_overflow by (rewrite ?map_length; exact Hc).
    rewrite blk_get_zero by lia. destruct k; reflexivity.
Qed.

Lemma as_rhs_is_col (x : vec S0) c : isc (vget (S:=B) (as_rhs x) c).
Proof.
  unfold as_rhs, vget. cbn [s0 BlockS].
  destruct (Nat.lt_ge_cases c (length (to_blocks b x))) as [Hc|Hc].
  - rewrite (nth_indep _ (blk_zero S0 b) (bcol [])) by (rewrite map_length; exact Hc).
    rewrite (map_nth bcol). apply blk_col_is_col.
  - rewrite nth_overflow by (rewrite map_length; exact Hc). apply is_col_zero.
Qed.

Lemma as_rhs_nth (v : vec S0) n I : length v = (n * b)%nat -> I < n ->
  nth I (as_rhs v) (blk_zero S0 b) = bcol (firstn b (skipn (I * b) v)).
Proof.
  intros Hv HI. unfold as_rhs.
  rewrite (nth_indep _ (blk_zero S0 b) (bcol []))
    by (rewrite map_length; exact (eq_ind_r (fun z => I < z) HI (to_blocks_length b Hb v n Hv))).
  rewrite (map_nth bcol). unfold to_blocks. rewrite chunk_nth by lia. reflexivity.
Qed.

Lemma as_rhs_length (v : vec S0) n : length v = (n * b)%nat -> length (as_rhs v) = n.
Proof. intro H. unfold as_rhs. rewrite map_length. apply to_blocks_length; assumption. Qed.

(* a column block is determined by its column 0 *)
Lemma col_ext (u v : blk) : isc u -> isc v -> (forall i, i < b -> blk_get u i 0 = blk_get v i 0) -> u = v.
Proof.
  intros Hu Hv H. apply blk_ext_get. intros i j Hi Hj.
  destruct j as [|j]; [apply H; exact Hi|]. rewrite Hu, Hv by lia. reflexivity.
Qed.

Lemma bcol_cell (v : vec S0) i : i < b -> blk_get (bcol v) i 0 = vget v i.
Proof. intro Hi. rewrite blk_get_col by lia. reflexivity. Qed.

Lemma of_as_rhs (v : vec S0) n : length v = (n * b)%nat -> of_rhs (as_rhs v) = v.
Proof.
  intro Hv. unfold of_rhs, as_rhs. rewrite flat_map_concat_map, map_map.
  rewrite <- (chunk_concat b v (length v) Hb (le_n _)) at 2. f_equal. fold (to_blocks b v).
  pose proof (chunk_all_len b Hb n (length v) v Hv (le_n _)) as Hall. fold (to_blocks b v) in Hall.
  induction Hall as [|ch l Hch _ IH]; [reflexivity|]. cbn [map]. f_equal; [|exact IH].
  unfold blk_col0. apply (nth_ext _ _ s0 s0).
  - rewrite tabulate_length. symmetry; exact Hch.
  - intros k Hk. rewrite tabulate_length in Hk. rewrite tabulate_nth by exact Hk.
    rewrite blk_get_col by lia. reflexivity.
Qed.

(* ---- one product  V * X_c  ---- *)
Lemma blk_of_block_get (v : @block S0) i j : i < b -> j < b -> blk_get (blk_of_block v) i j = bget v i j.
Proof. intros. unfold blk_of_block. apply blk_get_of_fun; assumption. Qed.

Lemma block_times_rhs (v : @block S0) (x : vec S0) c i : i < b ->
  blk_get (blk_mul S0 b (blk_of_block v) (vget (S:=B) (as_rhs x) c)) i 0
  = sumn (fun k => bget v i k * vget x (c * b + k)) b.
Proof.
  intro Hi. rewrite blk_get_mul by lia. apply sumn_ext. intros k Hk.
  rewrite blk_of_block_get, as_rhs_cell by lia. reflexivity.
Qed.

(* ---- scalar side: a run of entries inside one block column ---- *)
Lemma dotrow_app (r1 r2 : row S0) (x : vec S0) : dotrow (r1 ++ r2) x = dotrow r1 x + dotrow r2 x.
Proof. unfold dotrow at 1. rewrite fold_left_app. fold (dotrow r1 x). apply (dotrow_acc Srt). Qed.

Lemma sumn_pick (c base : nat) (g : nat -> S0) n : (base <= c < base + n)%nat ->
  sumn (fun k => if Nat.eqb c (base + k) then g k else s0) n = g (c - base)%nat.
Proof.
  induction n as [|n IH]; intro H; [lia|]. simpl.
  destruct (Nat.eqb_spec c (base + n)) as [E|E].
  - rewrite (sumn_ext _ (fun _ => s0)).
    + rewrite (sumn_zero Srt). replace (c - base)%nat with n by lia. ring.
    + intros k Hk. destruct (Nat.eqb_spec c (base + k)); [lia|reflexivity].
  - rewrite IH by lia. ring.
Qed.

Lemma dotrow_in_block (t : row S0) (x : vec S0) c :
  Forall (fun e => (c * b <= fst e < (c + 1) * b)%nat) t ->
  dotrow t x = sumn (fun k => rget t (c * b + k) * vget x (c * b + k)) b.
Proof.
  induction t as [|e t IH]; intro HF.
  - unfold dotrow; simpl. rewrite (sumn_ext _ (fun _ => s0)); [symmetry; apply (sumn_zero Srt)|].
    intros k _. rewrite (rget_nil (c * b + k)). ring.
  - inversion HF as [|? ? He HF']; subst. rewrite (dotrow_cons Srt), (IH HF').
    rewrite (sumn_ext (fun k => rget (e :: t) (c * b + k) * vget x (c * b + k))
               (fun k => (if Nat.eqb (fst e) (c * b + k) then snd e * vget x (c * b + k) else s0)
                         + rget t (c * b + k) * vget x (c * b + k))).
    + rewrite (sumn_add Srt). f_equal.
      rewrite (sumn_pick (fst e) (c * b) (fun k => snd e * vget x (c * b + k)) b) by lia.
      replace (c * b + (fst e - c * b))%nat with (fst e) by lia. reflexivity.
    + intros k _. rewrite (rget_cons Srt). destruct (Nat.eqb_spec (fst e) (c * b + k)); ring.
Qed.

(* ---- the loop  sum += a.value() * x[a.col()]  over one block row ---- *)
Definition bconv (br : grow (@block S0)) : row B :=
  map (fun cv : nat * @block S0 => ((fst cv, blk_of_block (snd cv)) : nat * B)) br.
Definition bstep (X : vec B) (acc : blk) (e : nat * blk) : blk :=
  blk_add S0 b acc (blk_mul S0 b (snd e) (vget (S:=B) X (fst e))).

Lemma dotrowB_unfold (r : row B) (X : vec B) : dotrow (S:=B) r X = fold_left (bstep X) r (blk_zero S0 b).
Proof. reflexivity. Qed.

Lemma bfold_is_col (x : vec S0) (r : row B) : forall acc, isc acc -> isc (fold_left (bstep (as_rhs x)) r acc).
Proof.
  induction r as [|e r IH]; intros acc Ha; [exact Ha|]. simpl. apply IH.
  unfold bstep. apply (is_col_add S0 b Srt); [exact Ha|]. apply (is_col_mul_l S0 b Srt). apply as_rhs_is_col.
Qed.

Lemma block_row_dot (x : vec S0) : forall fuel (rs : list (row S0)),
  length rs = b -> Forall (fun r => sorted_strict r = true) rs -> total_len rs <= fuel ->
  forall (acc : blk) i, i < b ->
  blk_get (fold_left (bstep (as_rhs x)) (bconv (block_row fuel b rs)) acc) i 0
  = blk_get acc i 0 + dotrow (nth i rs []) x.
Proof.
  induction fuel as [|k IH]; intros rs Hlen Hs Hfuel acc i Hi.
  - simpl. rewrite total_len_zero by lia. unfold dotrow; simpl. ring.
  - cbn [block_row]. destruct (heads_min b rs) as [c|] eqn:Hm.
    + destruct (heads_min_some b rs c Hm) as [Hlow Hatt].
      set (e := ((c + 1) * b)%nat). set (sp := map (span_lt e) rs).
      cbn [bconv map fold_left fst snd]. fold (bconv (block_row k b (map snd sp))).
      assert (Hs' : Forall (fun r => sorted_strict r = true) (map snd sp)).
      { unfold sp. rewrite map_map. apply Forall_forall. intros r Hr. apply in_map_iff in Hr as [r0 [<- Hr0]].
        rewrite Forall_forall in Hs. apply (span_lt_sorted e r0 (Hs _ Hr0)). }
      assert (Hlen' : total_len (map snd sp) <= k).
      { unfold sp. rewrite map_map.
        assert (total_len (map (fun r => snd (span_lt e r)) rs) < total_len rs); [|lia].
        apply total_len_map_lt; [intro; apply span_lt_len|].
        apply Exists_exists. apply Exists_exists in Hatt as [r [Hr Hx]].
        exists r. split; [exact Hr|]. destruct r as [|x0 tl]; [contradiction|].
        apply span_lt_progress. unfold e. rewrite <- Hx. apply div_upper; exact Hb. }
      rewrite (IH (map snd sp)); [|unfold sp; rewrite !map_length; exact Hlen|exact Hs'|exact Hlen'|exact Hi].
      set (r := nth i rs []).
      assert (Hr_in : In r rs) by (apply nth_In; lia).
      assert (Hr_s : sorted_strict r = true) by (rewrite Forall_forall in Hs; apply Hs; exact Hr_in).
      assert (Et : nth i (map fst sp) [] = fst (span_lt e r)).
      { unfold sp. rewrite map_map. change [] with (fst (span_lt e (@nil (nat * S0)))) at 1.
        rewrite (map_nth (fun r => fst (span_lt e r))). reflexivity. }
      assert (Er : nth i (map snd sp) [] = snd (span_lt e r)).
      { unfold sp. rewrite map_map. change [] with (snd (span_lt e (@nil (nat * S0)))) at 1.
        rewrite (map_nth (fun r => snd (span_lt e r))). reflexivity. }
      rewrite Er.
      assert (Esplit : dotrow r x = dotrow (fst (span_lt e r)) x + dotrow (snd (span_lt e r)) x).
      { rewrite (span_lt_app e r) at 1. apply dotrow_app. }
      rewrite Esplit.
      destruct (span_lt_sorted e r Hr_s) as (St & Sr & Fr).
      pose proof (span_lt_taken e r) as Ft.
      assert (Flo : Forall (fun x => (c * b <= fst x)%nat) r).
      { apply sorted_lower; [exact Hr_s|]. rewrite Forall_forall in Hlow. specialize (Hlow r Hr_in).
        destruct r as [|x0 tl]; [exact I|]. apply div_lower; assumption. }
      assert (Ftr : Forall (fun x => (c * b <= fst x < (c + 1) * b)%nat) (fst (span_lt e r))).
      { apply Forall_forall. intros x0 Hx. split.
        - rewrite Forall_forall in Flo. apply Flo. rewrite (span_lt_app e r). apply in_or_app. left; exact Hx.
        - rewrite Forall_forall in Ft. apply Ft. exact Hx. }
      unfold bstep. cbn [fst snd]. rewrite blk_get_add by lia.
      rewrite block_times_rhs by exact Hi.
      rewrite (dotrow_in_block _ x c Ftr).
      rewrite (sumn_ext (fun k0 => bget (blk_of b (map fst sp)) i k0 * vget x (c * b + k0))
                 (fun k0 => rget (fst (span_lt e r)) (c * b + k0) * vget x (c * b + k0))).
      * ring.
      * intros k0 Hk0. rewrite bget_blk_of by (unfold sp; rewrite ?map_length; lia).
        rewrite Et. rewrite (blk_entry_rget Srt b c _ k0 Hb Hk0 St Ftr). reflexivity.
    + simpl. pose proof (heads_min_none b rs Hm) as Hn. rewrite all_nil_nth by exact Hn.
      unfold dotrow; simpl. ring.
Qed.

(* one block row of the product = the b scalar dot products, as a static_matrix<T,b,1> *)
Lemma block_row_product (x : vec S0) (rs : list (row S0)) :
  length rs = b -> Forall (fun r => sorted_strict r = true) rs ->
  dotrow (S:=B) (bconv (block_row (total_len rs) b rs)) (as_rhs x)
  = bcol (map (fun r => dotrow r x) rs).
Proof.
  intros Hlen Hs. rewrite dotrowB_unfold. apply col_ext.
  - apply bfold_is_col. apply is_col_zero.
  - apply blk_col_is_col.
  - intros i Hi. rewrite (block_row_dot x _ rs Hlen Hs (le_n _)) by exact Hi.
    rewrite blk_get_zero, bcol_cell by lia. unfold vget.
    rewrite (nth_indep _ s0 (dotrow [] x)) by (rewrite map_length; lia).
    rewrite (map_nth (fun r => dotrow r x)). ring.
Qed.

(* ---- all rows ---- *)
Lemma firstn_skipn_rows {X} (l : list X) I d : (I * b + b <= length l)%nat ->
  firstn b (skipn (I * b) l) = map (fun k => nth (I * b + k) l d) (seq 0 b).
Proof.
  intro H. apply (nth_ext _ _ d d).
  - rewrite firstn_length, skipn_length, map_length, seq_length. lia.
  - intros k Hk. rewrite firstn_length, skipn_length in Hk.
    rewrite nth_firstn' by lia. rewrite nth_skipn'.
    rewrite nth_map_seq by lia. reflexivity.
Qed.

Theorem block_spmv_rows (A : crs S0) (x : vec S0) :
  nrows A mod b = 0 -> Forall (fun r => sorted_strict r = true) (rows A) ->
  map (fun r => dotrow (S:=B) r (as_rhs x)) (rows (block_matrix A))
  = as_rhs (map (fun r => dotrow r x) (rows A)).
Proof.
  intros Hr Hs.
  set (n := (nrows A / b)%nat).
  assert (En : nrows A = (n * b)%nat).
  { unfold n. pose proof (Nat.div_mod (nrows A) b ltac:(lia)). lia. }
  set (ys := map (fun r => dotrow r x) (rows A)).
  assert (Hys : length ys = (n * b)%nat) by (unfold ys; rewrite map_length; exact En).
  apply (nth_ext _ _ (blk_zero S0 b) (blk_zero S0 b)).
  - transitivity n; [|symmetry; exact (as_rhs_length ys n Hys)]. rewrite map_length.
    unfold block_matrix, bcrs_of_gcrs, to_gcrs. cbn [rows grows block_adapter a_rows crs_view].
    rewrite !map_length, seq_length. reflexivity.
  - intros I HI. rewrite map_length in HI.
    assert (HIn : I < n).
    { revert HI. unfold block_matrix, bcrs_of_gcrs, to_gcrs. cbn [rows grows block_adapter a_rows crs_view].
      rewrite !map_length, seq_length. fold n. intro; assumption. }
    transitivity (bcol (firstn b (skipn (I * b) ys))); [|symmetry; exact (as_rhs_nth ys n I Hys HIn)].
    unfold block_matrix, bcrs_of_gcrs, to_gcrs. cbn [rows grows block_adapter a_rows a_row crs_view].
    fold n. rewrite !map_map.
    rewrite nth_map_seq by exact HIn.
    set (rs := map (fun k => nth (I * b + k) (rows A) []) (seq 0 b)).
    change (dotrow (S:=B) (bconv (block_row (total_len rs) b rs)) (as_rhs x) = bcol (firstn b (skipn (I * b) ys))).
    rewrite block_row_product.
    + f_equal. unfold ys. rewrite skipn_map, firstn_map. f_equal.
      unfold rs. symmetry. apply firstn_skipn_rows. unfold nrows in En. nia.
    + unfold rs. rewrite map_length, seq_length. reflexivity.
    + apply Forall_forall. intros r Hr'. unfold rs in Hr'. apply in_map_iff in Hr' as [k [<- Hk]]. apply in_seq in Hk.
      rewrite Forall_forall in Hs. apply Hs. apply nth_In. unfold nrows in En. nia.
Qed.

(* ---- the element-wise update loops commute with the re-interpretation ---- *)
Lemma sub_vget (v : vec S0) I i : i < b -> vget (firstn b (skipn (I * b) v)) i = vget v (I * b + i).
Proof. intro Hi. unfold vget. rewrite nth_firstn' by exact Hi. apply nth_skipn'. Qed.

Lemma as_rhs_upd2 (f : S0 -> S0 -> S0) (F : B -> B -> B) (s y : vec S0) n :
  length s = (n * b)%nat -> length y = (n * b)%nat ->
  (forall (u v : vec S0) i, i < b -> blk_get (F (bcol u) (bcol v)) i 0 = f (vget u i) (vget v i)) ->
  (forall u v : blk, isc u -> isc v -> isc (F u v)) ->
  upd2 (S:=B) F (as_rhs s) (as_rhs y) = as_rhs (upd2 f s y).
Proof.
  intros Hs Hy Hcell Hcol.
  assert (Ls : length (as_rhs s) = n) by (apply as_rhs_length; exact Hs).
  assert (Ly : length (as_rhs y) = n) by (apply as_rhs_length; exact Hy).
  assert (Lu : length (upd2 f s y) = (n * b)%nat) by (rewrite upd2_length; congruence).
  apply (nth_ext _ _ (blk_zero S0 b) (blk_zero S0 b)).
  - transitivity n; [|symmetry; apply as_rhs_length; exact Lu].
    rewrite (upd2_length (S:=B)); congruence.
  - intros I HI. rewrite (upd2_length (S:=B)) in HI by congruence. rewrite Ly in HI.
    transitivity (F (nth I (as_rhs s) (blk_zero S0 b)) (nth I (as_rhs y) (blk_zero S0 b))).
    { apply (upd2_get (S:=B) F (as_rhs s) (as_rhs y) I); [congruence|rewrite Ls; exact HI]. }
    transitivity (bcol (firstn b (skipn (I * b) (upd2 f s y)))); [|symmetry; exact (as_rhs_nth _ n I Lu HI)].
    rewrite (as_rhs_nth s n I Hs HI), (as_rhs_nth y n I Hy HI).
    apply col_ext.
    + apply Hcol; apply blk_col_is_col.
    + apply blk_col_is_col.
    + intros i Hi. rewrite Hcell, bcol_cell by exact Hi. rewrite !sub_vget by exact Hi.
      symmetry. apply upd2_get; [congruence|nia].
Qed.

Lemma as_rhs_upd3 (f : S0 -> S0 -> S0 -> S0) (F : B -> B -> B -> B) (s y z : vec S0) n :
  length s = (n * b)%nat -> length y = (n * b)%nat -> length z = (n * b)%nat ->
  (forall (u v w : vec S0) i, i < b ->
     blk_get (F (bcol u) (bcol v) (bcol w)) i 0 = f (vget u i) (vget v i) (vget w i)) ->
  (forall u v w : blk, isc u -> isc v -> isc w -> isc (F u v w)) ->
  upd3 (S:=B) F (as_rhs s) (as_rhs y) (as_rhs z) = as_rhs (upd3 f s y z).
Proof.
  intros Hs Hy Hz Hcell Hcol.
  assert (Ls : length (as_rhs s) = n) by (apply as_rhs_length; exact Hs).
  assert (Ly : length (as_rhs y) = n) by (apply as_rhs_length; exact Hy).
  assert (Lz : length (as_rhs z) = n) by (apply as_rhs_length; exact Hz).
  assert (Lu : length (upd3 f s y z) = (n * b)%nat) by (rewrite upd3_length; congruence).
  apply (nth_ext _ _ (blk_zero S0 b) (blk_zero S0 b)).
  - transitivity n; [|symmetry; apply as_rhs_length; exact Lu].
    rewrite (upd3_length (S:=B)); congruence.
  - intros I HI. rewrite (upd3_length (S:=B)) in HI by congruence. rewrite Lz in HI.
    transitivity (F (nth I (as_rhs s) (blk_zero S0 b)) (nth I (as_rhs y) (blk_zero S0 b)) (nth I (as_rhs z) (blk_zero S0 b))).
    { apply (upd3_get (S:=B) F (as_rhs s) (as_rhs y) (as_rhs z) I); [congruence|congruence|rewrite Ls; exact HI]. }
    transitivity (bcol (firstn b (skipn (I * b) (upd3 f s y z)))); [|symmetry; exact (as_rhs_nth _ n I Lu HI)].
    rewrite (as_rhs_nth s n I Hs HI), (as_rhs_nth y n I Hy HI), (as_rhs_nth z n I Hz HI).
    apply col_ext.
    + apply Hcol; apply blk_col_is_col.
    + apply blk_col_is_col.
    + intros i Hi. rewrite Hcell, bcol_cell by exact Hi. rewrite !sub_vget by exact Hi.
      symmetry. apply upd3_get; [congruence|congruence|nia].
Qed.

(* math::is_zero(beta) on the scalar_type coefficient, seen through the embedding *)
Lemma is_zero_embed (beta : S0) : seqb_spec S0 -> is_zero (S:=B) (blk_embed S0 b beta) = is_zero beta.
Proof.
  intro Seqb. pose proof (BlockS_eqb S0 b Seqb) as SeqB. unfold is_zero.
  destruct (seqb beta s0) eqn:E.
  - apply Seqb in E. subst beta. apply SeqB. cbn [s0 BlockS]. apply (blk_embed_0 S0 b).
  - destruct (seqb (s:=B) (blk_embed S0 b beta) s0) eqn:E2; [|reflexivity].
    apply SeqB in E2. cbn [s0 BlockS] in E2.
    assert (E3 : blk_get (blk_embed S0 b beta) 0 0 = blk_get (blk_zero S0 b) 0 0) by (rewrite E2; reflexivity).
    rewrite blk_get_embed, blk_get_zero in E3 by (assumption || lia). cbn in E3. subst beta.
    assert (seqb (@s0 S0) s0 = true) by (apply Seqb; reflexivity). congruence.
Qed.

Lemma embed_mul_col (c : S0) (u : vec S0) i : i < b ->
  blk_get (blk_mul S0 b (blk_embed S0 b c) (bcol u)) i 0 = c * vget u i.
Proof. intro Hi. rewrite (blk_embed_mul_l S0 b Srt), bcol_cell by lia. reflexivity. Qed.

(* C13-A2, FULL: spmv with the block value type on the adapter output and the re-interpreted
   vectors = the scalar spmv, re-interpreted *)
Theorem block_spmv_full (Seqb : seqb_spec S0) (alpha beta : S0) (A : crs S0) (x y : vec S0) :
  nrows A mod b = 0 -> Forall (fun r => sorted_strict r = true) (rows A) -> length y = nrows A ->
  spmv (S:=B) (blk_embed S0 b alpha) (block_matrix A) (as_rhs x) (blk_embed S0 b beta) (as_rhs y)
  = as_rhs (spmv alpha A x beta y).
Proof.
  intros Hr Hs Hy.
  set (n := (nrows A / b)%nat).
  assert (En : nrows A = (n * b)%nat).
  { unfold n. pose proof (Nat.div_mod (nrows A) b ltac:(lia)). lia. }
  unfold spmv. rewrite (is_zero_embed beta Seqb), (block_spmv_rows A x Hr Hs).
  assert (Ld : length (map (fun r => dotrow r x) (rows A)) = (n * b)%nat) by (rewrite map_length; exact En).
  destruct (is_zero beta).
  - apply (as_rhs_upd2 (fun s _ => alpha * s) _ _ _ n Ld); [congruence| |].
    + intros u v i Hi. cbn [smul BlockS]. apply embed_mul_col; exact Hi.
    + intros u v Hu _. cbn [smul BlockS]. apply (is_col_mul_l S0 b Srt). exact Hu.
  - apply (as_rhs_upd2 (fun s yi => alpha * s + beta * yi) _ _ _ n Ld); [congruence| |].
    + intros u v i Hi. cbn [smul sadd BlockS]. rewrite blk_get_add by lia.
      rewrite !embed_mul_col by exact Hi. reflexivity.
    + intros u v Hu Hv. cbn [smul sadd BlockS].
      apply (is_col_add S0 b Srt); apply (is_col_mul_l S0 b Srt); assumption.
Qed.

Theorem block_residual_full (A : crs S0) (f x r : vec S0) :
  nrows A mod b = 0 -> Forall (fun r => sorted_strict r = true) (rows A) ->
  length f = nrows A -> length r = nrows A ->
  residual (S:=B) (as_rhs f) (block_matrix A) (as_rhs x) (as_rhs r) = as_rhs (residual f A x r).
Proof.
  intros Hr Hs Hf Hres.
  set (n := (nrows A / b)%nat).
  assert (En : nrows A = (n * b)%nat).
  { unfold n. pose proof (Nat.div_mod (nrows A) b ltac:(lia)). lia. }
  unfold residual. rewrite (block_spmv_rows A x Hr Hs).
  assert (Ld : length (map (fun r => dotrow r x) (rows A)) = (n * b)%nat) by (rewrite map_length; exact En).
  apply (as_rhs_upd3 (fun s fi _ => fi - s) _ _ _ _ n Ld); [congruence|congruence| |].
  - intros u v w i Hi. cbn [ssub BlockS]. rewrite blk_get_sub, !bcol_cell by lia. reflexivity.
  - intros u v w Hu Hv _. cbn [ssub BlockS]. apply (is_col_sub S0 b Srt); assumption.
Qed.

(* C13-A3: the hybrid backend (block storage, scalar vectors) computes the scalar product *)
Theorem hybrid_spmv_is_scalar (Seqb : seqb_spec S0) (alpha beta : S0) (A : crs S0) (x y : vec S0) :
  nrows A mod b = 0 -> Forall (fun r => sorted_strict r = true) (rows A) -> length y = nrows A ->
  hybrid_spmv alpha (block_matrix A) x beta y = spmv alpha A x beta y.
Proof.
  intros Hr Hs Hy. unfold hybrid_spmv. rewrite (block_spmv_full Seqb) by assumption.
  apply (of_as_rhs _ (nrows A / b)). rewrite spmv_length by exact Hy.
  pose proof (Nat.div_mod (nrows A) b ltac:(lia)). lia.
Qed.

Theorem hybrid_residual_is_scalar (A : crs S0) (f x r : vec S0) :
  nrows A mod b = 0 -> Forall (fun r => sorted_strict r = true) (rows A) ->
  length f = nrows A -> length r = nrows A ->
  hybrid_residual f (block_matrix A) x r = residual f A x r.
Proof.
  intros Hr Hs Hf Hres. unfold hybrid_residual. rewrite block_residual_full by assumption.
  apply (of_as_rhs _ (nrows A / b)). rewrite residual_length by assumption.
  pose proof (Nat.div_mod (nrows A) b ltac:(lia)). lia.
Qed.

End BlockSpmv.
