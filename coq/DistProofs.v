(* DistProofs.v -- proofs about the distributed layer (property C11). *)
From Coq Require Import Sorted.
From Amgcl Require Import Scalar Vec Crs Kernels KernelsProofs MatOps Dist.
Local Open Scope nat_scope.

(* ------------------------------------------------------------------ *)
(* Part 0: list utilities                                              *)
Section ListUtil.
Context {X : Type}.

Lemma nth_firstn_lt (i n : nat) (l : list X) d : i < n -> nth i (firstn n l) d = nth i l d.
Proof.
  revert n l; induction i as [|i IH]; intros [|n] [|a l] H; simpl; try lia; auto.
  apply IH. lia.
Qed.

Lemma nth_skipn_add (i n : nat) (l : list X) d : nth i (skipn n l) d = nth (n + i) l d.
Proof.
  revert l; induction n as [|n IH]; intros [|a l]; simpl; auto. destruct i; reflexivity.
Qed.

Lemma skipn_skipn_add (a b : nat) (l : list X) : skipn a (skipn b l) = skipn (b + a) l.
Proof.
  revert l; induction b as [|b IH]; intros l; simpl; auto.
  destruct l; simpl; [apply skipn_nil | apply IH].
Qed.

Lemma firstn_length_app (l1 l2 : list X) : firstn (length l1) (l1 ++ l2) = l1.
Proof. induction l1; simpl; [reflexivity | f_equal; assumption]. Qed.

Lemma skipn_length_app (l1 l2 : list X) : skipn (length l1) (l1 ++ l2) = l2.
Proof. induction l1; simpl; auto. Qed.

Lemma chunks_length (lens : list nat) (l : list X) : length (chunks lens l) = length lens.
Proof. revert l; induction lens; intro l; simpl; auto. Qed.

Lemma concat_chunks (lens : list nat) : forall l : list X,
  length l <= psum lens -> concat (chunks lens l) = l.
Proof.
  induction lens as [|n ns IH]; intros l H; simpl in *.
  - destruct l; simpl in *; [reflexivity | lia].
  - rewrite IH by (rewrite skipn_length; lia). apply firstn_skipn.
Qed.

Lemma nth_chunks (lens : list nat) : forall r (l : list X), r < length lens ->
  nth r (chunks lens l) [] = firstn (nth r lens 0) (skipn (pbeg lens r) l).
Proof.
  induction lens as [|n ns IH]; intros r l H; simpl in H; [lia|].
  destruct r as [|r]; simpl.
  - reflexivity.
  - rewrite IH by lia. unfold pbeg. simpl. rewrite skipn_skipn_add. reflexivity.
Qed.

Lemma flat_map_filter_nil {Y} (f : X -> list Y) (p : X -> bool) (l : list X) :
  (forall x, In x l -> p x = false -> f x = []) ->
  flat_map f (filter p l) = flat_map f l.
Proof.
  induction l as [|a l IH]; intro H; simpl; [reflexivity|].
  destruct (p a) eqn:E; simpl.
  - f_equal. apply IH. intros; apply H; simpl; auto.
  - rewrite (H a) by (simpl; auto). simpl. apply IH. intros; apply H; simpl; auto.
Qed.

Lemma map_nth_seq (l : list X) d : map (fun i => nth i l d) (seq 0 (length l)) = l.
Proof.
  induction l as [|a l IH]; simpl; [reflexivity|]. f_equal.
  rewrite <- seq_shift, map_map. exact IH.
Qed.

Lemma nth_map_seq {Y} (f : nat -> Y) n i d : i < n -> nth i (map f (seq 0 n)) d = f i.
Proof.
  intro H. rewrite (nth_indep _ d (f 0%nat)) by (rewrite map_length, seq_length; exact H).
  rewrite map_nth, seq_nth by exact H. reflexivity.
Qed.

Lemma nth_map_lt {Y} (f : X -> Y) (l : list X) i d d' : i < length l -> nth i (map f l) d' = f (nth i l d).
Proof.
  intro H. rewrite (nth_indep _ d' (f d)) by (rewrite map_length; exact H). apply map_nth.
Qed.

Lemma filter_filter_imp (p q : X -> bool) (l : list X) :
  (forall x, In x l -> p x = true -> q x = true) -> filter p (filter q l) = filter p l.
Proof.
  induction l as [|a l IH]; intro H; simpl; [reflexivity|].
  destruct (q a) eqn:Eq; simpl.
  - destruct (p a); [f_equal|]; apply IH; intros; apply H; simpl; auto.
  - destruct (p a) eqn:Ep.
    + rewrite (H a) in Eq by (simpl; auto). discriminate.
    + apply IH; intros; apply H; simpl; auto.
Qed.

Lemma filter_none (p : X -> bool) (l : list X) : (forall x, In x l -> p x = false) -> filter p l = [].
Proof.
  induction l as [|a l IH]; intro H; simpl; [reflexivity|].
  rewrite (H a) by (simpl; auto). apply IH. intros; apply H; simpl; auto.
Qed.

Lemma filter_all (p : X -> bool) (l : list X) : (forall x, In x l -> p x = true) -> filter p l = l.
Proof.
  induction l as [|a l IH]; intro H; simpl; [reflexivity|].
  rewrite (H a) by (simpl; auto). f_equal. apply IH. intros; apply H; simpl; auto.
Qed.

Lemma Forall_filter' (P : X -> Prop) (p : X -> bool) (l : list X) : Forall P l -> Forall P (filter p l).
Proof.
  induction 1; simpl; [constructor|]. destruct (p x); [constructor|]; assumption.
Qed.

Lemma StronglySorted_filter (R : X -> X -> Prop) (p : X -> bool) (l : list X) :
  StronglySorted R l -> StronglySorted R (filter p l).
Proof.
  induction 1 as [|a l Hs IH Hf]; simpl; [constructor|].
  destruct (p a); [constructor; [exact IH | apply Forall_filter'; exact Hf] | exact IH].
Qed.

End ListUtil.

Lemma psum_app (a b : list nat) : psum (a ++ b) = psum a + psum b.
Proof. induction a; simpl; lia. Qed.

Lemma pbeg_S (parts : list nat) r : r < length parts -> pbeg parts (S r) = pbeg parts r + nth r parts 0.
Proof.
  unfold pbeg. revert r; induction parts as [|p ps IH]; intros r H; simpl in H; [lia|].
  destruct r as [|r]; simpl; [lia|]. simpl in IH. rewrite IH by lia. lia.
Qed.

Lemma pbeg_all (parts : list nat) : pbeg parts (length parts) = psum parts.
Proof. unfold pbeg. rewrite firstn_all. reflexivity. Qed.

Lemma pbeg_le_psum (parts : list nat) r : pbeg parts r + nth r parts 0 <= psum parts.
Proof.
  unfold pbeg. revert r; induction parts as [|p ps IH]; intros [|r]; simpl; try lia.
  specialize (IH r). lia.
Qed.

(* ------------------------------------------------------------------ *)
(* Part 1: ownership                                                   *)
Lemma owner_from_spec (parts : list nat) : forall b c, b <= c < b + psum parts ->
  owner_from b parts c < length parts /\
  b + pbeg parts (owner_from b parts c) <= c < b + pbeg parts (owner_from b parts c) + nth (owner_from b parts c) parts 0.
Proof.
  induction parts as [|p ps IH]; intros b c H; simpl in *; [lia|].
  destruct (Nat.ltb_spec c (b + p)).
  - unfold pbeg; simpl. lia.
  - destruct (IH (b + p) c) as [H1 H2]; [lia|].
    split; [lia|]. unfold pbeg in *; simpl. lia.
Qed.

Lemma owner_spec (parts : list nat) c : c < psum parts ->
  owner parts c < length parts /\
  pbeg parts (owner parts c) <= c < pbeg parts (owner parts c) + nth (owner parts c) parts 0.
Proof. intro H. destruct (owner_from_spec parts 0 c) as [H1 H2]; [lia|]. split; [exact H1 | exact H2]. Qed.

Lemma owner_from_mono (parts : list nat) : forall b c c', c <= c' ->
  owner_from b parts c <= owner_from b parts c'.
Proof.
  induction parts as [|p ps IH]; intros b c c' H; simpl; [lia|].
  destruct (Nat.ltb_spec c (b + p)), (Nat.ltb_spec c' (b + p)); try lia.
  apply le_n_S. apply IH. exact H.
Qed.

(* a column inside rank q's range is owned by q, whatever empty ranks precede it *)
Lemma owner_from_unique (parts : list nat) : forall b c q, q < length parts ->
  b + pbeg parts q <= c < b + pbeg parts q + nth q parts 0 -> owner_from b parts c = q.
Proof.
  induction parts as [|p ps IH]; intros b c q Hq H; simpl in *; [lia|].
  destruct q as [|q].
  - unfold pbeg in H; simpl in H. destruct (Nat.ltb_spec c (b + p)); [reflexivity | lia].
  - unfold pbeg in H; simpl in H. destruct (Nat.ltb_spec c (b + p)); [lia|].
    f_equal. apply IH; [lia|]. unfold pbeg. lia.
Qed.

(* ------------------------------------------------------------------ *)
(* Part 2: sort_unique and the renumbering map (C11-A3)                *)
Lemma ins_u_In c l x : In x (ins_u c l) <-> x = c \/ In x l.
Proof.
  induction l as [|h t IH]; simpl.
  - intuition.
  - destruct (Nat.ltb_spec c h); simpl; [intuition|].
    destruct (Nat.eqb_spec c h); simpl.
    + subst. intuition.
    + rewrite IH. intuition.
Qed.

Lemma sort_unique_In l x : In x (sort_unique l) <-> In x l.
Proof.
  induction l as [|a l IH]; simpl; [reflexivity|].
  rewrite ins_u_In, IH. intuition.
Qed.

Lemma ins_u_sorted c l : StronglySorted lt l -> StronglySorted lt (ins_u c l).
Proof.
  induction 1 as [|h t Hs IH Hf]; simpl.
  - repeat constructor.
  - destruct (Nat.ltb_spec c h).
    + constructor; [constructor; assumption|]. constructor; [exact H|].
      eapply Forall_impl; [|exact Hf]. simpl; intros; lia.
    + destruct (Nat.eqb_spec c h); [constructor; assumption|].
      constructor; [exact IH|]. apply Forall_forall. intros x Hx.
      apply ins_u_In in Hx. destruct Hx as [->|Hx]; [lia|].
      rewrite Forall_forall in Hf. apply Hf. exact Hx.
Qed.

Lemma sort_unique_sorted l : StronglySorted lt (sort_unique l).
Proof. induction l; simpl; [constructor | apply ins_u_sorted; assumption]. Qed.

Lemma sorted_NoDup l : StronglySorted lt l -> NoDup l.
Proof.
  induction 1 as [|h t Hs IH Hf]; constructor; [|exact IH].
  intro Hin. rewrite Forall_forall in Hf. specialize (Hf _ Hin). lia.
Qed.

Lemma index_of_In c l : In c l -> index_of c l < length l /\ nth (index_of c l) l 0 = c.
Proof.
  induction l as [|h t IH]; simpl; [tauto|].
  intros [->|H].
  - rewrite Nat.eqb_refl. split; [lia | reflexivity].
  - destruct (Nat.eqb_spec h c); [split; [lia | assumption]|].
    destruct (IH H). split; [lia | assumption].
Qed.

Lemma index_of_notin c l : ~ In c l -> index_of c l = length l.
Proof.
  induction l as [|h t IH]; simpl; [reflexivity|]. intro H.
  destruct (Nat.eqb_spec h c); [tauto|]. f_equal. apply IH. tauto.
Qed.

Lemma index_of_nth l i : NoDup l -> i < length l -> index_of (nth i l 0) l = i.
Proof.
  revert i; induction l as [|h t IH]; intros i Hn Hi; simpl in *; [lia|].
  inversion Hn as [|? ? Hnotin Hn']; subst.
  destruct i as [|i].
  - rewrite Nat.eqb_refl. reflexivity.
  - destruct (Nat.eqb_spec h (nth i t 0)) as [E|E].
    + exfalso. apply Hnotin. rewrite E. apply nth_In. lia.
    + f_equal. apply IH; [assumption | lia].
Qed.

Lemma index_of_mono l c c' : StronglySorted lt l -> In c l -> In c' l -> c < c' ->
  index_of c l < index_of c' l.
Proof.
  induction 1 as [|h t Hs IH Hf]; simpl; [tauto|].
  intros Hc Hc' Hlt. rewrite Forall_forall in Hf.
  destruct (Nat.eqb_spec h c), (Nat.eqb_spec h c'); subst; try lia.
  - destruct Hc as [Hc|Hc]; [lia|]. specialize (Hf _ Hc). lia.
  - destruct Hc as [Hc|Hc]; [lia|]. destruct Hc' as [Hc'|Hc']; [lia|].
    apply ->Nat.succ_lt_mono. apply IH; assumption.
Qed.

(* ------------------------------------------------------------------ *)
(* Part 3: a list sorted by a key is cut by the per-key counts into its per-key classes *)
Section ByKey.
Variable key : nat -> nat.
Local Notation ksorted := (StronglySorted (fun x y => key x <= key y)).

Lemma sorted_split_key a l : ksorted l -> Forall (fun c => a <= key c) l ->
  l = filter (fun c => Nat.eqb (key c) a) l ++ filter (fun c => negb (Nat.eqb (key c) a)) l.
Proof.
  induction 1 as [|h t Hs IH Hf]; intro Hge; simpl; [reflexivity|].
  inversion Hge as [|? ? Hh Ht]; subst.
  destruct (Nat.eqb_spec (key h) a) as [E|E]; simpl.
  - f_equal. apply IH. exact Ht.
  - (* key h > a: nothing with key a follows *)
    assert (Hgt : forall x, In x t -> Nat.eqb (key x) a = false).
    { intros x Hx. rewrite Forall_forall in Hf. specialize (Hf _ Hx).
      destruct (Nat.eqb_spec (key x) a); [lia | reflexivity]. }
    rewrite (filter_none _ t) by exact Hgt. simpl. f_equal. symmetry.
    apply filter_all. intros x Hx. rewrite Hgt by exact Hx. reflexivity.
Qed.

Lemma class_of_rest a d l : d <> a ->
  filter (fun c => Nat.eqb (key c) d) (filter (fun c => negb (Nat.eqb (key c) a)) l)
  = filter (fun c => Nat.eqb (key c) d) l.
Proof.
  intro H. apply filter_filter_imp. intros x _ Hx.
  apply Nat.eqb_eq in Hx. destruct (Nat.eqb_spec (key x) a); [lia | reflexivity].
Qed.

Lemma chunks_by_key : forall n a l, ksorted l -> Forall (fun c => a <= key c < a + n) l ->
  chunks (map (fun d => length (filter (fun c => Nat.eqb (key c) d) l)) (seq a n)) l
  = map (fun d => filter (fun c => Nat.eqb (key c) d) l) (seq a n).
Proof.
  induction n as [|n IH]; intros a l Hs Hk; simpl; [reflexivity|].
  assert (Hge : Forall (fun c => a <= key c) l) by (eapply Forall_impl; [|exact Hk]; simpl; intros; lia).
  pose proof (sorted_split_key a l Hs Hge) as Hsplit.
  set (f := filter (fun c => Nat.eqb (key c) a) l) in *.
  set (g := filter (fun c => negb (Nat.eqb (key c) a)) l) in *.
  assert (Hf1 : firstn (length f) l = f) by (rewrite Hsplit at 1; apply firstn_length_app).
  assert (Hf2 : skipn (length f) l = g) by (rewrite Hsplit at 1; apply skipn_length_app).
  rewrite Hf1, Hf2. f_equal.
  assert (Hg : forall d, In d (seq (S a) n) -> filter (fun c => Nat.eqb (key c) d) g = filter (fun c => Nat.eqb (key c) d) l).
  { intros d Hd. apply in_seq in Hd. apply class_of_rest. lia. }
  rewrite (map_ext_in (fun d => length (filter (fun c => Nat.eqb (key c) d) l))
                      (fun d => length (filter (fun c => Nat.eqb (key c) d) g)))
    by (intros d Hd; rewrite Hg by exact Hd; reflexivity).
  rewrite IH.
  - apply map_ext_in. exact Hg.
  - apply StronglySorted_filter. exact Hs.
  - apply Forall_forall. intros x Hx. apply filter_In in Hx. destruct Hx as [Hx Hne].
    rewrite Forall_forall in Hk. specialize (Hk _ Hx).
    destruct (Nat.eqb_spec (key x) a); [discriminate | lia].
Qed.

Lemma concat_by_key : forall n a l, ksorted l -> Forall (fun c => a <= key c < a + n) l ->
  concat (map (fun d => filter (fun c => Nat.eqb (key c) d) l) (seq a n)) = l.
Proof.
  induction n as [|n IH]; intros a l Hs Hk; simpl.
  - destruct l as [|x l]; [reflexivity|]. inversion Hk; subst. lia.
  - assert (Hge : Forall (fun c => a <= key c) l) by (eapply Forall_impl; [|exact Hk]; simpl; intros; lia).
    pose proof (sorted_split_key a l Hs Hge) as Hsplit.
    set (g := filter (fun c => negb (Nat.eqb (key c) a)) l) in *.
    rewrite (map_ext_in (fun d => filter (fun c => Nat.eqb (key c) d) l)
                        (fun d => filter (fun c => Nat.eqb (key c) d) g)).
    + rewrite IH; [symmetry; exact Hsplit | apply StronglySorted_filter; exact Hs |].
      apply Forall_forall. intros x Hx. apply filter_In in Hx. destruct Hx as [Hx Hne].
      rewrite Forall_forall in Hk. specialize (Hk _ Hx).
      destruct (Nat.eqb_spec (key x) a); [discriminate | lia].
    + intros d Hd. apply in_seq in Hd. symmetry. apply class_of_rest. lia.
Qed.
End ByKey.

(* ------------------------------------------------------------------ *)
(* Part 4: the communication pattern and the ghost exchange            *)
Lemma flat_map_ext_in' {X Y} (f g : X -> list Y) (l : list X) :
  (forall x, In x l -> f x = g x) -> flat_map f l = flat_map g l.
Proof.
  induction l as [|a l IH]; intro H; simpl; [reflexivity|].
  rewrite (H a) by (simpl; auto). f_equal. apply IH. intros; apply H; simpl; auto.
Qed.

Lemma flat_map_nth_seq {X Y} (g : X -> Y) (T : list (list X)) :
  flat_map (fun q => map g (nth q T [])) (seq 0 (length T)) = map g (concat T).
Proof.
  rewrite flat_map_concat_map.
  rewrite <- (map_map (fun q => nth q T []) (map g)).
  rewrite map_nth_seq. symmetry. apply concat_map.
Qed.

Section Pattern.
Variable cparts : list nat.
Local Notation n := (length cparts).

(* what the constructor needs from a rank's remote column list: produced by sort+unique,
   every column inside the global column range *)
Definition rc_ok (rc : list nat) : Prop :=
  StronglySorted lt rc /\ Forall (fun c => c < psum cparts) rc.

Lemma owner_ksorted rc : StronglySorted lt rc ->
  StronglySorted (fun x y => owner cparts x <= owner cparts y) rc.
Proof.
  induction 1 as [|h t Hs IH Hf]; constructor; [exact IH|].
  eapply Forall_impl; [|exact Hf]. simpl. intros a Ha. apply owner_from_mono. lia.
Qed.

Lemma owner_bounds rc : rc_ok rc -> Forall (fun c => 0 <= owner cparts c < 0 + n) rc.
Proof.
  intros [_ H]. eapply Forall_impl; [|exact H]. simpl. intros c Hc.
  destruct (owner_spec cparts c Hc). lia.
Qed.

Lemma recv_table_spec rc : rc_ok rc ->
  recv_table cparts rc = map (fun d => filter (fun c => Nat.eqb (owner cparts c) d) rc) (seq 0 n).
Proof.
  intro H. unfold recv_table, rcounts.
  apply (chunks_by_key (owner cparts) n 0 rc); [apply owner_ksorted; apply H | apply owner_bounds; exact H].
Qed.

Lemma recv_table_length rc : length (recv_table cparts rc) = n.
Proof. unfold recv_table, rcounts. rewrite chunks_length, map_length, seq_length. reflexivity. Qed.

Lemma recv_table_concat rc : rc_ok rc -> concat (recv_table cparts rc) = rc.
Proof.
  intro H. rewrite recv_table_spec by exact H.
  apply (concat_by_key (owner cparts) n 0 rc); [apply owner_ksorted; apply H | apply owner_bounds; exact H].
Qed.

(* the slice of rank r's list addressed to q holds exactly r's remote columns owned by q *)
Lemma recv_table_owner rc q c : rc_ok rc -> q < n ->
  (In c (nth q (recv_table cparts rc) []) <-> In c rc /\ owner cparts c = q).
Proof.
  intros H Hq. rewrite recv_table_spec by exact H. rewrite nth_map_seq by exact Hq.
  rewrite filter_In, Nat.eqb_eq. reflexivity.
Qed.

Variable rcs : list (list nat).
Hypothesis rcs_len : length rcs = n.
Hypothesis rcs_ok : forall r, r < n -> rc_ok (nth r rcs []).
Local Notation pats := (comm_pattern cparts rcs).
Local Notation table r := (recv_table cparts (nth r rcs [])).

Lemma nth_pattern r : r < n ->
  nth r pats dflt_cpat =
  mkCpat (pbeg cparts r) (nth r rcs []) (table r)
         (map (fun d => map (fun c => c - pbeg cparts r) (nth r (table d) [])) (seq 0 n)).
Proof.
  intro Hr. unfold comm_pattern. rewrite nth_map_seq by exact Hr.
  f_equal.
  - apply (nth_map_lt (recv_table cparts) rcs r []). lia.
  - apply map_ext_in. intros d Hd. apply in_seq in Hd.
    rewrite (nth_map_lt (recv_table cparts) rcs d [] []) by lia. reflexivity.
Qed.

Lemma pattern_length : length pats = n.
Proof. unfold comm_pattern. rewrite map_length, seq_length. reflexivity. Qed.

(* C11-A3 (second half): mutual consistency.  What q sends to d is exactly the slice d
   expects from q -- same columns, same order -- in q's local numbering, and every such
   column lies in q's own range (so the gather indices are valid). *)
Lemma send_recv_consistent q d : q < n -> d < n ->
  nth d (cp_send (nth q pats dflt_cpat)) [] =
  map (fun c => c - pbeg cparts q) (nth q (cp_recv (nth d pats dflt_cpat)) []).
Proof.
  intros Hq Hd. rewrite (nth_pattern q Hq), (nth_pattern d Hd). simpl.
  rewrite nth_map_seq by exact Hd. reflexivity.
Qed.

Lemma recv_cols_owned q d c : q < n -> d < n ->
  In c (nth q (cp_recv (nth d pats dflt_cpat)) []) ->
  In c (cp_rc (nth d pats dflt_cpat)) /\
  pbeg cparts q <= c < pbeg cparts q + psize cparts q.
Proof.
  intros Hq Hd Hin. rewrite (nth_pattern d Hd) in *. simpl in *.
  apply recv_table_owner in Hin; [|apply rcs_ok; exact Hd | exact Hq].
  destruct Hin as [Hin Ho]. split; [exact Hin|].
  destruct (rcs_ok d Hd) as [_ Hb]. rewrite Forall_forall in Hb.
  destruct (owner_spec cparts c (Hb _ Hin)) as [_ H2]. rewrite Ho in H2. exact H2.
Qed.

(* every remote column is received exactly once, and the receive buffer is laid out in idx order *)
Lemma recv_concat r : r < n ->
  concat (cp_recv (nth r pats dflt_cpat)) = cp_rc (nth r pats dflt_cpat).
Proof.
  intro Hr. rewrite (nth_pattern r Hr). simpl. apply recv_table_concat. apply rcs_ok. exact Hr.
Qed.

End Pattern.

Lemma vget_chunk {S : Scalar} (cparts : list nat) (x : vec S) q c : q < length cparts ->
  pbeg cparts q <= c < pbeg cparts q + psize cparts q ->
  vget (nth q (chunks cparts x) []) (c - pbeg cparts q) = vget x c.
Proof.
  intros Hq Hc. unfold vget. rewrite nth_chunks by exact Hq.
  unfold psize in Hc. rewrite nth_firstn_lt by lia. rewrite nth_skipn_add. f_equal. lia.
Qed.

(* the ghost exchange delivers x[global column] for every remote column, in idx order *)
Section Exchange.
Context {S : Scalar}.
Local Notation vec := (vec S).
Variable cparts : list nat.
Local Notation n := (length cparts).
Variable rcs : list (list nat).
Hypothesis rcs_len : length rcs = n.
Hypothesis rcs_ok : forall r, r < n -> rc_ok cparts (nth r rcs []).

Theorem exchange_spec (x : vec) r : r < n ->
  exchange (comm_pattern cparts rcs) (chunks cparts x) r = map (fun c => vget x c) (nth r rcs []).
Proof.
  intro Hr. unfold exchange.
  set (pats := comm_pattern cparts rcs).
  assert (HT : cp_recv (nth r pats dflt_cpat) = recv_table cparts (nth r rcs []))
    by (unfold pats; rewrite (nth_pattern cparts rcs rcs_len r Hr); reflexivity).
  rewrite HT. unfold nbrs. rewrite recv_table_length.
  (* neighbours with an empty slice contribute nothing *)
  rewrite flat_map_filter_nil.
  2:{ intros q Hq Hnil. apply in_seq in Hq.
      unfold pats. rewrite (send_recv_consistent cparts rcs rcs_len q r) by lia.
      fold pats. rewrite HT.
      destruct (nth q (recv_table cparts (nth r rcs [])) []); [reflexivity | discriminate]. }
  rewrite (flat_map_ext_in' _ (fun q => map (fun c => vget x c) (nth q (recv_table cparts (nth r rcs [])) []))).
  - rewrite <- (recv_table_length cparts (nth r rcs [])) at 1.
    rewrite flat_map_nth_seq. rewrite recv_table_concat by (apply rcs_ok; exact Hr). reflexivity.
  - intros q Hq. apply in_seq in Hq.
    unfold pats. rewrite (send_recv_consistent cparts rcs rcs_len q r) by lia.
    fold pats. rewrite HT. unfold gather. rewrite map_map.
    apply map_ext_in. intros c Hc.
    apply vget_chunk; [lia|].
    assert (Hin : In c (nth q (cp_recv (nth r pats dflt_cpat)) [])) by (rewrite HT; exact Hc).
    apply (recv_cols_owned cparts rcs rcs_len rcs_ok q r c); [lia | exact Hr | exact Hin].
Qed.

End Exchange.

(* ------------------------------------------------------------------ *)
(* Part 5: map2 utilities and the kernels as row-wise maps             *)
Section Map2.
Context {A B C : Type}.

Lemma map2_ext_in (f g : A -> B -> C) l1 l2 :
  (forall a b, In a l1 -> f a b = g a b) -> map2 f l1 l2 = map2 g l1 l2.
Proof.
  revert l2; induction l1 as [|a l1 IH]; intros [|b l2] H; simpl; try reflexivity.
  rewrite (H a b) by (simpl; auto). f_equal. apply IH. intros; apply H; simpl; auto.
Qed.

Lemma map2_length (f : A -> B -> C) l1 l2 : length l1 = length l2 -> length (map2 f l1 l2) = length l1.
Proof.
  revert l2; induction l1 as [|a l1 IH]; intros [|b l2] H; simpl in *; try lia. f_equal. apply IH. lia.
Qed.

Lemma map2_firstn_skipn (f : A -> B -> C) p : forall l1 l2,
  map2 f (firstn p l1) (firstn p l2) ++ map2 f (skipn p l1) (skipn p l2) = map2 f l1 l2.
Proof.
  induction p as [|p IH]; intros l1 l2; simpl; [reflexivity|].
  destruct l1 as [|a l1], l2 as [|b l2]; simpl; try reflexivity.
  - destruct (skipn p l1); reflexivity.
  - f_equal. apply IH.
Qed.

Lemma concat_map2_chunks (f : A -> B -> C) (parts : list nat) : forall l1 l2,
  length l1 <= psum parts ->
  concat (map2 (map2 f) (chunks parts l1) (chunks parts l2)) = map2 f l1 l2.
Proof.
  induction parts as [|p ps IH]; intros l1 l2 H; simpl in *.
  - destruct l1; simpl in *; [reflexivity | lia].
  - rewrite IH by (rewrite skipn_length; lia). apply map2_firstn_skipn.
Qed.

Lemma map_seq_nth2 {D} (F : A -> B -> D) (L1 : list A) (L2 : list B) d1 d2 n :
  length L1 = n -> length L2 = n ->
  map (fun r => F (nth r L1 d1) (nth r L2 d2)) (seq 0 n) = map2 F L1 L2.
Proof.
  revert L2 n; induction L1 as [|a L1 IH]; intros [|b L2] n H1 H2; simpl in *; subst; try discriminate; try reflexivity.
  simpl. f_equal. rewrite <- seq_shift, map_map. apply IH; [reflexivity | lia].
Qed.
End Map2.

Lemma map2_map_fuse {A B C D E} (F : C -> D -> E) (G : B -> A -> D) (h1 : B -> C) (h2 : B -> B) (l : list B) (y : list A) :
  map2 F (map h1 l) (map2 G (map h2 l) y) = map2 (fun r yi => F (h1 r) (G (h2 r) yi)) l y.
Proof.
  revert y; induction l as [|a l IH]; intros [|b y]; simpl; try reflexivity. f_equal. apply IH.
Qed.

Lemma map2_map_l {A B C D} (F : C -> B -> D) (h : A -> C) (l : list A) (y : list B) :
  map2 F (map h l) y = map2 (fun a b => F (h a) b) l y.
Proof.
  revert y; induction l as [|a l IH]; intros [|b y]; simpl; try reflexivity. f_equal. apply IH.
Qed.

Section DistRing.
Context {S : Scalar}.
Local Notation vec := (vec S).
Local Notation row := (row S).
Local Notation crs := (crs S).
Hypothesis Srt : Sring S.
Hypothesis Seqb : seqb_spec S.
Add Ring SRingDist : Srt.
Local Open Scope S_scope.

Lemma upd2_map2 {R} (f : S -> S -> S) (g : R -> S) (l : list R) (y : vec) : length y = length l ->
  upd2 f (map g l) y = map2 (fun r yi => f (g r) yi) l y.
Proof.
  revert y; induction l as [|a l IH]; intros [|b y] H; simpl in *; try lia; try reflexivity.
  f_equal. apply IH. lia.
Qed.

Lemma upd3_map2 {R} (f : S -> S -> S) (g : R -> S) (l : list R) (y z : vec) :
  length y = length l -> length z = length l ->
  upd3 (fun s yi _ => f s yi) (map g l) y z = map2 (fun r yi => f (g r) yi) l y.
Proof.
  revert y z; induction l as [|a l IH]; intros [|b y] [|c z] H1 H2; simpl in *; try lia; try reflexivity.
  f_equal. apply IH; lia.
Qed.

Lemma spmv_map2 alpha (A : crs) (x : vec) beta (y : vec) : length y = nrows A ->
  spmv alpha A x beta y = map2 (fun r yi => alpha * dotrow r x + beta * yi) (rows A) y.
Proof.
  intro H. unfold spmv. destruct (is_zero beta) eqn:Hb.
  - rewrite upd2_map2 by exact H. apply map2_ext_in. intros a b _.
    apply (is_zero_true Seqb) in Hb. subst beta. ring.
  - rewrite upd2_map2 by exact H. reflexivity.
Qed.

Lemma residual_map2 (f : vec) (A : crs) (x res : vec) : length f = nrows A -> length res = nrows A ->
  residual f A x res = map2 (fun r fi => fi - dotrow r x) (rows A) f.
Proof.
  intros H1 H2. unfold residual.
  rewrite (upd3_map2 (fun s fi => fi - s)) by assumption. reflexivity.
Qed.

(* ---- one row: local + remote parts ---- *)
Lemma dotrow_nil (x : vec) : dotrow (@nil (nat * S)) x = s0.
Proof. reflexivity. Qed.

Lemma dotrow_filter_split (p : nat * S -> bool) (r : row) (x : vec) :
  dotrow r x = dotrow (filter p r) x + dotrow (filter (fun e => negb (p e)) r) x.
Proof.
  induction r as [|e r IH]; simpl.
  - rewrite dotrow_nil. ring.
  - rewrite (dotrow_cons Srt). destruct (p e); simpl; rewrite (dotrow_cons Srt), IH; ring.
Qed.

Lemma dotrow_reindex (f : nat -> nat) (l : row) (x x' : vec) :
  (forall e, In e l -> vget x' (f (fst e)) = vget x (fst e)) ->
  dotrow (map (fun e => (f (fst e), snd e)) l) x' = dotrow l x.
Proof.
  induction l as [|e l IH]; intro H; simpl; [reflexivity|].
  rewrite !(dotrow_cons Srt). simpl. rewrite (H e) by (simpl; auto).
  rewrite IH by (intros; apply H; simpl; auto). reflexivity.
Qed.

Lemma vget_ghost (x : vec) (rc : list nat) c : In c rc ->
  vget (map (fun c => vget x c) rc) (index_of c rc) = vget x c.
Proof.
  intro H. destruct (index_of_In c rc H) as [H1 H2].
  unfold vget at 1. rewrite (nth_map_lt (fun c => vget x c) rc _ 0%nat) by exact H1.
  rewrite H2. reflexivity.
Qed.

(* the key row identity: local part on the local slice + renumbered remote part on the ghost
   values = the whole row on the global vector *)
Lemma row_split_dot (b p : nat) (rw : row) (x xl : vec) (rc : list nat) :
  (forall c, (b <= c < b + p)%nat -> vget xl (c - b) = vget x c) ->
  (forall e, In e (rem_row b p rw) -> In (fst e) rc) ->
  dotrow (loc_row b p rw) xl
  + dotrow (map (fun e => (index_of (fst e) rc, snd e)) (rem_row b p rw)) (map (fun c => vget x c) rc)
  = dotrow rw x.
Proof.
  intros Hloc Hrem.
  rewrite (dotrow_filter_split (fun e => in_range b p (fst e)) rw x).
  f_equal.
  - unfold loc_row. apply (dotrow_reindex (fun c => (c - b)%nat)).
    intros e He. apply filter_In in He. destruct He as [_ He].
    unfold in_range in He. apply andb_prop in He. destruct He as [H1 H2].
    apply Nat.leb_le in H1. apply Nat.ltb_lt in H2. apply Hloc. lia.
  - unfold rem_row in *. apply (dotrow_reindex (fun c => index_of c rc)).
    intros e He. apply vget_ghost. apply Hrem. exact He.
Qed.

(* ---- one rank ---- *)
Lemma rem_cols_In (b p gc : nat) (rws : list row) (rw : row) e :
  In rw rws -> In e (rem_row b p rw) -> In (fst e) (rem_cols (split_rows b p gc rws)).
Proof.
  intros H1 H2. unfold rem_cols, split_rows. simpl. apply sort_unique_In.
  apply in_flat_map. exists (rem_row b p rw). split; [apply in_map; exact H1 | apply in_map; exact H2].
Qed.

Lemma rank_spmv_spec alpha (b p gc : nat) (rws : list row) (x xl : vec) beta (yl : vec) :
  let M := split_rows b p gc rws in
  (forall c, (b <= c < b + p)%nat -> vget xl (c - b) = vget x c) ->
  length yl = length rws ->
  rank_spmv alpha M (rem_cols M) (map (fun c => vget x c) (rem_cols M)) xl beta yl
  = map2 (fun rw yi => alpha * dotrow rw x + beta * yi) rws yl.
Proof.
  intros M Hloc Hlen. unfold rank_spmv.
  assert (Hl1 : length yl = nrows (rm_loc M)) by (unfold M, split_rows, nrows; simpl; rewrite map_length; exact Hlen).
  rewrite (spmv_map2 alpha (rm_loc M)) by exact Hl1.
  destruct (is_nil (rem_cols M)) eqn:Hnil.
  - (* no remote column at all: every remote part is empty *)
    assert (Hrows : forall rw, In rw rws -> rem_row b p rw = []).
    { intros rw Hrw. destruct (rem_row b p rw) as [|e t] eqn:E; [reflexivity|].
      exfalso. pose proof (rem_cols_In b p gc rws rw e Hrw) as HIn.
      rewrite E in HIn. specialize (HIn (or_introl eq_refl)).
      fold M in HIn. destruct (rem_cols M); [inversion HIn | discriminate]. }
    unfold M, split_rows. simpl. rewrite map2_map_l.
    apply map2_ext_in. intros rw yi Hrw.
    pose proof (row_split_dot b p rw x xl [] Hloc) as Hd.
    rewrite (Hrows rw Hrw) in Hd. simpl in Hd.
    rewrite <- Hd by (intros e []). rewrite dotrow_nil. ring.
  - set (rc := rem_cols M) in *.
    assert (Hl2 : length (map2 (fun r yi => alpha * dotrow r xl + beta * yi) (rows (rm_loc M)) yl)
                  = nrows (renumber rc (rm_rem M))).
    { rewrite map2_length; unfold M, split_rows, renumber, nrows; simpl; rewrite !map_length; [reflexivity | lia]. }
    rewrite (spmv_map2 alpha (renumber rc (rm_rem M))) by exact Hl2.
    unfold M, split_rows, renumber. simpl. rewrite map_map.
    rewrite map2_map_fuse.
    apply map2_ext_in. intros rw yi Hrw.
    rewrite <- (row_split_dot b p rw x xl rc Hloc).
    + ring.
    + intros e He. unfold rc, M. apply (rem_cols_In b p gc rws rw e Hrw He).
Qed.


Lemma rank_residual_spec (b p gc : nat) (rws : list row) (x xl fl resl : vec) :
  let M := split_rows b p gc rws in
  (forall c, (b <= c < b + p)%nat -> vget xl (c - b) = vget x c) ->
  length fl = length rws -> length resl = length rws ->
  rank_residual fl M (rem_cols M) (map (fun c => vget x c) (rem_cols M)) xl resl
  = map2 (fun rw fi => fi - dotrow rw x) rws fl.
Proof.
  intros M Hloc Hlen Hlen2. unfold rank_residual.
  assert (Hl1 : length fl = nrows (rm_loc M)) by (unfold M, split_rows, nrows; simpl; rewrite map_length; exact Hlen).
  assert (Hl1' : length resl = nrows (rm_loc M)) by (unfold M, split_rows, nrows; simpl; rewrite map_length; exact Hlen2).
  rewrite (residual_map2 fl (rm_loc M)) by assumption.
  destruct (is_nil (rem_cols M)) eqn:Hnil.
  - assert (Hrows : forall rw, In rw rws -> rem_row b p rw = []).
    { intros rw Hrw. destruct (rem_row b p rw) as [|e t] eqn:E; [reflexivity|].
      exfalso. pose proof (rem_cols_In b p gc rws rw e Hrw) as HIn.
      rewrite E in HIn. specialize (HIn (or_introl eq_refl)).
      fold M in HIn. destruct (rem_cols M); [inversion HIn | discriminate]. }
    unfold M, split_rows. simpl. rewrite map2_map_l.
    apply map2_ext_in. intros rw fi Hrw.
    pose proof (row_split_dot b p rw x xl [] Hloc) as Hd.
    rewrite (Hrows rw Hrw) in Hd. simpl in Hd.
    rewrite <- Hd by (intros e []). rewrite dotrow_nil. ring.
  - set (rc := rem_cols M) in *.
    assert (Hl2 : length (map2 (fun r fi => fi - dotrow r xl) (rows (rm_loc M)) fl)
                  = nrows (renumber rc (rm_rem M))).
    { rewrite map2_length; unfold M, split_rows, renumber, nrows; simpl; rewrite !map_length; [reflexivity | lia]. }
    rewrite (spmv_map2 (- s1) (renumber rc (rm_rem M))) by exact Hl2.
    unfold M, split_rows, renumber. simpl. rewrite map_map.
    rewrite map2_map_fuse.
    apply map2_ext_in. intros rw fi Hrw.
    rewrite <- (row_split_dot b p rw x xl rc Hloc).
    + ring.
    + intros e He. unfold rc, M. apply (rem_cols_In b p gc rws rw e Hrw He).
Qed.

(* ---- the whole world ---- *)
Lemma in_firstn' {X} (a : X) n l : In a (firstn n l) -> In a l.
Proof. revert l; induction n as [|n IH]; intros [|h t]; simpl; try tauto. intros [->|H]; auto. Qed.
Lemma in_skipn' {X} (a : X) n l : In a (skipn n l) -> In a l.
Proof. revert l; induction n as [|n IH]; intros [|h t]; simpl; try tauto. intro H; right; auto. Qed.
Lemma in_nth_chunks {X} (a : X) parts r l : (r < length parts)%nat -> In a (nth r (chunks parts l) []) -> In a l.
Proof. intros Hr H. rewrite nth_chunks in H by exact Hr. apply in_firstn' in H. apply in_skipn' in H. exact H. Qed.

Lemma chunk_lengths_eq {X Y} parts r (l1 : list X) (l2 : list Y) : (r < length parts)%nat -> length l1 = length l2 ->
  length (nth r (chunks parts l1) []) = length (nth r (chunks parts l2) []).
Proof.
  intros Hr H. rewrite !nth_chunks by exact Hr. rewrite !firstn_length, !skipn_length, H. reflexivity.
Qed.

Section World.
Variable A : crs.
Variables rparts cparts : list nat.
Hypothesis Hparts : length rparts = length cparts.
Hypothesis Hrows : psum rparts = nrows A.
Hypothesis Hcols : psum cparts = ncols A.
Hypothesis Hwf : wf A = true.
Local Notation n := (length cparts).
Local Notation D := (split A rparts cparts).
Local Notation rcs := (map rem_cols (dm_ranks D)).

Lemma nth_rank r : (r < n)%nat -> nth r (dm_ranks D) dflt_rank = split_rank A rparts cparts r.
Proof. intro H. unfold split. simpl. apply nth_map_seq. exact H. Qed.

Lemma nth_rcs r : (r < n)%nat -> nth r rcs [] = rem_cols (split_rank A rparts cparts r).
Proof.
  intro H. rewrite (nth_map_lt rem_cols (dm_ranks D) r dflt_rank []).
  - rewrite nth_rank by exact H. reflexivity.
  - unfold split; simpl. rewrite map_length, seq_length. exact H.
Qed.

Lemma rcs_len : length rcs = n.
Proof. unfold split; simpl. rewrite !map_length, seq_length. reflexivity. Qed.

Lemma rcs_ok r : (r < n)%nat -> rc_ok cparts (nth r rcs []).
Proof.
  intro H. rewrite nth_rcs by exact H. split.
  - apply sort_unique_sorted.
  - apply Forall_forall. intros c Hc. unfold rem_cols in Hc. rewrite sort_unique_In in Hc.
    apply in_flat_map in Hc. destruct Hc as [rr [Hrr Hc]].
    unfold split_rank, split_rows in Hrr. simpl in Hrr.
    apply in_map_iff in Hrr. destruct Hrr as [rw [<- Hrw]].
    apply in_map_iff in Hc. destruct Hc as [e [<- He]].
    unfold rem_row in He. apply filter_In in He. destruct He as [He _].
    apply in_nth_chunks in Hrw; [|lia].
    unfold wf in Hwf. rewrite forallb_forall in Hwf. specialize (Hwf _ Hrw).
    unfold row_wf in Hwf. rewrite forallb_forall in Hwf. specialize (Hwf _ He).
    apply Nat.ltb_lt in Hwf. lia.
Qed.

Lemma cp_rc_nth r : (r < n)%nat -> cp_rc (nth r (dm_pattern D) dflt_cpat) = nth r rcs [].
Proof.
  intro H. unfold dm_pattern. change (dm_cparts D) with cparts.
  rewrite (nth_pattern cparts rcs rcs_len r H). reflexivity.
Qed.

(* rank by rank: every rank's result is the serial row formula on its own rows *)
Lemma dist_spmv_pieces alpha (x : vec) beta (y : vec) : length y = nrows A ->
  dist_spmv alpha D (chunks cparts x) beta (chunks rparts y)
  = map2 (map2 (fun rw yi => alpha * dotrow rw x + beta * yi)) (chunks rparts (rows A)) (chunks rparts y).
Proof.
  intro Hy. unfold dist_spmv. change (dm_cparts D) with cparts.
  rewrite (map_ext_in _ (fun r => map2 (fun rw yi => alpha * dotrow rw x + beta * yi)
                                       (nth r (chunks rparts (rows A)) []) (nth r (chunks rparts y) []))).
  - apply (map_seq_nth2 (map2 (fun rw yi => alpha * dotrow rw x + beta * yi))
                        (chunks rparts (rows A)) (chunks rparts y) [] [] n);
      rewrite chunks_length; exact Hparts.
  - intros r Hr. apply in_seq in Hr. destruct Hr as [_ Hr]. simpl in Hr.
    rewrite cp_rc_nth by exact Hr. rewrite nth_rank by exact Hr. rewrite nth_rcs by exact Hr.
    unfold dm_pattern. change (dm_cparts D) with cparts.
    rewrite (exchange_spec cparts rcs rcs_len rcs_ok x r Hr).
    rewrite nth_rcs by exact Hr.
    unfold split_rank.
    apply (rank_spmv_spec alpha (pbeg cparts r) (psize cparts r) (ncols A)
                          (nth r (chunks rparts (rows A)) []) x (nth r (chunks cparts x) []) beta
                          (nth r (chunks rparts y) [])).
    + intros c Hc. apply vget_chunk; assumption.
    + apply chunk_lengths_eq; [lia | exact Hy].
Qed.

Theorem dist_spmv_assembled alpha (x : vec) beta (y : vec) : length y = nrows A ->
  concat (dist_spmv alpha D (chunks cparts x) beta (chunks rparts y)) = spmv alpha A x beta y.
Proof.
  intro Hy. rewrite dist_spmv_pieces by exact Hy.
  rewrite concat_map2_chunks by (unfold nrows in Hrows; lia).
  symmetry. apply spmv_map2. exact Hy.
Qed.

(* every rank's piece has the size of the rank's row range *)
Lemma dist_spmv_shape alpha (x : vec) beta (y : vec) : length y = nrows A ->
  map (@length S) (dist_spmv alpha D (chunks cparts x) beta (chunks rparts y)) = rparts.
Proof.
  intro Hy. rewrite dist_spmv_pieces by exact Hy.
  assert (G : forall parts (l1 : list row) (l2 : vec), length l1 = length l2 -> psum parts = length l1 ->
              map (@length S) (map2 (map2 (fun rw yi => alpha * dotrow rw x + beta * yi)) (chunks parts l1) (chunks parts l2)) = parts).
  { clear. induction parts as [|p ps IH]; intros l1 l2 H1 H2; simpl in *; [reflexivity|].
    f_equal.
    - rewrite map2_length by (rewrite !firstn_length, H1; reflexivity). rewrite firstn_length. lia.
    - apply IH; rewrite !skipn_length; lia. }
  apply G; [unfold nrows in Hy; lia | exact Hrows].
Qed.

Theorem dist_residual_assembled (f x res : vec) : length f = nrows A -> length res = nrows A ->
  concat (dist_residual (chunks rparts f) D (chunks cparts x) (chunks rparts res)) = residual f A x res.
Proof.
  intros Hf Hres. unfold dist_residual. change (dm_cparts D) with cparts.
  rewrite (map_ext_in _ (fun r => map2 (fun rw fi => fi - dotrow rw x)
                                       (nth r (chunks rparts (rows A)) []) (nth r (chunks rparts f) []))).
  - rewrite (map_seq_nth2 (map2 (fun rw fi => fi - dotrow rw x))
                          (chunks rparts (rows A)) (chunks rparts f) [] [] n)
      by (rewrite chunks_length; exact Hparts).
    rewrite concat_map2_chunks by (unfold nrows in Hrows; lia).
    symmetry. apply residual_map2; assumption.
  - intros r Hr. apply in_seq in Hr. destruct Hr as [_ Hr]. simpl in Hr.
    rewrite cp_rc_nth by exact Hr. rewrite nth_rank by exact Hr. rewrite nth_rcs by exact Hr.
    unfold dm_pattern. change (dm_cparts D) with cparts.
    rewrite (exchange_spec cparts rcs rcs_len rcs_ok x r Hr).
    rewrite nth_rcs by exact Hr.
    unfold split_rank.
    apply (rank_residual_spec (pbeg cparts r) (psize cparts r) (ncols A)
                              (nth r (chunks rparts (rows A)) []) x (nth r (chunks cparts x) [])
                              (nth r (chunks rparts f) []) (nth r (chunks rparts res) [])).
    + intros c Hc. apply vget_chunk; assumption.
    + apply chunk_lengths_eq; [lia | exact Hf].
    + apply chunk_lengths_eq; [lia | exact Hres].
Qed.
End World.

End DistRing.

(* ------------------------------------------------------------------ *)
(* Part 6: collectives (C11-A2)                                        *)
Section CollectiveAny.
Context {S : Scalar}.
Local Notation vec := (vec S).

Lemma map_const {X Y} (v : Y) (l : list X) : map (fun _ => v) l = repeat v (length l).
Proof. induction l; simpl; [reflexivity | f_equal; assumption]. Qed.

(* whatever the scalar type (floats with NaN included): every rank holds the same value *)
Theorem dist_inner_product_same_everywhere (xs ys : list vec) :
  dist_inner_product xs ys =
  repeat (vsum (map2 inner_product_serial xs ys)) (length (map2 inner_product_serial xs ys)).
Proof. unfold dist_inner_product, allreduce_sum. apply map_const. Qed.

Lemma map2_triple_repeat (a b c : nat) : forall n1 n2 n3,
  map2 (fun (rc : nat * nat) z => (fst rc, snd rc, z)) (combine (repeat a n1) (repeat b n2)) (repeat c n3)
  = repeat (a, b, c) (Nat.min (Nat.min n1 n2) n3).
Proof. induction n1 as [|n1 IH]; intros [|n2] [|n3]; simpl; try reflexivity. f_equal. apply IH. Qed.

Theorem dist_glob_sizes_same_everywhere (D : dmat S) i j d :
  i < length (dist_glob_sizes D) -> j < length (dist_glob_sizes D) ->
  nth i (dist_glob_sizes D) d = nth j (dist_glob_sizes D) d.
Proof.
  unfold dist_glob_sizes, allreduce_nat. rewrite !map_const, map2_triple_repeat.
  intros Hi Hj. rewrite repeat_length in Hi, Hj.
  rewrite !(nth_indep _ d (psum (map (fun M => nrows (rm_loc M)) (dm_ranks D)),
                           psum (map (fun M => ncols (rm_loc M)) (dm_ranks D)),
                           psum (map rank_nnz (dm_ranks D)))) by (rewrite repeat_length; assumption).
  rewrite !nth_repeat. reflexivity.
Qed.
End CollectiveAny.

Section CollectiveRing.
Context {S : Scalar}.
Local Notation vec := (vec S).
Hypothesis Srt : Sring S.
Add Ring SRingColl : Srt.
Local Open Scope S_scope.

Lemma dot_app (x1 x2 y1 y2 : vec) : length x1 = length y1 ->
  dot (x1 ++ x2) (y1 ++ y2) = dot x1 y1 + dot x2 y2.
Proof.
  revert y1; induction x1 as [|a x1 IH]; intros [|b y1] H; simpl in *; try lia.
  - ring.
  - rewrite IH by lia. ring.
Qed.

Lemma vsum_cons (a : S) (l : vec) : vsum (a :: l) = a + vsum l.
Proof. unfold vsum at 1. simpl. rewrite (vsum_acc Srt). ring. Qed.

Theorem dist_inner_product_serial (xs ys : list vec) :
  Forall2 (fun x y => length x = length y) xs ys ->
  dist_inner_product xs ys = repeat (inner_product_serial (concat xs) (concat ys)) (length xs).
Proof.
  intro H. rewrite dist_inner_product_same_everywhere.
  assert (E : vsum (map2 inner_product_serial xs ys) = dot (concat xs) (concat ys)
              /\ length (map2 inner_product_serial xs ys) = length xs).
  { induction H as [|x y xs ys Hxy HF [IH1 IH2]]; simpl.
    - split; reflexivity.
    - split; [|f_equal; exact IH2].
      rewrite vsum_cons, IH1, (inner_product_serial_spec Srt), dot_app by exact Hxy. reflexivity. }
  destruct E as [E1 E2]. rewrite E1, E2, (inner_product_serial_spec Srt). reflexivity.
Qed.

(* the same for a global pair of vectors cut along any contiguous partition *)
Lemma Forall2_chunks {X Y} (parts : list nat) : forall (l1 : list X) (l2 : list Y), length l1 = length l2 ->
  Forall2 (fun a b => length a = length b) (chunks parts l1) (chunks parts l2).
Proof.
  induction parts as [|p ps IH]; intros l1 l2 H; simpl; constructor.
  - rewrite !firstn_length, H. reflexivity.
  - apply IH. rewrite !skipn_length, H. reflexivity.
Qed.

Theorem dist_inner_product_partition (parts : list nat) (x y : vec) :
  length x = length y -> (length x <= psum parts)%nat ->
  dist_inner_product (chunks parts x) (chunks parts y) = repeat (inner_product_serial x y) (length parts).
Proof.
  intros H1 H2. rewrite dist_inner_product_serial by (apply Forall2_chunks; exact H1).
  rewrite !concat_chunks by lia. f_equal. apply chunks_length.
Qed.
End CollectiveRing.

(* ------------------------------------------------------------------ *)
(* Part 7: the renumbering map (C11-A3, first half)                    *)
Section Renumber.
Context {S : Scalar}.

Lemma rem_cols_spec (M : rank_mat S) c :
  In c (rem_cols M) <-> exists rw e, In rw (rows (rm_rem M)) /\ In e rw /\ fst e = c.
Proof.
  unfold rem_cols. rewrite sort_unique_In, in_flat_map. split.
  - intros [rw [H1 H2]]. apply in_map_iff in H2. destruct H2 as [e [H2 H3]]. exists rw, e. auto.
  - intros [rw [e [H1 [H2 H3]]]]. exists rw. split; [exact H1|]. apply in_map_iff. exists e. auto.
Qed.

Lemma renumber_wf (M : rank_mat S) : wf (renumber (rem_cols M) (rm_rem M)) = true.
Proof.
  unfold wf, renumber. simpl. apply forallb_forall. intros rr Hrr.
  apply in_map_iff in Hrr. destruct Hrr as [rw [<- Hrw]].
  unfold row_wf. apply forallb_forall. intros e' He'.
  apply in_map_iff in He'. destruct He' as [e [<- He]]. simpl.
  apply Nat.ltb_lt. apply index_of_In. apply rem_cols_spec. exists rw, e. auto.
Qed.
End Renumber.
