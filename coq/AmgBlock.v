(* AmgBlock.v -- property C03 stated on a DUMPED hierarchy (the specification-level oracle).

   The tie for block value types (static_matrix<T,b,b>) and for the coarsening wrappers
   (coarsening::as_scalar, runtime::coarsening::wrapper) dumps every level of the
   implementation's hierarchy expanded to scalar CRS (block (i,c) -> rows i*b+r, columns
   c*b+s).  On expanded matrices the block statements are the scalar statements:
     block product          = product of the expanded matrices   (a block product is a sum of
                              cell products; exact arithmetic; nothing is reordered across entries)
     block adjoint          = transpose of the expanded matrix (cell-wise adjoint)
     scale by a scalar      = scale of the expanded matrix
     block rows <= k        <-> expanded rows <= k*b
   so the oracle below is the C03 statement itself, read entry by entry, with every size
   parameter given in expanded units.  Definitions only; proofs: AmgBlockProofs.v. *)
From Amgcl Require Import Scalar Vec Crs Kernels MatOps Amg AmgExec.
Local Open Scope S_scope.

Section AmgBlock.
Context {S : Scalar}.
Local Notation vec := (vec S).
Local Notation crs := (crs S).

Definition all_entries (n m : nat) (p : nat -> nat -> bool) : bool :=
  forallb (fun i => forallb (fun j => p i j) (seq 0 m)) (seq 0 n).

(* (R (A P))_{ij}, the right-hand side of C03_galerkin_dense *)
Definition triple_entry (A P R : crs) (i j : nat) : S :=
  sumn (fun k => mget R i k * sumn (fun l => mget A k l * mget P l j) (ncols A)) (ncols R).
Definition scaled_entry (sc : option S) (x : S) : S :=
  match sc with Some s => x * s | None => x end.

(* "the next-level matrix equals R*A*P (times s = 1/over_interp for plain aggregation)" *)
Definition galerkin_spec_ok (sc : option S) (A P R An : crs) : bool :=
  Nat.eqb (nrows An) (nrows R) && Nat.eqb (ncols An) (ncols P) &&
  all_entries (nrows R) (ncols P)
    (fun i j => seqb (mget An i j) (scaled_entry sc (triple_entry A P R i j))).

(* "R is the adjoint of P" *)
Definition adjoint_spec_ok (P R : crs) : bool :=
  Nat.eqb (nrows R) (ncols P) && Nat.eqb (ncols R) (nrows P) &&
  all_entries (nrows P) (ncols P) (fun i j => seqb (mget R j i) (sadj (mget P i j))).

(* shapes of one level *)
Definition shape_spec_ok (A P R : crs) : bool :=
  Nat.eqb (ncols A) (nrows A) && Nat.eqb (nrows P) (nrows A) && Nat.eqb (ncols R) (nrows A) &&
  Nat.eqb (nrows R) (ncols P).

(* stored form: every row sorted by column, no duplicate column, columns in range *)
Fixpoint sorted_strict_row (r : row S) : bool :=
  match r with
  | [] => true
  | e :: tl => match tl with
               | [] => true
               | f :: _ => Nat.ltb (fst e) (fst f) && sorted_strict_row tl
               end
  end.
Definition stored_ok (A : crs) : bool := wf A && forallb sorted_strict_row (rows A).

(* what a dump shows of a level: the matrix of a direct-solver level is visible only in a
   single-level hierarchy (amg.hpp create_coarse keeps A only then) *)
Inductive dlevel :=
| DMid (A P R : crs)
| DLast (A : crs)
| DSolve (A : option crs).

Definition dl_A (d : dlevel) : option crs :=
  match d with DMid A _ _ => Some A | DLast A => Some A | DSolve o => o end.

Definition show_ldesc (single : bool) (l : ldesc) : dlevel :=
  match l with
  | LMid A P R => DMid A P R
  | LLast A => DLast A
  | LSolve A => DSolve (if single then Some A else None)
  end.
Definition show_hier (ls : list (@ldesc S)) : list dlevel :=
  map (show_ldesc (Nat.eqb (length ls) 1)) ls.

(* the whole statement on a dump; ce = coarse_enough in expanded rows, adj = the coarsening
   promises R = adjoint P (aggregation, smoothed aggregation, Ruge-Stuben) *)
Fixpoint dump_ok (ce : nat) (dc adj : bool) (sc : option S) (ds : list dlevel) : bool :=
  match ds with
  | [] => false
  | d :: tl =>
    match tl with
    | [] =>
      match d with
      | DMid _ _ _ => false
      | DLast A => stored_ok A && Nat.eqb (ncols A) (nrows A) &&
                   (negb (Nat.leb (nrows A) ce) || negb dc)
      | DSolve o => dc && match o with
                          | Some A => stored_ok A && Nat.eqb (ncols A) (nrows A) && Nat.leb (nrows A) ce
                          | None => true
                          end
      end
    | next :: _ =>
      match d with
      | DMid A P R =>
        stored_ok A && stored_ok P && stored_ok R && shape_spec_ok A P R &&
        negb (Nat.leb (nrows A) ce) &&
        (negb adj || adjoint_spec_ok P R) &&
        match dl_A next with
        | Some An => galerkin_spec_ok sc A P R An
        | None => Nat.leb (ncols P) ce        (* hidden direct-solver level: its size is P's column count *)
        end &&
        dump_ok ce dc adj sc tl
      | _ => false
      end
    end
  end.

(* "level sizes strictly decrease": a separate clause (it is a property of the coarsening, not of
   the hierarchy construction) *)
Definition decrease_ok (ds : list dlevel) : bool :=
  forallb (fun d => match d with DMid A P _ => Nat.ltb (ncols P) (nrows A) | _ => true end) ds.

Definition levels_ok (ml : nat) (ds : list dlevel) : bool := Nat.leb (length ds) (Nat.max ml 1).

(* rebuild keeps the transfer operators: the transfer operators of two dumps agree *)
Definition crs_same (A B : crs) : bool :=
  Nat.eqb (ncols A) (ncols B) && Nat.eqb (nrows A) (nrows B) &&
  forallb (fun rr => Nat.eqb (length (fst rr)) (length (snd rr)) &&
                     forallb (fun ee => Nat.eqb (fst (fst ee)) (fst (snd ee)) && seqb (snd (fst ee)) (snd (snd ee)))
                             (combine (fst rr) (snd rr)))
          (combine (rows A) (rows B)).
Fixpoint same_transfers (d1 d2 : list dlevel) : bool :=
  match d1, d2 with
  | [], [] => true
  | DMid _ P R :: t1, DMid _ P' R' :: t2 => crs_same P P' && crs_same R R' && same_transfers t1 t2
  | DLast _ :: t1, DLast _ :: t2 => same_transfers t1 t2
  | DSolve _ :: t1, DSolve _ :: t2 => same_transfers t1 t2
  | _, _ => false
  end.

(* the direct solver of the last level solves with the Galerkin matrix: X (given densely, one
   row per list element) is the inverse of Ac *)
Definition inverse_spec_ok (Ac : crs) (X : list vec) : bool :=
  let n := nrows Ac in
  Nat.eqb (length X) n && forallb (fun r => Nat.eqb (length r) n) X &&
  all_entries n n (fun i j =>
    seqb (sumn (fun k => mget Ac i k * vget (nth k X []) j) n) (if Nat.eqb i j then s1 else s0)).

(* ... where Ac is given by the previous level through the statement itself: Ac = (R A P) [* s] *)
Definition triple_dense (sc : option S) (A P R : crs) : list vec :=
  map (fun i => map (fun j => scaled_entry sc (triple_entry A P R i j)) (seq 0 (ncols P))) (seq 0 (nrows R)).
Definition coarse_inverse_ok (sc : option S) (A P R : crs) (X : list vec) : bool :=
  let Ac := triple_dense sc A P R in
  let n := ncols P in
  Nat.eqb (nrows R) n && Nat.eqb (length X) n && forallb (fun r => Nat.eqb (length r) n) X &&
  all_entries n n (fun i j =>
    seqb (sumn (fun k => vget (nth i Ac []) k * vget (nth k X []) j) n) (if Nat.eqb i j then s1 else s0)).

(* the dense inverse computed by the exact solve of the model (column j = solution for e_j),
   printed row by row; None = singular *)
Definition unit_vec (n j : nat) : vec := map (fun i => if Nat.eqb i j then s1 else s0) (seq 0 n).
Definition dense_inverse (Ac : crs) : option (list vec) :=
  let n := nrows Ac in
  let cols := map (fun j => DenseSolve.dense_solve Ac (unit_vec n j)) (seq 0 n) in
  if forallb (fun c => match c with Some _ => true | None => false end) cols then
    Some (map (fun i => map (fun c => match c with Some x => vget x i | None => s0 end) cols) (seq 0 n))
  else None.

End AmgBlock.
