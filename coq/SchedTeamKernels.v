(* SchedTeamKernels.v -- C09: reduced teams, continued (imports KernelsProofs; not part of the extraction closure):
   what a reduced team executes of one level, thread-indexed accumulators under a reduced team. *)
From Coq Require Import Permutation ZifyBool.
From Amgcl Require Import Scalar Vec Crs Kernels KernelsProofs MatOps Relax Sched GsSched IluSched SchedProofs SchedTeam.

(* ================================================================================ *)
(* 9. what exactly a reduced team executes of one level: the first k of the nt chunks,
      i.e. the PREFIX of the level of length min(k * ceil(len/nt), len); the tail is skipped *)
Lemma firstn_map_seq {X} (f : nat -> X) k n : firstn k (map f (seq 0 n)) = map f (seq 0 (Nat.min k n)).
Proof.
  rewrite firstn_map. f_equal. revert k. generalize 0 as s. induction n as [|n IH]; intros s k.
  - rewrite Nat.min_0_r. simpl. apply firstn_nil.
  - destruct k as [|k]; simpl; [reflexivity|]. f_equal. apply IH.
Qed.

Theorem team_trunc_level_prefix {X} nt k (l : list X) : k <= nt ->
  concat (firstn k (omp_chunks nt l)) = firstn (chunk_beg (length l) nt k) l.
Proof.
  intro Hk. unfold omp_chunks. rewrite firstn_map_seq. rewrite Nat.min_l by exact Hk.
  rewrite (map_ext _ (fun t => slice l (chunk_beg (length l) nt t) (chunk_beg (length l) nt (Datatypes.S t))))
    by (intro t; rewrite chunk_end_next; reflexivity).
  apply concat_slices.
  - reflexivity.
  - intro t. unfold chunk_beg. simpl. lia.
Qed.

(* ================================================================================ *)
(* 10. thread-indexed accumulators (inner_product: sum[tid]; mpi::subdomain_deflation:
       erow(tid,.,.)): nt slots initialised with the neutral element, the work-sharing loop
       ("omp for") gives every iteration to one of the k <= nt team threads, the slots are
       added up serially afterwards.  Slots of missing threads keep the neutral element:
       in the model they are empty chunks.                                              *)
Lemma fold_right_add_app l1 l2 : fold_right Nat.add 0 (l1 ++ l2) = fold_right Nat.add 0 l1 + fold_right Nat.add 0 l2.
Proof. induction l1 as [|a l1 IH]; simpl; [reflexivity|]. rewrite IH. lia. Qed.

Theorem inner_product_reduced_team {S : Scalar} (Srt : Sring S) (lens : list nat) (nt : nat) (x y : vec S) :
  length (combine x y) <= fold_right Nat.add 0 lens ->
  inner_product_parallel (lens ++ repeat 0 (nt - length lens)) x y = inner_product_serial x y.
Proof.
  intro H. apply (inner_product_parallel_spec Srt). rewrite fold_right_add_app. lia.
Qed.

Theorem slots_reduced_team {X} (op : X -> X -> X) (e : X) :
  (forall a b c, op (op a b) c = op a (op b c)) -> (forall a b, op a b = op b a) -> op e e = e ->
  forall (cs : list (list X)) (m : nat) (l : list X), Permutation (concat cs) l ->
  reduce_chunked op e (cs ++ repeat [] m) = reduce op e l.
Proof.
  intros Ha Hc He cs m l Hp. apply (reduce_chunked_any_order X op Ha Hc e); auto.
  rewrite concat_app.
  assert (concat (repeat (@nil X) m) = []) as -> by (induction m; simpl; auto).
  rewrite app_nil_r. exact Hp.
Qed.

(* A hand-made static partition by the set-up count (chunk = ceil(n/nt); thread tid sums
   [tid*chunk, (tid+1)*chunk)) executed by a team of k < nt -- the shape of the seeded regression
   C07-2, NOT of the code in /repo -- sums only a prefix: *)
From Coq Require Import QArith Qcanon.
From Amgcl Require Import QcInst.
Local Close Scope Qc_scope.
Local Close Scope Q_scope.
Local Open Scope nat_scope.

Example static_partition_reduced_team_refuted :
  exists (x y : vec QcS) (nt k : nat), k < nt /\
    inner_product_parallel (repeat (chunk_size (length x) nt) nt) x y = inner_product_serial x y /\
    inner_product_parallel (repeat (chunk_size (length x) nt) k ++ repeat 0 (nt - k)) x y <> inner_product_serial x y.
Proof.
  exists [qc 1 1; qc 2 1; qc 3 1; qc 4 1; qc 5 1], [qc 1 1; qc 1 1; qc 1 1; qc 1 1; qc 1 1], 4, 2.
  split; [lia|]. split.
  - apply Qc_is_canon. vm_compute. reflexivity.
  - intro E. apply (f_equal (fun q : Qc => this q)) in E. revert E. vm_compute. discriminate.
Qed.
