(* KrylovRateAmg.v -- C01, last clause, instantiated: Richardson iteration preconditioned with the AMG
   cycle (Amg.apply) converges in the energy norm; the hypotheses are those of C02-B1.
   Part A: the operator A = mat_op M (the closure the correspondence check uses) and the quadratic
           forms qA / ip of the C02 development; any preconditioner B with C02's inequality
           <A B g, B g> < 2 <g, B g> (g <> 0) gives strict decrease of the error energy of the
           workspace model Krylov.richardson as long as the residual is not zero.
   Part B: B = Amg.apply on a hierarchy satisfying hier_dec / top_strict / hier_lin. *)
From Amgcl Require Import Scalar Vec Crs Kernels KernelsProofs MatOps MatOpsProofs Relax DenseSolve
  Amg AmgExec AmgProofs AmgProofs2 AmgProofs3 AmgProofs4 AmgProofs5 AmgProofs6 AmgProofs7 AmgProofs9 AmgProofs10
  AmgOrder Krylov KrylovRef KrylovProofs KrylovRate.
From Coq Require Import Lia.
Local Open Scope S_scope.

Section MatEnergy.
Context {S : Scalar}.
Local Notation vec := (vec S).
Local Notation crs := (crs S).
Local Notation ip := (@AmgProofs6.ip S).
Hypothesis Srt : Sring S.
Hypothesis Seqb : seqb_spec S.
Hypothesis Ord : ordered S.
Add Ring SRingRateAmg : Srt.

Variable n : nat.
Variable M : crs.
Hypothesis WM : wf M = true.
Hypothesis NM : nrows M = n.
Hypothesis SM : sym_mat n M.

Lemma mat_op_get (x : vec) i : i < n -> vget (mat_op M x) i = Ax M x i.
Proof.
  intro Hi. unfold mat_op. rewrite (spmv_spec Srt Seqb); [ring|exact WM|unfold vzero; apply repeat_length|lia].
Qed.

Lemma mat_op_length (x : vec) : length (mat_op M x) = n.
Proof. rewrite mat_op_len. exact NM. Qed.

Lemma mat_op_lin : linear_on n (mat_op M).
Proof. rewrite <- NM. apply (mat_op_linear Srt Seqb M WM). destruct SM as [H _]. congruence. Qed.

Lemma ipn_ip (x y : vec) : ipn n x y = ip n x y.
Proof. reflexivity. Qed.

Lemma ipn_mat_op (x y : vec) : ipn n (mat_op M x) y = qA n M x y.
Proof. rewrite ipn_ip. apply ip_Ax. intros i Hi. apply mat_op_get, Hi. Qed.

Lemma mat_op_sym (x y : vec) : ipn n (mat_op M x) y = ipn n x (mat_op M y).
Proof.
  rewrite ipn_mat_op. rewrite (ipn_comm Srt n x (mat_op M y)), ipn_mat_op. apply (qA_sym Srt n M SM).
Qed.

Lemma energy_qA (e : vec) : energy n (mat_op M) e = qA n M e e.
Proof. unfold energy. apply ipn_mat_op. Qed.

Variable B : vec -> vec.
Hypothesis B_len : forall v, length v = n -> length (B v) = n.

Lemma Jform_qA (g : vec) : Jform n (mat_op M) B g = qA n M (B g) (B g) - two * ip n g (B g).
Proof. unfold Jform. rewrite ipn_mat_op. reflexivity. Qed.

(* C02's inequality for B  ==>  Richardson's error energy decreases strictly *)
Theorem richardson_strict_of_C02 :
  B (vzero n) = vzero n ->
  (forall g, length g = n -> g <> vzero n -> lt0 (qA n M (B g) (B g) - two * ip n g (B g))) ->
  forall prm u x0 junk nr r w,
  length u = n -> length x0 = n -> p_damping prm = s1 ->
  k_prologue norm_a prm (mat_op M u) = Go nr ->
  richardson (mat_op M) B prm (mat_op M u) x0 junk = (KOk r, w) ->
  (* every iterate before the last had a non-zero residual: strictly decreasing energies *)
  forall k, k_it r = Datatypes.S k ->
  mat_op M (vsub u (rich_iter (mat_op M) B s1 (mat_op M u) k x0)) <> vzero n ->
  forall j, j <= k ->
  olt (qA n M (vsub u (k_x r)) (vsub u (k_x r)))
      (qA n M (vsub u (rich_iter (mat_op M) B s1 (mat_op M u) j x0))
              (vsub u (rich_iter (mat_op M) B s1 (mat_op M u) j x0))).
Proof.
  intros BZ HJ prm u x0 junk nr r w Lu Lx Hd Hp Hr k Hk Hne j Hj.
  assert (AL : forall v, length v = n -> length (mat_op M v) = n) by (intros; apply mat_op_length).
  rewrite <- !energy_qA.
  rewrite (richardson_is_kfold Srt Seqb n (mat_op M) B AL B_len prm (mat_op M u) x0 junk nr r w
             (mat_op_length u) Lx Hp Hr), Hd, Hk.
  apply (rich_strict_residual Srt Ord n (mat_op M) B AL B_len mat_op_lin BZ
           (fun x y _ _ => mat_op_sym x y) u x0 Lu Lx); [|exact Hne|exact Hj].
  intros g Lg Hg. rewrite Jform_qA. exact (HJ g Lg Hg).
Qed.

(* the delta form: contraction of the error propagation I - B A in the energy norm *)
Theorem richardson_rate_qA (delta : S) :
  (forall e, length e = n ->
     ole (qA n M (err_step (mat_op M) B e) (err_step (mat_op M) B e)) (delta * delta * qA n M e e)) ->
  forall prm u x0 junk nr r w,
  length u = n -> length x0 = n -> p_damping prm = s1 ->
  k_prologue norm_a prm (mat_op M u) = Go nr ->
  richardson (mat_op M) B prm (mat_op M u) x0 junk = (KOk r, w) ->
  ole (qA n M (vsub u (k_x r)) (vsub u (k_x r))) (spow delta (2 * k_it r) * qA n M (vsub u x0) (vsub u x0)).
Proof.
  intros Hc prm u x0 junk nr r w Lu Lx Hd Hp Hr.
  assert (AL : forall v, length v = n -> length (mat_op M v) = n) by (intros; apply mat_op_length).
  rewrite <- !energy_qA.
  apply (richardson_rate Srt Seqb Ord n (mat_op M) B AL B_len mat_op_lin delta prm u x0 junk nr r w); auto.
  intros e Le. rewrite !energy_qA. apply Hc, Le.
Qed.

End MatEnergy.

(* ------------------------------------------------------------------ *)
(* Part B: the AMG cycle as the preconditioner *)
Section AmgPrecond.
Context {S : Scalar}.
Local Notation vec := (vec S).
Local Notation crs := (crs S).
Local Notation level := (@level S).
Hypothesis Srt : Sring S.
Hypothesis Seqb : seqb_spec S.
Add Ring SRingRateAmg2 : Srt.

Variables npre npost ncycle pre_cycles : nat.
Variable lvls : list level.

(* P.apply(rhs, x) of amgcl::amg: x is cleared, pre_cycles cycles; the result does not depend on the
   scratch vectors of the levels nor on the incoming x (C02_apply_history_independent) *)
Definition amg_B (g : vec) : vec :=
  fst (apply npre npost ncycle pre_cycles lvls (zscr lvls) g (vzero (top_n lvls))).

Hypothesis Hwf : hier_wf lvls.
Hypothesis Hne : lvls <> [].

Lemma zis0 : is_zero (@s0 S) = true.
Proof. unfold is_zero. apply Seqb. reflexivity. Qed.

Lemma amg_B_len (g : vec) : length g = top_n lvls -> length (amg_B g) = top_n lvls.
Proof.
  intro Lg. unfold amg_B.
  apply (apply_history_indep zis0 _ _ _ _ lvls Hwf Hne (zscr lvls) (zscr lvls) g
           (vzero (top_n lvls)) (vzero (top_n lvls)) (zscr_wf lvls) (zscr_wf lvls) Lg
           (vzero_length _) (vzero_length _)).
Qed.

(* the same operator for ANY well-formed scratch state and ANY incoming x *)
Lemma amg_B_any scr (g x : vec) : scratch_wf lvls scr -> length g = top_n lvls -> length x = top_n lvls ->
  fst (apply npre npost ncycle pre_cycles lvls scr g x) = amg_B g.
Proof.
  intros Hs Lg Lx. unfold amg_B.
  apply (apply_history_indep zis0 _ _ _ _ lvls Hwf Hne scr (zscr lvls) g x (vzero (top_n lvls)) Hs (zscr_wf lvls) Lg Lx
           (vzero_length _)).
Qed.

Hypothesis Hlin : hier_lin lvls.

Lemma amg_B_lin : linear_on (top_n lvls) amg_B.
Proof.
  intros a x y Lx Ly.
  assert (Lz : length (@vzero S (top_n lvls)) = top_n lvls) by apply vzero_length.
  assert (E : vmap2 (fun xi yi => xi + a * yi) x y = vlin s1 x a y).
  { apply (vlin_intro Srt s1 a x y _ (top_n lvls) Lx Ly); [rewrite vmap2_length; lia|].
    intros i Hi. rewrite vget_vmap2 by lia. ring. }
  rewrite E.
  assert (E2 : amg_B (vlin s1 x a y) = vlin s1 (amg_B x) a (amg_B y)).
  { unfold amg_B.
    apply (apply_linear Srt Seqb _ _ _ _ lvls Hlin Hne s1 a (zscr lvls) (zscr lvls) (zscr lvls) x y _ _ _
             (zscr_wf lvls) (zscr_wf lvls) (zscr_wf lvls) Lx Ly Lz Lz Lz). }
  rewrite E2. symmetry.
  apply (vlin_intro Srt s1 a (amg_B x) (amg_B y) _ (top_n lvls) (amg_B_len x Lx) (amg_B_len y Ly)).
  - rewrite vmap2_length, !amg_B_len by assumption. lia.
  - intros i Hi. rewrite vget_vmap2 by (rewrite amg_B_len by assumption; exact Hi). ring.
Qed.

Lemma amg_B_zero : amg_B (vzero (top_n lvls)) = vzero (top_n lvls).
Proof.
  assert (Lz : length (@vzero S (top_n lvls)) = top_n lvls) by apply vzero_length.
  assert (E : @vzero S (top_n lvls) = vlin s0 (vzero (top_n lvls)) s0 (vzero (top_n lvls))).
  { apply (vlin_intro Srt s0 s0 _ _ _ (top_n lvls) Lz Lz Lz). intros i _. unfold vzero, vget. rewrite nth_repeat. ring. }
  assert (E2 : amg_B (vlin s0 (vzero (top_n lvls)) s0 (vzero (top_n lvls))) =
               vlin s0 (amg_B (vzero (top_n lvls))) s0 (amg_B (vzero (top_n lvls)))).
  { unfold amg_B.
    apply (apply_linear Srt Seqb _ _ _ _ lvls Hlin Hne s0 s0 (zscr lvls) (zscr lvls) (zscr lvls) _ _ _ _ _
             (zscr_wf lvls) (zscr_wf lvls) (zscr_wf lvls) Lz Lz Lz Lz Lz). }
  rewrite E at 1. rewrite E2. apply vec_ext.
  - rewrite (vlin_length s0 _ s0 _ (top_n lvls)); [symmetry; exact Lz|apply amg_B_len, Lz|apply amg_B_len, Lz].
  - intros i _. rewrite (vlin_get Srt) by reflexivity. unfold vzero, vget at 3. rewrite nth_repeat. ring.
Qed.

End AmgPrecond.

(* strict decrease under the hypotheses of C02-B1 *)
Section AmgStrict.
Context {S : Scalar}.
Local Notation vec := (vec S).
Local Notation level := (@level S).
Hypothesis Srt : Sring S.
Hypothesis Seqb : seqb_spec S.
Hypothesis Ord : ordered S.
Variables k nc pc : nat.
Variable lvls : list level.
Hypothesis Hdec : hier_dec lvls.
Hypothesis Hstrict : top_strict lvls.
Hypothesis Hlin : hier_lin lvls.
Hypothesis WA : wf (top_A lvls) = true.
Hypothesis SA : sym_mat (top_n lvls) (top_A lvls).
Hypothesis O1 : le0 (@s0 S).
Hypothesis O2 : forall a b : S, le0 a -> le0 b -> le0 (a + b).
Hypothesis O3 : forall a b : S, lt0 a -> le0 b -> lt0 (a + b).

Local Notation B := (amg_B (Datatypes.S k) (Datatypes.S k) (Datatypes.S nc) (Datatypes.S pc) lvls).

Theorem richardson_amg_strict prm u x0 junk nr r w :
  let n := top_n lvls in let A := mat_op (top_A lvls) in
  nrows (top_A lvls) = n ->
  length u = n -> length x0 = n -> p_damping prm = s1 ->
  k_prologue norm_a prm (A u) = Go nr ->
  richardson A B prm (A u) x0 junk = (KOk r, w) ->
  forall i, k_it r = Datatypes.S i ->
  A (vsub u (rich_iter A B s1 (A u) i x0)) <> vzero n ->
  forall j, j <= i ->
  olt (qA n (top_A lvls) (vsub u (k_x r)) (vsub u (k_x r)))
      (qA n (top_A lvls) (vsub u (rich_iter A B s1 (A u) j x0)) (vsub u (rich_iter A B s1 (A u) j x0))).
Proof.
  intros n A NA Lu Lx Hd Hp Hr i Hi Hne j Hj.
  assert (Hne' : lvls <> []) by (destruct lvls; [destruct Hstrict|discriminate]).
  pose proof (hier_dec_wf _ Hdec) as Hwf.
  apply (richardson_strict_of_C02 Srt Seqb Ord n (top_A lvls) WA NA SA B
           (amg_B_len Seqb _ _ _ _ lvls Hwf Hne') (amg_B_zero Srt Seqb _ _ _ _ lvls Hwf Hne' Hlin))
    with (prm := prm) (junk := junk) (nr := nr) (w := w) (k := i); auto.
  intros g Lg Hg. unfold amg_B.
  apply (apply_energy_strict Srt Seqb O1 O2 O3 k nc pc lvls Hdec Hstrict WA SA (zscr lvls) g (vzero n)
           (zscr_wf lvls) Lg (vzero_length n) Hg).
Qed.

End AmgStrict.
