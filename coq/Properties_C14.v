(* Properties_C14.v -- C14: run-time configuration is equivalent to compile-time
   configuration.  Statements only; generic proofs live in PtreeProofs.v, the finite
   tables in ParamsGen.v are regenerated from the headers by tools/gen_params.py before
   every run (A2 is then re-decided by vm_compute). *)
From Coq Require Import String List Bool.
From Amgcl Require Import Ptree PtreeProofs ParamsGen.
Import ListNotations.
Local Open Scope string_scope.
Local Open Scope list_scope.

(* ---- C14-A2: the regenerated finite domain -------------------------------------------
   every params struct of the tree: import list and export list agree in names and kinds,
   every imported name is in every check_params set run on the tree, every declared member
   is imported, check_params accepts nothing that is never read, ad-hoc keys are exactly
   the reviewed pointer/array keys (gen_exceptions, from tools/params_exceptions.json);
   the only tolerated issues are the (struct, field) pairs of gen_known (the C14 entries
   of known_findings.json).  When a header drops a field from one list this fails. *)
Theorem C14_A2_all_structs_ok :
  forallb (ok_struct gen_exceptions gen_known) all_structs = true.
Proof. vm_compute. reflexivity. Qed.
Print Assumptions C14_A2_all_structs_ok.

Theorem C14_A2_every_struct_ok :
  forall s, In s all_structs ->
    forall i, In i (struct_issues gen_exceptions s) -> pair_mem (fst (fst i), snd (fst i)) gen_known = true.
Proof. exact (every_struct_ok gen_exceptions gen_known all_structs C14_A2_all_structs_ok). Qed.
Print Assumptions C14_A2_every_struct_ok.

(* every struct without a reviewed exception and without a known finding is regular:
   imports = exports (as sets with kinds, same length, no duplicates), names checked *)
Theorem C14_A2_unlisted_structs_regular :
  forall s, In s all_structs -> listed gen_exceptions gen_known s = false -> regularb s = true.
Proof. exact (unlisted_regular gen_exceptions gen_known all_structs eq_refl). Qed.
Print Assumptions C14_A2_unlisted_structs_regular.

(* every run-time wrapper: each enumerator is printed by operator<<, parsed back by
   operator>> (which throws on any other text), has a case in every switch (except the
   reviewed partial ones), names the same component class in every switch as in the
   constructor, and -- where the enumerator is the class name -- names that class *)
Theorem C14_A2_all_wrappers_ok : forallb ok_wrapper all_wrappers = true.
Proof. vm_compute. reflexivity. Qed.
Print Assumptions C14_A2_all_wrappers_ok.

Theorem C14_A2_every_wrapper_ok : forall w, In w all_wrappers -> wrapper_issues w = [].
Proof. exact (every_wrapper_ok all_wrappers C14_A2_all_wrappers_ok). Qed.
Print Assumptions C14_A2_every_wrapper_ok.

(* ---- C14-A1 (generic: every tree, every well-formed description, every nesting depth) ----
   wf_desc d: both lists name the same members with the same descriptions, no duplicates,
   every member name is in every check_params set, the default of an enumeration-typed
   member has a text; recursively for the params-typed members.
   agrees d c p: "p carries, for every parameter of d, the value c has, the default where c
   has none" (values: the data text; ptree members: the subtree; params members: recursively). *)
Theorem C14_A1_export_of_import_agrees_with_input d :
  wf_desc d -> forall c v, import d c = Ok v ->
  match d with DStruct _ _ _ => agrees d c (Some (export d (Some v) [] empty_ptree)) | _ => True end.
Proof. exact (export_import_agrees d). Qed.
Print Assumptions C14_A1_export_of_import_agrees_with_input.

(* export . import is the identity on value parameters that are present (defaults elsewhere) *)
Theorem C14_A1_value_parameters_written_back imps exps chk t v k ty dflt x :
  let d := DStruct imps exps chk in
  wf_desc d -> import d (Some t) = Ok v -> In (k, DVal ty dflt) imps ->
  get_value k x (export_top d v) = get_value k dflt t.
Proof.
  intros d Hwf Hi Hin. apply (agrees_value imps exps chk t (export_top d v) k ty dflt x); [|exact Hin].
  exact (export_import_agrees d Hwf (Some t) v Hi).
Qed.
Print Assumptions C14_A1_value_parameters_written_back.

(* ... at any depth: the same statement holds for the member struct on the member subtrees *)
Theorem C14_A1_nested_members imps exps chk t v k i e ch :
  let d := DStruct imps exps chk in
  wf_desc d -> import d (Some t) = Ok v -> In (k, DStruct i e ch) imps ->
  agrees (DStruct i e ch) (Some (get_child k t)) (Some (get_child k (export_top d v))).
Proof.
  intros d Hwf Hi Hin. apply (agrees_child imps exps chk t (export_top d v) k i e ch); [|exact Hin].
  exact (export_import_agrees d Hwf (Some t) v Hi).
Qed.
Print Assumptions C14_A1_nested_members.

(* parameters of run-time wrappers (ptree-typed members) are written back verbatim *)
Theorem C14_A1_ptree_members_written_back imps exps chk t v k :
  let d := DStruct imps exps chk in
  wf_desc d -> import d (Some t) = Ok v -> In (k, DOpaque) imps ->
  get_child_opt k (export_top d v) = Some (get_child k t).
Proof.
  intros d Hwf Hi Hin. apply (agrees_opaque imps exps chk t (export_top d v) k); [|exact Hin].
  exact (export_import_agrees d Hwf (Some t) v Hi).
Qed.
Print Assumptions C14_A1_ptree_members_written_back.

(* import . export . import = import *)
Theorem C14_A1_import_export_import imps exps chk t v :
  let d := DStruct imps exps chk in
  wf_desc d -> import d (Some t) = Ok v -> import d (Some (export_top d v)) = Ok v.
Proof. exact (import_export_import imps exps chk t v). Qed.
Print Assumptions C14_A1_import_export_import.

(* every key of the tree that a check_params call does not list reaches the unknown hook;
   a member name of a well-formed struct is not reported by the struct's own checks *)
Theorem C14_A1_unknown_keys_reach_the_hook imps exps chk t k names :
  In k (map fst (pkids t)) -> In names chk -> mem k names = false ->
  In k (unknowns (DStruct imps exps chk) (Some t)).
Proof. exact (unknown_reported imps exps chk t k names). Qed.
Print Assumptions C14_A1_unknown_keys_reach_the_hook.

Theorem C14_A1_members_are_not_reported imps exps chk t k :
  wf_desc (DStruct imps exps chk) -> In k (map fst imps) -> ~ In k (unknown_here chk t).
Proof. exact (member_not_reported imps exps chk t k). Qed.
Print Assumptions C14_A1_members_are_not_reported.

(* an enumeration text that is not in the operator>> table raises, also from inside a struct *)
Theorem C14_A1_invalid_enumeration_raises names dflt n :
  mem (pdata n) names = false -> import (DVal (TEnum names) dflt) (Some n) = Exc "invalid_argument".
Proof. exact (enum_invalid names dflt n). Qed.
Print Assumptions C14_A1_invalid_enumeration_raises.

Theorem C14_A1_invalid_enumeration_propagates imps exps chk t k names dflt n :
  NoDup (map fst imps) -> In (k, DVal (TEnum names) dflt) imps ->
  get_child_opt k t = Some n -> mem (pdata n) names = false ->
  exists e, import (DStruct imps exps chk) (Some t) = Exc e.
Proof.
  intros Hnd Hin Hc Hm. rewrite import_struct_eq. cbn [of_opt].
  destruct (import_fields_exc imps t k _ "invalid_argument" Hnd Hin) as [e He].
  - rewrite Hc. exact (enum_invalid names dflt n Hm).
  - exists e. rewrite He. reflexivity.
Qed.
Print Assumptions C14_A1_invalid_enumeration_propagates.

(* ---- A2 feeds A1: every instantiation built from the structs of the CURRENT tree that carry
        no reviewed exception and no known finding is well formed, for every binding of the
        template members, every nesting depth and every default text ---- *)
Definition regular_structs : list struct_desc :=
  filter (fun s => negb (listed gen_exceptions gen_known s)) all_structs.

Theorem C14_A2_A1_instantiations_of_the_tree_are_well_formed bind dflt ety fuel path id :
  (forall p, match ety p with TEnum names => mem (dflt p) names = true | TPlain => True end) ->
  wf_desc (resolve regular_structs bind dflt ety fuel path id).
Proof.
  intros Hety. unfold regular_structs. apply resolve_wf; [|exact Hety].
  exact (filter_unlisted_regular gen_exceptions gen_known all_structs C14_A2_unlisted_structs_regular).
Qed.
Print Assumptions C14_A2_A1_instantiations_of_the_tree_are_well_formed.

(* the hypotheses are satisfiable and the statement is not vacuous: cg::params of the tree *)
Example C14_A1_example_cg :
  let d := resolve regular_structs (fun _ => None) (fun p => match p with ["tol"] => "1e-08" | _ => "0" end)
                   (fun _ => TPlain) 3 [] "solver/cg.hpp:cg::params" in
  let t := Node "" [("tol", Node "0.25" []); ("bogus", Node "1" [])] in
  wf_desc d /\
  roundtrip d t = Ok (Node "" [("maxiter", Node "0" []); ("tol", Node "0.25" []); ("abstol", Node "0" []);
                               ("ns_search", Node "0" []); ("verbose", Node "0" [])]) /\
  unknowns d (Some t) = ["bogus"].
Proof.
  split; [apply C14_A2_A1_instantiations_of_the_tree_are_well_formed; intros p; exact I|].
  split; vm_compute; reflexivity.
Qed.

(* ---- C14-A3: run-time dispatch is a match on the tag ---- *)
Theorem C14_A3_runtime_wrapper_is_the_component (Tag A : Type) parse show dflt tagkey
        (component : Tag -> ptree -> A) prm tg :
  parse (get_value tagkey (show dflt) prm) = Some tg ->
  runtime_wrapper Tag A parse show dflt tagkey component prm = Ok (component tg (erase tagkey prm))
  /\ get_child_opt tagkey (erase tagkey prm) = None
  /\ (forall k, tagkey <> k -> get_child_opt k (erase tagkey prm) = get_child_opt k prm).
Proof.
  intros H. split; [exact (runtime_wrapper_is_match Tag A parse show dflt tagkey component prm tg H)|].
  split; [exact (erase_removes tagkey prm) | intros k Hk; exact (erase_keeps tagkey k prm Hk)].
Qed.
Print Assumptions C14_A3_runtime_wrapper_is_the_component.

Theorem C14_A3_invalid_type_raises (Tag A : Type) parse show dflt tagkey (component : Tag -> ptree -> A) prm :
  parse (get_value tagkey (show dflt) prm) = None ->
  runtime_wrapper Tag A parse show dflt tagkey component prm = Exc "invalid_argument".
Proof. exact (runtime_wrapper_invalid Tag A parse show dflt tagkey component prm). Qed.
Print Assumptions C14_A3_invalid_type_raises.
