(* Properties_C14.v -- C14: run-time configuration is equivalent to compile-time
   configuration.  Statements only; generic proofs live in PtreeProofs.v, the finite
   tables in ParamsGen.v are regenerated from the headers by tools/gen_params.py before
   every run (A2 is then re-decided by vm_compute). *)
From Coq Require Import String List Bool.
From Amgcl Require Import Ptree PtreeProofs ParamsGen.
Import ListNotations.

(* ---- C14-A2: the regenerated finite domain -------------------------------------------
   every params struct of the tree: import list and export list agree in names and kinds,
   every imported name is in every check_params set run on the tree, every declared member
   is imported, check_params accepts nothing that is never read, ad-hoc keys are exactly
   the reviewed pointer/array keys (gen_exceptions, from tools/params_exceptions.json);
   the only tolerated issues are the (struct, field) pairs of gen_known (the C14 entries
   of known_findings.json).  When a header drops a field from one list this fails. *)
Theorem C14_A2_all_structs_ok :
  forallb (ok_struct gen_exceptions gen_known) all_structs = true.
Proof. vm_compute. reflexivity. Qed.
Print Assumptions C14_A2_all_structs_ok.

Theorem C14_A2_every_struct_ok :
  forall s, In s all_structs ->
    forall i, In i (struct_issues gen_exceptions s) -> pair_mem (fst (fst i), snd (fst i)) gen_known = true.
Proof. exact (every_struct_ok gen_exceptions gen_known all_structs C14_A2_all_structs_ok). Qed.
Print Assumptions C14_A2_every_struct_ok.

(* every struct without a reviewed exception and without a known finding is regular:
   imports = exports (as sets with kinds, same length, no duplicates), names checked *)
Theorem C14_A2_unlisted_structs_regular :
  forall s, In s all_structs -> listed gen_exceptions gen_known s = false -> regularb s = true.
Proof. exact (unlisted_regular gen_exceptions gen_known all_structs eq_refl). Qed.
Print Assumptions C14_A2_unlisted_structs_regular.

(* every run-time wrapper: each enumerator is printed by operator<<, parsed back by
   operator>> (which throws on any other text), has a case in every switch (except the
   reviewed partial ones), names the same component class in every switch as in the
   constructor, and -- where the enumerator is the class name -- names that class *)
Theorem C14_A2_all_wrappers_ok : forallb ok_wrapper all_wrappers = true.
Proof. vm_compute. reflexivity. Qed.
Print Assumptions C14_A2_all_wrappers_ok.

Theorem C14_A2_every_wrapper_ok : forall w, In w all_wrappers -> wrapper_issues w = [].
Proof. exact (every_wrapper_ok all_wrappers C14_A2_all_wrappers_ok). Qed.
Print Assumptions C14_A2_every_wrapper_ok.
