(* QrMathEx.v -- executable check used by the non-vacuity examples of the QR theorems: on a
   concrete matrix over the exact rationals (QcS, pseudo-root) whose column norms are perfect
   squares, the pseudo-root is exact on every argument met, and the conclusions A = QR, Q'Q = I
   can be evaluated by vm_compute.   (C16 / A6) *)
From Amgcl Require Import Scalar QcInst Vec DirectUtil Qr.
Local Open Scope nat_scope.

Definition qr_check (cm : bool) (m n : nat) (A qj : vec QcS) : bool :=
  let rs := if cm then 1 else n in let cs := if cm then m else 1 in
  let '(A', tau, Q) := qr_factorize m n rs cs A qj in
  let k := Nat.min m n in
  forallb (fun i => forallb (fun j =>
     seqb (sumn (fun l => (qr_Q rs cs Q i l * qr_R rs cs A' l j)%S) k) (vget A (i * rs + j * cs))) (seq 0 n)) (seq 0 m)
  && forallb (fun i => forallb (fun j =>
     seqb (sumn (fun l => (qr_Q rs cs Q l i * qr_Q rs cs Q l j)%S) m) (if Nat.eqb i j then s1 else s0)) (seq 0 k)) (seq 0 k).

(* A = Q0 R with Q0 = I - (2/3) 1 1', R = [[3,3],[0,3],[0,0]]: both norms met are 3 *)
Definition qr_ex_row : vec QcS := [qc 1 1; qc (-1) 1; qc (-2) 1; qc (-1) 1; qc (-2) 1; qc (-4) 1].
Definition qr_ex_col : vec QcS := [qc 1 1; qc (-2) 1; qc (-2) 1; qc (-1) 1; qc (-1) 1; qc (-4) 1].
