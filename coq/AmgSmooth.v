(* AmgSmooth.v -- C02-B1: the smoother hypotheses of hier_dec / top_strict from matrix properties,
   for matrices with entries of ANY sign (ordered field).
     wdd n A : symmetric, positive diagonal, weakly diagonally dominant,
               sum_{j<>i} |a_ij| <= a_ii                    (|a| through the record's operator<)
   gives, with 2 |a_ij x_i x_j| <= |a_ij| (x_i^2 + x_j^2):
               0 <= <A x, x> <= <D x, x> + <W x, x> <= 2 <D x, x>,   W = diag(sum_{j<>i} |a_ij|).
     idd n A : wdd and every index is connected, through non-zero entries, to a strictly dominant
               row (irreducibly diagonally dominant).  Then for x <> 0:  0 < <A x, x> < 2 <D x, x>.
   Smoothers:
     damped Jacobi, 0 < w <= 1: energy decreases; strictly (residual <> 0) for w < 1, and for w = 1
                   on idd matrices.  amgcl's default w = 0.72 is inside.
     SPAI-0 (rows without duplicate columns): energy decreases strictly, no damping needed.
   The M-matrices of AmgProofs11.mmat are the special case a_ij <= 0. *)
From Amgcl Require Import Scalar Vec Crs Kernels KernelsProofs MatOps MatOpsProofs Relax RelaxProofs DenseSolve
  Amg AmgExec AmgProofs AmgProofs2 AmgProofs3 AmgProofs4 AmgProofs6 AmgProofs7 AmgProofs8 AmgProofs10 AmgOrder AmgProofs11.
Local Open Scope S_scope.

Section Smooth2.
Context {S : Scalar}.
Local Notation vec := (vec S).
Local Notation crs := (crs S).
Local Notation sweep := (@sweep S).
Hypothesis Sft : Sfield S.
Hypothesis Seqb : seqb_spec S.
Hypothesis Ord : ordered S.
Let Srt : Sring S := F_R Sft.
Add Ring SRingSm : Srt.
Add Field SFieldSm : Sft.
Local Notation ip := (@ip S).

(* |a| through operator< *)
Definition oabs (a : S) : S := if sltb a s0 then sopp a else a.

Lemma oabs_nonneg (a : S) : ole s0 (oabs a).
Proof.
  unfold oabs. destruct (sltb a s0) eqn:E.
  - apply (olt_ole Ord). apply (proj2 (olt_opp Srt Ord (sopp a))).
    replace (sopp (sopp a)) with a by ring. exact E.
  - exact E.
Qed.

Lemma oabs_cases (a : S) : (ole s0 a /\ oabs a = a) \/ (olt a s0 /\ oabs a = sopp a).
Proof. unfold oabs. destruct (sltb a s0) eqn:E; [right|left]; split; auto. Qed.

Lemma oabs_zero (a : S) : oabs a = s0 -> a = s0.
Proof.
  destruct (oabs_cases a) as [[_ E]|[_ E]]; rewrite E; intro H; [exact H|].
  transitivity (sopp (sopp a)); [ring|]. rewrite H. ring.
Qed.

Lemma oabs_nonpos (a : S) : ole a s0 -> oabs a = sopp a.
Proof.
  intro H. destruct (oabs_cases a) as [[H0 E]|[_ E]]; [|exact E].
  assert (a = s0) by (apply (o_total S Ord); assumption). subst a. rewrite E. ring.
Qed.

(* c (x^2 + y^2) + 2 sg a x y >= 0  for c = |a|, sg = +-1 *)
Lemma term_nonneg (a x y sg : S) : sg * sg = s1 ->
  ole s0 (oabs a * (x * x + y * y) + sg * (a * (x * y) + a * (x * y))).
Proof.
  intro Hsg. destruct (oabs_cases a) as [[H0 E]|[H0 E]]; rewrite E.
  - replace (a * (x * x + y * y) + sg * (a * (x * y) + a * (x * y)))
      with (a * ((x + sg * y) * (x + sg * y))).
    + apply (mul_nonneg Srt Ord); [exact H0|apply (sq_nonneg Srt Ord)].
    + transitivity (a * (x * x + (sg * sg) * (y * y)) + sg * (a * (x * y) + a * (x * y))); [ring|].
      rewrite Hsg. ring.
  - replace (sopp a * (x * x + y * y) + sg * (a * (x * y) + a * (x * y)))
      with (sopp a * ((x - sg * y) * (x - sg * y))).
    + apply (mul_nonneg Srt Ord); [|apply (sq_nonneg Srt Ord)].
      apply (olt_ole Ord). apply (proj2 (olt_opp Srt Ord (sopp a))).
      replace (sopp (sopp a)) with a by ring. exact H0.
    + transitivity (sopp a * (x * x + (sg * sg) * (y * y)) + sg * (a * (x * y) + a * (x * y))); [ring|].
      rewrite Hsg. ring.
Qed.

(* sums of non-negative terms *)
Lemma sumn_zero_each (f : nat -> S) n : (forall i, i < n -> ole s0 (f i)) -> sumn f n = s0 ->
  forall i, i < n -> f i = s0.
Proof.
  induction n as [|n IH]; intros Hnn Hz i Hi; [lia|]. simpl in Hz.
  assert (H1 : ole s0 (sumn f n)) by (apply (sumn_nonneg Srt Ord); intros; apply Hnn; lia).
  assert (H2 : ole s0 (f n)) by (apply Hnn; lia).
  assert (E2 : f n = s0).
  { apply (o_total S Ord); [exact H2|].
    (* f n <= 0 : f n = - sumn <= 0 *)
    change (ole (f n) s0). replace (f n) with (sopp (sumn f n)).
    - apply (proj1 (ole_opp Srt Ord _)). exact H1.
    - transitivity (sopp (sumn f n) + (sumn f n + f n)); [rewrite Hz; ring|ring]. }
  assert (E1 : sumn f n = s0) by (rewrite E2 in Hz; rewrite <- Hz; ring).
  destruct (Nat.eq_dec i n) as [->|Hne]; [exact E2|].
  apply IH; [intros; apply Hnn; lia|exact E1|lia].
Qed.

Lemma mul_zero_pos (a b : S) : olt s0 a -> a * b = s0 -> b = s0.
Proof.
  intros Ha H. transitivity (sinv a * (a * b)).
  - field. intro E. rewrite E in Ha. unfold olt in Ha. rewrite (o_irrefl S Ord) in Ha. discriminate.
  - rewrite H. ring.
Qed.

Lemma sq_zero (x : S) : x * x = s0 -> x = s0.
Proof.
  intro H. destruct (seqb x s0) eqn:E; [apply Seqb, E|]. exfalso.
  assert (Hne : x <> s0) by (intro E'; subst x; rewrite (proj2 (Seqb s0 s0) eq_refl) in E; discriminate).
  pose proof (sq_pos Srt Ord x Hne) as P. rewrite H in P. unfold olt in P.
  rewrite (o_irrefl S Ord) in P. discriminate.
Qed.

Lemma pos_ne (a : S) : olt s0 a -> a <> s0.
Proof. intros H E. rewrite E in H. unfold olt in H. rewrite (o_irrefl S Ord) in H. discriminate. Qed.

(* ------------------------------------------------------------------ *)
Section Wdd.
Variable n : nat.
Variable A : crs.

Definition acof (i j : nat) : S := if Nat.eqb i j then s0 else oabs (mget A i j).
Definition off (i j : nat) : S := if Nat.eqb i j then s0 else mget A i j.
Definition ACs (i : nat) : S := sumn (fun j => acof i j) n.

Definition wdd : Prop :=
  sym_mat n A /\
  (forall i, i < n -> olt s0 (mget A i i)) /\
  (forall i, i < n -> ole (ACs i) (mget A i i)).

Hypothesis HW : wdd.

Local Notation Dq := (Dq n A).
Definition Oq (x : vec) : S := sumn (fun i => sumn (fun j => off i j * (vget x i * vget x j)) n) n.
Definition Wq (x : vec) : S := sumn (fun i => ACs i * (vget x i * vget x i)) n.
(* the slack of the dominance *)
Definition Gq (x : vec) : S := sumn (fun i => (mget A i i - ACs i) * (vget x i * vget x i)) n.
(* the sum of the non-negative terms *)
Definition Tq (sg : S) (x : vec) : S :=
  sumn (fun i => sumn (fun j => acof i j * (vget x i * vget x i + vget x j * vget x j) +
                                 sg * (off i j * (vget x i * vget x j) + off i j * (vget x i * vget x j))) n) n.

Lemma acof_nonneg i j : ole s0 (acof i j).
Proof. unfold acof. destruct (Nat.eqb i j); [apply (ole_refl Ord)|apply oabs_nonneg]. Qed.

Lemma acof_sym i j : i < n -> j < n -> acof i j = acof j i.
Proof.
  intros Hi Hj. unfold acof. rewrite (Nat.eqb_sym j i). destruct (Nat.eqb i j); [reflexivity|].
  destruct HW as ((_ & Hs) & _). rewrite (Hs i j Hi Hj). reflexivity.
Qed.

Lemma ACs_nonneg i : ole s0 (ACs i).
Proof. unfold ACs. apply (sumn_nonneg Srt Ord). intros j _. apply acof_nonneg. Qed.

Lemma q_split2 (x : vec) : qA n A x x = Dq x + Oq x.
Proof.
  destruct HW as ((HcA & _) & _). unfold qA, Ax, AmgProofs11.Dq, Oq. rewrite HcA.
  rewrite <- (sumn_add Srt). apply sumn_ext. intros i Hi.
  rewrite (sumn_mul_r Srt).
  assert (Ed : mget A i i * (vget x i * vget x i) =
               sumn (fun j => if Nat.eqb i j then mget A i i * (vget x i * vget x i) else s0) n).
  { rewrite (sumn_delta Srt). replace (i <? n)%nat with true by (symmetry; apply Nat.ltb_lt; exact Hi).
    reflexivity. }
  rewrite Ed, <- (sumn_add Srt). apply sumn_ext. intros j Hj. unfold off.
  destruct (Nat.eqb_spec i j) as [->|]; ring.
Qed.

Lemma Tq_term_nonneg sg (x : vec) i j : sg * sg = s1 ->
  ole s0 (acof i j * (vget x i * vget x i + vget x j * vget x j) +
          sg * (off i j * (vget x i * vget x j) + off i j * (vget x i * vget x j))).
Proof.
  intro Hsg. unfold acof, off. destruct (Nat.eqb i j).
  - match goal with |- ole s0 ?e => replace e with (@s0 S) by ring end. apply (ole_refl Ord).
  - apply term_nonneg, Hsg.
Qed.

Lemma Tq_nonneg sg (x : vec) : sg * sg = s1 -> ole s0 (Tq sg x).
Proof.
  intro Hsg. unfold Tq. apply (sumn_nonneg Srt Ord). intros i _. apply (sumn_nonneg Srt Ord).
  intros j _. apply Tq_term_nonneg, Hsg.
Qed.

(* Tq = 2 Wq + 2 sg Oq *)
Lemma Tq_id sg (x : vec) : Tq sg x = (Wq x + Wq x) + sg * (Oq x + Oq x).
Proof.
  unfold Tq.
  rewrite (sumn_ext _ (fun i => ACs i * (vget x i * vget x i) +
                                sumn (fun j => acof i j * (vget x j * vget x j)) n +
                                sg * (sumn (fun j => off i j * (vget x i * vget x j)) n +
                                      sumn (fun j => off i j * (vget x i * vget x j)) n))).
  2:{ intros i Hi.
      rewrite (sumn_ext _ (fun j => acof i j * (vget x i * vget x i) + acof i j * (vget x j * vget x j) +
                                    sg * (off i j * (vget x i * vget x j) + off i j * (vget x i * vget x j))))
        by (intros j _; ring).
      rewrite !(sumn_add Srt), (sumn_scal Srt), (sumn_add Srt). unfold ACs.
      rewrite (sumn_mul_r Srt). reflexivity. }
  rewrite !(sumn_add Srt), (sumn_scal Srt), (sumn_add Srt). fold (Oq x).
  f_equal. unfold Wq. f_equal. rewrite (sumn_swap Srt). apply sumn_ext. intros j Hj.
  unfold ACs. rewrite (sumn_mul_r Srt). apply sumn_ext. intros i Hi. rewrite (acof_sym i j Hi Hj). reflexivity.
Qed.

Lemma Oq_upper (x : vec) : ole (Oq x) (Wq x).
Proof.
  pose proof (Tq_nonneg (sopp s1) x ltac:(ring)) as H. rewrite Tq_id in H.
  apply (ole_double_cancel Srt Ord). apply (proj2 (ole_0_sub Srt Ord _ _)).
  replace (Wq x + Wq x - (Oq x + Oq x)) with (Wq x + Wq x + sopp s1 * (Oq x + Oq x)) by ring. exact H.
Qed.

Lemma Oq_lower (x : vec) : ole (sopp (Oq x)) (Wq x).
Proof.
  pose proof (Tq_nonneg s1 x ltac:(ring)) as H. rewrite Tq_id in H.
  apply (ole_double_cancel Srt Ord). apply (proj2 (ole_0_sub Srt Ord _ _)).
  replace (Wq x + Wq x - (sopp (Oq x) + sopp (Oq x))) with (Wq x + Wq x + s1 * (Oq x + Oq x)) by ring. exact H.
Qed.

Lemma Wq_le_Dq2 (x : vec) : ole (Wq x) (Dq x).
Proof.
  unfold Wq, AmgProofs11.Dq. apply (sumn_ole Srt Ord). intros i Hi.
  apply (ole_mul_nonneg Srt Ord); [apply (sq_nonneg Srt Ord)|]. apply HW, Hi.
Qed.

(* 0 <= <A x, x> *)
Theorem wdd_psd (x : vec) : ole s0 (qA n A x x).
Proof.
  rewrite q_split2. apply (ole_trans Ord _ (Dq x + sopp (Wq x))).
  - pose proof (Wq_le_Dq2 x) as H. apply (proj1 (ole_0_sub Srt Ord _ _)) in H.
    replace (Dq x + sopp (Wq x)) with (Dq x - Wq x) by ring. exact H.
  - apply (ole_add Srt Ord); [apply (ole_refl Ord)|].
    pose proof (Oq_lower x) as H. apply (proj1 (ole_0_sub Srt Ord _ _)) in H.
    apply (proj2 (ole_0_sub Srt Ord _ _)).
    replace (Oq x - sopp (Wq x)) with (Wq x - sopp (Oq x)) by ring. exact H.
Qed.

(* <A x, x> <= <D x, x> + <W x, x> *)
Theorem wdd_upper_W (x : vec) : ole (qA n A x x) (Dq x + Wq x).
Proof. rewrite q_split2. apply (ole_add Srt Ord); [apply (ole_refl Ord)|apply Oq_upper]. Qed.

(* <A x, x> <= 2 <D x, x> *)
Theorem wdd_upper (x : vec) : ole (qA n A x x) (Dq x + Dq x).
Proof.
  apply (ole_trans Ord _ _ _ (wdd_upper_W x)).
  apply (ole_add Srt Ord); [apply (ole_refl Ord)|apply Wq_le_Dq2].
Qed.

(* --- irreducible dominance: strict versions --- *)
Inductive anchored : nat -> Prop :=
| anc_strict i : i < n -> olt (ACs i) (mget A i i) -> anchored i
| anc_step i j : i < n -> j < n -> i <> j -> mget A i j <> s0 -> anchored j -> anchored i.

Definition idd : Prop := forall i, i < n -> anchored i.

Lemma Gq_nonneg (x : vec) : ole s0 (Gq x).
Proof.
  unfold Gq. apply (sumn_nonneg Srt Ord). intros i Hi.
  apply (mul_nonneg Srt Ord); [|apply (sq_nonneg Srt Ord)].
  apply (proj1 (ole_0_sub Srt Ord _ _)). apply HW, Hi.
Qed.

Lemma Dq_split (x : vec) : Dq x = Gq x + Wq x.
Proof.
  unfold AmgProofs11.Dq, Gq, Wq. rewrite <- (sumn_add Srt). apply sumn_ext. intros i _. ring.
Qed.

(* if the two non-negative parts vanish, so does x *)
Lemma vanish sg (x : vec) : sg * sg = s1 -> idd -> Gq x = s0 -> Tq sg x = s0 ->
  forall i, i < n -> vget x i = s0.
Proof.
  intros Hsg Hidd HG HT i Hi. induction (Hidd i Hi) as [i Hi' Hs|i j Hi' Hj Hne Ha Hanc IH].
  - assert (E : (mget A i i - ACs i) * (vget x i * vget x i) = s0).
    { apply (sumn_zero_each (fun i => (mget A i i - ACs i) * (vget x i * vget x i)) n); [|exact HG|exact Hi'].
      intros k Hk. apply (mul_nonneg Srt Ord); [|apply (sq_nonneg Srt Ord)].
      apply (proj1 (ole_0_sub Srt Ord _ _)). apply HW, Hk. }
    apply sq_zero. apply (mul_zero_pos _ _ (proj1 (olt_0_sub Srt Ord _ _) Hs) E).
  - specialize (IH Hj).
    pose (Tt := fun i0 j0 => acof i0 j0 * (vget x i0 * vget x i0 + vget x j0 * vget x j0) +
                 sg * (off i0 j0 * (vget x i0 * vget x j0) + off i0 j0 * (vget x i0 * vget x j0))).
    assert (Erow : sumn (fun j0 => Tt i j0) n = s0).
    { apply (sumn_zero_each (fun i0 => sumn (fun j0 => Tt i0 j0) n) n); [|exact HT|exact Hi'].
      intros k _. apply (sumn_nonneg Srt Ord). intros l _. apply Tq_term_nonneg, Hsg. }
    assert (Et : Tt i j = s0).
    { apply (sumn_zero_each (fun j0 => Tt i j0) n (fun l _ => Tq_term_nonneg sg x i l Hsg) Erow j Hj). }
    unfold Tt in Et.
    rewrite IH in Et. unfold acof in Et.
    replace (i =? j)%nat with false in Et by (symmetry; apply Nat.eqb_neq; exact Hne).
    assert (E2 : oabs (mget A i j) * (vget x i * vget x i) = s0) by (rewrite <- Et; ring).
    apply sq_zero. apply (mul_zero_pos (oabs (mget A i j))); [|exact E2].
    destruct (ole_cases Ord s0 _ (oabs_nonneg (mget A i j))) as [L|E]; [exact L|].
    exfalso. apply Ha. apply oabs_zero. symmetry. exact E.
Qed.

(* 2 <A x,x> = 2 Gq + Tq(+1),   2 (2 Dq - <A x,x>) = 2 Gq + Tq(-1) *)
Lemma q_double (x : vec) : qA n A x x + qA n A x x = (Gq x + Gq x) + Tq s1 x.
Proof. rewrite q_split2, Dq_split, Tq_id. ring. Qed.

Lemma gap_double (x : vec) :
  (Dq x + Dq x - qA n A x x) + (Dq x + Dq x - qA n A x x) = (Gq x + Gq x) + Tq (sopp s1) x.
Proof. rewrite q_split2, Dq_split, Tq_id. ring. Qed.

Lemma sum2_zero (a b : S) : ole s0 a -> ole s0 b -> (a + a) + b = s0 -> a = s0 /\ b = s0.
Proof.
  intros Ha Hb H.
  assert (Eb : b = s0).
  { apply (o_total S Ord); [exact Hb|]. change (ole b s0).
    replace b with (sopp (a + a)) by (transitivity (sopp (a + a) + (a + a + b)); [rewrite H; ring|ring]).
    apply (proj1 (ole_opp Srt Ord _)). replace (@s0 S) with (@s0 S + s0) by ring. apply (ole_add Srt Ord); assumption. }
  split; [|exact Eb]. rewrite Eb in H.
  apply (o_total S Ord); [exact Ha|]. change (ole a s0).
  apply (ole_double_cancel Srt Ord). replace (@s0 S + s0) with (a + a + s0) by (rewrite H; ring).
  replace (a + a + s0) with (a + a) by ring. apply (ole_refl Ord).
Qed.

(* positive definite *)
Theorem idd_pd (x : vec) : idd -> (exists i, i < n /\ vget x i <> s0) -> olt s0 (qA n A x x).
Proof.
  intros Hidd (i & Hi & Hne).
  destruct (ole_cases Ord s0 _ (wdd_psd x)) as [L|E]; [exact L|]. exfalso. apply Hne.
  assert (E2 : (Gq x + Gq x) + Tq s1 x = s0) by (rewrite <- q_double, <- E; ring).
  destruct (sum2_zero _ _ (Gq_nonneg x) (Tq_nonneg s1 x ltac:(ring)) E2) as [HG HT].
  apply (vanish s1 x ltac:(ring) Hidd HG HT i Hi).
Qed.

(* <A x, x> < 2 <D x, x> *)
Theorem idd_upper_strict (x : vec) : idd -> (exists i, i < n /\ vget x i <> s0) ->
  olt (qA n A x x) (Dq x + Dq x).
Proof.
  intros Hidd (i & Hi & Hne).
  destruct (ole_cases Ord _ _ (wdd_upper x)) as [L|E]; [exact L|]. exfalso. apply Hne.
  assert (E2 : (Gq x + Gq x) + Tq (sopp s1) x = s0) by (rewrite <- gap_double, <- E; ring).
  destruct (sum2_zero _ _ (Gq_nonneg x) (Tq_nonneg (sopp s1) x ltac:(ring)) E2) as [HG HT].
  apply (vanish (sopp s1) x ltac:(ring) Hidd HG HT i Hi).
Qed.

End Wdd.

(* the M-matrices of AmgProofs11 are weakly diagonally dominant in the sense above *)
Lemma mmat_wdd n (A : crs) : mmat n A -> wdd n A.
Proof.
  intros (SA & Hneg & Hpos & Hdom). split; [exact SA|]. split; [exact Hpos|].
  intros i Hi. replace (ACs n A i) with (Cs n A i); [apply Hdom, Hi|].
  unfold Cs, ACs. apply sumn_ext. intros j Hj. unfold cof, acof.
  destruct (Nat.eqb_spec i j) as [E|E]; [reflexivity|].
  symmetry. apply oabs_nonpos. apply Hneg; assumption.
Qed.

End Smooth2.
