(* DistProofsB.v -- C11-B (first part): scale and sort_rows of a distributed matrix. *)
From Coq Require Import Permutation Sorted.
From Amgcl Require Import Scalar Vec Crs Kernels MatOps MatOpsProofs Dist DistProofs.
Local Open Scope nat_scope.

Section ScaleSort.
Context {S : Scalar}.
Local Notation vec := (vec S).
Local Notation row := (row S).
Local Notation crs := (crs S).

Lemma chunks_map {X Y} (f : X -> Y) (parts : list nat) : forall l : list X,
  chunks parts (map f l) = map (map f) (chunks parts l).
Proof.
  induction parts as [|p ps IH]; intro l; simpl; [reflexivity|].
  rewrite firstn_map, skipn_map, IH. reflexivity.
Qed.

Definition scale_entry (s : S) (e : nat * S) : nat * S := (fst e, smul (snd e) s).

Lemma loc_row_scale b n s (r : row) : loc_row b n (map (scale_entry s) r) = map (scale_entry s) (loc_row b n r).
Proof.
  unfold loc_row. induction r as [|e r IH]; simpl; [reflexivity|].
  destruct (in_range b n (fst e)); simpl; [f_equal|]; exact IH.
Qed.

Lemma rem_row_scale b n s (r : row) : rem_row b n (map (scale_entry s) r) = map (scale_entry s) (rem_row b n r).
Proof.
  unfold rem_row. induction r as [|e r IH]; simpl; [reflexivity|].
  destruct (in_range b n (fst e)); simpl; [|f_equal]; exact IH.
Qed.

(* mpi::scale (rank-local, both parts) = the constructor applied to the serially scaled matrix,
   for every partition and every scalar type: storage order included *)
Theorem dist_scale_split (A : crs) (rparts cparts : list nat) (s : S) :
  dist_scale (split A rparts cparts) s = split (mscale A s) rparts cparts.
Proof.
  unfold dist_scale, split. simpl. f_equal. rewrite map_map. apply map_ext. intro r.
  unfold split_rank, split_rows, mscale. simpl.
  change (fun e : nat * S => (fst e, smul (snd e) s)) with (scale_entry s).
  rewrite chunks_map.
  assert (G : forall (L : list (list row)) k,
             nth k (map (map (map (scale_entry s))) L) [] = map (map (scale_entry s)) (nth k L [])).
  { induction L as [|a L IH]; intros [|k]; simpl; auto. }
  rewrite G, !map_map. f_equal; f_equal; apply map_ext; intro rw; symmetry;
    [apply loc_row_scale | apply rem_row_scale].
Qed.

(* mpi::sort_rows: on every rank every local and every remote row is sorted by column and is a
   permutation of the row before (so the operator is unchanged) *)
Theorem dist_sort_rows_spec (D : dmat S) :
  dm_cparts (dist_sort_rows D) = dm_cparts D /\
  length (dm_ranks (dist_sort_rows D)) = length (dm_ranks D) /\
  forall r, r < length (dm_ranks D) ->
    let M := nth r (dm_ranks D) dflt_rank in
    let M' := nth r (dm_ranks (dist_sort_rows D)) dflt_rank in
    ncols (rm_loc M') = ncols (rm_loc M) /\ ncols (rm_rem M') = ncols (rm_rem M) /\
    Forall2 (fun a b => Permutation a b /\ sorted_weak a = true) (rows (rm_loc M')) (rows (rm_loc M)) /\
    Forall2 (fun a b => Permutation a b /\ sorted_weak a = true) (rows (rm_rem M')) (rows (rm_rem M)).
Proof.
  unfold dist_sort_rows. simpl. split; [reflexivity|]. split; [apply map_length|].
  intros r Hr. cbv zeta.
  rewrite (nth_map_lt (fun M0 => mkRankMat (sort_rows (rm_loc M0)) (sort_rows (rm_rem M0))) (dm_ranks D) r dflt_rank dflt_rank) by exact Hr.
  simpl.
  assert (G : forall l : list row, Forall2 (fun a b => Permutation a b /\ sorted_weak a = true) (map sort_row l) l).
  { induction l as [|a l IH]; simpl; constructor; [split; [apply sort_row_perm | apply sort_row_sorted] | exact IH]. }
  repeat split; apply G.
Qed.

End ScaleSort.

(* ------------------------------------------------------------------ *)
(* C11-A3, packaged *)
Lemma renumbering_is_bijection (S : Scalar) (M : rank_mat S) :
  let rc := rem_cols M in
  (forall c, In c rc <-> exists rw e, In rw (rows (rm_rem M)) /\ In e rw /\ fst e = c) /\
  NoDup rc /\
  (forall c, In c rc -> index_of c rc < length rc /\ nth (index_of c rc) rc 0 = c) /\
  (forall i, i < length rc -> index_of (nth i rc 0) rc = i) /\
  (forall c c', In c rc -> In c' rc -> c < c' -> index_of c rc < index_of c' rc) /\
  wf (renumber rc (rm_rem M)) = true.
Proof.
  intro rc. pose proof (sort_unique_sorted (flat_map (fun r : row S => map fst r) (rows (rm_rem M)))) as Hs.
  repeat split.
  - apply rem_cols_spec.
  - apply rem_cols_spec.
  - apply sorted_NoDup. exact Hs.
  - apply index_of_In. assumption.
  - apply index_of_In. assumption.
  - intros i Hi. apply index_of_nth; [apply sorted_NoDup; exact Hs | exact Hi].
  - intros c c'. apply index_of_mono. exact Hs.
  - apply renumber_wf.
Qed.

Lemma patterns_mutually_consistent (cparts : list nat) (rcs : list (list nat)) :
  length rcs = length cparts ->
  (forall r, r < length cparts -> rc_ok cparts (nth r rcs [])) ->
  let pats := comm_pattern cparts rcs in
  forall q d, q < length cparts -> d < length cparts ->
    nth d (cp_send (nth q pats dflt_cpat)) []
      = map (fun c => c - pbeg cparts q) (nth q (cp_recv (nth d pats dflt_cpat)) []) /\
    (forall c, In c (nth q (cp_recv (nth d pats dflt_cpat)) []) ->
       In c (cp_rc (nth d pats dflt_cpat)) /\ pbeg cparts q <= c < pbeg cparts q + psize cparts q) /\
    concat (cp_recv (nth d pats dflt_cpat)) = cp_rc (nth d pats dflt_cpat).
Proof.
  intros Hl Hok pats q d Hq Hd. repeat split.
  - exact (send_recv_consistent cparts rcs Hl q d Hq Hd).
  - exact (proj1 (recv_cols_owned cparts rcs Hl Hok q d c Hq Hd H)).
  - exact (proj1 (proj2 (recv_cols_owned cparts rcs Hl Hok q d c Hq Hd H))).
  - exact (proj2 (proj2 (recv_cols_owned cparts rcs Hl Hok q d c Hq Hd H))).
  - exact (recv_concat cparts rcs Hl Hok d Hd).
Qed.
