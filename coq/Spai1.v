(* Spai1.v -- SPAI-1 smoother (amgcl/relaxation/spai1.hpp:62-130), relative to an exact
   least-squares solve.  Definitions only; proofs: Spai1Proofs.v.

   The C++ builds, for row i with stored columns I = (c_1..c_p) and J = the sorted union of
   the column sets of the rows c_k, the |J| x |I| matrix B with B[:,k] = row c_k of A
   (scattered into J), and asks amgcl::detail::QR (Householder, needs a true square root) for
   the least-squares solution m of  B m = e_i.  The pattern of row i of M is the pattern of
   row i of A, the values are m.  In exact arithmetic and for B of full column rank the
   minimiser is unique and is the solution of the normal equations
        (B^T B) m = B^T e_i,     (B^T B)_kl = <row c_k, row c_l>,   (B^T e_i)_k = a_{c_k, i}.
   The model solves these with a solver given as a parameter ([solve G f = Some m] is
   supposed to mean G m = f; instance used for execution: DenseSolve.dense_solve, proved
   correct in AmgProofs9.dense_solve_correct).  Rank-deficient B (solver returns None;
   the C++ QR silently skips zero pivots of R) is outside the modelled domain. *)
From Amgcl Require Import Scalar Vec Crs Kernels MatOps.
Local Open Scope S_scope.

Section Spai1.
Context {S : Scalar}.
Local Notation vec := (vec S).
Local Notation row := (row S).
Local Notation crs := (crs S).
Variable solve : crs -> vec -> option vec.

(* <r1, r2> with the dense semantics of r2 (no adjoint: real scalars; cf. finding C06-spai0-no-conj) *)
Definition rowdot (r1 r2 : row) : S :=
  fold_left (fun acc e => acc + snd e * rget r2 (fst e)) r1 s0.
Definition arow (A : crs) (c : nat) : row := nth c (rows A) [].

Definition spai1_gram (A : crs) (I : list nat) : crs :=
  mkCrs (length I)
    (map (fun ck => map (fun kl => (fst kl, rowdot (arow A ck) (arow A (snd kl)))) (indexed I)) I).
Definition spai1_rhs (A : crs) (I : list nat) (i : nat) : vec :=
  map (fun ck => rget (arow A ck) i) I.
Definition spai1_row (A : crs) (i : nat) (r : row) : option row :=
  let I := map fst r in
  match solve (spai1_gram A I) (spai1_rhs A I i) with
  | Some m => Some (combine I m)
  | None => None
  end.
Fixpoint all_some {X} (l : list (option X)) : option (list X) :=
  match l with
  | [] => Some []
  | Some x :: tl => match all_some tl with Some r => Some (x :: r) | None => None end
  | None :: _ => None
  end.
Definition spai1_setup (A : crs) : option crs :=
  match all_some (map (fun ir => spai1_row A (fst ir) (snd ir)) (indexed (rows A))) with
  | Some rs => Some (mkCrs (ncols A) rs)
  | None => None
  end.

(* apply_pre = apply_post: tmp = rhs - A x; x = 1 * M tmp + 1 * x ;  apply: x = 1 * M rhs + 0 * x *)
Definition spai1_sweep (M : crs) (A : crs) (rhs x tmp : vec) : vec * vec :=
  let tmp' := residual rhs A x tmp in
  (spmv s1 M tmp' s1 x, tmp').
Definition spai1_apply (M : crs) (rhs x : vec) : vec := spmv s1 M rhs s0 x.

End Spai1.
