(* AmgBlockCycleLin.v -- C02 for block value types, part A2: linearity WITHOUT commutativity.

   In a non-commutative ring of values (static_matrix<T,b,b>) "B (a f + b g) = a B f + b B g" cannot hold for
   arbitrary ring elements a, b multiplying from the left: B itself multiplies from the left.  What the code
   does satisfy is RIGHT-linearity: every product in amg.hpp and in the smoothers has the vector entry as its
   RIGHT operand (matrix entry * x[c], inverse(D) * X, alpha * r[i], damping * M[i] * t[i]), so
       cycle (f*a + g*b, x*a + y*b) = cycle (f, x) * a + cycle (g, y) * b
   follows from associativity and the two distributive laws alone ([vrlin x a y b] = entrywise x_i * a + y_i * b;
   tactic [ncr], no commutation lemma anywhere).  The theorems are stated for coefficients a, b in a class
   [Coef] that is only constrained by what the COARSE SOLVE needs: the five smoothers and the transfer steps are
   right-linear over the whole ring, the block coarse solve (a specification on column 0 of the entries) over the
   embedded base scalars c*I.  For those, which are central, right- and left-linearity coincide:
   [block_apply_linear] is "B (alpha f + beta g) = alpha B f + beta B g for base scalars alpha, beta" in the
   code's own left-multiplication form [vlin (alpha I) f (beta I) g].
   Port of AmgProofs4.v (same lock-step lemma AmgProofs2.cycle_rel with three runs). *)
From Amgcl Require Import Scalar Vec Crs Kernels KernelsProofs MatOps MatOpsProofs Relax DenseSolve
  Amg AmgExec AmgProofs AmgProofs2 AmgProofs3 AmgProofs4 NcRing NcKernels Ilu IluProofs Cheby
  BlockRelaxProofsIlu BlockRelaxProofsCheby AmgBlockCycle AmgBlockCycleProofs
  AmgProofs5 DirectUtil Inverse StaticMat BlockInst BlockKernels NcRingBlock NcKernelsProofs.
Local Open Scope S_scope.

Section RLin.
Context {S : Scalar}.
Local Notation vec := (vec S).
Local Notation crs := (crs S).
Local Notation level := (@level S).
Local Notation scratch := (@scratch S).
Local Notation sweep := (@sweep S).
Local Notation ldesc := (@ldesc S).
Hypothesis Hnc : ncring_theory S.
Hypothesis Seqb : seqb_spec S.
Local Instance ncrl : NcRingInst S := ncring_inst Hnc.

(* entrywise x_i * a + y_i * b *)
Definition vrlin (x : vec) (a : S) (y : vec) (b : S) : vec :=
  map (fun p => fst p * a + snd p * b) (combine x y).

Lemma vrlin_length (x : vec) a (y : vec) b n : length x = n -> length y = n -> length (vrlin x a y b) = n.
Proof. intros Hx Hy. unfold vrlin. rewrite map_length, combine_length, Hx, Hy. apply Nat.min_id. Qed.

Lemma vrlin_get (x : vec) a (y : vec) b i : length x = length y ->
  vget (vrlin x a y b) i = vget x i * a + vget y i * b.
Proof.
  unfold vget, vrlin. revert y i; induction x as [|c x IH]; intros [|d y] i H; simpl in *; try congruence.
  - destruct i; ncr.
  - destruct i as [|i]; [reflexivity|]. apply IH. congruence.
Qed.

Lemma vrlin_intro a b (v1 v2 v3 : vec) n : length v1 = n -> length v2 = n -> length v3 = n ->
  (forall i, i < n -> vget v3 i = vget v1 i * a + vget v2 i * b) -> v3 = vrlin v1 a v2 b.
Proof.
  intros L1 L2 L3 H. apply vec_ext.
  - rewrite (vrlin_length v1 a v2 b n L1 L2). exact L3.
  - intros i Hi. rewrite vrlin_get by congruence. apply H. congruence.
Qed.

Lemma Ax_rlin (A : crs) (x : vec) a (y : vec) b i : length x = length y ->
  Ax A (vrlin x a y b) i = Ax A x i * a + Ax A y i * b.
Proof.
  intro HL. unfold Ax.
  rewrite (sumn_ext _ (fun j => (mget A i j * vget x j) * a + (mget A i j * vget y j) * b)).
  - rewrite (ncsumn_add Hnc), !(ncsumn_scal_r Hnc). reflexivity.
  - intros j _. rewrite vrlin_get by exact HL. ncr.
Qed.

(* --- predicates: as AmgProofs4.sweep_lin / solve_lin / hier_lin, coefficients on the right, in a class --- *)
Variable Coef : S -> Prop.

Definition sweep_rlin (n : nat) (sw : sweep) : Prop :=
  forall a b f g x y t1 t2 t3, Coef a -> Coef b ->
    length f = n -> length g = n -> length x = n -> length y = n ->
    length t1 = n -> length t2 = n -> length t3 = n ->
    fst (sw (vrlin f a g b) (vrlin x a y b) t3) = vrlin (fst (sw f x t1)) a (fst (sw g y t2)) b.

Definition solve_rlin (n : nat) (sv : vec -> vec -> vec) : Prop :=
  forall a b f g x y z, Coef a -> Coef b ->
    length f = n -> length g = n -> length x = n -> length y = n -> length z = n ->
    sv (vrlin f a g b) z = vrlin (sv f x) a (sv g y) b.

Fixpoint hier_rlin (lvls : list level) : Prop :=
  match lvls with
  | [] => True
  | l :: rest =>
    let n := nrows (lA l) in
    sweep_ok n (lpre l) /\ sweep_ok n (lpost l) /\ sweep_rlin n (lpre l) /\ sweep_rlin n (lpost l) /\
    match rest with
    | [] => forall sv, Amg.lsolve l = Some sv -> solve_ok n sv /\ solve_rlin n sv
    | nxt :: _ => wf (lA l) = true /\ wf (lR l) = true /\ wf (lP l) = true /\
                  nrows (lR l) = nrows (lA nxt) /\ nrows (lP l) = n
    end /\ hier_rlin rest
  end.

Lemma hier_rlin_wf lvls : hier_rlin lvls -> hier_wf lvls.
Proof.
  induction lvls as [|l rest IH]; intro H; [exact I|].
  cbn [hier_rlin] in H. destruct H as (H1 & H2 & _ & _ & Hm & Hr).
  cbn [hier_wf]. split; [exact H1|]. split; [exact H2|]. split; [|apply IH, Hr].
  destruct rest as [|nxt rest']; [intros sv E; apply (Hm sv E)|apply Hm].
Qed.

Section WithCoeffs.
Variables a b : S.
Hypothesis Ca : Coef a.
Hypothesis Cb : Coef b.

Definition RelR (n : nat) (v : run3 -> vec) : Prop :=
  Len run3 n v /\ v r3 = vrlin (v r1) a (v r2) b.

Lemma RelR_ext n (v w : run3 -> vec) : (forall i, v i = w i) -> RelR n v -> RelR n w.
Proof.
  intros E [H1 H2]. split.
  - intro i. rewrite <- E. apply H1.
  - rewrite <- !E. exact H2.
Qed.

Lemma sweep_rlin_rel n sw : sweep_ok n sw -> sweep_rlin n sw -> sweep_rel run3 RelR n sw.
Proof.
  intros Hok Hlin rhs x t [Lr Er] [Lx Ex] Lt. split; [split|].
  - intro i. apply Hok; [apply Lr|apply Lx|apply Lt].
  - rewrite Er, Ex. apply Hlin; auto.
  - intro i. apply Hok; [apply Lr|apply Lx|apply Lt].
Qed.

Lemma clear_relR n : clear_rel run3 RelR n.
Proof.
  intros u Lu. split.
  - intro i. rewrite vclear_length. apply Lu.
  - apply (vrlin_intro a b _ _ _ n); rewrite ?vclear_length; auto.
    intros i _. rewrite !vclear_spec. ncr.
Qed.

Lemma hier_rlin_rel lvls : hier_rlin lvls -> hier_rel run3 RelR lvls.
Proof.
  induction lvls as [|l rest IH]; intro H; [exact I|].
  cbn [hier_rlin] in H. destruct H as (Hpre & Hpost & Lpre & Lpost & Hmid & Hrest).
  cbn [hier_rel]. split; [intros v Hv; apply Hv|]. split; [apply clear_relR|].
  split; [apply sweep_rlin_rel; assumption|]. split; [apply sweep_rlin_rel; assumption|].
  split; [|apply IH, Hrest].
  set (n := nrows (lA l)) in *.
  destruct rest as [|nxt rest'].
  - intros sv Esv rhs x [Lr Er] [Lx Ex]. destruct (Hmid sv Esv) as [Hok Hlin]. split.
    + intro i. apply Hok; [apply Lr|apply Lx].
    + rewrite Er. apply Hlin; auto.
  - destruct Hmid as (WA & WR & WP & NR & NP). set (n' := nrows (lA nxt)) in *.
    split; [|split].
    + (* residual *)
      intros rhs x t [Lr Er] [Lx Ex] Lt.
      assert (LL : forall i, length (residual (rhs i) (lA l) (x i) (t i)) = n)
        by (intro i; apply residual_length; [apply Lr|apply Lt]).
      split; [exact LL|].
      apply (vrlin_intro a b _ _ _ n); auto.
      intros i Hi. rewrite !(nc_residual_spec Hnc) by (auto; try apply Lr; try apply Lt).
      rewrite Er, Ex, vrlin_get, Ax_rlin by (rewrite ?Lr, ?Lx; reflexivity). ncr.
    + (* restriction *)
      intros t y [Lt Et] Ly.
      assert (LL : forall i, length (spmv s1 (lR l) (t i) s0 (y i)) = n')
        by (intro i; rewrite spmv_length_any; apply Ly).
      split; [exact LL|].
      apply (vrlin_intro a b _ _ _ n'); auto.
      intros i Hi. rewrite !(nc_spmv_spec Hnc Seqb) by (auto; rewrite ?Ly; congruence).
      rewrite Et, Ax_rlin by (rewrite !Lt; reflexivity). ncr.
    + (* prolongation *)
      intros u x [Lu Eu] [Lx Ex].
      assert (LL : forall i, length (spmv s1 (lP l) (u i) s1 (x i)) = n)
        by (intro i; rewrite spmv_length_any; apply Lx).
      split; [exact LL|].
      apply (vrlin_intro a b _ _ _ n); auto.
      intros i Hi. rewrite !(nc_spmv_spec Hnc Seqb) by (auto; rewrite ?Lx; congruence).
      rewrite Eu, Ex, vrlin_get, Ax_rlin by (rewrite ?Lu, ?Lx; reflexivity). ncr.
Qed.

Lemma copy_relR n : copy_rel run3 RelR n.
Proof.
  intros rhs x [Lr Er] Lx.
  assert (E : forall i, vcopy (rhs i) (x i) = rhs i)
    by (intro i; apply vcopy_spec; rewrite Lr, Lx; reflexivity).
  apply (RelR_ext n rhs); [intro i; symmetry; apply E|]. split; assumption.
Qed.

End WithCoeffs.

Section WithParams.
Variables npre npost ncycle : nat.
Local Notation cycle := (cycle npre npost ncycle).
Local Notation apply := (apply npre npost ncycle).

Theorem cycle_rlinear lvls : hier_rlin lvls -> forall a b scr1 scr2 scr3 f g x y, Coef a -> Coef b ->
  scratch_wf lvls scr1 -> scratch_wf lvls scr2 -> scratch_wf lvls scr3 ->
  length f = top_n lvls -> length g = top_n lvls -> length x = top_n lvls -> length y = top_n lvls ->
  fst (cycle lvls scr3 (vrlin f a g b) (vrlin x a y b)) =
  vrlin (fst (cycle lvls scr1 f x)) a (fst (cycle lvls scr2 g y)) b.
Proof.
  intros Hh a b scr1 scr2 scr3 f g x y Ca Cb H1 H2 H3 Lf Lg Lx Ly.
  destruct (cycle_rel run3 (RelR a b) (RelR_ext a b) npre npost ncycle lvls (hier_rlin_rel a b Ca Cb lvls Hh)
              (pick3 scr1 scr2 scr3) (pick3 f g (vrlin f a g b)) (pick3 x y (vrlin x a y b)))
    as [[HL HE] HS].
  - intros [| |]; assumption.
  - split; [|reflexivity]. intros [| |]; simpl; auto. apply vrlin_length; assumption.
  - split; [|reflexivity]. intros [| |]; simpl; auto. apply vrlin_length; assumption.
  - exact HE.
Qed.

Theorem apply_rlinear pre_cycles lvls : hier_rlin lvls -> lvls <> [] ->
  forall a b scr1 scr2 scr3 f g x1 x2 x3, Coef a -> Coef b ->
  scratch_wf lvls scr1 -> scratch_wf lvls scr2 -> scratch_wf lvls scr3 ->
  length f = top_n lvls -> length g = top_n lvls ->
  length x1 = top_n lvls -> length x2 = top_n lvls -> length x3 = top_n lvls ->
  fst (apply pre_cycles lvls scr3 (vrlin f a g b) x3) =
  vrlin (fst (apply pre_cycles lvls scr1 f x1)) a (fst (apply pre_cycles lvls scr2 g x2)) b.
Proof.
  intros Hh Hne a b scr1 scr2 scr3 f g x1 x2 x3 Ca Cb H1 H2 H3 Lf Lg L1 L2 L3.
  destruct (apply_rel run3 (RelR a b) (RelR_ext a b) npre npost ncycle pre_cycles lvls
              (hier_rlin_rel a b Ca Cb lvls Hh) Hne (copy_relR a b _)
              (pick3 scr1 scr2 scr3) (pick3 f g (vrlin f a g b)) (pick3 x1 x2 x3))
    as [[HL HE] HS].
  - intros [| |]; assumption.
  - split; [|reflexivity]. intros [| |]; simpl; auto. apply vrlin_length; assumption.
  - intros [| |]; assumption.
  - exact HE.
Qed.

End WithParams.

(* ------------------------------------------------------------------ *)
(* the five smoothers are right-linear in (rhs, x), over the whole ring *)
Lemma diag_sweep_rlin (w : S) (d : vec) (A : crs) : wf A = true -> length d = nrows A ->
  sweep_rlin (nrows A) (fun rhs x t => let t' := residual rhs A x t in (vmul w d t' s1 x, t')).
Proof.
  intros WA Ld a b f g x y t1 t2 t3 _ _ Lf Lg Lx Ly L1 L2 L3. cbn [fst].
  set (n := nrows A) in *.
  assert (Lfg : length (vrlin f a g b) = n) by (apply vrlin_length; assumption).
  assert (Lxy : length (vrlin x a y b) = n) by (apply vrlin_length; assumption).
  assert (LR : forall r u t, length r = n -> length t = n -> length (residual r A u t) = n)
    by (intros; apply residual_length; assumption).
  apply (vrlin_intro a b _ _ _ n).
  - rewrite vmul_length; rewrite ?LR; congruence.
  - rewrite vmul_length; rewrite ?LR; congruence.
  - rewrite vmul_length; rewrite ?LR; congruence.
  - intros i Hi.
    rewrite !(nc_vmul_spec Hnc Seqb) by (rewrite ?LR; congruence).
    rewrite !(nc_residual_spec Hnc) by (auto; congruence).
    rewrite !vrlin_get, Ax_rlin by congruence. ncr.
Qed.

Lemma jacobi_sweep_rlin w (A : crs) (junk : vec) : wf A = true ->
  sweep_rlin (nrows A) (fun rhs x t => jacobi_sweep w (jacobi_setup A junk) A rhs x t).
Proof. intro WA. apply (diag_sweep_rlin w (jacobi_setup A junk) A WA). apply diagonal_length. Qed.

Lemma spai0_sweep_rlin (A : crs) : wf A = true ->
  sweep_rlin (nrows A) (fun rhs x t => spai0_sweep (spai0_setup A) A rhs x t).
Proof.
  intro WA. apply (diag_sweep_rlin s1 (spai0_setup A) A WA).
  unfold spai0_setup. rewrite map_length. apply indexed_len.
Qed.

(* --- Gauss-Seidel (serial sweep): x[i] = inverse(D) * (rhs[i] - sum_{c <> i} v * x[c]) --- *)
Lemma nc_gs_fold i (r : row S) (x : vec) : forall D0 X0,
  fold_left (fun (dx : S * S) e =>
        if Nat.eqb (fst e) i then (snd e, snd dx) else (fst dx, snd dx - snd e * vget x (fst e)))
        r (D0, X0) = (gsD i r D0, X0 - gsoff i r x).
Proof.
  induction r as [|e r IH]; intros D0 X0; simpl.
  - f_equal. ncr.
  - destruct (Nat.eqb (fst e) i); cbn [fst snd]; rewrite IH; unfold gsD; simpl; f_equal; ncr.
Qed.

Lemma nc_gs_row_eq i (r : row S) (rhs x : vec) :
  gs_row i r rhs x = set_nth x i (sinv (gsD i r s1) * (vget rhs i - gsoff i r x)).
Proof. unfold gs_row. rewrite nc_gs_fold. reflexivity. Qed.

Lemma gsoff_rlin i (r : row S) (x : vec) a (y : vec) b : length x = length y ->
  gsoff i r (vrlin x a y b) = gsoff i r x * a + gsoff i r y * b.
Proof.
  intro HL. induction r as [|e r IH]; simpl; [ncr|].
  rewrite IH. destruct (Nat.eqb (fst e) i); [ncr|]. rewrite vrlin_get by exact HL. ncr.
Qed.

Lemma set_nth_vrlin (x : vec) a (y : vec) b i (u v : S) : length x = length y ->
  set_nth (vrlin x a y b) i (u * a + v * b) = vrlin (set_nth x i u) a (set_nth y i v) b.
Proof.
  unfold vrlin. revert y i; induction x as [|c x IH]; intros [|d y] i H; simpl in *; try congruence.
  destruct i as [|i].
  - reflexivity.
  - cbn [set_nth combine map]. f_equal. apply IH. congruence.
Qed.

Lemma gs_row_rlin i (r : row S) a b (f g x y : vec) : length f = length g -> length x = length y ->
  gs_row i r (vrlin f a g b) (vrlin x a y b) = vrlin (gs_row i r f x) a (gs_row i r g y) b.
Proof.
  intros Hfg Hxy. rewrite !nc_gs_row_eq, <- set_nth_vrlin by exact Hxy. f_equal.
  rewrite gsoff_rlin, vrlin_get by assumption. ncr.
Qed.

Lemma gs_sweep_rlin_eq (A : crs) fwd a b (f g : vec) : length f = length g -> forall x y : vec,
  length x = length y ->
  gs_sweep A (vrlin f a g b) (vrlin x a y b) fwd = vrlin (gs_sweep A f x fwd) a (gs_sweep A g y fwd) b.
Proof.
  intros Hfg. unfold gs_sweep.
  generalize (if fwd then seq 0 (nrows A) else rev (seq 0 (nrows A))). intro order.
  induction order as [|i order IH]; intros x y Hxy; simpl; [reflexivity|].
  rewrite gs_row_rlin by assumption. apply IH. rewrite !gs_row_length. exact Hxy.
Qed.

Lemma gs_sweep_rlin (A : crs) fwd n : sweep_rlin n (fun rhs x t => (gs_sweep A rhs x fwd, t)).
Proof.
  intros a b f g x y t1 t2 t3 _ _ Lf Lg Lx Ly _ _ _. cbn [fst]. apply gs_sweep_rlin_eq; congruence.
Qed.

(* --- ILU: tmp = rhs - A x; solve(tmp); x = damping * tmp + x --- *)
Lemma ilu_sweep_rlin (w : S) (L U : crs) (D : vec) (A : crs) : wf A = true ->
  sweep_rlin (nrows A) (fun rhs x t => ilu_sweep w L U D A rhs x t).
Proof.
  intros WA a b f g x y t1 t2 t3 _ _ Lf Lg Lx Ly L1 L2 L3. unfold ilu_sweep. cbn [fst].
  set (n := nrows A) in *.
  assert (Lfg : length (vrlin f a g b) = n) by (apply vrlin_length; assumption).
  assert (Lxy : length (vrlin x a y b) = n) by (apply vrlin_length; assumption).
  assert (LR : forall r u t, length r = n -> length t = n -> length (residual r A u t) = n)
    by (intros; apply residual_length; assumption).
  assert (LS : forall r u t, length r = n -> length t = n -> length (ilu_solve L U D (residual r A u t)) = n)
    by (intros; rewrite ilu_solve_length; apply LR; assumption).
  apply (vrlin_intro a b _ _ _ n).
  - rewrite axpby_length; rewrite ?LS; congruence.
  - rewrite axpby_length; rewrite ?LS; congruence.
  - rewrite axpby_length; rewrite ?LS; congruence.
  - intros i Hi.
    rewrite !(nc_axpby_spec Hnc Seqb) by (rewrite ?LS; congruence).
    rewrite (nc_ilu_solve_right_linear Hnc a b L U D (residual (vrlin f a g b) A (vrlin x a y b) t3)
               (residual f A x t1) (residual g A y t2)).
    + rewrite vrlin_get by congruence. ncr.
    + rewrite !LR; congruence.
    + rewrite !LR; congruence.
    + intros j Hj. rewrite LR in Hj by assumption.
      rewrite !(nc_residual_spec Hnc) by (auto; congruence).
      rewrite vrlin_get, Ax_rlin by congruence. ncr.
Qed.

(* --- Chebyshev: alpha_k, beta_k and the (optional) inverted diagonal multiply from the LEFT --- *)
Lemma nch_Ax_rlinear (A : crs) (a1 a2 : S) (x x1 x2 : vec) n i :
  length x = n -> length x1 = n -> length x2 = n ->
  (forall j, j < n -> vget x j = vget x1 j * a1 + vget x2 j * a2) ->
  Ax A x i = Ax A x1 i * a1 + Ax A x2 i * a2.
Proof.
  intros Hx H1 H2 H. unfold Ax.
  rewrite <- !(ncsumn_scal_r Hnc), <- (ncsumn_add Hnc).
  apply sumn_ext. intros j _.
  destruct (lt_dec j n) as [Hj|Hj].
  - rewrite (H j Hj). ncr.
  - rewrite !nch_vget_over by lia. ncr.
Qed.

Lemma nch_prec_rlinear M i (a1 a2 v1 v2 : S) :
  nch_prec M i (v1 * a1 + v2 * a2) = nch_prec M i v1 * a1 + nch_prec M i v2 * a2.
Proof. unfold nch_prec. destruct M; ncr. Qed.

Lemma nch_rlin_gen (two quarter c d : S) M (A : crs) (a1 a2 : S) (b b1 b2 : vec) :
  wf A = true ->
  length b = nrows A -> length b1 = nrows A -> length b2 = nrows A ->
  (forall m, M = Some m -> length m = nrows A) ->
  (forall i, i < nrows A -> vget b i = vget b1 i * a1 + vget b2 i * a2) ->
  forall len s (x p r x1 p1 r1 x2 p2 r2 : vec) alpha,
    length x = nrows A -> length p = nrows A -> length r = nrows A ->
    length x1 = nrows A -> length p1 = nrows A -> length r1 = nrows A ->
    length x2 = nrows A -> length p2 = nrows A -> length r2 = nrows A ->
    (forall i, i < nrows A -> vget x i = vget x1 i * a1 + vget x2 i * a2) ->
    (s = 0%nat \/ forall i, i < nrows A -> vget p i = vget p1 i * a1 + vget p2 i * a2) ->
    forall i, i < nrows A ->
      vget (fst (fst (fst (fold_left (cheby_step two quarter c d M A b) (seq s len)
                                     (x, p, r, alpha))))) i
      = vget (fst (fst (fst (fold_left (cheby_step two quarter c d M A b1) (seq s len)
                                       (x1, p1, r1, alpha))))) i * a1
      + vget (fst (fst (fst (fold_left (cheby_step two quarter c d M A b2) (seq s len)
                                       (x2, p2, r2, alpha))))) i * a2.
Proof.
  intros Hwf Hb Hb1 Hb2 HM Hbl.
  induction len as [|len IH];
    intros s x p r x1 p1 r1 x2 p2 r2 alpha Hx Hp Hr Hx1 Hp1 Hr1 Hx2 Hp2 Hr2 Hxl Hpl i Hi.
  - simpl. apply Hxl; exact Hi.
  - cbn [seq fold_left].
    destruct (nch_step_spec Hnc Seqb two quarter c d M A b x p r alpha s Hwf Hb Hx Hp Hr HM)
      as (x' & p' & r' & E & Lx' & Lp' & Lr' & Gp' & Gx').
    destruct (nch_step_spec Hnc Seqb two quarter c d M A b1 x1 p1 r1 alpha s Hwf Hb1 Hx1 Hp1 Hr1 HM)
      as (x1' & p1' & r1' & E1 & Lx1' & Lp1' & Lr1' & Gp1' & Gx1').
    destruct (nch_step_spec Hnc Seqb two quarter c d M A b2 x2 p2 r2 alpha s Hwf Hb2 Hx2 Hp2 Hr2 HM)
      as (x2' & p2' & r2' & E2 & Lx2' & Lp2' & Lr2' & Gp2' & Gx2').
    rewrite E, E1, E2.
    assert (Pl : forall j, j < nrows A -> vget p' j = vget p1' j * a1 + vget p2' j * a2).
    { intros j Hj. rewrite (Gp' j Hj), (Gp1' j Hj), (Gp2' j Hj).
      rewrite (nch_Ax_rlinear A a1 a2 x x1 x2 (nrows A) j Hx Hx1 Hx2 Hxl), (Hbl j Hj).
      replace (vget b1 j * a1 + vget b2 j * a2 - (Ax A x1 j * a1 + Ax A x2 j * a2))
        with ((vget b1 j - Ax A x1 j) * a1 + (vget b2 j - Ax A x2 j) * a2) by ncr.
      rewrite nch_prec_rlinear.
      destruct Hpl as [->|Hpl].
      - rewrite nch_coef0. ncr.
      - rewrite (Hpl j Hj). ncr. }
    apply IH; try assumption.
    + intros j Hj. rewrite (Gx' j Hj), (Gx1' j Hj), (Gx2' j Hj), (Pl j Hj), (Hxl j Hj). ncr.
    + right. exact Pl.
Qed.

Lemma cheby_sweep_rlin (cdM : S * S * option vec) degree (A : crs) (p r : vec) : wf A = true ->
  (forall m, snd cdM = Some m -> length m = nrows A) -> length p = nrows A -> length r = nrows A ->
  sweep_rlin (nrows A) (fun rhs x (t : vec) => (cheby_sweep cdM degree A rhs x p r, t)).
Proof.
  destruct cdM as [[c d] M]. cbn [snd].
  intros WA HM Lp Lr a b f g x y t1 t2 t3 _ _ Lf Lg Lx Ly _ _ _. cbn [fst].
  set (n := nrows A) in *.
  assert (Lfg : length (vrlin f a g b) = n) by (apply vrlin_length; assumption).
  assert (Lxy : length (vrlin x a y b) = n) by (apply vrlin_length; assumption).
  assert (LC : forall f0 x0 : vec, length f0 = n -> length x0 = n -> length (cheby_sweep (c, d, M) degree A f0 x0 p r) = n)
    by (intros; apply cheby_sweep_length; assumption).
  apply (vrlin_intro a b _ _ _ n); try (apply LC; assumption).
  intros i Hi. rewrite !nch_sweep_solve. unfold cheby_solve.
  apply (nch_rlin_gen c_two c_quarter c d M A a b (vrlin f a g b) f g WA Lfg Lf Lg HM); auto.
  - intros j Hj. apply vrlin_get. congruence.
  - intros j Hj. apply vrlin_get. congruence.
Qed.

(* every smoother of mk_relax5 *)
Theorem mk_relax5_rlin (k : @relax5 S) (A : crs) : wf A = true ->
  sweep_rlin (nrows A) (fst (mk_relax5 k A)) /\ sweep_rlin (nrows A) (snd (mk_relax5 k A)).
Proof.
  intro WA. destruct k as [k0|w|degree lower higher scale]; cbn [mk_relax5].
  - destruct k0 as [w| |]; cbn [mk_relax_std fst snd].
    + split; apply jacobi_sweep_rlin; exact WA.
    + split; apply spai0_sweep_rlin; exact WA.
    + split; apply gs_sweep_rlin.
  - unfold ilu0_sweeps. destruct (ilu0 A (vzero (nrows A))) as [[[L U] D]|e]; cbn [fst snd].
    + split; apply ilu_sweep_rlin; exact WA.
    + split; intros a b f g x y t1 t2 t3 _ _ _ _ _ _ _ _ _; reflexivity.
  - unfold cheby_sweeps. cbn [fst snd].
    assert (H : sweep_rlin (nrows A) (fun rhs x (t : vec) =>
              (cheby_sweep (cheby_setup scale A (gershgorin scale A) lower higher (vzero (nrows A))) degree A rhs x
                           (vzero (nrows A)) (vzero (nrows A)), t))).
    { apply cheby_sweep_rlin; try exact WA; try apply repeat_length.
      intros m Hm. apply (cheby_setup_M_ok _ _ _ _ _ _ _ Hm). }
    split; exact H.
Qed.

(* --- hierarchies produced by build + instantiate (port of AmgProofs4.chain_hier_lin) --- *)
Section Inst.
Variable mk_relax : crs -> sweep * sweep.
Variable mk_solve : crs -> vec -> vec -> vec.
Hypothesis relax_ok : forall A, sweep_ok (nrows A) (fst (mk_relax A)) /\ sweep_ok (nrows A) (snd (mk_relax A)).
Hypothesis relax_rlin : forall A, wf A = true ->
  sweep_rlin (nrows A) (fst (mk_relax A)) /\ sweep_rlin (nrows A) (snd (mk_relax A)).
Hypothesis solve_ok_all : forall A, solve_ok (nrows A) (mk_solve A).
Local Notation inst := (instantiate mk_relax mk_solve).

Lemma id_sweep_rlin n : sweep_rlin n (fun (_ x t : vec) => (x, t)).
Proof. intros a b f g x y t1 t2 t3 _ _ _ _ _ _ _ _ _. reflexivity. Qed.

Lemma inst_sweeps_rlin (l : ldesc) : wf (ld_A l) = true ->
  sweep_rlin (nrows (ld_A l)) (lpre (inst l)) /\ sweep_rlin (nrows (ld_A l)) (lpost (inst l)).
Proof.
  destruct l as [A P R|A|A]; cbn [instantiate lpre lpost ld_A]; try apply relax_rlin.
  intros _. split; apply id_sweep_rlin.
Qed.

Theorem chain_hier_rlin cop (ls : list ldesc) : coarse_shape cop -> chain cop ls -> descs_wf ls ->
  (forall A, In (LSolve A) ls -> solve_rlin (nrows A) (mk_solve A)) ->
  hier_rlin (map inst ls).
Proof.
  intro Hshape. induction ls as [|l tl IH]; intros Hc Hw Hsl; [destruct Hc|].
  destruct (descs_wf_A l tl Hw) as [WA Wtl].
  cbn [map hier_rlin]. rewrite (inst_lA mk_relax mk_solve).
  split; [apply (inst_sweeps_ok mk_relax mk_solve relax_ok)|].
  split; [apply (inst_sweeps_ok mk_relax mk_solve relax_ok)|].
  split; [apply inst_sweeps_rlin, WA|]. split; [apply inst_sweeps_rlin, WA|].
  destruct tl as [|next tl'].
  - cbn [map]. split; [|exact I].
    intros sv Esv. destruct l as [A P R|A|A]; cbn in Esv; try discriminate.
    inversion Esv; subst. split; [apply solve_ok_all|apply Hsl; left; reflexivity].
  - destruct l as [A P R| |]; simpl in Hc; try contradiction. destruct Hc as [Hn Hc].
    cbn [map]. split; [|apply IH; try assumption; intros A0 HA0; apply Hsl; right; exact HA0].
    simpl in Hw. destruct Hw as (W1 & W2 & W3 & W4 & _).
    cbn [instantiate lA lR lP]. repeat split; try assumption.
    rewrite (inst_lA mk_relax mk_solve), Hn, sort_rows_nrows, Hshape. reflexivity.
Qed.

End Inst.

End RLin.

(* ================================================================== *)
(* block values: coefficients = embedded base scalars c*I *)
Section BlockLin.
Variable S0 : Scalar.
Variable b : nat.
Hypothesis Srt : Sring S0.
Hypothesis Seqb0 : seqb_spec S0.
Hypothesis Hb : 0 < b.
Add Ring SRingBL : Srt.
Local Notation B := (BlockS S0 b).
Local Notation blk := (blk S0 b).
Let HncB : ncring_theory B := BlockS_ncring S0 b Srt.
Let SeqbB : seqb_spec B := BlockS_eqb S0 b Seqb0.

Definition embedded (a : B) : Prop := exists c : S0, a = blk_embed S0 b c.

Lemma seqb0_refl (x : S0) : seqb x x = true.
Proof. apply Seqb0. reflexivity. Qed.

(* cells of x * (alpha I) + y * (beta I) *)
Lemma blk_get_rcomb (x y : blk) (al be : S0) i j : i < b -> j < b ->
  blk_get (sadd (s := B) (smul (s := B) x (blk_embed S0 b al)) (smul (s := B) y (blk_embed S0 b be))) i j =
  blk_get x i j * al + blk_get y i j * be.
Proof.
  intros Hi Hj. cbn [sadd smul BlockS].
  rewrite (blk_get_add S0 b) by assumption.
  rewrite !(blk_embed_mul_r S0 b Srt) by assumption. reflexivity.
Qed.

Lemma vlin_app (al be : S0) (u1 u2 v1 v2 : vec S0) : length u1 = length v1 ->
  vlin al (u1 ++ u2) be (v1 ++ v2) = vlin al u1 be v1 ++ vlin al u2 be v2.
Proof.
  unfold vlin. revert v1; induction u1 as [|c u1 IH]; intros [|d v1] H; simpl in *; try congruence.
  f_equal. apply IH. congruence.
Qed.

Lemma blk_col0_rcomb (x y : blk) (al be : S0) :
  blk_col0 (sadd (s := B) (smul (s := B) x (blk_embed S0 b al)) (smul (s := B) y (blk_embed S0 b be))) =
  vlin al (blk_col0 x) be (blk_col0 y).
Proof.
  apply (vlin_intro Srt al be _ _ _ b); try apply (blk_col0_length S0 b).
  intros i Hi. rewrite !(blk_col0_get S0 b) by exact Hi. rewrite blk_get_rcomb by assumption. ring.
Qed.

Lemma flat_of_bvec_rcomb (f g : vec B) (al be : S0) : length f = length g ->
  flat_of_bvec S0 b (vrlin f (blk_embed S0 b al) g (blk_embed S0 b be)) =
  vlin al (flat_of_bvec S0 b f) be (flat_of_bvec S0 b g).
Proof.
  unfold flat_of_bvec, vrlin. revert g; induction f as [|x f IH]; intros [|y g] H; simpl in *; try congruence.
  - reflexivity.
  - rewrite vlin_app by (rewrite !(blk_col0_length S0 b); reflexivity).
    f_equal; [apply blk_col0_rcomb|]. apply IH. congruence.
Qed.

Lemma flat_of_bvec_length (f : vec B) : length (flat_of_bvec S0 b f) = (length f * b)%nat.
Proof. unfold flat_of_bvec. apply flat_map_const_length. intro x. apply (blk_col0_length S0 b). Qed.

Lemma bvec_of_flat_cell (x : vec S0) I i j : I < length x / b -> i < b -> j < b ->
  blk_get (vget (S := B) (bvec_of_flat S0 b x) I) i j = if Nat.eqb j 0 then vget x (I * b + i) else s0.
Proof.
  intros HI Hi Hj.
  unfold vget at 1, bvec_of_flat.
  rewrite (nth_indep _ _ (blk_col S0 b (firstn b (skipn (0 * b) x)))) by (rewrite map_length, seq_length; exact HI).
  rewrite (map_nth (fun I => blk_col S0 b (firstn b (skipn (I * b) x)))), seq_nth by exact HI. simpl Nat.add.
  rewrite (blk_get_col S0 b) by assumption.
  destruct (Nat.eqb j 0); [|reflexivity]. apply vget_firstn_skipn. exact Hi.
Qed.

Lemma bvec_of_flat_rcomb (y1 y2 : vec S0) (al be : S0) : length y1 = length y2 ->
  bvec_of_flat S0 b (vlin al y1 be y2) =
  vrlin (S := B) (bvec_of_flat S0 b y1) (blk_embed S0 b al) (bvec_of_flat S0 b y2) (blk_embed S0 b be).
Proof.
  intro HL.
  assert (L3 : length (vlin al y1 be y2) = length y1) by (apply vlin_length; congruence).
  assert (Lb : forall x : vec S0, @length (T B) (bvec_of_flat S0 b x) = (length x / b)%nat)
    by (intro x; apply bvec_of_flat_length).
  apply (vrlin_intro (S := B) HncB _ _ _ _ _ (length y1 / b)%nat).
  - apply Lb.
  - rewrite Lb, HL. reflexivity.
  - rewrite Lb, L3. reflexivity.
  - intros I HI. apply (blk_ext_get S0 b). intros i j Hi Hj.
    rewrite blk_get_rcomb by assumption.
    rewrite !bvec_of_flat_cell by (try assumption; congruence).
    destruct (Nat.eqb j 0); [|ring].
    rewrite (vlin_get Srt) by exact HL. ring.
Qed.

Lemma bexpand_square (A : crs B) : ncols A = nrows A -> ncols (bexpand S0 b A) = nrows (bexpand S0 b A).
Proof. intro H. rewrite (bexpand_nrows S0 b). cbn [bexpand ncols]. rewrite H. reflexivity. Qed.

(* the block coarse solve is linear over the embedded base scalars *)
Theorem mk_solve_block_rlin (A : crs B) : ncols A = nrows A -> solvable_block S0 b A = true ->
  solve_rlin embedded (nrows A) (mk_solve_block S0 b A).
Proof.
  intros Hsq Hs a b' f g x y z [al ->] [be ->] Lf Lg Lx Ly Lz. unfold mk_solve_block.
  rewrite flat_of_bvec_rcomb by congruence.
  set (E := bexpand S0 b A).
  assert (HsqE : ncols E = nrows E) by (apply bexpand_square; exact Hsq).
  assert (LfE : length (flat_of_bvec S0 b f) = nrows E)
    by (unfold E; rewrite flat_of_bvec_length, (bexpand_nrows S0 b), Lf; reflexivity).
  assert (LgE : length (flat_of_bvec S0 b g) = nrows E)
    by (unfold E; rewrite flat_of_bvec_length, (bexpand_nrows S0 b), Lg; reflexivity).
  assert (HsE : solvable E = true).
  { unfold solvable_block in Hs. unfold solvable, E. rewrite (bexpand_nrows S0 b). exact Hs. }
  pose proof (dense_solve_lockstep Srt al be E (flat_of_bvec S0 b f) (flat_of_bvec S0 b g) HsqE ltac:(congruence)) as H.
  destruct (solvable_all Srt E _ HsqE LfE HsE) as [y1 E1]. destruct (solvable_all Srt E _ HsqE LgE HsE) as [y2 E2].
  rewrite E1, E2 in *.
  destruct (dense_solve E (vlin al (flat_of_bvec S0 b f) be (flat_of_bvec S0 b g))) as [y3|]; [|destruct H].
  simpl in H. rewrite H. apply bvec_of_flat_rcomb.
  rewrite (dense_solve_length _ _ _ E1), (dense_solve_length _ _ _ E2). reflexivity.
Qed.

(* hierarchies built by amg_init over block values *)
Theorem block_levels_rlin (k : @relax5 B) ce dc ml (sc : option B) ts (M : crs B) :
  wf M = true -> ts_wf (nrows M) ts ->
  (forall A, In (LSolve A) (amg_init ce dc ml (coarse_op_of sc) ts M) ->
             ncols A = nrows A /\ solvable_block S0 b A = true) ->
  hier_rlin embedded (block_levels S0 b k (amg_init ce dc ml (coarse_op_of sc) ts M)).
Proof.
  intros WM Hts Hsol.
  destruct (amg_init_chain ce dc ml (coarse_op_of sc) ts M) as [Hc Hh].
  unfold block_levels.
  apply (chain_hier_rlin embedded _ _ (mk_relax5_ok k) (mk_relax5_rlin HncB SeqbB embedded k)
           (mk_solve_block_ok S0 b Hb) (coarse_op_of sc) _ (coarse_op_of_shape sc) Hc).
  - unfold amg_init. apply build_descs_wf.
    + apply coarse_op_of_shape.
    + apply coarse_op_of_wf.
    + apply sort_rows_wf, WM.
    + rewrite sort_rows_nrows. exact Hts.
  - intros A HA. destruct (Hsol A HA) as [Hsq Hs]. apply (mk_solve_block_rlin A Hsq Hs).
Qed.

(* left and right multiplication by an embedded scalar coincide *)
Lemma vlin_vrlin_embed (al be : S0) (f g : vec B) :
  vlin (S := B) (blk_embed S0 b al) f (blk_embed S0 b be) g = vrlin f (blk_embed S0 b al) g (blk_embed S0 b be).
Proof.
  unfold vlin, vrlin. apply map_ext. intros [x y]. cbn [fst snd sadd smul BlockS].
  rewrite !(blk_embed_central S0 b Srt). reflexivity.
Qed.

(* C02-A2 for block values: apply() is linear over the base scalars (embedded as alpha*I, multiplying from the
   left as the code's  alpha * x[i]  does); neither the scratch states nor the incoming x vectors matter *)
Theorem block_apply_linear (k : @relax5 B) ce dc ml (sc : option B) ts (M : crs B) npre npost ncycle pre_cycles :
  wf M = true -> ts_wf (nrows M) ts ->
  (forall A, In (LSolve A) (amg_init ce dc ml (coarse_op_of sc) ts M) ->
             ncols A = nrows A /\ solvable_block S0 b A = true) ->
  let lvls := block_levels S0 b k (amg_init ce dc ml (coarse_op_of sc) ts M) in
  forall (al be : S0) scr1 scr2 scr3 f g x1 x2 x3,
  scratch_wf lvls scr1 -> scratch_wf lvls scr2 -> scratch_wf lvls scr3 ->
  length f = nrows M -> length g = nrows M ->
  length x1 = nrows M -> length x2 = nrows M -> length x3 = nrows M ->
  fst (apply npre npost ncycle pre_cycles lvls scr3 (vlin (S := B) (blk_embed S0 b al) f (blk_embed S0 b be) g) x3) =
  vlin (S := B) (blk_embed S0 b al) (fst (apply npre npost ncycle pre_cycles lvls scr1 f x1))
       (blk_embed S0 b be) (fst (apply npre npost ncycle pre_cycles lvls scr2 g x2)).
Proof.
  intros WM Hts Hsol lvls al be scr1 scr2 scr3 f g x1 x2 x3 H1 H2 H3 Lf Lg L1 L2 L3.
  pose proof (block_levels_rlin k ce dc ml sc ts M WM Hts Hsol) as Hlin.
  destruct (amg_init_chain ce dc ml (coarse_op_of sc) ts M) as [Hc Hh].
  destruct (block_levels_wf S0 b Hb k _ _ (coarse_op_of_shape sc) Hc) as (_ & Hne & _).
  assert (En : top_n lvls = nrows M).
  { unfold lvls, block_levels. rewrite (top_n_inst _ _ _ _ Hh). apply sort_rows_nrows. }
  rewrite !vlin_vrlin_embed.
  apply (apply_rlinear HncB SeqbB embedded npre npost ncycle pre_cycles lvls Hlin Hne);
    try congruence; eexists; reflexivity.
Qed.

(* the cycle itself (non-zero initial x): jointly linear in (rhs, x) *)
Theorem block_cycle_linear (k : @relax5 B) ce dc ml (sc : option B) ts (M : crs B) npre npost ncycle :
  wf M = true -> ts_wf (nrows M) ts ->
  (forall A, In (LSolve A) (amg_init ce dc ml (coarse_op_of sc) ts M) ->
             ncols A = nrows A /\ solvable_block S0 b A = true) ->
  let lvls := block_levels S0 b k (amg_init ce dc ml (coarse_op_of sc) ts M) in
  forall (al be : S0) scr1 scr2 scr3 f g x y,
  scratch_wf lvls scr1 -> scratch_wf lvls scr2 -> scratch_wf lvls scr3 ->
  length f = nrows M -> length g = nrows M -> length x = nrows M -> length y = nrows M ->
  fst (cycle npre npost ncycle lvls scr3 (vlin (S := B) (blk_embed S0 b al) f (blk_embed S0 b be) g)
                                         (vlin (S := B) (blk_embed S0 b al) x (blk_embed S0 b be) y)) =
  vlin (S := B) (blk_embed S0 b al) (fst (cycle npre npost ncycle lvls scr1 f x))
       (blk_embed S0 b be) (fst (cycle npre npost ncycle lvls scr2 g y)).
Proof.
  intros WM Hts Hsol lvls al be scr1 scr2 scr3 f g x y H1 H2 H3 Lf Lg Lx Ly.
  pose proof (block_levels_rlin k ce dc ml sc ts M WM Hts Hsol) as Hlin.
  destruct (amg_init_chain ce dc ml (coarse_op_of sc) ts M) as [Hc Hh].
  assert (En : top_n lvls = nrows M).
  { unfold lvls, block_levels. rewrite (top_n_inst _ _ _ _ Hh). apply sort_rows_nrows. }
  rewrite !vlin_vrlin_embed.
  apply (cycle_rlinear HncB SeqbB embedded npre npost ncycle lvls Hlin);
    try congruence; eexists; reflexivity.
Qed.

(* the statements for hierarchies that EXIST in the C++: every smoother constructor succeeded (descs_ready) *)
Theorem block_apply_linear_ready (k : @relax5 B) ce dc ml (sc : option B) ts (M : crs B) npre npost ncycle pre_cycles :
  wf M = true -> ts_wf (nrows M) ts ->
  descs_ready k (amg_init ce dc ml (coarse_op_of sc) ts M) = true ->
  (forall A, In (LSolve A) (amg_init ce dc ml (coarse_op_of sc) ts M) ->
             ncols A = nrows A /\ solvable_block S0 b A = true) ->
  let lvls := block_levels S0 b k (amg_init ce dc ml (coarse_op_of sc) ts M) in
  forall (al be : S0) scr1 scr2 scr3 f g x1 x2 x3,
  scratch_wf lvls scr1 -> scratch_wf lvls scr2 -> scratch_wf lvls scr3 ->
  length f = nrows M -> length g = nrows M ->
  length x1 = nrows M -> length x2 = nrows M -> length x3 = nrows M ->
  fst (apply npre npost ncycle pre_cycles lvls scr3 (vlin (S := B) (blk_embed S0 b al) f (blk_embed S0 b be) g) x3) =
  vlin (S := B) (blk_embed S0 b al) (fst (apply npre npost ncycle pre_cycles lvls scr1 f x1))
       (blk_embed S0 b be) (fst (apply npre npost ncycle pre_cycles lvls scr2 g x2)).
Proof. intros WM Hts _. apply block_apply_linear; assumption. Qed.

Theorem block_cycle_linear_ready (k : @relax5 B) ce dc ml (sc : option B) ts (M : crs B) npre npost ncycle :
  wf M = true -> ts_wf (nrows M) ts ->
  descs_ready k (amg_init ce dc ml (coarse_op_of sc) ts M) = true ->
  (forall A, In (LSolve A) (amg_init ce dc ml (coarse_op_of sc) ts M) ->
             ncols A = nrows A /\ solvable_block S0 b A = true) ->
  let lvls := block_levels S0 b k (amg_init ce dc ml (coarse_op_of sc) ts M) in
  forall (al be : S0) scr1 scr2 scr3 f g x y,
  scratch_wf lvls scr1 -> scratch_wf lvls scr2 -> scratch_wf lvls scr3 ->
  length f = nrows M -> length g = nrows M -> length x = nrows M -> length y = nrows M ->
  fst (cycle npre npost ncycle lvls scr3 (vlin (S := B) (blk_embed S0 b al) f (blk_embed S0 b be) g)
                                         (vlin (S := B) (blk_embed S0 b al) x (blk_embed S0 b be) y)) =
  vlin (S := B) (blk_embed S0 b al) (fst (cycle npre npost ncycle lvls scr1 f x))
       (blk_embed S0 b be) (fst (cycle npre npost ncycle lvls scr2 g y)).
Proof. intros WM Hts _. apply block_cycle_linear; assumption. Qed.

End BlockLin.
