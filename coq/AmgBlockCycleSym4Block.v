(* AmgBlockCycleSym4Block.v -- C02 for block value types, direct_coarse = true (WZ6): the hermitian-preconditioner theorem
   at static_matrix<T,b,b>, T a field, for hierarchies whose coarsest level is handled by the direct solver
   (mk_solve_block: exact solve of the expanded system on column 0), stated for COLUMN vectors f, g (colvecB: every
   entry x satisfies x * E_00 = x, i.e. the columns 1..b-1 are zero -- the embedded static_matrix<T,b,1> values).
   AmgBlockCycleSym4.v (cycle relative to the subspace) + AmgBlockCycleSym4Solve.v (the solver preserves column vectors
   and is self-adjoint on them when the block matrix is hermitian and the expanded system solvable).
   Smoothers: all of mk_relax5 under good5 (Jacobi / SPAI-0 / Gauss-Seidel pairs discharged there), ILU(0) under the
   structural level condition ilu0_level_ok_nc, Chebyshev under cheby_coefs_herm. *)
From Coq Require Import QArith Qcanon.
From Amgcl Require Import Scalar QcInst Vec Crs Kernels KernelsProofs MatOps MatOpsProofs Relax DenseSolve
  Amg AmgExec AmgProofs AmgProofs2 AmgProofs3 AmgProofs4 AmgProofs6 AmgProofs7 NcRing NcKernels AmgBlockNc AmgBlockCycle
  AmgBlockCycleProofs AmgBlockCycleLin AmgBlockCycleSym AmgBlockCycleSym2 AmgBlockCycleSym2Gs AmgBlockCycleSym2Built
  AmgBlockCycleSym3Ilu AmgBlockCycleSym3IluFactorsNc AmgBlockCycleSym3Cheb
  DirectUtil Inverse StaticMat StaticMatProofs BlockInst BlockKernels NcRingBlock NcRingBlockInv BlockMatOpsProofs
  AmgBlockCycleSym4 AmgBlockCycleSym4Solve.
Local Close Scope Qc_scope.
Local Close Scope Q_scope.
Local Open Scope S_scope.

Section BlockDirectCoarse.
Variable S0 : Scalar.
Variable b : nat.
Hypothesis Sft : Sfield S0.
Hypothesis Seqb0 : seqb_spec S0.
Hypothesis Hb : 0 < b.
Hypothesis sadj_add0 : forall x y : S0, sadj (x + y) = sadj x + sadj y.
Hypothesis sadj_mul0 : forall x y : S0, sadj (x * y) = sadj x * sadj y.
Hypothesis sadj_invol0 : forall x : S0, sadj (sadj x) = x.
Local Notation B := (BlockS S0 b).
Let Srt : Sring S0 := F_R Sft.
Let HncB : ncring_theory B := BlockS_ncring S0 b Srt.
Let SeqbB : seqb_spec B := BlockS_eqb S0 b Seqb0.
Let addB := BlockS_adj_add S0 b sadj_add0.
Let mulB := BlockS_adj_mul S0 b Srt sadj_add0 sadj_mul0.
Let invB := BlockS_adj_invol S0 b sadj_invol0.
Local Notation e00 := (blk_e00 S0 b).
Local Notation colvecB := (colvecB S0 b).

(* colvecB is the subspace predicate of AmgBlockCycleSym4.v at e = E_00 *)
Lemma colvecB_Pv (v : vec B) : colvecB v <-> Pv (S := B) e00 v.
Proof. split; intros H i; exact (H i). Qed.

(* the block coarse solver: hermitian on column vectors, preserves them *)
Lemma mk_solve_block_solveP (A : crs B) : wf A = true -> herm_mat (S := B) (nrows A) A ->
  solvable_block S0 b A = true ->
  solve_symHP (S := B) e00 (nrows A) (mk_solve_block S0 b A) /\ solve_P (S := B) e00 (nrows A) (mk_solve_block S0 b A).
Proof.
  intros WA HA Hs. split.
  - intros f g x y Lf Lg Lx Ly Pf Pg. change (colvecB f) in Pf. change (colvecB g) in Pg.
    apply (mk_solve_block_symH_col S0 b); try assumption; exact Srt.
  - intros f x _ _ _ Px. change (colvecB x) in Px. change (colvecB (mk_solve_block S0 b A f x)).
    apply (mk_solve_block_colvec S0 b); try assumption; exact Srt.
Qed.

(* any smoother constructor with right-linear, consistent, adjoint pairs under a level condition [good] *)
Theorem block_apply_herm_direct_coarse_gen (mk_relax : crs B -> @sweep B * @sweep B)
  (relax_ok : forall A, sweep_ok (nrows A) (fst (mk_relax A)) /\ sweep_ok (nrows A) (snd (mk_relax A)))
  (relax_rlin : forall A, wf A = true -> sweep_rlin (fun _ => True) (nrows A) (fst (mk_relax A)) /\
                                         sweep_rlin (fun _ => True) (nrows A) (snd (mk_relax A)))
  (good : crs B -> Prop)
  (relax_triple : forall A, wf A = true -> herm_mat (nrows A) A -> good A -> sweep_triple A (mk_relax A))
  ce dc ml (sc : option B) ts (M : crs B) k nc pc :
  scale_herm sc -> wf M = true -> herm_mat (nrows M) M -> ts_herm (nrows M) ts ->
  (forall A, In (LSolve A) (amg_init ce dc ml (coarse_op_of sc) ts M) -> solvable_block S0 b A = true) ->
  (forall l, In l (amg_init ce dc ml (coarse_op_of sc) ts M) -> good (ld_A l)) ->
  let lvls := map (instantiate mk_relax (mk_solve_block S0 b)) (amg_init ce dc ml (coarse_op_of sc) ts M) in
  (pc = 0 \/ nosolve_top lvls) ->
  forall scr1 scr2 f g x1 x2,
  scratch_wf lvls scr1 -> scratch_wf lvls scr2 ->
  length f = nrows M -> length g = nrows M -> length x1 = nrows M -> length x2 = nrows M ->
  colvecB f -> colvecB g ->
  ipH (S := B) (nrows M) (fst (apply k k nc (Datatypes.S pc) lvls scr1 f x1)) g =
  ipH (S := B) (nrows M) f (fst (apply k k nc (Datatypes.S pc) lvls scr2 g x2)).
Proof.
  intros Hsc WM SM Hts Hsol Hgood lvls Hpc scr1 scr2 f g x1 x2 H1 H2 Lf Lg L1 L2 Pf Pg.
  apply (built_apply_herm_fullP_gen (S := B) HncB SeqbB addB mulB invB e00 mk_relax (mk_solve_block S0 b)
           relax_ok relax_rlin good relax_triple (mk_solve_block_ok S0 b Hb) ce dc ml sc ts M k nc pc Hsc WM SM Hts);
    try assumption.
  intros A HA WA HsA. apply mk_solve_block_solveP; try assumption. apply Hsol, HA.
Qed.

(* the smoothers of mk_relax5 under good5: damped Jacobi / SPAI-0 (diag_good), Gauss-Seidel pairs (gs_diag_okH) *)
Theorem block_apply_herm_direct_coarse (k5 : @relax5 B) ce dc ml (sc : option B) ts (M : crs B) k nc pc :
  scale_herm sc -> wf M = true -> herm_mat (nrows M) M -> ts_herm (nrows M) ts ->
  (forall A, In (LSolve A) (amg_init ce dc ml (coarse_op_of sc) ts M) -> solvable_block S0 b A = true) ->
  (forall l, In l (amg_init ce dc ml (coarse_op_of sc) ts M) -> good5 k5 (ld_A l)) ->
  let lvls := block_levels S0 b k5 (amg_init ce dc ml (coarse_op_of sc) ts M) in
  (pc = 0 \/ nosolve_top lvls) ->
  forall scr1 scr2 f g x1 x2,
  scratch_wf lvls scr1 -> scratch_wf lvls scr2 ->
  length f = nrows M -> length g = nrows M -> length x1 = nrows M -> length x2 = nrows M ->
  colvecB f -> colvecB g ->
  ipH (S := B) (nrows M) (fst (apply k k nc (Datatypes.S pc) lvls scr1 f x1)) g =
  ipH (S := B) (nrows M) f (fst (apply k k nc (Datatypes.S pc) lvls scr2 g x2)).
Proof.
  exact (block_apply_herm_direct_coarse_gen (mk_relax5 k5) (mk_relax5_ok k5)
           (mk_relax5_rlin (S := B) HncB SeqbB (fun _ => True) k5) (good5 k5)
           (mk_relax5_triple (S := B) HncB SeqbB addB mulB invB k5) ce dc ml sc ts M k nc pc).
Qed.

(* ILU(0): structural level condition (sorted rows, stored diagonal, symmetric pattern, invertible pivots) *)
Theorem block_apply_herm_ilu0_direct_coarse (sinv_0 : sinv (@s0 S0) = s0) (w : B) ce dc ml (sc : option B) ts (M : crs B)
  k nc pc :
  sadj w = w -> (forall c : B, w * c = c * w) ->
  scale_herm sc -> wf M = true -> herm_mat (nrows M) M -> ts_herm (nrows M) ts ->
  (forall A, In (LSolve A) (amg_init ce dc ml (coarse_op_of sc) ts M) -> solvable_block S0 b A = true) ->
  (forall l, In l (amg_init ce dc ml (coarse_op_of sc) ts M) -> ilu0_level_ok_nc (S := B) (ld_A l)) ->
  let lvls := block_levels S0 b (R5Ilu0 w) (amg_init ce dc ml (coarse_op_of sc) ts M) in
  (pc = 0 \/ nosolve_top lvls) ->
  forall scr1 scr2 f g x1 x2,
  scratch_wf lvls scr1 -> scratch_wf lvls scr2 ->
  length f = nrows M -> length g = nrows M -> length x1 = nrows M -> length x2 = nrows M ->
  colvecB f -> colvecB g ->
  ipH (S := B) (nrows M) (fst (apply k k nc (Datatypes.S pc) lvls scr1 f x1)) g =
  ipH (S := B) (nrows M) f (fst (apply k k nc (Datatypes.S pc) lvls scr2 g x2)).
Proof.
  intros Hw Hc.
  exact (block_apply_herm_direct_coarse_gen (mk_relax5 (R5Ilu0 w)) (mk_relax5_ok _)
           (mk_relax5_rlin (S := B) HncB SeqbB (fun _ => True) (R5Ilu0 w)) (ilu0_level_ok_nc (S := B))
           (fun A WA HA Hg => mk_relax5_triple (S := B) HncB SeqbB addB mulB invB (R5Ilu0 w) A WA HA
                                (nc_ilu0_good5 (S := B) HncB SeqbB (BlockS_inv_right S0 b Sft Seqb0 sinv_0)
                                   addB mulB invB w A WA HA Hg Hw Hc))
           ce dc ml sc ts M k nc pc).
Qed.

(* Chebyshev: coefficient condition cheby_coefs_herm on every level *)
Theorem block_apply_herm_cheby_direct_coarse degree (lower higher : B) scale ce dc ml (sc : option B) ts (M : crs B)
  k nc pc :
  scale_herm sc -> wf M = true -> herm_mat (nrows M) M -> ts_herm (nrows M) ts ->
  (forall A, In (LSolve A) (amg_init ce dc ml (coarse_op_of sc) ts M) -> solvable_block S0 b A = true) ->
  (forall l, In l (amg_init ce dc ml (coarse_op_of sc) ts M) ->
             cheby_coefs_herm (S := B) degree lower higher scale (ld_A l)) ->
  let lvls := block_levels S0 b (R5Cheby degree lower higher scale) (amg_init ce dc ml (coarse_op_of sc) ts M) in
  (pc = 0 \/ nosolve_top lvls) ->
  forall scr1 scr2 f g x1 x2,
  scratch_wf lvls scr1 -> scratch_wf lvls scr2 ->
  length f = nrows M -> length g = nrows M -> length x1 = nrows M -> length x2 = nrows M ->
  colvecB f -> colvecB g ->
  ipH (S := B) (nrows M) (fst (apply k k nc (Datatypes.S pc) lvls scr1 f x1)) g =
  ipH (S := B) (nrows M) f (fst (apply k k nc (Datatypes.S pc) lvls scr2 g x2)).
Proof.
  exact (block_apply_herm_direct_coarse_gen (mk_relax5 (R5Cheby degree lower higher scale)) (mk_relax5_ok _)
           (mk_relax5_rlin (S := B) HncB SeqbB (fun _ => True) (R5Cheby degree lower higher scale))
           (cheby_coefs_herm (S := B) degree lower higher scale)
           (fun A WA HA Hg => nc_cheby_triple (S := B) HncB SeqbB addB mulB degree lower higher scale A WA HA Hg)
           ce dc ml sc ts M k nc pc).
Qed.

(* boolean form of colvecB (closed instances) *)
Definition colvecBb (v : vec B) : bool :=
  forallb (fun x : B => seqb (s := B) (smul (s := B) x e00) x) v.
Lemma colvecBb_ok (v : vec B) : colvecBb v = true -> colvecB v.
Proof.
  unfold colvecBb. intros H i. rewrite forallb_forall in H.
  destruct (Nat.lt_ge_cases i (@length (T B) v)) as [Hi|Hi].
  - apply SeqbB. apply H. unfold vget. apply nth_In. exact Hi.
  - unfold vget. rewrite nth_overflow by exact Hi. apply (nc_mul_0_l HncB).
Qed.

(* every hierarchy of amg_init with at least two levels has no solver on top *)
Lemma block_levels_nosolve_top (k5 : @relax5 B) ls :
  2 <= length ls -> nosolve_top (block_levels S0 b k5 ls).
Proof. destruct ls as [|l1 [|l2 tl]]; simpl; intros; try lia; exact I. Qed.

End BlockDirectCoarse.

(* closed at the exact rationals (sadj = identity) *)
Theorem block_apply_herm_direct_coarse_Qc (b : nat) (Hb : 0 < b) (k5 : @relax5 (BlockS QcS b)) ce dc ml
  (sc : option (BlockS QcS b)) ts (M : crs (BlockS QcS b)) k nc pc :
  scale_herm sc -> wf M = true -> herm_mat (nrows M) M -> ts_herm (nrows M) ts ->
  (forall A, In (LSolve A) (amg_init ce dc ml (coarse_op_of sc) ts M) -> solvable_block QcS b A = true) ->
  (forall l, In l (amg_init ce dc ml (coarse_op_of sc) ts M) -> good5 k5 (ld_A l)) ->
  let lvls := block_levels QcS b k5 (amg_init ce dc ml (coarse_op_of sc) ts M) in
  (pc = 0 \/ nosolve_top lvls) ->
  forall scr1 scr2 f g x1 x2,
  scratch_wf lvls scr1 -> scratch_wf lvls scr2 ->
  length f = nrows M -> length g = nrows M -> length x1 = nrows M -> length x2 = nrows M ->
  colvecB QcS b f -> colvecB QcS b g ->
  ipH (S := BlockS QcS b) (nrows M) (fst (apply k k nc (Datatypes.S pc) lvls scr1 f x1)) g =
  ipH (S := BlockS QcS b) (nrows M) f (fst (apply k k nc (Datatypes.S pc) lvls scr2 g x2)).
Proof.
  exact (block_apply_herm_direct_coarse QcS b QcS_field QcS_eqb Hb (fun _ _ => eq_refl) (fun _ _ => eq_refl)
           (fun _ => eq_refl) k5 ce dc ml sc ts M k nc pc).
Qed.
