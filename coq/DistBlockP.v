(* DistBlockP.v -- C11 for NON-COMMUTATIVE value types, part 2: the distributed product (Dist.dist_product, the
   rank-by-rank model of amgcl::mpi::product incl. the rows obtained through remote_rows) assembles to the serial
   product of the assembled matrices for EVERY compatible partition WITHOUT commutativity of the value product:
       (A B)_ij = sum_k a_ik * b_kj          entry of A on the LEFT, in every rank, for local and remote entries.
   Only ADDITION is commuted (local entries first, then remote ones; marker accumulation).
   Converse witness (seeded regression C12-4): the model [dist_product_swapped_remote] multiplies the REMOTE
   entries of A from the right (B_nbr.val[jb] * va); it is the same function in every commutative ring and a
   different matrix at 2 x 2 blocks (closed witness in DistBlockT.v). *)
From Amgcl Require Import Scalar Vec Crs Kernels KernelsProofs MatOps MatOpsProofs Dist DistProofs DistProofsP
  NcRing NcKernels BlockMatOpsProofs.
Local Open Scope nat_scope.

(* ------------------------------------------------------------------ *)
(* the model with the operands of the remote section swapped           *)
Section SwappedModel.
Context {S : Scalar}.
Local Notation row := (row S).
Local Open Scope S_scope.

(* like Dist.prod_events; an entry of A whose (global) column is NOT in the rank's own range [b, b+p) of A's
   column partition (= an entry of A_rem, combined with a row of B received from a neighbour) multiplies as
   vb * va *)
Definition prod_events_swapped_remote (b p : nat) (SB : list row) (ra : row) : row :=
  flat_map (fun ea => map (fun eb => (fst eb, if in_range b p (fst ea) then snd ea * snd eb else snd eb * snd ea))
                          (nth (fst ea) SB [])) ra.

Definition dist_product_swapped_remote (DA DB : dmat S) : dmat S :=
  let cpA := dm_cparts DA in
  let cpB := dm_cparts DB in
  let SB := concat (strips DB) in
  mkDmat cpB
    (map (fun r =>
            let b := pbeg cpB r in
            let p := psize cpB r in
            let rowsA := strip_rows (pbeg cpA r) (nth r (dm_ranks DA) dflt_rank) in
            mkRankMat
              (mkCrs p (map (fun ra => accumulate (loc_row b p
                         (prod_events_swapped_remote (pbeg cpA r) (psize cpA r) SB ra))) rowsA))
              (mkCrs (psum cpB) (map (fun ra => accumulate (rem_row b p
                         (prod_events_swapped_remote (pbeg cpA r) (psize cpA r) SB ra))) rowsA)))
         (seq 0 (length cpA))).

(* in a commutative ring the swap is invisible *)
Lemma prod_events_swapped_remote_comm (Srt : Sring S) b p (SB : list row) (ra : row) :
  prod_events_swapped_remote b p SB ra = prod_events SB ra.
Proof.
  unfold prod_events_swapped_remote, prod_events. apply flat_map_ext. intro ea.
  apply map_ext. intro eb. destruct (in_range b p (fst ea)); [reflexivity|].
  f_equal. apply (Rmul_comm Srt).
Qed.

Theorem dist_product_swapped_remote_comm (Srt : Sring S) (DA DB : dmat S) :
  dist_product_swapped_remote DA DB = dist_product DA DB.
Proof.
  unfold dist_product_swapped_remote, dist_product. cbv zeta. f_equal.
  apply map_ext. intro r. f_equal; f_equal; apply map_ext; intro ra;
    rewrite (prod_events_swapped_remote_comm Srt); reflexivity.
Qed.
End SwappedModel.

(* ------------------------------------------------------------------ *)
Section ProductNc.
Context {S : Scalar}.
Local Notation row := (row S).
Local Notation crs := (crs S).
Hypothesis Hnc : ncring_theory S.
Local Instance ncp : NcRingInst S := ncring_inst Hnc.
Local Open Scope S_scope.

Local Notation rget_cons := (nc_rget_cons Hnc).
Local Notation rget_app := (nc_rget_app Hnc).

Lemma nc_rget_filter_split (p : nat * S -> bool) (r : row) j :
  rget r j = rget (filter p r) j + rget (filter (fun e => negb (p e)) r) j.
Proof.
  induction r as [|e r IH]; simpl.
  - rewrite nc_rget_nil. ncr.
  - rewrite rget_cons. destruct (p e); simpl; rewrite rget_cons, IH; ncr.
Qed.

Lemma nc_rget_reorder b p (r : row) : row_equiv (reorder b p r) r.
Proof.
  intro j. rewrite reorder_filter, rget_app. symmetry. apply nc_rget_filter_split.
Qed.

(* the marker accumulation keeps the dense semantics of the event list *)
Lemma nc_rget_accumulate_acc (evs acc : row) j :
  rget (fold_left (fun a e => row_add a (fst e) (snd e)) evs acc) j = rget acc j + rget evs j.
Proof.
  revert acc; induction evs as [|e evs IH]; intro acc; simpl.
  - rewrite nc_rget_nil. ncr.
  - rewrite IH, (nc_rget_row_add Hnc), rget_cons. destruct (Nat.eqb (fst e) j); ncr.
Qed.

Lemma nc_rget_accumulate (evs : row) : row_equiv (accumulate evs) evs.
Proof. intro j. unfold accumulate. rewrite nc_rget_accumulate_acc, nc_rget_nil. ncr. Qed.

Lemma nc_rget_shift_map b (l : row) j :
  rget (map (fun e => (fst e + b, snd e)%nat) l) j = if Nat.leb b j then rget l (j - b)%nat else s0.
Proof.
  induction l as [|e l IH]; simpl.
  - rewrite !nc_rget_nil. destruct (Nat.leb b j); reflexivity.
  - rewrite !rget_cons, IH. simpl.
    destruct (Nat.leb_spec b j).
    + destruct (Nat.eqb_spec (fst e + b) j), (Nat.eqb_spec (fst e) (j - b)%nat); try lia; ncr.
    + destruct (Nat.eqb_spec (fst e + b) j); [lia | ncr].
Qed.

Lemma nc_rget_split_accumulate b p (evs : row) :
  row_equiv (map (fun e => (fst e + b, snd e)%nat) (accumulate (loc_row b p evs)) ++ accumulate (rem_row b p evs)) evs.
Proof.
  intro j. rewrite rget_app, nc_rget_shift_map, (nc_rget_accumulate (rem_row b p evs) j).
  rewrite <- (nc_rget_reorder b p evs j). unfold reorder. rewrite rget_app, nc_rget_shift_map.
  destruct (Nat.leb b j); [rewrite (nc_rget_accumulate (loc_row b p evs) (j - b)%nat) |]; reflexivity.
Qed.

(* the events of one row: the entry of the A-row stays on the LEFT of the B-row *)
Lemma nc_rget_scale_left (a : S) (rb : row) j : rget (map (fun eb => (fst eb, a * snd eb)) rb) j = a * rget rb j.
Proof.
  induction rb as [|e rb IH]; simpl.
  - rewrite !nc_rget_nil. ncr.
  - rewrite !rget_cons, IH. simpl. destruct (Nat.eqb (fst e) j); ncr.
Qed.

Lemma nc_rget_prod_events (SB : list row) (ra : row) j :
  rget (prod_events SB ra) j = fold_right (fun e acc => snd e * rget (nth (fst e) SB []) j + acc) s0 ra.
Proof.
  unfold prod_events. induction ra as [|e ra IH]; simpl.
  - apply nc_rget_nil.
  - rewrite rget_app, nc_rget_scale_left, IH. reflexivity.
Qed.

Lemma nc_lin_filter_split (SB : list row) (p : nat * S -> bool) (ra : row) j :
  fold_right (fun e acc => snd e * rget (nth (fst e) SB []) j + acc) s0 ra
  = fold_right (fun e acc => snd e * rget (nth (fst e) SB []) j + acc) s0 (filter p ra)
    + fold_right (fun e acc => snd e * rget (nth (fst e) SB []) j + acc) s0 (filter (fun e => negb (p e)) ra).
Proof.
  induction ra as [|e ra IH]; simpl; [ncr|]. destruct (p e); simpl; rewrite IH; ncr.
Qed.

Lemma nc_lin_app (SB : list row) (r1 r2 : row) j :
  fold_right (fun e acc => snd e * rget (nth (fst e) SB []) j + acc) s0 (r1 ++ r2)
  = fold_right (fun e acc => snd e * rget (nth (fst e) SB []) j + acc) s0 r1
    + fold_right (fun e acc => snd e * rget (nth (fst e) SB []) j + acc) s0 r2.
Proof. induction r1 as [|e r1 IH]; simpl; [ncr | rewrite IH; ncr]. Qed.

Lemma nc_lin_reorder (SB : list row) b p (ra : row) j :
  fold_right (fun e acc => snd e * rget (nth (fst e) SB []) j + acc) s0 (reorder b p ra)
  = fold_right (fun e acc => snd e * rget (nth (fst e) SB []) j + acc) s0 ra.
Proof. rewrite reorder_filter, nc_lin_app. symmetry. apply nc_lin_filter_split. Qed.

Lemma nc_lin_ext (SB SB' : list row) (ra : row) j :
  (forall c, rget (nth c SB []) j = rget (nth c SB' []) j) ->
  fold_right (fun e acc => snd e * rget (nth (fst e) SB []) j + acc) s0 ra
  = fold_right (fun e acc => snd e * rget (nth (fst e) SB' []) j + acc) s0 ra.
Proof. intro H. induction ra as [|e ra IH]; simpl; [reflexivity | rewrite IH, H; reflexivity]. Qed.

(* the assembled strips of B have, row by row, the semantics of B's rows *)
Lemma nc_strips_equiv (M : crs) (rp cp : list nat) : length rp = length cp -> psum rp = nrows M ->
  Forall2 row_equiv (concat (strips (split M rp cp))) (rows M).
Proof.
  intros H Hs. rewrite strips_split by exact H.
  pose proof (rows_as_blocks M rp (length cp) H Hs) as E.
  remember (chunks rp (rows M)) as Ls eqn:ELs. rewrite E. clear E ELs.
  apply Forall2_concat_map. intros r _.
  rewrite <- (map_id (nth r Ls [])) at 2.
  apply Forall2_map_same. intros x _. apply nc_rget_reorder.
Qed.

(* ---- the theorem ---- *)
Variables A B : crs.
Variables rpA cpA cpB : list nat.
Hypothesis HlenA : length rpA = length cpA.
Hypothesis HlenB : length cpA = length cpB.
Hypothesis HrowsA : psum rpA = nrows A.
Hypothesis HrowsB : psum cpA = nrows B.      (* B's rows are distributed like A's columns *)
Local Notation n := (length cpA).
Local Notation DA := (split A rpA cpA).
Local Notation DB := (split B cpA cpB).
Local Notation C := (dist_product DA DB).

Theorem nc_dist_product_assembled :
  ncols (assemble C) = psum cpB /\
  Forall2 row_equiv (rows (assemble C)) (rows (spgemm_saad A B false)).
Proof.
  split; [reflexivity|].
  unfold assemble. cbn [rows]. rewrite (C_strips A B rpA cpA cpB HlenA HlenB HrowsA HrowsB).
  unfold spgemm_saad. cbn [rows].
  pose proof (rows_as_blocks A rpA n HlenA HrowsA) as E.
  remember (chunks rpA (rows A)) as La eqn:ELa. rewrite E. clear E ELa.
  rewrite concat_map, map_map.
  apply Forall2_concat_map. intros r _.
  apply Forall2_map_same. intros ra _. intro j. cbv zeta.
  rewrite (nc_rget_split_accumulate (pbeg cpB r) (psize cpB r) _ j).
  rewrite nc_rget_prod_events, nc_lin_reorder.
  rewrite (nc_rget_spgemm_row Hnc). unfold row_lin.
  apply nc_lin_ext. intro c.
  apply (Forall2_nth_equiv _ _ c (nc_strips_equiv B cpA cpB HlenB HrowsB)).
Qed.

Corollary nc_dist_product_rows : length (rows (assemble C)) = nrows A.
Proof.
  rewrite (Forall2_len _ _ _ (proj2 nc_dist_product_assembled)).
  unfold spgemm_saad, nrows. cbn [rows]. apply map_length.
Qed.

Corollary nc_dist_product_dense i j :
  mget (assemble C) i j = mget (spgemm_saad A B false) i j.
Proof. unfold mget. apply (Forall2_nth_equiv _ _ i (proj2 nc_dist_product_assembled)). Qed.

(* (A B)_ij = sum_k a_ik * b_kj, IN THAT ORDER, for every partition *)
Corollary nc_dist_product_entries i j : wf A = true -> i < nrows A ->
  mget (assemble C) i j = sumn (fun k => mget A i k * mget B k j) (ncols A).
Proof.
  intros Hwf Hi. rewrite nc_dist_product_dense. apply (nc_spgemm_saad_dense Hnc); assumption.
Qed.

End ProductNc.
