(* CprProofs7.v -- C18-A3: the sorting done by the template constructors is the identity on input
   that is already sorted (scalar rows sorted by column; the block view of such a matrix), so the
   statements about cpr_setup / cprb_setup apply to what cpr(K, prm) builds (cpr_make / cprb_make). *)
From Coq Require Import ZifyBool.
From Amgcl Require Import Scalar Vec Crs Kernels KernelsProofs MatOps MatOpsProofs Adapters AdaptersProofs BlockProofs
  Composite Cpr CprProofs CprProofs2 CprProofs4.

Section Sorting.
Context {S : Scalar}.
Local Notation row := (row S).
Local Notation vec := (vec S).

Fixpoint gsorted {X} (r : grow X) : bool :=
  match r with
  | e1 :: ((e2 :: _) as tl) => Nat.leb (fst e1) (fst e2) && gsorted tl
  | _ => true
  end.

Lemma gsorted_cons {X} (a : nat * X) r : gsorted (a :: r) = true -> Forall (fun x => fst a <= fst x) r /\ gsorted r = true.
Proof.
  revert a; induction r as [|x r IH]; intros a H; [split; [constructor|reflexivity]|].
  cbn [gsorted] in H. apply andb_prop in H as [H1 H2]. apply Nat.leb_le in H1.
  destruct (IH x H2) as [F _]. split; [|exact H2].
  constructor; [exact H1|]. eapply Forall_impl; [|exact F]. simpl. intros; lia.
Qed.

Lemma gsorted_app_le {X} (l1 : grow X) e l2 : gsorted (l1 ++ e :: l2) = true -> Forall (fun x => fst x <= fst e) l1.
Proof.
  induction l1 as [|a l1 IH]; intro H; [constructor|].
  simpl app in H. destruct (gsorted_cons a _ H) as [F Hs]. constructor.
  - rewrite Forall_forall in F. apply F. apply in_or_app. right. left. reflexivity.
  - apply IH. exact Hs.
Qed.

Lemma gins_right_last {X} (e : nat * X) acc : Forall (fun x => fst x <= fst e) acc -> gins_right e acc = acc ++ [e].
Proof.
  induction 1 as [|a acc Ha _ IH]; [reflexivity|]. simpl.
  replace (Nat.leb (fst a) (fst e)) with true by (symmetry; apply Nat.leb_le; exact Ha). rewrite IH. reflexivity.
Qed.

Lemma gsort_fold_sorted {X} (r : grow X) : forall acc, gsorted (acc ++ r) = true ->
  fold_left (fun acc e => gins_right e acc) r acc = acc ++ r.
Proof.
  induction r as [|e r IH]; intros acc H; [rewrite app_nil_r; reflexivity|].
  simpl. rewrite (gins_right_last e acc (gsorted_app_le acc e r H)).
  rewrite IH; rewrite <- app_assoc; [reflexivity|exact H].
Qed.

Theorem gsort_row_sorted {X} (r : grow X) : gsorted r = true -> gsort_row r = r.
Proof. intro H. unfold gsort_row. apply (gsort_fold_sorted r [] H). Qed.

(* the scalar sort is the same function *)
Lemma ins_right_gins (e : nat * S) (r : row) : ins_right e r = gins_right e r.
Proof. induction r as [|a r IH]; [reflexivity|]. simpl. rewrite IH. reflexivity. Qed.
Lemma sort_row_gsort (r : row) : sort_row r = gsort_row r.
Proof.
  unfold sort_row, gsort_row. generalize (@nil (nat * S)). induction r as [|e r IH]; intro acc; [reflexivity|].
  simpl. rewrite ins_right_gins. apply IH.
Qed.
Lemma sorted_weak_gsorted (r : row) : sorted_weak r = gsorted r.
Proof.
  induction r as [|a r IH]; [reflexivity|]. destruct r as [|b r]; [reflexivity|].
  change (sorted_weak (a :: b :: r)) with (Nat.leb (fst a) (fst b) && sorted_weak (b :: r))%bool.
  change (gsorted (a :: b :: r)) with (Nat.leb (fst a) (fst b) && gsorted (b :: r))%bool.
  rewrite IH. reflexivity.
Qed.

Theorem sort_rows_sorted_id (K : crs S) : Forall (fun r => sorted_weak r = true) (rows K) -> sort_rows K = K.
Proof.
  intro H. destruct K as [m rs]. unfold sort_rows. cbn [ncols rows] in *. f_equal.
  induction H as [|r rs Hr _ IH]; [reflexivity|]. simpl. rewrite IH. f_equal.
  rewrite sort_row_gsort. apply gsort_row_sorted. rewrite <- sorted_weak_gsorted. exact Hr.
Qed.

(* cpr(K, prm) on a matrix with sorted rows = init() on it *)
Theorem cpr_make_sorted B active (K : crs S) (junk : vec) : Forall (fun r => sorted_weak r = true) (rows K) ->
  cpr_make B active K junk = cpr_setup B active K junk.
Proof. intro H. unfold cpr_make. rewrite (sort_rows_sorted_id K H). reflexivity. Qed.

(* the block columns produced by block_matrix on sorted rows increase strictly *)
Lemma block_row_sorted B : 0 < B -> forall fuel (rs : list row) lo,
  Forall (fun r => sorted_strict r = true) rs -> rows_ge (lo * B) rs ->
  gsorted (block_row fuel B rs) = true /\ Forall (fun cv : nat * @block S => lo <= fst cv) (block_row fuel B rs).
Proof.
  intros HB. induction fuel as [|k IH]; intros rs lo Hs Hge; [split; [reflexivity|constructor]|].
  simpl. destruct (heads_min B rs) as [c|] eqn:Hm; [|split; [reflexivity|constructor]].
  pose proof (heads_min_ge B rs c lo HB Hm Hge) as Hc.
  destruct (rows_ge_step ((c + 1) * B) rs (strict_all_weak rs Hs)) as [_ Hge'].
  destruct (IH (map snd (map (span_lt ((c + 1) * B)) rs)) (c + 1) (strict_step _ rs Hs) Hge') as [I1 I2].
  split.
  - destruct (block_row k B (map snd (map (span_lt ((c + 1) * B)) rs))) as [|[c2 v2] tl] eqn:E; [reflexivity|].
    cbn [gsorted fst]. apply andb_true_intro. split; [|exact I1].
    apply Forall_cons_iff in I2 as [I2 _]. simpl in I2. apply Nat.leb_le. lia.
  - constructor; [exact Hc|]. eapply Forall_impl; [|exact I2]. simpl. intros; lia.
Qed.

Theorem cprb_make_block_view B active (K : crs S) (junk : vec) : 0 < B ->
  Forall (fun r => sorted_strict r = true) (rows K) ->
  let Kb := to_gcrs (block_adapter B (crs_view K)) in
  cprb_make B active Kb junk = cprb_setup B active Kb junk.
Proof.
  intros HB Hs Kb. unfold cprb_make.
  assert (E : map gsort_row (grows Kb) = grows Kb).
  { unfold Kb, to_gcrs. cbn [grows block_adapter a_rows a_row crs_view]. rewrite map_map. apply map_ext. intro i.
    apply gsort_row_sorted.
    apply (block_row_sorted B HB _ _ 0).
    - apply Forall_forall. intros r Hr. apply in_map_iff in Hr as [j [<- _]].
      destruct (Nat.lt_ge_cases (i * B + j) (length (rows K))) as [Hlt|Hge].
      + rewrite Forall_forall in Hs. apply Hs. apply nth_In. exact Hlt.
      + rewrite nth_overflow by exact Hge. reflexivity.
    - unfold rows_ge. apply Forall_forall. intros r _. apply Forall_forall. intros x _. lia. }
  rewrite E. destruct Kb as [m g]. reflexivity.
Qed.

Theorem cpr_constructor_on_sorted_input B active (K : crs S) (junk : vec) : 0 < B ->
  Forall (fun r => sorted_strict r = true) (rows K) ->
  cpr_make B active K junk = cpr_setup B active K junk /\
  cprb_make B active (to_gcrs (block_adapter B (crs_view K))) junk = cprb_setup B active (to_gcrs (block_adapter B (crs_view K))) junk.
Proof.
  intros HB Hs. split; [exact (cpr_make_sorted B active K junk (strict_all_weak _ Hs))|exact (cprb_make_block_view B active K junk HB Hs)].
Qed.

End Sorting.
