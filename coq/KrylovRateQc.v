(* KrylovRateQc.v -- C01, last clause, closed at the exact rationals on the concrete 3-level hierarchy of
   AmgExampleData.v (1-D Poisson n = 4, two pairwise aggregations, Galerkin operators, direct solve on the
   1 x 1 level).
   (1) EXPLICIT RATE: damped Jacobi w = 1/2, one V(1,1) cycle as the preconditioner B: the error propagation
       I - B A contracts the energy norm by delta = 5/16 (certificate: KrylovRateCert.v, the matrices below are
       only checked), so k Richardson iterations reduce the energy of the error by (5/16)^(2k);
       the bound is attained by the error (1, 3, 3, 1): the rate IS the cycle's contraction factor.
   (2) STRICT DECREASE for amgcl's default smoothers (Jacobi 18/25, Jacobi 1, SPAI-0, Gauss-Seidel), every
       V(k,k) / W(k,k) cycle, k >= 1, every pre_cycles >= 1 (hypotheses of C02_apply_contracts_default_Qc). *)
From Coq Require Import QArith Qcanon Lia.
From Amgcl Require Import Scalar QcInst Vec Crs Kernels KernelsProofs MatOps MatOpsProofs Relax RelaxProofs DenseSolve
  Amg AmgExec AmgProofs AmgProofs2 AmgProofs3 AmgProofs4 AmgProofs5 AmgProofs6 AmgProofs7 AmgProofs9 AmgProofs10
  AmgOrder AmgOrderQc AmgExamples AmgSmooth AmgSmooth2 AmgSmooth3 AmgSmooth5 AmgScale4
  Krylov KrylovRef KrylovProofs KrylovRate KrylovRateAmg KrylovRateCert.
Local Close Scope Qc_scope.
Local Close Scope Q_scope.
Local Open Scope S_scope.

Definition rateM : crs QcS := sort_rows exM.
Definition rateJac : @relax_kind QcS := RJacobi (qc 1 2).
Definition rateLvls (kd : @relax_kind QcS) := std_levels kd exH.
(* the preconditioner: amgcl::amg::apply with npre = npost = k, ncycle = nc, pre_cycles = pc *)
Definition rateB kd k nc pc : vec QcS -> vec QcS := amg_B k k nc pc (rateLvls kd).
Definition rateT : vec QcS -> vec QcS := err_step (mat_op rateM) (rateB rateJac 1 1 1).

(* the matrix of I - B A (V(1,1), w = 1/2), its transpose, and  (25/256) A - T^T A T = L^T D L *)
Definition rateTm : crs QcS := mkCrs 4
  [[(0, qc 1 128); (1, qc 35 512); (2, qc 29 512); (3, qc (-9) 128)];
   [(0, qc (-5) 64); (1, qc 49 256); (2, qc 47 256); (3, qc (-7) 64)];
   [(0, qc (-7) 64); (1, qc 47 256); (2, qc 49 256); (3, qc (-5) 64)];
   [(0, qc (-9) 128); (1, qc 29 512); (2, qc 35 512); (3, qc 1 128)]]%nat.
Definition rateTmt : crs QcS := mkCrs 4
  [[(0, qc 1 128); (1, qc (-5) 64); (2, qc (-7) 64); (3, qc (-9) 128)];
   [(0, qc 35 512); (1, qc 49 256); (2, qc 47 256); (3, qc 29 512)];
   [(0, qc 29 512); (1, qc 47 256); (2, qc 49 256); (3, qc 35 512)];
   [(0, qc (-9) 128); (1, qc (-7) 64); (2, qc (-5) 64); (3, qc 1 128)]]%nat.
Definition rateL : crs QcS := mkCrs 4
  [[(0, qc 1 1); (1, qc (-1293) 2956); (2, qc 333 2956); (3, qc (-19) 739)];
   [(1, qc 1 1); (2, qc (-309211) 294443); (3, qc 44304 294443)];
   [(2, qc 1 1); (3, qc (-3) 1)];
   [(3, qc 1 1)]]%nat.
Definition rateLt : crs QcS := mkCrs 4
  [[(0, qc 1 1)];
   [(0, qc (-1293) 2956); (1, qc 1 1)];
   [(0, qc 333 2956); (1, qc (-309211) 294443); (2, qc 1 1)];
   [(0, qc (-19) 739); (1, qc 44304 294443); (2, qc (-3) 1); (3, qc 1 1)]]%nat.
Definition rateD : crs QcS := mkCrs 4
  [[(0, qc 739 4096)];
   [(1, qc 1472215 12107776)];
   [(2, qc 743505 37688704)];
   []]%nat.

(* ---------- the hierarchy is well formed and linear; its top matrix is rateM, n = 4 ---------- *)
Lemma rate_wf kd : hier_wf (rateLvls kd) /\ rateLvls kd <> [].
Proof.
  destruct (std_levels_wf kd (@galerkin QcS) exH galerkin_shape
              (proj1 (amg_init_chain 1 true 10 (@galerkin QcS) exTs exM))) as (H1 & H2 & _).
  split; assumption.
Qed.

Lemma rate_lin kd : hier_lin (rateLvls kd).
Proof.
  apply (std_levels_lin QcS_ring QcS_eqb kd 1 true 10 None exTs exM).
  - vm_compute. reflexivity.
  - apply ts_wfb_ok. vm_compute. reflexivity.
  - apply solve_check_ok. vm_compute. reflexivity.
Qed.

Lemma rate_top_n kd : top_n (rateLvls kd) = 4.
Proof. reflexivity. Qed.
Lemma rate_top_A kd : top_A (rateLvls kd) = rateM.
Proof. reflexivity. Qed.

Lemma rateM_wf : wf rateM = true. Proof. vm_compute. reflexivity. Qed.
Lemma rateM_rows : nrows rateM = 4. Proof. reflexivity. Qed.
Lemma rateM_sym : sym_mat 4 rateM. Proof. apply (sym_matb_ok QcS_eqb). vm_compute. reflexivity. Qed.

Lemma rateB_len kd k nc pc (g : vec QcS) : length g = 4 -> length (rateB kd k nc pc g) = 4.
Proof. destruct (rate_wf kd) as [Hw Hn]. exact (amg_B_len QcS_eqb k k nc pc (rateLvls kd) Hw Hn g). Qed.

Lemma rateB_lin kd k nc pc : linear_on 4 (rateB kd k nc pc).
Proof. destruct (rate_wf kd) as [Hw Hn]. exact (amg_B_lin QcS_ring QcS_eqb k k nc pc (rateLvls kd) Hw Hn (rate_lin kd)). Qed.

Lemma rateB_zero kd k nc pc : rateB kd k nc pc (vzero 4) = vzero 4.
Proof. destruct (rate_wf kd) as [Hw Hn]. exact (amg_B_zero QcS_ring QcS_eqb k k nc pc (rateLvls kd) Hw Hn (rate_lin kd)). Qed.

(* rateB is what apply returns for EVERY well-formed scratch state and EVERY incoming x *)
Lemma rateB_is_apply kd k nc pc scr (g x : vec QcS) :
  scratch_wf (rateLvls kd) scr -> length g = 4 -> length x = 4 ->
  fst (apply k k nc pc (rateLvls kd) scr g x) = rateB kd k nc pc g.
Proof. destruct (rate_wf kd) as [Hw Hn]. exact (amg_B_any QcS_eqb k k nc pc (rateLvls kd) Hw Hn scr g x). Qed.

Lemma matop_len (v : vec QcS) : length v = 4 -> length (mat_op rateM v) = 4.
Proof. intros _. apply (mat_op_length 4 rateM rateM_rows). Qed.

(* ---------- (1) the explicit rate 5/16 ---------- *)
Lemma rate_cert : cert 4 rateM rateT rateTm rateTmt rateL rateLt rateD (qc 25 256).
Proof.
  apply (cert_checkb_ok QcS_eqb).
  - intros v Lv. unfold rateT. apply (err_step_length 4 (mat_op rateM) (rateB rateJac 1 1 1) matop_len (rateB_len _ _ _ _)), Lv.
  - unfold rateT. apply (err_step_lin QcS_ring 4 (mat_op rateM) (rateB rateJac 1 1 1) matop_len).
    + apply (mat_op_lin QcS_ring QcS_eqb 4 rateM rateM_wf rateM_rows rateM_sym).
    + apply rateB_lin.
  - vm_compute. reflexivity.
Qed.

Lemma rate_contracts (e : vec QcS) : length e = 4 ->
  ole (qA 4 rateM (rateT e) (rateT e)) (qc 5 16 * qc 5 16 * qA 4 rateM e e).
Proof.
  intro Le. replace (qc 5 16 * qc 5 16) with (qc 25 256) by (apply Qc_is_canon; reflexivity).
  exact (cert_contracts QcS_ring QcS_ordered 4 rateM rateT rateTm rateTmt rateL rateLt rateD (qc 25 256) rate_cert e Le).
Qed.

(* Richardson (workspace model, damping 1) preconditioned with one V(1,1) cycle *)
Theorem richardson_amg_rate_Qc prm (u x0 : vec QcS) junk nr r w :
  length u = 4 -> length x0 = 4 -> p_damping prm = s1 ->
  k_prologue norm_a prm (mat_op rateM u) = Go nr ->
  richardson (mat_op rateM) (rateB rateJac 1 1 1) prm (mat_op rateM u) x0 junk = (KOk r, w) ->
  ole (qA 4 rateM (vsub u (k_x r)) (vsub u (k_x r)))
      (spow (qc 5 16) (2 * k_it r) * qA 4 rateM (vsub u x0) (vsub u x0)).
Proof.
  apply (richardson_rate_qA QcS_ring QcS_eqb QcS_ordered 4 rateM rateM_wf rateM_rows rateM_sym
           (rateB rateJac 1 1 1) (rateB_len _ _ _ _) (qc 5 16)).
  exact rate_contracts.
Qed.

(* the factor cannot be improved: the error (1,3,3,1) is mapped to 5/16 of itself *)
Lemma rate_attained :
  let e : vec QcS := [qc 1 1; qc 3 1; qc 3 1; qc 1 1] in
  vec_eqb (rateT e) [qc 5 16; qc 15 16; qc 15 16; qc 5 16] = true /\
  qA 4 rateM (rateT e) (rateT e) = qc 5 16 * qc 5 16 * qA 4 rateM e e /\ olt s0 (qA 4 rateM e e).
Proof.
  split; [vm_compute; reflexivity|]. split; [apply QcS_eqb; vm_compute; reflexivity|vm_compute; reflexivity].
Qed.

(* ---------- (2) strict decrease for the default smoothers, any V/W(k,k), k >= 1 ---------- *)
Definition rateJacDefault : @relax_kind QcS := RJacobi (qc 18 25).
Definition rateJacOne : @relax_kind QcS := RJacobi (qc 1 1).

Theorem richardson_amg_strict_Qc (kd : @relax_kind QcS) k nc pc prm (u x0 : vec QcS) junk nr r w :
  kd = rateJacDefault \/ kd = rateJacOne \/ kd = @RSpai0 QcS \/ kd = @RGS QcS ->
  let A := mat_op rateM in
  let B := rateB kd (Datatypes.S k) (Datatypes.S nc) (Datatypes.S pc) in
  length u = 4 -> length x0 = 4 -> p_damping prm = s1 ->
  k_prologue norm_a prm (A u) = Go nr ->
  richardson A B prm (A u) x0 junk = (KOk r, w) ->
  forall i, k_it r = Datatypes.S i ->
  A (vsub u (rich_iter A B s1 (A u) i x0)) <> vzero 4 ->
  forall j, j <= i ->
  olt (qA 4 rateM (vsub u (k_x r)) (vsub u (k_x r)))
      (qA 4 rateM (vsub u (rich_iter A B s1 (A u) j x0)) (vsub u (rich_iter A B s1 (A u) j x0))).
Proof.
  intros Hk A B Lu Lx Hd Hp Hr i Hi Hne j Hj.
  assert (Hdk : descs_ok kd exH).
  { apply (descs_okb_ok QcS_field QcS_eqb QcS_ordered QcS_abs2 QcS_sadj_id).
    destruct Hk as [->|[->|[->| ->]]]; vm_compute; reflexivity. }
  assert (Ht : top_strict_desc kd exH).
  { destruct Hk as [->|[->|[->| ->]]]; cbn.
    - left. vm_compute. reflexivity.
    - right. apply (iddb_ok QcS_eqb). vm_compute. reflexivity.
    - exact I.
    - exact I. }
  destruct (built_contracts2 QcS_field QcS_eqb QcS_ordered QcS_abs2 QcS_sadj_id kd 1 true 10 exTs exM k nc pc Hdk Ht I)
    as (HJ & _).
  apply (richardson_strict_of_C02 QcS_ring QcS_eqb QcS_ordered 4 rateM rateM_wf rateM_rows rateM_sym B
           (rateB_len _ _ _ _) (rateB_zero _ _ _ _))
    with (prm := prm) (junk := junk) (nr := nr) (w := w) (k := i); auto.
  intros g Lg Hg. unfold B, rateB, amg_B.
  apply (HJ (zscr (rateLvls kd)) g (vzero 4) (zscr_wf _) Lg (vzero_length 4) Hg).
Qed.
