(* CprDrs.v -- preconditioner::cpr_drs set-up (amgcl/preconditioner/cpr_drs.hpp), definitions
   only: first_scalar_pass 222-334 (dynamic row sum weights), init scalar 336-442, init block
   450-548.  The template constructor sorts the rows first (sort_rows, 143); the second
   traversal (App values) and the scatter matrix are those of cpr.hpp (Cpr.cpr_pass2,
   Cpr.cpr_scatter); apply() is Composite.cpr_apply.
   eps_dd, eps_ps and the weights are doubles in the C++ and enter the comparisons / fpp through
   conversion to value_type: here they are values of S (the harness uses dyadic rationals, for
   which the conversion and the product 1.0 * w are exact). *)
From Amgcl Require Import Scalar Vec Crs Kernels MatOps Adapters Composite Cpr.
From Amgcl Require Import DirectUtil.
Local Open Scope S_scope.

Section CprDrs.
Context {S : Scalar}.
Local Notation vec := (vec S).
Local Notation row := (row S).
Local Notation crs := (crs S).

(* (a_dia, a_off, a_top) after one consumed entry e of row i of the block row; is_diag = (cur_col == ip) *)
Definition drs_entry (B : nat) (is_diag : bool) (i : nat) (acc : vec * vec * vec) (e : nat * S) : vec * vec * vec :=
  let '(dia, off, top) := acc in
  let c := (fst e mod B)%nat in
  let v := snd e in
  let top' := if Nat.eqb i 0 then lset top c (vget top c + sabs v) else top in
  if Nat.eqb c 0
  then (if is_diag then (lset dia i v, off, top') else (dia, lset off i (vget off i + sabs v), top'))
  else (dia, off, top').

Fixpoint drs_pass1 (fuel B N ip : nat) (rs : list row) (acc : vec * vec * vec) : vec * vec * vec :=
  match fuel with
  | O => acc
  | Datatypes.S k =>
    match cpr_heads_min B N rs with
    | None => acc
    | Some c =>
      let sp := map (span_lt ((c + 1) * B)) rs in
      let acc' := fold_left (fun a (it : nat * row) => fold_left (drs_entry B (Nat.eqb c ip) (fst it)) (snd it) a)
                            (indexed (map fst sp)) acc in
      drs_pass1 k B N ip (map snd sp) acc'
    end
  end.

(* delta = 1; if (!weights.empty()) delta *= w; if (i > 0) { if (a_dia[i] < eps_dd * a_off[i]) delta = 0;
   if (a_top[i] < eps_ps * |a_dia[0]|) delta = 0; } *)
Definition drs_delta (eps_dd eps_ps : S) (w : option S) (i : nat) (acc : vec * vec * vec) : S :=
  let '(dia, off, top) := acc in
  let delta := match w with Some wi => wi | None => s1 end in
  if Nat.eqb i 0 then delta
  else let delta1 := if sltb (vget dia i) (eps_dd * vget off i) then s0 else delta in
       if sltb (vget top i) (eps_ps * sabs (vget dia 0)) then s0 else delta1.

Definition drs_weight_of (weights : vec) (idx : nat) : option S :=
  match weights with [] => None | _ => Some (vget weights idx) end.

Definition drs_weights (B N : nat) (K : crs) (eps_dd eps_ps : S) (weights : vec) (ip : nat) : vec :=
  let rs := cpr_block_rows B K ip in
  let z := repeat s0 B in
  let acc := drs_pass1 (total_len rs) B N ip rs (z, z, z) in
  map (fun i => drs_delta eps_dd eps_ps (drs_weight_of weights (ip * B + i)) i acc) (seq 0 B).

(* init(), scalar value type: fpp is np x n *)
Definition drs_setup (B active : nat) (K : crs) (eps_dd eps_ps : S) (weights : vec) : cpr_ops :=
  let n := nrows K in let N := cpr_N n active in
  mkCprOps
    (mkCrs n (map (fun ip => let d := drs_weights B N K eps_dd eps_ps weights ip in
                             map (fun i => ((ip * B + i)%nat, vget d i)) (seq 0 B))
                  (seq 0 (N / B))))
    (cpr_scatter B n N)
    (mkCrs (N / B) (map (fun ip => let rs := cpr_block_rows B K ip in
                                   cpr_pass2 (total_len rs) B N rs (drs_weights B N K eps_dd eps_ps weights ip))
                        (seq 0 (N / B)))).

(* the template constructor sorts the rows of its copy first *)
Definition drs_make (B active : nat) (K : crs) (eps_dd eps_ps : S) (weights : vec) : cpr_ops :=
  drs_setup B active (sort_rows K) eps_dd eps_ps weights.

(* ---- block value type: init(..., std::false_type) ---- *)
Definition drsb_entry (B : nat) (i : nat) (acc : vec * vec * vec) (cv : nat * @block S) : vec * vec * vec :=
  fold_left (fun (a : vec * vec * vec) k =>
               let '(dia, off, top) := a in
               let top' := lset top k (vget top k + sabs (bget (snd cv) 0 k)) in
               if Nat.eqb (fst cv) i then (lset dia k (bget (snd cv) k 0), off, top')
               else (dia, lset off k (vget off k + sabs (bget (snd cv) k 0)), top'))
            (seq 0 B) acc.
Definition drsb_delta (eps_dd eps_ps : S) (w : option S) (k : nat) (acc : vec * vec * vec) : S :=
  let '(dia, off, top) := acc in
  if (negb (Nat.eqb k 0) && (sltb (vget dia k) (eps_dd * vget off k) || sltb (vget top k) (eps_ps * sabs (vget dia 0))))%bool
  then s0 else match w with Some wk => wk | None => s1 end.
Definition drsb_weights (B : nat) (br : grow (@block S)) (i : nat) (eps_dd eps_ps : S) (weights : vec) : vec :=
  let z := repeat s0 B in
  let acc := fold_left (drsb_entry B i) br (z, z, z) in
  map (fun k => drsb_delta eps_dd eps_ps (drs_weight_of weights (i * B + k)) k acc) (seq 0 B).
Definition drsb_setup (B active : nat) (Kb : gcrs (@block S)) (eps_dd eps_ps : S) (weights : vec) : cpr_ops :=
  let n := length (grows Kb) in let np := cpr_N n active in
  mkCprOps
    (mkCrs (np * B) (map (fun i => let d := drsb_weights B (nth i (grows Kb) []) i eps_dd eps_ps weights in
                                   map (fun k => ((i * B + k)%nat, vget d k)) (seq 0 B))
                         (seq 0 np)))
    (mkCrs np (map (fun i => if Nat.eqb (i mod B) 0 then [((i / B)%nat, s1)] else []) (seq 0 (np * B))))
    (mkCrs np (map (fun i => let br := nth i (grows Kb) [] in
                             let d := drsb_weights B br i eps_dd eps_ps weights in
                             map (fun cv => (fst cv, cprb_app_val B d (snd cv))) br)
                   (seq 0 np))).

(* the block variant as REPAIRED: entries in inactive block columns (col >= np) take no part in the
   row sums and in App (as in the scalar variant) *)
Definition drsb_setup_f (B active : nat) (Kb : gcrs (@block S)) (eps_dd eps_ps : S) (weights : vec) : cpr_ops :=
  let n := length (grows Kb) in let np := cpr_N n active in
  let act (br : grow (@block S)) := filter (fun cv => Nat.ltb (fst cv) np) br in
  mkCprOps
    (mkCrs (np * B) (map (fun i => let d := drsb_weights B (act (nth i (grows Kb) [])) i eps_dd eps_ps weights in
                                   map (fun k => ((i * B + k)%nat, vget d k)) (seq 0 B))
                         (seq 0 np)))
    (mkCrs np (map (fun i => if Nat.eqb (i mod B) 0 then [((i / B)%nat, s1)] else []) (seq 0 (np * B))))
    (mkCrs np (map (fun i => let br := act (nth i (grows Kb) []) in
                             let d := drsb_weights B br i eps_dd eps_ps weights in
                             map (fun cv => (fst cv, cprb_app_val B d (snd cv))) br)
                   (seq 0 np))).
Definition drsb_make_f (B active : nat) (Kb : gcrs (@block S)) (eps_dd eps_ps : S) (weights : vec) : cpr_ops :=
  drsb_setup_f B active (mkG (gncols Kb) (map gsort_row (grows Kb))) eps_dd eps_ps weights.

(* partial_update(K', true) as REPAIRED (first_scalar_pass(K', get_app = false) no longer touches the
   absent App): Fpp is recomputed from the sorted copy of K'; the weights do not depend on get_app *)
Definition drs_partial_update (B active : nat) (ops : cpr_ops) (K' : crs) (eps_dd eps_ps : S) (weights : vec)
    (update_transfer : bool) : cpr_ops :=
  if update_transfer
  then mkCprOps (c_fpp (drs_make B active K' eps_dd eps_ps weights)) (c_scatter ops) (c_app ops)
  else ops.

Definition drsb_make (B active : nat) (Kb : gcrs (@block S)) (eps_dd eps_ps : S) (weights : vec) : cpr_ops :=
  drsb_setup B active (mkG (gncols Kb) (map gsort_row (grows Kb))) eps_dd eps_ps weights.

End CprDrs.
