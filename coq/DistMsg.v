(* DistMsg.v -- a small message-passing model for the clause of C11 "for any message arrival order the
   MPI runtime produces".  Definitions only; proofs: DistMsgProofs.v.

   A rank's behaviour is its TRACE of point-to-point events (what harness/pmpi_trace.hpp records through
   the PMPI interface, plus the writes to send buffers):
     Isend h buf peer tag   MPI_Isend from send buffer [buf] to rank [peer]; h names the MPI_Request variable
     Irecv h slot peer tag  MPI_Irecv from rank [peer] into receive buffer [slot]
     Wait hs                a completion call (MPI_Wait / MPI_Waitall) on the request variables hs: it completes,
                            for every h in hs, the LATEST request started with variable h
     Write buf v            the program stores v into send buffer [buf] (e.g. the gather of the ghost values)
   Send buffers and receive buffers are separate name spaces (amgcl's exchange uses send.val / recv.val);
   wildcard receives (MPI_ANY_SOURCE / MPI_ANY_TAG) are not expressible: every receive names peer and tag.

   What the runtime may do (the nondeterminism):
   * a pending send reads its buffer at ANY point between the MPI_Isend and the completion call -- or, if the
     program never completes the request (the variable is overwritten, or the trace ends), at any later point
     ([cap]: capture point, a position in the sender's own event sequence);
   * a pending receive is written at any time while it is pending; when two receives into the same buffer are
     pending simultaneously, either message may land last ([clob]: which other receive, if any, overwrote the
     buffer before it was read);
   * TRUSTED (MPI 3.1 section 3.5, "order"): messages are non-overtaking -- the k-th receive a rank posts for
     (source q, tag t) matches the k-th send rank q posts for (dest, tag t), whatever the arrival times.
   Progress and deadlock are not modelled. *)
From Amgcl Require Import Scalar Vec Crs Kernels MatOps Dist.
Local Open Scope nat_scope.

(* map with the element's index, counting from b *)
Fixpoint mapi_from {X Y : Type} (f : nat -> X -> Y) (b : nat) (l : list X) : list Y :=
  match l with
  | [] => []
  | x :: l' => f b x :: mapi_from f (Datatypes.S b) l'
  end.

Section Msg.
Variable V : Type.     (* message payloads *)

Inductive ev : Type :=
| Isend (h buf peer tag : nat)
| Irecv (h slot peer tag : nat)
| Wait (hs : list nat)
| Write (buf : nat) (v : V).
Definition prog := list ev.
Definition world := list prog.     (* indexed by rank *)

Definition starts (h : nat) (e : ev) : bool :=
  match e with Isend h' _ _ _ => Nat.eqb h' h | Irecv h' _ _ _ => Nat.eqb h' h | _ => false end.
Definition waits (h : nat) (e : ev) : bool :=
  match e with Wait hs => existsb (Nat.eqb h) hs | _ => false end.
Definition handle_of (e : ev) : option nat :=
  match e with Isend h _ _ _ => Some h | Irecv h _ _ _ => Some h | _ => None end.

(* offset, in the events AFTER the start, of the call that completes the request held by variable h;
   None: the variable is overwritten first or the trace ends -- the request is never completed *)
Fixpoint until_done (h : nat) (l : list ev) : option nat :=
  match l with
  | [] => None
  | e :: l' => if waits h e then Some 0
               else if starts h e then None
               else option_map Datatypes.S (until_done h l')
  end.
(* the request started at position [pos] with variable h is pending during the events pos+1 .. limit-1;
   limit = the position of its completion call, or the end of the trace *)
Definition limit (p : prog) (pos h : nat) : nat :=
  match until_done h (skipn (Datatypes.S pos) p) with
  | Some k => Datatypes.S pos + k
  | None => length p
  end.

(* content of send buffer [buf] after the first c events *)
Definition mem_step (buf : nat) (m : option V) (e : ev) : option V :=
  match e with Write b v => if Nat.eqb b buf then Some v else m | _ => m end.
Definition mem_at (p : prog) (c buf : nat) : option V := fold_left (mem_step buf) (firstn c p) None.

(* channels *)
Definition is_send_to (r t : nat) (e : ev) : bool :=
  match e with Isend _ _ peer tag => Nat.eqb peer r && Nat.eqb tag t | _ => false end.
Definition is_recv_from (q t : nat) (e : ev) : bool :=
  match e with Irecv _ _ peer tag => Nat.eqb peer q && Nat.eqb tag t | _ => false end.
Definition count (f : ev -> bool) (l : list ev) : nat := length (filter f l).
Fixpoint positions_from (f : ev -> bool) (b : nat) (p : prog) : list nat :=
  match p with
  | [] => []
  | e :: p' => if f e then b :: positions_from f (Datatypes.S b) p' else positions_from f (Datatypes.S b) p'
  end.
Definition positions (f : ev -> bool) (p : prog) : list nat := positions_from f 0 p.

(* ---- schedules ---- *)
Definition capture := nat -> nat -> nat.          (* rank, position of the Isend -> capture point *)
Definition clobber := nat -> nat -> option nat.   (* rank, position of the Irecv -> the receive that landed later *)

Definition cap_admissible (W : world) (cap : capture) : Prop :=
  forall q ps h b r t, nth_error (nth q W []) ps = Some (Isend h b r t) ->
    Datatypes.S ps <= cap q ps <= limit (nth q W []) ps h.
Definition clob_admissible (W : world) (clob : clobber) : Prop :=
  forall r pos pos', clob r pos = Some pos' ->
    exists h s q t h' q' t',
      nth_error (nth r W []) pos = Some (Irecv h s q t) /\
      nth_error (nth r W []) pos' = Some (Irecv h' s q' t') /\
      pos <> pos' /\ pos' < limit (nth r W []) pos h /\ pos < limit (nth r W []) pos' h'.
(* the "atomic" schedule: every message carries the buffer content at the time of the MPI_Isend,
   nothing is clobbered *)
Definition cap_atomic : capture := fun _ ps => Datatypes.S ps.
Definition clob_none : clobber := fun _ _ => None.

(* ---- what a receive delivers ---- *)
(* the message matched with the receive posted at position pos of rank r (non-overtaking rule) and its
   payload under the capture schedule; None: not a receive / no matching send / buffer never written *)
Definition recv_val (W : world) (cap : capture) (r pos : nat) : option V :=
  match nth_error (nth r W []) pos with
  | Some (Irecv _ _ q t) =>
      let k := count (is_recv_from q t) (firstn pos (nth r W [])) in
      match nth_error (positions (is_send_to r t) (nth q W [])) k with
      | Some ps => match nth_error (nth q W []) ps with
                   | Some (Isend _ b _ _) => mem_at (nth q W []) (cap q ps) b
                   | _ => None
                   end
      | None => None
      end
  | _ => None
  end.
(* what the program reads from the receive buffer after the completion call *)
Definition obs (W : world) (cap : capture) (clob : clobber) (r pos : nat) : option V :=
  match clob r pos with
  | None => recv_val W cap r pos
  | Some pos' => recv_val W cap r pos'
  end.

(* ---- the request discipline (what harness/pmpi_trace.hpp checks on the real call sequence) ---- *)
(* (a) [+ (f)] every request started is completed by the program *)
Definition all_waited (p : prog) : bool :=
  forallb (fun ie => match handle_of (snd ie) with
                     | Some h => match until_done h (skipn (Datatypes.S (fst ie)) p) with Some _ => true | None => false end
                     | None => true
                     end) (indexed p).
(* (e) a send buffer is not written while a send from it is pending *)
Definition is_write_to (b : nat) (e : ev) : bool := match e with Write b' _ => Nat.eqb b' b | _ => false end.
Definition send_stable (p : prog) : bool :=
  forallb (fun ie => match snd ie with
                     | Isend h b _ _ =>
                         let pos := fst ie in
                         negb (existsb (is_write_to b) (firstn (limit p pos h - Datatypes.S pos) (skipn (Datatypes.S pos) p)))
                     | _ => true
                     end) (indexed p).
(* (d) no two simultaneously pending receives into the same buffer;
   (c) no two simultaneously pending receives from the same (peer, tag).  (c) is not needed for the theorem
   (the non-overtaking rule already fixes the matching); the shim checks it as a defensive measure *)
Definition recv_handle (e : ev) : option nat := match e with Irecv h _ _ _ => Some h | _ => None end.
Definition pending_overlap (p : prog) (pos h pos' h' : nat) : bool :=
  negb (Nat.eqb pos pos') && Nat.ltb pos' (limit p pos h) && Nat.ltb pos (limit p pos' h').
Definition recvs_exclusive (same : ev -> ev -> bool) (p : prog) : bool :=
  forallb (fun ie => forallb (fun ie' =>
      match recv_handle (snd ie), recv_handle (snd ie') with
      | Some h, Some h' => negb (same (snd ie) (snd ie') && pending_overlap p (fst ie) h (fst ie') h')
      | _, _ => true
      end) (indexed p)) (indexed p).
Definition same_slot (e e' : ev) : bool :=
  match e, e' with Irecv _ s _ _, Irecv _ s' _ _ => Nat.eqb s s' | _, _ => false end.
Definition same_chan (e e' : ev) : bool :=
  match e, e' with Irecv _ _ q t, Irecv _ _ q' t' => Nat.eqb q q' && Nat.eqb t t' | _, _ => false end.
Definition slots_exclusive (p : prog) : bool := recvs_exclusive same_slot p.
Definition chans_exclusive (p : prog) : bool := recvs_exclusive same_chan p.
Definition disciplined (p : prog) : bool :=
  all_waited p && send_stable p && slots_exclusive p && chans_exclusive p.

(* channel balance of a world: as many sends q -> r with tag t as receives on r from q with tag t *)
Definition balanced (W : world) : Prop :=
  forall q r t, length (positions (is_send_to r t) (nth q W [])) = count (is_recv_from q t) (nth r W []).

(* per-rank sequential composition *)
Definition wapp (W1 W2 : world) : world := map2 (@app ev) W1 W2.

End Msg.
Arguments Isend {V}. Arguments Irecv {V}. Arguments Wait {V}. Arguments Write {V}.

(* ------------------------------------------------------------------ *)
(* The ghost exchange of amgcl (comm_pattern::start_exchange / finish_exchange,
   distributed_matrix.hpp:248-273) as a trace; payloads are slices of vectors. *)
Section Exchange.
Context {S : Scalar}.
Local Notation vec := (vec S).

(* one exchange on a rank with pattern P and local vector x:
     MPI_Irecv for every receive neighbour (request variable recv.req[i] = handle i, buffer slice i of recv.val),
     gather x into send.val (one slice per send neighbour),
     MPI_Isend for every send neighbour (request variable send.req[j] = handle nr + j, slice j of send.val),
     MPI_Waitall(recv.req), MPI_Waitall(send.req) *)
Definition exch_round (tag : nat) (P : cpat) (x : vec) : prog vec :=
  let rn := nbrs (cp_recv P) in
  let sn := nbrs (cp_send P) in
  let nr := length rn in
  mapi_from (fun i d => Irecv i i d tag) 0 rn
  ++ mapi_from (fun j d => Write j (gather x (nth d (cp_send P) []))) 0 sn
  ++ mapi_from (fun j d => Isend (nr + j) j d tag) 0 sn
  ++ [Wait (seq 0 nr); Wait (seq nr (length sn))].
Definition exch_world (tag : nat) (pats : list cpat) (xs : list vec) : world vec :=
  map (fun r => exch_round tag (nth r pats dflt_cpat) (nth r xs [])) (seq 0 (length pats)).
(* consecutive exchanges with the same pattern (two products in a row, ...): xss = one world of vectors per round *)
Definition exch_rounds (tag : nat) (pats : list cpat) (xss : list (list vec)) : world vec :=
  fold_right (fun xs W => wapp vec (exch_world tag pats xs) W) (map (fun _ => []) pats) xss.

(* the regression seeded by an independent reviewer (finish_exchange returns early when the rank expects no
   ghost values): such a rank never completes its sends *)
Definition exch_round_early_return (tag : nat) (P : cpat) (x : vec) : prog vec :=
  if is_nil (nbrs (cp_recv P))
  then filter (fun e => match e with Wait _ => false | _ => true end) (exch_round tag P x)
  else exch_round tag P x.
Definition exch_world_early_return (tag : nat) (pats : list cpat) (xs : list vec) : world vec :=
  map (fun r => exch_round_early_return tag (nth r pats dflt_cpat) (nth r xs [])) (seq 0 (length pats)).
Definition exch_rounds_early_return (tag : nat) (pats : list cpat) (xss : list (list vec)) : world vec :=
  fold_right (fun xs W => wapp vec (exch_world_early_return tag pats xs) W) (map (fun _ => []) pats) xss.

(* the values rank r reads from recv.val after round m: one slice per receive neighbour *)
Definition round_len (P : cpat) : nat :=
  length (nbrs (cp_recv P)) + length (nbrs (cp_send P)) + length (nbrs (cp_send P)) + 2.
Definition round_obs (W : world vec) (cap : capture) (clob : clobber) (P : cpat) (r m : nat) : list (option vec) :=
  map (fun i => obs vec W cap clob r (m * round_len P + i)) (seq 0 (length (nbrs (cp_recv P)))).

End Exchange.
