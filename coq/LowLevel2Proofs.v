(* LowLevel2Proofs.v -- C10-A2, second layer: basic facts about the memory monad of LowLevel2.v,
   the flat <-> list-of-rows round trip, and detail::sort_row / backend::sort_rows:
   on every input the array-level insertion sort stays inside the row, reads no unwritten
   cell, never exhausts its loop bound and leaves exactly MatOps.sort_row in the arrays.
   No algebraic law is used (any Scalar record). *)
From Coq Require Import ZArith Lia Sorting.Sorted.
From Amgcl Require Import Scalar Vec Crs Kernels MatOps MatOpsProofs LowLevel LowLevelProofs LowLevelT LowLevelTProofs LowLevel2.
Local Open Scope nat_scope.

(* ------------------------------------------------------------------ checked accesses *)
Lemma mrd_app {X} (a : marr X) b t : mrd (a ++ Some b :: t) (length a) = Done b.
Proof. unfold mrd. rewrite nth_error_app2, Nat.sub_diag by lia. reflexivity. Qed.
Lemma mrd_app_len {X} (a : marr X) b t k : length a = k -> mrd (a ++ Some b :: t) k = Done b.
Proof. intros <-. apply mrd_app. Qed.
Lemma mwr_app {X} (a : marr X) b t v : mwr (a ++ b :: t) (length a) v = Done (a ++ Some v :: t).
Proof. induction a as [|h a IH]; simpl; [reflexivity|]. rewrite IH. reflexivity. Qed.
Lemma mwr_app_len {X} (a : marr X) b t v k : length a = k -> mwr (a ++ b :: t) k v = Done (a ++ Some v :: t).
Proof. intros <-. apply mwr_app. Qed.
Lemma mrd_filled {X} (l : list X) i d : i < length l -> mrd (filled l) i = Done (nth i l d).
Proof.
  intro H. unfold mrd, filled. rewrite nth_error_map, (nth_error_nth' l d H). reflexivity.
Qed.
Lemma ird_ok {X} (l : list X) i d : i < length l -> ird l i = Done (nth i l d).
Proof. intro H. unfold ird. rewrite (nth_error_nth' l d H). reflexivity. Qed.
Lemma ird_app {X} (a : list X) b t : ird (a ++ b :: t) (length a) = Done b.
Proof. unfold ird. rewrite nth_error_app2, Nat.sub_diag by lia. reflexivity. Qed.
Lemma filled_app {X} (a b : list X) : filled (a ++ b) = filled a ++ filled b.
Proof. apply map_app. Qed.
Lemma filled_length {X} (a : list X) : length (filled a) = length a.
Proof. apply map_length. Qed.
Lemma fresh_length {X} n : length (@fresh X n) = n.
Proof. apply repeat_length. Qed.
Lemma all_init_filled {X} (l : list X) : all_init (filled l) = true.
Proof. induction l; simpl; auto. Qed.
Lemma contents_filled {X} (d : X) l : contents d (filled l) = l.
Proof. unfold contents, filled. rewrite map_map. apply map_id. Qed.

(* ------------------------------------------------------------------ loops *)
Lemma mfor_step {St} lo cnt (body : nat -> St -> mres St) st :
  mfor lo (Datatypes.S cnt) body st = mbind (body lo st) (mfor (Datatypes.S lo) cnt body).
Proof.
  unfold mfor. simpl. destruct (body lo st) as [st'| | |]; [reflexivity| | |];
    simpl; induction (seq (Datatypes.S lo) cnt) as [|a l IH]; simpl; auto.
Qed.
Lemma mfor_zero {St} lo (body : nat -> St -> mres St) st : mfor lo 0 body st = Done st.
Proof. reflexivity. Qed.
Lemma mfor_ext {St} lo cnt (b1 b2 : nat -> St -> mres St) st :
  (forall i s, lo <= i < lo + cnt -> b1 i s = b2 i s) -> mfor lo cnt b1 st = mfor lo cnt b2 st.
Proof.
  revert lo st; induction cnt as [|k IH]; intros lo st H; [reflexivity|].
  rewrite !mfor_step. rewrite (H lo st) by lia.
  destruct (b2 lo st) as [st'| | |]; simpl; try reflexivity. apply IH. intros i s Hi. apply H. lia.
Qed.
(* the workhorse: a loop whose body, under an invariant, is a total pure step *)
Lemma mfor_inv {St} (P : nat -> St -> Prop) (body : nat -> St -> mres St) (g : nat -> St -> St) :
  forall cnt lo st,
  P lo st ->
  (forall i s, lo <= i < lo + cnt -> P i s -> body i s = Done (g i s) /\ P (Datatypes.S i) (g i s)) ->
  mfor lo cnt body st = Done (fold_left (fun s i => g i s) (seq lo cnt) st) /\
  P (lo + cnt) (fold_left (fun s i => g i s) (seq lo cnt) st).
Proof.
  induction cnt as [|k IH]; intros lo st H0 Hs.
  - rewrite Nat.add_0_r. split; [reflexivity|exact H0].
  - rewrite mfor_step. destruct (Hs lo st ltac:(lia) H0) as [Hb Hp]. rewrite Hb. cbn [mbind seq fold_left].
    replace (lo + Datatypes.S k)%nat with (Datatypes.S lo + k)%nat by lia.
    apply IH; [exact Hp|]. intros i s Hi. apply Hs. lia.
Qed.
Lemma mfor_app {St} lo c1 c2 (body : nat -> St -> mres St) st :
  mfor lo (c1 + c2) body st = mbind (mfor lo c1 body st) (mfor (lo + c1) c2 body).
Proof.
  revert lo st; induction c1 as [|k IH]; intros lo st.
  - rewrite Nat.add_0_r. reflexivity.
  - cbn [Nat.add]. rewrite !mfor_step. destruct (body lo st) as [s'| | |]; cbn [mbind]; try reflexivity.
    rewrite IH. replace (Datatypes.S lo + k)%nat with (lo + Datatypes.S k)%nat by lia. reflexivity.
Qed.

(* ------------------------------------------------------------------ flat <-> rows *)
Lemma psum_from_app acc a b :
  psum_from acc (a ++ b) = psum_from acc a ++ psum_from (fold_left Nat.add a acc) b.
Proof.
  revert acc; induction a as [|x a IH]; intro acc; simpl; [reflexivity|].
  rewrite IH. reflexivity.
Qed.
Lemma fold_add_lengths {X} (l : list (list X)) acc :
  fold_left Nat.add (map (@length X) l) acc = (acc + length (concat l))%nat.
Proof.
  revert acc; induction l as [|r l IH]; intro acc; simpl; [lia|].
  rewrite IH, app_length. lia.
Qed.
(* ptr[i] of flat_of A = number of entries in the rows before i *)
Lemma flat_ptr_nth {X} (done : list (list X)) todo :
  nth (length done) (0%nat :: psum (map (@length X) (done ++ todo))) 0%nat = length (concat done).
Proof.
  destruct done as [|r0 done'] using rev_ind; [reflexivity|].
  rewrite app_length. cbn [length]. rewrite Nat.add_1_r. cbn [nth].
  unfold psum. rewrite <- app_assoc, map_app, psum_from_app. cbn [app map psum_from].
  rewrite app_nth2; rewrite psum_from_length, map_length; [|lia]. rewrite Nat.sub_diag. cbn [nth].
  rewrite fold_add_lengths, concat_app, app_length. simpl. rewrite app_nil_r. lia.
Qed.
Lemma flat_ptr_length {X} (l : list (list X)) : length (0%nat :: psum (map (@length X) l)) = Datatypes.S (length l).
Proof. cbn [length]. unfold psum. rewrite psum_from_length, map_length. reflexivity. Qed.

Lemma flat_ptr_mono {X} (l : list (list X)) i : i < length l ->
  nth i (0 :: psum (map (@length X) l)) 0 <= nth (Datatypes.S i) (0 :: psum (map (@length X) l)) 0.
Proof.
  intro Hi. destruct (nth_split l [] Hi) as (l1 & l2 & Heq & Hl).
  remember (nth i l []) as r eqn:Hr. clear Hr. subst l i.
  rewrite (flat_ptr_nth l1 (r :: l2)).
  replace (l1 ++ r :: l2) with ((l1 ++ [r]) ++ l2) by (rewrite <- app_assoc; reflexivity).
  replace (Datatypes.S (length l1)) with (length (l1 ++ [r])) by (rewrite app_length; simpl; lia).
  rewrite (flat_ptr_nth (l1 ++ [r]) l2). rewrite concat_app, app_length. lia.
Qed.
Lemma flat_ptr_last {X} (l : list (list X)) :
  nth (length l) (0 :: psum (map (@length X) l)) 0 = length (concat l).
Proof. rewrite <- (app_nil_r l) at 2. apply flat_ptr_nth. Qed.

Section Flat.
Context {S : Scalar}.
Local Notation vec := (vec S).
Local Notation row := (row S).
Local Notation crs := (crs S).

Lemma slice_app_mid {X} (a b c : list X) : slice (a ++ b ++ c) (length a) (length a + length b) = b.
Proof.
  unfold slice. rewrite skipn_app, skipn_all, Nat.sub_diag. cbn [skipn app].
  replace (length a + length b - length a)%nat with (length b + 0)%nat by lia.
  rewrite firstn_app_2. cbn [firstn]. apply app_nil_r.
Qed.

Lemma frow_flat (done : list (list (nat * S))) (r : list (nat * S)) (todo : list (list (nat * S))) m :
  frow (flat_of (mkCrs m (done ++ r :: todo))) (length done) = r.
Proof.
  unfold frow, flat_of. cbn [fptr fcol fval rows].
  rewrite (@flat_ptr_nth (nat * S) done (r :: todo)).
  replace (done ++ r :: todo) with ((done ++ [r]) ++ todo) by (rewrite <- app_assoc; reflexivity).
  replace (Datatypes.S (length done)) with (length (done ++ [r])) by (rewrite app_length; simpl; lia).
  rewrite (@flat_ptr_nth (nat * S) (done ++ [r]) todo).
  rewrite !concat_app. cbn [concat]. rewrite app_nil_r, !map_app, app_length.
  rewrite <- !app_assoc.
  rewrite <- (map_length fst (concat done)) at 1 2.
  rewrite <- (map_length fst r) at 1.
  rewrite slice_app_mid.
  rewrite <- (map_length snd (concat done)), <- (map_length snd r).
  rewrite slice_app_mid.
  clear. induction r as [|[c v] r IH]; simpl; [reflexivity|]. rewrite IH. reflexivity.
Qed.

Theorem unflat_flat (A : crs) : unflat (flat_of A) = A.
Proof.
  destruct A as [m rs]. unfold unflat. cbn [fm fn flat_of nrows rows ncols]. f_equal.
  apply nth_ext with (d := []) (d' := []); [rewrite map_length, seq_length; reflexivity|].
  intros i Hi. rewrite map_length, seq_length in Hi.
  rewrite (nth_indep _ [] (frow (flat_of (mkCrs m rs)) 0%nat)) by (rewrite map_length, seq_length; exact Hi).
  rewrite map_nth, seq_nth by exact Hi. cbn [Nat.add].
  destruct (nth_split rs [] Hi) as (l1 & l2 & Heq & Hl).
  rewrite Heq at 1. rewrite <- Hl. rewrite frow_flat. rewrite Heq, <- Hl.
  rewrite app_nth2, Nat.sub_diag by lia. reflexivity.
Qed.

Theorem flat_of_fwf (A : crs) : wf A = true -> fwf (flat_of A).
Proof.
  intro HA. unfold fwf, flat_of. cbn [fn fm fptr fcol fval]. repeat split.
  - apply flat_ptr_length.
  - intros i Hi. apply flat_ptr_mono. exact Hi.
  - rewrite map_length. apply flat_ptr_last.
  - rewrite !map_length. reflexivity.
  - intros c Hc. apply in_map_iff in Hc. destruct Hc as ([c' v] & <- & Hin).
    apply in_concat in Hin. destruct Hin as (r & Hr & Hin).
    unfold wf in HA. rewrite forallb_forall in HA. specialize (HA r Hr).
    unfold row_wf in HA. rewrite forallb_forall in HA. specialize (HA _ Hin).
    apply Nat.ltb_lt in HA. exact HA.
Qed.

Lemma map_fst_combine {X Y} (a : list X) (b : list Y) : length a = length b -> map fst (combine a b) = a.
Proof. revert b; induction a as [|x a IH]; intros [|y b] H; simpl in *; try congruence. f_equal. apply IH. lia. Qed.
Lemma map_snd_combine {X Y} (a : list X) (b : list Y) : length a = length b -> map snd (combine a b) = b.
Proof. revert b; induction a as [|x a IH]; intros [|y b] H; simpl in *; try congruence. f_equal. apply IH. lia. Qed.
Lemma firstn_slice {X} (l : list X) : forall p e, p <= e -> firstn p l ++ slice l p e = firstn e l.
Proof.
  unfold slice. induction l as [|a l IH]; intros p e H.
  - rewrite skipn_nil, !firstn_nil. reflexivity.
  - destruct p as [|p]; [simpl; rewrite Nat.sub_0_r; reflexivity|].
    destruct e as [|e]; [lia|]. cbn [firstn skipn Nat.sub app]. f_equal. apply IH. lia.
Qed.
Lemma slice_length {X} (l : list X) p e : e <= length l -> length (slice l p e) = e - p.
Proof. intro H. unfold slice. rewrite firstn_length, skipn_length. lia. Qed.
Lemma firstn_map_seq {X} (f : nat -> X) n i : i <= n -> firstn i (map f (seq 0 n)) = map f (seq 0 i).
Proof.
  intro H. replace n with (i + (n - i)) by lia. rewrite seq_app, map_app.
  rewrite firstn_app, map_length, seq_length, Nat.sub_diag. cbn [firstn].
  rewrite firstn_all2 by (rewrite map_length, seq_length; lia). apply app_nil_r.
Qed.

Section FlatWf.
Variable F : fcrs S.
Hypothesis W : fwf F.
Let n := fn F.
Let ptr (i : nat) := nth i (fptr F) 0.

Lemma fw_mono i j : i <= j -> j <= n -> ptr i <= ptr j.
Proof. intros. apply (fptr_mono F W); assumption. Qed.
Lemma fw_top j : j <= n -> ptr j <= length (fcol F).
Proof. intro H. destruct W as (_ & _ & _ & Hn & _). rewrite <- Hn. apply fw_mono; [exact H|lia]. Qed.

Lemma frow_fst i : i < n -> map fst (frow F i) = slice (fcol F) (ptr i) (ptr (Datatypes.S i)).
Proof.
  intro Hi. unfold frow. apply map_fst_combine.
  destruct W as (_ & _ & _ & _ & Hv & _).
  rewrite !slice_length; [reflexivity| |]; [rewrite Hv|]; apply fw_top; lia.
Qed.
Lemma frow_snd i : i < n -> map snd (frow F i) = slice (fval F) (ptr i) (ptr (Datatypes.S i)).
Proof.
  intro Hi. unfold frow. apply map_snd_combine.
  destruct W as (_ & _ & _ & _ & Hv & _).
  rewrite !slice_length; [reflexivity| |]; [rewrite Hv|]; apply fw_top; lia.
Qed.

Lemma rows_prefix k : k <= n ->
  map fst (concat (map (frow F) (seq 0 k))) = firstn (ptr k) (fcol F) /\
  map snd (concat (map (frow F) (seq 0 k))) = firstn (ptr k) (fval F).
Proof.
  induction k as [|k IH]; intro Hk.
  - destruct W as (_ & H0 & _). unfold ptr. rewrite H0. split; reflexivity.
  - destruct (IH ltac:(lia)) as [I1 I2].
    rewrite seq_S, map_app, concat_app, !map_app. cbn [map concat Nat.add]. rewrite !app_nil_r.
    rewrite I1, I2, frow_fst, frow_snd by lia.
    rewrite !firstn_slice by (apply fw_mono; lia). split; reflexivity.
Qed.

Theorem flat_unflat : flat_of (unflat F) = F.
Proof.
  destruct (rows_prefix n (le_n _)) as [Hc Hv].
  pose proof W as (Hlen & H0 & Hm & Hn & Hvl & Hcol).
  assert (Er : rows (unflat F) = map (frow F) (seq 0 n)) by reflexivity.
  assert (En : nrows (unflat F) = n) by (unfold nrows; rewrite Er, map_length, seq_length; reflexivity).
  unfold flat_of. rewrite En, Er, Hc, Hv. unfold ptr. fold n in Hn. rewrite Hn.
  rewrite <- Hvl at 2. rewrite !firstn_all. cbn [ncols unflat].
  assert (Ep : 0 :: psum (map (@length (nat * S)) (map (frow F) (seq 0 n))) = fptr F).
  { apply nth_ext with (d := 0) (d' := 0).
    - rewrite (@flat_ptr_length (nat * S)), map_length, seq_length. fold n in Hlen. lia.
    - intros i Hi. rewrite (@flat_ptr_length (nat * S)), map_length, seq_length in Hi.
      assert (Hin : i <= n) by lia.
      set (rs := map (frow F) (seq 0 n)).
      rewrite <- (firstn_skipn i rs).
      replace i with (length (firstn i rs)) at 1
        by (rewrite firstn_length; unfold rs; rewrite map_length, seq_length; lia).
      rewrite (@flat_ptr_nth (nat * S)). unfold rs. rewrite firstn_map_seq by exact Hin.
      destruct (rows_prefix i Hin) as [Hci _].
      rewrite <- (map_length fst), Hci, firstn_length.
      pose proof (fw_top i Hin) as Ht. unfold ptr in *. lia. }
  rewrite Ep. destruct F; reflexivity.
Qed.
End FlatWf.

End Flat.

(* ------------------------------------------------------------------ detail::sort_row *)
Section SortRow.
Context {S : Scalar}.
Local Notation row := (row S).

(* insertion from the right, as the while loop does it: walk down over the elements with a
   strictly greater column *)
Fixpoint insr_rev (e : nat * S) (l : row) : row :=
  match l with
  | [] => [e]
  | a :: t => if Nat.ltb (fst e) (fst a) then a :: insr_rev e t else e :: a :: t
  end.
Definition insr (e : nat * S) (r : row) : row := rev (insr_rev e (rev r)).

Lemma insr_nil e : insr e [] = [e].
Proof. reflexivity. Qed.
Lemma insr_snoc e (r : row) a :
  insr e (r ++ [a]) = if Nat.ltb (fst e) (fst a) then insr e r ++ [a] else r ++ [a; e].
Proof.
  unfold insr. rewrite rev_unit. cbn [insr_rev]. destruct (Nat.ltb (fst e) (fst a)).
  - reflexivity.
  - cbn [rev]. rewrite rev_involutive, <- app_assoc. reflexivity.
Qed.

Lemma ins_right_snoc_gt e (r : row) a : fst e < fst a -> ins_right e (r ++ [a]) = ins_right e r ++ [a].
Proof.
  intro H. induction r as [|b r IH]; simpl.
  - destruct (Nat.leb_spec (fst a) (fst e)); [lia|reflexivity].
  - destruct (Nat.leb (fst b) (fst e)); [rewrite IH|]; reflexivity.
Qed.
Lemma ins_right_all_le e (r : row) : Forall (fun b => fst b <= fst e) r -> ins_right e r = r ++ [e].
Proof.
  induction 1 as [|b r Hb _ IH]; simpl; [reflexivity|].
  destruct (Nat.leb_spec (fst b) (fst e)); [rewrite IH; reflexivity|lia].
Qed.
Lemma SS_snoc_inv (r : row) a : StronglySorted lec (r ++ [a]) ->
  StronglySorted lec r /\ Forall (fun b => fst b <= fst a) r.
Proof.
  induction r as [|b r IH]; intro H; [split; constructor|].
  simpl in H. inversion H as [|? ? Hss Hall]; subst. destruct (IH Hss) as [I1 I2]. split.
  - constructor; [exact I1|]. rewrite Forall_forall in *. intros x Hx. apply Hall. apply in_or_app. left. exact Hx.
  - constructor; [|exact I2]. rewrite Forall_forall in Hall. apply (Hall a). apply in_or_app. right. left. reflexivity.
Qed.
Lemma insr_sorted e (r : row) : StronglySorted lec r -> insr e r = ins_right e r.
Proof.
  induction r as [|a r IH] using rev_ind; intro H; [reflexivity|].
  destruct (SS_snoc_inv r a H) as [Hr Hle]. rewrite insr_snoc.
  destruct (Nat.ltb_spec (fst e) (fst a)) as [Hlt|Hge].
  - rewrite ins_right_snoc_gt by exact Hlt. rewrite IH by exact Hr. reflexivity.
  - rewrite ins_right_all_le; [rewrite <- app_assoc; reflexivity|].
    apply Forall_app. split; [|constructor; [exact Hge|constructor]].
    rewrite Forall_forall in *. intros x Hx. specialize (Hle x Hx). lia.
Qed.

(* the two arrays with the row [L] at offset |P| = |P'| *)
Definition arrs (P Q : marr nat) (P' Q' : marr S) (L : row) : cvarr :=
  (P ++ filled (map fst L) ++ Q, P' ++ filled (map snd L) ++ Q').

Section Row.
Variables (P Q : marr nat) (P' Q' : marr S) (off n : nat).
Hypothesis HP : length P = off.
Hypothesis HP' : length P' = off.

Lemma srd_col (L1 L2 : row) a : length (L1 ++ a :: L2) = n ->
  srd (fst (arrs P Q P' Q' (L1 ++ a :: L2))) off n (Z.of_nat (length L1)) = Done (fst a).
Proof.
  intro Hn. rewrite app_length in Hn. cbn [length] in Hn. unfold srd.
  destruct (Z.ltb_spec (Z.of_nat (length L1)) 0); [lia|].
  destruct (Z.leb_spec (Z.of_nat n) (Z.of_nat (length L1))); [lia|]. cbn [orb].
  rewrite Nat2Z.id. unfold arrs. cbn [fst]. rewrite map_app, filled_app. cbn [map filled].
  rewrite <- app_assoc, app_assoc. cbn [app]. apply mrd_app_len.
  rewrite app_length, filled_length, map_length. lia.
Qed.
Lemma srd_val (L1 L2 : row) a : length (L1 ++ a :: L2) = n ->
  srd (snd (arrs P Q P' Q' (L1 ++ a :: L2))) off n (Z.of_nat (length L1)) = Done (snd a).
Proof.
  intro Hn. rewrite app_length in Hn. cbn [length] in Hn. unfold srd.
  destruct (Z.ltb_spec (Z.of_nat (length L1)) 0); [lia|].
  destruct (Z.leb_spec (Z.of_nat n) (Z.of_nat (length L1))); [lia|]. cbn [orb].
  rewrite Nat2Z.id. unfold arrs. cbn [snd]. rewrite map_app, filled_app. cbn [map filled].
  rewrite <- app_assoc, app_assoc. cbn [app]. apply mrd_app_len.
  rewrite app_length, filled_length, map_length. lia.
Qed.
Lemma swr_col (L1 L2 : row) a c : length (L1 ++ a :: L2) = n ->
  swr (fst (arrs P Q P' Q' (L1 ++ a :: L2))) off n (Z.of_nat (length L1)) c
  = Done (fst (arrs P Q P' Q' (L1 ++ (c, snd a) :: L2))).
Proof.
  intro Hn. rewrite app_length in Hn. cbn [length] in Hn. unfold swr.
  destruct (Z.ltb_spec (Z.of_nat (length L1)) 0); [lia|].
  destruct (Z.leb_spec (Z.of_nat n) (Z.of_nat (length L1))); [lia|]. cbn [orb].
  rewrite Nat2Z.id. unfold arrs. cbn [fst]. rewrite !map_app, !filled_app. cbn [map filled fst].
  rewrite <- !app_assoc, !(app_assoc P). cbn [app]. apply mwr_app_len.
  rewrite app_length, filled_length, map_length. lia.
Qed.
Lemma swr_val (L1 L2 : row) a v : length (L1 ++ a :: L2) = n ->
  swr (snd (arrs P Q P' Q' (L1 ++ a :: L2))) off n (Z.of_nat (length L1)) v
  = Done (snd (arrs P Q P' Q' (L1 ++ (fst a, v) :: L2))).
Proof.
  intro Hn. rewrite app_length in Hn. cbn [length] in Hn. unfold swr.
  destruct (Z.ltb_spec (Z.of_nat (length L1)) 0); [lia|].
  destruct (Z.leb_spec (Z.of_nat n) (Z.of_nat (length L1))); [lia|]. cbn [orb].
  rewrite Nat2Z.id. unfold arrs. cbn [snd]. rewrite !map_app, !filled_app. cbn [map filled snd].
  rewrite <- !app_assoc, !(app_assoc P'). cbn [app]. apply mwr_app_len.
  rewrite app_length, filled_length, map_length. lia.
Qed.
Lemma arrs_fst_snd L Lc Lv : map fst Lc = map fst L -> map snd Lv = map snd L ->
  (fst (arrs P Q P' Q' Lc), snd (arrs P Q P' Q' Lv)) = arrs P Q P' Q' L.
Proof. intros H1 H2. unfold arrs. cbn [fst snd]. rewrite H1, H2. reflexivity. Qed.

(* the while loop followed by the two stores: the saved element e = (c, v) ends where the
   from-the-right insertion puts it; the cell A|h|B after the sorted prefix A is a hole *)
Lemma shift_write_ok c v : forall (A : row) h B fuel,
  length A <= fuel -> length (A ++ h :: B) = n ->
  (r <-- shift_loop fuel off n c (Z.of_nat (length A) - 1) (arrs P Q P' Q' (A ++ h :: B)) ;;
   col' <-- swr (fst (snd r)) off n (fst r + 1) c ;;
   val' <-- swr (snd (snd r)) off n (fst r + 1) v ;;
   Done (col', val')) = Done (arrs P Q P' Q' (insr (c, v) A ++ B)).
Proof.
  induction A as [|a A IH] using rev_ind; intros h B fuel Hf Hn.
  - assert (E : forall cv : marr nat * marr S, shift_loop fuel off n c (Z.of_nat (@length (nat * S) []) - 1) cv = Done ((-1)%Z, cv))
      by (intro cv; destruct fuel; reflexivity).
    rewrite E. cbn [mbind fst snd].
    change (-1 + 1)%Z with (Z.of_nat (@length (nat * S) [])).
    rewrite (swr_col [] B h c Hn). cbn [mbind].
    rewrite (swr_val [] B h v Hn). cbn [mbind app]. reflexivity.
  - rewrite app_length in Hf. cbn [length] in Hf.
    destruct fuel as [|fuel]; [lia|].
    rewrite app_length. cbn [length]. replace (Z.of_nat (length A + 1) - 1)%Z with (Z.of_nat (length A)) by lia.
    cbn [shift_loop]. destruct (Z.ltb_spec (Z.of_nat (length A)) 0); [lia|].
    rewrite <- app_assoc in Hn |- *. cbn [app] in Hn |- *.
    rewrite (srd_col A (h :: B) a Hn). cbn [mbind fst snd].
    rewrite insr_snoc. cbn [fst].
    destruct (Nat.ltb c (fst a)) eqn:Hlt.
    + (* shift a one cell up, continue below *)
      assert (Hn2 : length ((A ++ [a]) ++ h :: B) = n) by (rewrite <- app_assoc; exact Hn).
      replace (Z.of_nat (length A) + 1)%Z with (Z.of_nat (length (A ++ [a]))) by (rewrite app_length; simpl; lia).
      replace (A ++ a :: h :: B) with ((A ++ [a]) ++ h :: B) by (rewrite <- app_assoc; reflexivity).
      rewrite (swr_col (A ++ [a]) B h (fst a) Hn2). cbn [mbind].
      replace ((A ++ [a]) ++ h :: B) with (A ++ a :: h :: B) by (rewrite <- app_assoc; reflexivity).
      rewrite (srd_val A (h :: B) a Hn). cbn [mbind].
      replace (A ++ a :: h :: B) with ((A ++ [a]) ++ h :: B) by (rewrite <- app_assoc; reflexivity).
      rewrite (swr_val (A ++ [a]) B h (snd a) Hn2). cbn [mbind].
      rewrite (arrs_fst_snd ((A ++ [a]) ++ a :: B)).
      2:{ rewrite !map_app. reflexivity. }
      2:{ rewrite !map_app. reflexivity. }
      rewrite <- !app_assoc. cbn [app].
      rewrite (IH a (a :: B) fuel ltac:(lia)).
      * reflexivity.
      * rewrite app_length in *. cbn [length] in *. lia.
    + (* stop: store e after a *)
      cbn [mbind fst snd].
      replace (Z.of_nat (length A) + 1)%Z with (Z.of_nat (length (A ++ [a]))) by (rewrite app_length; simpl; lia).
      assert (Hn2 : length ((A ++ [a]) ++ h :: B) = n) by (rewrite <- app_assoc; exact Hn).
      replace (A ++ a :: h :: B) with ((A ++ [a]) ++ h :: B) by (rewrite <- app_assoc; reflexivity).
      rewrite (swr_col (A ++ [a]) B h c Hn2). cbn [mbind].
      rewrite (swr_val (A ++ [a]) B h v Hn2). cbn [mbind]. f_equal.
      rewrite <- !app_assoc. cbn [app].
      apply (arrs_fst_snd (A ++ a :: (c, v) :: B)); rewrite !map_app; reflexivity.
Qed.

Lemma sort_outer : forall (rest acc : row),
  StronglySorted lec acc -> length (acc ++ rest) = n ->
  mfor (length acc) (length rest) (sort_body off n) (arrs P Q P' Q' (acc ++ rest))
  = Done (arrs P Q P' Q' (fold_left (fun acc e => ins_right e acc) rest acc)).
Proof.
  induction rest as [|e rest IH]; intros acc Hs Hn.
  - rewrite app_nil_r. reflexivity.
  - cbn [length]. rewrite mfor_step. unfold sort_body at 1.
    rewrite (srd_col acc rest e Hn). cbn [mbind].
    rewrite (srd_val acc rest e Hn). cbn [mbind].
    rewrite (shift_write_ok (fst e) (snd e) acc e rest (length acc) (le_n _) Hn). cbn [mbind fold_left].
    rewrite <- surjective_pairing. rewrite insr_sorted by exact Hs.
    assert (Hl : length (ins_right e acc) = Datatypes.S (length acc)).
    { rewrite (Permutation.Permutation_length (ins_right_perm e acc)). reflexivity. }
    rewrite <- Hl. apply IH.
    + apply ins_right_SS. exact Hs.
    + rewrite app_length, Hl. rewrite app_length in Hn. cbn [length] in Hn. lia.
Qed.

Theorem ll_sort_row_ok (L : row) : length L = n ->
  ll_sort_row off n (arrs P Q P' Q' L) = Done (arrs P Q P' Q' (sort_row L)).
Proof.
  intro Hn. unfold ll_sort_row, sort_row. destruct L as [|e L].
  - simpl in Hn. subst n. reflexivity.
  - cbn [length] in Hn. replace (n - 1) with (length L) by lia.
    cbn [fold_left ins_right].
    apply (sort_outer L [e]); [repeat constructor|exact Hn].
Qed.
End Row.
End SortRow.

(* ------------------------------------------------------------------ backend::sort_rows *)
Section SortRows.
Context {S : Scalar}.
Local Notation row := (row S).

Definition flat_cv (rs : list (list (nat * S))) : cvarr :=
  (filled (map fst (concat rs)), filled (map snd (concat rs))).

Lemma flat_cv_arrs (done : list (list (nat * S))) r todo :
  flat_cv (done ++ r :: todo)
  = arrs (filled (map fst (concat done))) (filled (map fst (concat todo)))
         (filled (map snd (concat done))) (filled (map snd (concat todo))) r.
Proof.
  unfold flat_cv, arrs. rewrite concat_app. cbn [concat]. rewrite !map_app, !filled_app. reflexivity.
Qed.

Lemma flat_cv_snoc (done : list (list (nat * S))) x todo :
  flat_cv (done ++ x :: todo) = flat_cv ((done ++ [x]) ++ todo).
Proof. rewrite <- app_assoc. reflexivity. Qed.

Lemma sort_rows_loop : forall (todo done : list (list (nat * S))) ptr,
  ptr = 0 :: psum (map (@length (nat * S)) (done ++ todo)) ->
  mfor (length done) (length todo)
       (fun i cv => b <-- ird ptr i ;; e <-- ird ptr (i + 1) ;; ll_sort_row b (e - b) cv)
       (flat_cv (done ++ todo))
  = Done (flat_cv (done ++ map sort_row todo)).
Proof.
  induction todo as [|r todo IH]; intros done ptr Hp; [reflexivity|].
  cbn [length map]. rewrite mfor_step.
  assert (Hlen : length ptr = Datatypes.S (length (done ++ r :: todo))) by (rewrite Hp; apply flat_ptr_length).
  rewrite app_length in Hlen. cbn [length] in Hlen.
  rewrite (ird_ok ptr (length done) 0) by lia. cbn [mbind].
  rewrite (ird_ok ptr (length done + 1) 0) by lia. cbn [mbind].
  assert (E1 : nth (length done) ptr 0 = length (concat done)).
  { rewrite Hp. apply (@flat_ptr_nth (nat * S) done (r :: todo)). }
  assert (E2 : nth (length done + 1) ptr 0 = length (concat done) + length r).
  { rewrite Hp. replace (done ++ r :: todo) with ((done ++ [r]) ++ todo) by (rewrite <- app_assoc; reflexivity).
    replace (length done + 1) with (length (done ++ [r])) by (rewrite app_length; reflexivity).
    rewrite (@flat_ptr_nth (nat * S) (done ++ [r]) todo).
    rewrite concat_app, app_length. cbn [concat]. rewrite app_nil_r. reflexivity. }
  rewrite E1, E2.
  replace (length (concat done) + length r - length (concat done)) with (length r) by lia.
  rewrite flat_cv_arrs.
  rewrite ll_sort_row_ok; try reflexivity; try (rewrite filled_length, map_length; reflexivity).
  cbn [mbind]. rewrite <- flat_cv_arrs.
  rewrite flat_cv_snoc.
  replace (Datatypes.S (length done)) with (length (done ++ [sort_row r])) by (rewrite app_length; simpl; lia).
  refine (eq_trans (IH (done ++ [sort_row r]) ptr _) _).
  - rewrite Hp. rewrite <- app_assoc. cbn [app]. rewrite !map_app. cbn [map]. rewrite sort_row_length. reflexivity.
  - rewrite <- app_assoc. reflexivity.
Qed.

(* for EVERY matrix (no well-formedness needed: sort_rows never looks at a column as an index) *)
Theorem ll_sort_rows_ok (A : crs S) :
  ll_sort_rows (nrows A) (fptr (flat_of A)) (filled (fcol (flat_of A)), filled (fval (flat_of A)))
  = Done (filled (fcol (flat_of (sort_rows A))), filled (fval (flat_of (sort_rows A)))) /\
  fptr (flat_of (sort_rows A)) = fptr (flat_of A).
Proof.
  split.
  - unfold ll_sort_rows. exact (sort_rows_loop (rows A) [] _ eq_refl).
  - unfold flat_of, sort_rows. cbn [fptr rows]. rewrite map_map. f_equal. f_equal.
    apply map_ext. intro r. apply sort_row_length.
Qed.

(* the same for well-formed flat arrays *)
Corollary ll_sort_rows_flat (F : fcrs S) : fwf F ->
  exists col' val',
    ll_sort_rows (fn F) (fptr F) (filled (fcol F), filled (fval F)) = Done (filled col', filled val') /\
    fwf (mkF (fn F) (fm F) (fptr F) col' val') /\
    unflat (mkF (fn F) (fm F) (fptr F) col' val') = sort_rows (unflat F).
Proof.
  intro W. pose proof (ll_sort_rows_ok (unflat F)) as [H1 H2].
  pose proof (unflat_wf F W) as (Hwf & Hn & Hm).
  rewrite (flat_unflat F W) in H1, H2. rewrite Hn in H1.
  exists (fcol (flat_of (sort_rows (unflat F)))), (fval (flat_of (sort_rows (unflat F)))).
  split; [exact H1|].
  assert (E : mkF (fn F) (fm F) (fptr F) (fcol (flat_of (sort_rows (unflat F)))) (fval (flat_of (sort_rows (unflat F))))
              = flat_of (sort_rows (unflat F))).
  { transitivity (mkF (nrows (sort_rows (unflat F))) (ncols (sort_rows (unflat F)))
                      (fptr (flat_of (sort_rows (unflat F)))) (fcol (flat_of (sort_rows (unflat F))))
                      (fval (flat_of (sort_rows (unflat F))))); [|reflexivity].
    destruct (sort_rows_shape (unflat F)) as [E1 E2]. rewrite E1, E2, Hn, Hm, H2. reflexivity. }
  rewrite E. split; [|apply unflat_flat].
  apply flat_of_fwf. apply sort_rows_wf. exact Hwf.
Qed.
End SortRows.

(* ------------------------------------------------------------------ statements as used by Properties_C10.v *)
Theorem ll_sort_row_spec {S : Scalar} (P Q : marr nat) (P' Q' : marr S) (L : row S) :
  length P = length P' ->
  ll_sort_row (length P) (length L) (P ++ filled (map fst L) ++ Q, P' ++ filled (map snd L) ++ Q')
  = Done (P ++ filled (map fst (sort_row L)) ++ Q, P' ++ filled (map snd (sort_row L)) ++ Q').
Proof. intro H. exact (ll_sort_row_ok P Q P' Q' (length P) (length L) eq_refl (eq_sym H) L eq_refl). Qed.

Theorem flat_roundtrip {S : Scalar} :
  (forall A : crs S, unflat (flat_of A) = A) /\
  (forall A : crs S, wf A = true -> fwf (flat_of A)) /\
  (forall F : fcrs S, fwf F -> flat_of (unflat F) = F).
Proof. split; [exact unflat_flat|split; [exact flat_of_fwf|exact flat_unflat]]. Qed.

(* the checks are not vacuous *)
Lemma mrd_fresh_uninit {X} n i : i < n -> mrd (@fresh X n) i = UninitRead.
Proof.
  intro H. unfold mrd, fresh. rewrite (nth_error_nth' _ None) by (rewrite repeat_length; exact H).
  rewrite nth_repeat0. reflexivity.
Qed.
Lemma mrd_oob {X} (a : marr X) i : length a <= i -> mrd a i = OutOfBounds.
Proof. intro H. unfold mrd. apply nth_error_None in H. rewrite H. reflexivity. Qed.

(* an equation "= Done x" rules out every error outcome *)
Lemma done_safe {X} (r : mres X) (x : X) : r = Done x -> r <> OutOfBounds /\ r <> UninitRead /\ r <> OutOfFuel.
Proof. intros ->. repeat split; discriminate. Qed.

Theorem ll_sort_rows_safe {S : Scalar} (A : crs S) :
  let r := ll_sort_rows (nrows A) (fptr (flat_of A)) (filled (fcol (flat_of A)), filled (fval (flat_of A))) in
  r <> OutOfBounds /\ r <> UninitRead /\ r <> OutOfFuel.
Proof. cbv zeta. eapply done_safe. exact (proj1 (ll_sort_rows_ok A)). Qed.
