(* BlockIluClosed.v -- "ILU(0) is an exact solve when the pattern is closed under elimination", over a
   NON-COMMUTATIVE ring of values (block values) -- hence also over every field (NcRing.ncring_of_ring).
   [pat_closed A]: whenever row i has an entry in column k < i and row k has an entry in column j > k,
   row i has an entry in column j (no fill-in).  Then the factors of [ilu0] satisfy
   ((I+L)(U+D^-1))_ij = a_ij for ALL i, j (on the pattern: BlockIlu0Exact; off the pattern both sides are
   zero, by the structure theorem IluProofs.ilu0_structure), so  A * ilu_apply(b) = b:
   the sweep of ilu0 / ilup is an exact solve.  Instances: (block) tridiagonal patterns. *)
From Coq Require Import ZifyBool.
From Amgcl Require Import Scalar Vec Crs Kernels KernelsProofs MatOps Relax Ilu IluProofs
  NcRing NcKernels BlockRelaxProofsIlu BlockIlu0Exact.
Local Open Scope S_scope.

Section Closed.
Context {S : Scalar}.
Hypothesis Hnc : ncring_theory S.
Hypothesis Seqb : seqb_spec S.
Hypothesis Hinv : forall x : S, sinv x <> s0 -> x * sinv x = s1.
Local Instance ncclo : NcRingInst S := ncring_inst Hnc.
Local Notation row := (row S).
Local Notation vec := (vec S).
Local Notation crs := (crs S).

Definition pat_closed (A : crs) : Prop :=
  forall i k j, i < nrows A -> k < i -> k < j ->
    has_col k (nth i (rows A) []) = true -> has_col j (nth k (rows A) []) = true ->
    has_col j (nth i (rows A) []) = true.

(* an entry of a factor is either zero or sits on a stored position *)
Lemma rget_zero_or_col (r : row) c : rget r c = s0 \/ exists v, In (c, v) r.
Proof.
  destruct (has_col c r) eqn:E.
  - right. apply nx0_has_col_In in E. apply in_map_iff in E as ([c' v] & Ec & Hin). simpl in Ec. subst c'.
    exists v. exact Hin.
  - left. apply (nx0_rget_absent Hnc). exact E.
Qed.

Lemma In_has_col (r : row) c v : In (c, v) r -> has_col c r = true.
Proof. intro H. apply nx0_has_col_In. apply in_map_iff. exists (c, v). split; [reflexivity|exact H]. Qed.

Lemma In_fst_has_col (r : row) c : In c (map fst r) -> has_col c r = true.
Proof. intro H. apply nx0_has_col_In. exact H. Qed.

Theorem nc_ilu0_off_pattern (A : crs) (junk : vec) L U D :
  has_diag A = true -> pat_closed A ->
  ilu0 A junk = Ok (L, U, D) ->
  forall i j, i < nrows A -> has_col j (nth i (rows A) []) = false ->
    lu_entry L U D i j = s0 /\ mget A i j = s0.
Proof.
  intros Hd Hcl H i j Hi Hj.
  destruct (ilu0_structure A junk L U D H) as (_ & _ & _ & _ & _ & HLs & HUs).
  split; [|apply (nx0_rget_absent Hnc); exact Hj].
  assert (Hij : i <> j).
  { intros <-. rewrite (nx0_has_diag_has_col A i Hd Hi) in Hj. discriminate. }
  unfold lu_entry. replace (Nat.eqb i j) with false by (symmetry; apply Nat.eqb_neq; exact Hij).
  assert (HU0 : mget U i j = s0).
  { unfold mget. destruct (rget_zero_or_col (nth i (rows U) []) j) as [E|[v Hv]]; [exact E|].
    apply HUs in Hv as [_ Hv]. apply In_fst_has_col in Hv. congruence. }
  rewrite HU0.
  rewrite (ncsumn_zero_fun Hnc); [ncr|].
  intros k Hk. unfold mget at 1.
  destruct (rget_zero_or_col (nth i (rows L) []) k) as [E|[v Hv]]; [rewrite E; ncr|].
  apply HLs in Hv as [_ Hki]. apply In_fst_has_col in Hki.
  destruct (Nat.eqb_spec k j) as [->|Hkj]; [congruence|].
  unfold mget. destruct (rget_zero_or_col (nth k (rows U) []) j) as [E|[u Hu]]; [rewrite E; ncr|].
  apply HUs in Hu as [Hlt Hu]. apply In_fst_has_col in Hu.
  rewrite (Hcl i k j Hi Hk Hlt Hki Hu) in Hj. discriminate.
Qed.

(* the full product reproduces A *)
Theorem nc_ilu0_closed_lu_eq_A (A : crs) (junk : vec) L U D :
  wf A = true -> ncols A = nrows A ->
  (forall i, i < nrows A -> sorted_strict (nth i (rows A) []) = true) ->
  has_diag A = true -> pat_closed A ->
  ilu0 A junk = Ok (L, U, D) ->
  (forall k, k < nrows A -> vget D k <> s0 /\ sinv (vget D k) <> s0) ->
  forall i j, i < nrows A -> lu_entry L U D i j = mget A i j.
Proof.
  intros Hwf Hsq Hs Hd Hcl H HD i j Hi.
  destruct (has_col j (nth i (rows A) [])) eqn:E.
  - apply (nc_ilu0_exact_on_pattern Hnc Seqb Hinv A junk L U D); assumption.
  - destruct (nc_ilu0_off_pattern A junk L U D Hd Hcl H i j Hi E) as [-> ->]. reflexivity.
Qed.

(* ... hence apply() of ilu0 is an exact solve *)
Theorem nc_ilu0_closed_exact_solve (A : crs) (junk : vec) L U D (b x0 : vec) :
  wf A = true -> ncols A = nrows A ->
  (forall i, i < nrows A -> sorted_strict (nth i (rows A) []) = true) ->
  has_diag A = true -> pat_closed A ->
  ilu0 A junk = Ok (L, U, D) ->
  (forall k, k < nrows A -> vget D k <> s0 /\ sinv (vget D k) <> s0) ->
  length b = nrows A -> length x0 = nrows A ->
  forall i, i < nrows A -> Ax A (ilu_apply L U D b x0) i = vget b i.
Proof.
  intros Hwf Hsq Hs Hd Hcl H HD Hb Hx.
  apply (nc_ilu0_exact_solve Hnc A junk L U D b x0); try assumption.
  - intros k Hk. apply (nc_ilu0_pivots_two_sided Hnc Seqb Hinv A junk L U D Hs Hd H HD k Hk).
  - intros i j Hi _. apply (nc_ilu0_closed_lu_eq_A A junk L U D); assumption.
Qed.

(* and the pre/post sweep with damping 1 solves from ANY start vector: x + M^-1 (b - A x), M = A *)
(* (not needed for the statement above; the tie checks it: oracle `ex`, mode pre) *)

(* ---------------- instance: (block) tridiagonal patterns ---------------- *)
Definition tridiagonal (A : crs) : Prop :=
  forall i c, i < nrows A -> has_col c (nth i (rows A) []) = true -> (c + 1 = i \/ c = i \/ c = i + 1)%nat.

Lemma tridiagonal_pat_closed (A : crs) : has_diag A = true -> tridiagonal A -> pat_closed A.
Proof.
  intros Hd Ht i k j Hi Hk Hkj Hik Hkj'.
  assert (Hk' : k < nrows A) by lia.
  destruct (Ht i k Hi Hik) as [E|[E|E]]; [|lia|lia].
  destruct (Ht k j Hk' Hkj') as [E'|[E'|E']]; [lia|lia|].
  replace j with i by lia. apply nx0_has_diag_has_col; assumption.
Qed.

Theorem nc_ilu0_tridiagonal_exact_solve (A : crs) (junk : vec) L U D (b x0 : vec) :
  wf A = true -> ncols A = nrows A ->
  (forall i, i < nrows A -> sorted_strict (nth i (rows A) []) = true) ->
  has_diag A = true -> tridiagonal A ->
  ilu0 A junk = Ok (L, U, D) ->
  (forall k, k < nrows A -> vget D k <> s0 /\ sinv (vget D k) <> s0) ->
  length b = nrows A -> length x0 = nrows A ->
  forall i, i < nrows A -> Ax A (ilu_apply L U D b x0) i = vget b i.
Proof.
  intros Hwf Hsq Hs Hd Ht. apply nc_ilu0_closed_exact_solve; try assumption.
  apply tridiagonal_pat_closed; assumption.
Qed.

(* further closed patterns: arrow pointing to the last row/column, triangular *)
Definition arrow_last (A : crs) : Prop :=
  forall i c, i < nrows A -> has_col c (nth i (rows A) []) = true ->
    (c = i \/ c + 1 = nrows A \/ i + 1 = nrows A)%nat.

Lemma arrow_last_pat_closed (A : crs) : has_diag A = true -> arrow_last A -> pat_closed A.
Proof.
  intros Hd Ha i k j Hi Hk Hkj Hik Hkj'.
  assert (Hk' : k < nrows A) by lia.
  destruct (Ha i k Hi Hik) as [E|[E|E]]; [lia|lia|].
  destruct (Ha k j Hk' Hkj') as [E'|[E'|E']]; [lia| |lia].
  replace j with i by lia. apply nx0_has_diag_has_col; assumption.
Qed.

Definition upper_pattern (A : crs) : Prop :=
  forall i c, i < nrows A -> has_col c (nth i (rows A) []) = true -> i <= c.
Definition lower_pattern (A : crs) : Prop :=
  forall i c, i < nrows A -> has_col c (nth i (rows A) []) = true -> c <= i.

Lemma upper_pat_closed (A : crs) : upper_pattern A -> pat_closed A.
Proof. intros Hu i k j Hi Hk Hkj Hik _. specialize (Hu i k Hi Hik). lia. Qed.
Lemma lower_pat_closed (A : crs) : lower_pattern A -> pat_closed A.
Proof. intros Hl i k j Hi Hk Hkj _ Hkj'. assert (Hk' : k < nrows A) by lia. specialize (Hl k j Hk' Hkj'). lia. Qed.

Theorem closed_patterns (A : crs) :
  (has_diag A = true -> tridiagonal A -> pat_closed A) /\
  (has_diag A = true -> arrow_last A -> pat_closed A) /\
  (upper_pattern A -> pat_closed A) /\ (lower_pattern A -> pat_closed A).
Proof.
  repeat split.
  - apply tridiagonal_pat_closed.
  - apply arrow_last_pat_closed.
  - apply upper_pat_closed.
  - apply lower_pat_closed.
Qed.

End Closed.
