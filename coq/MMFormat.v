(* MMFormat.v -- model of amgcl/io/mm.hpp: MatrixMarket reader (mm_reader) and writer
   (mm_write) over a list of LINES, each line a list of whitespace-separated TOKENS.

   What is concrete: line structure (std::getline), comment skipping (line[0]=='%'),
   banner keywords, every integer extraction (`is >> n`: optional sign, decimal digits,
   PREFIX semantics -- "12x3" yields 12 and leaves "x3" in the stream --, range failure,
   wrap-around of negative input into size_t), row-range clamping and precondition,
   allocation requests (resize/reserve with a negative or absurd count -> length_error /
   bad_alloc), the range filter, symmetric mirroring, the per-row insertion sort
   (detail::sort_row, literally), the order of all checks.
   What is an oracle: text <-> value conversion of matrix VALUES (Section variables
   [vprint]/[vread]; the only law ever assumed is vread (vprint v ++ rest) = Some (v, rest)).
   What is abstracted: the counting sort `++ptr[i+1]; partial_sum; col[ptr[i]++] = j; rotate`
   (mm.hpp:193-226) is modelled as "append to bucket i" on a list of [chunk] buckets with a
   BOUNDS-CHECKED update (index outside the bucket list = [Error EOOB], the image of the
   out-of-bounds `++ptr[i - row_beg + 1]`); the order of entries inside a bucket is the
   order of the push_backs, which is what the scatter loop produces.  Index arithmetic is done
   in Z: `i -= 1; j -= 1` (mm.hpp:188-189) on an index token equal to INT64_MIN is a signed
   overflow (UB) in the pre-repair code and plain i-1 here -- found by the harness (UBSan),
   finding C19-mm-index-decrement-overflow (fixed by a04dd9c: the range precondition, which
   is what [chk_index] stands for, now precedes the decrement, so the overflow is unreachable).  The glue that splits
   a byte file into lines/tokens (std::getline, operator>> on isspace) lives in
   ocaml/fileio and is validated by byte-exact comparison with the real files.

   [mm_flags]: [mm_checked] (all checks on) is the reader AS IT IS since the repairs
   a04dd9c (index range before the decrement, symmetric => square), 6a14a6a (no trailing
   data) and 7c1d34c (row_beg <= row_end) in /repo; this is the model the correspondence
   harness runs (default flags "1111" in tools/props/C19.py).  [mm_current] (all checks off;
   the name is kept for the proofs) is the reader BEFORE those repairs: it is retained only
   as the subject of the historical refutation theorems (..._refuted). *)
From Coq Require Import List ZArith Lia Bool String Ascii Decimal DecimalString.
Import ListNotations.
Local Open Scope string_scope.
Local Open Scope list_scope.
Local Open Scope Z_scope.

(* ------------------------------------------------------------------ results *)
Inductive err :=
| EFormat   (* precondition(..., format_error(...)) : std::runtime_error *)
| EKind     (* "attempt to read complex values into real vector" ...   *)
| ERange    (* "Wrong subset of rows is requested"                      *)
| EIO       (* "File I/O error" (binary.hpp)                            *)
| EAlloc    (* std::length_error / std::bad_alloc from resize/reserve   *)
| EOOB.     (* NOT an exception: the code indexes out of bounds (UB)    *)

Inductive result (A : Type) := Ok (a : A) | Error (e : err).
Arguments Ok {A} a. Arguments Error {A} e.

Definition bind {A B} (x : result A) (f : A -> result B) : result B :=
  match x with Ok a => f a | Error e => Error e end.
Notation "x <- e ;; f" := (bind e (fun x => f)) (at level 61, e at next level, right associativity).
Notation "' p <- e ;; f" := (bind e (fun p => f)) (at level 61, p pattern, e at next level, right associativity).
Definition guard (b : bool) (e : err) : result unit := if b then Ok tt else Error e.
Definition of_opt {A} (o : option A) (e : err) : result A := match o with Some a => Ok a | None => Error e end.
Definition is_ok {A} (r : result A) : bool := match r with Ok _ => true | Error _ => false end.
Definition is_exception {A} (r : result A) : bool :=
  match r with Error EOOB => false | Error _ => true | Ok _ => false end.

(* ------------------------------------------------------------------ matrices *)
(* Row-list CRS as returned by the readers: columns are Z because the reader can (and
   does) produce negative or too large column indices. *)
Record crs (V : Type) := mkCrs { nrows : Z; ncols : Z; rows : list (list (Z * V)) }.
Arguments mkCrs {V}. Arguments nrows {V}. Arguments ncols {V}. Arguments rows {V}.

Definition row_wf {V} (m : Z) (r : list (Z * V)) : bool :=
  forallb (fun e => (0 <=? fst e) && (fst e <? m)) r.
(* structural validity: row count = nrows, every column in [0, ncols); ptr is monotone by
   construction of the row-list representation *)
Definition wf {V} (A : crs V) : bool :=
  (Z.of_nat (List.length (rows A)) =? nrows A) && forallb (row_wf (ncols A)) (rows A).

Definition nnz {V} (A : crs V) : Z := Z.of_nat (List.length (List.concat (rows A))).

(* detail::sort_row: insertion sort, element j is moved left past every element with a
   strictly larger column (stable).  [racc] is the already sorted prefix, reversed. *)
Fixpoint ins_left {V} (x : Z * V) (racc : list (Z * V)) : list (Z * V) :=
  match racc with
  | y :: ys => if fst y >? fst x then y :: ins_left x ys else x :: racc
  | [] => [x]
  end.
Definition sort_row {V} (r : list (Z * V)) : list (Z * V) :=
  List.rev (fold_left (fun racc x => ins_left x racc) r []).
Definition sort_rows {V} (A : crs V) : crs V := mkCrs (nrows A) (ncols A) (map sort_row (rows A)).

(* rows r0 .. r1-1 *)
Definition slice_list {A} (r0 r1 : Z) (l : list A) : list A :=
  firstn (Z.to_nat (r1 - r0)) (skipn (Z.to_nat r0) l).
Definition slice {V} (r0 r1 : Z) (A : crs V) : crs V :=
  mkCrs (r1 - r0) (ncols A) (slice_list r0 r1 (rows A)).

(* ------------------------------------------------------------------ integers as text *)
Definition two63 : Z := 9223372036854775808.
Definition two64 : Z := 18446744073709551616.
(* harness allocation cap (bytes): a request above it is answered with std::bad_alloc *)
Definition alloc_cap : Z := 16777216.

Definition digit_of (c : ascii) : option (uint -> uint) :=
  match c with
  | "0"%char => Some D0 | "1"%char => Some D1 | "2"%char => Some D2 | "3"%char => Some D3
  | "4"%char => Some D4 | "5"%char => Some D5 | "6"%char => Some D6 | "7"%char => Some D7
  | "8"%char => Some D8 | "9"%char => Some D9 | _ => None
  end.
Fixpoint span_digits (s : string) : uint * string :=
  match s with
  | EmptyString => (Nil, EmptyString)
  | String c s' =>
      match digit_of c with
      | Some d => let (u, r) := span_digits s' in (d u, r)
      | None => (Nil, s)
      end
  end.

(* `is >> x` for an integral x on the remaining tokens of a line.  Some (value, stream'). *)
Definition read_int (signed : bool) (ts : list string) : option (Z * list string) :=
  match ts with
  | [] => None
  | t :: rest =>
      let '(neg, body) :=
        match t with
        | String "-"%char b => (true, b)
        | String "+"%char b => (false, b)
        | _ => (false, t)
        end in
      let '(u, r) := span_digits body in
      match u with
      | Nil => None
      | _ =>
          let v := Z.of_uint u in
          let ts' := match r with EmptyString => rest | _ => r :: rest end in
          if signed then
            let x := if neg then - v else v in
            if (- two63 <=? x) && (x <? two63) then Some (x, ts') else None
          else
            if v <? two64 then Some (if neg then (two64 - v) mod two64 else v, ts') else None
      end
  end.

Definition print_Z (z : Z) : string := NilZero.string_of_int (Z.to_int z).

(* two's complement views used where the code converts between size_t and ptrdiff_t *)
Definition u64 (x : Z) : Z := x mod two64.
Definition s64 (x : Z) : Z := let y := x mod two64 in if y <? two63 then y else y - two64.

(* v.resize(count) / v.reserve(count) with elements of [width] bytes; count is the value of
   the signed expression before its conversion to size_t *)
Definition alloc_ok (count width : Z) : bool := (0 <=? count) && (count * width <=? alloc_cap).

(* ------------------------------------------------------------------ lines *)
Record line := mkLine { l_comment : bool (* line[0] == '%' *); l_toks : list string }.

Inductive kind := KReal | KComplex | KInteger.
Definition kind_complex (k : kind) : bool := match k with KComplex => true | _ => false end.
Definition kind_integer (k : kind) : bool := match k with KInteger => true | _ => false end.
Definition kind_word (k : kind) : string :=
  match k with KReal => "real" | KComplex => "complex" | KInteger => "integer" end.

Record mm_flags := mkFlags {
  chk_index    : bool;  (* precondition: 0 <= i < n, 0 <= j < m, symmetric => n = m *)
  chk_trailing : bool;  (* precondition: nothing but blank lines after the last entry *)
  chk_range    : bool   (* precondition: row_beg <= row_end (the code only has row_end <= n) *)
}.
Definition mm_current : mm_flags := mkFlags false false false.
Definition mm_checked : mm_flags := mkFlags true true true.

(* ------------------------------------------------------------------ mm_reader::mm_reader *)
Record header := mkHeader {
  h_sparse : bool; h_symmetric : bool; h_kind : kind;
  h_size : list string;      (* tokens of the size line (kept in `line`) *)
  h_body : list line;        (* what is left in the stream *)
  h_nrows : Z; h_ncols : Z   (* rows(), cols() : size_t *)
}.

Fixpoint skip_comments (ls : list line) : option (line * list line) :=
  match ls with
  | [] => None
  | l :: ls' => if l_comment l then skip_comments ls' else Some (l, ls')
  end.

Definition mm_open (f : list line) : result header :=
  match f with
  | [] => Error EFormat                                      (* getline fails *)
  | b :: rest =>
      match l_toks b with
      | banner :: mtx :: coord :: dtype :: storage :: _ =>
          _ <- guard (String.eqb banner "%%MatrixMarket") EFormat ;;
          _ <- guard (String.eqb mtx "matrix") EFormat ;;
          sy <- (if String.eqb storage "general" then Ok false
                 else if String.eqb storage "symmetric" then Ok true else Error EFormat) ;;
          sp <- (if String.eqb coord "coordinate" then Ok true
                 else if String.eqb coord "array" then Ok false else Error EFormat) ;;
          k <- (if String.eqb dtype "real" then Ok KReal
                else if String.eqb dtype "complex" then Ok KComplex
                else if String.eqb dtype "integer" then Ok KInteger else Error EFormat) ;;
          '(sz, body) <- of_opt (skip_comments rest) EFormat ;;
          '(nr, t1) <- of_opt (read_int false (l_toks sz)) EFormat ;;
          '(nc, _) <- of_opt (read_int false t1) EFormat ;;
          Ok (mkHeader sp sy k (l_toks sz) body nr nc)
      | _ => Error EFormat
      end
  end.

Definition blank (l : line) : bool := match l_toks l with [] => true | _ => false end.

Section Values.
Variable V : Type.
Variable vwidth : Z.                                   (* sizeof(Val) *)
Variable vprint : V -> list string.                    (* detail::write_value *)
Variable vread : list string -> option (V * list string).  (* read_value<Val>(is) *)

(* checked update of bucket [idx] *)
Fixpoint bucket_add_nat (st : list (list (Z * V))) (idx : nat) (e : Z * V) : option (list (list (Z * V))) :=
  match st, idx with
  | [], _ => None
  | b :: st', O => Some ((b ++ [e]) :: st')
  | b :: st', S k => match bucket_add_nat st' k e with Some s => Some (b :: s) | None => None end
  end.
Definition bucket_add (st : list (list (Z * V))) (idx : Z) (e : Z * V) : result (list (list (Z * V))) :=
  if idx <? 0 then Error EOOB else of_opt (bucket_add_nat st (Z.to_nat idx) e) EOOB.

(* the loop `for(size_t k = 0; k < nnz; ++k)` of the coordinate reader (mm.hpp:179-208) *)
Fixpoint read_entries (fl : mm_flags) (symm : bool) (n m r0 r1 : Z) (ls : list line) (k : Z)
         (st : list (list (Z * V))) {struct ls} : result (list (list (Z * V)) * list line) :=
  if k <=? 0 then Ok (st, ls) else
  match ls with
  | [] => Error EFormat                                   (* unexpected eof *)
  | l :: ls' =>
      '(i1, t1) <- of_opt (read_int true (l_toks l)) EFormat ;;
      '(j1, t2) <- of_opt (read_int true t1) EFormat ;;
      let i := i1 - 1 in let j := j1 - 1 in
      '(v, _) <- of_opt (vread t2) EFormat ;;
      _ <- guard (negb (chk_index fl) || ((0 <=? i) && (i <? n) && (0 <=? j) && (j <? m))) EFormat ;;
      st1 <- (if (r0 <=? i) && (i <? r1) then bucket_add st (i - r0) (j, v) else Ok st) ;;
      st2 <- (if symm && negb (i =? j) && (r0 <=? j) && (j <? r1)
              then bucket_add st1 (j - r0) (i, v) else Ok st1) ;;
      read_entries fl symm n m r0 r1 ls' (k - 1) st2
  end.

(* mm_reader::operator()(ptr, col, val, row_beg, row_end) *)
Definition mm_read_sparse (fl : mm_flags) (vk : kind) (h : header) (row_beg row_end : Z) : result (crs V) :=
  _ <- guard (h_sparse h) EFormat ;;
  _ <- guard (Bool.eqb (kind_complex vk) (kind_complex (h_kind h))) EKind ;;
  _ <- guard (Bool.eqb (kind_integer vk) (kind_integer (h_kind h))) EKind ;;
  '(n, t1) <- of_opt (read_int true (h_size h)) EFormat ;;
  '(m, t2) <- of_opt (read_int true t1) EFormat ;;
  '(nz, _) <- of_opt (read_int false t2) EFormat ;;
  let r0 := if row_beg <? 0 then 0 else row_beg in
  let r1 := if row_end <? 0 then n else row_end in
  _ <- guard ((0 <=? r0) && (r1 <=? n)) ERange ;;
  _ <- guard (negb (chk_range fl) || (r0 <=? r1)) ERange ;;
  _ <- guard (negb (chk_index fl) || negb (h_symmetric h) || (n =? m)) EFormat ;;
  (* reserve(_nnz).  For a partial read the hint is scaled: _nnz *= 1.2 * (row_end - row_beg) / n
     in double arithmetic (mm.hpp:168-169).  Modelled: n = 0 (division by zero, the inf/nan ->
     ptrdiff_t conversion is UB and yields INT64_MIN on x86-64) and a negative product both end
     in reserve(huge) = std::length_error; the factor 1.2 is ignored for the cap. *)
  let nnz' := s64 (if h_symmetric h then 2 * nz else nz) in
  let chunk := r1 - r0 in
  let partial := negb ((r0 =? 0) && (r1 =? n)) in
  let hint := Z.quot (nnz' * 6 * chunk) (5 * n) in
  _ <- guard (negb partial || (negb (n =? 0) && (0 <=? hint))) EAlloc ;;
  (* size actually requested: the scaled hint when the announced count is negative (then only
     the scaled value can be non-negative), else the unscaled count (factor 1.2 ignored) *)
  let cap_arg := if partial && (nnz' <? 0) then hint else nnz' in
  _ <- guard (alloc_ok cap_arg 8 && alloc_ok cap_arg vwidth) EAlloc ;;
  _ <- guard (alloc_ok (chunk + 1) 8) EAlloc ;;          (* ptr.resize(chunk + 1) *)
  '(st, rest) <- read_entries fl (h_symmetric h) n m r0 r1 (h_body h) nz
                   (repeat [] (Z.to_nat chunk)) ;;
  _ <- guard (negb (chk_trailing fl) || forallb blank rest) EFormat ;;
  _ <- guard (0 <=? chunk) EOOB ;;                       (* ptr.back() on an empty vector *)
  Ok (mkCrs chunk (u64 m) (map sort_row st)).

(* the dense loop `for j < m: for i < n` (mm.hpp:276-284): line number q = j*n + i; only
   lines of rows inside the range are parsed *)
Fixpoint read_dense_lines (n r0 r1 : Z) (ls : list line) (q total : Z) (acc : list (Z * Z * V))
         {struct ls} : result (list (Z * Z * V) * list line) :=
  if total <=? q then Ok (acc, ls) else
  match ls with
  | [] => Error EFormat
  | l :: ls' =>
      let i := q mod n in let j := q / n in
      if (r0 <=? i) && (i <? r1) then
        '(v, _) <- of_opt (vread (l_toks l)) EFormat ;;
        read_dense_lines n r0 r1 ls' (q + 1) total (acc ++ [(i - r0, j, v)])
      else read_dense_lines n r0 r1 ls' (q + 1) total acc
  end.

Record dense := mkDense { d_rows : Z; d_cols : Z; d_val : list (option V) (* row-major; None = never written *) }.

Fixpoint dense_set (l : list (option V)) (idx : nat) (v : V) : option (list (option V)) :=
  match l, idx with
  | [], _ => None
  | _ :: l', O => Some (Some v :: l')
  | x :: l', S k => match dense_set l' k v with Some s => Some (x :: s) | None => None end
  end.
Fixpoint dense_fill (m : Z) (es : list (Z * Z * V)) (acc : list (option V)) : result (list (option V)) :=
  match es with
  | [] => Ok acc
  | (i, j, v) :: es' =>
      let idx := i * m + j in
      if idx <? 0 then Error EOOB else
      acc' <- of_opt (dense_set acc (Z.to_nat idx) v) EOOB ;;
      dense_fill m es' acc'
  end.

(* mm_reader::operator()(val, row_beg, row_end) *)
Definition mm_read_dense (fl : mm_flags) (vk : kind) (h : header) (row_beg row_end : Z) : result dense :=
  _ <- guard (negb (h_sparse h)) EFormat ;;
  _ <- guard (Bool.eqb (kind_complex vk) (kind_complex (h_kind h))) EKind ;;
  _ <- guard (Bool.eqb (kind_integer vk) (kind_integer (h_kind h))) EKind ;;
  '(n, t1) <- of_opt (read_int true (h_size h)) EFormat ;;
  '(m, _) <- of_opt (read_int true t1) EFormat ;;
  let r0 := if row_beg <? 0 then 0 else row_beg in
  let r1 := if row_end <? 0 then n else row_end in
  _ <- guard ((0 <=? r0) && (r1 <=? n)) ERange ;;
  _ <- guard (negb (chk_range fl) || (r0 <=? r1)) ERange ;;
  let chunk := r1 - r0 in
  _ <- guard (alloc_ok (chunk * m) vwidth) EAlloc ;;     (* val.resize((row_end - row_beg) * m) *)
  '(es, rest) <- (if (0 <? m) && (0 <? n)
                  then read_dense_lines n r0 r1 (h_body h) 0 (n * m) []
                  else Ok ([], h_body h)) ;;
  _ <- guard (negb (chk_trailing fl) || forallb blank rest) EFormat ;;
  v <- dense_fill m es (repeat None (Z.to_nat (chunk * m))) ;;
  Ok (mkDense chunk (u64 m) v).

(* ------------------------------------------------------------------ mm_write *)
Definition banner_line (sparse : bool) (k : kind) : line :=
  mkLine true ["%%MatrixMarket"; "matrix"; if sparse then "coordinate" else "array"; kind_word k; "general"].

Fixpoint write_rows (i : Z) (rs : list (list (Z * V))) : list line :=
  match rs with
  | [] => []
  | r :: rs' =>
      map (fun e => mkLine false ([print_Z (i + 1); print_Z (fst e + 1)] ++ vprint (snd e))) r
      ++ write_rows (i + 1) rs'
  end.

(* mm_write(fname, A): rows = backend::rows(A), cols, nnz; entries in storage order *)
Definition mm_write_sparse (k : kind) (A : crs V) : list line :=
  banner_line true k
  :: mkLine false [print_Z (Z.of_nat (List.length (rows A))); print_Z (ncols A); print_Z (nnz A)]
  :: write_rows 0 (rows A).

(* mm_write(fname, data, rows, cols): column by column, data[i*cols + j] *)
Definition dense_get (data : list V) (idx : Z) : option V :=
  if idx <? 0 then None else nth_error data (Z.to_nat idx).
Definition mm_write_dense (k : kind) (nr nc : Z) (data : list V) : result (list line) :=
  let idxs := flat_map (fun j => map (fun i => Z.of_nat i * nc + Z.of_nat j) (seq 0 (Z.to_nat nr))) (seq 0 (Z.to_nat nc)) in
  body <- fold_right (fun idx acc => a <- acc ;; v <- of_opt (dense_get data idx) EOOB ;;
                                     Ok (mkLine false (vprint v) :: a)) (Ok []) idxs ;;
  Ok (banner_line false k :: mkLine false [print_Z nr; print_Z nc] :: body).

(* whole-file reader *)
Definition mm_read (fl : mm_flags) (vk : kind) (f : list line) (r0 r1 : Z) : result (crs V) :=
  h <- mm_open f ;; mm_read_sparse fl vk h r0 r1.
Definition mm_readd (fl : mm_flags) (vk : kind) (f : list line) (r0 r1 : Z) : result dense :=
  h <- mm_open f ;; mm_read_dense fl vk h r0 r1.

End Values.

(* ------------------------------------------------------------------ value instances *)
(* integer values: concrete text conversion (is >> int / os << int) *)
Definition vprint_int (z : Z) : list string := [print_Z z].
Definition vread_int (bits : Z) (ts : list string) : option (Z * list string) :=
  match read_int true ts with
  | Some (x, ts') => if (- 2 ^ (bits - 1) <=? x) && (x <? 2 ^ (bits - 1)) then Some (x, ts') else None
  | None => None
  end.

(* complex values from a scalar oracle pair: "re im" *)
Section Complex.
Variable R : Type.
Variable rprint : R -> string.
Variable rread : list string -> option (R * list string).
Definition vprint_real (x : R) : list string := [rprint x].
Definition vprint_complex (z : R * R) : list string := [rprint (fst z); rprint (snd z)].
Definition vread_complex (ts : list string) : option ((R * R) * list string) :=
  match rread ts with
  | Some (x, t1) => match rread t1 with Some (y, t2) => Some ((x, y), t2) | None => None end
  | None => None
  end.
End Complex.

(* ------------------------------------------------------------------ strict format check *)
(* Specification-side validator used by the harness to decide whether a (token-clean)
   damaged coordinate file is INCONSISTENT, independently of the reader model: sizes vs
   indices vs number of data lines.  Classes are reported separately. *)
Inductive mm_class :=
| CValid | CBadHeader | CRowOutOfRange | CColOutOfRange | CShort | CTrailing | CBadEntry | CNotSquareSymmetric.

Fixpoint classify_entries (n m : Z) (ls : list line) (k : Z) (worst : mm_class) : mm_class :=
  if k <=? 0 then
    (match worst with CValid => if forallb blank ls then CValid else CTrailing | w => w end)
  else match ls with
  | [] => CShort
  | l :: ls' =>
      match read_int true (l_toks l) with
      | Some (i, t1) =>
          match read_int true t1 with
          | Some (j, _) =>
              let w := match worst with
                       | CValid => if negb ((1 <=? i) && (i <=? n)) then CRowOutOfRange
                                   else if negb ((1 <=? j) && (j <=? m)) then CColOutOfRange else CValid
                       | w => w end in
              classify_entries n m ls' (k - 1) w
          | None => CBadEntry
          end
      | None => CBadEntry
      end
  end.

Definition mm_classify (f : list line) : mm_class :=
  match mm_open f with
  | Error _ => CBadHeader
  | Ok h =>
      if negb (h_sparse h) then CBadHeader else
      match read_int true (h_size h) with
      | Some (n, t1) => match read_int true t1 with
        | Some (m, t2) => match read_int false t2 with
          | Some (nz, _) =>
              if h_symmetric h && negb (n =? m) then CNotSquareSymmetric
              else classify_entries n m (h_body h) nz CValid
          | None => CBadHeader end
        | None => CBadHeader end
      | None => CBadHeader end
  end.
