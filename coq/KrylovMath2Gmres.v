(* KrylovMath2Gmres.v -- the last link of the GMRES minimal-residual theorem (C05-A2):
   (a) Krylov.backsub solves the upper-triangular system held in H and s (non-zero diagonal);
   (b) Krylov.k_lin_comb (cv_of sv v j) forms sum_c sv_c v_c;
   (c) the entries H(i,c), i <= c, stored by the inner loop ARE the rotated columns (Q hbar_c)_i, the
       entries below the diagonal of Q hbar_c vanish, and the diagonal is non-zero when there is no
       breakdown (ordered field);
   (d) hence the x returned by ONE restart cycle Krylov.gm_cycle has a (preconditioned) residual of
       squared norm s_j^2, and no element of x + (P) span(v_0..v_{j-1}) has a smaller one;
   (e) the residual of the x returned with maxiter = k+1 is not larger than with maxiter = k. *)
From Amgcl Require Import Scalar Vec Kernels KernelsProofs Krylov KrylovRef KrylovProofs
                          KrylovMathVec KrylovMathGmres KrylovMathLsq KrylovMathMinres AmgOrder.
From Coq Require Import QArith_base.
Local Close Scope Q_scope.
Local Open Scope S_scope.
Local Notation SS := Datatypes.S.

Ltac vext :=
  unfold vadd, vsub, vscal, vzeros; rewrite ?zipw_vmap2;
  apply nth_error_ext; let i := fresh "i" in intro i;
  repeat (rewrite ?nth_error_vmap2, ?nth_error_vmap3, ?nth_error_map);
  repeat match goal with |- context [nth_error ?v i] => destruct (nth_error v i) end;
  simpl; try reflexivity; try (f_equal; ring).

(* ================================================================== *)
(* (a) back substitution                                              *)
Section Backsub.
Context {S : Scalar}.
Hypothesis Sft : Sfield S.
Add Field SFieldBS : Sft.

(* the inner loop  for (k < i) s[k] -= H(k,i) * s[i] *)
Lemma elim_fold (H : nat -> nat -> S) (i : nat) (si : S) : forall m (s : nat -> S) l,
  fold_left (fun acc k => upd acc k (acc k - H k i * si)) (seq 0 m) s l =
  if Nat.ltb l m then s l - H l i * si else s l.
Proof.
  induction m as [|m IH]; intros s l; [reflexivity|].
  rewrite seq_S, fold_left_app. simpl. unfold upd at 1.
  destruct (Nat.eqb l m) eqn:E.
  - apply Nat.eqb_eq in E. subst l. rewrite IH, Nat.ltb_irrefl.
    assert (X : Nat.ltb m (SS m) = true) by (apply Nat.ltb_lt; lia). rewrite X. reflexivity.
  - apply Nat.eqb_neq in E. rewrite IH.
    destruct (Nat.ltb l m) eqn:L1; destruct (Nat.ltb l (SS m)) eqn:L2; try reflexivity;
      [apply Nat.ltb_lt in L1; apply Nat.ltb_ge in L2|apply Nat.ltb_ge in L1; apply Nat.ltb_lt in L2]; lia.
Qed.

(* the upper triangle of H *)
Definition utri (H : nat -> nat -> S) (i c : nat) : S := if Nat.ltb c i then s0 else H i c.

Theorem backsub_solves (H : nat -> nat -> S) : forall m (t : nat -> S),
  (forall i, i < m -> H i i <> s0) ->
  (forall l, m <= l -> backsub H (rev (seq 0 m)) t l = t l) /\
  (forall i, i < m -> sumn (fun c => backsub H (rev (seq 0 m)) t c * utri H i c) m = t i).
Proof.
  induction m as [|m IH]; intros t D.
  - split; [reflexivity|intros; lia].
  - rewrite seq_S, rev_app_distr. cbn [rev app Nat.add backsub].
    set (si := t m / H m m).
    set (t' := fold_left (fun acc k => upd acc k (acc k - H k m * si)) (seq 0 m) (upd t m si)).
    destruct (IH t' ltac:(intros; apply D; lia)) as (Hi & Lo).
    assert (T' : forall l, t' l = if Nat.ltb l m then t l - H l m * si else if Nat.eqb l m then si else t l).
    { intro l. unfold t'. rewrite elim_fold. unfold upd.
      destruct (Nat.ltb l m) eqn:L1; [|reflexivity].
      apply Nat.ltb_lt in L1. destruct (Nat.eqb l m) eqn:E; [apply Nat.eqb_eq in E; lia|reflexivity]. }
    split.
    + intros l Hl. rewrite Hi by lia. rewrite T'.
      destruct (Nat.ltb l m) eqn:L1; [apply Nat.ltb_lt in L1; lia|].
      destruct (Nat.eqb l m) eqn:E; [apply Nat.eqb_eq in E; lia|reflexivity].
    + intros i Hi'. cbn [sumn]. rewrite (Hi m (le_n m)), T', Nat.ltb_irrefl, Nat.eqb_refl.
      destruct (Nat.eq_dec i m) as [->|N].
      * rewrite (sumn_ext _ (fun _ => s0) m).
        2:{ intros c Hc. unfold utri. assert (X : Nat.ltb c m = true) by (apply Nat.ltb_lt; exact Hc).
            rewrite X. ring. }
        rewrite (sumn_zero (F_R Sft)). unfold utri. rewrite Nat.ltb_irrefl. unfold si. field. apply D. lia.
      * rewrite (Lo i ltac:(lia)), T'.
        assert (X : Nat.ltb i m = true) by (apply Nat.ltb_lt; lia). rewrite X.
        unfold utri. assert (Y : Nat.ltb m i = false) by (apply Nat.ltb_ge; lia). rewrite Y. ring.
Qed.
End Backsub.

(* ================================================================== *)
(* (b) lin_comb                                                       *)
Section LinComb.
Context {S : Scalar}.
Local Notation vec := (vec S).
Hypothesis Sft : Sfield S.
Hypothesis Seqb : seqb_spec S.
Add Field SFieldLC : Sft.
Let Srt : Sring S := F_R Sft.
Variable n : nat.

Fixpoint cvsum (cv : list (S * vec)) : vec :=
  match cv with [] => zeron n | (c, v) :: tl => vadd (vscal c v) (cvsum tl) end.
Lemma cvsum_len cv : (forall c v, In (c, v) cv -> length v = n) -> length (cvsum cv) = n.
Proof.
  induction cv as [|[c v] tl IH]; intro H; simpl; [apply zeron_len|].
  apply vadd_len; [apply vscal_len, (H c v); left; reflexivity|apply IH; intros; eapply H; right; eassumption].
Qed.

Lemma vadd_zeron_r (y : vec) : length y = n -> vadd y (zeron n) = y.
Proof.
  intro L. apply (vec_ext_n n); [apply vadd_len; [exact L|apply zeron_len]|exact L|].
  intros i Hi. rewrite (nth_vadd_n n) by (auto using zeron_len). unfold zeron. rewrite nth_repeat. ring.
Qed.

Lemma k_lin_comb_rest_spec : forall cv,
  (forall y, length y = n -> (forall c v, In (c, v) cv -> length v = n) ->
     k_lin_comb_rest cv y = vadd y (cvsum cv)) /\
  (forall a y, length y = n -> (forall c v, In (c, v) (a :: cv) -> length v = n) ->
     k_lin_comb_rest (a :: cv) y = vadd y (cvsum (a :: cv))).
Proof.
  induction cv as [|b tl (IH1 & IH2)].
  - split.
    + intros y L _. simpl. symmetry. apply vadd_zeron_r, L.
    + intros [c v] y L Hv. simpl.
      assert (Lv : length v = n) by (apply (Hv c v); left; reflexivity).
      rewrite (k_axpby_spec Srt Seqb) by lia.
      rewrite (vadd_zeron_r (vscal c v)) by (apply vscal_len, Lv). vext.
  - split; [intros y L Hv; apply IH2; assumption|].
    intros [c1 v1] y L Hv. destruct b as [c2 v2]. cbn [k_lin_comb_rest cvsum].
    assert (L1 : length v1 = n) by (apply (Hv c1 v1); left; reflexivity).
    assert (L2 : length v2 = n) by (apply (Hv c2 v2); right; left; reflexivity).
    rewrite (k_axpbypcz_spec Srt Seqb) by lia.
    rewrite IH1.
    + vext.
    + rewrite vmap3_length, L1, L2, L. lia.
    + intros c v Hcv. apply (Hv c v). right; right; exact Hcv.
Qed.

Lemma cvsum_cv_of (s : nat -> S) (v : nat -> vec) : forall m a,
  cvsum (map (fun i => (s i, v i)) (seq a m)) = lsum n (seq a m) (fun k => vscal (s k) (v k)).
Proof. induction m as [|m IH]; intro a; simpl; [reflexivity|]. rewrite IH. reflexivity. Qed.

(* lin_comb(j, s, v, 0, y) = sum_{c<j} s_c v_c   (j > 0; the old contents of y are irrelevant) *)
Theorem k_lin_comb_comb (s : nat -> S) (v : nat -> vec) j (y : vec) : 0 < j ->
  (forall l, l < j -> length (v l) = n) ->
  k_lin_comb (cv_of s v j) s0 y = comb n v s j.
Proof.
  intros Hj Lv. destruct j as [|j]; [lia|].
  unfold cv_of. cbn [seq map k_lin_comb].
  assert (E0 : k_axpby (s 0) (v 0) s0 y = vscal (s 0) (v 0)).
  { unfold k_axpby. rewrite (is_zero_s0 Seqb). reflexivity. }
  rewrite E0.
  rewrite (proj1 (k_lin_comb_rest_spec _)).
  - rewrite cvsum_cv_of.
    change (vadd (vscal (s 0) (v 0)) (lsum n (seq 1 j) (fun k => vscal (s k) (v k))))
      with (lsum n (seq 0 (SS j)) (fun k => vscal (s k) (v k))).
    rewrite (lsum_seq_vsum Srt n) by (intros k Hk; apply vscal_len, Lv; lia). reflexivity.
  - apply vscal_len, Lv. lia.
  - intros c u Hcu. apply in_map_iff in Hcu as (i & E & Hi). apply in_seq in Hi.
    injection E as _ <-. apply Lv. lia.
Qed.
End LinComb.

(* ================================================================== *)
(* (c) the triangular system held by the workspace after j passes      *)
Section Qlow.
Context {S : Scalar}.
Lemma Qn_low (cs sn : nat -> S) p u i : i < p -> forall d, Qn cs sn (p + d) u i = Qn cs sn p u i.
Proof.
  intros Hi d. induction d as [|d IH]; [rewrite Nat.add_0_r; reflexivity|].
  rewrite Nat.add_succ_r. simpl. unfold rotv.
  destruct (Nat.eqb i (p + d)) eqn:E1; [apply Nat.eqb_eq in E1; lia|].
  destruct (Nat.eqb i (SS (p + d))) eqn:E2; [apply Nat.eqb_eq in E2; lia|]. exact IH.
Qed.
Lemma rot_col_frame (cs sn : nat -> S) j ks : forall H r c, c <> j -> rot_col cs sn j ks H r c = H r c.
Proof.
  induction ks as [|k tl IH]; intros H r c N; simpl; [reflexivity|].
  destruct (app_rot (H k j) (H (SS k) j) (cs k) (sn k)) as [a b].
  rewrite IH by exact N. unfold updm.
  destruct (Nat.eqb c j) eqn:E; [apply Nat.eqb_eq in E; contradiction|].
  rewrite !andb_false_r. reflexivity.
Qed.
End Qlow.

Section Model2.
Context {S : Scalar}.
Local Notation vec := (vec S).
Local Notation gm_ws := (@gm_ws S).
Hypothesis Sft : Sfield S.
Hypothesis Seqb : seqb_spec S.
Hypothesis Sreal : forall x : S, sadj x = x.
Hypothesis HofQ0 : sofQ (0 # 1)%Q = @s0 S.
Hypothesis HofQ1 : sofQ (1 # 1)%Q = @s1 S.
Add Field SFieldM2 : Sft.
Let Srt : Sring S := F_R Sft.

Variable n : nat.
Variables A P : vec -> vec.
Variable left : bool.
Variable w0 : gm_ws.
Local Notation W := (W A P left w0).
Local Notation Wb := (Wb A P left w0).
Local Notation Kv := (Kv A P left w0).
Local Notation hbar := (hbar A P left w0).
Hypothesis Lv0 : length (g_v w0 0) = n.

(* ---- column c of H is written in pass c only ---- *)
Lemma arnoldi_tail_H_frame (w : gm_ws) i vnew0 r c : c <> i ->
  g_H (fst (arnoldi_tail w i vnew0)) r c = g_H w r c.
Proof.
  intro N. unfold arnoldi_tail.
  pose proof (mgs_frame (g_v w) i (seq 0 (SS i)) (g_H w) vnew0 r c) as F.
  destruct (mgs (g_v w) i (seq 0 (SS i)) (g_H w) vnew0) as [H1 vnew1]. simpl in F.
  match goal with |- context [gen_rot ?a ?b] => destruct (gen_rot a b) as [cc ss] end.
  unfold app_rot. cbn [fst g_H]. unfold updm at 1 2.
  destruct (Nat.eqb c i) eqn:E; [apply Nat.eqb_eq in E; contradiction|].
  rewrite !andb_false_r. rewrite rot_col_frame by exact N. unfold updm. rewrite E, andb_false_r.
  apply F. intros (E' & _). contradiction.
Qed.
Lemma arnoldi_tail_H_col (w : gm_ws) i vnew0 r : r < i ->
  g_H (fst (arnoldi_tail w i vnew0)) r i = tail_H3 w i vnew0 r i.
Proof.
  intro Hr. unfold arnoldi_tail, tail_H3.
  destruct (mgs (g_v w) i (seq 0 (SS i)) (g_H w) vnew0) as [H1 vnew1].
  match goal with |- context [gen_rot ?a ?b] => destruct (gen_rot a b) as [cc ss] end.
  unfold app_rot. cbn [fst g_H]. unfold updm at 1 2.
  destruct (Nat.eqb r (SS i)) eqn:E1; [apply Nat.eqb_eq in E1; lia|].
  destruct (Nat.eqb r i) eqn:E2; [apply Nat.eqb_eq in E2; lia|]. reflexivity.
Qed.
Lemma H_frame i d r c : c < i -> g_H (W (i + d)) r c = g_H (W i) r c.
Proof.
  intro Hc. induction d as [|d IH]; [rewrite Nat.add_0_r; reflexivity|].
  rewrite Nat.add_succ_r, W_S, arnoldi_tail_H_frame by lia. exact IH.
Qed.
Lemma H_frame' i i' r c : c < i -> i <= i' -> g_H (W i') r c = g_H (W i) r c.
Proof. intros Hc Hi. replace i' with (i + (i' - i))%nat by lia. apply H_frame, Hc. Qed.

Variable j : nat.
Hypothesis Hd : forall i, i < j ->
  let dx := tail_H3 (Wb i) i (Kv i) i i in let dy := tail_H3 (Wb i) i (Kv i) (SS i) i in
  is_zero dy = false -> sltb (sabs dx) (sabs dy) = false -> dx <> s0.

(* the matrix of the triangular system of C05_gmres_model_residual_attained *)
Definition Rj (i c : nat) : S := Qn (g_cs (W j)) (g_sn (W j)) j (hbar c) i.

Lemma Rj_upto c i : c < j -> i <= c ->
  Rj i c = rotv (g_cs (W (SS c)) c) (g_sn (W (SS c)) c) c (Qn (g_cs (W c)) (g_sn (W c)) c (hbar c)) i.
Proof.
  intros Hc Hi. unfold Rj.
  replace j with (SS c + (j - SS c))%nat at 3 by lia.
  rewrite Qn_low by lia.
  rewrite (Qn_coeff_ext _ _ (g_cs (W (SS c))) (g_sn (W (SS c)))) by (intros l Hl; apply (cs_frame' A P left w0 (SS c) j); lia).
  simpl. apply rotv_ext. intro k. apply Qn_coeff_ext. intros l Hl. apply (cs_frame' A P left w0 c (SS c)); lia.
Qed.

Lemma Rj_stored c i : c < j -> i <= c -> Rj i c = g_H (W j) i c.
Proof.
  intros Hc Hi. rewrite Rj_upto by assumption.
  rewrite (H_frame' (SS c) j) by lia. rewrite W_S. unfold rotv.
  destruct (Nat.eqb i c) eqn:E.
  - apply Nat.eqb_eq in E. subst i.
    destruct (arnoldi_tail_s (Wb c) c (Kv c)) as (_ & _ & G & _). cbv zeta in G.
    unfold app_rot in G. rewrite !Sreal in G. injection G as G1 _.
    rewrite G1, <- !(H3_is_Q Sreal n A P left w0 Lv0) by lia. reflexivity.
  - apply Nat.eqb_neq in E.
    destruct (Nat.eqb i (SS c)) eqn:E2; [apply Nat.eqb_eq in E2; lia|].
    rewrite arnoldi_tail_H_col by lia. rewrite (H3_is_Q Sreal n A P left w0 Lv0) by lia. reflexivity.
Qed.

Lemma Rj_below c i : c < j -> c < i -> i <= j -> Rj i c = s0.
Proof.
  intros Hc Hi Hij. unfold Rj.
  assert (Z1 : Qn (g_cs (W (SS c))) (g_sn (W (SS c))) (SS c) (hbar c) (SS c) = s0).
  { apply (column_annihilated Sft Seqb Sreal HofQ0 HofQ1 n A P left w0 (SS c) Lv0); [|lia].
    intros i' Hi'. apply Hd. lia. }
  assert (Z : forall l, SS c <= l -> Qn (g_cs (W j)) (g_sn (W j)) (SS c) (hbar c) l = s0).
  { intros l Hl.
    rewrite (Qn_coeff_ext _ _ (g_cs (W (SS c))) (g_sn (W (SS c)))) by (intros l' Hl'; apply (cs_frame' A P left w0 (SS c) j); lia).
    destruct (Nat.eq_dec l (SS c)) as [->|N]; [exact Z1|].
    rewrite Qn_high by lia. apply (hbar_zero n A P left w0 Lv0). lia. }
  pose proof (Qn_zero_tail Srt (g_cs (W j)) (g_sn (W j)) (SS c) (hbar c) Z (j - SS c) i ltac:(lia)) as Q.
  replace (SS c + (j - SS c))%nat with j in Q by lia. exact Q.
Qed.

Lemma Rj_utri i c : i < j -> c < j -> utri (g_H (W j)) i c = Rj i c.
Proof.
  intros Hi Hc. unfold utri. destruct (Nat.ltb c i) eqn:E.
  - apply Nat.ltb_lt in E. symmetry. apply Rj_below; lia.
  - apply Nat.ltb_ge in E. symmetry. apply Rj_stored; lia.
Qed.

(* ---- the diagonal is non-zero without breakdown (ordered field) ---- *)
Hypothesis Ord : ordered S.
Hypothesis Hh : forall i, i < j -> arn_h (W i) i (Kv i) <> s0.
Hypothesis Hu : forall i, i < j -> unit_rot (g_cs (W (SS i)) i) (g_sn (W (SS i)) i).

Lemma diag_nonzero c : c < j -> g_H (W j) c c <> s0.
Proof.
  intros Hc E. rewrite (H_frame' (SS c) j) in E by lia. rewrite W_S in E.
  destruct (arnoldi_tail_s (Wb c) c (Kv c)) as (G0 & _ & G & _). cbv zeta in G0, G.
  rewrite <- W_S in G0, G.
  set (dx := tail_H3 (Wb c) c (Kv c) c c) in *. set (dy := tail_H3 (Wb c) c (Kv c) (SS c) c) in *.
  pose proof (app_rot_isometry Sft Sreal dx dy _ _ (Hu c Hc)) as I.
  pose proof (gen_rot_annihilates Sft Seqb HofQ0 HofQ1 dx dy (Hd c Hc)) as AN.
  rewrite <- G0 in AN. cbn [fst snd] in AN.
  rewrite <- G in I, AN. cbn [fst snd] in I, AN. rewrite <- W_S in E. rewrite E, AN in I.
  assert (Dy : dy = arn_h (W c) c (Kv c)).
  { unfold dy. rewrite (H3_is_Q Sreal n A P left w0 Lv0) by lia. rewrite Qn_high by lia.
    apply (hbar_sub n A P left w0 Lv0). }
  assert (Ny : dy <> s0) by (rewrite Dy; apply Hh, Hc).
  pose proof (sq_pos Srt Ord dy Ny) as Py. pose proof (sq_nonneg Srt Ord dx) as Px.
  assert (Q : olt (s0 + s0) (dx * dx + dy * dy)).
  { rewrite (Radd_comm Srt (dx * dx)). apply (olt_ole_add Srt Ord); assumption. }
  unfold sq in I. rewrite <- I in Q. replace (s0 * s0 + s0 * s0) with (@s0 S + s0) in Q by ring.
  unfold olt in Q. rewrite (o_irrefl S Ord) in Q. discriminate.
Qed.

(* ---- the y computed by the code solves the system ---- *)
Definition sv_of : nat -> S := backsub (g_H (W j)) (rev (seq 0 j)) (g_s (W j)).

Theorem backsub_solves_model :
  (forall i, i < j -> sumn (fun c => sv_of c * Rj i c) j = g_s (W j) i) /\ sv_of j = g_s (W j) j.
Proof.
  destruct (backsub_solves Sft (g_H (W j)) j (g_s (W j)) diag_nonzero) as (Hi & Lo).
  split; [|apply Hi; lia].
  intros i Hi'. rewrite <- (Lo i Hi'). apply sumn_ext. intros c Hc. rewrite Rj_utri by assumption. reflexivity.
Qed.
End Model2.

(* ================================================================== *)
(* (d) one restart cycle of gmres.hpp                                  *)
Section Cycle.
Context {S : Scalar}.
Local Notation vec := (vec S).
Local Notation gm_ws := (@gm_ws S).
Local Notation kprm := (@kprm S).
Hypothesis Sft : Sfield S.
Hypothesis Seqb : seqb_spec S.
Hypothesis Sreal : forall x : S, sadj x = x.
Hypothesis HofQ0 : sofQ (0 # 1)%Q = @s0 S.
Hypothesis HofQ1 : sofQ (1 # 1)%Q = @s1 S.
Hypothesis Ord : ordered S.
Add Field SFieldCy : Sft.
Let Srt : Sring S := F_R Sft.

Variable n : nat.
Variables A P : vec -> vec.
Hypothesis A_len : forall v, length v = n -> length (A v) = n.
Hypothesis P_len : forall v, length v = n -> length (P v) = n.
Hypothesis A_lin : linear_on n A.
Hypothesis P_lin : linear_on n P.

Lemma Kop_len left x : length x = n -> length (Kop A P left x) = n.
Proof. intro L. unfold Kop, pspmv. destruct left; simpl; auto. Qed.
Lemma Kop_lin left : linear_on n (Kop A P left).
Proof.
  intros a x y Lx Ly. unfold Kop, pspmv. destruct left; simpl.
  - rewrite (A_lin a x y Lx Ly). apply P_lin; auto.
  - rewrite (P_lin a x y Lx Ly). apply A_lin; auto.
Qed.

(* the (preconditioned) residual vector whose norm gmres.hpp reports and minimises *)
Definition pres (left : bool) (f z : vec) : vec :=
  let r := k_residual f (A z) in if left then P r else r.
(* the correction applied to x for a Krylov-space element z *)
Definition Pr (left : bool) (z : vec) : vec := if left then z else P z.

Lemma pres_len left f z : length f = n -> length z = n -> length (pres left f z) = n.
Proof.
  intros Lf Lz. unfold pres.
  assert (L : length (k_residual f (A z)) = n).
  { unfold k_residual. rewrite vmap2_length, A_len, Lf by exact Lz. apply Nat.min_id. }
  destruct left; auto.
Qed.

Lemma pres_shift left f x z : length f = n -> length x = n -> length z = n ->
  pres left f (vadd x (Pr left z)) = vsub (pres left f x) (Kop A P left z).
Proof.
  intros Lf Lx Lz. unfold pres, Pr, Kop, pspmv. destruct left; cbn [fst].
  - rewrite (lin_add Srt n A A_lin) by assumption.
    assert (E : k_residual f (vadd (A x) (A z)) = vsub (k_residual f (A x)) (A z)) by (unfold k_residual; vext).
    rewrite E. apply (lin_sub Srt n P P_lin); auto.
    unfold k_residual. rewrite vmap2_length, A_len, Lf by exact Lx. apply Nat.min_id.
  - rewrite (lin_add Srt n A A_lin) by auto. unfold k_residual. vext.
Qed.

(* the workspace the inner loop starts from:  v[0] = r / norm_r;  fill(s, 0);  s[0] = norm_r *)
Definition gm_w1 (norm_r : S) (w : gm_ws) : gm_ws :=
  mkGmWs (g_H w) (upd (fun _ => sofQ (0 # 1)%Q) 0 norm_r) (g_cs w) (g_sn w) (g_r w)
         (upd (g_v w) 0 (k_axpby (sinv norm_r) (g_r w) s0 (g_v w 0))) (g_z w).
Definition gm_run (prm : kprm) (eps norm_r : S) (w : gm_ws) (it : nat) :=
  gm_inner (gm_body A P (p_left prm)) (p_maxiter prm) (p_M prm) eps (pred (p_M prm)) (gm_w1 norm_r w) 0 it.

Lemma gm_cycle_eq prm eps norm_r x w it :
  gm_cycle A P prm eps norm_r x w it =
  let r := gm_run prm eps norm_r w it in
  let w2 := n_ws r in
  let sv := backsub (g_H w2) (rev (seq 0 (n_j r))) (g_s w2) in
  let dx := k_lin_comb (cv_of sv (g_v w2) (n_j r)) s0 (g_r w2) in
  if p_left prm then
    (k_axpby s1 dx s1 x, mkGmIn (mkGmWs (g_H w2) sv (g_cs w2) (g_sn w2) dx (g_v w2) (g_z w2)) (n_j r) (n_it r) (n_oof r))
  else
    (k_axpby s1 (P dx) s1 x,
     mkGmIn (mkGmWs (g_H w2) sv (g_cs w2) (g_sn w2) dx (upd (g_v w2) 0 (P dx)) (g_z w2)) (n_j r) (n_it r) (n_oof r)).
Proof. reflexivity. Qed.

Variable prm : kprm.
Local Notation left := (p_left prm).
Variables (f x : vec) (w : gm_ws) (eps norm_r : S) (it : nat).
Hypothesis Lf : length f = n.
Hypothesis Lx : length x = n.
(* what gm_outer establishes before the cycle: r = (P)(f - A x) *)
Hypothesis Hr : g_r w = pres left f x.
(* norm_r = |sqrt <r, r>| with the root exact, and the method has not converged exactly *)
Hypothesis Nx : norm_r * norm_r = rdot (g_r w) (g_r w).
Hypothesis Nn : norm_r <> s0.

Local Notation w1 := (gm_w1 norm_r w).
Local Notation jj := (n_j (gm_run prm eps norm_r w it)).
Local Notation Wk := (W A P left w1).

Lemma Lr : length (g_r w) = n.
Proof. rewrite Hr. apply pres_len; assumption. Qed.
Lemma v0_is : g_v w1 0 = vscal (sinv norm_r) (g_r w).
Proof. cbn [gm_w1 g_v]. rewrite upd_eq. unfold k_axpby. rewrite (is_zero_s0 Seqb). reflexivity. Qed.
Lemma Lv0' : length (g_v w1 0) = n.
Proof. rewrite v0_is. apply vscal_len, Lr. Qed.
Lemma ON0' : rdot (g_v w1 0) (g_v w1 0) = s1.
Proof.
  rewrite v0_is, (rdot_vscal_l Srt), (rdot_vscal_r Srt Sreal), <- Nx. field. exact Nn.
Qed.
Lemma Hs0' : forall l, 0 < l -> g_s w1 l = s0.
Proof. intros l Hl. cbn [gm_w1 g_s]. rewrite upd_neq by lia. exact HofQ0. Qed.
Lemma r0_is : vscal (g_s w1 0) (g_v w1 0) = pres left f x.
Proof.
  rewrite v0_is. cbn [gm_w1 g_s]. rewrite upd_eq, <- Hr.
  apply (vec_ext_n n); [apply vscal_len, vscal_len, Lr|apply Lr|].
  intros i Hi. rewrite !(nth_vscal_n n) by (auto using vscal_len, Lr). field. exact Nn.
Qed.

Lemma run_is_iter : 0 < jj /\ n_ws (gm_run prm eps norm_r w it) = Wk jj.
Proof.
  exact (gm_inner_is_iter (gm_body A P left) (p_maxiter prm) (p_M prm) eps (pred (p_M prm)) w1 w1 0 it eq_refl).
Qed.

(* the run: no breakdown, exact roots, unit rotations (C05_givens_coefficients_unit) *)
Hypothesis Hh : forall i, i < jj -> arn_h (Wk i) i (Kv A P left w1 i) <> s0.
Hypothesis Hx : forall i, i < jj ->
  arn_h (Wk i) i (Kv A P left w1 i) * arn_h (Wk i) i (Kv A P left w1 i) =
  rdot (arn_w (Wk i) i (Kv A P left w1 i)) (arn_w (Wk i) i (Kv A P left w1 i)).
Hypothesis Hu : forall i, i < jj -> unit_rot (g_cs (Wk (SS i)) i) (g_sn (Wk (SS i)) i).
Hypothesis Hd : forall i, i < jj ->
  let dx := tail_H3 (Wb A P left w1 i) i (Kv A P left w1 i) i i in
  let dy := tail_H3 (Wb A P left w1 i) i (Kv A P left w1 i) (SS i) i in
  is_zero dy = false -> sltb (sabs dx) (sabs dy) = false -> dx <> s0.

Local Notation Vk := (V A P left w1 jj).
Local Notation svk := (sv_of A P left w1 jj).

Lemma Vk_len k : k <= jj -> length (Vk k) = n.
Proof. apply (V_len Sft Seqb Sreal n A P left (Kop_len left) w1 jj Lv0' ON0' Hh Hx). Qed.

(* the iterate returned by the cycle is x + (P) sum_c sv_c v_c with sv the result of backsub *)
Lemma cycle_x :
  fst (gm_cycle A P prm eps norm_r x w it) = vadd x (Pr left (comb n Vk svk jj)) /\
  g_s (n_ws (snd (gm_cycle A P prm eps norm_r x w it))) = svk /\
  n_j (snd (gm_cycle A P prm eps norm_r x w it)) = jj.
Proof.
  rewrite gm_cycle_eq. cbv zeta. destruct run_is_iter as (Jp & Ew). rewrite Ew.
  assert (Edx : k_lin_comb (cv_of (backsub (g_H (Wk jj)) (rev (seq 0 jj)) (g_s (Wk jj))) (g_v (Wk jj)) jj) s0 (g_r (Wk jj))
                = comb n Vk svk jj).
  { apply (k_lin_comb_comb Sft Seqb n); [exact Jp|]. intros l Hl. apply Vk_len. lia. }
  rewrite Edx.
  assert (Lc : length (comb n Vk svk jj) = n) by (apply comb_len; intros l Hl; apply Vk_len; lia).
  unfold Pr. destruct left; cbn [fst snd n_ws n_j g_s]; (split; [|split; reflexivity]).
  - rewrite (k_axpby_spec Srt Seqb) by lia. vext.
  - rewrite (k_axpby_spec Srt Seqb) by (rewrite P_len; lia). vext.
Qed.

Theorem gm_cycle_returns_minimiser :
  let res := gm_cycle A P prm eps norm_r x w it in
  let x' := fst res in
  let j := n_j (snd res) in
  let s := g_s (n_ws (snd res)) in
  j = jj /\ 0 < j /\
  x' = vadd x (Pr left (comb n Vk s j)) /\
  rdot (pres left f x') (pres left f x') = s j * s j /\
  forall y : nat -> S,
    ole (rdot (pres left f x') (pres left f x'))
        (rdot (pres left f (vadd x (Pr left (comb n Vk y j)))) (pres left f (vadd x (Pr left (comb n Vk y j))))).
Proof.
  destruct cycle_x as (Ex & Es & Ej). cbv zeta. rewrite Ex, Es, Ej.
  destruct run_is_iter as (Jp & _).
  assert (Lc : forall y, length (comb n Vk y jj) = n) by (intro y; apply comb_len; intros l Hl; apply Vk_len; lia).
  destruct (backsub_solves_model Sft Seqb Sreal HofQ0 HofQ1 n A P left w1 Lv0' jj Hd Ord Hh Hu) as (Sys & Sj).
  assert (AT : rdot (pres left f (vadd x (Pr left (comb n Vk svk jj)))) (pres left f (vadd x (Pr left (comb n Vk svk jj))))
               = svk jj * svk jj).
  { rewrite pres_shift by auto. rewrite <- r0_is, Sj.
    apply (gm_residual_attained Sft Seqb Sreal HofQ0 HofQ1 n A P left (Kop_len left) (Kop_lin left) w1 jj
             Lv0' ON0' Hh Hx Hu Hd Hs0' svk).
    exact Sys. }
  repeat split; try assumption; try reflexivity.
  intro y. rewrite AT, Sj. rewrite pres_shift by auto. rewrite <- r0_is.
  apply (gm_residual_lower_bound Sft Seqb Sreal HofQ0 HofQ1 n A P left (Kop_len left) (Kop_lin left) w1 jj
           Lv0' ON0' Hh Hx Hu Hd Ord Hs0' y).
Qed.
End Cycle.

(* ================================================================== *)
(* (e) maxiter = k  versus  maxiter = k + 1  inside one cycle          *)
Section MaxiterMono.
Context {S : Scalar}.
Local Notation vec := (vec S).
Local Notation gm_ws := (@gm_ws S).
Local Notation kprm := (@kprm S).

Lemma gm_inner_j_lt (body : gm_ws -> nat -> gm_ws * S) mx M eps : forall fuel w j it,
  j < n_j (gm_inner body mx M eps fuel w j it).
Proof.
  induction fuel as [|k IH]; intros w j it; simpl; destruct (body w j) as [w' ir].
  - destruct (Nat.leb mx (SS it) || Nat.leb M (SS j) || negb (sltb eps ir)); simpl; lia.
  - destruct (Nat.leb mx (SS it) || Nat.leb M (SS j) || negb (sltb eps ir)); simpl; [lia|].
    specialize (IH w' (SS j) (SS it)). lia.
Qed.

(* a larger iteration limit never makes the inner loop stop earlier *)
Lemma gm_inner_maxiter_mono (body : gm_ws -> nat -> gm_ws * S) k M eps : forall fuel w j it,
  n_j (gm_inner body k M eps fuel w j it) <= n_j (gm_inner body (SS k) M eps fuel w j it).
Proof.
  assert (B : forall it, Nat.leb (SS k) (SS it) = true -> Nat.leb k (SS it) = true).
  { intros it E. apply Nat.leb_le. apply Nat.leb_le in E. lia. }
  induction fuel as [|fu IH]; intros w j it; cbn [gm_inner]; destruct (body w j) as [w' ir];
    specialize (B it); destruct (Nat.leb (SS k) (SS it)) eqn:E1.
  - rewrite (B eq_refl). cbn [orb n_j]. lia.
  - destruct (Nat.leb k (SS it) || Nat.leb M (SS j) || negb (sltb eps ir));
    destruct (false || Nat.leb M (SS j) || negb (sltb eps ir)); cbn [n_j]; lia.
  - rewrite (B eq_refl). cbn [orb n_j]. lia.
  - rewrite orb_false_l.
    destruct (Nat.leb M (SS j) || negb (sltb eps ir)) eqn:E3.
    + rewrite <- orb_assoc, E3, orb_true_r. cbn [n_j]. lia.
    + rewrite <- orb_assoc, E3, orb_false_r.
      destruct (Nat.leb k (SS it)); cbn [n_j]; [|apply IH].
      pose proof (gm_inner_j_lt body (SS k) M eps fu w' (SS j) (SS it)). lia.
Qed.

Definition with_maxiter (prm : kprm) (k : nat) : kprm :=
  mkPrm k (p_tol prm) (p_abstol prm) (p_ns prm) (p_ca prm) (p_M prm) (p_left prm) (p_damping prm)
        (p_K prm) (p_areset prm) (p_L prm) (p_delta prm) (p_convex prm).

Hypothesis Sft : Sfield S.
Hypothesis Seqb : seqb_spec S.
Hypothesis Sreal : forall x : S, sadj x = x.
Hypothesis HofQ0 : sofQ (0 # 1)%Q = @s0 S.
Hypothesis HofQ1 : sofQ (1 # 1)%Q = @s1 S.
Hypothesis Ord : ordered S.
Let Srt : Sring S := F_R Sft.
Variable n : nat.
Variables A P : vec -> vec.
Hypothesis A_len : forall v, length v = n -> length (A v) = n.
Hypothesis P_len : forall v, length v = n -> length (P v) = n.
Hypothesis A_lin : linear_on n A.
Hypothesis P_lin : linear_on n P.
Variable prm : kprm.
Local Notation left := (p_left prm).
Local Notation prm' := (with_maxiter prm (SS (p_maxiter prm))).
Variables (f x : vec) (w : gm_ws) (eps norm_r : S) (it : nat).
Hypothesis Lf : length f = n.
Hypothesis Lx : length x = n.
Hypothesis Hr : g_r w = pres A P left f x.
Hypothesis Nx : norm_r * norm_r = rdot (g_r w) (g_r w).
Hypothesis Nn : norm_r <> s0.
Local Notation w1 := (gm_w1 norm_r w).
Local Notation j0 := (n_j (gm_run A P prm eps norm_r w it)).
Local Notation j1 := (n_j (gm_run A P prm' eps norm_r w it)).
Local Notation Wk := (W A P left w1).
Hypothesis Hh : forall i, i < j1 -> arn_h (Wk i) i (Kv A P left w1 i) <> s0.
Hypothesis Hx : forall i, i < j1 ->
  arn_h (Wk i) i (Kv A P left w1 i) * arn_h (Wk i) i (Kv A P left w1 i) =
  rdot (arn_w (Wk i) i (Kv A P left w1 i)) (arn_w (Wk i) i (Kv A P left w1 i)).
Hypothesis Hu : forall i, i < j1 -> unit_rot (g_cs (Wk (SS i)) i) (g_sn (Wk (SS i)) i).
Hypothesis Hd : forall i, i < j1 ->
  let dx := tail_H3 (Wb A P left w1 i) i (Kv A P left w1 i) i i in
  let dy := tail_H3 (Wb A P left w1 i) i (Kv A P left w1 i) (SS i) i in
  is_zero dy = false -> sltb (sabs dx) (sabs dy) = false -> dx <> s0.

Lemma j0_le_j1 : j0 <= j1.
Proof. apply gm_inner_maxiter_mono. Qed.

(* the squared residual of the returned iterate is the square of the estimate s_j held after j passes *)
Lemma cycle_residual_is_estimate (q : kprm) : p_left q = left ->
  n_j (gm_run A P q eps norm_r w it) <= j1 ->
  let x' := fst (gm_cycle A P q eps norm_r x w it) in
  let j := n_j (gm_run A P q eps norm_r w it) in
  rdot (pres A P left f x') (pres A P left f x') = sq (g_s (Wk j) j).
Proof.
  intros El Hj. cbv zeta.
  assert (Hr' : g_r w = pres A P (p_left q) f x) by (rewrite El; exact Hr).
  pose proof (gm_cycle_returns_minimiser Sft Seqb Sreal HofQ0 HofQ1 Ord n A P A_len P_len A_lin P_lin
                q f x w eps norm_r it Lf Lx Hr' Nx Nn) as T.
  pose proof (cycle_x Sft Seqb Sreal n A P A_len P_len q f x w eps norm_r it Lf Lx Hr' Nx Nn) as C.
  rewrite El in T, C.
  assert (H1 : forall i, i < n_j (gm_run A P q eps norm_r w it) -> arn_h (Wk i) i (Kv A P left w1 i) <> s0)
    by (intros; apply Hh; lia).
  assert (H2 : forall i, i < n_j (gm_run A P q eps norm_r w it) ->
     arn_h (Wk i) i (Kv A P left w1 i) * arn_h (Wk i) i (Kv A P left w1 i) =
     rdot (arn_w (Wk i) i (Kv A P left w1 i)) (arn_w (Wk i) i (Kv A P left w1 i))) by (intros; apply Hx; lia).
  assert (H3 : forall i, i < n_j (gm_run A P q eps norm_r w it) -> unit_rot (g_cs (Wk (SS i)) i) (g_sn (Wk (SS i)) i))
    by (intros; apply Hu; lia).
  assert (H4 : forall i, i < n_j (gm_run A P q eps norm_r w it) ->
     let dx := tail_H3 (Wb A P left w1 i) i (Kv A P left w1 i) i i in
     let dy := tail_H3 (Wb A P left w1 i) i (Kv A P left w1 i) (SS i) i in
     is_zero dy = false -> sltb (sabs dx) (sabs dy) = false -> dx <> s0) by (intros i Hi; apply Hd; lia).
  specialize (T H1 H2 H3 H4). specialize (C H1 H2 H3 H4). cbv zeta in T.
  destruct T as (Ej & _ & _ & R & _). destruct C as (_ & Es & _).
  rewrite R, Es, Ej.
  assert (Lv0 : length (g_v w1 0) = n).
  { apply (Lv0' Seqb n A P A_len P_len q f x w norm_r Lf Lx Hr'). }
  destruct (backsub_solves_model Sft Seqb Sreal HofQ0 HofQ1 n A P left w1 Lv0 _ H4 Ord H1 H3) as (_ & Sj).
  rewrite Sj. reflexivity.
Qed.

Lemma estimate_chain m : forall d, m + d <= j1 -> ole (sq (g_s (Wk (m + d)) (m + d))) (sq (g_s (Wk m) m)).
Proof.
  assert (Z : forall l, 0 < l -> g_s w1 l = s0).
  { intros l Hl. cbn [gm_w1 g_s]. rewrite upd_neq by lia. exact HofQ0. }
  induction d as [|d IH]; intro Hm; [rewrite Nat.add_0_r; apply (ole_refl Ord)|].
  rewrite Nat.add_succ_r.
  apply (ole_trans Ord _ (sq (g_s (Wk (m + d)) (m + d)))); [|apply IH; lia].
  apply (gm_estimate_monotone Sft Sreal Ord (gm_body A P left) (gm_body_tail A P left) w1 j1 Z Hu (m + d)%nat). lia.
Qed.

Theorem gm_cycle_residual_nonincreasing_in_maxiter :
  let xk := fst (gm_cycle A P prm eps norm_r x w it) in
  let xk1 := fst (gm_cycle A P prm' eps norm_r x w it) in
  ole (rdot (pres A P left f xk1) (pres A P left f xk1)) (rdot (pres A P left f xk) (pres A P left f xk)).
Proof.
  cbv zeta.
  rewrite (cycle_residual_is_estimate prm eq_refl j0_le_j1).
  rewrite (cycle_residual_is_estimate prm' eq_refl (le_n _)).
  pose proof j0_le_j1 as L.
  replace j1 with (j0 + (j1 - j0))%nat at 1 2 by lia.
  apply estimate_chain. lia.
Qed.
End MaxiterMono.

(* ================================================================== *)
(* (f) the outer loop: the cycle is entered with r = (P)(f - A x); gmres with an iteration limit
       that ends inside the first cycle returns the iterate of that cycle                       *)
Section Outer.
Context {S : Scalar}.
Local Notation vec := (vec S).
Local Notation gm_ws := (@gm_ws S).
Local Notation kprm := (@kprm S).
Variables A P : vec -> vec.

(* the workspace after the residual computation at the top of the outer loop of gmres.hpp *)
Definition gm_w0 (prm : kprm) (f x : vec) (w : gm_ws) : gm_ws :=
  if p_left prm
  then let v0 := k_residual f (A x) in
       mkGmWs (g_H w) (g_s w) (g_cs w) (g_sn w) (P v0) (upd (g_v w) 0 v0) (g_z w)
  else mkGmWs (g_H w) (g_s w) (g_cs w) (g_sn w) (k_residual f (A x)) (g_v w) (g_z w).

Lemma gm_w0_residual prm f x w : g_r (gm_w0 prm f x w) = pres A P (p_left prm) f x.
Proof. unfold gm_w0, pres. destruct (p_left prm); reflexivity. Qed.

Lemma gm_outer_step prm f eps nr k x w it oof :
  gm_outer A P prm f eps nr (SS k) x w it oof =
  let w0 := gm_w0 prm f x w in
  let norm_r := norm_b (g_r w0) in
  if sltb norm_r eps || Nat.leb (p_maxiter prm) it then (mkRes it (norm_r / nr) x oof, w0)
  else let '(x', r) := gm_cycle A P prm eps norm_r x w0 it in
       gm_outer A P prm f eps nr k x' (n_ws r) (n_it r) (oof || n_oof r).
Proof. reflexivity. Qed.

Lemma gm_outer_stop prm f eps nr fuel x w it oof : Nat.leb (p_maxiter prm) it = true ->
  fst (gm_outer A P prm f eps nr fuel x w it oof) =
  mkRes it (norm_b (g_r (gm_w0 prm f x w)) / nr) x oof.
Proof.
  intro E. destruct fuel as [|k]; [cbn [gm_outer]|rewrite gm_outer_step; cbv zeta];
    fold (gm_w0 prm f x w); rewrite E, orb_true_r; reflexivity.
Qed.

(* gmres whose iteration limit is reached in the first restart cycle returns the iterate of that cycle *)
Theorem gmres_first_cycle prm f x0 junk nr :
  k_prologue norm_b prm f = Go nr ->
  let eps := smax (p_tol prm * nr) (p_abstol prm) in
  let w0 := gm_w0 prm f x0 junk in
  let norm_r := norm_b (g_r w0) in
  let cyc := gm_cycle A P prm eps norm_r x0 w0 0 in
  sltb norm_r eps = false -> 0 < p_maxiter prm -> p_maxiter prm <= n_it (snd cyc) ->
  exists r w, gmres A P prm f x0 junk = (KOk r, w) /\ k_x r = fst cyc /\ k_it r = n_it (snd cyc).
Proof.
  intros Hp eps w0 norm_r cyc Hc Hm Hi.
  unfold gmres. rewrite Hp. fold eps.
  rewrite gm_outer_step. cbv zeta. fold w0 norm_r. rewrite Hc.
  assert (E0 : Nat.leb (p_maxiter prm) 0 = false) by (apply Nat.leb_gt; exact Hm).
  rewrite E0. cbn [orb]. fold cyc.
  destruct cyc as [x' r] eqn:Ec. cbn [fst snd] in *.
  assert (E1 : Nat.leb (p_maxiter prm) (n_it r) = true) by (apply Nat.leb_le; exact Hi).
  pose proof (gm_outer_stop prm f eps nr (p_maxiter prm) x' (n_ws r) (n_it r) (n_oof r) E1) as St.
  destruct (gm_outer A P prm f eps nr (p_maxiter prm) x' (n_ws r) (n_it r) (n_oof r)) as [res wr].
  cbn [fst] in St. exists res, wr. split; [reflexivity|]. rewrite St. split; reflexivity.
Qed.
End Outer.
