(* Direct.v -- solver::skyline_lu as coded (amgcl/solver/skyline_lu.hpp:97-308).
   Definitions only; proofs in DirectProofs.v.

   Storage (private members): n, perm, ptr (n+1 entries), L, U (ptr[n] entries each),
   D (n entries, holds the INVERTED pivots after factorize), scratch y (n entries,
   mutable, survives calls: an explicit junk input of [sky_solve]).
   Row i of L / column i of U occupy the slots ptr[i] .. ptr[i+1]-1 and hold the
   positions j = i-len_i .. i-1 (len_i = ptr[i+1]-ptr[i]); slot of (i,j): ptr[i+1]+j-i.
   The int expressions [i - ptr[i+1] + k] are written (i + k) - ptr[i+1] in nat: equal
   whenever the C++ value is non-negative, i.e. for every profile with len_i <= i
   ([profile_wf]; the constructor only produces such profiles). *)
From Amgcl Require Import Scalar Vec Crs DirectUtil CuthillMcKee.
Local Open Scope S_scope.
Local Open Scope nat_scope.

Section Direct.
Context {S : Scalar}.
Local Notation vec := (vec S).

Record skyline := mkSky {
  sk_n    : nat;
  sk_perm : list nat;
  sk_ptr  : list nat;
  sk_L    : vec;
  sk_U    : vec;
  sk_D    : vec }.

Inductive sky_result :=
| SkyOk (f : skyline)
| SkyZeroPivot                  (* precondition(!is_zero(...)) throws std::runtime_error *)
| SkyOrdering (r : cm_result).  (* the ordering did not return a permutation *)

Definition pget (p : list nat) (i : nat) : nat := nth i p 0.

(* std::vector<int> invperm(n); for(i < n) invperm[perm[i]] = i; *)
Definition inverse_perm (n : nat) (perm : list nat) : list nat :=
  for_loop 0 n (fun i ip => lset ip (pget perm i) i) (repeat 0 n).

(* first traversal: required heights/lengths, stored provisionally in ptr[newi] / ptr[newj] *)
Definition profile_entry (ip : list nat) (i : nat) (ptr : list nat) (e : nat * S) : list nat :=
  let newi := pget ip i in
  let newj := pget ip (fst e) in
  if negb (is_zero (snd e)) then
    if Nat.ltb newj newi then
      (if Nat.ltb (pget ptr newi) (newi - newj) then lset ptr newi (newi - newj) else ptr)
    else if Nat.ltb newi newj then
      (if Nat.ltb (pget ptr newj) (newj - newi) then lset ptr newj (newj - newi) else ptr)
    else ptr
  else ptr.

Definition profile_heights (n : nat) (ip : list nat) (A : crs S) : list nat :=
  for_loop 0 n (fun i ptr => fold_left (profile_entry ip i) (nth i (rows A) []) ptr)
           (repeat 0 (Datatypes.S n)).

(* last = 0; for(i = 1; i <= n; ++i) { tmp = ptr[i]; ptr[i] = ptr[i-1] + last; last = tmp; } *)
Definition profile_ptr (n : nat) (h : list nat) : list nat :=
  fst (for_loop 1 n (fun i (pl : list nat * nat) =>
                       let tmp := pget (fst pl) i in
                       (lset (fst pl) i (pget (fst pl) (i - 1) + snd pl), tmp)) (h, 0)).

(* second traversal: copy the entries (a later duplicate OVERWRITES an earlier one) *)
Definition fill_entry (ip ptr : list nat) (i : nat) (lud : vec * vec * vec) (e : nat * S)
  : vec * vec * vec :=
  let '(L, U, D) := lud in
  let newi := pget ip i in
  let newj := pget ip (fst e) in
  let v := snd e in
  if negb (is_zero v) then
    if Nat.ltb newi newj then (L, lset U (pget ptr (Datatypes.S newj) + newi - newj) v, D)
    else if Nat.eqb newi newj then (L, U, lset D newi v)
    else (lset L (pget ptr (Datatypes.S newi) + newj - newi) v, U, D)
  else lud.

Definition fill (n : nat) (ip ptr : list nat) (A : crs S) : vec * vec * vec :=
  let nz := pget ptr n in
  for_loop 0 n (fun i lud => fold_left (fill_entry ip ptr i) (nth i (rows A) []) lud)
           (repeat s0 nz, repeat s0 nz, repeat s0 n).

(* ---- factorize(): Crout, diag(U) = 1, D overwritten by inverted pivots ---- *)

(* for(j = jBeginMult; j < i; ++j, ++indexL, ++indexU) sum -= L[indexL] * U[indexU]; *)
Definition dot_sub (L U : vec) (indexL indexU cnt : nat) (sum : S) : S :=
  for_loop 0 cnt (fun t s => (s - vget L (indexL + t) * vget U (indexU + t))%S) sum.

(* "Compute column k+1 of U" *)
Definition crout_U_col (ptr : list nat) (L D : vec) (k : nat) (U : vec) : vec :=
  let pk1 := pget ptr (k + 1) in
  let iBeginCol := k + 1 + pk1 - pget ptr (k + 2) in
  for_loop iBeginCol (k + 1 - iBeginCol) (fun i U =>
    if Nat.eqb i 0 then U else
    let indexEntry := pk1 + (i - iBeginCol) in
    let sum := vget U indexEntry in
    let jBeginRow := i + pget ptr i - pget ptr (i + 1) in
    let jBeginMult := Nat.max iBeginCol jBeginRow in
    let indexL := pget ptr i + jBeginMult - jBeginRow in
    let indexU := pk1 + jBeginMult - iBeginCol in
    lset U indexEntry (vget D i * dot_sub L U indexL indexU (i - jBeginMult) sum)%S) U.

(* "Compute row k+1 of L" *)
Definition crout_L_row (ptr : list nat) (U : vec) (k : nat) (L : vec) : vec :=
  let pk1 := pget ptr (k + 1) in
  let iBeginCol := k + 1 + pk1 - pget ptr (k + 2) in
  let jBeginRow := iBeginCol in
  for_loop iBeginCol (k + 1 - iBeginCol) (fun i L =>
    if Nat.eqb i 0 then L else
    let indexEntry := pk1 + (i - iBeginCol) in
    let sum := vget L indexEntry in
    let jBeginCol := i + pget ptr i - pget ptr (i + 1) in
    let jBeginMult := Nat.max jBeginCol jBeginRow in
    let indexL := pk1 + jBeginMult - jBeginRow in
    let indexU := pget ptr i + jBeginMult - jBeginCol in
    lset L indexEntry (dot_sub L U indexL indexU (i - jBeginMult) sum)) L.

(* one pass of "for(k = 0; k < n-1; ++k)"; None = precondition failed *)
Definition crout_step (ptr : list nat) (k : nat) (lud : vec * vec * vec) : option (vec * vec * vec) :=
  let '(L, U, D) := lud in
  let pk1 := pget ptr (k + 1) in
  let pk2 := pget ptr (k + 2) in
  let U1 := if Nat.eqb (pk1 + k + 1) pk2 then lset U pk1 (vget D 0 * vget U pk1)%S else U in
  let U2 := crout_U_col ptr L D k U1 in
  let L2 := crout_L_row ptr U2 k L in
  let sum := dot_sub L2 U2 pk1 pk1 (pk2 - pk1) (vget D (k + 1)) in
  if is_zero sum then None else Some (L2, U2, lset D (k + 1) (sinv sum)).

Definition factorize (n : nat) (ptr : list nat) (lud : vec * vec * vec) : option (vec * vec * vec) :=
  let '(L, U, D) := lud in
  if is_zero (vget D 0) then None else
  for_loop 0 (n - 1) (fun k o => match o with None => None | Some lud => crout_step ptr k lud end)
           (Some (L, U, lset D 0 (sinv (vget D 0)))).

(* constructor with a given ordering result *)
Definition sky_build_perm (A : crs S) (perm : list nat) : sky_result :=
  let n := nrows A in
  let ip := inverse_perm n perm in
  let ptr := profile_ptr n (profile_heights n ip A) in
  match factorize n ptr (fill n ip ptr A) with
  | None => SkyZeroPivot
  | Some (L, U, D) => SkyOk (mkSky n perm ptr L U D)
  end.

(* skyline_lu<value_type, cuthill_mckee<reverse>>(A) *)
Definition sky_build (reverse : bool) (A : crs S) : sky_result :=
  match cuthill_mckee reverse (map (map fst) (rows A)) with
  | CmOk perm => sky_build_perm A perm
  | r => SkyOrdering r
  end.

(* ---- operator()(rhs, x) ---- *)

(* for(i < n) { sum = rhs[perm[i]]; for(k = ptr[i], j = i-ptr[i+1]+k; k < ptr[i+1]; ++k,++j)
                sum -= L[k]*y[j];  y[i] = D[i]*sum; } *)
Definition sky_forward (f : skyline) (rhs y : vec) : vec :=
  for_loop 0 (sk_n f) (fun i y =>
    let p0 := pget (sk_ptr f) i in
    let p1 := pget (sk_ptr f) (i + 1) in
    let sum := for_loop p0 (p1 - p0)
                 (fun k s => (s - vget (sk_L f) k * vget y (i + k - p1)%nat)%S)
                 (vget rhs (pget (sk_perm f) i)) in
    lset y i (vget (sk_D f) i * sum)%S) y.

(* for(j = n-1; j >= 0; --j) for(k = ptr[j], i = j-ptr[j+1]+k; k < ptr[j+1]; ++k,++i)
       y[i] -= U[k]*y[j]; *)
Definition sky_backward (f : skyline) (y : vec) : vec :=
  for_down 0 (sk_n f) (fun j y =>
    let p0 := pget (sk_ptr f) j in
    let p1 := pget (sk_ptr f) (j + 1) in
    for_loop p0 (p1 - p0)
      (fun k y => let i := j + k - p1 in lset y i (vget y i - vget (sk_U f) k * vget y j)%S) y) y.

(* for(i < n) x[perm[i]] = y[i]; *)
Definition sky_scatter (f : skyline) (y x : vec) : vec :=
  for_loop 0 (sk_n f) (fun i x => lset x (pget (sk_perm f) i) (vget y i)) x.

(* returns (x, y): the solution and the scratch vector left behind for the next call *)
Definition sky_solve (f : skyline) (rhs x yjunk : vec) : vec * vec :=
  let y := sky_backward f (sky_forward f rhs yjunk) in
  (sky_scatter f y x, y).

(* profile shape the C++ index arithmetic assumes *)
Definition profile_wf (n : nat) (ptr : list nat) : Prop :=
  length ptr = Datatypes.S n /\
  forall i, i < n -> pget ptr i <= pget ptr (Datatypes.S i) /\
                     pget ptr (Datatypes.S i) - pget ptr i <= i.

End Direct.
Arguments skyline : clear implicits.
Arguments sky_result : clear implicits.
