(* TentativeQr.v -- tentative_prolongation WITH a near-null space, the QR oracle of Tentative.v
   instantiated with the model of the code that is really called:
   amgcl/coarsening/tentative_prolongation.hpp:165-205 calling detail::QR<double>::factorize
   (amgcl/detail/qr.hpp, model Qr.v) in column-major order.  Definitions only; proofs:
   TentativeQrProofs.v.

   Per block aggregate i (members = rows k with aggr[k] >= 0 and aggr[k]/block_size = i, in
   increasing k -- the result of the stable_sort/aggr_ptr pass, as in Tentative.v):
     Bpart.resize(d*cols); Bpart[jj + d*k] = B[cols*order[j] + k]      (column major, d = #members)
     qr.factorize(d, cols, &Bpart[0], col_major)                       (strides 1, d)
     Bnew[i*cols*cols + ii*cols + jj] = qr.R(ii,jj)                    (row major cols x cols block)
     P.col[..] = i*cols + jj;  P.val[..] = qr.Q(ii,jj) * identity      (ii = position among the members)
   The QR object lives outside the loop over the aggregates (one per thread): its vector q is
   resized, not cleared, so factorize() starts from the content left by the previous aggregate of
   the same thread.  That content is the explicit input [q] threaded through ns_factors_seq
   (one thread: aggregates in increasing order, fresh object = empty vector). *)
From Amgcl Require Import Scalar Vec Crs Kernels MatOps Aggregates Tentative DirectUtil Qr.
Local Open Scope S_scope.

Section TentativeQr.
Context {S : Scalar}.
Local Notation vec := (vec S).
Local Notation mat := (mat (S:=S)).

(* std::vector::resize(n): the old prefix is kept, new cells are value-initialised *)
Definition vresize (v : vec) (n : nat) : vec := firstn n v ++ repeat s0 (n - length v).

(* Bpart after the gather loops (every one of the d*cols cells is written): cell jj + d*k holds
   column k of member jj *)
Definition gather_cm (cols : nat) (Bp : mat) : vec :=
  flat_map (fun k => map (fun r => nth k r s0) Bp) (seq 0 cols).

(* one aggregate: (Q as d x cols rows, R as cols x cols rows), and the q vector left behind *)
Definition qr_aggr (cols : nat) (qjunk : vec) (Bp : mat) : (mat * mat) * vec :=
  let d := length Bp in
  let f := qr_factorize d cols 1 d (gather_cm cols Bp) (vresize qjunk (d * cols)) in
  let A' := fst (fst f) in
  let q := snd f in
  ((tabulate d (fun ii => tabulate cols (fun jj => qr_Q 1 d q ii jj)),
    tabulate cols (fun ii => tabulate cols (fun jj => qr_R 1 d A' ii jj))), q).

(* the QR oracle of Tentative.v realised by the code, fresh QR object *)
Definition qr_real (cols : nat) (Bp : mat) : mat * mat := fst (qr_aggr cols [] Bp).

(* the loop over the aggregates as one thread executes it *)
Fixpoint ns_factors_seq (bs cols : nat) (id : list Z) (B : mat) (l : list nat) (q : vec)
  : list (list nat * (mat * mat)) :=
  match l with
  | [] => []
  | i :: tl =>
    let mem := members bs id i in
    let r := qr_aggr cols q (map (mrow B) mem) in
    (mem, fst r) :: ns_factors_seq bs cols id B tl (snd r)
  end.

(* returns (P, Bnew); Bnew = one cols x cols block per aggregate *)
Definition tentative_prolongation_qr (bs cols naggr : nat) (id : list Z) (B : mat) (q0 : vec)
  : crs S * list mat :=
  let nba := Nat.div naggr bs in
  let facs := ns_factors_seq bs cols id B (seq 0 nba) q0 in
  (mkCrs (cols * nba) (map (fun ka => tentative_ns_row bs cols facs (fst ka) (snd ka)) (indexed id)),
   map (fun f => snd (snd f)) facs).

(* any other schedule: aggregate i is factorised on top of an arbitrary old content (qj i) *)
Definition ns_factors_any (bs cols : nat) (id : list Z) (B : mat) (nba : nat) (qj : nat -> vec)
  : list (list nat * (mat * mat)) :=
  map (fun i => let mem := members bs id i in (mem, fst (qr_aggr cols (qj i) (map (mrow B) mem)))) (seq 0 nba).
Definition tentative_prolongation_qr_any (bs cols naggr : nat) (id : list Z) (B : mat) (qj : nat -> vec)
  : crs S * list mat :=
  let nba := Nat.div naggr bs in
  let facs := ns_factors_any bs cols id B nba qj in
  (mkCrs (cols * nba) (map (fun ka => tentative_ns_row bs cols facs (fst ka) (snd ka)) (indexed id)),
   map (fun f => snd (snd f)) facs).

(* specification oracles (evaluated on model and implementation outputs):
   (P * Bnew)[k][c] = B[k][c] on aggregated rows, P^T P = I *)
Definition bnew_get (cols : nat) (Rs : list mat) (col c : nat) : S :=
  mentry (nth (Nat.div col cols) Rs []) (Nat.modulo col cols) c.
Definition ns_reproduces_ok (cols : nat) (id : list Z) (B : mat) (P : crs S) (Rs : list mat) : bool :=
  forallb (fun ka =>
      Z.ltb (snd ka) 0 ||
      forallb (fun c =>
         seqb (fold_right (fun e acc => snd e * bnew_get cols Rs (fst e) c + acc) s0 (nth (fst ka) (rows P) []))
              (mentry B (fst ka) c)) (seq 0 cols))
    (indexed id).
Definition ns_orthonormal_ok (P : crs S) : bool :=
  forallb (fun j1 => forallb (fun j2 =>
      seqb (sumn (fun k => mget P k j1 * mget P k j2) (nrows P)) (if Nat.eqb j1 j2 then s1 else s0))
    (seq 0 (ncols P))) (seq 0 (ncols P)).

End TentativeQr.
