(* KernelsProofs.v -- proofs about the backend primitives (property C07). *)
From Amgcl Require Import Scalar Vec Crs Kernels.
Local Open Scope S_scope.

(* ------------------------------------------------------------------ *)
(* Part 1: statements that need NO algebraic law: they hold for every
   Scalar record, in particular for IEEE floats with NaN/Inf payloads. *)
Section AnyScalar.
Context {S : Scalar}.
Local Notation vec := (vec S).

Lemma map_dotrow_length (A : crs S) (x : vec) :
  length (map (fun r => dotrow r x) (rows A)) = nrows A.
Proof. unfold nrows. apply map_length. Qed.

Theorem spmv_beta0_ignores_y alpha (A : crs S) x beta (y y' : vec) :
  is_zero beta = true -> length y = nrows A -> length y' = nrows A ->
  spmv alpha A x beta y = spmv alpha A x beta y'.
Proof.
  intros Hb Hy Hy'. unfold spmv. rewrite Hb.
  apply (upd2_ignore (fun s => alpha * s)); rewrite ?map_dotrow_length; congruence.
Qed.

Theorem residual_ignores_res f (A : crs S) x (r r' : vec) :
  length f = nrows A -> length r = nrows A -> length r' = nrows A ->
  residual f A x r = residual f A x r'.
Proof.
  intros Hf Hr Hr'. unfold residual.
  apply (upd3_ignore (fun s fi => fi - s)); rewrite ?map_dotrow_length; congruence.
Qed.

Theorem axpby_b0_ignores_y a (x : vec) b (y y' : vec) :
  is_zero b = true -> length y = length x -> length y' = length x ->
  axpby a x b y = axpby a x b y'.
Proof.
  intros Hb Hy Hy'. unfold axpby. rewrite Hb.
  apply (upd2_ignore (fun xi => a * xi)); congruence.
Qed.

Theorem axpbypcz_c0_ignores_z a (x : vec) b (y : vec) c (z z' : vec) :
  is_zero c = true -> length y = length x -> length z = length x -> length z' = length x ->
  axpbypcz a x b y c z = axpbypcz a x b y c z'.
Proof.
  intros Hc Hy Hz Hz'. unfold axpbypcz. rewrite Hc.
  apply (upd3_ignore (fun xi yi => a * xi + b * yi)); congruence.
Qed.

Theorem vmul_b0_ignores_z a (x y : vec) b (z z' : vec) :
  is_zero b = true -> length y = length x -> length z = length x -> length z' = length x ->
  vmul a x y b z = vmul a x y b z'.
Proof.
  intros Hb Hy Hz Hz'. unfold vmul. rewrite Hb.
  apply (upd3_ignore (fun xi yi => a * xi * yi)); congruence.
Qed.

Theorem vcopy_ignores_y (x y y' : vec) :
  length y = length x -> length y' = length x -> vcopy x y = vcopy x y'.
Proof. intros H1 H2. unfold vcopy. apply (upd2_ignore (fun xi => xi)); congruence. Qed.

Theorem vcopy_spec (x y : vec) : length y = length x -> vcopy x y = x.
Proof.
  unfold vcopy. revert y; induction x as [|a x IH]; intros [|b y] H; simpl in *; try congruence.
  f_equal. apply IH. congruence.
Qed.

Theorem vclear_spec (x : vec) i : vget (vclear x) i = s0.
Proof.
  unfold vget, vclear. revert i; induction x as [|a x IH]; intros [|i]; simpl; auto.
Qed.

Theorem vclear_length (x : vec) : length (vclear x) = length x.
Proof. apply map_length. Qed.

Theorem lin_comb_alpha0_ignores_y c0 (v0 : vec) cv alpha (y y' : vec) :
  is_zero alpha = true -> length y = length v0 -> length y' = length v0 ->
  lin_comb ((c0, v0) :: cv) alpha y = lin_comb ((c0, v0) :: cv) alpha y'.
Proof.
  intros Ha Hy Hy'. unfold lin_comb. f_equal. apply axpby_b0_ignores_y; assumption.
Qed.

(* lengths *)
Lemma spmv_length alpha (A : crs S) x beta (y : vec) :
  length y = nrows A -> length (spmv alpha A x beta y) = nrows A.
Proof.
  intros H. unfold spmv; destruct (is_zero beta);
    rewrite upd2_length; rewrite ?map_dotrow_length; congruence.
Qed.
Lemma residual_length f (A : crs S) x (r : vec) :
  length f = nrows A -> length r = nrows A -> length (residual f A x r) = nrows A.
Proof.
  intros H1 H2. unfold residual. rewrite upd3_length; rewrite ?map_dotrow_length; congruence.
Qed.
Lemma axpby_length a (x : vec) b (y : vec) : length y = length x -> length (axpby a x b y) = length x.
Proof. intros H. unfold axpby; destruct (is_zero b); rewrite upd2_length; congruence. Qed.
Lemma axpbypcz_length a (x : vec) b (y : vec) c (z : vec) :
  length y = length x -> length z = length x -> length (axpbypcz a x b y c z) = length x.
Proof. intros H1 H2. unfold axpbypcz; destruct (is_zero c); rewrite upd3_length; congruence. Qed.
Lemma vmul_length a (x y : vec) b (z : vec) :
  length y = length x -> length z = length x -> length (vmul a x y b z) = length x.
Proof. intros H1 H2. unfold vmul; destruct (is_zero b); rewrite upd3_length; congruence. Qed.

End AnyScalar.

(* ------------------------------------------------------------------ *)
(* Part 2: algebraic characterisations, for every commutative ring.   *)
Section RingLaws.
Context {S : Scalar}.
Local Notation vec := (vec S).
Hypothesis Srt : Sring S.
Hypothesis Seqb : seqb_spec S.
Add Ring SRing : Srt.

Lemma is_zero_true (b : S) : is_zero b = true -> b = s0.
Proof. unfold is_zero. apply Seqb. Qed.

Lemma sumn_add (f g : nat -> S) n : sumn (fun i => f i + g i) n = sumn f n + sumn g n.
Proof. induction n as [|n IH]; simpl; [ring|rewrite IH; ring]. Qed.

Lemma sumn_scal (a : S) (f : nat -> S) n : sumn (fun i => a * f i) n = a * sumn f n.
Proof. induction n as [|n IH]; simpl; [ring|rewrite IH; ring]. Qed.

Lemma sumn_zero n : sumn (fun _ => @s0 S) n = s0.
Proof. induction n as [|n IH]; simpl; [reflexivity|rewrite IH; ring]. Qed.

(* sum of a "delta" function *)
Lemma sumn_delta (c : nat) (v : S) n :
  sumn (fun j => if Nat.eqb c j then v else s0) n = if Nat.ltb c n then v else s0.
Proof.
  induction n as [|n IH]; simpl; [reflexivity|]. rewrite IH.
  destruct (Nat.eqb_spec c n) as [->|Hne].
  - rewrite Nat.ltb_irrefl. replace (n <? Datatypes.S n)%nat with true by (symmetry; apply Nat.ltb_lt; lia). ring.
  - destruct (Nat.ltb_spec c n); destruct (Nat.ltb_spec c (Datatypes.S n)); try lia; ring.
Qed.

Lemma rget_acc (r : row S) j (a : S) :
  fold_left (fun acc e => if Nat.eqb (fst e) j then acc + snd e else acc) r a = a + rget r j.
Proof.
  unfold rget. revert a; induction r as [|e r IH]; intro a; simpl; [ring|].
  rewrite IH. rewrite (IH (if Nat.eqb (fst e) j then s0 + snd e else s0)).
  destruct (Nat.eqb (fst e) j); ring.
Qed.

Lemma rget_cons (e : nat * S) (r : row S) j :
  rget (e :: r) j = (if Nat.eqb (fst e) j then snd e else s0) + rget r j.
Proof.
  unfold rget at 1; simpl. rewrite rget_acc. destruct (Nat.eqb (fst e) j); ring.
Qed.

Lemma rget_nil j : rget (@nil (nat * S)) j = s0.
Proof. reflexivity. Qed.

Lemma dotrow_acc (r : row S) (x : vec) (a : S) :
  fold_left (fun acc e => acc + snd e * vget x (fst e)) r a = a + dotrow r x.
Proof.
  unfold dotrow. revert a; induction r as [|e r IH]; intro a; simpl; [ring|].
  rewrite IH. rewrite (IH (s0 + _)). ring.
Qed.

Lemma dotrow_cons (e : nat * S) (r : row S) (x : vec) :
  dotrow (e :: r) x = snd e * vget x (fst e) + dotrow r x.
Proof. unfold dotrow at 1; simpl. rewrite dotrow_acc. ring. Qed.

(* dotrow = sum over all columns of (dense entry) * x_j *)
Lemma dotrow_spec (r : row S) (x : vec) m : row_wf m r = true ->
  dotrow r x = sumn (fun j => rget r j * vget x j) m.
Proof.
  induction r as [|e r IH]; intro Hwf.
  - unfold dotrow; simpl. rewrite (sumn_ext _ (fun _ => s0)).
    + symmetry; apply sumn_zero.
    + intros; rewrite rget_nil; ring.
  - simpl in Hwf. apply andb_prop in Hwf as [He Hr].
    rewrite dotrow_cons, IH by exact Hr.
    rewrite (sumn_ext (fun j => rget (e :: r) j * vget x j)
               (fun j => (if Nat.eqb (fst e) j then snd e * vget x (fst e) else s0) + rget r j * vget x j)).
    + rewrite sumn_add, sumn_delta. rewrite He. reflexivity.
    + intros j _. rewrite rget_cons. destruct (Nat.eqb_spec (fst e) j) as [->|]; ring.
Qed.

Definition Ax (A : crs S) (x : vec) (i : nat) : S :=
  sumn (fun j => mget A i j * vget x j) (ncols A).

Lemma forallb_nth {X} (p : X -> bool) (l : list X) i d : forallb p l = true -> i < length l -> p (nth i l d) = true.
Proof. intros H Hi. rewrite forallb_forall in H. apply H. apply nth_In. exact Hi. Qed.

Lemma dotrows_get (A : crs S) (x : vec) i : wf A = true -> i < nrows A ->
  vget (map (fun r => dotrow r x) (rows A)) i = Ax A x i.
Proof.
  intros Hwf Hi. unfold vget, Ax, mget.
  rewrite (nth_indep _ s0 (dotrow [] x)) by (rewrite map_length; exact Hi).
  rewrite (map_nth (fun r => dotrow r x)).
  apply dotrow_spec. apply forallb_nth; assumption.
Qed.

Theorem spmv_spec alpha (A : crs S) (x : vec) beta (y : vec) i :
  wf A = true -> length y = nrows A -> i < nrows A ->
  vget (spmv alpha A x beta y) i = alpha * Ax A x i + beta * vget y i.
Proof.
  intros Hwf Hy Hi. unfold spmv.
  destruct (is_zero beta) eqn:Hb.
  - rewrite upd2_get by (rewrite ?map_dotrow_length; congruence).
    rewrite dotrows_get by assumption. apply is_zero_true in Hb. subst beta. ring.
  - rewrite upd2_get by (rewrite ?map_dotrow_length; congruence).
    rewrite dotrows_get by assumption. ring.
Qed.

Theorem residual_spec (f : vec) (A : crs S) (x r : vec) i :
  wf A = true -> length f = nrows A -> length r = nrows A -> i < nrows A ->
  vget (residual f A x r) i = vget f i - Ax A x i.
Proof.
  intros Hwf Hf Hr Hi. unfold residual.
  rewrite upd3_get by (rewrite ?map_dotrow_length; congruence).
  rewrite dotrows_get by assumption. reflexivity.
Qed.

Theorem axpby_spec a (x : vec) b (y : vec) i : length y = length x -> i < length x ->
  vget (axpby a x b y) i = a * vget x i + b * vget y i.
Proof.
  intros Hy Hi. unfold axpby. destruct (is_zero b) eqn:Hb.
  - rewrite upd2_get by congruence. apply is_zero_true in Hb; subst b; ring.
  - rewrite upd2_get by congruence. reflexivity.
Qed.

Theorem axpbypcz_spec a (x : vec) b (y : vec) c (z : vec) i :
  length y = length x -> length z = length x -> i < length x ->
  vget (axpbypcz a x b y c z) i = a * vget x i + b * vget y i + c * vget z i.
Proof.
  intros Hy Hz Hi. unfold axpbypcz. destruct (is_zero c) eqn:Hc.
  - rewrite upd3_get by congruence. apply is_zero_true in Hc; subst c; ring.
  - rewrite upd3_get by congruence. reflexivity.
Qed.

Theorem vmul_spec a (x y : vec) b (z : vec) i :
  length y = length x -> length z = length x -> i < length x ->
  vget (vmul a x y b z) i = a * vget x i * vget y i + b * vget z i.
Proof.
  intros Hy Hz Hi. unfold vmul. destruct (is_zero b) eqn:Hb.
  - rewrite upd3_get by congruence. apply is_zero_true in Hb; subst b; ring.
  - rewrite upd3_get by congruence. reflexivity.
Qed.

(* lin_comb: y_i' = sum_k c_k v_k[i] + alpha y_i, for every number n >= 1 of terms
   (covers the odd/even pairing loop for all n) *)
Fixpoint lc_sum (cv : list (S * vec)) (i : nat) : S :=
  match cv with [] => s0 | (c, v) :: tl => c * vget v i + lc_sum tl i end.

Definition all_len (n : nat) (cv : list (S * vec)) : Prop := Forall (fun p => length (snd p) = n) cv.

Lemma lin_comb_rest_spec n : forall (cv : list (S * vec)) (y : vec) i,
  length cv <= n -> all_len (length y) cv -> i < length y ->
  vget (lin_comb_rest cv y) i = lc_sum cv i + vget y i
  /\ length (lin_comb_rest cv y) = length y.
Proof.
  induction n as [|n IH]; intros cv y i Hn Hl Hi.
  - destruct cv; simpl in *; [split; [ring|reflexivity] | lia].
  - destruct cv as [|[c1 v1] [|[c2 v2] tl]].
    + simpl. split; [ring|reflexivity].
    + inversion Hl as [|? ? H1 _]; subst. simpl in H1. simpl.
      split; [rewrite axpby_spec by congruence; simpl; ring | rewrite axpby_length; congruence].
    + inversion Hl as [|? ? H1 Hl']; subst. inversion Hl' as [|? ? H2 Hl'']; subst.
      simpl in H1, H2. cbn [lin_comb_rest lc_sum].
      assert (Hlen : length (axpbypcz c1 v1 c2 v2 s1 y) = length y)
        by (rewrite axpbypcz_length; congruence).
      destruct (IH tl (axpbypcz c1 v1 c2 v2 s1 y) i) as [E L].
      * simpl in Hn. lia.
      * rewrite Hlen. exact Hl''.
      * rewrite Hlen. exact Hi.
      * split; [|congruence]. rewrite E. rewrite axpbypcz_spec by congruence. ring.
Qed.

Theorem lin_comb_spec c0 (v0 : vec) cv alpha (y : vec) i :
  length v0 = length y -> all_len (length y) cv -> i < length y ->
  vget (lin_comb ((c0, v0) :: cv) alpha y) i = lc_sum ((c0, v0) :: cv) i + alpha * vget y i.
Proof.
  intros H0 Hl Hi. unfold lin_comb.
  assert (Hlen : length (axpby c0 v0 alpha y) = length y) by (rewrite axpby_length; congruence).
  destruct (lin_comb_rest_spec (length cv) cv (axpby c0 v0 alpha y) i) as [E _];
    rewrite ?Hlen; auto.
  rewrite E. rewrite axpby_spec by congruence. simpl. ring.
Qed.

(* inner product: the Kahan compensation term is identically zero in a ring *)
Fixpoint dot (x y : vec) : S :=
  match x, y with a :: x', b :: y' => a * sadj b + dot x' y' | _, _ => s0 end.

Lemma kahan_fold (l : list (S * S)) (s : S) :
  fold_left kahan_step l (s, s0) =
  (s + fold_right (fun xy acc => fst xy * sadj (snd xy) + acc) s0 l, s0).
Proof.
  revert s; induction l as [|[a b] l IH]; intro s; simpl.
  - f_equal; ring.
  - replace (s + (a * sadj b - s0) - s - (a * sadj b - s0)) with (@s0 S) by ring.
    rewrite IH. f_equal. ring.
Qed.

Lemma dot_combine (x y : vec) :
  fold_right (fun xy acc => fst xy * sadj (snd xy) + acc) s0 (combine x y) = dot x y.
Proof.
  revert y; induction x as [|a x IH]; intros [|b y]; simpl; try reflexivity. rewrite IH; reflexivity.
Qed.

Theorem inner_product_serial_spec (x y : vec) : inner_product_serial x y = dot x y.
Proof.
  unfold inner_product_serial, kahan. rewrite kahan_fold. simpl. rewrite dot_combine. ring.
Qed.

Lemma vsum_acc (v : vec) (a : S) : fold_left sadd v a = a + vsum v.
Proof.
  unfold vsum. revert a; induction v as [|b v IH]; intro a; simpl; [ring|].
  rewrite IH, (IH (s0 + b)). ring.
Qed.

Lemma fr_app (l1 l2 : list (S * S)) :
  fold_right (fun xy acc => fst xy * sadj (snd xy) + acc) s0 (l1 ++ l2) =
  fold_right (fun xy acc => fst xy * sadj (snd xy) + acc) s0 l1 +
  fold_right (fun xy acc => fst xy * sadj (snd xy) + acc) s0 l2.
Proof. induction l1 as [|e l1 IH]; simpl; [ring|rewrite IH; ring]. Qed.

(* any chunking that covers the whole index range gives the serial value *)
Lemma chunks_sum (lens : list nat) : forall (l : list (S * S)),
  length l <= fold_right Nat.add 0 lens ->
  vsum (map (fun xy => fst (fold_left kahan_step xy (s0, s0))) (chunks lens l)) =
  fold_right (fun xy acc => fst xy * sadj (snd xy) + acc) s0 l.
Proof.
  induction lens as [|n ns IH]; intros l Hl; simpl in *.
  - destruct l; simpl in *; [reflexivity|lia].
  - unfold vsum. simpl. rewrite vsum_acc. rewrite IH.
    + rewrite kahan_fold. simpl. rewrite <- (firstn_skipn n l) at 3. rewrite fr_app. ring.
    + rewrite skipn_length. lia.
Qed.

Theorem inner_product_parallel_spec lens (x y : vec) :
  length (combine x y) <= fold_right Nat.add 0 lens ->
  inner_product_parallel lens x y = inner_product_serial x y.
Proof.
  intro H. unfold inner_product_parallel. rewrite chunks_sum by exact H.
  rewrite inner_product_serial_spec. apply dot_combine.
Qed.

End RingLaws.
