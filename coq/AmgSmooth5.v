(* AmgSmooth5.v -- boolean checkers (with soundness lemmas) for the level conditions of
   AmgSmooth3.descs_ok, used by the closed instances and non-vacuity examples of Properties_C02.v. *)
From Coq Require Import QArith Qcanon.
From Amgcl Require Import Scalar QcInst Vec Crs Kernels KernelsProofs MatOps MatOpsProofs Relax RelaxProofs DenseSolve
  Amg AmgExec AmgProofs AmgProofs2 AmgProofs3 AmgProofs4 AmgProofs5 AmgProofs6 AmgProofs7 AmgProofs8
  AmgProofs9 AmgProofs10 AmgOrder AmgProofs11 AmgProofs12 AmgExamples AmgSmooth AmgSmooth2 AmgSmooth3.
Local Close Scope Qc_scope.
Local Close Scope Q_scope.
Local Open Scope S_scope.

Section Check2.
Context {S : Scalar}.
Local Notation crs := (crs S).
Hypothesis Sft : Sfield S.
Hypothesis Seqb : seqb_spec S.
Hypothesis Ord : ordered S.

Definition wddb (n : nat) (A : crs) : bool :=
  sym_matb n A &&
  forallb (fun i => sltb s0 (mget A i i)) (seq 0 n) &&
  forallb (fun i => negb (sltb (mget A i i) (ACs n A i))) (seq 0 n).

Lemma wddb_ok n A : wddb n A = true -> wdd n A.
Proof.
  intro H. unfold wddb in H. apply andb_prop in H as [H H3]. apply andb_prop in H as [H1 H2].
  rewrite forallb_forall in H2, H3.
  assert (Hin : forall i, i < n -> In i (seq 0 n)) by (intros; apply in_seq; lia).
  split; [apply (sym_matb_ok Seqb), H1|]. split.
  - intros i Hi. apply (H2 i (Hin i Hi)).
  - intros i Hi. unfold ole. apply negb_true_iff, (H3 i (Hin i Hi)).
Qed.

Fixpoint nodupb (l : list nat) : bool :=
  match l with [] => true | a :: tl => negb (existsb (Nat.eqb a) tl) && nodupb tl end.

Lemma nodupb_ok l : nodupb l = true -> NoDup l.
Proof.
  induction l as [|a tl IH]; intro H; [constructor|]. simpl in H. apply andb_prop in H as [H1 H2].
  constructor; [|apply IH, H2]. intro Hin. apply negb_true_iff in H1.
  assert (existsb (Nat.eqb a) tl = true) by (apply existsb_exists; exists a; split; [exact Hin|apply Nat.eqb_refl]).
  congruence.
Qed.

Definition rows_nodupb (A : crs) : bool := forallb (fun r => nodupb (map fst r)) (rows A).

Lemma rows_nodupb_ok A : rows_nodupb A = true -> rows_nodup A.
Proof.
  intro H. unfold rows_nodupb in H. rewrite forallb_forall in H. apply Forall_forall.
  intros r Hr. apply nodupb_ok, H, Hr.
Qed.

(* irreducible dominance: propagate "anchored" from the strictly dominant rows, n rounds *)
Definition inb (i : nat) (l : list nat) : bool := existsb (Nat.eqb i) l.

Definition reach_step (n : nat) (A : crs) (cur : list nat) : list nat :=
  filter (fun i => inb i cur ||
                   existsb (fun j => inb j cur && negb (Nat.eqb i j) && negb (seqb (mget A i j) s0)) (seq 0 n))
         (seq 0 n).
Definition reach_start (n : nat) (A : crs) : list nat :=
  filter (fun i => sltb (ACs n A i) (mget A i i)) (seq 0 n).
Definition iddb (n : nat) (A : crs) : bool :=
  let fin := Amg.iter n (reach_step n A) (reach_start n A) in
  forallb (fun i => inb i fin) (seq 0 n).

Lemma inb_In i l : inb i l = true -> In i l.
Proof. intro H. apply existsb_exists in H as (x & Hx & E). apply Nat.eqb_eq in E. subst x. exact Hx. Qed.

Lemma reach_step_ok n A cur : (forall i, In i cur -> i < n /\ anchored n A i) ->
  forall i, In i (reach_step n A cur) -> i < n /\ anchored n A i.
Proof.
  intros Hc i Hi. unfold reach_step in Hi. apply filter_In in Hi as [Hs Hi].
  apply in_seq in Hs. assert (Hlt : i < n) by lia. split; [exact Hlt|].
  apply orb_prop in Hi as [Hi|Hi]; [apply Hc, inb_In, Hi|].
  apply existsb_exists in Hi as (j & Hj & Hi). apply andb_prop in Hi as [Hi H3]. apply andb_prop in Hi as [H1 H2].
  apply in_seq in Hj. destruct (Hc j (inb_In j cur H1)) as [Hjn Ha].
  apply (anc_step n A i j Hlt Hjn); [| |exact Ha].
  - apply negb_true_iff in H2. apply Nat.eqb_neq, H2.
  - apply negb_true_iff in H3. intro E. rewrite E in H3.
    rewrite (proj2 (Seqb s0 s0) eq_refl) in H3. discriminate.
Qed.

Lemma iddb_ok n A : iddb n A = true -> idd n A.
Proof.
  intros H i Hi. unfold iddb in H. cbv zeta in H. rewrite forallb_forall in H.
  assert (G : forall m cur, (forall i, In i cur -> i < n /\ anchored n A i) ->
              forall i, In i (Amg.iter m (reach_step n A) cur) -> i < n /\ anchored n A i).
  { induction m as [|m IH]; intros cur Hc j Hj; [apply Hc, Hj|]. cbn [Amg.iter] in Hj.
    apply (IH (reach_step n A cur)); [apply reach_step_ok, Hc|exact Hj]. }
  apply (G n (reach_start n A)).
  - intros j Hj. unfold reach_start in Hj. apply filter_In in Hj as [Hs Hj]. apply in_seq in Hs.
    split; [lia|]. apply anc_strict; [lia|exact Hj].
  - apply inb_In, H. apply in_seq. lia.
Qed.

Definition lvl_okb (k : @relax_kind S) (A : crs) : bool :=
  wf A && wddb (nrows A) A &&
  match k with
  | RJacobi w => fdiagb A && sltb s0 w && negb (sltb s1 w)
  | RSpai0 => rows_nodupb A
  | RGS => gs_diag_okb A
  end.

Lemma lvl_okb_ok (Habs2 : forall v : S, sabs v * sabs v = v * v) (Hadj : forall v : S, sadj v = v) k A : lvl_okb k A = true -> lvl_ok k A.
Proof.
  intro H. unfold lvl_okb in H. apply andb_prop in H as [H H3]. apply andb_prop in H as [H1 H2].
  pose proof (wddb_ok _ _ H2) as HW. pose proof HW as (SA & Hpos & _).
  split; [exact H1|]. split; [exact SA|]. split; [intro v; apply (wdd_psd Sft Ord _ _ HW)|].
  destruct k as [w| |].
  - apply andb_prop in H3 as [H3 H5]. apply andb_prop in H3 as [H3 H4].
    split; [exact HW|]. split; [apply (fdiagb_ok Seqb), H3|]. split; [exact H4|].
    unfold ole. apply negb_true_iff, H5.
  - split; [exact HW|apply rows_nodupb_ok, H3].
  - split; [apply (gs_diag_okb_ok Seqb), H3|exact Hpos].
Qed.

Fixpoint descs_okb (k : @relax_kind S) (ls : list (@ldesc S)) : bool :=
  match ls with
  | [] => true
  | LMid A P R :: tl => lvl_okb k A && wf P && wf R && Nat.eqb (nrows P) (nrows A) &&
                        transpb (nrows A) (nrows R) R P && descs_okb k tl
  | LLast A :: tl => lvl_okb k A && descs_okb k tl
  | LSolve A :: tl => lvl_okb k A && descs_okb k tl
  end.

Lemma descs_okb_ok (Habs2 : forall v : S, sabs v * sabs v = v * v) (Hadj : forall v : S, sadj v = v) k ls :
  descs_okb k ls = true -> descs_ok k ls.
Proof.
  induction ls as [|l tl IH]; intro H; [exact I|]. destruct l as [A P R|A|A]; simpl in *.
  - apply andb_prop in H as [H H6]. apply andb_prop in H as [H H5]. apply andb_prop in H as [H H4].
    apply andb_prop in H as [H H3]. apply andb_prop in H as [H1 H2].
    split; [apply (lvl_okb_ok Habs2 Hadj), H1|]. split; [exact H2|]. split; [exact H3|].
    split; [apply Nat.eqb_eq, H4|]. split; [apply (transpb_ok Seqb), H5|apply IH, H6].
  - apply andb_prop in H as [H1 H2]. split; [apply (lvl_okb_ok Habs2 Hadj), H1|apply IH, H2].
  - apply andb_prop in H as [H1 H2]. split; [apply (lvl_okb_ok Habs2 Hadj), H1|apply IH, H2].
Qed.

End Check2.
