(* LowLevel2K.v -- C10-A2 / C16, second layer: solver::skyline_lu (amgcl/solver/skyline_lu.hpp:84-308)
   over arrays with checked accesses (the memory monad of LowLevel2.v), one thread.

   Every C++ [int] that takes part in a subtraction is a Z here; every operator[] is a checked
   access: a negative index or an index >= size() is OutOfBounds.

   Memory (all std::vector, i.e. value-initialised: there is no unwritten cell):
     perm(n)           written by ordering::get(A, perm); the ordering is OUT of scope: perm is an
                       input, a list of naturals (filled perm)
     invperm(n)        zeros; holds loop counters i (naturals), converted to Z when read
     ptr(n + 1, 0)     marr Z: first the heights / lengths, then the offsets
     D(n, zero), L, U  resize(ptr.back(), zero)
     y(n)              mutable scratch of operator(), survives the calls
   The matrix A is read-only: flat CRS arrays [fcrs S] read with [ird]; a row iterator
   (backend::row_begin(A, i); a; ++a) is [row_loop (fptr F) i].

   precondition(!is_zero(..)) throws: the constructor ends with the exception (KThrow).

   Loops: an ascending loop  for (i = a; i < b; ++i)  whose start a is a loop-invariant int is
   mfor 0 (Z.to_nat (b - a)) over t with i = a + t computed in Z (the trip count of the C++ loop
   is max(0, b - a)); additional induction variables (++indexEntry, ++indexL, ++j) are
   start + t as well.  The descending loop  for (j = n - 1; j >= 0; --j)  is mfor 0 n over t with
   j = n - 1 - t computed in Z.
   ptr is not written after the transform loop; inside factorize() and operator() a cell of ptr
   that the C++ reads several times in one iteration is read once (a repeated read of an
   unmodified cell has the same outcome).

   Proofs: LowLevel2KProofs.v. *)
From Coq Require Import ZArith.
From Amgcl Require Import Scalar Vec Crs Kernels MatOps LowLevel LowLevelT LowLevel2 LowLevel2G.
Local Open Scope S_scope.

Section Skyline.
Context {S : Scalar}.
Local Notation zn := Z.of_nat.
Local Notation lud := (marr S * marr S * marr S)%type.      (* L, U, D *)

(* result of the constructor: the private members, or the exception of precondition() *)
Inductive sky_out :=
| KOk (perm : marr nat) (ptr : marr Z) (L U D : marr S)
| KThrow.

(* std::vector<int> invperm(n); for(int i = 0; i < n; ++i) invperm[perm[i]] = i; *)
Definition k_invperm (n : nat) (perm : marr nat) : mres (marr nat) :=
  mfor 0 n (fun i ip => p <-- mrd perm i ;; mwr ip p i) (filled (repeat 0%nat n)).

(* first traversal, one entry:
     int j = a.col(); value_type v = a.value(); int newi = invperm[i]; int newj = invperm[j];
     if (!is_zero(v)) {
       if (newi > newj)      { if (ptr[newi] < newi - newj) ptr[newi] = newi - newj; }
       else if (newi < newj) { if (ptr[newj] < newj - newi) ptr[newj] = newj - newi; } } *)
Definition k_height_entry (F : fcrs S) (ip : marr nat) (i ja : nat) (ptr : marr Z) : mres (marr Z) :=
  j <-- ird (fcol F) ja ;;
  v <-- ird (fval F) ja ;;
  ni <-- mrd ip i ;;
  nj <-- mrd ip j ;;
  let newi := zn ni in
  let newj := zn nj in
  if negb (is_zero v) then
    if (newi >? newj)%Z then
      p <-- mrdz ptr newi ;;
      if (p <? newi - newj)%Z then mwrz ptr newi (newi - newj)%Z else Done ptr
    else if (newi <? newj)%Z then
      p <-- mrdz ptr newj ;;
      if (p <? newj - newi)%Z then mwrz ptr newj (newj - newi)%Z else Done ptr
    else Done ptr
  else Done ptr.

Definition k_heights (F : fcrs S) (ip : marr nat) (ptr : marr Z) : mres (marr Z) :=
  mfor 0 (fn F) (fun i ptr => row_loop (fptr F) i (k_height_entry F ip i) ptr) ptr.

(* int last = 0; for(int i = 1; i <= n; ++i) { int tmp = ptr[i]; ptr[i] = ptr[i-1] + last; last = tmp; } *)
Definition k_ptr_transform (n : nat) (ptr : marr Z) : mres (marr Z) :=
  r <-- mfor 1 n (fun i (st : marr Z * Z) =>
          tmp <-- mrd (fst st) i ;;
          prev <-- mrdz (fst st) (zn i - 1)%Z ;;
          ptr' <-- mwr (fst st) i (prev + snd st)%Z ;;
          Done (ptr', tmp)) (ptr, 0%Z) ;;
  Done (fst r).

(* second traversal, one entry:
     if (!is_zero(v)) {
       if (newi < newj)       U[ ptr[newj + 1] + newi - newj ] = v;
       else if (newi == newj) D[newi] = v;
       else                   L[ ptr[newi + 1] + newj - newi ] = v; } *)
Definition k_fill_entry (F : fcrs S) (ip : marr nat) (ptr : marr Z) (i ja : nat) (st : lud) : mres lud :=
  let '(L, U, D) := st in
  j <-- ird (fcol F) ja ;;
  v <-- ird (fval F) ja ;;
  ni <-- mrd ip i ;;
  nj <-- mrd ip j ;;
  let newi := zn ni in
  let newj := zn nj in
  if negb (is_zero v) then
    if (newi <? newj)%Z then
      p <-- mrdz ptr (newj + 1)%Z ;;
      U' <-- mwrz U (p + newi - newj)%Z v ;;
      Done (L, U', D)
    else if (newi =? newj)%Z then
      D' <-- mwrz D newi v ;;
      Done (L, U, D')
    else
      p <-- mrdz ptr (newi + 1)%Z ;;
      L' <-- mwrz L (p + newj - newi)%Z v ;;
      Done (L', U, D)
  else Done st.

Definition k_fill (F : fcrs S) (ip : marr nat) (ptr : marr Z) (st : lud) : mres lud :=
  mfor 0 (fn F) (fun i st => row_loop (fptr F) i (k_fill_entry F ip ptr i) st) st.

(* ---- factorize() ---- *)

(* for(int j = jBeginMult; j < i; ++j, ++indexL, ++indexU) sum -= L[indexL] * U[indexU];
   cnt = max(0, i - jBeginMult) *)
Definition k_dot_sub (L U : marr S) (indexL indexU : Z) (cnt : nat) (sum : S) : mres S :=
  mfor 0 cnt (fun t s =>
    l <-- mrdz L (indexL + zn t)%Z ;;
    u <-- mrdz U (indexU + zn t)%Z ;;
    Done (s - l * u)) sum.

(* "Compute column k+1 of U":
     int indexEntry = ptr[k + 1];
     int iBeginCol  = k + 1 - ptr[k + 2] + ptr[k + 1];
     for(int i = iBeginCol; i <= k; ++indexEntry, ++i) {
         if (i == 0) continue;
         value_type sum = U[indexEntry];
         int jBeginRow  = i - ptr[i + 1] + ptr[i];
         int jBeginMult = std::max(iBeginCol, jBeginRow);
         int indexL = ptr[i  ] + jBeginMult - jBeginRow;
         int indexU = ptr[k+1] + jBeginMult - iBeginCol;
         for(int j = jBeginMult; j < i; ++j, ++indexL, ++indexU) sum -= L[indexL] * U[indexU];
         U[indexEntry] = D[i] * sum; } *)
Definition k_U_col (ptr : marr Z) (L D : marr S) (k : nat) (U : marr S) : mres (marr S) :=
  pk1 <-- mrd ptr (k + 1) ;;
  pk2 <-- mrd ptr (k + 2) ;;
  let iBeginCol := (zn k + 1 - pk2 + pk1)%Z in
  mfor 0 (Z.to_nat (zn k + 1 - iBeginCol)) (fun t U =>
    let i := (iBeginCol + zn t)%Z in
    let indexEntry := (pk1 + zn t)%Z in
    if (i =? 0)%Z then Done U else
    sum <-- mrdz U indexEntry ;;
    pi1 <-- mrdz ptr (i + 1)%Z ;;
    pi0 <-- mrdz ptr i ;;
    let jBeginRow := (i - pi1 + pi0)%Z in
    let jBeginMult := Z.max iBeginCol jBeginRow in
    let indexL := (pi0 + jBeginMult - jBeginRow)%Z in
    let indexU := (pk1 + jBeginMult - iBeginCol)%Z in
    sum' <-- k_dot_sub L U indexL indexU (Z.to_nat (i - jBeginMult)) sum ;;
    d <-- mrdz D i ;;
    mwrz U indexEntry (d * sum')) U.

(* "Compute row k+1 of L":
     indexEntry = ptr[k+1];
     int jBeginRow = k + 1 - ptr[k + 2] + ptr[k + 1];
     for(int i = iBeginCol; i <= k; ++indexEntry, ++i) {
         if (i == 0) continue;
         value_type sum = L[indexEntry];
         int jBeginCol  = i - ptr[i+1] + ptr[i];
         int jBeginMult = std::max(jBeginCol, jBeginRow);
         int indexL = ptr[k+1] + jBeginMult - jBeginRow;
         int indexU = ptr[i  ] + jBeginMult - jBeginCol;
         for(int j = jBeginMult; j < i; ++j, ++indexL, ++indexU) sum -= L[indexL] * U[indexU];
         L[indexEntry] = sum; }
   iBeginCol is the variable of the previous block (same value as jBeginRow). *)
Definition k_L_row (ptr : marr Z) (U : marr S) (k : nat) (L : marr S) : mres (marr S) :=
  pk1 <-- mrd ptr (k + 1) ;;
  pk2 <-- mrd ptr (k + 2) ;;
  let iBeginCol := (zn k + 1 - pk2 + pk1)%Z in
  let jBeginRow := (zn k + 1 - pk2 + pk1)%Z in
  mfor 0 (Z.to_nat (zn k + 1 - iBeginCol)) (fun t L =>
    let i := (iBeginCol + zn t)%Z in
    let indexEntry := (pk1 + zn t)%Z in
    if (i =? 0)%Z then Done L else
    sum <-- mrdz L indexEntry ;;
    pi1 <-- mrdz ptr (i + 1)%Z ;;
    pi0 <-- mrdz ptr i ;;
    let jBeginCol := (i - pi1 + pi0)%Z in
    let jBeginMult := Z.max jBeginCol jBeginRow in
    let indexL := (pk1 + jBeginMult - jBeginRow)%Z in
    let indexU := (pi0 + jBeginMult - jBeginCol)%Z in
    sum' <-- k_dot_sub L U indexL indexU (Z.to_nat (i - jBeginMult)) sum ;;
    mwrz L indexEntry sum') L.

(* one pass of  for(int k = 0; k < n - 1; ++k);  None = precondition() threw
     if (ptr[k + 1] + k + 1 == ptr[k + 2]) U[ptr[k+1]] = D[0] * U[ptr[k+1]];
     <column k+1 of U> <row k+1 of L>
     value_type sum = D[k+1];
     for(int j = ptr[k+1]; j < ptr[k+2]; ++j) sum -= L[j] * U[j];
     precondition(!is_zero(sum), ..);  D[k+1] = inverse(sum); *)
Definition k_crout_step (ptr : marr Z) (k : nat) (st : lud) : mres (option lud) :=
  let '(L, U, D) := st in
  pk1 <-- mrd ptr (k + 1) ;;
  pk2 <-- mrd ptr (k + 2) ;;
  U1 <-- (if (pk1 + zn k + 1 =? pk2)%Z then
            d0 <-- mrd D 0 ;;
            u <-- mrdz U pk1 ;;
            mwrz U pk1 (d0 * u)
          else Done U) ;;
  U2 <-- k_U_col ptr L D k U1 ;;
  L2 <-- k_L_row ptr U2 k L ;;
  d <-- mrd D (k + 1) ;;
  sum <-- k_dot_sub L2 U2 pk1 pk1 (Z.to_nat (pk2 - pk1)) d ;;
  if is_zero sum then Done None
  else D' <-- mwr D (k + 1) (sinv sum) ;; Done (Some (L2, U2, D')).

(* precondition(!is_zero(D[0]), ..); D[0] = inverse(D[0]); for(int k = 0; k < n - 1; ++k) ...
   D[0] is evaluated before anything else, also when n = 0 (D is then empty).
   After a throw the remaining passes are skipped (state None). *)
Definition k_factorize (n : nat) (ptr : marr Z) (st : lud) : mres (option lud) :=
  let '(L, U, D) := st in
  d0 <-- mrd D 0 ;;
  if is_zero d0 then Done None else
  d0' <-- mrd D 0 ;;
  D0 <-- mwr D 0 (sinv d0') ;;
  mfor 0 (Z.to_nat (zn n - 1))
       (fun k o => match o with None => Done None | Some st => k_crout_step ptr k st end)
       (Some (L, U, D0)).

(* the constructor after ordering::get(A, perm).
   L.resize(ptr.back(), zero): ptr has n + 1 >= 1 cells, back() is ptr[n]; a negative int would
   be converted to a size_t near 2^64 (length_error / bad_alloc): reported as OutOfBounds. *)
Definition ll_sky_build (F : fcrs S) (perm : list nat) : mres sky_out :=
  let n := fn F in
  let mperm := filled perm in
  ip <-- k_invperm n mperm ;;
  h <-- k_heights F ip (filled (repeat 0%Z (n + 1))) ;;
  ptr <-- k_ptr_transform n h ;;
  nz <-- mrd ptr n ;;
  if (nz <? 0)%Z then OutOfBounds else
  let L0 := filled (repeat s0 (Z.to_nat nz)) in
  let U0 := filled (repeat s0 (Z.to_nat nz)) in
  let D0 := filled (repeat s0 n) in
  st <-- k_fill F ip ptr (L0, U0, D0) ;;
  r <-- k_factorize n ptr st ;;
  Done (match r with
        | None => KThrow
        | Some (L, U, D) => KOk mperm ptr L U D
        end).

(* operator()(rhs, x):
     for(int i = 0; i < n; ++i) {
         sum = rhs[perm[i]];
         for(int k = ptr[i], j = i - ptr[i+1] + k; k < ptr[i+1]; ++k, ++j) sum -= L[k] * y[j];
         y[i] = D[i] * sum; }
     for(int j = n - 1; j >= 0; --j)
         for(int k = ptr[j], i = j - ptr[j+1] + k; k < ptr[j+1]; ++k, ++i) y[i] -= U[k] * y[j];
     for(int i = 0; i < n; ++i) x[perm[i]] = y[i];
   returns (x, y). *)
(* for(int k = ptr[i], j = i - ptr[i+1] + k; k < ptr[i+1]; ++k, ++j) sum -= L[k] * y[j];
   p0 = ptr[i], p1 = ptr[i+1]; trip count max(0, p1 - p0) *)
Definition k_fwd_sum (L y : marr S) (p0 p1 : Z) (i : nat) (sum0 : S) : mres S :=
  let j0 := (zn i - p1 + p0)%Z in
  mfor 0 (Z.to_nat (p1 - p0)) (fun t s =>
    l <-- mrdz L (p0 + zn t)%Z ;;
    yj <-- mrdz y (j0 + zn t)%Z ;;
    Done (s - l * yj)) sum0.

Definition k_forward (n : nat) (perm : marr nat) (ptr : marr Z) (L D : marr S) (rhs : list S)
                     (y : marr S) : mres (marr S) :=
  mfor 0 n (fun i y =>
    pi <-- mrd perm i ;;
    sum0 <-- ird rhs pi ;;
    p0 <-- mrd ptr i ;;
    p1 <-- mrd ptr (i + 1) ;;
    sum <-- k_fwd_sum L y p0 p1 i sum0 ;;
    d <-- mrd D i ;;
    mwr y i (d * sum)) y.

(* for(int k = ptr[j], i = j - ptr[j+1] + k; k < ptr[j+1]; ++k, ++i) y[i] -= U[k] * y[j]; *)
Definition k_bwd_col (U : marr S) (p0 p1 j : Z) (y : marr S) : mres (marr S) :=
  let i0 := (j - p1 + p0)%Z in
  mfor 0 (Z.to_nat (p1 - p0)) (fun t y =>
    yi <-- mrdz y (i0 + zn t)%Z ;;
    u <-- mrdz U (p0 + zn t)%Z ;;
    yj <-- mrdz y j ;;
    mwrz y (i0 + zn t)%Z (yi - u * yj)) y.

(* j = n - 1 - t *)
Definition k_backward (n : nat) (ptr : marr Z) (U : marr S) (y : marr S) : mres (marr S) :=
  mfor 0 n (fun t y =>
    let j := (zn n - 1 - zn t)%Z in
    p0 <-- mrdz ptr j ;;
    p1 <-- mrdz ptr (j + 1)%Z ;;
    k_bwd_col U p0 p1 j y) y.

Definition k_scatter (n : nat) (perm : marr nat) (y x : marr S) : mres (marr S) :=
  mfor 0 n (fun i x =>
    pi <-- mrd perm i ;;
    yi <-- mrd y i ;;
    mwr x pi yi) x.

Definition ll_sky_solve (n : nat) (perm : marr nat) (ptr : marr Z) (L U D : marr S)
                        (rhs : list S) (x y : marr S) : mres (marr S * marr S) :=
  y1 <-- k_forward n perm ptr L D rhs y ;;
  y2 <-- k_backward n ptr U y1 ;;
  x' <-- k_scatter n perm y2 x ;;
  Done (x', y2).

End Skyline.
Arguments sky_out : clear implicits.
