(* OwnProofs.v -- C10-A3: the ownership invariant of the crs::own_data state machine (Own.v)
   holds in every reachable world; consequences: no leak, no double free, no free of
   borrowed (user) memory.  The historical copy assignment (before /repo b0b02bf) leaks. *)
From Coq Require Import List Arith Bool Lia.
From Amgcl Require Import Own.
Import ListNotations.

(* ------------------------------------------------------------------ association lists *)
Lemma lookup_del_eq k l : lookup k (del k l) = None.
Proof.
  induction l as [|[k' o] t IH]; simpl; [reflexivity|].
  destruct (Nat.eqb k k') eqn:E; [exact IH|]. simpl. rewrite E. exact IH.
Qed.
Lemma lookup_del_neq k k' l : k' <> k -> lookup k' (del k l) = lookup k' l.
Proof.
  intro H. induction l as [|[k2 o] t IH]; simpl; [reflexivity|].
  destruct (Nat.eqb k k2) eqn:E.
  - apply Nat.eqb_eq in E. subst k2.
    destruct (Nat.eqb k' k) eqn:E2; [apply Nat.eqb_eq in E2; contradiction|exact IH].
  - simpl. destruct (Nat.eqb k' k2); [reflexivity|exact IH].
Qed.
Lemma del_del k l : del k (del k l) = del k l.
Proof.
  induction l as [|[k' o] t IH]; simpl; [reflexivity|].
  destruct (Nat.eqb k k') eqn:E; [exact IH|]. simpl. rewrite E, IH. reflexivity.
Qed.
Lemma lookup_in k l o : lookup k l = Some o -> In k (map fst l).
Proof.
  induction l as [|[k' o'] t IH]; simpl; [discriminate|].
  destruct (Nat.eqb k k') eqn:E.
  - apply Nat.eqb_eq in E. auto.
  - intro H. right. apply IH. exact H.
Qed.

Lemma find_set_obj k' k o w : find k' (set_obj k o w) = if Nat.eqb k' k then Some o else find k' w.
Proof.
  unfold find, set_obj. simpl. destruct (Nat.eqb k' k) eqn:E; [reflexivity|].
  apply lookup_del_neq. apply Nat.eqb_neq. exact E.
Qed.
Lemma find_del_obj k' k w : find k' (del_obj k w) = if Nat.eqb k' k then None else find k' w.
Proof.
  unfold find, del_obj. simpl. destruct (Nat.eqb k' k) eqn:E.
  - apply Nat.eqb_eq in E. subst. apply lookup_del_eq.
  - apply lookup_del_neq. apply Nat.eqb_neq. exact E.
Qed.
Lemma find_free_block k ob w : find k (free_block ob w) = find k w.
Proof.
  unfold free_block. destruct ob as [[b|u]|]; try reflexivity.
  destruct (existsb (Nat.eqb b) (heap w)); reflexivity.
Qed.
Lemma find_free_data k o w : find k (free_data o w) = find k w.
Proof. unfold free_data. destruct (own o); [apply find_free_block|reflexivity]. Qed.
Lemma del_obj_set_obj k o w : del_obj k (set_obj k o w) = del_obj k w.
Proof. unfold del_obj, set_obj. simpl. rewrite Nat.eqb_refl, del_del. reflexivity. Qed.

Lemma existsb_eqb_in b l : existsb (Nat.eqb b) l = true <-> In b l.
Proof.
  rewrite existsb_exists. split.
  - intros (x & Hx & E). apply Nat.eqb_eq in E. subst. exact Hx.
  - intro H. exists b. split; [exact H|apply Nat.eqb_refl].
Qed.
Lemma NoDup_remove_eq b (l : list nat) : NoDup l -> NoDup (remove Nat.eq_dec b l).
Proof.
  induction 1 as [|x l Hx Hl IH]; simpl; [constructor|].
  destruct (Nat.eq_dec b x); [exact IH|]. constructor; [|exact IH].
  intro H. apply in_remove in H. destruct H. contradiction.
Qed.

(* ------------------------------------------------------------------ the invariant *)
(* k does not hold a library block *)
Definition no_lib (k : nat) (w : world) : Prop :=
  forall o b, find k w = Some o -> arr o <> Some (Lib b).

Record Inv (w : world) : Prop := mkInv {
  (* the heap is a set of blocks that were handed out by the counter *)
  inv_nodup : NoDup (heap w);
  inv_fresh : forall b, In b (heap w) -> b < next w;
  (* an object that points to a library block owns it and the block is live;
     an object that points to user memory does not own it *)
  inv_flag  : forall k o, find k w = Some o ->
      match arr o with
      | Some (Lib b) => own o = true /\ In b (heap w)
      | Some (Usr _) => own o = false
      | None => True
      end;
  (* every live library block is held by an object ... *)
  inv_held  : forall b, In b (heap w) -> exists k o, find k w = Some o /\ arr o = Some (Lib b);
  (* ... and by one object only *)
  inv_uniq  : forall k1 k2 o1 o2 b, find k1 w = Some o1 -> find k2 w = Some o2 ->
      arr o1 = Some (Lib b) -> arr o2 = Some (Lib b) -> k1 = k2;
  (* no error events so far *)
  inv_dfree : dfree w = 0;
  inv_ufree : ufree w = 0 }.

Lemma Inv_init : Inv init.
Proof.
  constructor; simpl; try reflexivity; try constructor; try contradiction;
    unfold find; simpl; intros; discriminate.
Qed.

Ltac eqb_cases :=
  repeat match goal with
  | H : context [Nat.eqb ?a ?b] |- _ => destruct (Nat.eqb_spec a b); [subst|]
  | |- context [Nat.eqb ?a ?b] => destruct (Nat.eqb_spec a b); [subst|]
  end.
Ltac uniq U :=
  first [ solve [eapply U; eassumption]
        | solve [symmetry; eapply U; eassumption]
        | congruence
        | solve [exfalso; match goal with n : ?a <> ?c |- _ =>
                   apply n; first [ solve [eapply U; eassumption]
                                  | solve [symmetry; eapply U; eassumption]
                                  | congruence ] end] ].
Ltac inj :=
  repeat match goal with
  | H : Some _ = Some _ |- _ => inversion H; clear H; subst
  | H : Some _ = None |- _ => discriminate H
  | H : None = Some _ |- _ => discriminate H
  end.

(* replacing (or creating) k by an object that holds no library block *)
Lemma Inv_set_nonlib k o w :
  Inv w -> no_lib k w ->
  (arr o = None \/ (exists u, arr o = Some (Usr u)) /\ own o = false) ->
  Inv (set_obj k o w).
Proof.
  intros [N F FL HE U D1 D2] NL Ho. constructor; simpl; try assumption.
  - intros k' o'. rewrite find_set_obj. eqb_cases; intro H; inj.
    + destruct Ho as [->|[[u ->] ->]]; [exact I|reflexivity].
    + apply (FL k' o' H).
  - intros b Hb. destruct (HE b Hb) as (k' & o' & Hf & Ha).
    exists k', o'. rewrite find_set_obj. eqb_cases; [|auto].
    exfalso. apply (NL o' b Hf Ha).
  - intros k1 k2 o1 o2 b. rewrite !find_set_obj. eqb_cases; intros H1 H2 A1 A2; inj; auto.
    + destruct Ho as [E|[[u E] _]]; rewrite E in A1; discriminate.
    + destruct Ho as [E|[[u E] _]]; rewrite E in A2; discriminate.
    + eapply U; eauto.
Qed.

(* allocation of a fresh block for k *)
Lemma Inv_alloc_set k w :
  Inv w -> no_lib k w ->
  Inv (set_obj k (mkObj true (Some (Lib (next w)))) (snd (alloc w))).
Proof.
  intros [N F FL HE U D1 D2] NL. constructor; simpl; try assumption.
  - constructor; [|exact N]. intro H. apply F in H. lia.
  - intros b [<-|Hb]; [lia|]. apply F in Hb. lia.
  - intros k' o'. rewrite find_set_obj. eqb_cases; intro H; inj; simpl.
    + auto.
    + unfold find in H; simpl in H. pose proof (FL k' o' H) as Q.
      destruct (arr o') as [[b|u]|]; auto. destruct Q; auto.
  - intros b [<-|Hb].
    + exists k, (mkObj true (Some (Lib (next w)))). rewrite find_set_obj, Nat.eqb_refl. auto.
    + destruct (HE b Hb) as (k' & o' & Hf & Ha). exists k', o'. rewrite find_set_obj.
      eqb_cases; [exfalso; apply (NL o' b Hf Ha)|auto].
  - intros k1 k2 o1 o2 b. rewrite !find_set_obj. eqb_cases; intros H1 H2 A1 A2; inj; simpl in *; auto.
    + inversion A1; subst. unfold find in H2; simpl in H2. pose proof (FL k2 o2 H2) as Q.
      rewrite A2 in Q. destruct Q as [_ Q]. apply F in Q. lia.
    + inversion A2; subst. unfold find in H1; simpl in H1. pose proof (FL k1 o1 H1) as Q.
      rewrite A1 in Q. destruct Q as [_ Q]. apply F in Q. lia.
    + unfold find in H1, H2; simpl in H1, H2. eapply U; eauto.
Qed.

(* free_data() of an owning object followed by ptr = col = val = 0 *)
Lemma Inv_free_clear k ok w :
  Inv w -> find k w = Some ok -> own ok = true ->
  Inv (set_obj k (mkObj true None) (free_block (arr ok) w)).
Proof.
  intros I0 Hk Hown. pose proof I0 as [N F FL HE U D1 D2].
  pose proof (FL k ok Hk) as Q.
  destruct (arr ok) as [[b|u]|] eqn:A.
  - destruct Q as [_ Hb]. unfold free_block.
    pose proof (proj2 (existsb_eqb_in b (heap w)) Hb) as E. rewrite E.
    constructor; simpl; try assumption.
    + apply NoDup_remove_eq. exact N.
    + intros b' H. apply in_remove in H. destruct H as [H _]. apply F. exact H.
    + intros k' o'. rewrite find_set_obj. eqb_cases; intro H; inj; simpl; [exact I|].
      change (find k' w = Some o') in H. pose proof (FL k' o' H) as Q.
      destruct (arr o') as [[b'|u']|] eqn:A'; auto. destruct Q as [Q1 Q2]. split; [exact Q1|].
      apply in_in_remove; [|exact Q2]. intro Heq. subst b'.
      apply n. apply (U k' k o' ok b H Hk A' A).
    + intros b' H. apply in_remove in H. destruct H as [H Hne].
      destruct (HE b' H) as (k' & o' & Hf & Ha). exists k', o'. rewrite find_set_obj.
      eqb_cases; [|auto]. rewrite Hk in Hf. inj. rewrite A in Ha. inversion Ha. subst. contradiction.
    + intros k1 k2 o1 o2 b'. rewrite !find_set_obj. eqb_cases; intros H1 H2 A1 A2; inj; simpl in *;
        try discriminate; auto.
      change (find k1 w = Some o1) in H1. change (find k2 w = Some o2) in H2. eapply U; eauto.
  - rewrite Hown in Q. discriminate.
  - simpl. apply Inv_set_nonlib; [exact I0| |left; reflexivity].
    intros o b H. rewrite Hk in H. inj. rewrite A. discriminate.
Qed.

(* removal of an object that holds no library block *)
Lemma Inv_del k w : Inv w -> no_lib k w -> Inv (del_obj k w).
Proof.
  intros [N F FL HE U D1 D2] NL. constructor; simpl; try assumption.
  - intros k' o'. rewrite find_del_obj. eqb_cases; intro H; inj. apply (FL k' o' H).
  - intros b Hb. destruct (HE b Hb) as (k' & o' & Hf & Ha). exists k', o'.
    rewrite find_del_obj. eqb_cases; [exfalso; apply (NL o' b Hf Ha)|auto].
  - intros k1 k2 o1 o2 b. rewrite !find_del_obj. eqb_cases; intros H1 H2 A1 A2; inj. eapply U; eauto.
Qed.

Lemma no_lib_absent k w : find k w = None -> no_lib k w.
Proof. intros H o b H'. rewrite H in H'. discriminate. Qed.
Lemma no_lib_view k o w : Inv w -> find k w = Some o -> own o = false -> no_lib k w.
Proof.
  intros I0 Hk Ho o' b H A. rewrite Hk in H. inj.
  pose proof (inv_flag w I0 k o' Hk) as Q. rewrite A in Q. destruct Q as [Q _]. congruence.
Qed.
Lemma no_lib_set_null k fl w : no_lib k (set_obj k (mkObj fl None) w).
Proof. intros o b H. rewrite find_set_obj, Nat.eqb_refl in H. inj. simpl. discriminate. Qed.

(* "allocate and copy iff the source has arrays" into an object without library block *)
Lemma Inv_copy_from k j w : Inv w -> no_lib k w -> Inv (copy_from k true None j w).
Proof.
  intros I0 NL. unfold copy_from.
  destruct (find j w) as [oj|].
  - destruct (has_arrays oj).
    + apply (Inv_alloc_set k w I0 NL).
    + apply Inv_set_nonlib; auto.
  - apply Inv_set_nonlib; auto.
Qed.

(* crs(crs &&other): arrays and flag move from j to the new object k *)
Lemma Inv_move k j oj w :
  Inv w -> find k w = None -> find j w = Some oj ->
  Inv (set_obj j (mkObj (own oj) None) (set_obj k (mkObj (own oj) (arr oj)) w)).
Proof.
  intros [N F FL HE U D1 D2] Hk Hj.
  assert (Hne : k <> j) by (intro; subst; congruence).
  constructor; simpl; try assumption.
  - intros k' o'. rewrite !find_set_obj. eqb_cases; intro H; inj; simpl; auto.
    + apply (FL j oj Hj).
    + apply (FL k' o' H).
  - intros b Hb. destruct (HE b Hb) as (k' & o' & Hf & Ha).
    destruct (Nat.eq_dec k' j) as [->|Hn].
    + rewrite Hj in Hf. inj. exists k, (mkObj (own o') (arr o')). rewrite !find_set_obj.
      eqb_cases; try contradiction. auto.
    + exists k', o'. rewrite !find_set_obj. eqb_cases; try contradiction; auto. congruence.
  - intros k1 k2 o1 o2 b. rewrite !find_set_obj.
    eqb_cases; intros H1 H2 A1 A2; inj; simpl in *; try discriminate; try contradiction; auto;
      uniq U.
Qed.

(* operator=(crs &&other): std::swap of arrays and flags *)
Lemma Inv_swap k j ok oj w :
  Inv w -> find k w = Some ok -> find j w = Some oj ->
  Inv (set_obj k oj (set_obj j ok w)).
Proof.
  intros [N F FL HE U D1 D2] Hk Hj.
  constructor; simpl; try assumption.
  - intros k' o'. rewrite !find_set_obj. eqb_cases; intro H; inj.
    + apply (FL j o' Hj).
    + apply (FL k o' Hk).
    + apply (FL k' o' H).
  - intros b Hb. destruct (HE b Hb) as (k' & o' & Hf & Ha).
    destruct (Nat.eq_dec k' k) as [->|Hn1]; [|destruct (Nat.eq_dec k' j) as [->|Hn2]].
    + rewrite Hk in Hf. inj. destruct (Nat.eq_dec k j) as [->|Hn].
      * exists j, o'. rewrite !find_set_obj, Nat.eqb_refl. rewrite Hj in Hk. inj. auto.
      * exists j, o'. rewrite !find_set_obj. eqb_cases; try contradiction; auto; congruence.
    + rewrite Hj in Hf. inj. exists k, o'. rewrite !find_set_obj, Nat.eqb_refl. auto.
    + exists k', o'. rewrite !find_set_obj. eqb_cases; try contradiction; auto.
  - intros k1 k2 o1 o2 b. rewrite !find_set_obj.
    eqb_cases; intros H1 H2 A1 A2; inj; auto; uniq U.
Qed.

(* ------------------------------------------------------------------ every step preserves it *)
Theorem step_preserves_Inv w o : Inv w -> Inv (step w o).
Proof.
  intro I0. unfold step. destruct o as [k|k|k u|k j|k j|k j|k j|k]; simpl.
  - (* NewEmpty *)
    destruct (find k w) eqn:Hk; [exact I0|].
    apply Inv_set_nonlib; auto using no_lib_absent.
  - (* NewOwn *)
    destruct (find k w) eqn:Hk; [exact I0|].
    apply (Inv_alloc_set k w I0). apply no_lib_absent. exact Hk.
  - (* NewView *)
    destruct (find k w) eqn:Hk; [exact I0|].
    apply Inv_set_nonlib; auto using no_lib_absent. right. split; [exists u|]; reflexivity.
  - (* CopyCtor *)
    destruct (find k w) eqn:Hk; [exact I0|]. destruct (find j w) eqn:Hj; [|exact I0].
    apply Inv_copy_from; auto using no_lib_absent.
  - (* MoveCtor *)
    destruct (find k w) eqn:Hk; [exact I0|]. destruct (find j w) as [oj|] eqn:Hj; [|exact I0].
    apply Inv_move; assumption.
  - (* CopyAssign *)
    destruct (find k w) as [ok|] eqn:Hk; [|exact I0]. destruct (find j w) as [oj|] eqn:Hj; [|exact I0].
    apply Inv_copy_from; [|apply no_lib_set_null].
    unfold free_data. destruct (own ok) eqn:Ho.
    + apply Inv_free_clear; assumption.
    + apply Inv_set_nonlib; auto. eapply no_lib_view; eauto.
  - (* MoveAssign *)
    destruct (find k w) as [ok|] eqn:Hk; [|exact I0]. destruct (find j w) as [oj|] eqn:Hj; [|exact I0].
    apply Inv_swap; assumption.
  - (* Destroy *)
    destruct (find k w) as [ok|] eqn:Hk; [|exact I0].
    unfold free_data. destruct (own ok) eqn:Ho.
    + rewrite <- (del_obj_set_obj k (mkObj true None)).
      apply Inv_del; [|apply no_lib_set_null]. apply Inv_free_clear; assumption.
    + apply Inv_del; [exact I0|]. eapply no_lib_view; eauto.
Qed.

Lemma fold_step_Inv ops : forall w, Inv w -> Inv (fold_left step ops w).
Proof.
  induction ops as [|o t IH]; intros w I0; simpl; [exact I0|].
  apply IH. apply step_preserves_Inv. exact I0.
Qed.

Theorem reachable_Inv ops : Inv (run ops).
Proof. apply fold_step_Inv. exact Inv_init. Qed.

(* ------------------------------------------------------------------ end of scope *)
Lemma destroy_find k k' w : find k' (step w (Destroy k)) =
  match find k w with Some _ => if Nat.eqb k' k then None else find k' w | None => find k' w end.
Proof.
  unfold step. simpl. destruct (find k w) as [ok|] eqn:Hk; [|reflexivity].
  rewrite find_del_obj, find_free_data. reflexivity.
Qed.

Lemma destroy_list_find ks : forall w k',
  (In k' ks \/ find k' w = None) ->
  find k' (fold_left (fun w k => step w (Destroy k)) ks w) = None.
Proof.
  induction ks as [|k t IH]; intros w k' H; cbn [fold_left].
  - destruct H as [[]|H]. exact H.
  - apply IH. destruct H as [[->|H]|H].
    + right. rewrite destroy_find. destruct (find k' w) eqn:E; [rewrite Nat.eqb_refl; reflexivity|reflexivity].
    + left. exact H.
    + right. rewrite destroy_find. destruct (find k w); [|exact H]. destruct (Nat.eqb k' k); [reflexivity|exact H].
Qed.

Lemma destroy_list_Inv ks : forall w, Inv w -> Inv (fold_left (fun w k => step w (Destroy k)) ks w).
Proof.
  induction ks as [|k t IH]; intros w I0; cbn [fold_left]; [exact I0|].
  apply IH. apply step_preserves_Inv. exact I0.
Qed.

Lemma destroy_all_find w k : find k (destroy_all w) = None.
Proof.
  unfold destroy_all, destroy_all_gen. apply (destroy_list_find (map fst (objs w)) w k).
  destruct (find k w) as [o|] eqn:E; [left|right; reflexivity].
  unfold find in E. eapply lookup_in. exact E.
Qed.

(* after the destructors of all remaining objects ran: every library block has been
   released (no leak), none twice, and no user block was touched *)
Theorem no_leak_no_bad_free ops :
  let w := destroy_all (run ops) in
  heap w = [] /\ leaks w = 0 /\ dfree w = 0 /\ ufree w = 0 /\ (forall k, find k w = None).
Proof.
  intro w.
  assert (I1 : Inv w) by (apply destroy_list_Inv; apply reachable_Inv).
  assert (Hn : forall k, find k w = None) by (intro k; apply destroy_all_find).
  assert (Hh : heap w = []).
  { destruct (heap w) as [|b t] eqn:E; [reflexivity|].
    destruct (inv_held w I1 b) as (k & o & Hf & _); [rewrite E; left; reflexivity|].
    rewrite Hn in Hf. discriminate. }
  unfold leaks. rewrite Hh. repeat split; auto using inv_dfree, inv_ufree.
Qed.

(* at every moment of every run: no double free and no free of borrowed memory so far,
   views hold user memory or nothing, each live library block has exactly one holder *)
Theorem reachable_no_error ops : dfree (run ops) = 0 /\ ufree (run ops) = 0.
Proof. pose proof (reachable_Inv ops) as I0. split; [apply (inv_dfree _ I0)|apply (inv_ufree _ I0)]. Qed.

Theorem reachable_view_borrows_only ops k o :
  find k (run ops) = Some o -> own o = false -> forall b, arr o <> Some (Lib b).
Proof.
  intros Hk Ho b A. pose proof (inv_flag _ (reachable_Inv ops) k o Hk) as Q.
  rewrite A in Q. destruct Q. congruence.
Qed.

Theorem reachable_unique_holder ops b :
  In b (heap (run ops)) ->
  exists k o, find k (run ops) = Some o /\ arr o = Some (Lib b) /\ own o = true /\
    forall k' o', find k' (run ops) = Some o' -> arr o' = Some (Lib b) -> k' = k.
Proof.
  intro Hb. pose proof (reachable_Inv ops) as I0.
  destruct (inv_held _ I0 b Hb) as (k & o & Hf & Ha). exists k, o. repeat split; auto.
  - pose proof (inv_flag _ I0 k o Hf) as Q. rewrite Ha in Q. apply Q.
  - intros k' o' Hf' Ha'. eapply (inv_uniq _ I0); eauto.
Qed.

(* ------------------------------------------------------------------ ops on absent objects *)
Theorem absent_target_noop fixed w k j :
  find k w = None ->
  step_gen fixed w (CopyAssign k j) = w /\ step_gen fixed w (MoveAssign k j) = w /\
  step_gen fixed w (Destroy k) = w.
Proof. intro H. simpl. rewrite H. auto. Qed.

Theorem absent_source_noop fixed w k j :
  find j w = None ->
  step_gen fixed w (CopyCtor k j) = w /\ step_gen fixed w (MoveCtor k j) = w /\
  step_gen fixed w (CopyAssign k j) = w /\ step_gen fixed w (MoveAssign k j) = w.
Proof. intro H. simpl. rewrite H. destruct (find k w); auto. Qed.

Theorem live_target_ctor_noop fixed w k j u o :
  find k w = Some o ->
  step_gen fixed w (NewEmpty k) = w /\ step_gen fixed w (NewOwn k) = w /\
  step_gen fixed w (NewView k u) = w /\
  step_gen fixed w (CopyCtor k j) = w /\ step_gen fixed w (MoveCtor k j) = w.
Proof. intro H. simpl. rewrite H. auto. Qed.

(* ------------------------------------------------------------------ HISTORICAL: before b0b02bf *)
(* operator=(const crs&) left own_data untouched: assigning into a zero-copy view allocated
   three arrays that nobody released.  (This is what the correspondence driver reports when
   the fix is reverted.) *)
Theorem copy_assign_old_leaks_refuted :
  exists ops, leaks (destroy_all_gen false (run_gen false ops)) <> 0 /\
              dfree (destroy_all_gen false (run_gen false ops)) = 0 /\
              ufree (destroy_all_gen false (run_gen false ops)) = 0.
Proof.
  exists [NewView 0 7; NewOwn 1; CopyAssign 0 1; Destroy 0; Destroy 1].
  vm_compute. repeat split; try reflexivity. discriminate.
Qed.

(* the same sequence on the current code: nothing is left *)
Example copy_assign_fixed_witness :
  leaks (destroy_all (run [NewView 0 7; NewOwn 1; CopyAssign 0 1; Destroy 0; Destroy 1])) = 0.
Proof. vm_compute. reflexivity. Qed.
