(* Properties_C01.v -- C01: a reported convergence is truthful (residual, iteration count).
   Statements only; proofs in KrylovProofs.v.  Models: Krylov.v (cg, bicgstab, richardson,
   gmres, fgmres; lgmres / bicgstabl / idrs are covered by the implementation-side oracle of
   tools/props/C01.py only).
   "any S"  : every Scalar record (IEEE floats with NaN included), A and P arbitrary functions.
   "ring"   : commutative ring with decidable equality; A, P linear and length preserving.
   [true_res nrm A P left f x] = nrm (f - A x)  (nrm (P (f - A x)) for left preconditioning);
   nr = ||f|| (or 1 under ns_search) as computed by the prologue. *)
From Amgcl Require Import Scalar QcInst Vec Kernels Krylov KrylovRef KrylovProofs.
From Coq Require Import QArith Qcanon.
Local Open Scope S_scope.
Local Close Scope Q_scope.
Local Close Scope Qc_scope.

(* ---- A3 (any S): the iteration count never exceeds maxiter; the fuel of the model loops suffices ---- *)
Theorem C01_cg_iterations_bounded (S : Scalar) (A P : vec S -> vec S) prm f x0 junk r w :
  cg A P prm f x0 junk = (KOk r, w) -> k_it r <= p_maxiter prm /\ k_oof r = false.
Proof. exact (cg_iters_le_maxiter A P prm f x0 junk r w). Qed.
Print Assumptions C01_cg_iterations_bounded.

Theorem C01_richardson_iterations_bounded (S : Scalar) (A P : vec S -> vec S) prm f x0 junk r w :
  richardson A P prm f x0 junk = (KOk r, w) -> k_it r <= p_maxiter prm /\ k_oof r = false.
Proof. exact (richardson_iters_le_maxiter A P prm f x0 junk r w). Qed.
Print Assumptions C01_richardson_iterations_bounded.

Theorem C01_bicgstab_iterations_bounded (S : Scalar) (A P : vec S -> vec S) prm f x0 junk r w :
  bicgstab A P prm f x0 junk = (KOk r, w) -> k_it r <= p_maxiter prm /\ k_oof r = false.
Proof. exact (bicgstab_iters_le_maxiter A P prm f x0 junk r w). Qed.
Print Assumptions C01_bicgstab_iterations_bounded.

Theorem C01_gmres_iterations_bounded (S : Scalar) (A P : vec S -> vec S) prm f x0 junk r w :
  gmres A P prm f x0 junk = (KOk r, w) -> k_it r <= p_maxiter prm /\ k_oof r = false.
Proof. exact (gmres_trivial_bounds A P prm f x0 junk r w). Qed.
Print Assumptions C01_gmres_iterations_bounded.

Theorem C01_fgmres_iterations_bounded (S : Scalar) (A P : vec S -> vec S) prm f x0 junk r w :
  fgmres A P prm f x0 junk = (KOk r, w) -> k_it r <= p_maxiter prm /\ k_oof r = false.
Proof. exact (fgmres_trivial_bounds A P prm f x0 junk r w). Qed.
Print Assumptions C01_fgmres_iterations_bounded.

(* ---- A2 (any S): Richardson, GMRES and FGMRES return the norm of a residual that is RECOMPUTED
        from the returned x, on every exit path (converged, maxiter, restart boundary) ---- *)
Theorem C01_richardson_residual_recomputed (S : Scalar) (A P : vec S -> vec S) prm f x0 junk nr r w :
  k_prologue norm_a prm f = Go nr -> richardson A P prm f x0 junk = (KOk r, w) ->
  k_res r = true_res norm_a A P false f (k_x r) / nr.
Proof. exact (richardson_residual_truthful A P prm f x0 junk nr r w). Qed.
Print Assumptions C01_richardson_residual_recomputed.

Theorem C01_gmres_residual_recomputed (S : Scalar) (A P : vec S -> vec S) prm f x0 junk nr r w :
  k_prologue norm_b prm f = Go nr -> gmres A P prm f x0 junk = (KOk r, w) ->
  k_res r = true_res norm_b A P (p_left prm) f (k_x r) / nr.
Proof. intros Hp H. exact (proj2 (proj2 (gmres_result_spec A P prm f x0 junk nr r w Hp H))). Qed.
Print Assumptions C01_gmres_residual_recomputed.

Theorem C01_fgmres_residual_recomputed (S : Scalar) (A P : vec S -> vec S) prm f x0 junk nr r w :
  k_prologue norm_b prm f = Go nr -> fgmres A P prm f x0 junk = (KOk r, w) ->
  k_res r = true_res norm_b A P false f (k_x r) / nr.
Proof. intros Hp H. exact (proj2 (proj2 (fgmres_result_spec A P prm f x0 junk nr r w Hp H))). Qed.
Print Assumptions C01_fgmres_residual_recomputed.

(* LGMRES(M,K) (model with the ring buffer of augmentation vectors as explicit object state):
   iteration bound, fuel, and recomputed residual on every exit path, for every incoming state *)
Theorem C01_lgmres_bounded_and_recomputed (S : Scalar) (A P : vec S -> vec S) prm f x0 st nr r w :
  k_prologue norm_b prm f = Go nr -> lgmres A P prm f x0 st = (KOk r, w) ->
  k_it r <= p_maxiter prm /\ k_oof r = false /\
  k_res r = true_res norm_b A P (p_left prm) f (k_x r) / nr.
Proof. exact (lgmres_result_spec A P prm f x0 st nr r w). Qed.
Print Assumptions C01_lgmres_bounded_and_recomputed.

(* ---- A1 (ring): the recursively updated vector of CG / BiCGStab IS the residual of the iterate ---- *)
Section Ring.
Variable S : Scalar.
Hypothesis Srt : Sring S.
Hypothesis Seqb : seqb_spec S.
Variable n : nat.
Variables A P : vec S -> vec S.
Hypothesis A_len : forall v, length v = n -> length (A v) = n.
Hypothesis P_len : forall v, length v = n -> length (P v) = n.
Hypothesis A_lin : linear_on n A.

(* CG: returned number = ||f - A x_returned|| / ||f||, and the carried r equals f - A x exactly *)
Theorem C01_cg_residual_truthful prm f x0 junk nr r w :
  length f = n -> length x0 = n -> k_prologue norm_a prm f = Go nr ->
  cg A P prm f x0 junk = (KOk r, w) ->
  k_res r = true_res norm_a A P false f (k_x r) / nr /\ cg_r w = k_residual f (A (k_x r)).
Proof. exact (cg_residual_truthful Srt Seqb n A P A_len P_len A_lin prm f x0 junk nr r w). Qed.

(* BiCGStab, both sides, both exits (after the first or the second half step), with or without
   check_after, also when no iteration is made; the preconditioned residual for side = left.
   (Before fix 60a0b5c check_after returned the placeholder 2*eps when the loop body was not
   entered: known_findings.d/C01-bicgstab-check-after-placeholder.json, status fixed.) *)
Hypothesis P_lin : linear_on n P.
Theorem C01_bicgstab_residual_truthful prm f x0 junk nr r w :
  length f = n -> length x0 = n -> k_prologue norm_a prm f = Go nr ->
  bicgstab A P prm f x0 junk = (KOk r, w) ->
  k_res r = true_res norm_a A P (p_left prm) f (k_x r) / nr.
Proof. exact (bicgstab_residual_truthful Srt Seqb n A P A_len P_len A_lin P_lin prm f x0 junk nr r w). Qed.
End Ring.

(* closed instances at the exact rationals *)
Theorem C01_cg_residual_truthful_Qc n (A P : vec QcS -> vec QcS) prm f x0 junk nr r w :
  (forall v, length v = n -> length (A v) = n) -> (forall v, length v = n -> length (P v) = n) ->
  linear_on n A ->
  length f = n -> length x0 = n -> k_prologue norm_a prm f = Go nr ->
  cg A P prm f x0 junk = (KOk r, w) ->
  k_res r = true_res norm_a A P false f (k_x r) / nr /\ cg_r w = k_residual f (A (k_x r)).
Proof. intros HA HP HL. exact (C01_cg_residual_truthful QcS QcS_ring QcS_eqb n A P HA HP HL prm f x0 junk nr r w). Qed.
Print Assumptions C01_cg_residual_truthful_Qc.

Theorem C01_bicgstab_residual_truthful_Qc n (A P : vec QcS -> vec QcS) prm f x0 junk nr r w :
  (forall v, length v = n -> length (A v) = n) -> (forall v, length v = n -> length (P v) = n) ->
  linear_on n A -> linear_on n P ->
  length f = n -> length x0 = n -> k_prologue norm_a prm f = Go nr ->
  bicgstab A P prm f x0 junk = (KOk r, w) ->
  k_res r = true_res norm_a A P (p_left prm) f (k_x r) / nr.
Proof. intros HA HP HL HL'. exact (C01_bicgstab_residual_truthful QcS QcS_ring QcS_eqb n A P HA HP HL HL' prm f x0 junk nr r w). Qed.
Print Assumptions C01_bicgstab_residual_truthful_Qc.

(* the hypotheses on A and P are satisfiable by non-trivial operators: diagonal matrices *)
Example C01_hypotheses_satisfiable :
  let d : vec QcS := [qc 2 1; qc 3 2; qc (-1) 4] in
  (forall v, length v = 3 -> length (diag_op d v) = 3) /\ linear_on 3 (diag_op d).
Proof.
  split.
  - intros v H. exact (diag_op_len [qc 2 1; qc 3 2; qc (-1) 4] v H).
  - exact (diag_op_linear QcS_ring [qc 2 1; qc 3 2; qc (-1) 4]).
Qed.

(* ... and by the closures the correspondence check uses for A and for matrix preconditioners:
   v |-> spmv 1 M v 0 zeros over a well-formed square CRS matrix *)
Example C01_hypotheses_satisfiable_matrix :
  let M : Crs.crs QcS := Crs.mkCrs 2 [[(0, qc 2 1); (1, qc (-1) 1)]; [(0, qc (-1) 2); (1, qc 2 1)]] in
  (forall v, length v = 2 -> length (mat_op M v) = 2) /\ linear_on 2 (mat_op M).
Proof.
  split.
  - intros v _. apply mat_op_len.
  - apply (mat_op_linear QcS_ring QcS_eqb
             (Crs.mkCrs 2 [[(0, qc 2 1); (1, qc (-1) 1)]; [(0, qc (-1) 2); (1, qc 2 1)]])); reflexivity.
Qed.
Theorem C01_matrix_operators_are_linear (M : Crs.crs QcS) :
  Crs.wf M = true -> Crs.ncols M = Crs.nrows M ->
  (forall v, length (mat_op M v) = Crs.nrows M) /\ linear_on (Crs.nrows M) (mat_op M).
Proof. intros H1 H2. split; [intro v; apply mat_op_len | exact (mat_op_linear QcS_ring QcS_eqb M H1 H2)]. Qed.
Print Assumptions C01_matrix_operators_are_linear.

(* ---- where the literal property fails on the faithful model (replayed on the implementation by
        the probe cases of tools/props/C01.py; known_findings.d/C01-*.json) ---- *)
Definition idop : vec QcS -> vec QcS := fun v => v.
Definition prm0 (maxiter : nat) (tol : QcS) (ca : bool) : @kprm QcS :=
  mkPrm maxiter tol (qc 0 1) false ca 2 false (qc 1 1) 0 true 2 (qc 0 1) true.
Definition bs_junk0 : @bs_ws QcS := mkBsWs [] [] [] [] [] [] [].
Definition cg_junk0 : @cg_ws QcS := mkCgWs [] [] [] [].

(* the former counterexample of the check_after placeholder (maxiter = 0, check_after = true):
   the current code returns the true residual *)
Example C01_bicgstab_check_after_now_truthful :
  match bicgstab idop idop (prm0 0 (qc 1 4) true) [qc 1 1] [qc 0 1] bs_junk0 with
  | (KOk r, _) => k_it r = 0 /\
                  k_res r = true_res norm_a idop idop false [qc 1 1] (k_x r) / norm_a [qc 1 1]
  | _ => False
  end.
Proof. vm_compute. split; reflexivity. Qed.

(* FULL STATEMENT (false): the returned residual is ||f - A x_returned|| / ||f|| for every f.
   A right-hand side that is tiny but not zero takes the trivial-solution exit: x := 0 and ||f||
   itself is returned, although the relative residual of x = 0 is 1. *)
Theorem C01_tiny_rhs_trivial_exit_refuted :
  exists f x0,
    match cg idop idop (prm0 3 (qc 1 1024) false) f x0 cg_junk0 with
    | (KOk r, _) => k_res r <> true_res norm_a idop idop false f (k_x r) / norm_a f
    | _ => False
    end.
Proof.
  exists [Q2Qc (Qmake 1 (2 ^ 60))], [qc 1 1].
  vm_compute. discriminate.
Qed.
Print Assumptions C01_tiny_rhs_trivial_exit_refuted.
