(* Properties_C01.v -- placeholder, filled below *)
From Amgcl Require Import Scalar Krylov.
