(* Properties_C01.v -- C01: a reported convergence is truthful (residual, iteration count).
   Statements only; proofs in KrylovProofs.v and KrylovProofs2*.v.  Models: Krylov.v (cg, bicgstab,
   richardson, gmres, fgmres, lgmres, bicgstabl) and KrylovIdrs.v (idrs): all eight solvers; the
   theorems about lgmres / bicgstabl / idrs are in the second half of this file.
   "any S"  : every Scalar record (IEEE floats with NaN included), A and P arbitrary functions.
   "ring"   : commutative ring with decidable equality; A, P linear and length preserving.
   [true_res nrm A P left f x] = nrm (f - A x)  (nrm (P (f - A x)) for left preconditioning);
   nr = ||f|| (or 1 under ns_search) as computed by the prologue. *)
From Amgcl Require Import Scalar QcInst Vec Kernels Krylov KrylovRef KrylovProofs.
From Coq Require Import QArith Qcanon.
Local Open Scope S_scope.
Local Close Scope Q_scope.
Local Close Scope Qc_scope.

(* ---- A3 (any S): the iteration count never exceeds maxiter; the fuel of the model loops suffices ---- *)
Theorem C01_cg_iterations_bounded (S : Scalar) (A P : vec S -> vec S) prm f x0 junk r w :
  cg A P prm f x0 junk = (KOk r, w) -> k_it r <= p_maxiter prm /\ k_oof r = false.
Proof. exact (cg_iters_le_maxiter A P prm f x0 junk r w). Qed.
Print Assumptions C01_cg_iterations_bounded.

Theorem C01_richardson_iterations_bounded (S : Scalar) (A P : vec S -> vec S) prm f x0 junk r w :
  richardson A P prm f x0 junk = (KOk r, w) -> k_it r <= p_maxiter prm /\ k_oof r = false.
Proof. exact (richardson_iters_le_maxiter A P prm f x0 junk r w). Qed.
Print Assumptions C01_richardson_iterations_bounded.

Theorem C01_bicgstab_iterations_bounded (S : Scalar) (A P : vec S -> vec S) prm f x0 junk r w :
  bicgstab A P prm f x0 junk = (KOk r, w) -> k_it r <= p_maxiter prm /\ k_oof r = false.
Proof. exact (bicgstab_iters_le_maxiter A P prm f x0 junk r w). Qed.
Print Assumptions C01_bicgstab_iterations_bounded.

Theorem C01_gmres_iterations_bounded (S : Scalar) (A P : vec S -> vec S) prm f x0 junk r w :
  gmres A P prm f x0 junk = (KOk r, w) -> k_it r <= p_maxiter prm /\ k_oof r = false.
Proof. exact (gmres_trivial_bounds A P prm f x0 junk r w). Qed.
Print Assumptions C01_gmres_iterations_bounded.

Theorem C01_fgmres_iterations_bounded (S : Scalar) (A P : vec S -> vec S) prm f x0 junk r w :
  fgmres A P prm f x0 junk = (KOk r, w) -> k_it r <= p_maxiter prm /\ k_oof r = false.
Proof. exact (fgmres_trivial_bounds A P prm f x0 junk r w). Qed.
Print Assumptions C01_fgmres_iterations_bounded.

(* ---- A2 (any S): Richardson, GMRES and FGMRES return the norm of a residual that is RECOMPUTED
        from the returned x, on every exit path (converged, maxiter, restart boundary) ---- *)
Theorem C01_richardson_residual_recomputed (S : Scalar) (A P : vec S -> vec S) prm f x0 junk nr r w :
  k_prologue norm_a prm f = Go nr -> richardson A P prm f x0 junk = (KOk r, w) ->
  k_res r = true_res norm_a A P false f (k_x r) / nr.
Proof. exact (richardson_residual_truthful A P prm f x0 junk nr r w). Qed.
Print Assumptions C01_richardson_residual_recomputed.

Theorem C01_gmres_residual_recomputed (S : Scalar) (A P : vec S -> vec S) prm f x0 junk nr r w :
  k_prologue norm_b prm f = Go nr -> gmres A P prm f x0 junk = (KOk r, w) ->
  k_res r = true_res norm_b A P (p_left prm) f (k_x r) / nr.
Proof. intros Hp H. exact (proj2 (proj2 (gmres_result_spec A P prm f x0 junk nr r w Hp H))). Qed.
Print Assumptions C01_gmres_residual_recomputed.

Theorem C01_fgmres_residual_recomputed (S : Scalar) (A P : vec S -> vec S) prm f x0 junk nr r w :
  k_prologue norm_b prm f = Go nr -> fgmres A P prm f x0 junk = (KOk r, w) ->
  k_res r = true_res norm_b A P false f (k_x r) / nr.
Proof. intros Hp H. exact (proj2 (proj2 (fgmres_result_spec A P prm f x0 junk nr r w Hp H))). Qed.
Print Assumptions C01_fgmres_residual_recomputed.

(* LGMRES(M,K) (model with the ring buffer of augmentation vectors as explicit object state):
   iteration bound, fuel, and recomputed residual on every exit path, for every incoming state *)
Theorem C01_lgmres_bounded_and_recomputed (S : Scalar) (A P : vec S -> vec S) prm f x0 st nr r w :
  k_prologue norm_b prm f = Go nr -> lgmres A P prm f x0 st = (KOk r, w) ->
  k_it r <= p_maxiter prm /\ k_oof r = false /\
  k_res r = true_res norm_b A P (p_left prm) f (k_x r) / nr.
Proof. exact (lgmres_result_spec A P prm f x0 st nr r w). Qed.
Print Assumptions C01_lgmres_bounded_and_recomputed.

(* ---- A1 (ring): the recursively updated vector of CG / BiCGStab IS the residual of the iterate ---- *)
Section Ring.
Variable S : Scalar.
Hypothesis Srt : Sring S.
Hypothesis Seqb : seqb_spec S.
Variable n : nat.
Variables A P : vec S -> vec S.
Hypothesis A_len : forall v, length v = n -> length (A v) = n.
Hypothesis P_len : forall v, length v = n -> length (P v) = n.
Hypothesis A_lin : linear_on n A.

(* CG: returned number = ||f - A x_returned|| / ||f||, and the carried r equals f - A x exactly *)
Theorem C01_cg_residual_truthful prm f x0 junk nr r w :
  length f = n -> length x0 = n -> k_prologue norm_a prm f = Go nr ->
  cg A P prm f x0 junk = (KOk r, w) ->
  k_res r = true_res norm_a A P false f (k_x r) / nr /\ cg_r w = k_residual f (A (k_x r)).
Proof. exact (cg_residual_truthful Srt Seqb n A P A_len P_len A_lin prm f x0 junk nr r w). Qed.

(* BiCGStab, both sides, both exits (after the first or the second half step), with or without
   check_after, also when no iteration is made; the preconditioned residual for side = left.
   (Before fix 60a0b5c check_after returned the placeholder 2*eps when the loop body was not
   entered: known_findings.d/C01-bicgstab-check-after-placeholder.json, status fixed.) *)
Hypothesis P_lin : linear_on n P.
Theorem C01_bicgstab_residual_truthful prm f x0 junk nr r w :
  length f = n -> length x0 = n -> k_prologue norm_a prm f = Go nr ->
  bicgstab A P prm f x0 junk = (KOk r, w) ->
  k_res r = true_res norm_a A P (p_left prm) f (k_x r) / nr.
Proof. exact (bicgstab_residual_truthful Srt Seqb n A P A_len P_len A_lin P_lin prm f x0 junk nr r w). Qed.
End Ring.

(* closed instances at the exact rationals *)
Theorem C01_cg_residual_truthful_Qc n (A P : vec QcS -> vec QcS) prm f x0 junk nr r w :
  (forall v, length v = n -> length (A v) = n) -> (forall v, length v = n -> length (P v) = n) ->
  linear_on n A ->
  length f = n -> length x0 = n -> k_prologue norm_a prm f = Go nr ->
  cg A P prm f x0 junk = (KOk r, w) ->
  k_res r = true_res norm_a A P false f (k_x r) / nr /\ cg_r w = k_residual f (A (k_x r)).
Proof. intros HA HP HL. exact (C01_cg_residual_truthful QcS QcS_ring QcS_eqb n A P HA HP HL prm f x0 junk nr r w). Qed.
Print Assumptions C01_cg_residual_truthful_Qc.

Theorem C01_bicgstab_residual_truthful_Qc n (A P : vec QcS -> vec QcS) prm f x0 junk nr r w :
  (forall v, length v = n -> length (A v) = n) -> (forall v, length v = n -> length (P v) = n) ->
  linear_on n A -> linear_on n P ->
  length f = n -> length x0 = n -> k_prologue norm_a prm f = Go nr ->
  bicgstab A P prm f x0 junk = (KOk r, w) ->
  k_res r = true_res norm_a A P (p_left prm) f (k_x r) / nr.
Proof. intros HA HP HL HL'. exact (C01_bicgstab_residual_truthful QcS QcS_ring QcS_eqb n A P HA HP HL HL' prm f x0 junk nr r w). Qed.
Print Assumptions C01_bicgstab_residual_truthful_Qc.

(* the hypotheses on A and P are satisfiable by non-trivial operators: diagonal matrices *)
Example C01_hypotheses_satisfiable :
  let d : vec QcS := [qc 2 1; qc 3 2; qc (-1) 4] in
  (forall v, length v = 3 -> length (diag_op d v) = 3) /\ linear_on 3 (diag_op d).
Proof.
  split.
  - intros v H. exact (diag_op_len [qc 2 1; qc 3 2; qc (-1) 4] v H).
  - exact (diag_op_linear QcS_ring [qc 2 1; qc 3 2; qc (-1) 4]).
Qed.

(* ... and by the closures the correspondence check uses for A and for matrix preconditioners:
   v |-> spmv 1 M v 0 zeros over a well-formed square CRS matrix *)
Example C01_hypotheses_satisfiable_matrix :
  let M : Crs.crs QcS := Crs.mkCrs 2 [[(0, qc 2 1); (1, qc (-1) 1)]; [(0, qc (-1) 2); (1, qc 2 1)]] in
  (forall v, length v = 2 -> length (mat_op M v) = 2) /\ linear_on 2 (mat_op M).
Proof.
  split.
  - intros v _. apply mat_op_len.
  - apply (mat_op_linear QcS_ring QcS_eqb
             (Crs.mkCrs 2 [[(0, qc 2 1); (1, qc (-1) 1)]; [(0, qc (-1) 2); (1, qc 2 1)]])); reflexivity.
Qed.
Theorem C01_matrix_operators_are_linear (M : Crs.crs QcS) :
  Crs.wf M = true -> Crs.ncols M = Crs.nrows M ->
  (forall v, length (mat_op M v) = Crs.nrows M) /\ linear_on (Crs.nrows M) (mat_op M).
Proof. intros H1 H2. split; [intro v; apply mat_op_len | exact (mat_op_linear QcS_ring QcS_eqb M H1 H2)]. Qed.
Print Assumptions C01_matrix_operators_are_linear.

(* ---- where the literal property fails on the faithful model (replayed on the implementation by
        the probe cases of tools/props/C01.py; known_findings.d/C01-*.json) ---- *)
Definition idop : vec QcS -> vec QcS := fun v => v.
Definition prm0 (maxiter : nat) (tol : QcS) (ca : bool) : @kprm QcS :=
  mkPrm maxiter tol (qc 0 1) false ca 2 false (qc 1 1) 0 true 2 (qc 0 1) true.
Definition bs_junk0 : @bs_ws QcS := mkBsWs [] [] [] [] [] [] [].
Definition cg_junk0 : @cg_ws QcS := mkCgWs [] [] [] [].

(* the former counterexample of the check_after placeholder (maxiter = 0, check_after = true):
   the current code returns the true residual *)
Example C01_bicgstab_check_after_now_truthful :
  match bicgstab idop idop (prm0 0 (qc 1 4) true) [qc 1 1] [qc 0 1] bs_junk0 with
  | (KOk r, _) => k_it r = 0 /\
                  k_res r = true_res norm_a idop idop false [qc 1 1] (k_x r) / norm_a [qc 1 1]
  | _ => False
  end.
Proof. vm_compute. split; reflexivity. Qed.

(* FULL STATEMENT (false): the returned residual is ||f - A x_returned|| / ||f|| for every f.
   A right-hand side that is tiny but not zero takes the trivial-solution exit: x := 0 and ||f||
   itself is returned, although the relative residual of x = 0 is 1. *)
Theorem C01_tiny_rhs_trivial_exit_refuted :
  exists f x0,
    match cg idop idop (prm0 3 (qc 1 1024) false) f x0 cg_junk0 with
    | (KOk r, _) => k_res r <> true_res norm_a idop idop false f (k_x r) / norm_a f
    | _ => False
    end.
Proof.
  exists [Q2Qc (Qmake 1 (2 ^ 60))], [qc 1 1].
  vm_compute. discriminate.
Qed.
Print Assumptions C01_tiny_rhs_trivial_exit_refuted.

(* =====================================================================================
   LGMRES, BiCGStab(L), IDR(s): the three remaining solvers (models: Krylov.v lgmres / bicgstabl,
   KrylovIdrs.v idrs; proofs: KrylovProofs2*.v).  All eight solvers are tied digit for digit to the
   C++ by tools/props/C01.py. *)
From Amgcl Require Import KrylovIdrs KrylovProofs2 KrylovProofs2Bl KrylovProofs2Idrs.

(* ---- A3 (any S): iteration bounds and fuel ---- *)
Theorem C01_lgmres_iterations_bounded (S : Scalar) (A P : vec S -> vec S) prm f x0 st r w :
  lgmres A P prm f x0 st = (KOk r, w) -> k_it r <= p_maxiter prm /\ k_oof r = false.
Proof. exact (lgmres_trivial_bounds A P prm f x0 st r w). Qed.
Print Assumptions C01_lgmres_iterations_bounded.

(* BiCGStab(L) advances in steps of L: at most maxiter + L - 1 (L >= 1 is checked by the constructor) *)
Theorem C01_bicgstabl_iterations_bounded (S : Scalar) (A P : vec S -> vec S) prm f x0 junk r w :
  1 <= p_L prm ->
  bicgstabl A P prm f x0 junk = (KOk r, w) -> k_it r <= p_maxiter prm + p_L prm - 1 /\ k_oof r = false.
Proof. exact (bicgstabl_iters_bounded A P prm f x0 junk r w). Qed.
Print Assumptions C01_bicgstabl_iterations_bounded.

(* IDR(s): for every shadow space Sh, every s (also s = 0), smoothing / replacement on or off *)
Theorem C01_idrs_iterations_bounded (S : Scalar) (A P : vec S -> vec S) Sh prm f x0 junk r w :
  idrs A P Sh prm f x0 junk = (KOk r, w) -> k_it r <= p_maxiter (ip_k prm) /\ k_oof r = false.
Proof. exact (idrs_iters_le_maxiter A P Sh prm f x0 junk r w). Qed.
Print Assumptions C01_idrs_iterations_bounded.

(* ---- A1 (ring): the carried residual is the residual of the returned iterate ----
   BiCGStab(L): R[0] = B - K X at every loop head, after the BiCG part, the polynomial part (for ANY
   coefficients the QR solve delivers) and both accurate-update branches, with B = P(f - A x)
   (resp. f - A x) and K = P A (resp. A P); at the end x += X (resp. P X).  [bl_sized n junk]: the
   vectors X and U[0], which the code CLEARS instead of assigning, were allocated with length n. *)
Theorem C01_bicgstabl_residual_truthful (S : Scalar) (Srt : Sring S) (Seqb : seqb_spec S) n (A P : vec S -> vec S)
  (A_len : forall v, length v = n -> length (A v) = n) (P_len : forall v, length v = n -> length (P v) = n)
  (A_lin : linear_on n A) (P_lin : linear_on n P) left prm f x0 junk nr r w :
  p_left prm = left -> length f = n -> length x0 = n -> bl_sized n junk ->
  k_prologue norm_a prm f = Go nr ->
  bicgstabl A P prm f x0 junk = (KOk r, w) ->
  k_res r = true_res norm_a A P left f (k_x r) / nr.
Proof. exact (bicgstabl_residual_truthful Srt Seqb n A P A_len P_len A_lin P_lin left prm f x0 junk nr r w). Qed.
Print Assumptions C01_bicgstabl_residual_truthful.

(* IDR(s): r = f - A x, G[i] = A U[i] and, with smoothing, r_s = f - A x_s at every loop head and
   exit (the k loop, the dimension-reduction step with any omega, residual replacement); the
   preconditioner only needs to preserve lengths.  [id_sized n s junk]: G[i], U[i] (i < s), which
   the code clears, were allocated with length n. *)
Theorem C01_idrs_residual_truthful (S : Scalar) (Srt : Sring S) (Seqb : seqb_spec S) n (A P : vec S -> vec S)
  (A_len : forall v, length v = n -> length (A v) = n) (P_len : forall v, length v = n -> length (P v) = n)
  (A_lin : linear_on n A) Sh prm f x0 junk nr r w :
  length f = n -> length x0 = n -> id_sized n (ip_s prm) junk ->
  k_prologue norm_b (ip_k prm) f = Go nr ->
  idrs A P Sh prm f x0 junk = (KOk r, w) ->
  k_res r = true_res norm_b A P false f (k_x r) / nr.
Proof. exact (idrs_residual_truthful Srt Seqb n A P A_len P_len A_lin Sh prm f x0 junk nr r w). Qed.
Print Assumptions C01_idrs_residual_truthful.

(* closed instances at the exact rationals *)
Theorem C01_bicgstabl_residual_truthful_Qc n (A P : vec QcS -> vec QcS) left prm f x0 junk nr r w :
  (forall v, length v = n -> length (A v) = n) -> (forall v, length v = n -> length (P v) = n) ->
  linear_on n A -> linear_on n P ->
  p_left prm = left -> length f = n -> length x0 = n -> bl_sized n junk ->
  k_prologue norm_a prm f = Go nr ->
  bicgstabl A P prm f x0 junk = (KOk r, w) ->
  k_res r = true_res norm_a A P left f (k_x r) / nr.
Proof. intros HA HP LA LP. exact (C01_bicgstabl_residual_truthful QcS QcS_ring QcS_eqb n A P HA HP LA LP left prm f x0 junk nr r w). Qed.
Print Assumptions C01_bicgstabl_residual_truthful_Qc.

Theorem C01_idrs_residual_truthful_Qc n (A P : vec QcS -> vec QcS) Sh prm f x0 junk nr r w :
  (forall v, length v = n -> length (A v) = n) -> (forall v, length v = n -> length (P v) = n) ->
  linear_on n A ->
  length f = n -> length x0 = n -> id_sized n (ip_s prm) junk ->
  k_prologue norm_b (ip_k prm) f = Go nr ->
  idrs A P Sh prm f x0 junk = (KOk r, w) ->
  k_res r = true_res norm_b A P false f (k_x r) / nr.
Proof. intros HA HP LA. exact (C01_idrs_residual_truthful QcS QcS_ring QcS_eqb n A P HA HP LA Sh prm f x0 junk nr r w). Qed.
Print Assumptions C01_idrs_residual_truthful_Qc.

(* the hypotheses are met by concrete runs that really iterate: IDR(1) with smoothing on
   diag(2, 3) x = (2, 3), two steps; BiCGStab(2) with the accurate update on the 1D Laplacian (n = 3),
   3 steps (early exit inside the second sweep); and the bound maxiter + L - 1 is attained:
   maxiter = 1, L = 2 makes 2 iterations *)
Definition c01_dA : vec QcS -> vec QcS := diag_op [qc 2 1; qc 3 1].
Definition c01_A3 : vec QcS -> vec QcS :=
  mat_op (Crs.mkCrs 3 [[(0, qc 2 1); (1, qc (-1) 1)]; [(0, qc (-1) 1); (1, qc 2 1); (2, qc (-1) 1)]; [(1, qc (-1) 1); (2, qc 2 1)]]).
Definition c01_kprm (maxiter : nat) (tol : QcS) : @kprm QcS :=
  mkPrm maxiter tol (qc 0 1) false false 2 false (qc 1 1) 0 true 2 (qc 1 2) true.
Definition c01_iprm : @iprm QcS := mkIPrm (c01_kprm 2 (qc 0 1)) 1 (qc 7 10) true false.
Definition c01_jv (n : nat) : vec QcS := repeat (qc 5 1) n.
Definition c01_idws : @id_ws QcS :=
  mkIdWs (fun _ _ => qc 5 1) (fun _ => qc 5 1) (fun _ => qc 5 1) (c01_jv 2) (c01_jv 2) (c01_jv 2) (c01_jv 2) (c01_jv 2)
         (fun _ => c01_jv 2) (fun _ => c01_jv 2).
Definition c01_blws : @bl_ws QcS :=
  mkBlWs (c01_jv 3) (c01_jv 3) (c01_jv 3) (c01_jv 3) (fun _ => c01_jv 3) (fun _ => c01_jv 3).
Example C01_idrs_hypotheses_satisfiable :
  id_sized 2 (ip_s c01_iprm) c01_idws /\
  match idrs c01_dA (fun v => v) (fun _ => [qc 1 1; qc 0 1]) c01_iprm [qc 2 1; qc 3 1] [qc 0 1; qc 0 1] c01_idws with
  | (KOk r, _) => k_it r = 2 | _ => False
  end.
Proof. split; [intros i Hi; split; reflexivity | vm_compute; reflexivity]. Qed.
Example C01_bicgstabl_hypotheses_satisfiable :
  bl_sized 3 c01_blws /\
  match bicgstabl c01_A3 (fun v => v) (c01_kprm 4 (qc 1 1024)) [qc 1 1; qc 0 1; qc 0 1] [qc 0 1; qc 0 1; qc 0 1] c01_blws with
  | (KOk r, _) => k_it r = 3 | _ => False
  end.
Proof. split; [split; reflexivity | vm_compute; reflexivity]. Qed.
Example C01_bicgstabl_bound_attained :
  match bicgstabl c01_A3 (fun v => v) (c01_kprm 1 (qc 0 1)) [qc 1 1; qc 0 1; qc 0 1] [qc 0 1; qc 0 1; qc 0 1] c01_blws with
  | (KOk r, _) => k_it r = 2 /\ p_maxiter (c01_kprm 1 (qc 0 1)) = 1 | _ => False
  end.
Proof. vm_compute. split; reflexivity. Qed.
