(* Properties_C01.v -- C01: a reported convergence is truthful (residual, iteration count).
   Statements only; proofs in KrylovProofs.v and KrylovProofs2*.v.  Models: Krylov.v (cg, bicgstab,
   richardson, gmres, fgmres, lgmres, bicgstabl) and KrylovIdrs.v (idrs): all eight solvers; the
   theorems about lgmres / bicgstabl / idrs are in the second half of this file.
   "any S"  : every Scalar record (IEEE floats with NaN included), A and P arbitrary functions.
   "ring"   : commutative ring with decidable equality; A, P linear and length preserving.
   [true_res nrm A P left f x] = nrm (f - A x)  (nrm (P (f - A x)) for left preconditioning);
   nr = ||f|| (or 1 under ns_search) as computed by the prologue. *)
From Amgcl Require Import Scalar QcInst Vec Kernels Krylov KrylovRef KrylovProofs.
From Coq Require Import QArith Qcanon.
Local Open Scope S_scope.
Local Close Scope Q_scope.
Local Close Scope Qc_scope.

(* ---- A3 (any S): the iteration count never exceeds maxiter; the fuel of the model loops suffices ---- *)
Theorem C01_cg_iterations_bounded (S : Scalar) (A P : vec S -> vec S) prm f x0 junk r w :
  cg A P prm f x0 junk = (KOk r, w) -> k_it r <= p_maxiter prm /\ k_oof r = false.
Proof. exact (cg_iters_le_maxiter A P prm f x0 junk r w). Qed.
Print Assumptions C01_cg_iterations_bounded.

Theorem C01_richardson_iterations_bounded (S : Scalar) (A P : vec S -> vec S) prm f x0 junk r w :
  richardson A P prm f x0 junk = (KOk r, w) -> k_it r <= p_maxiter prm /\ k_oof r = false.
Proof. exact (richardson_iters_le_maxiter A P prm f x0 junk r w). Qed.
Print Assumptions C01_richardson_iterations_bounded.

Theorem C01_bicgstab_iterations_bounded (S : Scalar) (A P : vec S -> vec S) prm f x0 junk r w :
  bicgstab A P prm f x0 junk = (KOk r, w) -> k_it r <= p_maxiter prm /\ k_oof r = false.
Proof. exact (bicgstab_iters_le_maxiter A P prm f x0 junk r w). Qed.
Print Assumptions C01_bicgstab_iterations_bounded.

Theorem C01_gmres_iterations_bounded (S : Scalar) (A P : vec S -> vec S) prm f x0 junk r w :
  gmres A P prm f x0 junk = (KOk r, w) -> k_it r <= p_maxiter prm /\ k_oof r = false.
Proof. exact (gmres_trivial_bounds A P prm f x0 junk r w). Qed.
Print Assumptions C01_gmres_iterations_bounded.

Theorem C01_fgmres_iterations_bounded (S : Scalar) (A P : vec S -> vec S) prm f x0 junk r w :
  fgmres A P prm f x0 junk = (KOk r, w) -> k_it r <= p_maxiter prm /\ k_oof r = false.
Proof. exact (fgmres_trivial_bounds A P prm f x0 junk r w). Qed.
Print Assumptions C01_fgmres_iterations_bounded.

(* ---- A2 (any S): Richardson, GMRES and FGMRES return the norm of a residual that is RECOMPUTED
        from the returned x, on every exit path (converged, maxiter, restart boundary) ---- *)
Theorem C01_richardson_residual_recomputed (S : Scalar) (A P : vec S -> vec S) prm f x0 junk nr r w :
  k_prologue norm_a prm f = Go nr -> richardson A P prm f x0 junk = (KOk r, w) ->
  k_res r = true_res norm_a A P false f (k_x r) / nr.
Proof. exact (richardson_residual_truthful A P prm f x0 junk nr r w). Qed.
Print Assumptions C01_richardson_residual_recomputed.

Theorem C01_gmres_residual_recomputed (S : Scalar) (A P : vec S -> vec S) prm f x0 junk nr r w :
  k_prologue norm_b prm f = Go nr -> gmres A P prm f x0 junk = (KOk r, w) ->
  k_res r = true_res norm_b A P (p_left prm) f (k_x r) / nr.
Proof. intros Hp H. exact (proj2 (proj2 (gmres_result_spec A P prm f x0 junk nr r w Hp H))). Qed.
Print Assumptions C01_gmres_residual_recomputed.

Theorem C01_fgmres_residual_recomputed (S : Scalar) (A P : vec S -> vec S) prm f x0 junk nr r w :
  k_prologue norm_b prm f = Go nr -> fgmres A P prm f x0 junk = (KOk r, w) ->
  k_res r = true_res norm_b A P false f (k_x r) / nr.
Proof. intros Hp H. exact (proj2 (proj2 (fgmres_result_spec A P prm f x0 junk nr r w Hp H))). Qed.
Print Assumptions C01_fgmres_residual_recomputed.

(* LGMRES(M,K) (model with the ring buffer of augmentation vectors as explicit object state):
   iteration bound, fuel, and recomputed residual on every exit path, for every incoming state *)
Theorem C01_lgmres_bounded_and_recomputed (S : Scalar) (A P : vec S -> vec S) prm f x0 st nr r w :
  k_prologue norm_b prm f = Go nr -> lgmres A P prm f x0 st = (KOk r, w) ->
  k_it r <= p_maxiter prm /\ k_oof r = false /\
  k_res r = true_res norm_b A P (p_left prm) f (k_x r) / nr.
Proof. exact (lgmres_result_spec A P prm f x0 st nr r w). Qed.
Print Assumptions C01_lgmres_bounded_and_recomputed.

(* ---- A1 (ring): the recursively updated vector of CG / BiCGStab IS the residual of the iterate ---- *)
Section Ring.
Variable S : Scalar.
Hypothesis Srt : Sring S.
Hypothesis Seqb : seqb_spec S.
Variable n : nat.
Variables A P : vec S -> vec S.
Hypothesis A_len : forall v, length v = n -> length (A v) = n.
Hypothesis P_len : forall v, length v = n -> length (P v) = n.
Hypothesis A_lin : linear_on n A.

(* CG: returned number = ||f - A x_returned|| / ||f||, and the carried r equals f - A x exactly *)
Theorem C01_cg_residual_truthful prm f x0 junk nr r w :
  length f = n -> length x0 = n -> k_prologue norm_a prm f = Go nr ->
  cg A P prm f x0 junk = (KOk r, w) ->
  k_res r = true_res norm_a A P false f (k_x r) / nr /\ cg_r w = k_residual f (A (k_x r)).
Proof. exact (cg_residual_truthful Srt Seqb n A P A_len P_len A_lin prm f x0 junk nr r w). Qed.

(* BiCGStab, both sides, both exits (after the first or the second half step), with or without
   check_after, also when no iteration is made; the preconditioned residual for side = left.
   (Before fix 60a0b5c check_after returned the placeholder 2*eps when the loop body was not
   entered: known_findings.d/C01-bicgstab-check-after-placeholder.json, status fixed.) *)
Hypothesis P_lin : linear_on n P.
Theorem C01_bicgstab_residual_truthful prm f x0 junk nr r w :
  length f = n -> length x0 = n -> k_prologue norm_a prm f = Go nr ->
  bicgstab A P prm f x0 junk = (KOk r, w) ->
  k_res r = true_res norm_a A P (p_left prm) f (k_x r) / nr.
Proof. exact (bicgstab_residual_truthful Srt Seqb n A P A_len P_len A_lin P_lin prm f x0 junk nr r w). Qed.
End Ring.

(* closed instances at the exact rationals *)
Theorem C01_cg_residual_truthful_Qc n (A P : vec QcS -> vec QcS) prm f x0 junk nr r w :
  (forall v, length v = n -> length (A v) = n) -> (forall v, length v = n -> length (P v) = n) ->
  linear_on n A ->
  length f = n -> length x0 = n -> k_prologue norm_a prm f = Go nr ->
  cg A P prm f x0 junk = (KOk r, w) ->
  k_res r = true_res norm_a A P false f (k_x r) / nr /\ cg_r w = k_residual f (A (k_x r)).
Proof. intros HA HP HL. exact (C01_cg_residual_truthful QcS QcS_ring QcS_eqb n A P HA HP HL prm f x0 junk nr r w). Qed.
Print Assumptions C01_cg_residual_truthful_Qc.

Theorem C01_bicgstab_residual_truthful_Qc n (A P : vec QcS -> vec QcS) prm f x0 junk nr r w :
  (forall v, length v = n -> length (A v) = n) -> (forall v, length v = n -> length (P v) = n) ->
  linear_on n A -> linear_on n P ->
  length f = n -> length x0 = n -> k_prologue norm_a prm f = Go nr ->
  bicgstab A P prm f x0 junk = (KOk r, w) ->
  k_res r = true_res norm_a A P (p_left prm) f (k_x r) / nr.
Proof. intros HA HP HL HL'. exact (C01_bicgstab_residual_truthful QcS QcS_ring QcS_eqb n A P HA HP HL HL' prm f x0 junk nr r w). Qed.
Print Assumptions C01_bicgstab_residual_truthful_Qc.

(* the hypotheses on A and P are satisfiable by non-trivial operators: diagonal matrices *)
Example C01_hypotheses_satisfiable :
  let d : vec QcS := [qc 2 1; qc 3 2; qc (-1) 4] in
  (forall v, length v = 3 -> length (diag_op d v) = 3) /\ linear_on 3 (diag_op d).
Proof.
  split.
  - intros v H. exact (diag_op_len [qc 2 1; qc 3 2; qc (-1) 4] v H).
  - exact (diag_op_linear QcS_ring [qc 2 1; qc 3 2; qc (-1) 4]).
Qed.

(* ... and by the closures the correspondence check uses for A and for matrix preconditioners:
   v |-> spmv 1 M v 0 zeros over a well-formed square CRS matrix *)
Example C01_hypotheses_satisfiable_matrix :
  let M : Crs.crs QcS := Crs.mkCrs 2 [[(0, qc 2 1); (1, qc (-1) 1)]; [(0, qc (-1) 2); (1, qc 2 1)]] in
  (forall v, length v = 2 -> length (mat_op M v) = 2) /\ linear_on 2 (mat_op M).
Proof.
  split.
  - intros v _. apply mat_op_len.
  - apply (mat_op_linear QcS_ring QcS_eqb
             (Crs.mkCrs 2 [[(0, qc 2 1); (1, qc (-1) 1)]; [(0, qc (-1) 2); (1, qc 2 1)]])); reflexivity.
Qed.
Theorem C01_matrix_operators_are_linear (M : Crs.crs QcS) :
  Crs.wf M = true -> Crs.ncols M = Crs.nrows M ->
  (forall v, length (mat_op M v) = Crs.nrows M) /\ linear_on (Crs.nrows M) (mat_op M).
Proof. intros H1 H2. split; [intro v; apply mat_op_len | exact (mat_op_linear QcS_ring QcS_eqb M H1 H2)]. Qed.
Print Assumptions C01_matrix_operators_are_linear.

(* ---- where the literal property fails on the faithful model (replayed on the implementation by
        the probe cases of tools/props/C01.py; known_findings.d/C01-*.json) ---- *)
Definition idop : vec QcS -> vec QcS := fun v => v.
Definition prm0 (maxiter : nat) (tol : QcS) (ca : bool) : @kprm QcS :=
  mkPrm maxiter tol (qc 0 1) false ca 2 false (qc 1 1) 0 true 2 (qc 0 1) true.
Definition bs_junk0 : @bs_ws QcS := mkBsWs [] [] [] [] [] [] [].
Definition cg_junk0 : @cg_ws QcS := mkCgWs [] [] [] [].

(* the former counterexample of the check_after placeholder (maxiter = 0, check_after = true):
   the current code returns the true residual *)
Example C01_bicgstab_check_after_now_truthful :
  match bicgstab idop idop (prm0 0 (qc 1 4) true) [qc 1 1] [qc 0 1] bs_junk0 with
  | (KOk r, _) => k_it r = 0 /\
                  k_res r = true_res norm_a idop idop false [qc 1 1] (k_x r) / norm_a [qc 1 1]
  | _ => False
  end.
Proof. vm_compute. split; reflexivity. Qed.

(* FULL STATEMENT (false): the returned residual is ||f - A x_returned|| / ||f|| for every f.
   A right-hand side that is tiny but not zero takes the trivial-solution exit: x := 0 and ||f||
   itself is returned, although the relative residual of x = 0 is 1. *)
Theorem C01_tiny_rhs_trivial_exit_refuted :
  exists f x0,
    match cg idop idop (prm0 3 (qc 1 1024) false) f x0 cg_junk0 with
    | (KOk r, _) => k_res r <> true_res norm_a idop idop false f (k_x r) / norm_a f
    | _ => False
    end.
Proof.
  exists [Q2Qc (Qmake 1 (2 ^ 60))], [qc 1 1].
  vm_compute. discriminate.
Qed.
Print Assumptions C01_tiny_rhs_trivial_exit_refuted.

(* =====================================================================================
   LGMRES, BiCGStab(L), IDR(s): the three remaining solvers (models: Krylov.v lgmres / bicgstabl,
   KrylovIdrs.v idrs; proofs: KrylovProofs2*.v).  All eight solvers are tied digit for digit to the
   C++ by tools/props/C01.py. *)
From Amgcl Require Import KrylovIdrs KrylovProofs2 KrylovProofs2Bl KrylovProofs2Idrs.

(* ---- A3 (any S): iteration bounds and fuel ---- *)
Theorem C01_lgmres_iterations_bounded (S : Scalar) (A P : vec S -> vec S) prm f x0 st r w :
  lgmres A P prm f x0 st = (KOk r, w) -> k_it r <= p_maxiter prm /\ k_oof r = false.
Proof. exact (lgmres_trivial_bounds A P prm f x0 st r w). Qed.
Print Assumptions C01_lgmres_iterations_bounded.

(* BiCGStab(L) advances in steps of L: at most maxiter + L - 1 (L >= 1 is checked by the constructor) *)
Theorem C01_bicgstabl_iterations_bounded (S : Scalar) (A P : vec S -> vec S) prm f x0 junk r w :
  1 <= p_L prm ->
  bicgstabl A P prm f x0 junk = (KOk r, w) -> k_it r <= p_maxiter prm + p_L prm - 1 /\ k_oof r = false.
Proof. exact (bicgstabl_iters_bounded A P prm f x0 junk r w). Qed.
Print Assumptions C01_bicgstabl_iterations_bounded.

(* IDR(s): for every shadow space Sh, every s (also s = 0), smoothing / replacement on or off *)
Theorem C01_idrs_iterations_bounded (S : Scalar) (A P : vec S -> vec S) Sh prm f x0 junk r w :
  idrs A P Sh prm f x0 junk = (KOk r, w) -> k_it r <= p_maxiter (ip_k prm) /\ k_oof r = false.
Proof. exact (idrs_iters_le_maxiter A P Sh prm f x0 junk r w). Qed.
Print Assumptions C01_idrs_iterations_bounded.

(* ---- A1 (ring): the carried residual is the residual of the returned iterate ----
   BiCGStab(L): R[0] = B - K X at every loop head, after the BiCG part, the polynomial part (for ANY
   coefficients the QR solve delivers) and both accurate-update branches, with B = P(f - A x)
   (resp. f - A x) and K = P A (resp. A P); at the end x += X (resp. P X).  [bl_sized n junk]: the
   vectors X and U[0], which the code CLEARS instead of assigning, were allocated with length n. *)
Theorem C01_bicgstabl_residual_truthful (S : Scalar) (Srt : Sring S) (Seqb : seqb_spec S) n (A P : vec S -> vec S)
  (A_len : forall v, length v = n -> length (A v) = n) (P_len : forall v, length v = n -> length (P v) = n)
  (A_lin : linear_on n A) (P_lin : linear_on n P) left prm f x0 junk nr r w :
  p_left prm = left -> length f = n -> length x0 = n -> bl_sized n junk ->
  k_prologue norm_a prm f = Go nr ->
  bicgstabl A P prm f x0 junk = (KOk r, w) ->
  k_res r = true_res norm_a A P left f (k_x r) / nr.
Proof. exact (bicgstabl_residual_truthful Srt Seqb n A P A_len P_len A_lin P_lin left prm f x0 junk nr r w). Qed.
Print Assumptions C01_bicgstabl_residual_truthful.

(* IDR(s): r = f - A x, G[i] = A U[i] and, with smoothing, r_s = f - A x_s at every loop head and
   exit (the k loop, the dimension-reduction step with any omega, residual replacement); the
   preconditioner only needs to preserve lengths.  [id_sized n s junk]: G[i], U[i] (i < s), which
   the code clears, were allocated with length n. *)
Theorem C01_idrs_residual_truthful (S : Scalar) (Srt : Sring S) (Seqb : seqb_spec S) n (A P : vec S -> vec S)
  (A_len : forall v, length v = n -> length (A v) = n) (P_len : forall v, length v = n -> length (P v) = n)
  (A_lin : linear_on n A) Sh prm f x0 junk nr r w :
  length f = n -> length x0 = n -> id_sized n (ip_s prm) junk ->
  k_prologue norm_b (ip_k prm) f = Go nr ->
  idrs A P Sh prm f x0 junk = (KOk r, w) ->
  k_res r = true_res norm_b A P false f (k_x r) / nr.
Proof. exact (idrs_residual_truthful Srt Seqb n A P A_len P_len A_lin Sh prm f x0 junk nr r w). Qed.
Print Assumptions C01_idrs_residual_truthful.

(* closed instances at the exact rationals *)
Theorem C01_bicgstabl_residual_truthful_Qc n (A P : vec QcS -> vec QcS) left prm f x0 junk nr r w :
  (forall v, length v = n -> length (A v) = n) -> (forall v, length v = n -> length (P v) = n) ->
  linear_on n A -> linear_on n P ->
  p_left prm = left -> length f = n -> length x0 = n -> bl_sized n junk ->
  k_prologue norm_a prm f = Go nr ->
  bicgstabl A P prm f x0 junk = (KOk r, w) ->
  k_res r = true_res norm_a A P left f (k_x r) / nr.
Proof. intros HA HP LA LP. exact (C01_bicgstabl_residual_truthful QcS QcS_ring QcS_eqb n A P HA HP LA LP left prm f x0 junk nr r w). Qed.
Print Assumptions C01_bicgstabl_residual_truthful_Qc.

Theorem C01_idrs_residual_truthful_Qc n (A P : vec QcS -> vec QcS) Sh prm f x0 junk nr r w :
  (forall v, length v = n -> length (A v) = n) -> (forall v, length v = n -> length (P v) = n) ->
  linear_on n A ->
  length f = n -> length x0 = n -> id_sized n (ip_s prm) junk ->
  k_prologue norm_b (ip_k prm) f = Go nr ->
  idrs A P Sh prm f x0 junk = (KOk r, w) ->
  k_res r = true_res norm_b A P false f (k_x r) / nr.
Proof. intros HA HP LA. exact (C01_idrs_residual_truthful QcS QcS_ring QcS_eqb n A P HA HP LA Sh prm f x0 junk nr r w). Qed.
Print Assumptions C01_idrs_residual_truthful_Qc.

(* the hypotheses are met by concrete runs that really iterate: IDR(1) with smoothing on
   diag(2, 3) x = (2, 3), two steps; BiCGStab(2) with the accurate update on the 1D Laplacian (n = 3),
   3 steps (early exit inside the second sweep); and the bound maxiter + L - 1 is attained:
   maxiter = 1, L = 2 makes 2 iterations *)
Definition c01_dA : vec QcS -> vec QcS := diag_op [qc 2 1; qc 3 1].
Definition c01_A3 : vec QcS -> vec QcS :=
  mat_op (Crs.mkCrs 3 [[(0, qc 2 1); (1, qc (-1) 1)]; [(0, qc (-1) 1); (1, qc 2 1); (2, qc (-1) 1)]; [(1, qc (-1) 1); (2, qc 2 1)]]).
Definition c01_kprm (maxiter : nat) (tol : QcS) : @kprm QcS :=
  mkPrm maxiter tol (qc 0 1) false false 2 false (qc 1 1) 0 true 2 (qc 1 2) true.
Definition c01_iprm : @iprm QcS := mkIPrm (c01_kprm 2 (qc 0 1)) 1 (qc 7 10) true false.
Definition c01_jv (n : nat) : vec QcS := repeat (qc 5 1) n.
Definition c01_idws : @id_ws QcS :=
  mkIdWs (fun _ _ => qc 5 1) (fun _ => qc 5 1) (fun _ => qc 5 1) (c01_jv 2) (c01_jv 2) (c01_jv 2) (c01_jv 2) (c01_jv 2)
         (fun _ => c01_jv 2) (fun _ => c01_jv 2).
Definition c01_blws : @bl_ws QcS :=
  mkBlWs (c01_jv 3) (c01_jv 3) (c01_jv 3) (c01_jv 3) (fun _ => c01_jv 3) (fun _ => c01_jv 3).
Example C01_idrs_hypotheses_satisfiable :
  id_sized 2 (ip_s c01_iprm) c01_idws /\
  match idrs c01_dA (fun v => v) (fun _ => [qc 1 1; qc 0 1]) c01_iprm [qc 2 1; qc 3 1] [qc 0 1; qc 0 1] c01_idws with
  | (KOk r, _) => k_it r = 2 | _ => False
  end.
Proof. split; [intros i Hi; split; reflexivity | vm_compute; reflexivity]. Qed.
Example C01_bicgstabl_hypotheses_satisfiable :
  bl_sized 3 c01_blws /\
  match bicgstabl c01_A3 (fun v => v) (c01_kprm 4 (qc 1 1024)) [qc 1 1; qc 0 1; qc 0 1] [qc 0 1; qc 0 1; qc 0 1] c01_blws with
  | (KOk r, _) => k_it r = 3 | _ => False
  end.
Proof. split; [split; reflexivity | vm_compute; reflexivity]. Qed.
Example C01_bicgstabl_bound_attained :
  match bicgstabl c01_A3 (fun v => v) (c01_kprm 1 (qc 0 1)) [qc 1 1; qc 0 1; qc 0 1] [qc 0 1; qc 0 1; qc 0 1] c01_blws with
  | (KOk r, _) => k_it r = 2 /\ p_maxiter (c01_kprm 1 (qc 0 1)) = 1 | _ => False
  end.
Proof. vm_compute. split; reflexivity. Qed.

(* =====================================================================================
   Last clause of C01: "the stationary Richardson iteration converges at the rate of the cycle's
   contraction factor" (KrylovRate.v, KrylovRateAmg.v, KrylovRateCert.v, KrylovRateQc.v).
   Ordered commutative ring (the record's operator< with the laws [ordered S] of AmgOrder.v); no square
   roots, no division.  n = vector length, A linear, B ANY length-preserving map (the preconditioner);
     ipn n x y        = sum_{i<n} x_i y_i                 energy n A e  = <A e, e>
     err_step A B e   = e - B (A e) = (I - B A) e         spow d k      = d^k
   u is a solution (the right-hand side is A u), so [vsub u x] is the error of the iterate x.
   Damping 1 (p_damping prm = 1) as in the property text.  [rich_iter] is the textbook iteration of
   KrylovRef.v, [richardson] the workspace model of amgcl/solver/richardson.hpp that the correspondence
   check ties to the C++ (C05_richardson_is_kfold_iteration: the model returns rich_iter after k_it steps). *)
From Amgcl Require Import AmgOrder KrylovRate.

(* contraction by delta in the energy norm  ==>  energy of the error <= delta^(2k) * initial energy *)
Theorem C01_richardson_rate_iterates (S : Scalar) (Srt : Sring S) (Ord : ordered S) n (A B : vec S -> vec S)
  (A_len : forall v, length v = n -> length (A v) = n) (B_len : forall v, length v = n -> length (B v) = n)
  (A_lin : linear_on n A) (delta : S) (u x0 : vec S) k :
  length u = n -> length x0 = n ->
  (forall e, length e = n -> ole (energy n A (err_step A B e)) (delta * delta * energy n A e)) ->
  ole (energy n A (vsub u (rich_iter A B s1 (A u) k x0))) (spow delta (2 * k) * energy n A (vsub u x0)).
Proof. exact (rich_rate Srt Ord n A B A_len B_len A_lin delta u x0 k). Qed.
Print Assumptions C01_richardson_rate_iterates.

(* the same for the iterate RETURNED by the workspace model after k_it iterations *)
Theorem C01_richardson_rate (S : Scalar) (Srt : Sring S) (Seqb : seqb_spec S) (Ord : ordered S) n (A B : vec S -> vec S)
  (A_len : forall v, length v = n -> length (A v) = n) (B_len : forall v, length v = n -> length (B v) = n)
  (A_lin : linear_on n A) (delta : S) prm (u x0 : vec S) junk nr r w :
  length u = n -> length x0 = n -> p_damping prm = s1 ->
  k_prologue norm_a prm (A u) = Go nr ->
  richardson A B prm (A u) x0 junk = (KOk r, w) ->
  (forall e, length e = n -> ole (energy n A (err_step A B e)) (delta * delta * energy n A e)) ->
  ole (energy n A (vsub u (k_x r))) (spow delta (2 * k_it r) * energy n A (vsub u x0)).
Proof. exact (richardson_rate Srt Seqb Ord n A B A_len B_len A_lin delta prm u x0 junk nr r w). Qed.
Print Assumptions C01_richardson_rate.

(* strict version: [dead] = "the error is 0" in whichever sense is closed under I - B A (e = 0, or the
   residual A e = 0).  Strict decrease on every live error  ==>  as long as the error of step k is live,
   the energy after step k+1 is below the energy of EVERY earlier iterate. *)
Theorem C01_richardson_strict_decrease (S : Scalar) (Srt : Sring S) (Ord : ordered S) n (A B : vec S -> vec S)
  (A_len : forall v, length v = n -> length (A v) = n) (B_len : forall v, length v = n -> length (B v) = n)
  (A_lin : linear_on n A) (dead : vec S -> Prop) (u x0 : vec S) :
  length u = n -> length x0 = n ->
  (forall e, length e = n -> dead e -> dead (err_step A B e)) ->
  (forall e, length e = n -> ~ dead e -> olt (energy n A (err_step A B e)) (energy n A e)) ->
  forall k, ~ dead (vsub u (rich_iter A B s1 (A u) k x0)) ->
  forall j, j <= k ->
    olt (energy n A (vsub u (rich_iter A B s1 (A u) (Datatypes.S k) x0)))
        (energy n A (vsub u (rich_iter A B s1 (A u) j x0))).
Proof. exact (rich_strict Srt Ord n A B A_len B_len A_lin dead u x0). Qed.
Print Assumptions C01_richardson_strict_decrease.

(* both notions of "zero error" are closed under I - B A when B 0 = 0 *)
Theorem C01_zero_error_stays_zero (S : Scalar) (Srt : Sring S) n (A B : vec S -> vec S)
  (A_len : forall v, length v = n -> length (A v) = n) (A_lin : linear_on n A) (B_zero : B (vzero n) = vzero n)
  (e : vec S) : length e = n ->
  (e = vzero n -> err_step A B e = vzero n) /\ (A e = vzero n -> A (err_step A B e) = vzero n).
Proof.
  exact (fun L => conj (dead_zero_step Srt n A B A_len A_lin B_zero e L) (dead_res_step Srt n A B B_zero e L)).
Qed.
Print Assumptions C01_zero_error_stays_zero.

(* symmetric A: the energy change of one step is the quantity C02-B1 bounds for the AMG cycle,
   J_g(B g) = <A B g, B g> - 2 <g, B g> at g = A e (the residual) *)
Theorem C01_richardson_energy_step (S : Scalar) (Srt : Sring S) n (A B : vec S -> vec S)
  (A_len : forall v, length v = n -> length (A v) = n) (B_len : forall v, length v = n -> length (B v) = n)
  (A_lin : linear_on n A)
  (A_sym : forall x y, length x = n -> length y = n -> ipn n (A x) y = ipn n x (A y)) (e : vec S) :
  length e = n -> energy n A (err_step A B e) = energy n A e + Jform n A B (A e).
Proof. exact (energy_step Srt n A B A_len B_len A_lin A_sym e). Qed.
Print Assumptions C01_richardson_energy_step.

(* ---- the AMG cycle as the preconditioner (hypotheses of C02_cycle_energy_strict_decrease /
   C02_apply_energy_strict: hier_dec, top_strict; hier_lin of C02_apply_linear) ----
   amg_B npre npost ncycle pre_cycles lvls g = fst (apply ... lvls scr g x) for every well-formed scratch state
   scr and every incoming x (KrylovRateAmg.amg_B_any); A = mat_op (top matrix) is the closure the
   correspondence check uses for the system matrix. *)
From Amgcl Require Import Crs Amg AmgProofs2 AmgProofs4 AmgProofs6 AmgProofs10 KrylovRateAmg KrylovRateCert KrylovRateQc.

Theorem C01_richardson_amg_strict (S : Scalar) (Srt : Sring S) (Seqb : seqb_spec S) (Ord : ordered S)
  k nc pc (lvls : list (@level S)) :
  hier_dec lvls -> top_strict lvls -> hier_lin lvls ->
  wf (top_A lvls) = true -> sym_mat (top_n lvls) (top_A lvls) ->
  le0 (@s0 S) -> (forall a b : S, le0 a -> le0 b -> le0 (a + b)) -> (forall a b : S, lt0 a -> le0 b -> lt0 (a + b)) ->
  forall prm (u x0 : vec S) junk nr r w,
  let n := top_n lvls in let A := mat_op (top_A lvls) in
  let B := amg_B (Datatypes.S k) (Datatypes.S k) (Datatypes.S nc) (Datatypes.S pc) lvls in
  nrows (top_A lvls) = n ->
  length u = n -> length x0 = n -> p_damping prm = s1 ->
  k_prologue norm_a prm (A u) = Go nr ->
  richardson A B prm (A u) x0 junk = (KOk r, w) ->
  forall i, k_it r = Datatypes.S i ->
  A (vsub u (rich_iter A B s1 (A u) i x0)) <> vzero n ->
  forall j, j <= i ->
  olt (qA n (top_A lvls) (vsub u (k_x r)) (vsub u (k_x r)))
      (qA n (top_A lvls) (vsub u (rich_iter A B s1 (A u) j x0)) (vsub u (rich_iter A B s1 (A u) j x0))).
Proof.
  exact (fun Hd Hs Hl WA SA O1 O2 O3 prm u x0 junk nr r w =>
           richardson_amg_strict Srt Seqb Ord k nc pc lvls Hd Hs Hl WA SA O1 O2 O3 prm u x0 junk nr r w).
Qed.
Print Assumptions C01_richardson_amg_strict.

(* hierarchies BUILT by the model (amg_init, Galerkin coarse operator, standard smoothers, exact coarse solve)
   under the hypotheses of C02_built_contracts_wdd (ordered field; descs_ok: every level satisfies the
   condition of its smoother kind) and the side conditions of C02_apply_linear_built *)
From Amgcl Require Import MatOps DenseSolve AmgExec AmgProofs3 AmgProofs5 AmgProofs12 AmgSmooth3 KrylovRateBuilt.
Theorem C01_richardson_built_amg_strict (S : Scalar) (Sft : Sfield S) (Seqb : seqb_spec S) (Ord : ordered S)
  (Habs2 : forall v : S, sabs v * sabs v = v * v) (Hadj : forall v : S, sadj v = v) kd ce dc ml ts (M : crs S) k nc pc :
  let ls := amg_init ce dc ml (@galerkin S) ts M in
  descs_ok kd ls -> top_strict_desc kd ls -> top_smoothed ls ->
  wf M = true -> ts_wf (nrows M) ts ->
  (forall A, In (LSolve A) ls -> ncols A = nrows A /\ solvable A = true) ->
  let lvls := std_levels kd ls in
  let n := nrows M in
  let A := mat_op (sort_rows M) in
  let B := amg_B (Datatypes.S k) (Datatypes.S k) (Datatypes.S nc) (Datatypes.S pc) lvls in
  forall prm (u x0 : vec S) junk nr r w,
  length u = n -> length x0 = n -> p_damping prm = s1 ->
  k_prologue norm_a prm (A u) = Go nr ->
  richardson A B prm (A u) x0 junk = (KOk r, w) ->
  forall i, k_it r = Datatypes.S i ->
  A (vsub u (rich_iter A B s1 (A u) i x0)) <> vzero n ->
  forall j, j <= i ->
  olt (qA n (sort_rows M) (vsub u (k_x r)) (vsub u (k_x r)))
      (qA n (sort_rows M) (vsub u (rich_iter A B s1 (A u) j x0)) (vsub u (rich_iter A B s1 (A u) j x0))).
Proof. exact (richardson_built_amg_strict Sft Seqb Ord Habs2 Hadj kd ce dc ml ts M k nc pc). Qed.
Print Assumptions C01_richardson_built_amg_strict.

(* a checkable certificate for an EXPLICIT contraction factor of a linear map T given as a function:
   the matrix of T (checked on the unit vectors) and an L^T D L factorisation of d2 M - T^T M T, D >= 0 *)
Theorem C01_contraction_certificate (S : Scalar) (Srt : Sring S) (Ord : ordered S) n (M : crs S) (T : vec S -> vec S)
  (Tm Tmt L Lt Dm : crs S) (d2 : S) :
  cert n M T Tm Tmt L Lt Dm d2 ->
  forall e, length e = n -> ole (qA n M (T e) (T e)) (d2 * qA n M e e).
Proof. exact (cert_contracts Srt Ord n M T Tm Tmt L Lt Dm d2). Qed.
Print Assumptions C01_contraction_certificate.

(* closed at the exact rationals, no hypothesis left but the vector lengths and the run itself:
   1-D Poisson (n = 4), two pairwise aggregations, Galerkin operators, damped Jacobi w = 1/2, direct solve on
   the 1 x 1 level, one V(1,1) cycle: Richardson reduces the energy of the error by (5/16)^2 per iteration *)
Theorem C01_richardson_amg_rate_Qc prm (u x0 : vec QcS) junk nr r w :
  length u = 4 -> length x0 = 4 -> p_damping prm = s1 ->
  k_prologue norm_a prm (mat_op rateM u) = Go nr ->
  richardson (mat_op rateM) (rateB rateJac 1 1 1) prm (mat_op rateM u) x0 junk = (KOk r, w) ->
  ole (qA 4 rateM (vsub u (k_x r)) (vsub u (k_x r)))
      (spow (qc 5 16) (2 * k_it r) * qA 4 rateM (vsub u x0) (vsub u x0)).
Proof. exact (richardson_amg_rate_Qc prm u x0 junk nr r w). Qed.
Print Assumptions C01_richardson_amg_rate_Qc.

(* amgcl's default smoothers (damped Jacobi 18/25, Jacobi 1, SPAI-0, Gauss-Seidel), every V(k,k) / W(k,k)
   cycle with k >= 1, every pre_cycles >= 1, on the same hierarchy: strictly decreasing energies *)
Theorem C01_richardson_amg_strict_Qc (kd : @AmgExec.relax_kind QcS) k nc pc prm (u x0 : vec QcS) junk nr r w :
  kd = rateJacDefault \/ kd = rateJacOne \/ kd = @AmgExec.RSpai0 QcS \/ kd = @AmgExec.RGS QcS ->
  let A := mat_op rateM in
  let B := rateB kd (Datatypes.S k) (Datatypes.S nc) (Datatypes.S pc) in
  length u = 4 -> length x0 = 4 -> p_damping prm = s1 ->
  k_prologue norm_a prm (A u) = Go nr ->
  richardson A B prm (A u) x0 junk = (KOk r, w) ->
  forall i, k_it r = Datatypes.S i ->
  A (vsub u (rich_iter A B s1 (A u) i x0)) <> vzero 4 ->
  forall j, j <= i ->
  olt (qA 4 rateM (vsub u (k_x r)) (vsub u (k_x r)))
      (qA 4 rateM (vsub u (rich_iter A B s1 (A u) j x0)) (vsub u (rich_iter A B s1 (A u) j x0))).
Proof. exact (richardson_amg_strict_Qc kd k nc pc prm u x0 junk nr r w). Qed.
Print Assumptions C01_richardson_amg_strict_Qc.

(* the preconditioner of the two theorems above IS the model's apply, for every scratch state / incoming x *)
Theorem C01_rate_preconditioner_is_apply kd k nc pc scr (g x : vec QcS) :
  AmgProofs2.scratch_wf (rateLvls kd) scr -> length g = 4 -> length x = 4 ->
  fst (apply k k nc pc (rateLvls kd) scr g x) = rateB kd k nc pc g.
Proof. exact (rateB_is_apply kd k nc pc scr g x). Qed.
Print Assumptions C01_rate_preconditioner_is_apply.

(* non-vacuity and sharpness: the contraction hypothesis of C01_richardson_rate holds for the concrete cycle with
   delta = 5/16, and 5/16 cannot be improved: the error (1,3,3,1) is mapped to 5/16 of itself *)
Example C01_rate_hypothesis_satisfiable (e : vec QcS) : length e = 4 ->
  ole (qA 4 rateM (rateT e) (rateT e)) (qc 5 16 * qc 5 16 * qA 4 rateM e e).
Proof. exact (rate_contracts e). Qed.
Example C01_rate_attained :
  let e : vec QcS := [qc 1 1; qc 3 1; qc 3 1; qc 1 1] in
  AmgProofs.vec_eqb (rateT e) [qc 5 16; qc 15 16; qc 15 16; qc 5 16] = true /\
  qA 4 rateM (rateT e) (rateT e) = qc 5 16 * qc 5 16 * qA 4 rateM e e /\ olt s0 (qA 4 rateM e e).
Proof. exact rate_attained. Qed.
(* a run of the workspace model that really iterates: u = (1,2,3,4), x0 = 0, tol = 0, maxiter = 3 *)
Example C01_rate_run_iterates :
  let u : vec QcS := [qc 1 1; qc 2 1; qc 3 1; qc 4 1] in
  let prm : @kprm QcS := mkPrm 3 (qc 0 1) (qc 0 1) false false 2 false (qc 1 1) 0 true 2 (qc 0 1) true in
  match richardson (mat_op rateM) (rateB rateJac 1 1 1) prm (mat_op rateM u) [qc 0 1; qc 0 1; qc 0 1; qc 0 1]
                   (mkRiWs [] []) with
  | (KOk r, _) => k_it r = 3 /\
      sltb (spow (qc 5 16) 6 * qA 4 rateM u u) (qA 4 rateM (vsub u (k_x r)) (vsub u (k_x r))) = false
  | _ => False
  end.
Proof. vm_compute. split; reflexivity. Qed.

(* FULL STATEMENT (unproved): "the asymptotic rate of the iteration EQUALS the spectral radius of I - B A":
   for every norm, lim_k ||e_k||^(1/k) = rho(I - B A) for generic e_0.  Proved here is the energy-norm form:
   every bound delta on the A-norm of I - B A is a rate (C01_richardson_rate), the bound is attained on
   eigenvectors (C01_rate_attained), and for symmetric B the A-norm of I - B A is its spectral radius
   (I - B A is A-self-adjoint) -- that last identification needs the spectral theorem over a real closed
   field, which is not formalised (see the corresponding remark in Properties_C02.v, B1 (b)).  The quantitative
   clause "every coarsening x relaxation x solver combination reaches 1e-8 within 100 iterations on the model
   problems" stays tested (double build), not proved. *)

(* =====================================================================================
   The trivial-solution exit of the common prologue (all eight solvers):
   `if (norm_rhs < amgcl::detail::eps<scalar_type>(1))`, eps<T>(n) = 2 * epsilon * n.  The threshold is
   2 * epsilon for every number of unknowns; lemmas in KrylovTrivialExit.v.  tools/props/C01.py
   (window_cases) runs right-hand sides with 2 eps <= ||f|| < 2 eps n, n = 3..40, through all eight
   solvers (exact and binary64): the solver has to iterate and to return the true relative residual. *)
From Amgcl Require Import KrylovTrivialExit.

(* the model takes the trivial exit iff ||f|| < eps1 and ns_search is off; the length of f does not occur *)
Theorem C01_trivial_exit_only_below_two_eps (S : Scalar) (nrm : vec S -> S) (prm : @kprm S) (f : vec S) :
  takes_trivial_exit nrm prm f <-> (sltb (nrm f) eps1 = true /\ p_ns prm = false).
Proof. exact (trivial_exit_only_below_eps1 nrm prm f). Qed.
Print Assumptions C01_trivial_exit_only_below_two_eps.

Theorem C01_trivial_exit_prologue (S : Scalar) (nrm : vec S -> S) (prm : @kprm S) (f : vec S) (nr : S) :
  k_prologue nrm prm f = Trivial nr <-> (sltb (nrm f) eps1 = true /\ p_ns prm = false /\ nr = nrm f).
Proof. exact (prologue_trivial_iff nrm prm f nr). Qed.
Print Assumptions C01_trivial_exit_prologue.

Theorem C01_no_trivial_exit_at_or_above_two_eps (S : Scalar) (nrm : vec S -> S) (prm : @kprm S) (f : vec S) :
  sltb (nrm f) eps1 = false -> k_prologue nrm prm f = Go (nrm f).
Proof. exact (prologue_go nrm prm f). Qed.
Print Assumptions C01_no_trivial_exit_at_or_above_two_eps.

(* right-hand sides of different lengths with the same norm are treated alike *)
Theorem C01_trivial_exit_independent_of_n (S : Scalar) (nrm : vec S -> S) (prm : @kprm S) (f g : vec S) :
  nrm f = nrm g -> (takes_trivial_exit nrm prm f <-> takes_trivial_exit nrm prm g).
Proof. exact (trivial_exit_independent_of_n nrm prm f g). Qed.
Print Assumptions C01_trivial_exit_independent_of_n.

(* every one of the eight solver models takes its trivial exit through that prologue *)
Theorem C01_all_solvers_trivial_exit_through_prologue (S : Scalar) (A P : vec S -> vec S) (prm : @kprm S) (f x0 : vec S) :
  (forall nr junk, k_prologue norm_a prm f = Trivial nr -> cg A P prm f x0 junk = (k_trivial nr x0, junk)) /\
  (forall nr junk, k_prologue norm_a prm f = Trivial nr -> richardson A P prm f x0 junk = (k_trivial nr x0, junk)) /\
  (forall nr junk, k_prologue norm_a prm f = Trivial nr -> bicgstab A P prm f x0 junk = (k_trivial nr x0, junk)) /\
  (forall nr junk, k_prologue norm_b prm f = Trivial nr -> gmres A P prm f x0 junk = (k_trivial nr x0, junk)) /\
  (forall nr junk, k_prologue norm_b prm f = Trivial nr -> fgmres A P prm f x0 junk = (k_trivial nr x0, junk)) /\
  (forall nr st, k_prologue norm_b prm f = Trivial nr ->
                 lgmres A P prm f x0 st =
                 (k_trivial nr x0, if p_areset prm then mkLgWs (l_g st) (l_data st) cb_clear else st)) /\
  (forall nr junk, k_prologue norm_a prm f = Trivial nr -> bicgstabl A P prm f x0 junk = (k_trivial nr x0, junk)) /\
  (forall nr Sh ip junk, ip_k ip = prm -> k_prologue norm_b prm f = Trivial nr ->
                 idrs A P Sh ip f x0 junk = (k_trivial nr x0, junk)).
Proof. exact (solvers_trivial_exit A P prm f x0). Qed.
Print Assumptions C01_all_solvers_trivial_exit_through_prologue.

(* eps1 = 2 * epsilon in every commutative ring whose conversion of the literals 1 and 2 is faithful *)
Theorem C01_eps1_is_two_eps (S : Scalar) (Srt : Sring S) :
  @sofQ S (1 # 1)%Q = s1 -> @sofQ S (2 # 1)%Q = s1 + s1 -> @eps1 S = (s1 + s1) * seps.
Proof. exact (eps1_is_two_eps Srt). Qed.
Print Assumptions C01_eps1_is_two_eps.

Theorem C01_trivial_exit_only_below_two_eps_Qc (nrm : vec QcS -> QcS) (prm : @kprm QcS) (f : vec QcS) :
  takes_trivial_exit nrm prm f <-> ((nrm f < qc 2 1 * @seps QcS)%Qc /\ p_ns prm = false).
Proof. exact (trivial_exit_only_below_two_eps_Qc nrm prm f). Qed.
Print Assumptions C01_trivial_exit_only_below_two_eps_Qc.

(* n = 40, f = 2^-50 e_0: 2 eps = 2^-51 <= ||f|| = 2^-50 < 2 eps n; CG iterates and reaches x = f *)
Example C01_window_rhs_iterates :
  length te_f40 = 40 /\
  (qc 2 1 * @seps QcS <= norm_a te_f40)%Qc /\ (norm_a te_f40 < qc 2 1 * @seps QcS * qc 40 1)%Qc /\
  ~ takes_trivial_exit norm_a (te_prm 3) te_f40 /\
  match cg te_idop te_idop (te_prm 3) te_f40 te_x40 (mkCgWs [] [] [] []) with
  | (KOk r, _) => k_it r = 1 /\ map this (k_x r) = map this te_f40 /\ k_res r = qc 0 1
  | _ => False
  end.
Proof. exact window_rhs_iterates. Qed.
