(* SmallAggr.v -- C10: the guard between small aggregates and the QR of a block with fewer rows than columns.

   With near-null-space vectors (nullspace.cols > 0) tentative_prolongation() QR-factorises, per block aggregate, the
   d x cols block Bpart (d = number of unknowns of the aggregate, column major: row_stride 1, col_stride d) and then
   copies the cols x cols upper triangle:

       for (ii < cols) for (jj < cols; ++kk) Bnew[i*cols*cols + kk] = qr.R(ii, jj);      (tentative_prolongation.hpp:189-191)
       value_type R(int i, int j) const { if (j < i) return zero; return r[i*row_stride + j*col_stride]; }    (qr.hpp:245-248)

   r points at the d*cols entries of Bpart: for d < cols the index ii + jj*d of R(cols-1, cols-1) is >= d*cols.  Nothing
   in tentative_prolongation tests d >= cols; the only guard is pointwise_aggregates::remove_small_aggregates
   (pointwise_aggregates.hpp:157-195), called with min_aggregate = nullspace.cols:

       if (min_aggregate <= 1) return;
       std::vector<ptrdiff_t> count(aggr.count, 0);
       for (i < n) { id = aggr.id[i]; if (id != removed) ++count[id]; }
       m = 0; for (i < aggr.count) if (block_size * count[i] < min_aggregate) count[i] = removed; else count[i] = m++;
       if (!m) throw error::empty_level();
       aggr.count = m; for (i < n) { id = aggr.id[i]; if (id != removed) aggr.id[i] = count[id]; }

   This file: the array-level model (monad of LowLevel2.v: every access is a checked read / write) of
   remove_small_aggregates -- with the threshold test as coded [RsCoded] and as in the variant that converts the
   threshold to nodes once, `min_aggregate /= block_size` rounding down, and tests `count[i] < min_aggregate`
   [RsFloor] -- and of the R copy loop.  Proofs: SmallAggrProofs.v. *)
From Coq Require Import ZArith.
From Amgcl Require Import Scalar Vec Crs Kernels MatOps Aggregates LowLevel LowLevelT LowLevel2 LowLevel2G.
Local Open Scope S_scope.

Inductive rs_variant := RsCoded | RsFloor.

(* result: the updated (aggr.count, aggr.id), or the exception *)
Inductive rs_out := RsOk (count : nat) (id : marr Z) | RsEmptyLevel.

(* the threshold the rest of the function sees *)
Definition rs_threshold (v : rs_variant) (bs mina : nat) : nat :=
  match v with RsCoded => mina | RsFloor => Nat.div mina bs end.

(* "this aggregate is too small"; c = count[i] (ptrdiff_t), th = rs_threshold *)
Definition rs_small (v : rs_variant) (bs th : nat) (c : Z) : bool :=
  match v with
  | RsCoded => Z.ltb (Z.of_nat bs * c) (Z.of_nat th)
  | RsFloor => Z.ltb c (Z.of_nat th)
  end.

(* for (i < n) { id = aggr.id[i]; if (id != removed) ++count[id]; } *)
Definition ll_rs_count (n : nat) (id : marr Z) (cnt0 : marr Z) : mres (marr Z) :=
  mfor 0 n (fun i cnt =>
    a <-- mrd id i ;;
    if Z.eqb a removed then Done cnt
    else c <-- mrdz cnt a ;; mwrz cnt a (c + 1)%Z) cnt0.

(* for (i < aggr.count) if (small(count[i])) count[i] = removed; else count[i] = m++; *)
Definition ll_rs_map (v : rs_variant) (bs th count : nat) (cnt : marr Z) : mres (marr Z * nat) :=
  mfor 0 count (fun i (s : marr Z * nat) =>
    c <-- mrd (fst s) i ;;
    if rs_small v bs th c
    then cnt' <-- mwr (fst s) i removed ;; Done (cnt', snd s)
    else cnt' <-- mwr (fst s) i (Z.of_nat (snd s)) ;; Done (cnt', Datatypes.S (snd s))) (cnt, 0%nat).

(* for (i < n) { id = aggr.id[i]; if (id != removed) aggr.id[i] = count[id]; } *)
Definition ll_rs_update (n : nat) (cnt : marr Z) (id : marr Z) : mres (marr Z) :=
  mfor 0 n (fun i id =>
    a <-- mrd id i ;;
    if Z.eqb a removed then Done id
    else m <-- mrdz cnt a ;; mwr id i m) id.

Definition ll_remove_small (v : rs_variant) (n bs mina count : nat) (id : marr Z) : mres rs_out :=
  let th := rs_threshold v bs mina in
  if Nat.leb th 1 then Done (RsOk count id) else
  cnt1 <-- ll_rs_count n id (filled (repeat 0%Z count)) ;;       (* std::vector<ptrdiff_t> count(aggr.count, 0) *)
  p <-- ll_rs_map v bs th count cnt1 ;;
  if Nat.eqb (snd p) 0 then Done RsEmptyLevel else
  id' <-- ll_rs_update n (fst p) id ;;
  Done (RsOk (snd p) id').

(* what the list-level model Aggregates.remove_small, completed by the throw, gives *)
Definition remove_small_out (bs mina count : nat) (id : list Z) : rs_out :=
  let r := remove_small bs mina count id in
  if Nat.ltb 1 mina && Nat.eqb (fst r) 0 then RsEmptyLevel else RsOk (fst r) (filled (snd r)).

Section RCopy.
Context {S : Scalar}.

(* QR<double>::R(i, j) after factorize(d, cols, &Bpart[0], col_major): r = Bpart (d*cols cells), row_stride = 1,
   col_stride = d *)
Definition qr_R (r : marr S) (d : nat) (ii jj : nat) : mres S :=
  if Nat.ltb jj ii then Done s0 else mrd r (ii * 1 + jj * d).

(* one step of the copy loop; the state is (Bnew, position i*cols*cols + kk) *)
Definition r_copy_body (r : marr S) (d : nat) (ij : nat * nat) (st : marr S * nat) : mres (marr S * nat) :=
  v <-- qr_R r d (fst ij) (snd ij) ;;
  b' <-- mwr (fst st) (snd st) v ;;
  Done (b', Datatypes.S (snd st)).

(* for (ii = 0, kk = 0; ii < cols; ++ii) for (jj = 0; jj < cols; ++jj, ++kk) Bnew[base + kk] = qr.R(ii, jj); *)
Definition r_copy_loop (cols d : nat) (r : marr S) (base : nat) (bnew : marr S) : mres (marr S) :=
  st <-- mfoldl (fun ii st => mfoldl (fun jj st => r_copy_body r d (ii, jj) st) (seq 0 cols) st) (seq 0 cols) (bnew, base) ;;
  Done (fst st).

(* the values the loop stores when every read is inside r *)
Definition r_values (cols d : nat) (rl : list S) : list S :=
  flat_map (fun ii => map (fun jj => if Nat.ltb jj ii then s0 else nth (ii * 1 + jj * d) rl s0) (seq 0 cols)) (seq 0 cols).

End RCopy.
