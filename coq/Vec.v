(* Vec.v -- vectors as lists, in-place update combinators, finite sums. *)
From Amgcl Require Import Scalar.
Local Open Scope S_scope.

Section Vec.
Context {S : Scalar}.

Definition vec := list S.
Definition vget (v : vec) (i : nat) : S := nth i v s0.

(* for(i < x.size()) y[i] = f(x[i], y[i]);  the tail of y (if any) is kept. *)
Fixpoint upd2 (f : S -> S -> S) (x y : vec) : vec :=
  match x, y with
  | a :: x', b :: y' => f a b :: upd2 f x' y'
  | [], _ => y
  | _ :: _, [] => []          (* out of bounds in the C++; excluded by length guards *)
  end.

(* for(i < x.size()) z[i] = f(x[i], y[i], z[i]) *)
Fixpoint upd3 (f : S -> S -> S -> S) (x y z : vec) : vec :=
  match x, y, z with
  | a :: x', b :: y', c :: z' => f a b c :: upd3 f x' y' z'
  | [], _, _ => z
  | _, _, _ => []
  end.

Fixpoint sumn (f : nat -> S) (n : nat) : S :=
  match n with O => s0 | Datatypes.S k => sumn f k + f k end.

(* sum of a list, left to right from zero *)
Definition vsum (v : vec) : S := fold_left sadd v s0.

Definition vzero (n : nat) : vec := repeat s0 n.

Lemma upd2_length f x y : length x = length y -> length (upd2 f x y) = length y.
Proof.
  revert y; induction x as [|a x IH]; intros [|b y] H; simpl in *; try congruence.
  f_equal. apply IH. congruence.
Qed.

Lemma upd2_get f x y i : length x = length y -> i < length x ->
  vget (upd2 f x y) i = f (vget x i) (vget y i).
Proof.
  unfold vget. revert y i; induction x as [|a x IH]; intros [|b y] i H Hi; simpl in *; try lia.
  destruct i as [|i]; [reflexivity|]. apply IH; lia.
Qed.

Lemma upd3_length f x y z : length x = length z -> length y = length z ->
  length (upd3 f x y z) = length z.
Proof.
  revert y z; induction x as [|a x IH]; intros [|b y] [|c z] H1 H2; simpl in *; try congruence.
  f_equal. apply IH; congruence.
Qed.

Lemma upd3_get f x y z i : length x = length z -> length y = length z -> i < length x ->
  vget (upd3 f x y z) i = f (vget x i) (vget y i) (vget z i).
Proof.
  unfold vget. revert y z i; induction x as [|a x IH]; intros [|b y] [|c z] i H1 H2 Hi;
    simpl in *; try lia.
  destruct i as [|i]; [reflexivity|]. apply IH; lia.
Qed.

(* An update whose function ignores the old content does not depend on it. *)
Lemma upd2_ignore g x y y' : length y = length y' ->
  length x = length y ->
  upd2 (fun a _ => g a) x y = upd2 (fun a _ => g a) x y'.
Proof.
  revert y y'; induction x as [|a x IH]; intros [|b y] [|b' y'] H1 H2; simpl in *; try congruence.
  f_equal. apply IH; congruence.
Qed.

Lemma upd3_ignore g x y z z' : length z = length z' -> length x = length z -> length y = length z ->
  upd3 (fun a b _ => g a b) x y z = upd3 (fun a b _ => g a b) x y z'.
Proof.
  revert y z z'; induction x as [|a x IH]; intros [|b y] [|c z] [|c' z'] H1 H2 H3;
    simpl in *; try congruence.
  f_equal. apply IH; congruence.
Qed.

Lemma sumn_ext f g n : (forall i, i < n -> f i = g i) -> sumn f n = sumn g n.
Proof.
  induction n as [|n IH]; intro H; simpl; [reflexivity|].
  rewrite IH, H by (intros; try apply H; lia). reflexivity.
Qed.

End Vec.
Arguments vec : clear implicits.
