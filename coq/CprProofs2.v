(* CprProofs2.v -- C18-A3 (weights): on rows strictly sorted by column the weights of block row ip
   computed by first_scalar_pass are  invert(D^T)  with D the dense diagonal block
   D[i][j] = K[ip*B+i][ip*B+j]  (commutative ring; the block must be structurally present). *)
From Coq Require Import ZifyBool.
From Amgcl Require Import Scalar Vec Crs Kernels KernelsProofs MatOps MatOpsProofs Adapters AdaptersProofs BlockProofs
  Composite Cpr CprProofs.
From Amgcl Require Import DirectUtil.

Section Ring.
Context {S : Scalar}.
Local Notation row := (row S).
Local Notation vec := (vec S).
Hypothesis Srt : Sring S.
Add Ring SRingCpr2 : Srt.

(* ---- the gather loop of the (transposed) diagonal block ---- *)
Definition row_writes (B i : nat) (t : row) (v : vec) : vec :=
  fold_left (fun v e => lset v ((fst e mod B) * B + i) (snd e)) t v.

Lemma row_writes_spec B i (t : row) : 0 < B -> i < B -> forall (v : vec), length v = B * B ->
  length (row_writes B i t v) = B * B /\
  forall r i', r < B -> i' < B ->
    vget (row_writes B i t v) (r * B + i') =
    if Nat.eqb i' i then fold_left (fun acc e => if Nat.eqb (fst e mod B) r then snd e else acc) t (vget v (r * B + i))
    else vget v (r * B + i').
Proof.
  intros HB Hi. induction t as [|e t IH]; intros v Hv.
  - split; [exact Hv|]. intros r i' Hr Hi'. simpl. destruct (Nat.eqb_spec i' i) as [->|]; reflexivity.
  - unfold row_writes. simpl. fold (row_writes B i t (lset v (fst e mod B * B + i) (snd e))).
    assert (Hq : fst e mod B < B) by (apply Nat.mod_upper_bound; lia).
    assert (Hpos : fst e mod B * B + i < B * B) by nia.
    destruct (IH (lset v (fst e mod B * B + i) (snd e))) as [L G]; [rewrite lset_length; exact Hv|].
    split; [exact L|]. intros r i' Hr Hi'. rewrite (G r i' Hr Hi').
    unfold vget. rewrite !lset_nth. rewrite Hv.
    replace (Nat.ltb (fst e mod B * B + i) (B * B)) with true by (symmetry; apply Nat.ltb_lt; exact Hpos).
    destruct (Nat.eqb_spec i' i) as [->|Hne].
    + destruct (Nat.eqb_spec (fst e mod B * B + i) (r * B + i)) as [E|E];
        destruct (Nat.eqb_spec (fst e mod B) r) as [E'|E']; try reflexivity.
      * exfalso. apply E'. destruct (blk_index_inj B (fst e mod B) r i i Hi Hi E). assumption.
      * exfalso. apply E. rewrite E'. reflexivity.
    + destruct (Nat.eqb_spec (fst e mod B * B + i) (r * B + i')) as [E|E]; [|reflexivity].
      exfalso. apply Hne. destruct (blk_index_inj B (fst e mod B) r i i' Hi Hi' E). congruence.
Qed.

Lemma diag_block_gen B : 0 < B -> forall (takens : list row) (v0 : vec), length takens <= B -> length v0 = B * B ->
  let v := fold_left (fun v (it : nat * row) => row_writes B (fst it) (snd it) v) (indexed takens) v0 in
  length v = B * B /\
  forall r i, r < B -> i < B ->
    vget v (r * B + i) =
    if Nat.ltb i (length takens)
    then fold_left (fun acc e => if Nat.eqb (fst e mod B) r then snd e else acc) (nth i takens []) (vget v0 (r * B + i))
    else vget v0 (r * B + i).
Proof.
  intros HB takens. induction takens as [|t takens IH] using rev_ind; intros v0 Hl Hv0.
  - simpl. split; [exact Hv0|]. intros; reflexivity.
  - rewrite app_length in Hl. simpl in Hl.
    cbv zeta. rewrite indexed_snoc, fold_left_app. simpl fold_left.
    destruct (IH v0 ltac:(lia) Hv0) as [L G]. cbv zeta in L, G.
    set (v1 := fold_left (fun v (it : nat * row) => row_writes B (fst it) (snd it) v) (indexed takens) v0) in *.
    destruct (row_writes_spec B (length takens) t HB ltac:(lia) v1 L) as [L2 G2].
    split; [exact L2|]. intros r i Hr Hi. rewrite (G2 r i Hr Hi). rewrite app_length. simpl.
    destruct (Nat.eqb_spec i (length takens)) as [->|Hne].
    + replace (Nat.ltb (length takens) (length takens + 1)) with true by (symmetry; apply Nat.ltb_lt; lia).
      rewrite app_nth2 by lia. rewrite Nat.sub_diag. simpl nth.
      rewrite (G r (length takens) Hr ltac:(lia)). rewrite Nat.ltb_irrefl. reflexivity.
    + rewrite (G r i Hr Hi).
      destruct (Nat.ltb_spec i (length takens)) as [H1|H1].
      * replace (Nat.ltb i (length takens + 1)) with true by (symmetry; apply Nat.ltb_lt; lia).
        rewrite app_nth1 by exact H1. reflexivity.
      * replace (Nat.ltb i (length takens + 1)) with false by (symmetry; apply Nat.ltb_ge; lia). reflexivity.
Qed.

Lemma vget_repeat0 n i : vget (repeat (@s0 S) n) i = s0.
Proof. unfold vget. revert i; induction n as [|n IH]; intros [|i]; simpl; auto. Qed.

Lemma cpr_diag_block_spec B (takens : list row) : 0 < B -> length takens = B ->
  length (cpr_diag_block B takens) = B * B /\
  forall r i, r < B -> i < B -> vget (cpr_diag_block B takens) (r * B + i) = blk_entry B (nth i takens []) r.
Proof.
  intros HB Hl.
  destruct (diag_block_gen B HB takens (repeat s0 (B * B)) ltac:(lia) (repeat_length _ _)) as [L G].
  cbv zeta in L, G. split; [unfold row_writes in L; exact L|]. intros r i Hr Hi.
  unfold cpr_diag_block. unfold row_writes in G.
  refine (eq_trans (G r i Hr Hi) _). rewrite Hl. replace (Nat.ltb i B) with true by (symmetry; apply Nat.ltb_lt; exact Hi).
  rewrite vget_repeat0. reflexivity.
Qed.

(* the dense (transposed) diagonal block of a block row *)
Definition dense_diagT (B ip : nat) (rs : list row) : vec :=
  tabulate (B * B) (fun idx => rget (nth (idx mod B) rs []) (ip * B + idx / B)).

Lemma idx_split B r i : 0 < B -> i < B -> (r * B + i) mod B = i /\ (r * B + i) / B = r.
Proof.
  intros HB Hi. split.
  - rewrite Nat.add_comm, Nat.mod_add by lia. apply Nat.mod_small. exact Hi.
  - rewrite Nat.add_comm, Nat.div_add by lia. rewrite Nat.div_small by exact Hi. reflexivity.
Qed.

Lemma vec_ext_BB B (a b : vec) : 0 < B -> length a = B * B -> length b = B * B ->
  (forall r i, r < B -> i < B -> vget a (r * B + i) = vget b (r * B + i)) -> a = b.
Proof.
  intros HB La Lb H. apply (list_ext a b s0); [congruence|].
  intros k Hk. rewrite La in Hk.
  assert (E : k = (k / B) * B + k mod B) by (pose proof (Nat.div_mod k B ltac:(lia)); lia).
  rewrite E. apply H; [apply Nat.div_lt_upper_bound; lia|apply Nat.mod_upper_bound; lia].
Qed.

Lemma dense_diagT_get B ip (rs : list row) r i : 0 < B -> r < B -> i < B ->
  vget (dense_diagT B ip rs) (r * B + i) = rget (nth i rs []) (ip * B + r).
Proof.
  intros HB Hr Hi. unfold dense_diagT, vget. rewrite tabulate_nth by nia.
  destruct (idx_split B r i HB Hi) as [-> ->]. reflexivity.
Qed.

(* the step that meets the diagonal block gathers exactly the dense block *)
Lemma diag_block_dense B ip (rs : list row) : 0 < B -> length rs = B ->
  Forall (fun r => sorted_strict r = true) rs ->
  Forall (fun r => Forall (fun x : nat * S => ip * B <= fst x < (ip + 1) * B) (fst (span_lt ((ip + 1) * B) r))) rs ->
  cpr_diag_block B (map fst (map (span_lt ((ip + 1) * B)) rs)) = dense_diagT B ip rs.
Proof.
  intros HB Hl Hs Ftk.
  destruct (cpr_diag_block_spec B (map fst (map (span_lt ((ip + 1) * B)) rs)) HB) as [L G]; [rewrite !map_length; exact Hl|].
  apply (vec_ext_BB B); [exact HB|exact L|unfold dense_diagT; apply tabulate_length|].
  intros r i Hr Hi. rewrite (G r i Hr Hi), dense_diagT_get by assumption.
  rewrite nth_map_fst_span. set (rw := nth i rs []).
  assert (Hin : In rw rs) by (apply nth_In; lia).
  rewrite Forall_forall in Hs, Ftk. specialize (Hs rw Hin). specialize (Ftk rw Hin).
  destruct (span_lt_sorted ((ip + 1) * B) rw Hs) as (St & _ & Fr).
  rewrite (blk_entry_rget Srt B ip _ r HB Hr St Ftk).
  rewrite (span_lt_app ((ip + 1) * B) rw) at 2. rewrite (rget_app Srt).
  assert (Z : rget (snd (span_lt ((ip + 1) * B) rw)) (ip * B + r) = s0).
  { apply (rget_notin Srt). eapply Forall_impl; [|exact Fr]. simpl. intros x Hx. nia. }
  rewrite Z. ring.
Qed.


Definition in_block (B ip : nat) (x : nat * S) : Prop := ip * B <= fst x < (ip + 1) * B.
Definition has_block (B ip : nat) (rs : list row) : Prop := Exists (fun r => Exists (in_block B ip) r) rs.

Lemma strict_all_weak (rs : list row) : Forall (fun r => sorted_strict r = true) rs -> Forall (fun r => sorted_weak r = true) rs.
Proof. intro H. eapply Forall_impl; [|exact H]. intros r. apply sorted_strict_weak. Qed.

Lemma strict_step e (rs : list row) : Forall (fun r => sorted_strict r = true) rs ->
  Forall (fun r => sorted_strict r = true) (map snd (map (span_lt e) rs)).
Proof.
  intro Hs. rewrite map_map. apply Forall_forall. intros r Hr. apply in_map_iff in Hr as [r0 [<- Hr0]].
  rewrite Forall_forall in Hs. apply (span_lt_sorted e r0 (Hs _ Hr0)).
Qed.

Lemma has_block_step B ip e (rs : list row) : e <= ip * B -> has_block B ip rs ->
  has_block B ip (map snd (map (span_lt e) rs)).
Proof.
  intros He H. unfold has_block in *. apply Exists_exists in H as [r [Hr Hx]].
  apply Exists_exists in Hx as [x [Hx Hb]].
  apply Exists_exists. exists (snd (span_lt e r)). split; [rewrite map_map; apply in_map_iff; exists r; split; [reflexivity|exact Hr]|].
  apply Exists_exists. exists x. split; [|exact Hb].
  rewrite (span_lt_app e r) in Hx. apply in_app_or in Hx as [Hx|Hx]; [|exact Hx].
  pose proof (span_lt_taken e r) as Ft. rewrite Forall_forall in Ft. specialize (Ft x Hx). unfold in_block in Hb. lia.
Qed.

Lemma dense_diagT_step B ip c (rs : list row) : 0 < B -> c <> ip ->
  Forall (fun r => Forall (fun x : nat * S => c * B <= fst x < (c + 1) * B) (fst (span_lt ((c + 1) * B) r))) rs ->
  dense_diagT B ip (map snd (map (span_lt ((c + 1) * B)) rs)) = dense_diagT B ip rs.
Proof.
  intros HB Hne Ftk. unfold dense_diagT. apply tabulate_ext. intros idx Hidx.
  rewrite nth_map_snd_span. set (i := idx mod B). set (r := (idx / B)%nat).
  assert (Hr : r < B) by (apply Nat.div_lt_upper_bound; lia).
  destruct (Nat.lt_ge_cases i (length rs)) as [Hi|Hi].
  - set (rw := nth i rs []). assert (Hin : In rw rs) by (apply nth_In; exact Hi).
    rewrite Forall_forall in Ftk. specialize (Ftk rw Hin).
    rewrite (span_lt_app ((c + 1) * B) rw) at 2. rewrite (rget_app Srt).
    assert (Z : rget (fst (span_lt ((c + 1) * B) rw)) (ip * B + r) = s0).
    { apply (rget_notin Srt). eapply Forall_impl; [|exact Ftk]. simpl. intros x Hx Ex. apply Hne.
      apply (blk_in_range B c ip r Hr). lia. }
    rewrite Z. ring.
  - rewrite (nth_overflow rs) by exact Hi. reflexivity.
Qed.

(* the weights computed by the first traversal *)
Lemma cpr_pass1_spec B np ip : 0 < B -> ip < np -> forall fuel (rs : list row) (d : vec),
  length rs = B -> Forall (fun r => sorted_strict r = true) rs -> total_len rs <= fuel ->
  forall lo, lo <= ip -> rows_ge (lo * B) rs -> has_block B ip rs ->
  cpr_pass1 fuel B (np * B) ip true rs d = cpr_invert B (dense_diagT B ip rs) d.
Proof.
  intros HB Hip. induction fuel as [|k IH]; intros rs d Hl Hs Hlen lo Hlo Hge Hblk.
  - exfalso. unfold has_block in Hblk. apply Exists_exists in Hblk as [r [Hr Hx]].
    apply Exists_exists in Hx as [x [Hx _]].
    destruct (In_nth rs r [] Hr) as [i [Hi E]]. rewrite (total_len_zero rs i) in E by lia. subst r. contradiction.
  - simpl.
    (* the row that has an entry in block column ip is active and its head lies at or before it *)
    assert (Hact : exists r h tl, In r rs /\ r = h :: tl /\ fst h < (ip + 1) * B).
    { unfold has_block in Hblk. apply Exists_exists in Hblk as [r [Hr Hx]].
      apply Exists_exists in Hx as [x [Hx Hb]]. unfold in_block in Hb.
      destruct r as [|h tl]; [contradiction|]. exists (h :: tl), h, tl. split; [exact Hr|]. split; [reflexivity|].
      rewrite Forall_forall in Hs. specialize (Hs _ Hr). destruct (sorted_strict_cons h tl Hs) as [F _].
      destruct Hx as [->|Hx]; [lia|]. rewrite Forall_forall in F. specialize (F x Hx). lia. }
    destruct Hact as (r & h & tl & Hr & Er & Hh).
    assert (HhN : fst h < np * B) by nia.
    destruct (cpr_heads_min B (np * B) rs) as [c|] eqn:Hm.
    + pose proof (cpr_heads_min_ge B (np * B) rs c lo HB Hm Hge) as Hc1.
      assert (Hc2 : c <= ip).
      { destruct (cpr_heads_min_some B (np * B) rs c Hm) as [F _]. rewrite Forall_forall in F. specialize (F r Hr).
        subst r. simpl in F. replace (Nat.ltb (fst h) (np * B)) with true in F by (symmetry; apply Nat.ltb_lt; exact HhN).
        assert (fst h / B <= ip) by (apply Nat.lt_succ_r; apply Nat.div_lt_upper_bound; lia). lia. }
      pose proof (strict_all_weak rs Hs) as Hw.
      destruct (taken_in_block B np rs c HB Hw Hm) as [_ Ftk].
      destruct (rows_ge_step ((c + 1) * B) rs Hw) as [Hw' Hge'].
      destruct (Nat.eqb_spec c ip) as [->|Hne].
      * rewrite (diag_block_dense B ip rs HB Hl Hs Ftk).
        apply cpr_pass1_done; assumption.
      * pose proof (total_len_step B (np * B) rs c HB Hm) as L.
        assert (E : cpr_pass1 k B (np * B) ip true (map snd (map (span_lt ((c + 1) * B)) rs)) d
                    = cpr_invert B (dense_diagT B ip (map snd (map (span_lt ((c + 1) * B)) rs))) d).
        { apply (IH _ d) with (lo := (c + 1)%nat).
          - rewrite !map_length. exact Hl.
          - apply strict_step. exact Hs.
          - lia.
          - lia.
          - exact Hge'.
          - apply has_block_step; [nia|exact Hblk]. }
        rewrite E. rewrite (dense_diagT_step B ip c rs HB Hne Ftk). reflexivity.
    + exfalso. pose proof (cpr_heads_min_none B (np * B) rs Hm) as Fn. rewrite Forall_forall in Fn.
      specialize (Fn r Hr). subst r. simpl in Fn.
      replace (Nat.ltb (fst h) (np * B)) with true in Fn by (symmetry; apply Nat.ltb_lt; exact HhN). discriminate.
Qed.

(* A3 (weights): d_ip = invert(D^T), D the dense diagonal block of block row ip *)
Theorem cpr_weights_spec B np (K : crs S) (junk : vec) ip : 0 < B -> ip < np ->
  Forall (fun r => sorted_strict r = true) (rows K) ->
  (exists i, i < B /\ Exists (in_block B ip) (nth (ip * B + i) (rows K) [])) ->
  cpr_weights B (np * B) K true junk ip
  = cpr_invert B (tabulate (B * B) (fun idx => mget K (ip * B + idx mod B) (ip * B + idx / B)))
                 (firstn B (skipn (ip * B) junk)).
Proof.
  intros HB Hip Hs [i [Hi Hx]]. unfold cpr_weights.
  rewrite (cpr_pass1_spec B np ip HB Hip _ (cpr_block_rows B K ip) _ (block_rows_length B K ip)) with (lo := 0%nat).
  - f_equal. unfold dense_diagT. apply tabulate_ext. intros idx Hidx.
    rewrite block_rows_nth by (apply Nat.mod_upper_bound; lia). reflexivity.
  - unfold cpr_block_rows. apply Forall_forall. intros r Hr. apply in_map_iff in Hr as [j [<- _]].
    destruct (Nat.lt_ge_cases (ip * B + j) (length (rows K))) as [Hlt|Hge].
    + rewrite Forall_forall in Hs. apply Hs. apply nth_In. exact Hlt.
    + rewrite nth_overflow by exact Hge. reflexivity.
  - lia.
  - lia.
  - unfold rows_ge. apply Forall_forall. intros r _. apply Forall_forall. intros x _. lia.
  - unfold has_block. apply Exists_exists. exists (nth (ip * B + i) (rows K) []). split; [|exact Hx].
    rewrite <- (block_rows_nth B K ip i Hi). apply nth_In. rewrite block_rows_length. exact Hi.
Qed.

End Ring.
