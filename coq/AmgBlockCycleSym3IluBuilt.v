(* AmgBlockCycleSym3IluBuilt.v -- C02, part A3 for the ILU(0) smoother.
   Commuting values (field, trivial conjugation): for every symmetric matrix with strictly sorted rows, a stored diagonal,
   a symmetric sparsity pattern and no zero pivot (ilu0_level_ok) the ILU(0) sweep is consistent and self-adjoint
   (factor relation L_ij = D_j U_ji: AmgBlockCycleSym3IluFactors.v; hermitian triangular solve: AmgBlockCycleSym3Ilu.v),
   hence hierarchies of amg_init smoothed by ilu0 give a symmetric preconditioner (built_apply_sym_ilu0): no hypothesis
   about the smoother is left.  Block values: the same with the factor relation CHECKED on the computed factors of every
   level (ilu0_level_hermb), block_apply_herm_ilu0. *)
From Coq Require Import ZifyBool.
From Amgcl Require Import Scalar Vec Crs Kernels KernelsProofs MatOps MatOpsProofs Relax DenseSolve
  Amg AmgExec AmgProofs AmgProofs2 AmgProofs3 AmgProofs4 AmgProofs6 AmgProofs7 AmgProofs9 NcRing NcKernels AmgBlockNc Ilu IluProofs
  AmgBlockCycle AmgBlockCycleProofs AmgBlockCycleSym AmgBlockCycleSym2 AmgBlockCycleSym2Gs AmgBlockCycleSym2Built
  AmgBlockCycleSym2Ilu AmgCycleSymCheb AmgCycleSymChebBuilt AmgBlockCycleSym3Ilu AmgBlockCycleSym3IluFactors
  DirectUtil Inverse StaticMat StaticMatProofs BlockInst BlockKernels NcRingBlock BlockMatOpsProofs.
Local Open Scope S_scope.

Section IluComm.
Context {S : Scalar}.
Local Notation vec := (vec S).
Local Notation crs := (crs S).
Local Notation sweep := (@sweep S).
Hypothesis Sft : Sfield S.
Hypothesis Seqb : seqb_spec S.
Hypothesis sadj_id : forall a : S, sadj a = a.
Add Field SFieldIB : Sft.
Let Srt : Sring S := F_R Sft.
Let Hnc : ncring_theory S := ncring_of_ring S Srt.

(* what ilu0 needs from a level matrix besides symmetry: strictly sorted rows (no duplicate columns), a stored diagonal,
   a symmetric sparsity pattern, and no zero pivot (the constructor succeeds) *)
Definition ilu0_level_ok (A : crs) : Prop :=
  (forall i, i < nrows A -> sorted_strict (nth i (rows A) []) = true) /\ has_diag A = true /\
  (forall i j, i < nrows A -> j < nrows A -> has_col j (nth i (rows A) []) = has_col i (nth j (rows A) [])) /\
  exists L U D, ilu0 A (vzero (nrows A)) = Ok (L, U, D).

Theorem ilu0_sweeps_sym (w : S) (A : crs) : wf A = true -> sym_mat (nrows A) A -> ilu0_level_ok A ->
  sweep_cons (nrows A) A (fst (mk_relax5 (R5Ilu0 w) A)) /\ sweep_cons (nrows A) A (snd (mk_relax5 (R5Ilu0 w) A)) /\
  sweep_adj (nrows A) (fst (mk_relax5 (R5Ilu0 w) A)) (snd (mk_relax5 (R5Ilu0 w) A)).
Proof.
  intros WA [Sq Sy] (So & Dg & Sp & L & U & D & E).
  pose proof (ilu0_factors_sym Sft Seqb A (vzero (nrows A)) L U D WA Sq So Dg E Sy Sp) as R.
  destruct (ilu0_structure A _ L U D E) as (NL & _).
  assert (G : good5 (R5Ilu0 w) A).
  { apply (ilu0_good5_factors Hnc Seqb (c_adj_add sadj_id) (c_adj_mul Srt sadj_id) (c_adj_inv sadj_id) w A L U D WA Sq E (sadj_id w)).
    - intro c. ring.
    - split.
      + intros i j Hi Hj. rewrite sadj_id. apply R; congruence.
      + intros j _. apply sadj_id. }
  cbn [good5] in G. destruct G as (C1 & C2 & C3).
  split; [exact C1|]. split; [exact C2|].
  intros f g Lf Lg. rewrite <- !(ipH_ip sadj_id). exact (C3 f g Lf Lg).
Qed.

Theorem built_apply_sym_ilu0 (w : S) ce dc ml sc ts (M : crs) k nc pc :
  wf M = true -> sym_mat (nrows M) M -> ts_sym (nrows M) ts ->
  (forall A, In (LSolve A) (amg_init ce dc ml (coarse_op_of sc) ts M) -> solvable A = true /\ sym_mat (nrows A) A) ->
  (forall l, In l (amg_init ce dc ml (coarse_op_of sc) ts M) -> ilu0_level_ok (ld_A l)) ->
  let lvls := map (instantiate (mk_relax5 (R5Ilu0 w)) mk_solve_exact) (amg_init ce dc ml (coarse_op_of sc) ts M) in
  (pc = 0 \/ nosolve_top lvls) ->
  forall scr1 scr2 f g x1 x2,
  scratch_wf lvls scr1 -> scratch_wf lvls scr2 ->
  length f = nrows M -> length g = nrows M -> length x1 = nrows M -> length x2 = nrows M ->
  dot (fst (apply k k nc (Datatypes.S pc) lvls scr1 f x1)) g =
  dot f (fst (apply k k nc (Datatypes.S pc) lvls scr2 g x2)).
Proof.
  intros WM SM Hts Hsol Hgood.
  apply (built_apply_sym_gen Srt Seqb sadj_id (mk_relax5 (R5Ilu0 w)) (mk_relax5_ok _) ilu0_level_ok
           (ilu0_sweeps_sym w) ce dc ml sc ts M k nc pc WM SM Hts); [|exact Hgood].
  apply (exact_solve_hyp Sft Seqb), Hsol.
Qed.

(* boolean form of the level condition *)
Definition sym_patternb (A : crs) : bool :=
  forallb (fun i => forallb (fun j => Bool.eqb (has_col j (nth i (rows A) [])) (has_col i (nth j (rows A) [])))
                            (seq 0 (nrows A))) (seq 0 (nrows A)).
Definition ilu0_level_okb (A : crs) : bool :=
  forallb (fun i => sorted_strict (nth i (rows A) [])) (seq 0 (nrows A)) && has_diag A && sym_patternb A &&
  match ilu0 A (vzero (nrows A)) with Ok _ => true | Err _ => false end.
Lemma ilu0_level_okb_ok (A : crs) : ilu0_level_okb A = true -> ilu0_level_ok A.
Proof.
  unfold ilu0_level_okb. intro H.
  apply andb_prop in H as [H H4]. apply andb_prop in H as [H H3]. apply andb_prop in H as [H1 H2].
  rewrite forallb_forall in H1. unfold sym_patternb in H3. rewrite forallb_forall in H3.
  split; [intros i Hi; apply H1, in_seq; lia|]. split; [exact H2|]. split.
  - intros i j Hi Hj. assert (Hi' : In i (seq 0 (nrows A))) by (apply in_seq; lia).
    specialize (H3 i Hi'). rewrite forallb_forall in H3. apply Bool.eqb_prop, H3, in_seq. lia.
  - destruct (ilu0 A (vzero (nrows A))) as [[[L U] D]|e]; [|discriminate]. exists L, U, D. reflexivity.
Qed.
Lemma levels_ilu0_okb_ok (ls : list (@ldesc S)) :
  forallb (fun l => ilu0_level_okb (ld_A l)) ls = true -> forall l, In l ls -> ilu0_level_ok (ld_A l).
Proof. intros H l Hl. rewrite forallb_forall in H. apply ilu0_level_okb_ok, (H l Hl). Qed.

End IluComm.

(* ================================================================== *)
(* block values: ILU(0) on every level, smoother on the coarsest level; the side condition is the entrywise factor
   relation, checked on the computed factors of every level (for commuting values it is a theorem, above) *)
Section IluBlocks.
Variable S0 : Scalar.
Variable b : nat.
Hypothesis Srt : Sring S0.
Hypothesis Seqb0 : seqb_spec S0.
Hypothesis Hb : 0 < b.
Hypothesis sadj_add0 : forall x y : S0, sadj (x + y) = sadj x + sadj y.
Hypothesis sadj_mul0 : forall x y : S0, sadj (x * y) = sadj x * sadj y.
Hypothesis sadj_invol0 : forall x : S0, sadj (sadj x) = x.
Local Notation B := (BlockS S0 b).
Let HncB : ncring_theory B := BlockS_ncring S0 b Srt.
Let SeqbB : seqb_spec B := BlockS_eqb S0 b Seqb0.
Let addB := BlockS_adj_add S0 b sadj_add0.
Let mulB := BlockS_adj_mul S0 b Srt sadj_add0 sadj_mul0.
Let invB := BlockS_adj_invol S0 b sadj_invol0.

Definition ilu0_level_hermb (A : Crs.crs B) : bool :=
  wf A && Nat.eqb (ncols A) (nrows A) &&
  match ilu0 A (vzero (nrows A)) with Ok (L, U, D) => factors_hermb L U D | Err _ => false end.

Lemma ilu0_level_hermb_good5 (w : B) (A : Crs.crs B) : sadj w = w -> (forall c : B, w * c = c * w) ->
  ilu0_level_hermb A = true -> good5 (R5Ilu0 w) A.
Proof.
  intros Hw Hc H. unfold ilu0_level_hermb in H.
  apply andb_prop in H as [H H3]. apply andb_prop in H as [H1 H2]. apply Nat.eqb_eq in H2.
  destruct (ilu0 A (vzero (nrows A))) as [[[L U] D]|e] eqn:E; [|discriminate].
  apply (ilu0_good5_factors (S := B) HncB SeqbB addB mulB invB w A L U D H1 H2 E Hw Hc).
  apply (factors_hermb_ok (S := B) SeqbB), H3.
Qed.

Theorem block_apply_herm_ilu0 (w : B) ce ml (sc : option B) ts (M : Crs.crs B) k nc pc :
  sadj w = w -> (forall c : B, w * c = c * w) ->
  scale_herm sc -> wf M = true -> herm_mat (nrows M) M -> ts_herm (nrows M) ts ->
  (forall l, In l (amg_init ce false ml (coarse_op_of sc) ts M) -> ilu0_level_hermb (ld_A l) = true) ->
  let lvls := block_levels S0 b (R5Ilu0 w) (amg_init ce false ml (coarse_op_of sc) ts M) in
  forall scr1 scr2 f g x1 x2,
  scratch_wf lvls scr1 -> scratch_wf lvls scr2 ->
  length f = nrows M -> length g = nrows M -> length x1 = nrows M -> length x2 = nrows M ->
  ipH (S := B) (nrows M) (fst (apply k k nc (Datatypes.S pc) lvls scr1 f x1)) g =
  ipH (S := B) (nrows M) f (fst (apply k k nc (Datatypes.S pc) lvls scr2 g x2)).
Proof.
  intros Hw Hc Hsc WM SM Hts Hlev.
  apply (block_apply_herm_full_smoother_coarse S0 b Srt Seqb0 Hb sadj_add0 sadj_mul0 sadj_invol0 (R5Ilu0 w)
           ce ml sc ts M k nc pc Hsc WM SM Hts).
  intros l Hl. apply (ilu0_level_hermb_good5 w _ Hw Hc), Hlev, Hl.
Qed.

End IluBlocks.
