(* DistSa.v -- C12: the transfer operators of the DISTRIBUTED smoothed aggregation
   (amgcl/mpi/coarsening/smoothed_aggregation.hpp:100-190) as the code computes them, rank by rank.
   Definitions only; proofs: DistSaProofs.v.

   smoothed_aggregation.hpp / pmis.hpp                         here
   --------------------------------------------------------    -------------------------------------------
   pmis::conn_strength 350-359  D = diagonal(A_loc),            rank_dia, dist_dia, ghost values through
                                D_rem by C.exchange                Dist.exchange (index = C.local_index)
   pmis::conn_strength 373-392  S_loc.val / S_rem.val           loc_strong / rem_strong
   104  pmis<Backend> aggr(A, prm.aggr)                          Pmis.pmis on the strength pattern (Pmis.v)
   105  prm.aggr.eps_strong *= 0.5                               dsa_eps (level l: eps * half^l), dsa_eps2
   117-122  omega                                                dsa_omega / dsa_omega_rho (rho = the
                                                                   distributed Gershgorin estimate, Dist.v)
   151-179  filtered matrix Af = I - omega Df^-1 A_f:            sa_dia_f (local part: diagonal + weak entries,
            weak entries of the LOCAL and of the REMOTE           then the weak entries of the remote part),
            part are lumped into the diagonal,                    sa_loc_row / sa_rem_row (scalar on the LEFT:
            dia_f = -omega * inverse(dia_f),                      dia_f * A.val[j]), rank_sa_filtered,
            strong entries dia_f * A.val[j], diagonal             dist_sa_filtered
            (1 - omega) * identity
   pmis::tentative_prolongation 974-1007 (no near-null space)   dist_ptent (own aggregate: local column id;
                                                                   aggregate of rank d: global column id + dom[d])
   186  P = product(Af, P_tent)                                  Dist.dist_product
   189  R = transpose(P)                                         Dist.dist_transpose

   Unlike the serial code (coarsening/smoothed_aggregation.hpp: `if (!math::is_zero(dia)) dia = -omega * inverse(dia)`)
   the distributed code inverts the filtered diagonal WITHOUT a zero guard; the model follows the distributed code.
   The scalar parameters (eps_strong, relax) are scalar_type in the C++; here they are elements of S (for block
   values: the embedded scalar c*I, as the C++ operators scalar * static_matrix act). *)
From Amgcl Require Import Scalar Vec Crs Kernels MatOps Dist Pmis.
Local Open Scope S_scope.

Section DistSa.
Context {S : Scalar}.
Local Notation vec := (vec S).
Local Notation row := (row S).
Local Notation crs := (crs S).
Local Notation rank_mat := (rank_mat S).
Local Notation dmat := (dmat S).

(* ---------------------------------------------------------------- strength of connection, rank by rank *)
(* backend::diagonal(A_loc): first entry of local row i in local column i; rows without one keep the
   uninitialised value [junk] (as Pmis.dia_of) *)
Definition rank_dia (junk : S) (M : rank_mat) : vec :=
  map (fun ir => match first_col (snd ir) (fst ir) with Some v => v | None => junk end)
      (indexed (rows (rm_loc M))).
Definition dist_dia (junk : S) (D : dmat) : list vec := map (rank_dia junk) (dm_ranks D).

(* S_loc.val[j] = (c == i || (eps_dia_i * D[c] < v * v)),  eps_dia_i = eps_squared * D[i] *)
Definition loc_strong (eps2 : S) (Dl : vec) (i : nat) (e : nat * S) : bool :=
  Nat.eqb (fst e) i || sltb ((eps2 * vget Dl i) * vget Dl (fst e)) (snd e * snd e).
(* S_rem.val[j] = (eps_dia_i * D_rem[C.local_index(col)] < v * v) *)
Definition rem_strong (eps2 : S) (Dl Dg : vec) (rc : list nat) (i : nat) (e : nat * S) : bool :=
  sltb ((eps2 * vget Dl i) * vget Dg (index_of (fst e) rc)) (snd e * snd e).

(* ---------------------------------------------------------------- filtered matrix of one rank *)
(* rows with their strength flags *)
Definition flag_row (str : nat * S -> bool) (r : row) : list (nat * S * bool) := map (fun e => (e, str e)) r.

(* lines 156-162: dia_f = sum over the local row of (col == i || !strong), then over the remote row of (!strong) *)
Definition sa_dia_f (i : nat) (zl zr : list (nat * S * bool)) : S :=
  fold_left (fun d e => if negb (snd e) then d + snd (fst e) else d) zr
    (fold_left (fun d e => if Nat.eqb (fst (fst e)) i || negb (snd e) then d + snd (fst e) else d) zl s0).
(* line 164: dia_f = -omega * math::inverse(dia_f)   (no zero guard) *)
Definition sa_scale_f (omega dia : S) : S := (- omega) * sinv dia.
(* lines 166-172 *)
Definition sa_loc_row (omega d : S) (i : nat) (zl : list (nat * S * bool)) : row :=
  flat_map (fun e => if Nat.eqb (fst (fst e)) i then [(fst (fst e), (s1 - omega) * s1)]
                     else if (snd e : bool) then [(fst (fst e), d * snd (fst e))] else []) zl.
(* lines 174-178 *)
Definition sa_rem_row (d : S) (zr : list (nat * S * bool)) : row :=
  flat_map (fun e => if (snd e : bool) then [(fst (fst e), d * snd (fst e))] else []) zr.

Definition rank_sa_rows (eps2 omega : S) (M : rank_mat) (Dl Dg : vec) (rc : list nat) : list (row * row) :=
  map (fun irr =>
         let i := fst irr in
         let zl := flag_row (loc_strong eps2 Dl i) (fst (snd irr)) in
         let zr := flag_row (rem_strong eps2 Dl Dg rc i) (snd (snd irr)) in
         let d := sa_scale_f omega (sa_dia_f i zl zr) in
         (sa_loc_row omega d i zl, sa_rem_row d zr))
      (indexed (combine (rows (rm_loc M)) (rows (rm_rem M)))).
Definition rank_sa_filtered (eps2 omega : S) (M : rank_mat) (Dl Dg : vec) (rc : list nat) : rank_mat :=
  let rws := rank_sa_rows eps2 omega M Dl Dg rc in
  mkRankMat (mkCrs (ncols (rm_loc M)) (map fst rws)) (mkCrs (ncols (rm_rem M)) (map snd rws)).

(* the strength pattern the rank holds (aggr.conn): strong entries, local then remote, global columns *)
Definition rank_conn_rows (eps2 : S) (b : nat) (M : rank_mat) (Dl Dg : vec) (rc : list nat) : list (list nat) :=
  map (fun irr =>
         let i := fst irr in
         map (fun e => (fst e + b)%nat) (filter (loc_strong eps2 Dl i) (fst (snd irr))) ++
         map fst (filter (rem_strong eps2 Dl Dg rc i) (snd (snd irr))))
      (indexed (combine (rows (rm_loc M)) (rows (rm_rem M)))).

(* the world: every rank with its own diagonal and the ghost diagonals it received *)
Definition dist_sa_filtered (junk eps2 omega : S) (D : dmat) : dmat :=
  let pats := dm_pattern D in
  let Ds := dist_dia junk D in
  mkDmat (dm_cparts D)
    (map (fun r => rank_sa_filtered eps2 omega (nth r (dm_ranks D) dflt_rank) (nth r Ds []) (exchange pats Ds r)
                                    (cp_rc (nth r pats dflt_cpat)))
         (seq 0 (length (dm_cparts D)))).
Definition dist_conn (junk eps2 : S) (D : dmat) : list (list nat) :=
  let pats := dm_pattern D in
  let Ds := dist_dia junk D in
  flat_map (fun r => rank_conn_rows eps2 (pbeg (dm_cparts D) r) (nth r (dm_ranks D) dflt_rank) (nth r Ds [])
                                    (exchange pats Ds r) (cp_rc (nth r pats dflt_cpat)))
           (seq 0 (length (dm_cparts D))).

(* ---------------------------------------------------------------- tentative prolongation, rank by rank *)
(* pmis::tentative_prolongation 974-1007: P_loc.col = state (own aggregate), P_rem.col = state + dom[owner] *)
Definition ptent_loc_row (r : nat) (p : pnode) : row :=
  match n_st p, n_own p with
  | Agg id, Some o => if Nat.eqb o r then [(id, s1)] else []
  | _, _ => []
  end.
Definition ptent_rem_row (nas : list nat) (r : nat) (p : pnode) : row :=
  match n_st p, n_own p with
  | Agg id, Some o => if Nat.eqb o r then [] else [((pbeg nas o + id)%nat, s1)]
  | _, _ => []
  end.
Definition dist_ptent (parts : list nat) (w : world) : dmat :=
  mkDmat (w_na w)
    (map (fun r =>
            let nodes := map (getn (w_st w)) (seq (pbeg parts r) (psize parts r)) in
            mkRankMat (mkCrs (psize (w_na w) r) (map (ptent_loc_row r) nodes))
                      (mkCrs (psum (w_na w)) (map (ptent_rem_row (w_na w) r) nodes)))
         (seq 0 (length parts))).

(* ---------------------------------------------------------------- transfer_operators *)
Definition dist_sa_smooth (junk eps2 omega : S) (D Pt : dmat) : dmat :=
  dist_product (dist_sa_filtered junk eps2 omega D) Pt.

(* one call of transfer_operators on the matrix A distributed by [parts] (rows and columns) *)
Definition dist_sa_transfer (junk eps2 omega : S) (A : crs) (parts : list nat) : option (dmat * dmat * dmat) :=
  match pmis parts (conn junk A eps2) with
  | None => None
  | Some w =>
      let Pt := dist_ptent parts w in
      let P := dist_sa_smooth junk eps2 omega (split A parts parts) Pt in
      Some (Pt, P, dist_transpose P parts)
  end.

(* ---------------------------------------------------------------- parameters, level by level *)
(* line 105: the coarsening object is used for one level after the other; every call halves eps_strong AFTER the
   aggregation of that call: call number l (l = 0 for the finest level) works with eps_strong * 0.5^l *)
Definition dsa_eps (eps half : S) (l : nat) : S := Nat.iter l (fun e => e * half) eps.
(* pmis.hpp:348  eps_squared = eps_strong * eps_strong *)
Definition dsa_eps2 (eps half : S) (l : nat) : S := dsa_eps eps half l * dsa_eps eps half l.
(* lines 117-122: omega = relax; omega *= 2/3   resp.   omega *= (4/3) / spectral_radius<true>(A, power_iters) *)
Definition dsa_omega (relax c23 : S) : S := relax * c23.
Definition dsa_omega_rho (relax c43 rho : S) : S := relax * (c43 / rho).
(* power_iters = 0: the distributed Gershgorin estimate (identical on all ranks: C11_gershgorin_every_partition) *)
Definition dsa_rho (A : crs) (parts : list nat) : S :=
  nth 0 (dist_gershgorin true (split A parts parts)) s0.

Definition dsa_level_omega (esr : bool) (relax c : S) (A : crs) (parts : list nat) : S :=
  if esr then dsa_omega_rho relax c (dsa_rho A parts) else dsa_omega relax c.

(* call number l of transfer_operators on ONE coarsening object (estimate_spectral_radius = esr, power_iters = 0;
   c = static_cast<scalar_type>(2.0/3) resp. (4.0/3)) *)
Definition dist_sa_level (junk eps half relax c : S) (esr : bool) (l : nat) (A : crs) (parts : list nat) :=
  dist_sa_transfer junk (dsa_eps2 eps half l) (dsa_level_omega esr relax c A parts) A parts.

(* ---------------------------------------------------------------- serial specification *)
(* the filtered matrix I - omega Df^-1 A_f of the whole (assembled) matrix for given strength flags, one row: *)
Definition sa_glob_row (omega : S) (i : nat) (z : list (nat * S * bool)) : row :=
  let dia := fold_left (fun d e => if Nat.eqb (fst (fst e)) i || negb (snd e) then d + snd (fst e) else d) z s0 in
  let d := sa_scale_f omega dia in
  flat_map (fun e => if Nat.eqb (fst (fst e)) i then [(fst (fst e), (s1 - omega) * s1)]
                     else if (snd e : bool) then [(fst (fst e), d * snd (fst e))] else []) z.
Definition sa_glob_filtered (omega : S) (A : crs) (str : nat -> nat * S -> bool) : crs :=
  mkCrs (ncols A) (map (fun ir => sa_glob_row omega (fst ir) (flag_row (str (fst ir)) (snd ir))) (indexed (rows A))).
(* the smoothed prolongation of the assembled matrix: (I - omega Df^-1 A_f) P_tent with the serial product *)
Definition sa_glob_smooth (omega : S) (A : crs) (str : nat -> nat * S -> bool) (Pt : crs) : crs :=
  spgemm_saad (sa_glob_filtered omega A str) Pt false.

(* oracle on gathered operators: strength flags given as a pattern (rows of strong columns) *)
Definition pat_strong (G : list (list nat)) (i : nat) (e : nat * S) : bool := memb (fst e) (nth i G []).
End DistSa.
