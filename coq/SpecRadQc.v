(* SpecRadQc.v -- C08, spectral radius: the boolean checks of SpecRadSpec.v decide the hypotheses of the theorems
   (soundness), closed instances at the exact rationals QcS and at BlockS QcS b, and examples showing that the
   hypotheses -- including the ones about square roots -- are satisfiable in QcS (perfect dyadic squares). *)
From Coq Require Import QArith Qcanon.
From Amgcl Require Import Scalar QcInst Vec Crs Kernels KernelsProofs MatOps MatOpsProofs MatOps2 MatOps2Proofs
  BlockInst NcRing NcRingBlock BlockGershProofs SpecRadOrd SpecRadPower SpecRadBlock SpecRadSpec.
Local Close Scope Qc_scope.
Local Close Scope Q_scope.
Local Open Scope nat_scope.
Local Open Scope S_scope.

(* ---- soundness of the boolean checks (decidable equality only) ---- *)
Section Sound.
Context {S : Scalar}.
Hypothesis Seqb : seqb_spec S.

Lemma forallb_seq (p : nat -> bool) n : forallb p (seq 0 n) = true -> forall i, i < n -> p i = true.
Proof. intros H i Hi. rewrite forallb_forall in H. apply H. apply in_seq. lia. Qed.

Lemma nonzero_vec_sound n (v : vec S) : nonzero_vec n v = true -> exists i, i < n /\ vget v i <> s0.
Proof.
  unfold nonzero_vec. rewrite existsb_exists. intros [i [Hi Hz]]. apply in_seq in Hi. exists i. split; [lia|].
  intro E. unfold is_zero in Hz. rewrite E in Hz. rewrite (proj2 (Seqb s0 s0) eq_refl) in Hz. discriminate.
Qed.

Lemma ldiag_last_diag (A : crs S) i : ldiag A i = Gersh.last_diag A i.
Proof. reflexivity. Qed.

Theorem eig_check_sound (A : crs S) (v : vec S) (lam : S) : eig_check A v lam = true ->
  (forall i, i < nrows A -> Ax A v i = lam * vget v i) /\ (exists i, i < nrows A /\ vget v i <> s0).
Proof.
  unfold eig_check. intro H. apply andb_prop in H as [H1 H2]. split; [|apply nonzero_vec_sound; exact H2].
  intros i Hi. apply Seqb. exact (forallb_seq _ _ H1 i Hi).
Qed.

Theorem eig_check_scaled_sound (A : crs S) (v : vec S) (lam : S) : eig_check_scaled A v lam = true ->
  (forall i, i < nrows A -> Gersh.last_diag A i <> s0) /\
  (forall i, i < nrows A -> Ax A v i = lam * Gersh.last_diag A i * vget v i) /\
  (exists i, i < nrows A /\ vget v i <> s0).
Proof.
  unfold eig_check_scaled. intro H. apply andb_prop in H as [H1 H2].
  split; [|split; [|apply nonzero_vec_sound; exact H2]]; intros i Hi;
    pose proof (forallb_seq _ _ H1 i Hi) as H; cbv beta in H; apply andb_prop in H as [Ha Hb].
  - intro E. rewrite ldiag_last_diag in Ha. unfold is_zero in Ha. rewrite E in Ha.
    rewrite (proj2 (Seqb s0 s0) eq_refl) in Ha. discriminate.
  - apply Seqb. exact Hb.
Qed.
End Sound.

Section BlockSound.
Variable S0 B : Scalar.
Variable emb : S0 -> B.
Hypothesis SeqB : seqb_spec B.

Theorem beig_check_sound (A : crs B) (v : vec B) (lam : S0) : beig_check S0 B emb A v lam = true ->
  (forall i, i < nrows A -> Ax A v i = emb lam * vget v i) /\ (exists i, i < nrows A /\ vget v i <> s0).
Proof.
  unfold beig_check. intro H. apply andb_prop in H as [H1 H2]. split; [|apply (nonzero_vec_sound SeqB); exact H2].
  intros i Hi. apply SeqB. exact (forallb_seq _ _ H1 i Hi).
Qed.

Theorem beig_check_scaled_sound (A : crs B) (v : vec B) (lam : S0) : beig_check_scaled S0 B emb A v lam = true ->
  (forall i, i < nrows A -> sinv (Gersh.last_diag A i) * Gersh.last_diag A i = s1) /\
  (forall i, i < nrows A -> Ax A v i = Gersh.last_diag A i * (emb lam * vget v i)) /\
  (exists i, i < nrows A /\ vget v i <> s0).
Proof.
  unfold beig_check_scaled. intro H. apply andb_prop in H as [H1 H2].
  split; [|split; [|apply (nonzero_vec_sound SeqB); exact H2]]; intros i Hi;
    pose proof (forallb_seq _ _ H1 i Hi) as H; cbv beta in H; apply andb_prop in H as [Ha Hb]; apply SeqB; assumption.
Qed.
End BlockSound.

(* ------------------------------------------------------------------ *)
(* closed at QcS *)

(* what the oracle o.gersh_eig checks is a theorem: a generated eigenpair that passes eig_check is bounded by the
   specification value (which the model, and by the tie the implementation, returns) *)
Theorem gersh_eig_oracle_Qc (A : crs QcS) (v : vec QcS) (lam : QcS) :
  wf A = true -> nrows A = ncols A -> eig_check A v lam = true ->
  bound_check (gersh_spec false A) lam = true.
Proof.
  intros Hwf Hsq H. destruct (eig_check_sound QcS_eqb A v lam H) as [H1 H2].
  unfold bound_check. rewrite (Gersh.gersh_bound_unscaled_Qc A v lam Hwf Hsq H1 H2). reflexivity.
Qed.

Theorem gersh_eig_oracle_scaled_Qc (A : crs QcS) (v : vec QcS) (lam : QcS) :
  wf A = true -> nrows A = ncols A -> eig_check_scaled A v lam = true ->
  bound_check (gersh_spec true A) lam = true.
Proof.
  intros Hwf Hsq H. destruct (eig_check_scaled_sound QcS_eqb A v lam H) as (H0 & H1 & H2).
  unfold bound_check. rewrite (Gersh.gersh_bound_scaled_Qc A v lam Hwf Hsq H0 H1 H2). reflexivity.
Qed.

Theorem power_bound_Qc (scale : bool) (A : crs QcS) (M : QcS) (iters : nat) (start : vec QcS) :
  sle s0 M -> op_bound scale A M -> length start = nrows A ->
  Forall sqrt_ok (power_norms scale A iters start) ->
  let r := spectral_radius_power scale A iters start in sle s0 r /\ sle (r * r) M.
Proof. exact (power_bound QcS_ordfield scale A M iters start). Qed.

Theorem power_oracle_sound_Qc (scale : bool) (A : crs QcS) (iters : nat) (start : vec QcS) :
  wf A = true -> nrows A = ncols A -> 0 < iters -> length start = nrows A ->
  power_oracle scale A iters start (spectral_radius_power scale A iters start) = true.
Proof. exact (power_oracle_sound QcS_ordfield scale A iters start). Qed.

Section BlockQc.
Variable b : nat.
Hypothesis Hb : 0 < b.
Local Notation B := (BlockS QcS b).

Theorem block_gersh_value_Qc' (scale : bool) (lens : list nat) (A : crs B) :
  nrows A <= fold_right Nat.add 0 lens ->
  spectral_radius_gersh scale lens A = blk_embed QcS b (bgersh_spec QcS B (bnrm QcS b) scale A).
Proof. exact (block_gersh_value QcS b Hb QcS_ordfield scale lens A). Qed.

Theorem block_gersh_bound_Qc (A : crs B) (v : vec B) (lam : QcS) :
  wf A = true -> nrows A = ncols A -> blocks_sqrt_ok QcS b A ->
  (forall i, i < nrows A -> Ax A v i = (blk_embed QcS b lam : B) * vget v i) ->
  (exists i, i < nrows A /\ vget v i <> s0) ->
  sle (sabs lam) (bgersh_spec QcS B (bnrm QcS b) false A).
Proof. exact (block_gersh_bound QcS b Hb QcS_ordfield (fun x => eq_refl) A v lam). Qed.

Theorem block_gersh_bound_scaled_Qc (A : crs B) (v : vec B) (lam : QcS) :
  wf A = true -> nrows A = ncols A -> blocks_sqrt_ok QcS b A ->
  (forall i, i < nrows A -> sinv (Gersh.last_diag A i) * Gersh.last_diag A i = s1 /\
                            sqrt_ok2 QcS (bip QcS b (sinv (Gersh.last_diag A i)) (sinv (Gersh.last_diag A i)))) ->
  (forall i, i < nrows A -> Ax A v i = Gersh.last_diag A i * ((blk_embed QcS b lam : B) * vget v i)) ->
  (exists i, i < nrows A /\ vget v i <> s0) ->
  sle (sabs lam) (bgersh_spec QcS B (bnrm QcS b) true A).
Proof. exact (block_gersh_bound_scaled QcS b Hb QcS_ordfield (fun x => eq_refl) A v lam). Qed.
End BlockQc.

(* ------------------------------------------------------------------ *)
(* examples: the hypotheses are satisfiable in QcS *)

(* 5 x (a reflection): every iterate has |A b|^2 = 25, a perfect square *)
Definition exP : crs QcS := mkCrs 2 [ [(0, qc 3 1); (1, qc 4 1)]; [(0, qc 4 1); (1, qc (-3) 1)] ].
(* D^-1 A = [[1, 3/4], [-3/4, 1]] = 5/4 x (a rotation), D = diag(4, 8) *)
Definition exPs : crs QcS := mkCrs 2 [ [(0, qc 4 1); (1, qc 3 1)]; [(0, qc (-6) 1); (1, qc 8 1)] ].
Definition exStart : vec QcS := [qc 3 1; qc 4 1].

Lemma Forall_sqrt_ok_dec (l : list QcS) :
  forallb (fun x => negb (sltb (ssqrt x * ssqrt x) x)) l = true -> Forall sqrt_ok l.
Proof.
  intro H. apply Forall_forall. intros x Hx. rewrite forallb_forall in H. specialize (H x Hx).
  unfold sqrt_ok, Gersh.sle. destruct (sltb (ssqrt x * ssqrt x) x); [discriminate|reflexivity].
Qed.

Example power_example_unscaled :
  wf exP = true /\ nrows exP = ncols exP /\ length exStart = nrows exP /\
  Forall sqrt_ok (power_norms false exP 3 exStart) /\
  map this (power_norms false exP 3 exStart) = [(25#1)%Q; (25#1)%Q; (25#1)%Q] /\
  spectral_radius_power false exP 3 exStart = qc 3 1 /\ frob2 false exP = qc 50 1.
Proof.
  split; [reflexivity|]. split; [reflexivity|]. split; [reflexivity|].
  split; [apply Forall_sqrt_ok_dec; vm_compute; reflexivity|].
  split; [vm_compute; reflexivity|]. split; apply Qc_is_canon; vm_compute; reflexivity.
Qed.

Example power_example_scaled :
  wf exPs = true /\ nrows exPs = ncols exPs /\ length exStart = nrows exPs /\ Gersh.has_last_diag exPs = true /\
  Forall sqrt_ok (power_norms true exPs 3 exStart) /\
  map this (power_norms true exPs 3 exStart) = [(25#1)%Q; (25#16)%Q; (25#16)%Q] /\
  frob2 true exPs = qc 25 8.
Proof.
  split; [reflexivity|]. split; [reflexivity|]. split; [reflexivity|]. split; [reflexivity|].
  split; [apply Forall_sqrt_ok_dec; vm_compute; reflexivity|].
  split; [vm_compute; reflexivity|]. apply Qc_is_canon; vm_compute; reflexivity.
Qed.

(* the sharp constant for exP: |A x|^2 = 25 |x|^2, so the estimate 3 is below the largest singular value 5 *)
Example power_example_sigma : op_bound false exP (qc 25 1) /\
  (let r := spectral_radius_power false exP 3 exStart in sle s0 r /\ sle (r * r) (qc 25 1)).
Proof.
  assert (H : op_bound false exP (qc 25 1)).
  { intros x Hx. destruct x as [|a [|c [|? ?]]]; try discriminate.
    apply (ole_eq QcS_ordfield). rewrite (vsq_pm_op QcS_ordfield) by reflexivity.
    unfold vsq, pm_coef, Ax, mget, rget, exP, vget, qc. cbn -[Q2Qc Qcmult Qcplus].
    change (@sadd QcS) with Qcplus. change (@smul QcS) with Qcmult.
    set (z := Q2Qc 0). set (o := Q2Qc 1).
    replace (Q2Qc (3 # 1)) with (o + o + o)%Qc by (apply Qc_is_canon; reflexivity).
    replace (Q2Qc (4 # 1)) with (o + o + o + o)%Qc by (apply Qc_is_canon; reflexivity).
    replace (Q2Qc (-3 # 1)) with (- (o + o + o))%Qc by (apply Qc_is_canon; reflexivity).
    replace (Q2Qc (25 # 1)) with ((o + o + o + o + o) * (o + o + o + o + o))%Qc by (apply Qc_is_canon; reflexivity).
    unfold z, o. ring. }
  split; [exact H|].
  apply (power_bound QcS_ordfield false exP (qc 25 1) 3 exStart); try reflexivity; try exact H.
  destruct power_example_unscaled as (_ & _ & _ & Hq & _). exact Hq.
Qed.

(* block values, b = 2: every stored block has a perfect-square Frobenius norm (5, 10, 5) *)
Definition mkb2 (l : list Z) : BlockS QcS 2 := blk_of_list QcS 2 (map (fun z => qc z 1) l).
Definition exB : crs (BlockS QcS 2) :=
  mkCrs 2 [ [(0, mkb2 [3; 0; 4; 0]%Z); (1, mkb2 [0; 6; 0; 8]%Z)]; [(1, mkb2 [3; 4; 0; 0]%Z)] ].
Definition exBv : vec (BlockS QcS 2) := [blk_col QcS 2 [qc 3 1; qc 4 1]; blk_col QcS 2 [qc 0 1; qc 0 1]].

Lemma sqrt_ok2_dec (x : QcS) : negb (sltb (ssqrt x) s0) && negb (sltb (ssqrt x * ssqrt x) x) = true -> sqrt_ok2 QcS x.
Proof.
  intro H. apply andb_prop in H as [H1 H2]. unfold sqrt_ok2, Gersh.sle.
  destruct (sltb (ssqrt x) s0); [discriminate|]. destruct (sltb (ssqrt x * ssqrt x) x); [discriminate|]. split; reflexivity.
Qed.

Example block_gersh_example :
  wf exB = true /\ nrows exB = ncols exB /\ blocks_sqrt_ok QcS 2 exB /\
  beig_check QcS (BlockS QcS 2) (blk_embed QcS 2) exB exBv (qc 3 1) = true /\
  bgersh_spec QcS (BlockS QcS 2) (bnrm QcS 2) false exB = qc 15 1 /\
  sle (sabs (qc 3 1 : QcS)) (bgersh_spec QcS (BlockS QcS 2) (bnrm QcS 2) false exB).
Proof.
  assert (Hok : blocks_sqrt_ok QcS 2 exB).
  { intros r e Hr He. apply sqrt_ok2_dec.
    cbn [rows exB In] in Hr. destruct Hr as [<-|[<-|[]]]; cbn [In] in He;
      repeat (destruct He as [<-|He]; [vm_compute; reflexivity|]); destruct He. }
  assert (Hch : beig_check QcS (BlockS QcS 2) (blk_embed QcS 2) exB exBv (qc 3 1) = true) by (vm_compute; reflexivity).
  split; [reflexivity|]. split; [reflexivity|]. split; [exact Hok|]. split; [exact Hch|].
  split; [apply Qc_is_canon; vm_compute; reflexivity|].
  destruct (beig_check_sound QcS (BlockS QcS 2) (blk_embed QcS 2) (BlockS_eqb QcS 2 QcS_eqb) exB exBv (qc 3 1) Hch) as [H1 H2].
  apply (block_gersh_bound_Qc 2 (Nat.lt_0_succ 1) exB exBv (qc 3 1)); try reflexivity; assumption.
Qed.
