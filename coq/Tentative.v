(* Tentative.v -- tentative_prolongation (amgcl/coarsening/tentative_prolongation.hpp:128-243).
   Definitions only; proofs: CoarsenProofs.v.

   Without a near-null space: one unit entry per aggregated row.
   With a near-null space: the Householder QR (amgcl/detail/qr.hpp, hard-wired to
   double) is an ORACLE: the model takes a function [qr] from the d x cols block
   B_aggr (list of rows) to the factors (Q : d x cols rows, R : cols x cols rows);
   theorems about this variant carry Q R = B_aggr and Q^T Q = I as hypotheses.
   The std::stable_sort by (size_t)aggr[i] / block_size followed by the aggr_ptr
   scan is modelled by its result: the members of block aggregate i are the rows k
   with aggr[k] >= 0 and aggr[k] / block_size = i, in increasing k. *)
From Amgcl Require Import Scalar Vec Crs Kernels MatOps Aggregates.
Local Open Scope S_scope.

Section Tentative.
Context {S : Scalar}.
Local Notation row := (row S).
Local Notation crs := (crs S).

(* nullspace.cols == 0:  P.ptr[i+1] = (aggr[i] >= 0);  col = aggr[i], val = identity *)
Definition tentative_row (a : Z) : row :=
  if Z.leb 0 a then [(Z.to_nat a, s1)] else [].
Definition tentative_prolongation (naggr : nat) (id : list Z) : crs :=
  mkCrs naggr (map tentative_row id).

(* nullspace.cols > 0 *)
Definition mat := list (list S).
Definition mrow (M : mat) (i : nat) : list S := nth i M [].
Definition mentry (M : mat) (i j : nat) : S := nth j (mrow M i) s0.

Definition members (bs : nat) (id : list Z) (i : nat) : list nat :=
  filter (fun k => Z.leb 0 (zget id k) && Nat.eqb (Nat.div (Z.to_nat (zget id k)) bs) i)
         (seq 0 (length id)).

Fixpoint index_of (k : nat) (l : list nat) : nat :=
  match l with
  | [] => 0
  | x :: tl => if Nat.eqb x k then 0 else Datatypes.S (index_of k tl)
  end.

Section WithQR.
Variable qr : mat -> mat * mat.

Definition ns_factors (bs nba : nat) (id : list Z) (B : mat) : list (list nat * (mat * mat)) :=
  map (fun i => let mem := members bs id i in (mem, qr (map (mrow B) mem))) (seq 0 nba).

(* v[jj] = qr.Q(ii,jj) * identity;  c[jj] = i*cols + jj *)
Definition tentative_ns_row (bs cols : nat) (facs : list (list nat * (mat * mat))) (k : nat) (a : Z) : row :=
  if Z.ltb a 0 then [] else
  let i := Nat.div (Z.to_nat a) bs in
  let f := nth i facs ([], ([], [])) in
  let ii := index_of k (fst f) in
  map (fun jj => ((i * cols + jj)%nat, mentry (fst (snd f)) ii jj * s1)) (seq 0 cols).

(* returns (P, Bnew) ; Bnew = the R factors, one cols x cols block per aggregate *)
Definition tentative_prolongation_ns (bs cols naggr : nat) (id : list Z) (B : mat) : crs * list mat :=
  let nba := Nat.div naggr bs in
  let facs := ns_factors bs nba id B in
  (mkCrs (cols * nba) (map (fun ka => tentative_ns_row bs cols facs (fst ka) (snd ka)) (indexed id)),
   map (fun f => snd (snd f)) facs).
End WithQR.

End Tentative.
